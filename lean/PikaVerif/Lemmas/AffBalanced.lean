import PikaVerif.Lemmas.AffScatter
/-! C15: the balanced decoder (both phases). -/
namespace PikaVerif.Aff
open PikaVerif

theorem getD_lt (l : List Nat) {j : Nat} (h : j < l.length) : l.getD j 0 = l[j] := by
  simp [List.getD_eq_getElem?_getD, List.getElem?_eq_getElem h]

/-- invariant of the first phase of the balanced decoder -/
structure BInv (cfg : Cfg) (s : BSt) : Prop where
  len : ∀ c, s.cnt c = (s.idx c).length
  mem : ∀ c x, x ∈ s.idx c → c < effCores cfg ∧ x < s.nxt c ∧ x < cfg.t.pus c ∧
    ind cfg (base cfg.t c + x) = true
  sorted : ∀ c, (s.idx c).Pairwise (· < ·)
  sum : sumTo (effCores cfg) s.cnt = s.k

theorem balCore_inv (cfg : Cfg) (goal : Nat) {c : Nat} (hc : c < effCores cfg)
    (s : BSt) (h : BInv cfg s ∧ s.k < goal) :
    CtlP (fun s => BInv cfg s ∧ s.k < goal) (fun s => BInv cfg s ∧ s.k = goal) False
      (balCore cfg 0 goal c s) := by
  obtain ⟨h, hk⟩ := h
  have hcn : c < cfg.t.nc := Nat.lt_of_lt_of_le hc (effCores_le cfg)
  unfold balCore
  simp only [Nat.add_zero, corePus_eq cfg.t hcn]
  obtain ⟨s1, s2, _⟩ := scanPu_spec (fun p => inMask cfg c p) (cfg.t.pus c) (s.nxt c)
  generalize scanPu (fun p => inMask cfg c p) (cfg.t.pus c) (s.nxt c) = r at s1 s2
  obtain ⟨j, u⟩ := r
  simp only at s1 s2
  cases u with
  | false =>
    simp only [Bool.not_false, ↓reduceIte, CtlP]
    refine ⟨⟨h.len, ?_, h.sorted, h.sum⟩, hk⟩
    intro c' x hx
    obtain ⟨h1, h2, h3⟩ := h.mem c' x hx
    refine ⟨h1, ?_, h3⟩
    by_cases hcc : c' = c
    · subst hcc; simp only [upd_same]; omega
    · simpa [upd, hcc] using h2
  | true =>
    obtain ⟨t1, t2, t3, _⟩ := s2 rfl
    have hx : j - 1 < cfg.t.pus c := by omega
    have hind : ind cfg (base cfg.t c + (j - 1)) = true := by
      rw [← inMask_eq cfg hcn hx]; exact t3
    simp only [Bool.not_true, Bool.false_eq_true, ↓reduceIte, upd_same]
    have hI : BInv cfg (BSt.mk (s.k + 1) (upd s.nxt c j) (upd s.idx c (s.idx c ++ [j - 1]))
        (upd s.cnt c (s.cnt c + 1))) := by
      refine ⟨?_, ?_, ?_, ?_⟩ <;> dsimp only
      · intro c'
        by_cases hcc : c' = c
        · subst hcc; simp [h.len c']
        · simp [upd, hcc, h.len c']
      · intro c' x hx'
        by_cases hcc : c' = c
        · subst hcc
          simp only [upd_same, List.mem_append, List.mem_singleton] at hx' ⊢
          rcases hx' with hx' | hx'
          · obtain ⟨h1, h2, h3⟩ := h.mem c' x hx'
            exact ⟨h1, by omega, h3⟩
          · subst hx'; exact ⟨hc, by omega, hx, hind⟩
        · simp only [upd, hcc, ↓reduceIte] at hx' ⊢
          exact h.mem c' x hx'
      · intro c'
        by_cases hcc : c' = c
        · subst hcc
          simp only [upd_same, List.pairwise_append]
          refine ⟨h.sorted c', by simp, ?_⟩
          intro a ha b hb
          simp only [List.mem_singleton] at hb
          have := (h.mem c' a ha).2.1
          omega
        · simp only [upd, hcc, ↓reduceIte]; exact h.sorted c'
      · have e : sumTo (effCores cfg) (upd s.cnt c (s.cnt c + 1)) =
            sumTo (effCores cfg) s.cnt - s.cnt c + (s.cnt c + 1) :=
          sumTo_upd_eq (effCores cfg) (fun x => x) s.cnt c (s.cnt c + 1) hc
        have l := le_sumTo (f := s.cnt) hc
        have hs := h.sum
        rw [e]; omega
    by_cases hn : s.k + 1 = goal
    · simp only [hn, ↓reduceIte, CtlP]
      rw [← hn]; exact ⟨hI, trivial⟩
    · simp only [hn, ↓reduceIte, CtlP]
      exact ⟨hI, by omega⟩

theorem balLoop_inv (cfg : Cfg) (goal : Nat) : ∀ (f : Nat) (s : BSt), BInv cfg s → s.k < goal →
    ∀ b, balLoop cfg 0 goal (effCores cfg) f s = some b → BInv cfg b ∧ b.k = goal := by
  intro f
  induction f with
  | zero => intro s _ _ b h; simp [balLoop] at h
  | succ f ih =>
    intro s hs hk b h
    simp only [balLoop, balPass] at h
    have hp := forRange_inv (balCore cfg 0 goal) (fun _ s => BInv cfg s ∧ s.k < goal)
      (fun s => BInv cfg s ∧ s.k = goal) False (effCores cfg) s
      (fun c s hc hs => balCore_inv cfg goal hc s hs) ⟨hs, hk⟩
    cases hr : forRange (effCores cfg) (balCore cfg 0 goal) s with
    | fin s' =>
      rw [hr] at hp h
      simp only [Option.some.injEq] at h
      subst h; exact hp
    | err => rw [hr] at hp; exact hp.elim
    | run s' =>
      rw [hr] at hp h
      simp only at h
      split at h
      · simp at h
      · exact ih s' hp.1 hp.2 b h

theorem init_BInv (cfg : Cfg) : BInv cfg BSt.init :=
  ⟨fun _ => rfl, fun _ _ h => by simp [BSt.init] at h, fun _ => by simp [BSt.init],
   by simp [BSt.init]; exact sumTo_eq_zero (fun _ _ => rfl)⟩

theorem balPhase1_inv (cfg : Cfg) (goal : Nat) (b : BSt)
    (h : balPhase1 cfg 0 goal (effCores cfg) = some b) : BInv cfg b ∧ b.k = goal := by
  unfold balPhase1 at h
  split at h
  · rename_i h0
    simp only [Option.some.injEq] at h
    subst h; exact ⟨init_BInv cfg, by simp [BSt.init, h0]⟩
  · exact balLoop_inv cfg goal _ _ (init_BInv cfg) (by simp [BSt.init]; omega) b h


/-- invariant of the second phase at loop position (core `c`, `j`-th PU of the core) -/
structure PInv (cfg : Cfg) (b : BSt) (c j : Nat) (s : ASt) : Prop where
  count : s.k = sumTo c b.cnt + j
  bound : ∀ i, i < s.k → ∃ c' j', c' < effCores cfg ∧ j' < b.cnt c' ∧ (c' < c ∨ (c' = c ∧ j' < j)) ∧
    s.aff i = [base cfg.t c' + (b.idx c').getD j' 0] ∧
    s.pn i = base cfg.t c' + (b.idx c').getD j' 0
  fresh : ∀ i, s.k ≤ i → s.aff i = []
  distinct : ∀ i i', i < s.k → i' < s.k → i ≠ i' → s.aff i ≠ s.aff i'

theorem balAssign_inv (cfg : Cfg) (hu : effUsed cfg = 0) (b : BSt) (hb : BInv cfg b) {c j : Nat}
    (hc : c < effCores cfg) (hj : j < b.cnt c) (s : ASt) (h : PInv cfg b c j s) :
    CtlP (PInv cfg b c (j + 1)) (fun _ => False) False
      (balAssign cfg b (effUsed cfg) (effUsed cfg) c j s) := by
  have hcn : c < cfg.t.nc := Nat.lt_of_lt_of_le hc (effCores_le cfg)
  have hf := h.fresh s.k (Nat.le_refl _)
  have hjl : j < (b.idx c).length := by rw [← hb.len c]; exact hj
  have hmem : (b.idx c).getD j 0 ∈ b.idx c := by rw [getD_lt _ hjl]; exact List.getElem_mem hjl
  obtain ⟨_, _, hx, _⟩ := hb.mem c _ hmem
  unfold balAssign
  simp only [hf, ne_eq, not_true_eq_false, ↓reduceIte, hu, Nat.add_zero, threadMask,
    puNumber_eq cfg.t hcn hx, CtlP]
  have hnew : ∀ i, i < s.k → s.aff i ≠ [base cfg.t c + (b.idx c).getD j 0] := by
    intro i hi he
    obtain ⟨c', j', h1, h2, h3, h4, _⟩ := h.bound i hi
    rw [h4] at he
    have he' : base cfg.t c' + (b.idx c').getD j' 0 = base cfg.t c + (b.idx c).getD j 0 := by
      simpa using he
    have hjl' : j' < (b.idx c').length := by rw [← hb.len c']; exact h2
    have hmem' : (b.idx c').getD j' 0 ∈ b.idx c' := by
      rw [getD_lt _ hjl']; exact List.getElem_mem hjl'
    obtain ⟨_, _, hx', _⟩ := hb.mem c' _ hmem'
    obtain ⟨e1, e2⟩ := base_inj cfg.t hx' hx he'
    subst e1
    have hlt : j' < j := by omega
    have := (List.pairwise_iff_getElem.1 (hb.sorted c')) j' j hjl' hjl hlt
    rw [getD_lt _ hjl', getD_lt _ hjl] at e2
    omega
  refine ⟨by simp only [h.count]; omega, ?_, ?_, ?_⟩ <;> dsimp only
  · intro i hi
    by_cases hik : i = s.k
    · subst hik
      exact ⟨c, j, hc, hj, Or.inr ⟨rfl, by omega⟩, by simp, by simp⟩
    · obtain ⟨c', j', h1, h2, h3, h4, h5⟩ := h.bound i (by omega)
      refine ⟨c', j', h1, h2, ?_, by simp [upd, hik, h4], by simp [upd, hik, h5]⟩
      rcases h3 with h3 | ⟨h3, h3'⟩
      · exact Or.inl h3
      · exact Or.inr ⟨h3, by omega⟩
  · intro i hi
    have : i ≠ s.k := by omega
    simp [upd, this, h.fresh i (by omega)]
  · intro i i' hi hi' hne
    by_cases hik : i = s.k
    · have hjk : i' ≠ s.k := by omega
      simp only [upd, hik, hjk, ↓reduceIte]
      exact fun he => hnew i' (by omega) he.symm
    · by_cases hjk : i' = s.k
      · simp only [upd, hik, hjk, ↓reduceIte]
        exact hnew i (by omega)
      · simp only [upd, hik, hjk, ↓reduceIte]
        exact h.distinct i i' (by omega) (by omega) hne

theorem balPhase2_inv (cfg : Cfg) (hu : effUsed cfg = 0) (b : BSt) (hb : BInv cfg b) (s : ASt)
    (h : PInv cfg b 0 0 s) :
    CtlP (PInv cfg b (effCores cfg) 0) (fun _ => False) False
      (balPhase2 cfg b (effUsed cfg) (effUsed cfg) (effCores cfg) s) := by
  unfold balPhase2
  refine forRange_inv _ (fun c => PInv cfg b c 0) (fun _ => False) False (effCores cfg) s ?_ h
  intro c s hc hs
  have := forRange_inv (balAssign cfg b (effUsed cfg) (effUsed cfg) c) (fun j => PInv cfg b c j)
    (fun _ => False) False (b.cnt c) s (fun j s hj hs => balAssign_inv cfg hu b hb hc hj s hs) hs
  cases hr : forRange (b.cnt c) (balAssign cfg b (effUsed cfg) (effUsed cfg) c) s with
  | run s' =>
    rw [hr] at this
    simp only [CtlP] at this ⊢
    refine ⟨by rw [this.count, sumTo_succ]; omega, ?_, this.fresh, this.distinct⟩
    intro i hi
    obtain ⟨c', j', h1, h2, h3, h4⟩ := this.bound i hi
    refine ⟨c', j', h1, h2, ?_, h4⟩
    rcases h3 with h3 | ⟨h3, _⟩
    · exact Or.inl (by omega)
    · exact Or.inl (by omega)
  | fin s' => rw [hr] at this; exact this
  | err => rw [hr] at this; exact this

/-- **balanced** (partial correctness): whatever the decoder returns satisfies C15. -/
theorem balanced_ok (cfg : Cfg) (hu : effUsed cfg = 0) (aff : Nat → List Nat) (pn : Nat → Nat)
    (h : decodeBalanced cfg = .ok aff pn) : Good cfg aff pn := by
  unfold decodeBalanced at h
  split at h
  · simp at h
  · split at h
    · simp at h
    · rename_i b hb1
      obtain ⟨hb, hk⟩ := balPhase1_inv cfg cfg.n b hb1
      have h0 : PInv cfg b 0 0 ASt.init :=
        ⟨rfl, fun _ hi => absurd hi (Nat.not_lt_zero _), fun _ _ => rfl,
         fun _ _ hi => absurd hi (Nat.not_lt_zero _)⟩
      have hp := balPhase2_inv cfg hu b hb ASt.init h0
      have fin : ∀ s, PInv cfg b (effCores cfg) 0 s → Good cfg s.aff s.pn := by
        intro s hs
        have hkn : s.k = cfg.n := by rw [hs.count, hb.sum, hk]; rfl
        refine ⟨?_, ?_⟩
        · intro i hi
          obtain ⟨c', j', h1, h2, _, h4, h5⟩ := hs.bound i (by omega)
          have hjl' : j' < (b.idx c').length := by rw [← hb.len c']; exact h2
          have hmem' : (b.idx c').getD j' 0 ∈ b.idx c' := by
            rw [getD_lt _ hjl']; exact List.getElem_mem hjl'
          obtain ⟨_, _, hx', hi'⟩ := hb.mem c' _ hmem'
          exact ⟨_, h4, h5,
            base_add_lt_numPus cfg.t (Nat.lt_of_lt_of_le h1 (effCores_le cfg)) hx', hi'⟩
        · intro i i' hi hi'; exact hs.distinct i i' (by omega) (by omega)
      split at h
      · rename_i s hr
        rw [hr] at hp
        simp only [Res.ok.injEq] at h
        obtain ⟨e1, e2⟩ := h
        subst e1; subst e2
        exact fin s hp
      · rename_i s hr
        rw [hr] at hp; exact hp.elim
      · simp at h

end PikaVerif.Aff
