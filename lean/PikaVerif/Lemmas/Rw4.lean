import PikaVerif.Lemmas.Rw3
/-! Bookkeeping of the modifications of the wrapped value (for "sees all earlier writes"). -/
namespace PikaVerif.Rw
open PikaVerif

theorem decRc_frame (s : St) (t g : Nat) :
    (decRc s t g).acc = s.acc ∧ (decRc s t g).na = s.na ∧ (decRc s t g).wr = s.wr ∧
    (decRc s t g).ver = s.ver := by
  unfold decRc; split
  · split <;> exact ⟨rfl, rfl, rfl, rfl⟩
  · exact ⟨rfl, rfl, rfl, rfl⟩

theorem grant_frame (s : St) (t a : Nat) (det : Bool) :
    (grant s t a det).acc = upd s.acc a (if det then .released else .granted 0) ∧
    (grant s t a det).na = s.na ∧ (grant s t a det).wr = s.wr ∧ (grant s t a det).ver = s.ver := by
  unfold grant
  cases det with
  | false => exact ⟨rfl, rfl, rfl, rfl⟩
  | true =>
    simp only [if_true]
    obtain ⟨h1, h2, h3, h4⟩ := decRc_frame { s with grants := upd s.grants a (s.grants a + 1), acc := upd s.acc a .released } t (s.grp a)
    exact ⟨h1, h2, h3, h4⟩

/-- what a step may do to the fields the value-version argument depends on -/
def Frame (s s' : St) : Prop :=
  (∀ a, post (s.acc a) = true → post (s'.acc a) = true) ∧
  ((s'.na = s.na ∧ s'.wr = s.wr ∧ s'.ver = s.ver) ∨
   (s'.na = s.na + 1 ∧ s'.wr = s.wr ∧ s'.ver = s.ver) ∨
   (∃ a c, s.acc a = .granted c ∧ s'.na = s.na ∧ s'.wr = upd s.wr a (s.wr a + 1) ∧ s'.ver = s.ver + 1))

theorem frame_of_acc_upd (s s' : St) (a : Nat) (v : Acc) (hv : post (s.acc a) = true → post v = true)
    (h1 : s'.acc = upd s.acc a v) (h2 : s'.na = s.na) (h3 : s'.wr = s.wr) (h4 : s'.ver = s.ver) :
    Frame s s' := by
  refine ⟨?_, Or.inl ⟨h2, h3, h4⟩⟩
  intro b hb
  rw [h1]; simp only [upd]
  split
  · rename_i e; subst e; exact hv hb
  · exact hb

theorem frame_same (s s' : St) (h1 : s'.acc = s.acc) (h2 : s'.na = s.na) (h3 : s'.wr = s.wr)
    (h4 : s'.ver = s.ver) : Frame s s' :=
  ⟨fun b hb => by rw [h1]; exact hb, Or.inl ⟨h2, h3, h4⟩⟩

theorem step_frame (s s' : St) (e : Ev) (hi : Inv s) (h : step s e = some s') : Frame s s' := by
  cases e with
  | req t a w newg died =>
    simp only [step] at h
    split at h
    · rename_i hc
      obtain ⟨_, ha⟩ := hc
      subst ha
      have hnone : ∀ b, b = s.na → post (s.acc b) = true → False := by
        intro b hb hp; subst hb; rw [hi.accNone _ (Nat.le_refl _)] at hp; simp [post] at hp
      split at h
      · split at h
        · simp only [Option.some.injEq] at h; subst h
          refine ⟨?_, Or.inr (Or.inl ?_)⟩
          · intro b hb
            split
            · rw [(decRc_frame _ _ _).1]; dsimp only; simp only [upd]; split
              · rename_i e; exact (hnone b e hb).elim
              · exact hb
            · dsimp only; simp only [upd]; split
              · rename_i e; exact (hnone b e hb).elim
              · exact hb
          · split
            · obtain ⟨_, f2, f3, f4⟩ := decRc_frame { s with ng := s.ng + 1, rw := upd s.rw s.ng w, head := upd s.head s.ng (some []), dn := upd s.dn s.ng (if s.ng = 0 then .pend t else .idle), rc := upd s.rc s.ng (if s.ng = 0 then 2 else 3), dead := upd s.dead s.ng false, first := upd s.first s.ng s.na, lastRw := w, na := s.na + 1, grp := upd s.grp s.na s.ng, acc := upd s.acc s.na .sender } t (s.ng - 1)
              exact ⟨f2, f3, f4⟩
            · exact ⟨rfl, rfl, rfl⟩
        · simp at h
      · split at h
        · simp only [Option.some.injEq] at h; subst h
          refine ⟨?_, Or.inr (Or.inl ⟨rfl, rfl, rfl⟩)⟩
          intro b hb
          dsimp only; simp only [upd]; split
          · rename_i e; exact (hnone b e hb).elim
          · exact hb
        · simp at h
    · simp at h
  | destroy t died =>
    simp only [step] at h
    split at h
    · split at h
      · split at h
        · simp only [Option.some.injEq] at h; subst h
          obtain ⟨f1, f2, f3, f4⟩ := decRc_frame { s with alive := false } t (s.ng - 1)
          exact frame_same _ _ f1 f2 f3 f4
        · simp at h
      · split at h
        · simp only [Option.some.injEq] at h; subst h
          exact frame_same _ _ rfl rfl rfl rfl
        · simp at h
    · simp at h
  | start t a det =>
    simp only [step] at h
    split at h
    · rename_i hx
      simp only [Option.some.injEq] at h; subst h
      exact frame_of_acc_upd _ _ a _ (by rw [hx]; simp [post]) rfl rfl rfl rfl
    · simp at h
  | load t a cls ack died =>
    simp only [step] at h
    split at h
    · rename_i t' det hx
      split at h
      · split at h
        · split at h
          · simp only [Option.some.injEq] at h; subst h
            exact frame_of_acc_upd _ _ a _ (by rw [hx]; simp [post]) rfl rfl rfl rfl
          · simp at h
        · split at h
          · simp only [Option.some.injEq] at h; subst h
            obtain ⟨f1, f2, f3, f4⟩ := grant_frame s t a det
            exact frame_of_acc_upd _ _ a _ (by rw [hx]; simp [post]) f1 f2 f3 f4
          · simp at h
      · simp at h
    · simp at h
  | cas t a ok cls ack died =>
    simp only [step] at h
    split at h
    · rename_i t' det hh hx
      split at h
      · split at h
        · split at h
          · split at h
            · simp only [Option.some.injEq] at h; subst h
              exact frame_of_acc_upd _ _ a _ (by rw [hx]; simp [post]) rfl rfl rfl rfl
            · simp at h
          · split at h
            · simp only [Option.some.injEq] at h; subst h
              exact frame_of_acc_upd _ _ a _ (by rw [hx]; simp [post]) rfl rfl rfl rfl
            · simp at h
        · split at h
          · simp only [Option.some.injEq] at h; subst h
            obtain ⟨f1, f2, f3, f4⟩ := grant_frame s t a det
            exact frame_of_acc_upd _ _ a _ (by rw [hx]; simp [post]) f1 f2 f3 f4
          · simp at h
      · simp at h
    · simp at h
  | xchg t g cls =>
    simp only [step] at h
    split at h
    · split at h
      · simp only [Option.some.injEq] at h; subst h
        exact frame_same _ _ rfl rfl rfl rfl
      · simp at h
    · simp at h
  | cont t g ack died =>
    simp only [step] at h
    split at h
    · rename_i t' a rest hdn
      split at h
      · rename_i det hx
        split at h
        · simp only [Option.some.injEq] at h; subst h
          obtain ⟨f1, f2, f3, f4⟩ := grant_frame { s with dn := upd s.dn g (.drain t rest) } t a det
          exact frame_of_acc_upd _ _ a _ (by rw [hx]; simp [post]) f1 f2 f3 f4
        · simp at h
      · simp at h
    · simp at h
  | copy t a =>
    simp only [step] at h
    split at h
    · split at h
      · simp only [Option.some.injEq] at h; subst h
        exact frame_of_acc_upd _ _ a _ (by intro _; rfl) rfl rfl rfl rfl
      · simp at h
    · simp at h
  | rel t a died =>
    simp only [step] at h
    split at h
    · rename_i c hx
      split at h
      · simp only [Option.some.injEq] at h; subst h
        obtain ⟨f1, f2, f3, f4⟩ := decRc_frame { s with acc := upd s.acc a (relAcc c) } t (s.grp a)
        exact frame_of_acc_upd _ _ a (relAcc c) (by intro _; cases c <;> rfl) f1 f2 f3 f4
      · simp at h
    · simp at h
  | write t a v =>
    simp only [step] at h
    split at h
    · rename_i c hx
      split at h
      · simp only [Option.some.injEq] at h; subst h
        exact ⟨fun b hb => hb, Or.inr (Or.inr ⟨a, c, hx, rfl, rfl, rfl⟩)⟩
      · simp at h
    · simp at h
  | readv t a v =>
    simp only [step] at h
    split at h
    · split at h
      · simp only [Option.some.injEq] at h; subst h
        exact frame_same _ _ rfl rfl rfl rfl
      · simp at h
    · simp at h
  | vfree t =>
    simp only [step] at h
    split at h
    · simp only [Option.some.injEq] at h; subst h
      exact frame_same _ _ rfl rfl rfl rfl
    · simp at h

/-- bookkeeping of the modifications of the wrapped value -/
structure InvW (s : St) : Prop where
  verSum : s.ver = sumTo s.na s.wr
  wrOut : ∀ a, s.na ≤ a → s.wr a = 0
  wrPost : ∀ a, 0 < s.wr a → post (s.acc a) = true

theorem invW_init : InvW init := by
  refine ⟨?_, ?_, ?_⟩ <;> simp [init]

theorem step_invW (s s' : St) (e : Ev) (hi : Inv s) (hw : InvW s) (h : step s e = some s') : InvW s' := by
  obtain ⟨hm, hc⟩ := step_frame s s' e hi h
  obtain ⟨w1, w2, w3⟩ := hw
  rcases hc with ⟨c1, c2, c3⟩ | ⟨c1, c2, c3⟩ | ⟨a, c, hx, c1, c2, c3⟩
  · refine ⟨?_, ?_, ?_⟩
    · rw [c1, c2, c3]; exact w1
    · intro b hb; rw [c2]; exact w2 b (by omega)
    · intro b hb; rw [c2] at hb; exact hm b (w3 b hb)
  · refine ⟨?_, ?_, ?_⟩
    · rw [c1, c2, c3, sumTo_succ, w2 s.na (Nat.le_refl _)]; omega
    · intro b hb; rw [c2]; exact w2 b (by omega)
    · intro b hb; rw [c2] at hb; exact hm b (w3 b hb)
  · have ha : a < s.na := lt_of_acc hi (by rw [hx]; simp)
    refine ⟨?_, ?_, ?_⟩
    · rw [c1, c2, c3]
      have h5 : sumTo s.na (upd s.wr a (s.wr a + 1)) + s.wr a = sumTo s.na s.wr + (s.wr a + 1) :=
        sumTo_upd s.na (fun x => x) s.wr a (s.wr a + 1) ha
      omega
    · intro b hb; rw [c2]; have : b ≠ a := by omega
      simp only [upd, this, if_false]; exact w2 b (by omega)
    · intro b hb
      rw [c2] at hb; simp only [upd] at hb
      by_cases e : b = a
      · subst e; exact hm b (by rw [hx]; rfl)
      · simp only [e, if_false] at hb; exact hm b (w3 b hb)

theorem invW_of_accepted {log : List Ev} {s : St} (h : runLog step init log = some s) : Inv s ∧ InvW s := by
  have : ∀ (log : List Ev) (s0 s : St), Inv s0 ∧ InvW s0 → runLog step s0 log = some s → Inv s ∧ InvW s := by
    intro log
    induction log with
    | nil => intro s0 s h0 h; simp at h; exact h ▸ h0
    | cons e es ih =>
      intro s0 s h0 h
      simp only [runLog] at h
      cases hs : step s0 e with
      | none => simp [hs] at h
      | some s1 =>
        simp only [hs] at h
        exact ih s1 s ⟨step_inv s0 s1 e h0.1 hs, step_invW s0 s1 e h0.1 h0.2 hs⟩ h
  exact this log _ s ⟨inv_init, invW_init⟩ h

theorem grant_acc_post (s : St) (t a : Nat) (det : Bool) : post ((grant s t a det).acc a) = true := by
  rw [(grant_frame s t a det).1]; cases det <;> simp [upd, post]

theorem decRc_dn_self (s : St) (t g : Nat) : (decRc s t g).dn g = s.dn g := by
  unfold decRc; split
  · split
    · have : g ≠ g + 1 := by omega
      simp [upd, this]
    · rfl
  · rfl

theorem grant_dn_self (s : St) (t a : Nat) (det : Bool) : (grant s t a det).dn (s.grp a) = s.dn (s.grp a) := by
  unfold grant
  cases det with
  | false => rfl
  | true => simp only [if_true]; exact decRc_dn_self _ t (s.grp a)

theorem decRc_ng (s : St) (t g : Nat) : (decRc s t g).ng = s.ng := by
  unfold decRc; split
  · split <;> rfl
  · rfl

theorem grant_ng (s : St) (t a : Nat) (det : Bool) : (grant s t a det).ng = s.ng := by
  unfold grant
  cases det with
  | false => rfl
  | true => simp only [if_true]; exact decRc_ng _ t (s.grp a)


end PikaVerif.Rw
