import PikaVerif.Lemmas.BulkArith
/-!
# `get_chunk_size`: termination and result under explicit bounds; divergence otherwise

The only facts used about the constants of the generated loop (`8`, `*= 2`) are in this file;
the partition theorems of `Props/C11.lean` are parametric in the chunk size.
-/
namespace PikaVerif.ChunkSize
open PikaVerif PikaVerif.Gen.BulkArith PikaVerif.BulkArith

theorem gcsCond_exact (S : CTy) (w n c : Nat) (hcw : 8 * (c * w) < 4294967296) (hc : 1 ≤ c)
    (hw : 1 ≤ w) (hn : n < 4294967296) :
    gcsCond S w n c = decide (8 * (c * w) < n) := by
  have hc32 : c < 4294967296 := by
    have : c ≤ c * w := Nat.le_mul_of_pos_right _ (by omega)
    omega
  have hw32 : w < 4294967296 := by
    have : w ≤ c * w := Nat.le_mul_of_pos_left _ (by omega)
    omega
  have e : ((c * w : Nat) : Int) = (c : Int) * w := Int.natCast_mul _ _
  unfold gcsCond
  rw [u32_wrap c (by omega) (by omega), u32_wrap w (by omega) (by omega), ← e]
  simp (disch := omega) only [u32_wrap]
  congr 1
  apply propext
  omega

theorem gcsStep_exact (c : Nat) (hc : 2 * c < 4294967296) : gcsStep c = ((2 * c : Nat) : Int) := by
  unfold gcsStep
  simp (disch := omega) only [u32_wrap]
  omega

/-- Loop invariant: `c = 1`, or the previous value `c/2` still satisfied the loop condition. -/
theorem gcsLoop_spec (S : CTy) (w n : Nat) (hw : 1 ≤ w) (hw8 : 8 * w < 4294967296)
    (hn : n ≤ 2147483648) :
    ∀ (f c : Nat), 1 ≤ c → (c = 1 ∨ 4 * (c * w) < n) → n ≤ c * 2 ^ f →
      ∃ r : Nat, gcsLoop S w n (f + 1) c = some (r : Int) ∧ 1 ≤ r ∧ n ≤ 8 * (r * w) ∧
        (r = 1 ∨ 4 * (r * w) < n) := by
  intro f
  induction f with
  | zero =>
    intro c hc hinv hfuel
    have hcw : c ≤ c * w := Nat.le_mul_of_pos_right _ (by omega)
    have hb : 8 * (c * w) < 4294967296 := by
      rcases hinv with rfl | h
      · omega
      · omega
    refine ⟨c, ?_, hc, by omega, hinv⟩
    simp only [gcsLoop]
    rw [gcsCond_exact S w n c hb hc hw (by omega)]
    have : ¬ (8 * (c * w) < n) := by omega
    simp [this]
  | succ f ih =>
    intro c hc hinv hfuel
    have hcw : c ≤ c * w := Nat.le_mul_of_pos_right _ (by omega)
    have hb : 8 * (c * w) < 4294967296 := by
      rcases hinv with rfl | h
      · omega
      · omega
    rw [gcsLoop, gcsCond_exact S w n c hb hc hw (by omega)]
    by_cases hcond : 8 * (c * w) < n
    · simp only [hcond, decide_true, if_true]
      rw [gcsStep_exact c (by omega)]
      have e : 2 * c * w = 2 * (c * w) := Nat.mul_assoc 2 c w
      apply ih (2 * c) (by omega) (Or.inr (by rw [e]; omega))
      rw [Nat.pow_succ] at hfuel
      have : 2 * c * 2 ^ f = c * (2 ^ f * 2) := by
        rw [Nat.mul_comm 2 c, Nat.mul_assoc, Nat.mul_comm 2 (2 ^ f)]
      omega
    · refine ⟨c, ?_, hc, by omega, hinv⟩
      simp [hcond]

/-- `get_chunk_size` terminates for `n ≤ 2^31`, `w < 2^29` and returns the least power-of-two
    multiple… more precisely some `r ≥ 1` with `n ≤ 8·r·w` and (`r = 1` or `4·r·w < n`). -/
theorem getChunkSize_spec (S : CTy) (w n : Nat) (hw : 1 ≤ w) (hw8 : 8 * w < 4294967296)
    (hn : n ≤ 2147483648) :
    ∃ r : Nat, getChunkSize S 64 w n = some (r : Int) ∧ 1 ≤ r ∧ n ≤ 8 * (r * w) ∧
      (r = 1 ∨ 4 * (r * w) < n) := by
  have h := gcsLoop_spec S w n hw hw8 hn 63 1 (by omega) (Or.inl rfl)
    (by have : (2:Nat) ^ 63 = 9223372036854775808 := by decide
        omega)
  unfold getChunkSize gcsInit
  rw [u32_wrap 1 (by omega) (by omega)]
  exact h

/-! ### Divergence -/

theorem gcsLoop_zero_diverges (S : CTy) (w n : Int) (h : gcsCond S w n 0 = true) :
    ∀ f, gcsLoop S w n f 0 = none := by
  intro f
  induction f with
  | zero => rfl
  | succ f ih =>
    rw [gcsLoop, h]
    have : gcsStep 0 = 0 := by decide
    simp only [if_true, this]
    exact ih

/-- `k` iterations from `c`, all with a true loop condition. -/
def runs (S : CTy) (w n : Int) : Nat → Int → Bool
  | 0, _ => true
  | k + 1, c => gcsCond S w n c && runs S w n k (gcsStep c)

def iter : Nat → Int → Int
  | 0, c => c
  | k + 1, c => iter k (gcsStep c)

theorem gcsLoop_runs (S : CTy) (w n : Int) : ∀ (k f : Nat) (c : Int), runs S w n k c = true →
    gcsLoop S w n (k + f) c = gcsLoop S w n f (iter k c) := by
  intro k
  induction k with
  | zero => intro f c _; simp [iter]
  | succ k ih =>
    intro f c h
    simp only [runs, Bool.and_eq_true] at h
    have : k + 1 + f = (k + f) + 1 := by omega
    rw [this, gcsLoop, h.1]
    simp only [if_true, iter]
    exact ih f _ h.2

theorem gcsLoop_none_of_le (S : CTy) (w n : Int) : ∀ (f g : Nat) (c : Int), g ≤ f →
    gcsLoop S w n f c = none → gcsLoop S w n g c = none := by
  intro f
  induction f with
  | zero => intro g c hg h; have : g = 0 := by omega
            subst this; exact h
  | succ f ih =>
    intro g c hg h
    cases g with
    | zero => rfl
    | succ g =>
      rw [gcsLoop] at h ⊢
      split at h
      · rename_i hc; simp only [hc, if_true]; exact ih g _ (by omega) h
      · simp at h

/-- If the loop condition held for the first 32 iterations and still holds for `chunk_size = 0`
    (which `chunk_size` has become by then), the loop never exits. -/
theorem diverges_of_runs (S : CTy) (w n : Int) (h1 : runs S w n 32 gcsInit = true)
    (h2 : iter 32 gcsInit = 0) (h3 : gcsCond S w n 0 = true) :
    ∀ f, getChunkSize S f w n = none := by
  intro f
  unfold getChunkSize
  apply gcsLoop_none_of_le S w n (32 + f) f _ (by omega)
  rw [gcsLoop_runs S w n 32 f _ h1, h2]
  exact gcsLoop_zero_diverges S w n h3 f

end PikaVerif.ChunkSize
