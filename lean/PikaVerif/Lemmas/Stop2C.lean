import PikaVerif.Lemmas.Stop2
/-! Constructor-wise equations of `checked` (what a lock loop does with an observed word). -/
namespace PikaVerif.Stop

theorem checked_rs (lk rq : Bool) (src : Nat) :
    checked .rs lk rq src = if rq then .retn .rs false else if lk then .spin .rs else .cas .rs false := rfl
theorem checked_reg (c : Nat) (lk rq : Bool) (src : Nat) :
    checked (.reg c) lk rq src = if rq then .exec c true else if src = 0 then .retn (.reg c) false
      else if lk then .spin (.reg c) else .cas (.reg c) false := rfl
theorem checked_unreg (c : Nat) (lk rq : Bool) (src : Nat) :
    checked (.unreg c) lk rq src = if lk then .spin (.unreg c) else .cas (.unreg c) rq := rfl
theorem checked_relock (lk rq : Bool) (src : Nat) :
    checked .relock lk rq src = if lk then .spin .relock else .cas .relock rq := rfl

attribute [grind =] checked_rs checked_reg checked_unreg checked_relock

end PikaVerif.Stop
