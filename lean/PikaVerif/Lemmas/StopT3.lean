import PikaVerif.Lemmas.Stop3
import PikaVerif.Lemmas.Stop9
/-!
# Who invoked a callback (follow-up C14t)

`InvRun`: a callback that has been invoked was taken from the list by request_stop (`deqd`), or
was run from its constructor (`ranInl`, set at the constructor's finished store) — or that inline
run is still in progress.  With it the final states of maximal runs determine `runs c` exactly:
a callback whose destructor returned before request_stop took it was never invoked.
-/
namespace PikaVerif.Stop
open PikaVerif

def inlRun (s : St) (c : Nat) : Prop := ∃ a, s.pc a = .body c true ∨ s.pc a = .post c true

structure InvRun (s : St) : Prop where
  ranWhy : ∀ c, 0 < s.runs c → s.deqd c = true ∨ s.ranInl c = true ∨ inlRun s c

theorem invRun_init (n K : Nat) (id : Nat → Nat) (f1 f2 : Bool) (m : Nat) : InvRun (init n K id f1 f2 m) :=
  ⟨fun c h => by simp [init] at h⟩

/-- `runs` changes only at `cb.begin` -/
theorem runs_step (s s' : St) (e : Ev) (h : step s e = some s') (c : Nat) :
    s'.runs c = s.runs c ∨ ∃ a inl, e = .cbBegin a c ∧ s.pc a = .exec c inl ∧ s'.pc a = .body c inl := by
  cases e <;> simp only [step] at h <;> (repeat' split at h) <;>
    first
      | (exfalso; simp at h; done)
      | (left; simp only [Option.some.injEq] at h; subst h; rfl)
      | skip
  rename_i a c0 hlt x c' inl hpc heq
  simp only [Option.some.injEq] at h; subst h
  by_cases hc : c = c0
  · subst hc; subst heq
    right; exact ⟨a, inl, rfl, hpc, by simp⟩
  · left; simp [upd, hc]

theorem deqd_mono (s s' : St) (e : Ev) (h : step s e = some s') (c : Nat) (hd : s.deqd c = true) :
    s'.deqd c = true := by
  cases e <;> simp only [step] at h <;> (repeat' split at h) <;>
    first
      | (exfalso; simp at h; done)
      | (simp only [Option.some.injEq] at h; subst h; exact hd)
      | (simp only [Option.some.injEq] at h; subst h; simp only [upd]; split <;> simp [hd])

theorem ranInl_mono (s s' : St) (e : Ev) (h : step s e = some s') (c : Nat) (hd : s.ranInl c = true) :
    s'.ranInl c = true := by
  cases e <;> simp only [step] at h <;> (repeat' split at h) <;>
    first
      | (exfalso; simp at h; done)
      | (simp only [Option.some.injEq] at h; subst h; exact hd)
      | (simp only [Option.some.injEq] at h; subst h; simp only [upd]; split <;> simp [hd])

/-- an inline run in progress stays in progress until the constructor's finished store -/
theorem inl_step (s s' : St) (e : Ev) (a c : Nat) (h : step s e = some s')
    (hw : s.pc a = .body c true ∨ s.pc a = .post c true) :
    (s'.pc a = .body c true ∨ s'.pc a = .post c true) ∨ s'.ranInl c = true := by
  by_cases hact : actor e = a
  · cases e <;> simp only [actor] at hact <;> subst hact <;> simp only [step] at h <;>
      (repeat' split at h) <;>
      first
        | (exfalso; rcases hw with hw | hw <;> simp_all; done)
        | (left; simp only [Option.some.injEq] at h; subst h; exact hw)
        | (simp only [Option.some.injEq] at h; subst h; rcases hw with hw | hw <;> simp_all)
  · left
    have : s'.pc a = s.pc a := by
      cases e <;> simp only [actor] at hact <;> simp only [step] at h <;> (repeat' split at h) <;>
        first
          | (exfalso; simp at h; done)
          | (simp only [Option.some.injEq] at h; subst h; simp only [upd_other _ _ _ _ (Ne.symm hact)])
          | (simp only [Option.some.injEq] at h; subst h; rfl)
    rw [this]; exact hw

theorem stepRun (s s' : St) (e : Ev) (hB : InvB s) (hi : InvRun s) (h : step s e = some s') : InvRun s' := by
  refine ⟨fun c hc => ?_⟩
  rcases runs_step s s' e h c with h1 | ⟨a, inl, he, hpc, hpc'⟩
  · rw [h1] at hc
    rcases hi.ranWhy c hc with h2 | h2 | ⟨a, h2⟩
    · exact Or.inl (deqd_mono s s' e h c h2)
    · exact Or.inr (Or.inl (ranInl_mono s s' e h c h2))
    · rcases inl_step s s' e a c h h2 with h3 | h3
      · exact Or.inr (Or.inr ⟨a, h3⟩)
      · exact Or.inr (Or.inl h3)
  · cases inl
    · have := hB.winP a c (by simp [hpc, winPhase])
      exact Or.inl (deqd_mono s s' e h c this)
    · exact Or.inr (Or.inr ⟨a, Or.inl hpc'⟩)

theorem invRun_of_accepted {n K : Nat} {ident : Nat → Nat} {fc : Bool} {srcs : Nat} {log : List Ev} {s : St}
    (h : runLog step (init n K ident true fc srcs) log = some s) : InvRun s := by
  have : ∀ (log : List Ev) (s0 s : St), (InvA s0 ∧ InvB s0) ∧ InvRun s0 → runLog step s0 log = some s →
      (InvA s ∧ InvB s) ∧ InvRun s := by
    intro log
    induction log with
    | nil => intro s0 s h0 h; simp at h; exact h ▸ h0
    | cons e es ih =>
      intro s0 s h0 h
      simp only [runLog] at h
      cases hs : step s0 e with
      | none => simp [hs] at h
      | some s1 =>
        simp only [hs] at h
        exact ih s1 s ⟨⟨stepA s0 s1 e h0.1.1 hs, stepB s0 s1 e h0.1.1 h0.1.2 hs⟩,
          stepRun s0 s1 e h0.1.2 h0.2 hs⟩ h
  exact (this log _ s ⟨⟨invA_init n K ident fc srcs, invB_init n K ident true fc srcs⟩,
    invRun_init n K ident true fc srcs⟩ h).2

end PikaVerif.Stop
