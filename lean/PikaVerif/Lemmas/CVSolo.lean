import PikaVerif.Lemmas.CVProg
/-!
# Solo continuations: one `notify_all` wakes every parked waiter (C07t)

`nallSolo r q` is the exact event sequence the notifier `r` produces when it runs alone from the
start of `notify_all` (internal lock free, wait queue `q` of parked untimed waiters);
`wakeSolo g pr` is the sequence a woken waiter of `wait` (`pr = false`) / `wait(pred)` (`pr = true`,
predicate true) produces when it then runs alone until it has returned and released the user lock.
-/
namespace PikaVerif.CV
open PikaVerif

def popAllLog (r : Nat) : List Nat → List Ev
  | [] => []
  | g :: rest => .popAll r rest.length g false :: popAllLog r rest

theorem popAllLog_length (r : Nat) (q : List Nat) : (popAllLog r q).length = q.length := by
  induction q with
  | nil => rfl
  | cons g rest ih => simp [popAllLog, ih]

def nallSolo (r : Nat) (q : List Nat) : List Ev :=
  [.slAcq r, .cvAll r q.length] ++ popAllLog r q ++ [.slRel r, .ret r 0]

theorem nallSolo_length (r : Nat) (q : List Nat) : (nallSolo r q).length = q.length + 4 := by
  simp [nallSolo, popAllLog_length]

def wakeSolo (g : Nat) (pr : Bool) : List Ev :=
  [.woke g, .slAcq g, .cvWoke g false false, .slRel g, .ulAcq g] ++
    (if pr then [.pred g true] else []) ++ [.ret g (b2n pr), .inv g .unlock, .ulRel g]

theorem wakeSolo_length (g : Nat) (pr : Bool) : (wakeSolo g pr).length = 8 + b2n pr := by
  cases pr <;> rfl

def wakeAllLog (pr : Nat → Bool) : List Nat → List Ev
  | [] => []
  | g :: rest => wakeSolo g (pr g) ++ wakeAllLog pr rest

theorem wakeAllLog_length (pr : Nat → Bool) (q : List Nat) : (wakeAllLog pr q).length ≤ 9 * q.length := by
  induction q with
  | nil => simp [wakeAllLog]
  | cons g rest ih =>
    simp only [wakeAllLog, List.length_append, wakeSolo_length, List.length_cons]
    have : b2n (pr g) ≤ 1 := by simp [b2n]; split <;> omega
    omega

/-- the pop loop of `notify_all`, run alone -/
theorem popAllLog_spec (r : Nat) : ∀ (q : List Nat) (s : St), s.lock = some r → r < s.n → s.pc r = .nAll →
    s.queue = q → (∀ g, g ∈ q → s.pc g = .susp false) → q.Nodup →
    ∃ s1, runLog step s (popAllLog r q) = some s1 ∧ s1.lock = some r ∧ s1.n = s.n ∧ s1.pc r = .nAll ∧
      s1.queue = [] ∧ s1.ulock = s.ulock ∧ s1.flag = s.flag ∧ s1.curOp = s.curOp ∧
      (∀ g, g ∈ q → s1.pc g = .susp true ∧ s1.tok g = s.tok g + 1) ∧
      (∀ u, u ∉ q → u ≠ r → s1.pc u = s.pc u ∧ s1.tok u = s.tok u) := by
  intro q
  induction q with
  | nil =>
    intro s hl hr hp hq _ _
    exact ⟨s, rfl, hl, rfl, hp, hq, rfl, rfl, rfl, by simp, fun u _ _ => ⟨rfl, rfl⟩⟩
  | cons g rest ih =>
    intro s hl hr hp hq hpark hnd
    have hg := hpark g (by simp)
    have hgr : g ≠ r := by intro he; rw [he, hp] at hg; simp at hg
    have hnd' := List.nodup_cons.1 hnd
    have hst : ∃ s', step s (.popAll r rest.length g false) = some s' ∧ s'.lock = some r ∧ s'.n = s.n ∧
        s'.pc = upd (upd s.pc g (.susp true)) r .nAll ∧ s'.queue = rest ∧
        s'.tok = upd s.tok g (s.tok g + 1) ∧ s'.ulock = s.ulock ∧ s'.flag = s.flag ∧ s'.curOp = s.curOp := by
      refine ⟨_, by simp [step, popCore, hl, hr, hp, hq, hg, setPopped]; rfl, ?_⟩
      simp [hl]
    obtain ⟨s', hst, b1, b2, b3, b4, b5, b6, b7, b8⟩ := hst
    obtain ⟨s1, a1, a2, a3, a4, a5, a6, a7, a8, a9, a10⟩ := ih s' b1 (by rw [b2]; exact hr)
      (by rw [b3]; simp) b4
      (by intro g' hg'
          have h1 : g' ≠ g := by intro he; subst he; exact hnd'.1 hg'
          have h2 := hpark g' (by simp [hg'])
          have h3 : g' ≠ r := by intro he; rw [he, hp] at h2; simp at h2
          rw [b3]; simp [upd, h1, h3, h2])
      hnd'.2
    rw [b2] at a3; rw [b6] at a6; rw [b7] at a7; rw [b8] at a8
    rw [b3, b5] at a10; rw [b5] at a9
    refine ⟨s1, ?_, a2, a3, a4, a5, a6, a7, a8, ?_, ?_⟩
    · simp only [popAllLog, runLog, hst]; exact a1
    · intro g' hg'
      rcases List.mem_cons.1 hg' with he | hm
      · subst he
        have := a10 g' hnd'.1 hgr
        simp [upd, hgr] at this
        exact this
      · have h1 : g' ≠ g := by intro he; subst he; exact hnd'.1 hm
        have := a9 g' hm
        simp [upd, h1] at this
        exact this
    · intro u hu hur
      have h1 : u ≠ g := by intro he; subst he; exact hu (by simp)
      have h2 : u ∉ rest := fun hm => hu (by simp [hm])
      have := a10 u h2 hur
      simp [upd, h1, hur] at this
      exact this

/-- `notify_all` run alone: every parked waiter is popped and gets its wake-up token -/
theorem nallSolo_spec (r : Nat) (s : St) (hl : s.lock = none) (hr : r < s.n) (hp : s.pc r = .nWant)
    (hc : s.curOp r = .notify true) (hpark : ∀ g, g ∈ s.queue → s.pc g = .susp false)
    (hnd : s.queue.Nodup) :
    ∃ s1, runLog step s (nallSolo r s.queue) = some s1 ∧ s1.lock = none ∧ s1.n = s.n ∧ s1.pc r = .idle ∧
      s1.queue = [] ∧ s1.ulock = s.ulock ∧ s1.flag = s.flag ∧
      (∀ g, g ∈ s.queue → s1.pc g = .susp true ∧ s1.tok g = s.tok g + 1 ∧ s1.curOp g = s.curOp g) ∧
      (∀ u, u ∉ s.queue → u ≠ r → s1.pc u = s.pc u ∧ s1.tok u = s.tok u) := by
  have hrq : r ∉ s.queue := by intro hm; have := hpark r hm; rw [hp] at this; simp at this
  obtain ⟨sa, h1, b1, b2, b3, b4, b5, b6, b7, b8⟩ : ∃ sa, step s (.slAcq r) = some sa ∧ sa.lock = some r ∧
      sa.n = s.n ∧ sa.pc = upd s.pc r .nLocked ∧ sa.queue = s.queue ∧ sa.tok = s.tok ∧
      sa.ulock = s.ulock ∧ sa.flag = s.flag ∧ sa.curOp = s.curOp :=
    ⟨{ s with lock := some r, pc := upd s.pc r .nLocked }, by simp [step, hl, hr, hp], rfl, rfl, rfl, rfl, rfl, rfl, rfl, rfl⟩
  obtain ⟨sb, h2, c1, c2, c3, c4, c5, c6, c7, c8⟩ : ∃ sb, step sa (.cvAll r s.queue.length) = some sb ∧
      sb.lock = some r ∧ sb.n = s.n ∧ sb.pc = upd s.pc r .nAll ∧ sb.queue = s.queue ∧ sb.tok = s.tok ∧
      sb.ulock = s.ulock ∧ sb.flag = s.flag ∧ sb.curOp = s.curOp := by
    refine ⟨{ sa with pc := upd sa.pc r .nAll }, by simp [step, b1, b2, b3, b4, b8, hr, hc], b1, b2, ?_, b4, b5, b6, b7, b8⟩
    simp only [b3]
    funext u; simp only [upd]; split <;> rfl
  obtain ⟨s1, a1, a2, a3, a4, a5, a6, a7, a8, a9, a10⟩ :=
    popAllLog_spec r s.queue sb c1 (by rw [c2]; exact hr) (by rw [c3]; simp) c4
      (by intro g hg
          have h3 := hpark g hg
          have h4 : g ≠ r := by intro he; subst he; exact hrq hg
          rw [c3]; simp [upd, h4, h3])
      hnd
  rw [c2] at a3; rw [c6] at a6; rw [c7] at a7; rw [c8] at a8; rw [c5] at a9; rw [c3, c5] at a10
  obtain ⟨sc, h3, d1, d2, d3, d4, d5, d6, d7, d8⟩ : ∃ sc, step s1 (.slRel r) = some sc ∧ sc.lock = none ∧
      sc.n = s.n ∧ sc.pc = upd s1.pc r .nRet ∧ sc.queue = [] ∧ sc.tok = s1.tok ∧
      sc.ulock = s.ulock ∧ sc.flag = s.flag ∧ sc.curOp = s.curOp :=
    ⟨{ s1 with lock := none, pc := upd s1.pc r .nRet }, by simp [step, a2, a3, hr, a4, a5], rfl, a3, rfl, a5, rfl, a6, a7, a8⟩
  obtain ⟨sd, h4, e1, e2, e3, e4, e5, e6, e7, e8⟩ : ∃ sd, step sc (.ret r 0) = some sd ∧ sd.lock = none ∧
      sd.n = s.n ∧ sd.pc = upd sc.pc r .idle ∧ sd.queue = [] ∧ sd.tok = s1.tok ∧
      sd.ulock = s.ulock ∧ sd.flag = s.flag ∧ sd.curOp = s.curOp :=
    ⟨{ sc with pc := upd sc.pc r .idle }, by simp [step, d2, d3, hr], d1, d2, rfl, d4, d5, d6, d7, d8⟩
  refine ⟨sd, ?_, e1, e2, by rw [e3]; simp, e4, e6, e7, ?_, ?_⟩
  · simp only [nallSolo, List.cons_append, List.nil_append, runLog, h1, h2]
    rw [runLog_append, a1]
    simp [runLog, h3, h4]
  · intro g hg
    have h5 : g ≠ r := by intro he; subst he; exact hrq hg
    have := a9 g hg
    rw [e3, d3, e5, e8]
    simp [upd, h5]
    exact this
  · intro u hu hur
    have := a10 u hu hur
    rw [e3, d3, e5]
    simp [upd, hur] at this ⊢
    exact this

/-- a woken waiter of `wait` / `wait(pred)` (predicate true) run alone: it returns (`pr`: with
    the value `true`) and releases the user lock, in `8 + pr` events -/
theorem wakeSolo_spec (g : Nat) (pr : Bool) (s : St) (hl : s.lock = none) (hu : s.ulock = none)
    (hg : g < s.n) (hp : s.pc g = .susp true) (ht : 0 < s.tok g) (hc : s.curOp g = .wait false pr)
    (hf : pr = true → s.flag = true) :
    ∃ s2, runLog step s (wakeSolo g pr) = some s2 ∧ s2.lock = none ∧ s2.ulock = none ∧ s2.n = s.n ∧
      s2.pc g = .idle ∧ s2.queue = s.queue ∧ s2.flag = s.flag ∧
      (∀ u, u ≠ g → s2.pc u = s.pc u ∧ s2.tok u = s.tok u ∧ s2.curOp u = s.curOp u) := by
  cases pr with
  | false =>
    cases h : runLog step s (wakeSolo g false) with
    | none => simp [wakeSolo, runLog, step, hl, hu, hg, hp, ht, hc, isStop, isTimed, isPred, b2n, upd] at h
    | some s2 =>
      refine ⟨s2, rfl, ?_⟩
      simp [wakeSolo, runLog, step, hl, hu, hg, hp, ht, hc, isStop, isTimed, isPred, b2n, upd] at h
      subst h
      simp [upd]
      intro u hug; simp [hug]
  | true =>
    have hf' := hf rfl
    cases h : runLog step s (wakeSolo g true) with
    | none => simp [wakeSolo, runLog, step, hl, hu, hg, hp, ht, hc, hf', isStop, isTimed, isPred, b2n, upd, exitPc] at h
    | some s2 =>
      refine ⟨s2, rfl, ?_⟩
      simp [wakeSolo, runLog, step, hl, hu, hg, hp, ht, hc, hf', isStop, isTimed, isPred, b2n, upd, exitPc] at h
      subst h
      simp [upd]
      refine ⟨hf', ?_⟩
      intro u hug; simp [hug]

/-- the woken waiters run alone one after the other: all return and release the user lock -/
theorem wakeAll_spec (pr : Nat → Bool) : ∀ (l : List Nat) (s : St), s.lock = none → s.ulock = none → l.Nodup →
    (∀ g, g ∈ l → g < s.n ∧ s.pc g = .susp true ∧ 0 < s.tok g ∧ s.curOp g = .wait false (pr g) ∧
      (pr g = true → s.flag = true)) →
    ∃ s2, runLog step s (wakeAllLog pr l) = some s2 ∧ s2.lock = none ∧ s2.ulock = none ∧ s2.n = s.n ∧
      s2.queue = s.queue ∧ s2.flag = s.flag ∧ (∀ g, g ∈ l → s2.pc g = .idle) ∧
      (∀ u, u ∉ l → s2.pc u = s.pc u ∧ s2.tok u = s.tok u ∧ s2.curOp u = s.curOp u) := by
  intro l
  induction l with
  | nil =>
    intro s hl hu _ _
    exact ⟨s, rfl, hl, hu, rfl, rfl, rfl, by simp, fun u _ => ⟨rfl, rfl, rfl⟩⟩
  | cons g rest ih =>
    intro s hl hu hnd hall
    have hnd' := List.nodup_cons.1 hnd
    obtain ⟨hg1, hg2, hg3, hg4, hg5⟩ := hall g (by simp)
    obtain ⟨s', a1, a2, a3, a4, a5, a6, a7, a8⟩ := wakeSolo_spec g (pr g) s hl hu hg1 hg2 hg3 hg4 hg5
    obtain ⟨s2, b1, b2, b3, b4, b5, b6, b7, b8⟩ := ih s' a2 a3 hnd'.2
      (by intro g' hg'
          have hne : g' ≠ g := by intro he; subst he; exact hnd'.1 hg'
          obtain ⟨c1, c2, c3, c4, c5⟩ := hall g' (by simp [hg'])
          obtain ⟨d1, d2, d3⟩ := a8 g' hne
          exact ⟨by rw [a4]; exact c1, by rw [d1]; exact c2, by rw [d2]; exact c3, by rw [d3]; exact c4,
            by rw [a7]; exact c5⟩)
    refine ⟨s2, ?_, b2, b3, by rw [b4, a4], by rw [b5, a6], by rw [b6, a7], ?_, ?_⟩
    · simp only [wakeAllLog]; rw [runLog_append, a1]; simpa using b1
    · intro g' hg'
      rcases List.mem_cons.1 hg' with he | hm
      · subst he; rw [(b8 g' hnd'.1).1]; exact a5
      · exact b7 g' hm
    · intro u hu'
      have h1 : u ≠ g := by intro he; subst he; exact hu' (by simp)
      have h2 : u ∉ rest := fun hm => hu' (by simp [hm])
      obtain ⟨c1, c2, c3⟩ := b8 u h2
      obtain ⟨d1, d2, d3⟩ := a8 u h1
      exact ⟨by rw [c1, d1], by rw [c2, d2], by rw [c3, d3]⟩

end PikaVerif.CV
