import PikaVerif.Model.WhenAllLife
import PikaVerif.Lemmas.WhenAll
/-!
Invariants of the life-cycle layer of `when_all` / `when_all_vector` (C03w): the start loop versus the
children (`A`, an invariant of the protocol model itself), the history fields of the layer versus the
protocol state (`LInv`), the `n = 0` branch of `when_all_vector` (`ZInv`).
-/
namespace PikaVerif.WhenAll
open PikaVerif

theorem advance_ge (p : Nat → Option (Nat × Int)) (n : Nat) : ∀ fuel j, j ≤ advance p n j fuel
  | 0, j => Nat.le_refl _
  | fuel + 1, j => by
    simp only [advance]
    split
    · split
      · omega
      · have := advance_ge p n fuel (j + 1); omega
    · omega

theorem advance_le (p : Nat → Option (Nat × Int)) (n : Nat) : ∀ fuel j, j ≤ n → advance p n j fuel ≤ n
  | 0, j, h => h
  | fuel + 1, j, h => by
    simp only [advance]
    split
    · split
      · omega
      · exact advance_le p n fuel (j + 1) (by omega)
    · omega

/-- The start loop versus the children: a child completes only after it was started. -/
structure A (s : St) : Prop where
  armedLe : s.armedTo ≤ s.n
  firedArmed : ∀ i, s.firedI i = true → i < s.armedTo

theorem a_init (n : Nat) : A (init n) := by
  constructor <;> simp [init]

attribute [local grind] curOf stOf isLast w3 afterCall

set_option hygiene false in
macro "waa_step" : tactic => `(tactic| (
  simp only [step] at h
  repeat' split at h
  all_goals first | (simp at h; done) | skip
  all_goals (
    simp only [Option.some.injEq] at h
    subst h
    (try (simp only [afterCall]; split))
    all_goals (constructor <;> (try dsimp only)))
  all_goals first
    | assumption
    | (intro u; grind [upd])
    | grind [upd]))

theorem step_a (s s' : St) (e : Ev) (ha : A s) (h : step s e = some s') : A s' := by
  obtain ⟨a1, a2⟩ := ha
  have g1 := advance_ge s.pending s.n s.n s.armedTo
  have g2 := advance_le s.pending s.n s.n s.armedTo a1
  have g3 := advance_ge s.pending s.n s.n 0
  have g4 := advance_le s.pending s.n s.n 0 (Nat.zero_le _)
  cases e <;> waa_step

end PikaVerif.WhenAll

namespace PikaVerif.WhenAllLife
open PikaVerif PikaVerif.WhenAll

/-- History fields of the layer versus the protocol state (`n > 0`). -/
structure LInv (s : St) : Prop where
  npos : s.b.n ≠ 0
  curCall : ∀ t i, curOf (s.b.pc t) = some i → s.cur t = some i
  curLast : ∀ t, isLast (s.b.pc t) = true → s.cur t = s.lastC
  curNone : ∀ t, curOf (s.b.pc t) = none → isLast (s.b.pc t) = false → s.cur t = none
  lastSome : s.lastC ≠ none ↔ s.b.remaining = 0
  lastStage : ∀ c, s.lastC = some c → s.b.stage c = 3 ∧ c < s.b.n ∧ s.b.who c = s.b.lastT
  issued : s.b.delivered = 1 → s.issuer = s.lastC ∧ s.issuerT = some s.b.lastT
  notIssued : s.b.delivered = 0 → s.issuer = none ∧ s.issuerT = none ∧ s.freed = false
  freedIff : s.freed = true ↔ (s.cfg.selfdel = true ∧ s.b.delivered = 1)
  nfreeEq : s.nfree = b2n s.freed

theorem linv_init (c : Cfg) (n : Nat) (hn : n ≠ 0) : LInv (init c n) := by
  constructor <;> simp [init, WhenAll.init, curOf, isLast, b2n, hn]

attribute [local grind] curOf stOf isLast w3 afterCall curAfter lastAfter isRcv tidOf b2n touches

set_option hygiene false in
macro "wl_step" : tactic => `(tactic| (
  simp only [step, WhenAll.step] at h
  repeat' split at h
  all_goals first | (simp at h; done) | skip
  all_goals (
    simp only [Option.some.injEq] at h
    subst h
    rename_i hb
    (try (simp only [afterCall] at hb))
    (repeat' split at hb)
    all_goals first | (simp at hb; done) | skip
    all_goals (
      simp only [Option.some.injEq] at hb
      subst hb
      (try (simp only [afterCall]; split))
      all_goals (constructor <;> (try dsimp only))))
  all_goals first
    | assumption
    | (intro u; grind [upd])
    | grind [upd]))

set_option hygiene false in
macro "wl_step" : tactic => `(tactic| (
  simp only [step, l0, if_false] at h
  split at h
  · simp at h
  · rename_i b' hb
    simp only [Option.some.injEq] at h
    subst h
    (try simp only [curAfter, lastAfter, starterAfter, isRcv, tidOf, touches, Bool.false_and, Bool.true_and, Bool.or_false,
      Bool.and_true, Bool.and_false, Bool.false_eq_true, if_false, if_true, reduceIte])
    simp only [WhenAll.step] at hb
    repeat' split at hb
    all_goals first | (simp at hb; done) | skip
    all_goals (
      simp only [Option.some.injEq] at hb
      subst hb
      (try (simp only [afterCall]; split))
      all_goals (constructor <;> (try dsimp only)))
    all_goals first
      | assumption
      | (intro u; grind [upd])
      | grind [upd]))

section
variable (s s' : St) (h1 : W1 s.b) (h2 : W2 s.b) (hl : LInv s)
include h1 h2 hl
theorem step_linv_invStart (t : Nat) (h : step s (.invStart t) = some s') : LInv s' := by
  obtain ⟨a1,a2,a3,a4,a5,a6⟩ := h1; obtain ⟨b1,b2,b3⟩ := h2
  obtain ⟨l0,l1,l2,l3,l4,l5,l6,l7,l8,l9⟩ := hl
  wl_step
theorem step_linv_invComplete (t i ch : Nat) (arg : Int) (h : step s (.invComplete t i ch arg) = some s') : LInv s' := by
  obtain ⟨a1,a2,a3,a4,a5,a6⟩ := h1; obtain ⟨b1,b2,b3⟩ := h2
  obtain ⟨l0,l1,l2,l3,l4,l5,l6,l7,l8,l9⟩ := hl
  wl_step
theorem step_linv_fire (t i ch : Nat) (arg : Int) (h : step s (.fire t i ch arg) = some s') : LInv s' := by
  obtain ⟨a1,a2,a3,a4,a5,a6⟩ := h1; obtain ⟨b1,b2,b3⟩ := h2
  obtain ⟨l0,l1,l2,l3,l4,l5,l6,l7,l8,l9⟩ := hl
  wl_step
theorem step_linv_sig (t ch : Nat) (h : step s (.sig t ch) = some s') : LInv s' := by
  obtain ⟨a1,a2,a3,a4,a5,a6⟩ := h1; obtain ⟨b1,b2,b3⟩ := h2
  obtain ⟨l0,l1,l2,l3,l4,l5,l6,l7,l8,l9⟩ := hl
  wl_step
theorem step_linv_latch (t : Nat) (h : step s (.latch t) = some s') : LInv s' := by
  obtain ⟨a1,a2,a3,a4,a5,a6⟩ := h1; obtain ⟨b1,b2,b3⟩ := h2
  obtain ⟨l0,l1,l2,l3,l4,l5,l6,l7,l8,l9⟩ := hl
  wl_step
theorem step_linv_store (t i : Nat) (h : step s (.store t i) = some s') : LInv s' := by
  obtain ⟨a1,a2,a3,a4,a5,a6⟩ := h1; obtain ⟨b1,b2,b3⟩ := h2
  obtain ⟨l0,l1,l2,l3,l4,l5,l6,l7,l8,l9⟩ := hl
  wl_step
theorem step_linv_dec (t : Nat) (h : step s (.dec t) = some s') : LInv s' := by
  obtain ⟨a1,a2,a3,a4,a5,a6⟩ := h1; obtain ⟨b1,b2,b3⟩ := h2
  obtain ⟨l0,l1,l2,l3,l4,l5,l6,l7,l8,l9⟩ := hl
  wl_step
theorem step_linv_zero (t : Nat) (l e : Bool) (h : step s (.zero t l e) = some s') : LInv s' := by
  obtain ⟨a1,a2,a3,a4,a5,a6⟩ := h1; obtain ⟨b1,b2,b3⟩ := h2
  obtain ⟨l0,l1,l2,l3,l4,l5,l6,l7,l8,l9⟩ := hl
  wl_step
theorem step_linv_rcv (t ch : Nat) (v : Int) (h : step s (.rcv t ch v) = some s') : LInv s' := by
  obtain ⟨a1,a2,a3,a4,a5,a6⟩ := h1; obtain ⟨b1,b2,b3⟩ := h2
  obtain ⟨l0,l1,l2,l3,l4,l5,l6,l7,l8,l9⟩ := hl
  wl_step
theorem step_linv_ret (t : Nat) (h : step s (.ret t) = some s') : LInv s' := by
  obtain ⟨a1,a2,a3,a4,a5,a6⟩ := h1; obtain ⟨b1,b2,b3⟩ := h2
  obtain ⟨l0,l1,l2,l3,l4,l5,l6,l7,l8,l9⟩ := hl
  wl_step
theorem step_linv_tdone (t : Nat) (h : step s (.tdone t) = some s') : LInv s' := by
  obtain ⟨a1,a2,a3,a4,a5,a6⟩ := h1; obtain ⟨b1,b2,b3⟩ := h2
  obtain ⟨l0,l1,l2,l3,l4,l5,l6,l7,l8,l9⟩ := hl
  wl_step
end

theorem step_linv (s s' : St) (e : Ev) (h1 : W1 s.b) (h2 : W2 s.b) (hl : LInv s) (h : step s e = some s') :
    LInv s' := by
  cases e with
  | invStart t => exact step_linv_invStart s s' h1 h2 hl t h
  | invComplete t i ch arg => exact step_linv_invComplete s s' h1 h2 hl t i ch arg h
  | fire t i ch arg => exact step_linv_fire s s' h1 h2 hl t i ch arg h
  | sig t ch => exact step_linv_sig s s' h1 h2 hl t ch h
  | latch t => exact step_linv_latch s s' h1 h2 hl t h
  | store t i => exact step_linv_store s s' h1 h2 hl t i h
  | dec t => exact step_linv_dec s s' h1 h2 hl t h
  | zero t l e => exact step_linv_zero s s' h1 h2 hl t l e h
  | rcv t ch v => exact step_linv_rcv s s' h1 h2 hl t ch v h
  | ret t => exact step_linv_ret s s' h1 h2 hl t h
  | tdone t => exact step_linv_tdone s s' h1 h2 hl t h

/-- The protocol step underneath a layer step (`n > 0`). -/
theorem step_proj (s s' : St) (e : Ev) (hn : s.b.n ≠ 0) (h : step s e = some s') :
    WhenAll.step s.b e = some s'.b ∧ s'.cfg = s.cfg ∧
    s'.uaf = (s.uaf || (s.freed && touches e)) := by
  simp only [step, hn, if_false] at h
  split at h
  · simp at h
  · rename_i b' hb
    simp only [Option.some.injEq] at h
    subst h
    exact ⟨hb, rfl, rfl⟩

set_option hygiene false in
macro "wt_step" : tactic => `(tactic| (
  simp only [WhenAll.step] at hb
  repeat' split at hb
  all_goals first | (simp at hb; done) | (simp [touches] at ht; done) | skip
  all_goals first
    | (simp only [actor, tidOf]; grind)
    | grind))

/-- **Key lemma.**  Once the counter is zero, the only events that still read or write the operation state are
    those of the receiver call whose decrement reached zero. -/
theorem touch_after_zero (s : St) (b' : WhenAll.St) (e : Ev) (h1 : W1 s.b) (h2 : W2 s.b) (hc : Cnt s.b)
    (ha : A s.b) (hl : LInv s) (hb : WhenAll.step s.b e = some b') (ht : touches e = true)
    (hz : s.b.remaining = 0) :
    isLast (s.b.pc (tidOf e)) = true ∧ actor s e = s.lastC := by
  have hall := all_decremented s.b hc hz
  obtain ⟨a1,a2,a3,a4,a5,a6⟩ := h1; obtain ⟨b1,b2,b3⟩ := h2
  obtain ⟨l0,l1,l2,l3,l4,l5,l6,l7,l8,l9⟩ := hl
  obtain ⟨g1, g2⟩ := ha
  have h0 := hall 0 (by omega)
  have hf0 := g2 0 ((a5 0).mpr (by omega))
  clear hc
  cases e <;> wt_step

/-- A child reads or writes the operation state only before its own decrement, unless it is the child
    whose decrement reached zero. -/
theorem touch_own (s : St) (b' : WhenAll.St) (e : Ev) (h1 : W1 s.b) (h2 : W2 s.b)
    (hl : LInv s) (hb : WhenAll.step s.b e = some b') (ht : touches e = true) (i : Nat)
    (hact : actor s e = some i) : s.b.stage i < 3 ∨ s.lastC = some i := by
  obtain ⟨a1,a2,a3,a4,a5,a6⟩ := h1; obtain ⟨b1,b2,b3⟩ := h2
  obtain ⟨l0,l1,l2,l3,l4,l5,l6,l7,l8,l9⟩ := hl
  simp only [actor] at hact
  cases e <;> wt_step


/-- The complete invariant for `n > 0`. -/
structure Full (s : St) : Prop where
  winv : WInv s.b
  a : A s.b
  linv : LInv s
  noUaf : s.uaf = false

theorem full_init (c : Cfg) (n : Nat) (hn : n ≠ 0) : Full (init c n) :=
  ⟨winv_init n, a_init n, linv_init c n hn, rfl⟩

theorem step_full (s s' : St) (e : Ev) (hf : Full s) (h : step s e = some s') : Full s' := by
  obtain ⟨hw, ha, hl, hu⟩ := hf
  obtain ⟨hb, _, huaf⟩ := step_proj s s' e hl.npos h
  refine ⟨step_winv _ _ e hw hb, step_a _ _ e ha hb, step_linv s s' e hw.w1 hw.w2 hl h, ?_⟩
  rw [huaf, hu, Bool.false_or]
  cases hfr : s.freed with
  | false => rfl
  | true =>
    cases ht : touches e with
    | false => rfl
    | true =>
      exfalso
      have hd := (hl.freedIff.mp hfr).2
      have hz : s.b.remaining = 0 := by
        rcases hw.w2.delOnce with h0 | ⟨_, hz⟩
        · omega
        · exact hz
      have hlast := (touch_after_zero s s'.b e hw.w1 hw.w2 hw.cnt ha hl hb ht hz).1
      have := (hw.w2.lastPc _ hlast).2.2
      omega

theorem n_init (c : Cfg) (n : Nat) : (init c n).b.n = n := rfl

theorem full_of_accepted {c : Cfg} {n : Nat} (hn : n ≠ 0) {log : List Ev} {s : St}
    (h : runLog step (init c n) log = some s) : Full s :=
  inv_of_runLog Full (fun s e s' => step_full s s' e) (full_init c n hn) h

theorem step_n (b b' : WhenAll.St) (e : Ev) (hs : WhenAll.step b e = some b') : b'.n = b.n := by
  cases e <;> simp only [WhenAll.step] at hs <;> (repeat' split at hs) <;>
    first
    | (simp at hs; done)
    | (simp only [Option.some.injEq] at hs; subst hs; (try (simp only [afterCall]; split)) <;> rfl)

/-- Projection: an accepted log of the layer is an accepted log of the protocol model (`n > 0`). -/
theorem runLog_proj : ∀ (log : List Ev) (s0 s : St), s0.b.n ≠ 0 →
    runLog step s0 log = some s → runLog WhenAll.step s0.b log = some s.b
  | [], s0, s, _, h => by simp at h; subst h; rfl
  | e :: es, s0, s, h0, h => by
    simp only [runLog] at h ⊢
    cases hs : step s0 e with
    | none => simp [hs] at h
    | some s1 =>
      simp only [hs] at h
      obtain ⟨hb, _, _⟩ := step_proj s0 s1 e h0 hs
      rw [hb]
      have hn1 := step_n _ _ e hb
      exact runLog_proj es s1 s (by omega) h

/-! ### `when_all_vector` without predecessors -/

structure ZInv (s : St) : Prop where
  nz : s.b.n = 0
  vec : s.cfg.vector = true
  del : s.b.delivered = 0 ∨ s.b.delivered = 1
  delRes : s.b.delivered = 1 → s.b.result = some (0, 0) ∧ s.started = true ∧ s.issuerT = some s.starterT
  startedPc : s.started = true → s.b.delivered = 0 → s.b.pc s.starterT = .starting
  pcStarted : ∀ t, s.b.pc t = .starting → s.started = true ∧ t = s.starterT
  freedIff : s.freed = true ↔ (s.cfg.selfdel = true ∧ s.b.delivered = 1)
  nfreeEq : s.nfree = b2n s.freed
  noChild : s.lastC = none ∧ s.issuer = none
  pcKinds : ∀ t, s.b.pc t = .idle ∨ s.b.pc t = .starting ∨ s.b.pc t = .fin
  armed0 : s.b.armedTo = 0
  noUaf : s.uaf = false

theorem zinv_init (c : Cfg) (hv : c.vector = true) : ZInv (init c 0) := by
  constructor <;> simp [init, WhenAll.init, b2n, hv]

theorem step_zinv (s s' : St) (e : Ev) (hz : ZInv s) (h : step s e = some s') : ZInv s' := by
  obtain ⟨z0,z1,z2,z3,z4,z5,z6,z7,z8,z10,z11,z9⟩ := hz
  simp only [step, z0, z1, if_true] at h
  cases e <;> simp only [step0] at h <;> (try (simp at h; done)) <;>
  ( split at h
    · simp only [Option.some.injEq] at h
      subst h
      constructor <;> dsimp only <;> first | assumption | (intro u; grind [upd]) | grind [upd]
    · simp at h)

theorem zinv_of_accepted {c : Cfg} (hv : c.vector = true) {log : List Ev} {s : St}
    (h : runLog step (init c 0) log = some s) : ZInv s :=
  inv_of_runLog ZInv (fun s e s' => step_zinv s s' e) (zinv_init c hv) h


/-- the configuration never changes -/
theorem cfg_of_accepted {c : Cfg} {n : Nat} {log : List Ev} {s : St}
    (h : runLog step (init c n) log = some s) : s.cfg = c := by
  refine inv_of_runLog (fun s => s.cfg = c) ?_ rfl h
  intro s e s' hc hs
  simp only [step] at hs
  split at hs
  · split at hs
    · cases e <;> simp only [step0] at hs <;> (try (simp at hs; done)) <;>
      ( split at hs
        · simp only [Option.some.injEq] at hs; subst hs; exact hc
        · simp at hs)
    · simp at hs
  · split at hs
    · simp at hs
    · simp only [Option.some.injEq] at hs; subst hs; exact hc

/-- Once set, `lastC` never changes (the counter is zero: no further decrement is accepted). -/
theorem lastC_stable (s s' : St) (e : Ev) (hl : LInv s) (h : step s e = some s') (k : Nat)
    (hk : s.lastC = some k) : s'.lastC = some k := by
  have hz : s.b.remaining = 0 := hl.lastSome.mp (by rw [hk]; simp)
  simp only [step, hl.npos, if_false] at h
  split at h
  · simp at h
  · simp only [Option.some.injEq] at h
    subst h
    cases e <;> simp only [lastAfter, hk]
    rw [hz]; simp [hk]

theorem n_of_reach {c : Cfg} {n : Nat} {s : St} (hr : ∃ log, runLog step (init c n) log = some s)
    (hn : 0 < n) : s.b.n = n := by
  obtain ⟨log, hl⟩ := hr
  exact WhenAll.n_of_accepted (runLog_proj log _ s (by simp [init, WhenAll.init]; omega) hl)

theorem full_of_reach {c : Cfg} {n : Nat} {s : St} (hr : ∃ log, runLog step (init c n) log = some s)
    (hn : 0 < n) : Full s := by
  obtain ⟨log, hl⟩ := hr
  exact full_of_accepted (by omega) hl

end PikaVerif.WhenAllLife
