import PikaVerif.Lemmas.Rw4
/-!
Termination measure of the async_rw_mutex model (follow-up C04r).

`mu s` = remaining work of the requested accesses (`accRank`) + one exchange per shared state whose
`done()` has not exchanged the head yet (`dnRank`) + the destruction of the mutex + the destruction
of the value.  Every accepted event `e` satisfies `mu s' + cost e ≤ mu s + gain e`
(`mu_step`): `gain` is positive only for the operations a program invokes that create work
(`req`, `copy`; `write`/`readv` pay for themselves), `cost` is 1 for every event except a *CAS
retry* (`cas` failing while the queue is still open), which leaves `mu` unchanged.
-/
namespace PikaVerif.Rw
open PikaVerif

/-- remaining events of one access: start, load, CAS, continuation, one release per wrapper copy -/
def accRank : Acc → Nat
  | .none => 0
  | .sender => 5
  | .starting _ _ => 4
  | .loaded _ _ _ => 3
  | .queued _ => 2
  | .granted c => c + 1
  | .released => 0

/-- the exchange of `done()` is still to come -/
def dnRank : Dn → Nat
  | .idle => 1
  | .pend _ => 1
  | .drain _ _ => 0

def b2n (b : Bool) : Nat := if b then 1 else 0

/-- the termination measure -/
def mu (s : St) : Nat :=
  sumTo s.na (fun a => accRank (s.acc a)) + sumTo s.ng (fun g => dnRank (s.dn g)) +
    b2n s.alive + b2n (!s.vfreed)

theorem mu_init : mu init = 2 := by simp [mu, init, b2n]

/-- a CAS that fails while the queue is open (the head moved, or the weak CAS failed spuriously):
    the loop of `add_op_state` goes round once more -/
def isRetry : Ev → Bool
  | .cas _ _ false cls _ _ => cls != 2
  | _ => false

/-- work created by an operation of the program -/
def gain : Ev → Nat
  | .req .. => 7
  | .copy .. => 2
  | .write .. => 1
  | .readv .. => 1
  | _ => 0

def cost (e : Ev) : Nat := if isRetry e then 0 else 1

theorem mu_congr (s s' : St) (h1 : s'.acc = s.acc) (h2 : s'.na = s.na) (h3 : s'.ng = s.ng)
    (h4 : ∀ g, dnRank (s'.dn g) = dnRank (s.dn g)) (h5 : s'.alive = s.alive) (h6 : s'.vfreed = s.vfreed) :
    mu s' = mu s := by
  simp only [mu, h1, h2, h3, h4, h5, h6]

theorem mu_setAcc (s s' : St) (a : Nat) (v : Acc) (ha : a < s.na) (h1 : s'.acc = upd s.acc a v)
    (h2 : s'.na = s.na) (h3 : s'.ng = s.ng) (h4 : ∀ g, dnRank (s'.dn g) = dnRank (s.dn g))
    (h5 : s'.alive = s.alive) (h6 : s'.vfreed = s.vfreed) :
    mu s' + accRank (s.acc a) = mu s + accRank v := by
  have := sumTo_upd s.na accRank s.acc a v ha
  simp only [mu, h1, h2, h3, h4, h5, h6]
  omega

theorem mu_setDn (s s' : St) (g : Nat) (x : Dn) (hg : g < s.ng) (h1 : s'.acc = s.acc)
    (h2 : s'.na = s.na) (h3 : s'.ng = s.ng) (h4 : s'.dn = upd s.dn g x)
    (h5 : s'.alive = s.alive) (h6 : s'.vfreed = s.vfreed) :
    mu s' + dnRank (s.dn g) = mu s + dnRank x := by
  have := sumTo_upd s.ng dnRank s.dn g x hg
  simp only [mu, h1, h2, h3, h4, h5, h6]
  omega

theorem mu_new (s s' : St) (v : Acc) (h1 : s'.acc = upd s.acc s.na v) (h2 : s'.na = s.na + 1)
    (h5 : s'.alive = s.alive) (h6 : s'.vfreed = s.vfreed) :
    (s'.ng = s.ng → s'.dn = s.dn → mu s' = mu s + accRank v) ∧
    (∀ x, s'.ng = s.ng + 1 → s'.dn = upd s.dn s.ng x → mu s' = mu s + accRank v + dnRank x) := by
  have hA := sumTo_upd_ge s.na accRank s.acc s.na v (Nat.le_refl _)
  constructor
  · intro h3 h4
    simp only [mu, h1, h2, h3, h4, h5, h6, sumTo_succ, upd_same]
    omega
  · intro x h3 h4
    have hD := sumTo_upd_ge s.ng dnRank s.dn s.ng x (Nat.le_refl _)
    simp only [mu, h1, h2, h3, h4, h5, h6, sumTo_succ, upd_same]
    omega

/-- `~shared_state` enters `done()` of the next group, which has not been called before -/
theorem dn_next_idle {s : St} (hi : Inv s) {g : Nat} (h1 : s.rc g = 1) (h2 : g + 1 < s.ng) :
    s.dn (g + 1) = .idle := by
  have hd : s.dead g = false := by
    cases hd : s.dead g with
    | false => rfl
    | true => have := (hi.deadRc g (by omega)).1 hd; omega
  exact (hi.dnIdle (g + 1) h2).2 ⟨by omega, by simpa using hd⟩

theorem decRc_fields (s : St) (t g : Nat) :
    (decRc s t g).acc = s.acc ∧ (decRc s t g).na = s.na ∧ (decRc s t g).ng = s.ng ∧
    (decRc s t g).alive = s.alive ∧ (decRc s t g).vfreed = s.vfreed ∧ (decRc s t g).head = s.head ∧
    (decRc s t g).grp = s.grp := by
  unfold decRc; split
  · split <;> exact ⟨rfl, rfl, rfl, rfl, rfl, rfl, rfl⟩
  · exact ⟨rfl, rfl, rfl, rfl, rfl, rfl, rfl⟩

theorem decRc_dnRank (s : St) (t g : Nat)
    (h : s.rc g = 1 → g + 1 < s.ng → s.dn (g + 1) = .idle) (x : Nat) :
    dnRank ((decRc s t g).dn x) = dnRank (s.dn x) := by
  unfold decRc
  split
  · rename_i h1
    split
    · rename_i h2
      simp only [upd]
      split
      · rename_i e; subst e; rw [h h1 h2]; rfl
      · rfl
    · rfl
  · rfl

theorem mu_decRc (s : St) (t g : Nat) (h : s.rc g = 1 → g + 1 < s.ng → s.dn (g + 1) = .idle) :
    mu (decRc s t g) = mu s := by
  obtain ⟨h1, h2, h3, h4, h5, _, _⟩ := decRc_fields s t g
  exact mu_congr _ _ h1 h2 h3 (decRc_dnRank s t g h) h4 h5

theorem mu_grant (s : St) (t a : Nat) (det : Bool) (ha : a < s.na)
    (h : s.rc (s.grp a) = 1 → s.grp a + 1 < s.ng → s.dn (s.grp a + 1) = .idle) :
    mu (grant s t a det) + accRank (s.acc a) ≤ mu s + 1 := by
  have e0 : accRank (.granted 0) = 1 := rfl
  have e1 : accRank .released = 0 := rfl
  cases det with
  | false =>
    have := mu_setAcc s (grant s t a false) a (.granted 0) ha rfl rfl rfl (fun _ => rfl) rfl rfl
    omega
  | true =>
    have e : grant s t a true =
        decRc { s with grants := upd s.grants a (s.grants a + 1), acc := upd s.acc a .released } t (s.grp a) := rfl
    have hm := mu_decRc { s with grants := upd s.grants a (s.grants a + 1), acc := upd s.acc a .released } t (s.grp a) h
    rw [e, hm]
    have := mu_setAcc s { s with grants := upd s.grants a (s.grants a + 1), acc := upd s.acc a .released }
      a .released ha rfl rfl rfl (fun _ => rfl) rfl rfl
    omega

theorem accRank_relAcc (c : Nat) : accRank (relAcc c) = c := by
  cases c <;> simp [relAcc, accRank]

/-- **Every accepted event pays for itself**, except the operations of the program that create
    work (`gain`) and the CAS retry (`cost = 0`). -/
theorem mu_step (s s' : St) (e : Ev) (hi : Inv s) (h : step s e = some s') :
    mu s' + cost e ≤ mu s + gain e := by
  cases e with
  | req t a w newg died =>
    simp only [step] at h
    simp only [cost, isRetry, gain, Bool.false_eq_true, if_false]
    split at h
    · rename_i hc
      obtain ⟨_, ha⟩ := hc
      subst ha
      split at h
      · split at h
        · simp only [Option.some.injEq] at h; subst h
          have hm := (mu_new s
            { s with ng := s.ng + 1, rw := upd s.rw s.ng w, head := upd s.head s.ng (some []),
                     dn := upd s.dn s.ng (if s.ng = 0 then .pend t else .idle),
                     rc := upd s.rc s.ng (if s.ng = 0 then 2 else 3), dead := upd s.dead s.ng false,
                     first := upd s.first s.ng s.na, lastRw := w,
                     na := s.na + 1, grp := upd s.grp s.na s.ng, acc := upd s.acc s.na .sender }
            .sender rfl rfl rfl rfl).2 _ rfl rfl
          have hr : dnRank (if s.ng = 0 then Dn.pend t else Dn.idle) = 1 := by split <;> rfl
          rw [hr] at hm
          simp only [accRank] at hm
          split
          · rename_i hpos
            rw [mu_decRc]
            · omega
            · intro _ _
              have e1 : s.ng - 1 + 1 = s.ng := by omega
              have e2 : ¬ s.ng = 0 := by omega
              simp only [e1, upd_same, e2, if_false]
          · omega
        · simp at h
      · split at h
        · simp only [Option.some.injEq] at h; subst h
          have hm := (mu_new s
            { s with rc := upd s.rc (s.ng - 1) (s.rc (s.ng - 1) + 1), na := s.na + 1,
                     grp := upd s.grp s.na (s.ng - 1), acc := upd s.acc s.na .sender }
            .sender rfl rfl rfl rfl).1 rfl rfl
          simp only [accRank] at hm
          omega
        · simp at h
    · simp at h
  | destroy t died =>
    simp only [step] at h
    simp only [cost, isRetry, gain, Bool.false_eq_true, if_false]
    split at h
    · rename_i hal
      have hmu : ∀ s0 : St, s0.acc = s.acc → s0.na = s.na → s0.ng = s.ng → s0.dn = s.dn →
          s0.alive = false → s0.vfreed = s.vfreed → mu s0 + 1 = mu s := by
        intro s0 h1 h2 h3 h4 h5 h6
        simp only [mu, h1, h2, h3, h4, h5, h6, hal, b2n, Bool.false_eq_true, if_false, if_true]
        omega
      split at h
      · split at h
        · simp only [Option.some.injEq] at h; subst h
          rw [mu_decRc]
          · have := hmu { s with alive := false } rfl rfl rfl rfl rfl rfl
            omega
          · intro h1 h2
            exact dn_next_idle hi h1 h2
        · simp at h
      · split at h
        · simp only [Option.some.injEq] at h; subst h
          have := hmu { s with alive := false } rfl rfl rfl rfl rfl rfl
          omega
        · simp at h
    · simp at h
  | start t a det =>
    simp only [step] at h
    simp only [cost, isRetry, gain, Bool.false_eq_true, if_false]
    split at h
    · rename_i hx
      simp only [Option.some.injEq] at h; subst h
      have ha : a < s.na := lt_of_acc hi (by rw [hx]; simp)
      have := mu_setAcc s { s with acc := upd s.acc a (.starting t det) } a (.starting t det) ha rfl rfl rfl
        (fun _ => rfl) rfl rfl
      rw [hx] at this; simp only [accRank] at this
      omega
    · simp at h
  | load t a cls ack died =>
    simp only [step] at h
    simp only [cost, isRetry, gain, Bool.false_eq_true, if_false]
    split at h
    · rename_i t' det hx
      have ha : a < s.na := lt_of_acc hi (by rw [hx]; simp)
      split at h
      · split at h
        · rename_i q hh
          split at h
          · simp only [Option.some.injEq] at h; subst h
            have := mu_setAcc s { s with acc := upd s.acc a (.loaded t det q.length) } a (.loaded t det q.length)
              ha rfl rfl rfl (fun _ => rfl) rfl rfl
            rw [hx] at this; simp only [accRank] at this
            omega
          · simp at h
        · split at h
          · simp only [Option.some.injEq] at h; subst h
            have := mu_grant s t a det ha (fun h1 h2 => dn_next_idle hi h1 h2)
            rw [hx] at this; simp only [accRank] at this
            omega
          · simp at h
      · simp at h
    · simp at h
  | cas t a ok cls ack died =>
    simp only [step] at h
    split at h
    · rename_i t' det h0 hx
      have ha : a < s.na := lt_of_acc hi (by rw [hx]; simp)
      split at h
      · split at h
        · rename_i q hh
          split at h
          · rename_i hok
            subst hok
            simp only [cost, isRetry, gain, Bool.false_eq_true, if_false]
            split at h
            · simp only [Option.some.injEq] at h; subst h
              have := mu_setAcc s _ a (.queued det) ha
                (show ({ s with head := upd s.head (s.grp a) (some (a :: q)), acc := upd s.acc a (.queued det) } : St).acc = _ from rfl)
                rfl rfl (fun _ => rfl) rfl rfl
              rw [hx] at this; simp only [accRank] at this
              omega
            · simp at h
          · rename_i hok
            have hok' : ok = false := by cases ok <;> simp_all
            subst hok'
            split at h
            · rename_i hc
              obtain ⟨hcls, _, _⟩ := hc
              subst hcls
              simp only [Option.some.injEq] at h; subst h
              have := mu_setAcc s { s with acc := upd s.acc a (.loaded t det q.length) } a (.loaded t det q.length)
                ha rfl rfl rfl (fun _ => rfl) rfl rfl
              rw [hx] at this; simp only [accRank] at this
              have hr : (clsOf q != 2) = true := by unfold clsOf; split <;> decide
              simp only [cost, isRetry, hr, if_true, gain]
              omega
            · simp at h
        · split at h
          · rename_i hc
            obtain ⟨hok, hcls, _, _⟩ := hc
            subst hok; subst hcls
            simp only [Option.some.injEq] at h; subst h
            have := mu_grant s t a det ha (fun h1 h2 => dn_next_idle hi h1 h2)
            rw [hx] at this; simp only [accRank] at this
            simp [cost, isRetry, gain]
            omega
          · simp at h
      · simp at h
    · simp at h
  | xchg t g cls =>
    simp only [step] at h
    simp only [cost, isRetry, gain, Bool.false_eq_true, if_false]
    split at h
    · rename_i t' q hd hh
      split at h
      · rename_i hc
        simp only [Option.some.injEq] at h; subst h
        have := mu_setDn s { s with head := upd s.head g none, dn := upd s.dn g (.drain t q) } g (.drain t q)
          hc.2.1 rfl rfl rfl rfl rfl rfl
        rw [hd] at this; simp only [dnRank] at this
        omega
      · simp at h
    · simp at h
  | cont t g ack died =>
    simp only [step] at h
    simp only [cost, isRetry, gain, Bool.false_eq_true, if_false]
    split at h
    · rename_i t' a rest hd
      split at h
      · rename_i det hx
        have ha : a < s.na := lt_of_acc hi (by rw [hx]; simp)
        split at h
        · rename_i hc
          obtain ⟨_, hga, _, _⟩ := hc
          simp only [Option.some.injEq] at h; subst h
          have hg : g < s.ng := by rw [← hga]; exact hi.grpLt a ha
          have h0 := mu_setDn s { s with dn := upd s.dn g (.drain t rest) } g (.drain t rest) hg rfl rfl rfl rfl rfl rfl
          rw [hd] at h0; simp only [dnRank] at h0
          have := mu_grant { s with dn := upd s.dn g (.drain t rest) } t a det ha (by
            intro h1 h2
            have hne : s.grp a + 1 ≠ g := by omega
            show upd s.dn g (.drain t rest) (s.grp a + 1) = .idle
            rw [upd_other _ _ _ _ hne]
            exact dn_next_idle hi h1 h2)
          have hx' : ({ s with dn := upd s.dn g (.drain t rest) } : St).acc a = .queued det := hx
          rw [hx'] at this; simp only [accRank] at this
          omega
        · simp at h
      · simp at h
    · simp at h
  | copy t a =>
    simp only [step] at h
    simp only [cost, isRetry, gain, Bool.false_eq_true, if_false]
    split at h
    · rename_i c hx
      have ha : a < s.na := lt_of_acc hi (by rw [hx]; simp)
      split at h
      · simp only [Option.some.injEq] at h; subst h
        have := mu_setAcc s _ a (.granted (c + 1)) ha
          (show ({ s with acc := upd s.acc a (.granted (c + 1)), rc := upd s.rc (s.grp a) (s.rc (s.grp a) + 1) } : St).acc = _ from rfl)
          rfl rfl (fun _ => rfl) rfl rfl
        rw [hx] at this; simp only [accRank] at this
        omega
      · simp at h
    · simp at h
  | rel t a died =>
    simp only [step] at h
    simp only [cost, isRetry, gain, Bool.false_eq_true, if_false]
    split at h
    · rename_i c hx
      have ha : a < s.na := lt_of_acc hi (by rw [hx]; simp)
      split at h
      · simp only [Option.some.injEq] at h; subst h
        rw [mu_decRc]
        · have := mu_setAcc s { s with acc := upd s.acc a (relAcc c) } a (relAcc c) ha rfl rfl rfl (fun _ => rfl) rfl rfl
          rw [hx, accRank_relAcc] at this; simp only [accRank] at this
          omega
        · intro h1 h2
          exact dn_next_idle hi h1 h2
      · simp at h
    · simp at h
  | write t a v =>
    simp only [step] at h
    simp only [cost, isRetry, gain, Bool.false_eq_true, if_false]
    split at h
    · split at h
      · simp only [Option.some.injEq] at h; subst h
        have := mu_congr s { s with ver := s.ver + 1, wr := upd s.wr a (s.wr a + 1) } rfl rfl rfl (fun _ => rfl) rfl rfl
        omega
      · simp at h
    · simp at h
  | readv t a v =>
    simp only [step] at h
    simp only [cost, isRetry, gain, Bool.false_eq_true, if_false]
    split at h
    · split at h
      · simp only [Option.some.injEq] at h; subst h; omega
      · simp at h
    · simp at h
  | vfree t =>
    simp only [step] at h
    simp only [cost, isRetry, gain, Bool.false_eq_true, if_false]
    split at h
    · rename_i hc
      simp only [Option.some.injEq] at h; subst h
      simp only [mu, hc.2.2, b2n]
      simp
    · simp at h

end PikaVerif.Rw
