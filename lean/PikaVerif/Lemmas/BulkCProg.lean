import PikaVerif.Lemmas.BulkC
/-!
Termination measure of the composed bulk model `PikaVerif.BulkC` (C11, follow-up C11p).

`mu s` is a natural number that strictly decreases with every accepted event except the
stutter event `decide` (which leaves the state unchanged):

* every chunk `j` still in a queue weighs `2 · (number of its indices) + (w + 2)`
  (two events per call; one unit for leaving the queue; `w` units because the successful
  compare-exchange makes the expected word of up to `w` workers stale, one per later failed
  compare-exchange; one for the `chunk` event);
* every worker weighs `pcw` (its place in the spawn / steal-round / decrement protocol:
  `3·(w − off)` for the queues it has not yet seen empty) + `lpw` (calls left in the chunk it
  is running, two events each) + `exw` (2 before the load of a `pop_*` and while the loaded
  word is stale, 1 while the loaded word is current);
* 1 for the pending completion.
-/
namespace PikaVerif.BulkC
open PikaVerif PikaVerif.Gen.BulkArith PikaVerif.Gen.IndexRange PikaVerif.BulkPlan
open PikaVerif.BulkArith PikaVerif.Partition PikaVerif.C11

/-! ### sums -/

theorem sumTo_except {n : Nat} {f f' : Nat → Nat} {k : Nat} (hk : k < n)
    (h : ∀ u, u ≠ k → f' u = f u) : sumTo n f' + f k = sumTo n f + f' k := by
  induction n with
  | zero => exact absurd hk (Nat.not_lt_zero _)
  | succ m ih =>
    simp only [sumTo_succ]
    by_cases hm : k = m
    · subst hm
      have : sumTo k f' = sumTo k f := sumTo_congr (fun u hu => h u (by omega))
      omega
    · have := ih (by omega)
      have := h m (fun e => hm e.symm)
      omega

theorem sumTo_le_add {n : Nat} {f f' : Nat → Nat} (h : ∀ u, u < n → f' u ≤ f u + 1) :
    sumTo n f' ≤ sumTo n f + n := by
  induction n with
  | zero => simp
  | succ m ih =>
    simp only [sumTo_succ]
    have := ih (fun u hu => h u (by omega))
    have := h m (by omega)
    omega

theorem sumTo_le_mul {n : Nat} {f : Nat → Nat} {b : Nat} (h : ∀ u, u < n → f u ≤ b) :
    sumTo n f ≤ n * b := by
  induction n with
  | zero => simp
  | succ m ih =>
    simp only [sumTo_succ]
    have := ih (fun u hu => h u (by omega))
    have := h m (by omega)
    rw [Nat.succ_mul]
    omega

/-! ### the measure -/

/-- place of a worker in the spawn / steal round / decrement protocol -/
def pcw (w : Nat) : Bulk.Pc → Nat
  | .idle => 3 * w + 8
  | .spawned => 3 * w + 6
  | .run off => 3 * (w - off) + 4
  | .work off _ => 3 * (w - off) + 4
  | .fin _ => 2
  | .decd => 0

/-- events left in the chunk the worker is running: two per call -/
def lpw (c n : Nat) : Lp → Nat
  | .out => 0
  | .got j => 2 * (cut c n (j + 1) - cut c n j) + 1
  | .at cur ie => 2 * (ie - cur).toNat
  | .incall cur ie => 2 * (ie - cur - 1).toNat + 1
  | .threw _ => 0

/-- 1 while the worker's loaded word is the current word of the queue it pops from, else 2 -/
def exwf (w : Nat) (qs : Nat → Nat × Nat) (k : Nat) : Option (Int × Int) → Option Nat → Nat
  | some x, some off => if x = word (qs ((k + off) % w)) then 1 else 2
  | _, _ => 2

def exw (s : St) (k : Nat) : Nat := exwf s.w s.p.qs k (s.ex k) (popOff (s.p.pc k))

/-- weight of the chunks `[r.1, r.2)` still in a queue -/
def qw (w c n : Nat) (r : Nat × Nat) : Nat :=
  2 * (cut c n r.2 - cut c n r.1) + (w + 2) * (r.2 - r.1)

/-- the measure of the running phase -/
def mu1 (s : St) : Nat :=
  sumTo s.w (fun q => qw s.w s.c s.n (s.p.qs q)) + sumTo s.w (fun k => pcw s.w (s.p.pc k)) +
    sumTo s.w (fun k => lpw s.c s.n (s.lp k)) + sumTo s.w (fun k => exw s k) + (1 - s.p.signals)

/-- the state right after `plan c` -/
def planned (s : St) (c : Nat) : St :=
  { s with ph := 1, c := c, ts := some s.v, p := Bulk.init s.w s.p.L (cutsOf s.S s.w s.n c) }

/-- **The termination measure.**  Before `set_value`: everything the plan will create, plus 2;
    `shape == 0` path: the pending completion. -/
def mu (s : St) : Nat :=
  if s.ph = 0 then
    (match chunkSizeOf s.S fuel s.w s.n with
     | some c => mu1 (planned s c.toNat)
     | none => 0) + 2
  else if s.ph = 1 then mu1 s
  else 1 - s.done.length

theorem exwf_bounds (w : Nat) (qs : Nat → Nat × Nat) (k : Nat) (e : Option (Int × Int))
    (o : Option Nat) : 1 ≤ exwf w qs k e o ∧ exwf w qs k e o ≤ 2 := by
  unfold exwf
  split
  · split <;> omega
  · omega

theorem exw_bounds (s : St) (k : Nat) : 1 ≤ exw s k ∧ exw s k ≤ 2 := exwf_bounds _ _ _ _ _

theorem cut_mono_le (c n : Nat) {a b : Nat} (h : a ≤ b) : cut c n a ≤ cut c n b := by
  unfold cut
  have : a * c ≤ b * c := Nat.mul_le_mul_right c h
  omega

theorem qw_popL (w c n f l : Nat) (h : f < l) :
    qw w c n (f, l) = qw w c n (f + 1, l) + 2 * (cut c n (f + 1) - cut c n f) + (w + 2) := by
  unfold qw
  dsimp only
  have h1 := cut_mono_le c n (show f ≤ f + 1 by omega)
  have h2 := cut_mono_le c n (show f + 1 ≤ l from h)
  have e : l - f = (l - (f + 1)) + 1 := by omega
  rw [e, Nat.mul_succ]
  omega

theorem qw_popR (w c n f l : Nat) (h : f < l) :
    qw w c n (f, l) = qw w c n (f, l - 1) + 2 * (cut c n (l - 1 + 1) - cut c n (l - 1)) + (w + 2) := by
  unfold qw
  dsimp only
  have e1 : l - 1 + 1 = l := by omega
  rw [e1]
  have h1 := cut_mono_le c n (show f ≤ l - 1 by omega)
  have h2 := cut_mono_le c n (show l - 1 ≤ l by omega)
  have e : l - f = (l - 1 - f) + 1 := by omega
  rw [e, Nat.mul_succ]
  omega

theorem lpw_popReady (c n : Nat) (l : Lp) (h : popReady l = true) : lpw c n l = 0 := by
  cases l with
  | out => rfl
  | «at» cur ie =>
    simp only [popReady, decide_eq_true_eq] at h
    simp only [lpw]
    omega
  | _ => simp [popReady] at h

/-- an event of worker `k` that leaves the queues and the signal count alone: the measure moves
    by the change of `k`'s own weights -/
theorem mu1_worker (s s' : St) (k : Nat) (hk : k < s.w)
    (hw : s'.w = s.w) (hc : s'.c = s.c) (hn : s'.n = s.n) (hqs : s'.p.qs = s.p.qs)
    (hsig : s'.p.signals = s.p.signals)
    (hpc : ∀ u, u ≠ k → s'.p.pc u = s.p.pc u) (hlp : ∀ u, u ≠ k → s'.lp u = s.lp u)
    (hex : ∀ u, u ≠ k → s'.ex u = s.ex u)
    (hlt : pcw s.w (s'.p.pc k) + lpw s.c s.n (s'.lp k) + exw s' k <
           pcw s.w (s.p.pc k) + lpw s.c s.n (s.lp k) + exw s k) : mu1 s' < mu1 s := by
  unfold mu1
  rw [hw, hc, hn, hqs, hsig]
  have a := sumTo_except (f := fun u => pcw s.w (s.p.pc u)) (f' := fun u => pcw s.w (s'.p.pc u)) hk
    (fun u hu => by rw [hpc u hu])
  have b := sumTo_except (f := fun u => lpw s.c s.n (s.lp u)) (f' := fun u => lpw s.c s.n (s'.lp u)) hk
    (fun u hu => by rw [hlp u hu])
  have d := sumTo_except (f := fun u => exw s u) (f' := fun u => exw s' u) hk
    (fun u hu => by simp only [exw]; rw [hw, hqs, hex u hu, hpc u hu])
  omega

/-- side goals of `mu1_worker` / `mu1_worker2` / `mu1_lpOnly`: unchanged fields -/
macro "worker_side" : tactic =>
  `(tactic| first | rfl | (intro u hu; first | rfl | exact upd_other _ _ _ _ hu) | skip)

/-- as `mu1_worker`, the worker's `exw` bounded generically (it is 1 or 2) -/
theorem mu1_worker2 (s s' : St) (k : Nat) (hk : k < s.w)
    (hw : s'.w = s.w) (hc : s'.c = s.c) (hn : s'.n = s.n) (hqs : s'.p.qs = s.p.qs)
    (hsig : s'.p.signals = s.p.signals)
    (hpc : ∀ u, u ≠ k → s'.p.pc u = s.p.pc u) (hlp : ∀ u, u ≠ k → s'.lp u = s.lp u)
    (hex : ∀ u, u ≠ k → s'.ex u = s.ex u)
    (hlt : pcw s.w (s'.p.pc k) + lpw s.c s.n (s'.lp k) + 2 ≤
           pcw s.w (s.p.pc k) + lpw s.c s.n (s.lp k)) : mu1 s' < mu1 s := by
  apply mu1_worker s s' k hk hw hc hn hqs hsig hpc hlp hex
  have a := (exw_bounds s k).1
  have b := (exw_bounds s' k).2
  omega

/-- an event that only moves worker `k` inside `do_work_chunk` -/
theorem mu1_lpOnly (s s' : St) (k : Nat) (x : Lp) (hk : k < s.w)
    (hw : s'.w = s.w) (hc : s'.c = s.c) (hn : s'.n = s.n) (hp : s'.p = s.p) (hex : s'.ex = s.ex)
    (hlp : s'.lp = upd s.lp k x) (hlt : lpw s.c s.n x < lpw s.c s.n (s.lp k)) : mu1 s' < mu1 s := by
  apply mu1_worker s s' k hk hw hc hn (by rw [hp]) (by rw [hp]) (fun u _ => by rw [hp])
    (fun u hu => by rw [hlp]; exact upd_other _ _ _ _ hu) (fun u _ => by rw [hex])
  have : exw s' k = exw s k := by simp only [exw]; rw [hw, hp, hex]
  rw [this, hp, hlp, upd_same]
  omega

/-- the load / failed compare-exchange that leaves worker `k` with the current word -/
theorem mu1_exSet (s : St) (k off : Nat) (x : Int × Int) (hk : k < s.w)
    (hoff : popOff (s.p.pc k) = some off) (hx : x = word (s.p.qs ((k + off) % s.w)))
    (hold : exw s k = 2) : mu1 { s with ex := upd s.ex k (some x) } < mu1 s := by
  apply mu1_worker s _ k hk <;> worker_side
  have : exw { s with ex := upd s.ex k (some x) } k = 1 := by
    simp only [exw, upd_same, hoff, exwf, hx, if_true]
  rw [this, hold]
  dsimp only
  omega

theorem pcw_afterEmpty (w off : Nat) (pc : Bulk.Pc) (h : Bulk.offOf pc = some off) :
    pcw w (Bulk.afterEmpty w off) + 2 ≤ pcw w pc := by
  have hp : pcw w pc = 3 * (w - off) + 4 := by
    cases pc <;> simp [Bulk.offOf] at h <;> subst h <;> rfl
  rw [hp]
  unfold Bulk.afterEmpty
  split
  · simp only [pcw]; omega
  · simp only [pcw]; omega

theorem pcw_of_offOf (w off j : Nat) (pc : Bulk.Pc) (h : Bulk.offOf pc = some off) :
    pcw w pc = pcw w (.work off j) := by
  cases pc <;> simp [Bulk.offOf] at h <;> subst h <;> rfl

theorem mu1_popNone (s s' : St) (k q : Nat) (hi : CInv s) (hk : k < s.w)
    (hr : popReady (s.lp k) = true) (h : popNone s k q = some s') : mu1 s' < mu1 s := by
  simp only [popNone] at h
  split at h
  next p' hb =>
    simp only [Option.some.injEq] at h; subst h
    obtain ⟨_, off, hoff, hp⟩ := Bulk.eff_popNone _ _ _ _ hb
    subst hp
    apply mu1_worker2 s _ k hk <;> worker_side
    dsimp only
    rw [upd_same, upd_same, lpw_popReady _ _ _ hr, hi.pw]
    have := pcw_afterEmpty s.w off _ hoff
    simp only [lpw]
    omega
  next => simp at h

theorem mu1_popSome (s : St) (p' : Bulk.St) (k q j : Nat) (hi : CInv s) (hk : k < s.w)
    (hr : popReady (s.lp k) = true) (hb : Bulk.step s.p (.pop k q (some j)) = some p') :
    mu1 { s with p := p', ex := upd s.ex k none, lp := upd s.lp k (.got j) } < mu1 s := by
  obtain ⟨hkw, off, hoff, hqq, hne, hj, hp⟩ := Bulk.eff_popSome _ _ _ _ _ hb
  have hw : s.p.w = s.w := hi.pw
  have hqw : q < s.w := by rw [hqq, hw]; exact Nat.mod_lt _ (by omega)
  have hlt := (Bulk.qEmpty_false_iff _).1 hne
  have hl0 := lpw_popReady s.c s.n _ hr
  have hp0 := pcw_of_offOf s.w off j _ hoff
  have D := sumTo_le_add (n := s.w) (f := fun u => exw s u)
    (f' := fun u => exw { s with p := p', ex := upd s.ex k none, lp := upd s.lp k (.got j) } u)
    (fun u _ => by
      have a := (exw_bounds s u).1
      have b := (exw_bounds { s with p := p', ex := upd s.ex k none, lp := upd s.lp k (.got j) } u).2
      omega)
  have B := sumTo_upd s.w (pcw s.w) s.p.pc k (.work off j) hk
  have C := sumTo_upd s.w (lpw s.c s.n) s.lp k (.got j) hk
  have hg : lpw s.c s.n (.got j) = 2 * (cut s.c s.n (j + 1) - cut s.c s.n j) + 1 := rfl
  by_cases h0 : off = 0
  · rw [if_pos h0] at hj hp
    subst hj
    subst hp
    unfold mu1
    dsimp only at D ⊢
    have A := sumTo_upd s.w (qw s.w s.c s.n) s.p.qs q ((s.p.qs q).1 + 1, (s.p.qs q).2) hqw
    have Q : qw s.w s.c s.n (s.p.qs q) = _ := qw_popL s.w s.c s.n (s.p.qs q).1 (s.p.qs q).2 hlt
    omega
  · rw [if_neg h0] at hj hp
    subst hj
    subst hp
    unfold mu1
    dsimp only at D ⊢
    have A := sumTo_upd s.w (qw s.w s.c s.n) s.p.qs q ((s.p.qs q).1, (s.p.qs q).2 - 1) hqw
    have Q : qw s.w s.c s.n (s.p.qs q) = _ := qw_popR s.w s.c s.n (s.p.qs q).1 (s.p.qs q).2 hlt
    omega

theorem mu1_load (s s' : St) (k q : Nat) (f l : Int) (hi : CInv s)
    (h : step s (.load k q f l) = some s') : mu1 s' < mu1 s := by
  simp only [step] at h
  split at h
  next hg =>
    split at h
    next off hoff =>
      split at h
      next hq =>
        split at h
        next => exact mu1_popNone s s' k q hi hg.2.1 hg.2.2.2.1 h
        next =>
          simp only [Option.some.injEq] at h; subst h
          exact mu1_exSet s k off (f, l) hg.2.1 hoff (by rw [← hq]; exact hg.2.2.2.2)
            (by simp only [exw, hg.2.2.1, exwf])
      next => simp at h
    next => simp at h
  next => simp at h

theorem mu1_cas (s s' : St) (k q : Nat) (ok : Bool) (f l : Int) (hi : CInv s)
    (h : step s (.cas k q ok f l) = some s') : mu1 s' < mu1 s := by
  simp only [step] at h
  split at h
  next hg =>
    split at h
    next ef el off hex hoff =>
      split at h
      next hq =>
        split at h
        next => simp at h
        next idx df dl htry =>
          split at h
          next hcur =>
            split at h
            next hok =>
              split at h
              next p' hb =>
                split at h
                next hw =>
                  simp only [Option.some.injEq] at h; subst h
                  exact mu1_popSome s p' k q idx.toNat hi hg.2.1 hg.2.2 hb
                next => simp at h
              next => simp at h
            next => simp at h
          next hcur =>
            split at h
            next hok =>
              split at h
              next => exact mu1_popNone s s' k q hi hg.2.1 hg.2.2 h
              next =>
                simp only [Option.some.injEq] at h; subst h
                exact mu1_exSet s k off (f, l) hg.2.1 hoff (by rw [← hq]; exact hok.2)
                  (by simp only [exw, hex, hoff, exwf]; rw [← hq, if_neg hcur])
            next => simp at h
      next => simp at h
    next => simp at h
  next => simp at h

theorem mu1_chunk (s s' : St) (k j : Nat) (hi : CInv s) (h : step s (.chunk k j) = some s') :
    mu1 s' < mu1 s := by
  simp only [step] at h
  split at h
  next hg =>
    split at h
    next p' hb =>
      simp only [Option.some.injEq] at h; subst h
      obtain ⟨hk1, hk, hlp, _⟩ := hg
      obtain ⟨hp, off, hpc⟩ := Bulk.eff_chunk _ _ _ _ hb
      subst hp
      have hj := hi.gotB k j hlp
      have hr := (C11_chunk_ranges s.S s.w s.n s.c k j hi.safe hk hj).1
      have hc1 : 1 ≤ s.c := hi.safe.2.1
      apply mu1_lpOnly s _ k _ hk <;> worker_side
      rw [hlp, hr]
      simp only [lpw]
      have e1 := cut_of_lt s.c s.n j hc1 hj
      have e2 : cut s.c s.n (j + 1) = min ((j + 1) * s.c) s.n := rfl
      rw [e1, e2]
      omega
    next => simp at h
  next => simp at h

theorem mu1_call (s s' : St) (k : Nat) (i v : Int) (h : step s (.call k i v) = some s') :
    mu1 s' < mu1 s := by
  simp only [step] at h
  split at h
  next hg =>
    split at h
    next cur ie hlp =>
      split at h
      next hc =>
        simp only [Option.some.injEq] at h; subst h
        apply mu1_lpOnly s _ k _ hg.2 <;> worker_side
        rw [hlp]; simp only [lpw]; omega
      next => simp at h
    next => simp at h
  next => simp at h

theorem mu1_ret (s s' : St) (k : Nat) (h : step s (.ret k) = some s') : mu1 s' < mu1 s := by
  simp only [step] at h
  split at h
  next hg =>
    split at h
    next cur ie hlp =>
      simp only [Option.some.injEq] at h; subst h
      apply mu1_lpOnly s _ k _ hg.2 <;> worker_side
      rw [hlp]; simp only [lpw]; omega
    next => simp at h
  next => simp at h

theorem mu1_throw (s s' : St) (k : Nat) (h : step s (.throw k) = some s') : mu1 s' < mu1 s := by
  simp only [step] at h
  split at h
  next hg =>
    split at h
    next cur ie hlp =>
      simp only [Option.some.injEq] at h; subst h
      apply mu1_lpOnly s _ k _ hg.2 <;> worker_side
      rw [hlp]; simp only [lpw]; omega
    next => simp at h
  next => simp at h

theorem mu1_exc (s s' : St) (k : Nat) (h : step s (.exc k) = some s') : mu1 s' < mu1 s := by
  simp only [step] at h
  split at h
  next hg =>
    split at h
    next i hlp =>
      split at h
      next p' hb =>
        simp only [Option.some.injEq] at h; subst h
        obtain ⟨_, _, ⟨off, j, hpc⟩, hp⟩ := Bulk.eff_exc _ _ _ hb
        subst hp
        apply mu1_worker2 s _ k hg.2 <;> worker_side
        dsimp only
        rw [upd_same, upd_same, hpc, hlp]
        simp only [pcw, lpw]; omega
      next => simp at h
    next => simp at h
  next => simp at h

theorem mu1_dec (s s' : St) (k : Nat) (last : Bool) (h : step s (.dec k last) = some s') :
    mu1 s' < mu1 s := by
  simp only [step] at h
  split at h
  next hg =>
    split at h
    next hlp =>
      split at h
      next hfin =>
        split at h
        next p' hb =>
          simp only [Option.some.injEq] at h; subst h
          obtain ⟨_, hrem, _, hp⟩ := Bulk.eff_dec _ _ _ _ hb
          rcases hp with ⟨⟨t, hpc⟩, hp⟩ | ⟨⟨off, j, hpc⟩, _, _⟩
          · subst hp
            apply mu1_worker2 s _ k hg.2 <;> worker_side
            dsimp only
            rw [upd_same, hpc]
            simp only [pcw]; omega
          · rw [hpc] at hfin; simp [isFin] at hfin
        next => simp at h
      next => simp at h
    next i hlp =>
      split at h
      next hwk =>
        split at h
        next p' hb =>
          simp only [Option.some.injEq] at h; subst h
          obtain ⟨_, hrem, _, hp⟩ := Bulk.eff_dec _ _ _ _ hb
          rcases hp with ⟨⟨t, hpc⟩, _⟩ | ⟨⟨off, j, hpc⟩, _, hp⟩
          · rw [hpc] at hwk; simp [isWork] at hwk
          · subst hp
            apply mu1_worker2 s _ k hg.2 <;> worker_side
            dsimp only
            rw [upd_same, upd_same, hpc, hlp]
            simp only [pcw, lpw]; omega
        next => simp at h
      next => simp at h
    next => simp at h
  next => simp at h

theorem mu1_spawn (s s' : St) (k : Nat) (hi : CInv s) (h : step s (.spawn k) = some s') :
    mu1 s' < mu1 s := by
  simp only [step] at h
  split at h
  next hg =>
    split at h
    next p' hb =>
      simp only [Option.some.injEq] at h; subst h
      obtain ⟨hk, hpc, hp⟩ := Bulk.eff_spawn _ _ _ hb
      subst hp
      apply mu1_worker2 s _ k (by rw [← hi.pw]; exact hk) <;> worker_side
      dsimp only
      rw [upd_same, hpc]
      simp only [pcw]; omega
    next => simp at h
  next => simp at h

theorem mu1_skip (s s' : St) (k : Nat) (hi : CInv s) (h : step s (.skip k) = some s') :
    mu1 s' < mu1 s := by
  simp only [step] at h
  split at h
  next hg =>
    split at h
    next p' hb =>
      simp only [Option.some.injEq] at h; subst h
      obtain ⟨hk, hpc, hp⟩ := Bulk.eff_skip _ _ _ hb
      subst hp
      apply mu1_worker2 s _ k (by rw [← hi.pw]; exact hk) <;> worker_side
      dsimp only
      rw [upd_same, hpc]
      simp only [pcw]; omega
    next => simp at h
  next => simp at h

theorem mu1_task (s s' : St) (k : Nat) (hi : CInv s) (h : step s (.task k) = some s') :
    mu1 s' < mu1 s := by
  simp only [step] at h
  split at h
  next hg =>
    split at h
    next p' hb =>
      simp only [Option.some.injEq] at h; subst h
      obtain ⟨hk, hpc, hp⟩ := Bulk.eff_task _ _ _ hb
      subst hp
      apply mu1_worker2 s _ k (by rw [← hi.pw]; exact hk) <;> worker_side
      dsimp only
      rw [upd_same]
      rcases hpc with hpc | hpc <;> rw [hpc] <;> simp only [pcw] <;> omega
    next => simp at h
  next => simp at h

theorem mu1_sig (s s' : St) (err : Bool) (tok : Int) (hph : s.ph = 1)
    (h : step s (.sig err tok) = some s') : mu1 s' < mu1 s := by
  simp only [step] at h
  rw [if_pos hph] at h
  by_cases htok : (if err then s.exception = some tok else s.ts = some tok)
  · rw [if_pos htok] at h
    cases hb : Bulk.step s.p (.sig err) with
    | none => rw [hb] at h; simp at h
    | some p' =>
      rw [hb] at h
      simp only [Option.some.injEq] at h; subst h
      obtain ⟨_, h0, hp⟩ := Bulk.eff_sig _ _ _ hb
      subst hp
      have e : ∀ u, exw { s with p := { s.p with signals := 1 }, done := (err, tok) :: s.done } u = exw s u :=
        fun u => rfl
      unfold mu1
      dsimp only
      simp only [e]
      rw [h0]
      omega
  · rw [if_neg htok] at h; simp at h

/-- the only event that leaves the state unchanged -/
def isStutter : Ev → Bool
  | .decide _ _ => true
  | _ => false

/-- **Every accepted event of the running phase other than `decide` decreases the measure.** -/
theorem mu1_step (s s' : St) (e : Ev) (hi : CInv s) (hph : s.ph = 1) (hs : isStutter e = false)
    (h : step s e = some s') : mu1 s' < mu1 s := by
  cases e with
  | zero => simp [step, hph] at h
  | plan c => simp [step, hph] at h
  | spawn k => exact mu1_spawn s s' k hi h
  | skip k => exact mu1_skip s s' k hi h
  | task k => exact mu1_task s s' k hi h
  | load k q f l => exact mu1_load s s' k q f l hi h
  | cas k q ok f l => exact mu1_cas s s' k q ok f l hi h
  | chunk k j => exact mu1_chunk s s' k j hi h
  | call k i v => exact mu1_call s s' k i v h
  | ret k => exact mu1_ret s s' k h
  | throw k => exact mu1_throw s s' k h
  | exc k => exact mu1_exc s s' k h
  | dec k last => exact mu1_dec s s' k last h
  | decide k err => simp [isStutter] at hs
  | sig err tok => exact mu1_sig s s' err tok hph h

theorem stutter_same (s s' : St) (e : Ev) (hs : isStutter e = true) (h : step s e = some s') :
    s' = s := by
  cases e with
  | decide k err =>
    simp only [step] at h
    split at h
    · simp only [Option.some.injEq] at h; exact h.symm
    · simp at h
  | _ => simp [isStutter] at hs

/-! ### all phases -/

/-- **Every accepted event other than the stutter `decide` decreases `mu`** (in states that
    satisfy the invariant `Full`, i.e. in every reachable state). -/
theorem mu_step (s s' : St) (e : Ev) (hf : Full s) (hs : isStutter e = false)
    (h : step s e = some s') : mu s' < mu s := by
  rcases hf with ⟨hph, _, _, _, _, e3, _⟩ | ⟨hph, _, _, _, _, e3⟩ | ⟨hph, _, hi⟩
  · cases e with
    | zero =>
      simp only [step] at h
      split at h
      next hg =>
        simp only [Option.some.injEq] at h; subst h
        simp only [mu, hph, if_true]
        rw [if_neg (by decide), if_neg (by decide)]
        omega
      next => simp at h
    | plan c =>
      simp only [step] at h
      split at h
      next hg =>
        simp only [Option.some.injEq] at h; subst h
        simp only [mu, hph, if_true, hg.2.2.1, Int.toNat_natCast]
        show mu1 (planned s c) < mu1 (planned s c) + 2
        omega
      next => simp at h
    | _ => simp [step, hph] at h
  · cases e with
    | sig err tok =>
      simp only [step] at h
      rw [if_neg (by omega)] at h
      split at h
      next hg =>
        simp only [Option.some.injEq] at h; subst h
        have h0 : s.ph ≠ 0 := by omega
        have h1 : s.ph ≠ 1 := by omega
        simp only [mu, h0, h1, if_false, hg.2.2.2, List.length_nil, List.length_singleton]
        omega
      next => simp at h
    | _ => simp [step, hph] at h
  · have hp' := step_ph1 s s' e hph h
    have h0 : s.ph ≠ 0 := by omega
    have h0' : s'.ph ≠ 0 := by omega
    simp only [mu, hph, hp', if_true]
    exact mu1_step s s' e hi hph hs h

/-- non-stutter events of a log -/
def work (log : List Ev) : Nat := (log.filter (fun e => !isStutter e)).length

/-- **Length bound**: the number of non-stutter events of an accepted log plus the measure of
    the state reached is at most the measure of the start state. -/
theorem work_le_mu (s s' : St) (log : List Ev) (hf : Full s) (h : runLog step s log = some s') :
    work log + mu s' ≤ mu s := by
  induction log generalizing s with
  | nil => simp only [runLog_nil, Option.some.injEq] at h; subst h; simp [work]
  | cons e es ih =>
    simp only [runLog] at h
    cases hs : step s e with
    | none => simp [hs] at h
    | some s1 =>
      simp only [hs] at h
      have := ih s1 (full_step s s1 e hf hs) h
      cases hst : isStutter e with
      | true =>
        have := stutter_same s s1 e hst hs
        subst this
        have : work (e :: es) = work es := by simp [work, hst]
        omega
      | false =>
        have := mu_step s s1 e hf hst hs
        have : work (e :: es) = work es + 1 := by simp [work, hst]
        omega

/-! ### the explicit bound -/

theorem qw_tele (W c n : Nat) (a : Nat → Nat) (m : Nat) (hm : ∀ k, k < m → a k ≤ a (k + 1)) :
    sumTo m (fun k => qw W c n (a k, a (k + 1))) = qw W c n (a 0, a m) ∧ a 0 ≤ a m := by
  induction m with
  | zero => simp [qw]
  | succ j ih =>
    obtain ⟨e, hle⟩ := ih (fun k hk => hm k (by omega))
    have h1 := hm j (by omega)
    simp only [sumTo_succ]
    rw [e]
    refine ⟨?_, by omega⟩
    unfold qw
    dsimp only
    have c1 := cut_mono_le c n hle
    have c2 := cut_mono_le c n h1
    have : (W + 2) * (a (j + 1) - a 0) = (W + 2) * (a j - a 0) + (W + 2) * (a (j + 1) - a j) := by
      rw [← Nat.mul_add]; congr 1; omega
    omega

theorem nchunks_le (c n : Nat) (hc : 1 ≤ c) : nchunks c n ≤ n := by
  unfold nchunks
  by_cases hn : n = 0
  · subst hn
    have : (0 + c - 1) / c = 0 := Nat.div_eq_of_lt (by omega)
    omega
  · have : (n + c - 1) / c ≤ (n * c) / c := by
      apply Nat.div_le_div_right
      have : n * c = (n - 1) * c + c := by
        have : n = (n - 1) + 1 := by omega
        conv => lhs; rw [this, Nat.succ_mul]
      have : n - 1 ≤ (n - 1) * c := Nat.le_mul_of_pos_right _ (by omega)
      omega
    rw [Nat.mul_div_cancel _ (by omega : 0 < c)] at this
    exact this

/-- explicit bound on the number of (non-stutter) events of `bulk` with shape `n` on `w`
    workers: `2n` calls / returns, `(w + 2)` per chunk (at most `n` chunks), and
    `3w + 10` per worker, 1 completion, 2 for `set_value` -/
def bound (n w : Nat) : Nat := (w + 4) * n + w * (3 * w + 10) + 3

theorem mu1_planned (S : CTy) (w n L : Nat) (v : Int) (c : Nat) (hsafe : SafeC S w n c) :
    mu1 (planned (init S w n L v) c) = 2 * n + (w + 2) * nchunks c n + w * (3 * w + 10) + 1 := by
  have hpa : ∀ k, k ≤ w → cutsOf S w n c k = part w (nchunks c n) k :=
    fun k hk => cutsOf_ideal S w n c hsafe k hk
  have hc1 : 1 ≤ c := hsafe.2.1
  have hw1 : 1 ≤ w := hsafe.2.2.2.1
  obtain ⟨t1, _⟩ := qw_tele w c n (cutsOf S w n c) w (fun k hk => by
    rw [hpa k (by omega), hpa (k + 1) (by omega)]; exact part_mono _ _ k)
  rw [hpa 0 (by omega), hpa w (by omega), part_zero, part_last _ _ (by omega)] at t1
  have q : qw w c n (0, nchunks c n) = 2 * n + (w + 2) * nchunks c n := by
    unfold qw; dsimp only
    rw [cut_last c n (by omega), cut_zero]; simp only [Nat.sub_zero]
  have e1 : sumTo w (fun k => pcw w (Bulk.Pc.idle)) = w * (3 * w + 8) := by
    have hp : pcw w (Bulk.Pc.idle) = 3 * w + 8 := rfl
    rw [hp]
    generalize 3 * w + 8 = z
    have : ∀ m, sumTo m (fun _ => z) = m * z := by
      intro m; induction m with
      | zero => simp
      | succ j ih => rw [sumTo_succ, ih, Nat.succ_mul]
    exact this w
  have e2 : sumTo w (fun _ => lpw c n Lp.out) = 0 := sumTo_eq_zero (fun _ _ => rfl)
  have e3 : sumTo w (fun k => exw (planned (init S w n L v) c) k) = w * 2 := by
    have : ∀ k, exw (planned (init S w n L v) c) k = 2 := fun k => rfl
    simp only [this]
    have : ∀ m, sumTo m (fun _ => 2) = m * 2 := by
      intro m; induction m with
      | zero => simp
      | succ j ih => rw [sumTo_succ, ih, Nat.succ_mul]
    exact this w
  unfold mu1
  show sumTo w (fun k => qw w c n (cutsOf S w n c k, cutsOf S w n c (k + 1))) +
      sumTo w (fun k => pcw w (Bulk.Pc.idle)) + sumTo w (fun _ => lpw c n Lp.out) +
      sumTo w (fun k => exw (planned (init S w n L v) c) k) + (1 - 0) = _
  rw [t1, q, e1, e2, e3]
  have : w * (3 * w + 10) = w * (3 * w + 8) + w * 2 := by rw [← Nat.mul_add]
  omega

/-- the measure of the start state is at most the explicit bound -/
theorem mu_init_le (S : CTy) (w n L : Nat) (v : Int) (hs : Safe S w n) :
    mu (init S w n L v) ≤ bound n w := by
  obtain ⟨c, hc, hsafe⟩ := C11_chunk_size_safe S w n hs
  have e : mu (init S w n L v) = mu1 (planned (init S w n L v) c) + 2 := by
    unfold mu
    rw [if_pos (show (init S w n L v).ph = 0 from rfl)]
    show (match chunkSizeOf S fuel w n with
          | some c => mu1 (planned (init S w n L v) c.toNat) | none => 0) + 2 = _
    rw [hc]
    simp only [Int.toNat_natCast]
  rw [e, mu1_planned S w n L v c hsafe]
  have hn := nchunks_le c n hsafe.2.1
  have : (w + 2) * nchunks c n ≤ (w + 2) * n := Nat.mul_le_mul_left _ hn
  have : (w + 4) * n = 2 * n + (w + 2) * n := by rw [← Nat.add_mul]; congr 1; omega
  unfold bound
  omega

end PikaVerif.BulkC
