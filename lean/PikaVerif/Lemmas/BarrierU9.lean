import PikaVerif.Lemmas.BarrierU8
/-!
# Lock-step invariant with `arrive_and_drop` at the end (C09u)

Program class `awdProg P d`: every thread does `P` × `arrive_and_wait`; the threads with
`d t = true` then do one `arrive_and_drop`.  `avd P d prog t` = operations thread `t` has invoked.
-/
namespace PikaVerif.Barrier
open PikaVerif

def dn (d : Nat → Bool) (t : Nat) : Nat := if d t then 1 else 0
def avd (P : Nat) (d : Nat → Bool) (prog : Nat → List Op) (t : Nat) : Nat := P + dn d t - (prog t).length

/-- a suffix of `aw … aw [drop]` -/
def okL (dt : Bool) (l : List Op) : Prop :=
  l = [] ∨ ∃ k, l = List.replicate k .aw ++ (if dt then [.drop] else [])

theorem okL_cons {dt : Bool} {o : Op} {rest : List Op} (h : okL dt (o :: rest)) :
    (o = .aw ∧ okL dt rest ∧ (if dt then 1 else 0) ≤ rest.length) ∨ (o = .drop ∧ rest = [] ∧ dt = true) := by
  rcases h with h | ⟨k, h⟩
  · simp at h
  · cases k with
    | zero =>
      cases dt <;> simp at h
      exact Or.inr ⟨h.1, h.2, rfl⟩
    | succ k =>
      simp only [List.replicate_succ, List.cons_append, List.cons.injEq] at h
      refine Or.inl ⟨h.1, Or.inr ⟨k, h.2⟩, ?_⟩
      rw [h.2]; cases dt <;> simp

def PcD (P ph a tokIdx : Nat) (aw : Bool) : Pc → Prop
  | .idle | .fin | .retn => a = ph ∨ (a = P + 1 ∧ aw = false ∧ P ≤ ph)
  | .wantDrop => aw = false ∧ a = ph + 1 ∧ ph = P
  | .want u | .arr u => u = 1 ∧ a = ph + 1 ∧ (if aw then a ≤ P else ph = P)
  | .try u _ _ _ | .try2 u _ _ _ | .won u _ | .pub u _ => u = 0 ∧ a = ph + 1 ∧ (if aw then a ≤ P else ph = P)
  | .polling => a = tokIdx + 1 ∧ a ≤ P

structure InvD (N P : Nat) (d : Nat → Bool) (s : St) (prog : Nat → List Op) : Prop where
  n_eq : s.n = N
  exp : s.ph < P → s.expected = N ∧ s.adj = 0
  e0le : s.e0 ≤ N
  e0 : s.e0 = N ∨ (P < s.ph ∧ ∀ t, t < N → prog t = [])
  lists : ∀ t, t < N → okL (d t) (prog t) ∧ (prog t).length ≤ P + dn d t
  lo : ∀ t, t < N → s.ph ≤ avd P d prog t
  cnt : s.count + sumTo N (fun t => avd P d prog t - s.ph) = s.e0
  pcs : ∀ t, t < N → PcD P s.ph (avd P d prog t) (s.tokIdx t) (s.aw t) (s.pc t)

attribute [local grind] PcD afterCall

set_option hygiene false in
macro "barD_step" t:term : tactic => `(tactic| (
  obtain ⟨h1, h2, h2a, h2b, h3, h4, h5, h6⟩ := hi
  have hp1 := hb.tokPhase $t
  have hp2 := hb.tokIdxOk $t
  have hp3 := hb.phaseEq
  simp only [step] at h
  repeat' split at h
  all_goals first | (simp at h; done) | skip
  all_goals (
    simp only [Option.some.injEq] at h
    subst h
    have h6t := h6 $t
    refine ⟨h1, ?_, h2a, h2b, h3, h4, h5, ?_⟩ <;> dsimp only
    · first | exact h2 | grind
    · intro u hu
      have h6u := h6 u hu
      by_cases hut : u = $t
      · subst hut; simp only [upd_same]; simp only [inArr] at hp1; grind
      · simp only [upd_other _ _ _ _ hut]; first | exact h6u | grind [upd])))

theorem stepD_adj (N P : Nat) (d : Nat → Bool) (s s' : St) (prog : Nat → List Op) (t : Nat) (hb : InvB s) (hi : InvD N P d s prog)
    (h : step s (.adj t) = some s') : InvD N P d s' prog := by
  have h6t' := hi.pcs t
  have hn := hi.n_eq
  barD_step t
theorem stepD_load (N P : Nat) (d : Nat → Bool) (s s' : St) (prog : Nat → List Op) (t a b : Nat) (hb : InvB s) (hi : InvD N P d s prog)
    (h : step s (.load t a b) = some s') : InvD N P d s' prog := by barD_step t
theorem stepD_start (N P : Nat) (d : Nat → Bool) (s s' : St) (prog : Nat → List Op) (t a : Nat) (hb : InvB s) (hi : InvD N P d s prog)
    (h : step s (.start t a) = some s') : InvD N P d s' prog := by barD_step t
theorem stepD_cas (N P : Nat) (d : Nat → Bool) (s s' : St) (prog : Nat → List Op) (t a b : Nat) (o : Out) (hb : InvB s) (hi : InvD N P d s prog)
    (h : step s (.cas t a b o) = some s') : InvD N P d s' prog := by barD_step t
theorem stepD_cas2 (N P : Nat) (d : Nat → Bool) (s s' : St) (prog : Nat → List Op) (t a b : Nat) (o : Out) (hb : InvB s) (hi : InvD N P d s prog)
    (h : step s (.cas2 t a b o) = some s') : InvD N P d s' prog := by barD_step t
theorem stepD_last (N P : Nat) (d : Nat → Bool) (s s' : St) (prog : Nat → List Op) (t a b : Nat) (hb : InvB s) (hi : InvD N P d s prog)
    (h : step s (.last t a b) = some s') : InvD N P d s' prog := by barD_step t
theorem stepD_compl (N P : Nat) (d : Nat → Bool) (s s' : St) (prog : Nat → List Op) (t : Nat) (hb : InvB s) (hi : InvD N P d s prog)
    (h : step s (.compl t) = some s') : InvD N P d s' prog := by barD_step t
theorem stepD_ret (N P : Nat) (d : Nat → Bool) (s s' : St) (prog : Nat → List Op) (t : Nat) (hb : InvB s) (hi : InvD N P d s prog)
    (h : step s (.ret t) = some s') : InvD N P d s' prog := by barD_step t
theorem stepD_done (N P : Nat) (d : Nat → Bool) (s s' : St) (prog : Nat → List Op) (t : Nat) (hb : InvB s) (hi : InvD N P d s prog)
    (h : step s (.done t) = some s') : InvD N P d s' prog := by barD_step t
theorem stepD_poll (N P : Nat) (d : Nat → Bool) (s s' : St) (prog : Nat → List Op) (t a b : Nat) (hb : InvB s) (hi : InvD N P d s prog)
    (h : step s (.poll t a b) = some s') : InvD N P d s' prog := by
  have hlo := hi.lo t
  have hn := hi.n_eq
  barD_step t

theorem PcD_le {P ph a ti : Nat} {aw : Bool} {pc : Pc} (h : PcD P ph a ti aw pc) (hti : ti ≤ ph) : a ≤ ph + 1 := by
  cases pc <;> simp [PcD] at h <;> omega

theorem stepD_inv (N P : Nat) (d : Nat → Bool) (s s' : St) (prog : Nat → List Op) (t : Nat) (o : Op) (rest : List Op)
    (hi : InvD N P d s prog) (hp : prog t = o :: rest)
    (h : step s (.inv t o) = some s') : InvD N P d s' (upd prog t rest) := by
  obtain ⟨h1, h2, h2a, h2b, h3, h4, h5, h6⟩ := hi
  simp only [step] at h
  split at h
  case isFalse => simp at h
  rename_i hg
  have ht : t < N := by omega
  obtain ⟨hok, hlen⟩ := h3 t ht
  rw [hp] at hok hlen; simp only [List.length_cons] at hlen
  have hcons := okL_cons hok
  have h6t := h6 t ht
  rw [hg.2] at h6t; simp only [PcD] at h6t
  have hdn : dn d t ≤ 1 := by unfold dn; split <;> omega
  have h6t' : avd P d prog t = s.ph := by
    rcases h6t with h | h
    · exact h
    · simp only [avd, hp, List.length_cons] at h; omega
  have hav : avd P d (upd prog t rest) t = avd P d prog t + 1 := by
    simp only [avd, upd_same, hp, List.length_cons]; omega
  have havo : ∀ u, u ≠ t → avd P d (upd prog t rest) u = avd P d prog u := by
    intro u hu; simp only [avd, upd_other _ _ _ _ hu]
  have hsum := sumTo_upd N (fun l => l) (fun u => avd P d prog u - s.ph) t (avd P d prog t + 1 - s.ph) ht
  have hsum' : sumTo N (fun u => avd P d (upd prog t rest) u - s.ph) =
      sumTo N (fun u => upd (fun u => avd P d prog u - s.ph) t (avd P d prog t + 1 - s.ph) u) := by
    apply sumTo_congr; intro u _
    by_cases hut : u = t
    · subst hut; rw [hav]; simp
    · rw [havo u hut]; simp [hut]
  have he0 : s.e0 = N := by
    rcases h2b with h | h
    · exact h
    · have := h.2 t ht; rw [hp] at this; simp at this
  have hcount : 1 ≤ s.count ∧ s'.count + 1 = s.count ∧ s'.ph = s.ph ∧ s'.e0 = s.e0 ∧ s'.n = s.n ∧
      s'.expected = s.expected ∧ s'.adj = s.adj ∧ s'.tokIdx = s.tokIdx := by
    cases o <;> dsimp only at h <;> (try split at h) <;>
      first | (simp at h; done)
            | (simp only [Option.some.injEq] at h; subst h; exact ⟨by omega, by dsimp only; omega, rfl, rfl, rfl, rfl, rfl, rfl⟩)
            | (rcases hcons with hc | hc <;> simp at hc)
  obtain ⟨hc1, hc2, hc3, hc4, hc5, hc6, hc7, hc8⟩ := hcount
  have hpcaw : (o = .aw ∧ s'.pc = upd s.pc t (.want 1) ∧ s'.aw = upd s.aw t true) ∨
      (o = .drop ∧ s'.pc = upd s.pc t .wantDrop ∧ s'.aw = upd s.aw t false) := by
    cases o <;> dsimp only at h <;> (try split at h) <;>
      first | (simp at h; done)
            | (simp only [Option.some.injEq] at h; subst h; simp; done)
            | (rcases hcons with hc | hc <;> simp at hc)
  refine ⟨by omega, by rw [hc3, hc6, hc7]; exact h2, by omega, Or.inl (by omega), ?_, ?_, ?_, ?_⟩
  · intro u hu
    by_cases hut : u = t
    · subst hut; simp only [upd_same]
      rcases hcons with hc | hc
      · exact ⟨hc.2.1, by omega⟩
      · rw [hc.2.1]; exact ⟨Or.inl rfl, Nat.zero_le _⟩
    · simp only [upd_other _ _ _ _ hut]; exact h3 u hu
  · intro u hu
    rw [hc3]
    by_cases hut : u = t
    · subst hut; rw [hav]; omega
    · rw [havo u hut]; exact h4 u hu
  · rw [hc3, hc4, hsum']
    omega
  · intro u hu
    rw [hc3, hc8]
    by_cases hut : u = t
    · subst hut; rw [hav, h6t']
      rcases hpcaw with ⟨ho, hpc', haw'⟩ | ⟨ho, hpc', haw'⟩
      · subst ho
        rcases hcons with hc | hc
        · have hdn' : dn d u ≤ rest.length := hc.2.2
          have hle : s.ph + 1 ≤ P := by
            simp only [avd, hp, List.length_cons] at h6t'; omega
          rw [hpc', haw', upd_same, upd_same]
          exact ⟨rfl, rfl, hle⟩
        · simp at hc
      · subst ho
        rcases hcons with hc | hc
        · simp at hc
        · have hd1 : dn d u = 1 := by simp [dn, hc.2.2]
          have hr0 : rest.length = 0 := by rw [hc.2.1]; rfl
          have hph : s.ph = P := by
            simp only [avd, hp, List.length_cons] at h6t'; omega
          rw [hpc', haw', upd_same, upd_same]
          exact ⟨rfl, rfl, hph⟩
    · rw [havo u hut]
      have : s'.pc u = s.pc u ∧ s'.aw u = s.aw u := by
        rcases hpcaw with ⟨_, hpc', haw'⟩ | ⟨_, hpc', haw'⟩ <;> rw [hpc', haw'] <;> simp [upd, hut]
      rw [this.1, this.2]; exact h6 u hu

end PikaVerif.Barrier
