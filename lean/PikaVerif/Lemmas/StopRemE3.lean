import PikaVerif.Lemmas.StopRem
/-! Follow-up C14q: preservation of layer C (converse of `InvR.remA`), events group 3. -/
namespace PikaVerif.Stop
open PikaVerif
set_option maxHeartbeats 4000000

theorem stepC_unlink (s s' : St) (a c : Nat) (r : Bool) (hA : InvA s) (hB : InvB s) (hD : InvD s) (hi : InvC s) (h : step s (.unlink a c r) = some s') : InvC s' := by stopC
theorem stepC_selfChk (s s' : St) (a c : Nat) (e p : Bool) (hA : InvA s) (hB : InvB s) (hD : InvD s) (hi : InvC s) (h : step s (.selfChk a c e p) = some s') : InvC s' := by stopC
theorem stepC_waited (s s' : St) (a c : Nat) (hA : InvA s) (hB : InvB s) (hD : InvD s) (hi : InvC s) (h : step s (.waited a c) = some s') : InvC s' := by stopC
theorem stepC_srcInc (s s' : St) (a : Nat) (hA : InvA s) (hB : InvB s) (hD : InvD s) (hi : InvC s) (h : step s (.srcInc a) = some s') : InvC s' := by stopC
theorem stepC_srcDec (s s' : St) (a : Nat) (hA : InvA s) (hB : InvB s) (hD : InvD s) (hi : InvC s) (h : step s (.srcDec a) = some s') : InvC s' := by stopC
theorem stepC_query (s s' : St) (a : Nat) (x y : Bool) (hA : InvA s) (hB : InvB s) (hD : InvD s) (hi : InvC s) (h : step s (.query a x y) = some s') : InvC s' := by stopC
theorem stepC_done (s s' : St) (a : Nat) (hA : InvA s) (hB : InvB s) (hD : InvD s) (hi : InvC s) (h : step s (.done a) = some s') : InvC s' := by stopC

end PikaVerif.Stop
