import PikaVerif.Lemmas.Stop2
/-! The lock loop of a constructor is part of its registration phase. -/
namespace PikaVerif.Stop

theorem regLock_reg {p : Pc} {c : Nat} (h : regLockPhase p = some c) : regPhase p = some c := by
  cases p with
  | cas k b => cases k <;> simp_all [regLockPhase, regPhase]
  | spin k => cases k <;> simp_all [regLockPhase, regPhase]
  | locked k => cases k <;> simp_all [regLockPhase, regPhase]
  | _ => simp [regLockPhase] at h

attribute [grind →] regLock_reg

end PikaVerif.Stop
