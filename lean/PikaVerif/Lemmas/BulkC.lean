import PikaVerif.Model.BulkC
import PikaVerif.Lemmas.BulkQ
import PikaVerif.Props.C11
/-!
Invariants of the composed bulk model `PikaVerif.BulkC` (C11, follow-up C11c).

* effect lemmas: what an accepted step of the protocol model `Bulk` changes;
* `CInv`: the invariant of the running phase (`ph = 1`): the protocol invariants of `Bulk`
  (`Inv`, `InvQ`) for the component `p`, the no-wrap guard `SafeC` for the chunk size the
  generated `get_chunk_size` returned, the generated cut points are the ideal ones, the loop
  states are within `[0, n)`, the per-index accounting
  `#calls(i) + Σ_k pending_k(i) = popped(i / c)`, the exception slot and the completions.
-/
namespace PikaVerif.Bulk
open PikaVerif

theorem step_params (s s' : St) (e : Ev) (hs : step s e = some s') :
    s'.w = s.w ∧ s'.L = s.L ∧ s'.a = s.a := by
  cases e <;> simp only [step] at hs <;> (repeat' split at hs) <;>
    first | (simp at hs; done) | (simp only [Option.some.injEq] at hs; subst hs; exact ⟨rfl, rfl, rfl⟩)

theorem eff_spawn (p p' : St) (k : Nat) (h : step p (.spawn k) = some p') :
    k < p.w ∧ p.pc k = .idle ∧ p' = { p with pc := upd p.pc k .spawned, next := k + 1 } := by
  simp only [step] at h
  split at h
  · rename_i hg
    simp only [Option.some.injEq] at h
    exact ⟨hg.1, hg.2.2.1, h.symm⟩
  · simp at h

theorem eff_skip (p p' : St) (k : Nat) (h : step p (.skip k) = some p') :
    k < p.w ∧ p.pc k = .idle ∧ p' = { p with pc := upd p.pc k (.fin false), next := k + 1 } := by
  simp only [step] at h
  split at h
  · rename_i hg
    simp only [Option.some.injEq] at h
    exact ⟨hg.1, hg.2.2.1, h.symm⟩
  · simp at h

theorem eff_task (p p' : St) (k : Nat) (h : step p (.task k) = some p') :
    k < p.w ∧ (p.pc k = .idle ∨ p.pc k = .spawned) ∧ p' = { p with pc := upd p.pc k (.run 0) } := by
  simp only [step] at h
  repeat' split at h
  all_goals first | (simp at h; done) | skip
  all_goals (simp only [Option.some.injEq] at h; refine ⟨by assumption, ?_, h.symm⟩)
  · rename_i hg; exact Or.inl hg.2
  · rename_i hg; exact Or.inr hg

theorem eff_popNone (p p' : St) (k q : Nat) (h : step p (.pop k q none) = some p') :
    k < p.w ∧ ∃ off, offOf (p.pc k) = some off ∧
      p' = { p with pc := upd p.pc k (afterEmpty p.w off),
                    sawAll := p.sawAll || decide (p.w ≤ off + 1) } := by
  simp only [step] at h
  split at h
  next hk =>
    cases hpc : p.pc k with
    | run off =>
      rw [hpc] at h; dsimp only at h
      split at h
      next hq =>
        split at h
        next hg => simp only [Option.some.injEq] at h; exact ⟨hk, off, by simp [offOf], h.symm⟩
        next => simp at h
      next => simp at h
    | work off j0 =>
      rw [hpc] at h; dsimp only at h
      split at h
      next hq =>
        split at h
        next hg => simp only [Option.some.injEq] at h; exact ⟨hk, off, by simp [offOf], h.symm⟩
        next => simp at h
      next => simp at h
    | _ => rw [hpc] at h; simp at h
  next => simp at h

theorem eff_popSome (p p' : St) (k q j : Nat) (h : step p (.pop k q (some j)) = some p') :
    k < p.w ∧ ∃ off, offOf (p.pc k) = some off ∧ q = (k + off) % p.w ∧ qEmpty (p.qs q) = false ∧
      j = (if off = 0 then (p.qs q).1 else (p.qs q).2 - 1) ∧
      p' = { p with qs := upd p.qs q (if off = 0 then ((p.qs q).1 + 1, (p.qs q).2)
                                      else ((p.qs q).1, (p.qs q).2 - 1)),
                    popped := upd p.popped j (p.popped j + 1),
                    pc := upd p.pc k (.work off j) } := by
  simp only [step] at h
  split at h
  next hk =>
    cases hpc : p.pc k with
    | run off =>
      rw [hpc] at h; dsimp only at h
      split at h
      next hq =>
        by_cases hg : qEmpty (p.qs q) = false ∧ j = (if off = 0 then (p.qs q).1 else (p.qs q).2 - 1)
        · rw [if_pos hg] at h; simp only [Option.some.injEq] at h
          exact ⟨hk, off, by simp [offOf], hq, hg.1, hg.2, h.symm⟩
        · rw [if_neg hg] at h; simp at h
      next => simp at h
    | work off j0 =>
      rw [hpc] at h; dsimp only at h
      split at h
      next hq =>
        by_cases hg : qEmpty (p.qs q) = false ∧ j = (if off = 0 then (p.qs q).1 else (p.qs q).2 - 1)
        · rw [if_pos hg] at h; simp only [Option.some.injEq] at h
          exact ⟨hk, off, by simp [offOf], hq, hg.1, hg.2, h.symm⟩
        · rw [if_neg hg] at h; simp at h
      next => simp at h
    | _ => rw [hpc] at h; simp at h
  next => simp at h

theorem eff_chunk (p p' : St) (k j : Nat) (h : step p (.chunk k j) = some p') :
    p' = p ∧ ∃ off, p.pc k = .work off j := by
  simp only [step] at h
  split at h
  next hk =>
    cases hpc : p.pc k with
    | work off j0 =>
      rw [hpc] at h; dsimp only at h
      split at h
      next hj => simp only [Option.some.injEq] at h; exact ⟨h.symm, off, by rw [hj]⟩
      next => simp at h
    | _ => rw [hpc] at h; simp at h
  next => simp at h

theorem eff_exc (p p' : St) (k : Nat) (h : step p (.exc k) = some p') :
    k < p.w ∧ p.excThrown = false ∧ (∃ off j, p.pc k = .work off j) ∧
      p' = { p with pc := upd p.pc k (.fin true), excThrown := true, threw := p.threw + 1 } := by
  simp only [step] at h
  split at h
  next hg =>
    cases hpc : p.pc k with
    | work off j0 =>
      rw [hpc] at h; simp only [Option.some.injEq] at h
      exact ⟨hg.1, hg.2, ⟨off, j0, rfl⟩, h.symm⟩
    | _ => rw [hpc] at h; simp at h
  next => simp at h

theorem eff_dec (p p' : St) (k : Nat) (last : Bool) (h : step p (.dec k last) = some p') :
    k < p.w ∧ 1 ≤ p.remaining ∧ last = decide (p.remaining = 1) ∧
    (((∃ t, p.pc k = .fin t) ∧
        p' = { p with pc := upd p.pc k .decd, remaining := p.remaining - 1,
                      outcome := if last then some p.excThrown else p.outcome }) ∨
     ((∃ off j, p.pc k = .work off j) ∧ p.excThrown = true ∧
        p' = { p with pc := upd p.pc k .decd, remaining := p.remaining - 1, threw := p.threw + 1,
                      outcome := if last then some p.excThrown else p.outcome })) := by
  simp only [step] at h
  split at h
  next hg =>
    refine ⟨hg.1, hg.2.1, hg.2.2, ?_⟩
    cases hpc : p.pc k with
    | fin t =>
      rw [hpc] at h; simp only [Option.some.injEq] at h
      exact Or.inl ⟨⟨t, rfl⟩, h.symm⟩
    | work off j0 =>
      rw [hpc] at h; dsimp only at h
      split at h
      next hx => simp only [Option.some.injEq] at h; exact Or.inr ⟨⟨off, j0, rfl⟩, hx, h.symm⟩
      next => simp at h
    | _ => rw [hpc] at h; simp at h
  next => simp at h

theorem eff_sig (p p' : St) (e : Bool) (h : step p (.sig e) = some p') :
    p.outcome = some e ∧ p.signals = 0 ∧ p' = { p with signals := 1 } := by
  simp only [step] at h
  split at h
  next hg => simp only [Option.some.injEq] at h; exact ⟨hg.1, hg.2, h.symm⟩
  next => simp at h

end PikaVerif.Bulk

namespace PikaVerif.BulkC
open PikaVerif PikaVerif.Gen.BulkArith PikaVerif.Gen.IndexRange PikaVerif.BulkPlan
open PikaVerif.BulkArith PikaVerif.Partition PikaVerif.C11

/-- Is index `i` still going to be called by a worker in loop state `l`? -/
def pend (c i : Nat) : Lp → Nat
  | .out => 0
  | .got j => if i / c = j then 1 else 0
  | .at cur ie => if cur ≤ (i : Int) ∧ (i : Int) < ie then 1 else 0
  | .incall cur ie => if cur < (i : Int) ∧ (i : Int) < ie then 1 else 0
  | .threw _ => 0

def isThrew : Lp → Nat
  | .threw _ => 1
  | _ => 0

/-- Invariant of the running phase. -/
structure CInv (s : St) : Prop where
  safe : SafeC s.S s.w s.n s.c
  pinv : Bulk.Inv s.p
  pq : Bulk.InvQ s.p
  pw : s.p.w = s.w
  pa : ∀ k, k ≤ s.w → s.p.a k = part s.w (nchunks s.c s.n) k
  tsv : s.ts = some s.v
  lpOut : ∀ k, isWork (s.p.pc k) = false → s.lp k = .out
  gotB : ∀ k j, s.lp k = .got j → j < nchunks s.c s.n
  atB : ∀ k cur ie, s.lp k = .at cur ie → 0 ≤ cur ∧ ie ≤ s.n
  inB : ∀ k cur ie, s.lp k = .incall cur ie → 0 ≤ cur ∧ cur < ie ∧ ie ≤ s.n
  callsB : ∀ e, e ∈ s.calls → 0 ≤ e.1 ∧ e.1 < s.n ∧ e.2 = s.v
  acct : ∀ i, i < s.n →
    ncalls s (i : Int) + sumTo s.w (fun u => pend s.c i (s.lp u)) ≤ s.p.popped (i / s.c) ∧
    (s.thrown = [] →
      ncalls s (i : Int) + sumTo s.w (fun u => pend s.c i (s.lp u)) = s.p.popped (i / s.c))
  thrIn : ∀ k i, s.lp k = .threw i → i ∈ s.thrown
  thrCnt : s.thrown.length = s.p.threw + sumTo s.w (fun u => isThrew (s.lp u))
  excIn : ∀ x, s.exception = some x → x ∈ s.thrown
  excSome : s.p.excThrown = true → s.exception ≠ none
  doneLen : s.done.length = s.p.signals
  doneV : ∀ t, (false, t) ∈ s.done → t = s.v ∧ s.p.outcome = some false
  doneE : ∀ t, (true, t) ∈ s.done → t ∈ s.thrown ∧ s.p.outcome = some true

theorem isWork_false_of_idle {p : Bulk.Pc} (h : p = .idle ∨ p = .spawned) : isWork p = false := by
  rcases h with h | h <;> subst h <;> rfl

/-- protocol events that only move a worker that is not inside a chunk -/
theorem cinv_pcOnly (s : St) (p' : Bulk.St) (e : Bulk.Ev) (k : Nat) (x : Bulk.Pc) (nx : Nat)
    (hi : CInv s) (hb : Bulk.step s.p e = some p')
    (hp : p' = { s.p with pc := upd s.p.pc k x, next := nx })
    (h0 : isWork (s.p.pc k) = false) : CInv { s with p := p' } := by
  have hq := Bulk.stepQ s.p p' e ⟨hi.pinv, hi.pq⟩ hb
  subst hp
  exact { hi with
    pinv := hq.1, pq := hq.2,
    lpOut := by
      intro u hu
      by_cases huk : u = k
      · subst huk; exact hi.lpOut u h0
      · simp only [upd, huk, if_false] at hu; exact hi.lpOut u hu }

theorem step_spawn (s s' : St) (k : Nat) (hi : CInv s) (h : step s (.spawn k) = some s') : CInv s' := by
  simp only [step] at h
  split at h
  · split at h
    · rename_i p' hb
      simp only [Option.some.injEq] at h; subst h
      obtain ⟨_, h0, hp⟩ := Bulk.eff_spawn _ _ _ hb
      exact cinv_pcOnly s p' _ k _ _ hi hb hp (by rw [h0]; rfl)
    · simp at h
  · simp at h

theorem step_skip (s s' : St) (k : Nat) (hi : CInv s) (h : step s (.skip k) = some s') : CInv s' := by
  simp only [step] at h
  split at h
  · split at h
    · rename_i p' hb
      simp only [Option.some.injEq] at h; subst h
      obtain ⟨_, h0, hp⟩ := Bulk.eff_skip _ _ _ hb
      exact cinv_pcOnly s p' _ k _ _ hi hb hp (by rw [h0]; rfl)
    · simp at h
  · simp at h

theorem step_task (s s' : St) (k : Nat) (hi : CInv s) (h : step s (.task k) = some s') : CInv s' := by
  simp only [step] at h
  split at h
  · split at h
    · rename_i p' hb
      simp only [Option.some.injEq] at h; subst h
      obtain ⟨_, h0, hp⟩ := Bulk.eff_task _ _ _ hb
      exact cinv_pcOnly s p' _ k _ s.p.next hi hb hp (isWork_false_of_idle h0)
    · simp at h
  · simp at h

theorem pend_out (c i : Nat) : pend c i .out = 0 := rfl
theorem pend_got (c i j : Nat) : pend c i (.got j) = if i / c = j then 1 else 0 := rfl
theorem pend_at (c i : Nat) (cur ie : Int) :
    pend c i (.at cur ie) = if cur ≤ (i : Int) ∧ (i : Int) < ie then 1 else 0 := rfl
theorem pend_incall (c i : Nat) (cur ie : Int) :
    pend c i (.incall cur ie) = if cur < (i : Int) ∧ (i : Int) < ie then 1 else 0 := rfl
theorem pend_threw (c i : Nat) (x : Int) : pend c i (.threw x) = 0 := rfl
theorem isThrew_out : isThrew .out = 0 := rfl
theorem isThrew_got (j : Nat) : isThrew (.got j) = 0 := rfl
theorem isThrew_at (a b : Int) : isThrew (.at a b) = 0 := rfl
theorem isThrew_incall (a b : Int) : isThrew (.incall a b) = 0 := rfl
theorem isThrew_threw (a : Int) : isThrew (.threw a) = 1 := rfl

theorem ncalls_cons (s : St) (cs : List (Int × Int)) (a v i : Int) (h : s.calls = (a, v) :: cs) :
    ncalls s i = (cs.map Prod.fst).count i + if a = i then 1 else 0 := by
  unfold ncalls; rw [h]; simp [List.count_cons]

/-- lp-only update of worker `k`: the fields that do not mention `lp`, `calls`, `thrown` carry over -/
theorem lpOut_upd (s : St) (k : Nat) (x : Lp) (hi : CInv s) (hx : isWork (s.p.pc k) = true ∨ x = .out) :
    ∀ u, isWork (s.p.pc u) = false → upd s.lp k x u = .out := by
  intro u hu
  by_cases huk : u = k
  · subst huk
    rcases hx with h | h
    · rw [h] at hu; simp at hu
    · simp [h]
  · simp only [upd, huk, if_false]; exact hi.lpOut u hu

theorem isWork_of_lp (s : St) (hi : CInv s) (k : Nat) (h : s.lp k ≠ .out) : isWork (s.p.pc k) = true := by
  cases hw : isWork (s.p.pc k)
  · exact absurd (hi.lpOut k hw) h
  · rfl

theorem step_call (s s' : St) (k : Nat) (i v : Int) (hi : CInv s)
    (h : step s (.call k i v) = some s') : CInv s' := by
  simp only [step] at h
  split at h
  next hg =>
    split at h
    next cur ie hlp =>
      split at h
      next hc =>
        simp only [Option.some.injEq] at h; subst h
        obtain ⟨hcur, hic, hts⟩ := hc
        subst hic
        have hv : v = s.v := by have := hi.tsv; rw [hts] at this; simpa using this
        have hb := hi.atB k i ie hlp
        exact { hi with
          lpOut := lpOut_upd s k _ hi (Or.inl (isWork_of_lp s hi k (by rw [hlp]; simp)))
          gotB := by
            intro u j hu
            by_cases huk : u = k
            · subst huk; simp at hu
            · simp only [upd, huk, if_false] at hu; exact hi.gotB u j hu
          atB := by
            intro u c e hu
            by_cases huk : u = k
            · subst huk; simp at hu
            · simp only [upd, huk, if_false] at hu; exact hi.atB u c e hu
          inB := by
            intro u c e hu
            by_cases huk : u = k
            · subst huk; simp only [upd_same, Lp.incall.injEq] at hu
              obtain ⟨rfl, rfl⟩ := hu
              show 0 ≤ i ∧ i < ie ∧ ie ≤ s.n
              omega
            · simp only [upd, huk, if_false] at hu; exact hi.inB u c e hu
          callsB := by
            intro e he
            simp only [List.mem_cons] at he
            rcases he with rfl | he
            · exact ⟨by dsimp only; omega, by dsimp only; omega, hv⟩
            · exact hi.callsB e he
          acct := by
            intro j hj
            have A := hi.acct j hj
            have U := sumTo_upd s.w (pend s.c j) s.lp k (.incall i ie) hg.2
            rw [hlp, pend_at, pend_incall] at U
            have N : ncalls { s with lp := upd s.lp k (.incall i ie), calls := (i, v) :: s.calls } (j : Int) =
                ncalls s j + if i = (j : Int) then 1 else 0 := by
              simp [ncalls, List.count_cons]
            rw [N]
            dsimp only
            generalize sumTo s.w (fun u => pend s.c j (upd s.lp k (.incall i ie) u)) = X at U ⊢
            generalize sumTo s.w (fun u => pend s.c j (s.lp u)) = Y at U A
            generalize ncalls s (j : Int) = Z at A ⊢
            generalize s.p.popped (j / s.c) = P at A ⊢
            obtain ⟨A1, A2⟩ := A
            refine ⟨?_, fun ht => ?_⟩
            · split at U <;> split at U <;> split <;> omega
            · have A3 := A2 ht
              split at U <;> split at U <;> split <;> omega
          thrIn := by
            intro u x hu
            by_cases huk : u = k
            · subst huk; simp at hu
            · simp only [upd, huk, if_false] at hu; exact hi.thrIn u x hu
          thrCnt := by
            have U := sumTo_upd s.w isThrew s.lp k (.incall i ie) hg.2
            rw [hlp, isThrew_at, isThrew_incall] at U
            have := hi.thrCnt; dsimp only; omega }
      next => simp at h
    all_goals simp at h
  next => simp at h

theorem gotB_upd (s : St) (k : Nat) (x : Lp) (hi : CInv s)
    (hx : ∀ j, x = .got j → j < nchunks s.c s.n) :
    ∀ u j, upd s.lp k x u = .got j → j < nchunks s.c s.n := by
  intro u j hu
  by_cases huk : u = k
  · subst huk; simp only [upd_same] at hu; exact hx j hu
  · simp only [upd, huk, if_false] at hu; exact hi.gotB u j hu

theorem atB_upd (s : St) (k : Nat) (x : Lp) (hi : CInv s)
    (hx : ∀ c e, x = .at c e → 0 ≤ c ∧ e ≤ s.n) :
    ∀ u c e, upd s.lp k x u = .at c e → 0 ≤ c ∧ e ≤ s.n := by
  intro u c e hu
  by_cases huk : u = k
  · subst huk; simp only [upd_same] at hu; exact hx c e hu
  · simp only [upd, huk, if_false] at hu; exact hi.atB u c e hu

theorem inB_upd (s : St) (k : Nat) (x : Lp) (hi : CInv s)
    (hx : ∀ c e, x = .incall c e → 0 ≤ c ∧ c < e ∧ e ≤ s.n) :
    ∀ u c e, upd s.lp k x u = .incall c e → 0 ≤ c ∧ c < e ∧ e ≤ s.n := by
  intro u c e hu
  by_cases huk : u = k
  · subst huk; simp only [upd_same] at hu; exact hx c e hu
  · simp only [upd, huk, if_false] at hu; exact hi.inB u c e hu

theorem thrIn_upd (s : St) (k : Nat) (x : Lp) (T : List Int) (hi : CInv s)
    (hT : ∀ i, i ∈ s.thrown → i ∈ T) (hx : ∀ i, x = .threw i → i ∈ T) :
    ∀ u i, upd s.lp k x u = .threw i → i ∈ T := by
  intro u i hu
  by_cases huk : u = k
  · subst huk; simp only [upd_same] at hu; exact hx i hu
  · simp only [upd, huk, if_false] at hu; exact hT i (hi.thrIn u i hu)

theorem step_ret (s s' : St) (k : Nat) (hi : CInv s) (h : step s (.ret k) = some s') : CInv s' := by
  simp only [step] at h
  split at h
  next hg =>
    split at h
    next cur ie hlp =>
      simp only [Option.some.injEq] at h; subst h
      have hb := hi.inB k cur ie hlp
      exact { hi with
        lpOut := lpOut_upd s k _ hi (Or.inl (isWork_of_lp s hi k (by rw [hlp]; simp)))
        gotB := gotB_upd s k _ hi (by intro j hj; simp at hj)
        atB := atB_upd s k _ hi (by
          intro c e he; simp only [Lp.at.injEq] at he; obtain ⟨rfl, rfl⟩ := he; omega)
        inB := inB_upd s k _ hi (by intro c e he; simp at he)
        thrIn := thrIn_upd s k _ _ hi (fun _ h => h) (by intro i hx; simp at hx)
        acct := by
          intro j hj
          have A := hi.acct j hj
          have U := sumTo_upd s.w (pend s.c j) s.lp k (.at (cur + 1) ie) hg.2
          rw [hlp, pend_at, pend_incall] at U
          have N : ncalls { s with lp := upd s.lp k (.at (cur + 1) ie) } (j : Int) = ncalls s j := rfl
          rw [N]
          dsimp only
          generalize sumTo s.w (fun u => pend s.c j (upd s.lp k (.at (cur + 1) ie) u)) = X at U ⊢
          generalize sumTo s.w (fun u => pend s.c j (s.lp u)) = Y at U A
          obtain ⟨A1, A2⟩ := A
          refine ⟨?_, fun ht => ?_⟩
          · split at U <;> split at U <;> omega
          · have A3 := A2 ht
            split at U <;> split at U <;> omega
        thrCnt := by
          have U := sumTo_upd s.w isThrew s.lp k (.at (cur + 1) ie) hg.2
          rw [hlp, isThrew_at, isThrew_incall] at U
          have := hi.thrCnt; dsimp only; omega }
    all_goals simp at h
  next => simp at h

theorem step_throw (s s' : St) (k : Nat) (hi : CInv s) (h : step s (.throw k) = some s') : CInv s' := by
  simp only [step] at h
  split at h
  next hg =>
    split at h
    next cur ie hlp =>
      simp only [Option.some.injEq] at h; subst h
      have hb := hi.inB k cur ie hlp
      exact { hi with
        lpOut := lpOut_upd s k _ hi (Or.inl (isWork_of_lp s hi k (by rw [hlp]; simp)))
        gotB := gotB_upd s k _ hi (by intro j hj; simp at hj)
        atB := atB_upd s k _ hi (by intro c e he; simp at he)
        inB := inB_upd s k _ hi (by intro c e he; simp at he)
        thrIn := thrIn_upd s k _ _ hi (fun _ h => List.mem_cons_of_mem _ h) (by
          intro i hx; simp only [Lp.threw.injEq] at hx; subst hx; exact List.mem_cons_self)
        excIn := fun x hx => List.mem_cons_of_mem _ (hi.excIn x hx)
        doneE := fun t ht => ⟨List.mem_cons_of_mem _ (hi.doneE t ht).1, (hi.doneE t ht).2⟩
        acct := by
          intro j hj
          have A := hi.acct j hj
          have U := sumTo_upd s.w (pend s.c j) s.lp k (.threw cur) hg.2
          rw [hlp, pend_threw, pend_incall] at U
          have N : ncalls { s with lp := upd s.lp k (.threw cur), thrown := cur :: s.thrown } (j : Int) =
              ncalls s j := rfl
          rw [N]
          dsimp only
          refine ⟨?_, fun ht => by simp at ht⟩
          have A1 := A.1
          omega
        thrCnt := by
          have U := sumTo_upd s.w isThrew s.lp k (.threw cur) hg.2
          rw [hlp, isThrew_threw, isThrew_incall] at U
          have := hi.thrCnt; dsimp only; simp only [List.length_cons]; omega }
    all_goals simp at h
  next => simp at h

theorem div_eq_chunk (i c j n : Nat) (hc : 1 ≤ c) (hi : i < n) :
    (i / c = j) ↔ (((j * c : Nat) : Int) ≤ (i : Int) ∧ (i : Int) < ((min ((j + 1) * c) n : Nat) : Int)) := by
  rw [Nat.div_eq_iff (by omega)]
  have := Nat.add_mul j 1 c
  constructor
  · intro h; constructor <;> omega
  · intro h; constructor <;> omega

theorem step_chunk (s s' : St) (k j : Nat) (hi : CInv s) (h : step s (.chunk k j) = some s') : CInv s' := by
  simp only [step] at h
  split at h
  next hg =>
    split at h
    next p' hb =>
      simp only [Option.some.injEq] at h; subst h
      obtain ⟨hk1, hk, hlp, _⟩ := hg
      obtain ⟨hp, off, hpc⟩ := Bulk.eff_chunk _ _ _ _ hb
      subst hp
      have hj := hi.gotB k j hlp
      have hr := (C11_chunk_ranges s.S s.w s.n s.c k j hi.safe hk hj).1
      have hc1 : 1 ≤ s.c := hi.safe.2.1
      rw [hr]
      dsimp only
      have hxb : ((min ((j + 1) * s.c) s.n : Nat) : Int) ≤ s.n := by
        have : min ((j + 1) * s.c) s.n ≤ s.n := Nat.min_le_right _ _
        exact_mod_cast this
      generalize hx : (Lp.at ((j * s.c : Nat) : Int) ((min ((j + 1) * s.c) s.n : Nat) : Int)) = x
      exact { hi with
        lpOut := lpOut_upd s k _ hi (Or.inl (by rw [hpc]; rfl))
        gotB := gotB_upd s k _ hi (by intro j hj; rw [← hx] at hj; simp at hj)
        atB := atB_upd s k _ hi (by
          intro c e he; rw [← hx] at he; simp only [Lp.at.injEq] at he; obtain ⟨rfl, rfl⟩ := he
          exact ⟨by omega, hxb⟩)
        inB := inB_upd s k _ hi (by intro c e he; rw [← hx] at he; simp at he)
        thrIn := thrIn_upd s k _ _ hi (fun _ h => h) (by intro i hx'; rw [← hx] at hx'; simp at hx')
        acct := by
          intro i hin
          have A := hi.acct i hin
          have U := sumTo_upd s.w (pend s.c i) s.lp k x hk
          rw [hlp, ← hx, pend_at, pend_got, hx] at U
          have E := div_eq_chunk i s.c j s.n hc1 hin
          have N : ncalls { s with lp := upd s.lp k x } (i : Int) = ncalls s i := rfl
          rw [N]
          dsimp only
          generalize sumTo s.w (fun u => pend s.c i (upd s.lp k x u)) = X at U ⊢
          generalize sumTo s.w (fun u => pend s.c i (s.lp u)) = Y at U A
          obtain ⟨A1, A2⟩ := A
          by_cases hd : i / s.c = j
          · have hd' := E.1 hd
            simp only [hd, hd', and_self, if_true] at U
            exact ⟨by omega, fun ht => by have := A2 ht; omega⟩
          · have hd' : ¬ _ := fun h => hd (E.2 h)
            simp only [hd, hd', if_false] at U
            exact ⟨by omega, fun ht => by have := A2 ht; omega⟩
        thrCnt := by
          have U := sumTo_upd s.w isThrew s.lp k x hk
          rw [hlp, ← hx, isThrew_at, isThrew_got, hx] at U
          have := hi.thrCnt; dsimp only; omega }
    next => simp at h
  next => simp at h

theorem lpOut_upd2 (s : St) (k : Nat) (x : Lp) (y : Bulk.Pc) (hi : CInv s)
    (hx : isWork y = true ∨ x = .out) :
    ∀ u, isWork (upd s.p.pc k y u) = false → upd s.lp k x u = .out := by
  intro u hu
  by_cases huk : u = k
  · subst huk
    rcases hx with h | h
    · simp only [upd_same] at hu; rw [h] at hu; simp at hu
    · simp [h]
  · simp only [upd, huk, if_false] at hu ⊢; exact hi.lpOut u hu

theorem pend_popReady (c i : Nat) (l : Lp) (h : popReady l = true) : pend c i l = 0 := by
  cases l <;> simp [popReady] at h
  · rfl
  · rw [pend_at]; split
    · omega
    · rfl

theorem isThrew_popReady (l : Lp) (h : popReady l = true) : isThrew l = 0 := by
  cases l <;> simp [popReady] at h <;> rfl

theorem cinv_popNone (s s' : St) (k q : Nat) (hi : CInv s) (hk : k < s.w)
    (hr : popReady (s.lp k) = true) (h : popNone s k q = some s') : CInv s' := by
  simp only [popNone] at h
  split at h
  next p' hb =>
    simp only [Option.some.injEq] at h; subst h
    have hq := Bulk.stepQ s.p p' _ ⟨hi.pinv, hi.pq⟩ hb
    obtain ⟨_, off, hoff, hp⟩ := Bulk.eff_popNone _ _ _ _ hb
    subst hp
    exact { hi with
      pinv := hq.1, pq := hq.2
      lpOut := lpOut_upd2 s k _ _ hi (Or.inr rfl)
      gotB := gotB_upd s k _ hi (by intro j hj; simp at hj)
      atB := atB_upd s k _ hi (by intro c e he; simp at he)
      inB := inB_upd s k _ hi (by intro c e he; simp at he)
      thrIn := thrIn_upd s k _ _ hi (fun _ h => h) (by intro i hx; simp at hx)
      acct := by
        intro i hin
        have A := hi.acct i hin
        have U := sumTo_upd s.w (pend s.c i) s.lp k .out hk
        rw [pend_popReady s.c i _ hr, pend_out] at U
        have N : ncalls { s with p := { s.p with pc := upd s.p.pc k (Bulk.afterEmpty s.p.w off), sawAll := s.p.sawAll || decide (s.p.w ≤ off + 1) }, ex := upd s.ex k none, lp := upd s.lp k .out } (i : Int) = ncalls s i := rfl
        rw [N]
        dsimp only
        rw [show sumTo s.w (fun u => pend s.c i (upd s.lp k .out u)) = sumTo s.w (fun u => pend s.c i (s.lp u)) by omega]
        exact A
      thrCnt := by
        have U := sumTo_upd s.w isThrew s.lp k .out hk
        rw [isThrew_popReady _ hr, isThrew_out] at U
        have := hi.thrCnt; dsimp only; omega }
  next => simp at h

/-- only `ex` changes -/
theorem cinv_ex (s : St) (e : Nat → Option (Int × Int)) (hi : CInv s) : CInv { s with ex := e } :=
  { hi with }

theorem step_load (s s' : St) (k q : Nat) (f l : Int) (hi : CInv s)
    (h : step s (.load k q f l) = some s') : CInv s' := by
  simp only [step] at h
  split at h
  next hg =>
    split at h
    next off hoff =>
      split at h
      next hq =>
        split at h
        next => exact cinv_popNone s s' k q hi hg.2.1 hg.2.2.2.1 h
        next => simp only [Option.some.injEq] at h; subst h; exact cinv_ex s _ hi
      next => simp at h
    next => simp at h
  next => simp at h

/-- a popped chunk index is a chunk index -/
theorem popped_lt_nchunks (s : St) (hi : CInv s) (q : Nat) (hq : q < s.w) (j : Nat)
    (_h1 : (s.p.qs q).1 ≤ j) (h2 : j < (s.p.qs q).2) : j < nchunks s.c s.n := by
  have hw : s.p.w = s.w := hi.pw
  have hr := hi.pq.rng q (by omega)
  have ha := hi.pa (q + 1) (by omega)
  have hm : part s.w (nchunks s.c s.n) (q + 1) ≤ part s.w (nchunks s.c s.n) s.w :=
    mono_le (part s.w (nchunks s.c s.n)) s.w (fun k _ => part_mono _ _ k) (q + 1) s.w (by omega) (by omega)
  rw [part_last _ _ (by omega)] at hm
  omega

theorem cinv_popSome (s : St) (p' : Bulk.St) (k q j : Nat) (hi : CInv s) (hk : k < s.w)
    (hr : popReady (s.lp k) = true) (hb : Bulk.step s.p (.pop k q (some j)) = some p') :
    CInv { s with p := p', ex := upd s.ex k none, lp := upd s.lp k (.got j) } := by
  have hq := Bulk.stepQ s.p p' _ ⟨hi.pinv, hi.pq⟩ hb
  obtain ⟨hkw, off, hoff, hqq, hne, hj, hp⟩ := Bulk.eff_popSome _ _ _ _ _ hb
  have hw : s.p.w = s.w := hi.pw
  have hqw : q < s.w := by rw [hqq, hw]; exact Nat.mod_lt _ (by omega)
  have hlt := (Bulk.qEmpty_false_iff _).1 hne
  have hjn : j < nchunks s.c s.n :=
    popped_lt_nchunks s hi q hqw j (by split at hj <;> omega) (by split at hj <;> omega)
  subst hp
  exact { hi with
    pinv := hq.1, pq := hq.2
    lpOut := lpOut_upd2 s k _ _ hi (Or.inl rfl)
    gotB := gotB_upd s k _ hi (by
      intro j' hj'; simp only [Lp.got.injEq] at hj'; subst hj'; exact hjn)
    atB := atB_upd s k _ hi (by intro c e he; simp at he)
    inB := inB_upd s k _ hi (by intro c e he; simp at he)
    thrIn := thrIn_upd s k _ _ hi (fun _ h => h) (by intro i hx; simp at hx)
    acct := by
      intro i hin
      have A := hi.acct i hin
      have U := sumTo_upd s.w (pend s.c i) s.lp k (.got j) hk
      rw [pend_popReady s.c i _ hr, pend_got] at U
      show ncalls s (i : Int) + sumTo s.w (fun u => pend s.c i (upd s.lp k (.got j) u)) ≤
          upd s.p.popped j (s.p.popped j + 1) (i / s.c) ∧
        (s.thrown = [] → ncalls s (i : Int) + sumTo s.w (fun u => pend s.c i (upd s.lp k (.got j) u)) =
          upd s.p.popped j (s.p.popped j + 1) (i / s.c))
      generalize sumTo s.w (fun u => pend s.c i (upd s.lp k (.got j) u)) = X at U ⊢
      generalize sumTo s.w (fun u => pend s.c i (s.lp u)) = Y at U A
      obtain ⟨A1, A2⟩ := A
      by_cases hd : i / s.c = j
      · simp only [hd, if_true, upd_same] at U ⊢
        rw [hd] at A1 A2
        exact ⟨by omega, fun ht => by have := A2 ht; omega⟩
      · simp only [hd, if_false] at U
        simp only [upd, hd, if_false]
        exact ⟨by omega, fun ht => by have := A2 ht; omega⟩
    thrCnt := by
      have U := sumTo_upd s.w isThrew s.lp k (.got j) hk
      rw [isThrew_popReady _ hr, isThrew_got] at U
      have := hi.thrCnt; dsimp only; omega }

theorem step_cas (s s' : St) (k q : Nat) (ok : Bool) (f l : Int) (hi : CInv s)
    (h : step s (.cas k q ok f l) = some s') : CInv s' := by
  simp only [step] at h
  split at h
  next hg =>
    split at h
    next ef el off hex hoff =>
      split at h
      next hq =>
        split at h
        next => simp at h
        next idx df dl htry =>
          split at h
          next hcur =>
            split at h
            next hok =>
              split at h
              next p' hb =>
                split at h
                next hw =>
                  simp only [Option.some.injEq] at h; subst h
                  exact cinv_popSome s p' k q idx.toNat hi hg.2.1 hg.2.2 hb
                next => simp at h
              next => simp at h
            next => simp at h
          next hcur =>
            split at h
            next hok =>
              split at h
              next => exact cinv_popNone s s' k q hi hg.2.1 hg.2.2 h
              next => simp only [Option.some.injEq] at h; subst h; exact cinv_ex s _ hi
            next => simp at h
      next => simp at h
    next => simp at h
  next => simp at h

theorem step_exc (s s' : St) (k : Nat) (hi : CInv s) (h : step s (.exc k) = some s') : CInv s' := by
  simp only [step] at h
  split at h
  next hg =>
    split at h
    next i hlp =>
      split at h
      next p' hb =>
        simp only [Option.some.injEq] at h; subst h
        have hq := Bulk.stepQ s.p p' _ ⟨hi.pinv, hi.pq⟩ hb
        obtain ⟨_, hex, _, hp⟩ := Bulk.eff_exc _ _ _ hb
        subst hp
        exact { hi with
          pinv := hq.1, pq := hq.2
          lpOut := lpOut_upd2 s k _ _ hi (Or.inr rfl)
          gotB := gotB_upd s k _ hi (by intro j hj; simp at hj)
          atB := atB_upd s k _ hi (by intro c e he; simp at he)
          inB := inB_upd s k _ hi (by intro c e he; simp at he)
          thrIn := thrIn_upd s k _ _ hi (fun _ h => h) (by intro i hx; simp at hx)
          excIn := by
            intro x hx; simp only [Option.some.injEq] at hx; subst hx; exact hi.thrIn k _ hlp
          excSome := by intro _; simp
          acct := by
            intro j hj
            have A := hi.acct j hj
            have U := sumTo_upd s.w (pend s.c j) s.lp k .out hg.2
            rw [hlp, pend_threw, pend_out] at U
            show ncalls s (j : Int) + sumTo s.w (fun u => pend s.c j (upd s.lp k .out u)) ≤ s.p.popped (j / s.c) ∧
              (s.thrown = [] → ncalls s (j : Int) + sumTo s.w (fun u => pend s.c j (upd s.lp k .out u)) =
                s.p.popped (j / s.c))
            rw [show sumTo s.w (fun u => pend s.c j (upd s.lp k .out u)) = sumTo s.w (fun u => pend s.c j (s.lp u)) by omega]
            exact A
          thrCnt := by
            have U := sumTo_upd s.w isThrew s.lp k .out hg.2
            rw [hlp, isThrew_threw, isThrew_out] at U
            have := hi.thrCnt; dsimp only; omega }
      next => simp at h
    all_goals simp at h
  next => simp at h

/-- before the last decrement nothing has been signalled -/
theorem done_nil_of_remaining (s : St) (hi : CInv s) (h : 1 ≤ s.p.remaining) : s.done = [] := by
  have hl := hi.doneLen
  cases ho : s.p.outcome with
  | none =>
    have := (hi.pinv.outn ho).2
    rw [this] at hl
    exact List.eq_nil_of_length_eq_zero hl
  | some e =>
    have := (hi.pinv.outc e ho).1
    omega

theorem step_dec (s s' : St) (k : Nat) (last : Bool) (hi : CInv s)
    (h : step s (.dec k last) = some s') : CInv s' := by
  simp only [step] at h
  split at h
  next hg =>
    split at h
    next hlp =>
      split at h
      next hfin =>
        split at h
        next p' hb =>
          simp only [Option.some.injEq] at h; subst h
          have hq := Bulk.stepQ s.p p' _ ⟨hi.pinv, hi.pq⟩ hb
          obtain ⟨_, hrem, _, hp⟩ := Bulk.eff_dec _ _ _ _ hb
          have hd := done_nil_of_remaining s hi hrem
          rcases hp with ⟨_, hp⟩ | ⟨⟨off, j, hpc⟩, _, _⟩
          · subst hp
            exact { hi with
              pinv := hq.1, pq := hq.2
              lpOut := by
                intro u hu
                by_cases huk : u = k
                · subst huk; exact hlp
                · simp only [upd, huk, if_false] at hu; exact hi.lpOut u hu
              doneV := by intro t ht; rw [hd] at ht; simp at ht
              doneE := by intro t ht; rw [hd] at ht; simp at ht }
          · rw [hpc] at hfin; simp [isFin] at hfin
        next => simp at h
      next => simp at h
    next i hlp =>
      split at h
      next hwork =>
        split at h
        next p' hb =>
          simp only [Option.some.injEq] at h; subst h
          have hq := Bulk.stepQ s.p p' _ ⟨hi.pinv, hi.pq⟩ hb
          obtain ⟨_, hrem, _, hp⟩ := Bulk.eff_dec _ _ _ _ hb
          have hd := done_nil_of_remaining s hi hrem
          rcases hp with ⟨⟨t, hpc⟩, _⟩ | ⟨_, hex, hp⟩
          · rw [hpc] at hwork; simp [isWork] at hwork
          · subst hp
            exact { hi with
              pinv := hq.1, pq := hq.2
              lpOut := lpOut_upd2 s k _ _ hi (Or.inr rfl)
              gotB := gotB_upd s k _ hi (by intro j hj; simp at hj)
              atB := atB_upd s k _ hi (by intro c e he; simp at he)
              inB := inB_upd s k _ hi (by intro c e he; simp at he)
              thrIn := thrIn_upd s k _ _ hi (fun _ h => h) (by intro i hx; simp at hx)
              doneV := by intro t ht; rw [hd] at ht; simp at ht
              doneE := by intro t ht; rw [hd] at ht; simp at ht
              acct := by
                intro j hj
                have A := hi.acct j hj
                have U := sumTo_upd s.w (pend s.c j) s.lp k .out hg.2
                rw [hlp, pend_threw, pend_out] at U
                show ncalls s (j : Int) + sumTo s.w (fun u => pend s.c j (upd s.lp k .out u)) ≤ s.p.popped (j / s.c) ∧
                  (s.thrown = [] → ncalls s (j : Int) + sumTo s.w (fun u => pend s.c j (upd s.lp k .out u)) =
                    s.p.popped (j / s.c))
                rw [show sumTo s.w (fun u => pend s.c j (upd s.lp k .out u)) = sumTo s.w (fun u => pend s.c j (s.lp u)) by omega]
                exact A
              thrCnt := by
                have U := sumTo_upd s.w isThrew s.lp k .out hg.2
                rw [hlp, isThrew_threw, isThrew_out] at U
                have := hi.thrCnt; dsimp only; omega }
        next => simp at h
      next => simp at h
    all_goals simp at h
  next => simp at h

theorem cinv_sig (s : St) (p' : Bulk.St) (err : Bool) (tok : Int) (hi : CInv s)
    (htok : if err then s.exception = some tok else s.ts = some tok)
    (hb : Bulk.step s.p (.sig err) = some p') :
    CInv { s with p := p', done := (err, tok) :: s.done } := by
  have hq := Bulk.stepQ s.p p' _ ⟨hi.pinv, hi.pq⟩ hb
  obtain ⟨hout, hsig, hp⟩ := Bulk.eff_sig _ _ _ hb
  subst hp
  have hd : s.done = [] := by
    have := hi.doneLen; rw [hsig] at this; exact List.eq_nil_of_length_eq_zero this
  exact { hi with
    pinv := hq.1, pq := hq.2
    doneLen := by show ((err, tok) :: s.done).length = 1; rw [hd]; rfl
    doneV := by
      intro t ht
      rw [hd] at ht
      simp only [List.mem_singleton, Prod.mk.injEq] at ht
      obtain ⟨he, rfl⟩ := ht
      subst he
      simp only [Bool.false_eq_true, if_false] at htok
      have := hi.tsv; rw [htok] at this
      exact ⟨by simpa using this, hout⟩
    doneE := by
      intro t ht
      rw [hd] at ht
      simp only [List.mem_singleton, Prod.mk.injEq] at ht
      obtain ⟨he, rfl⟩ := ht
      subst he
      simp only [if_true] at htok
      exact ⟨hi.excIn _ htok, hout⟩ }

theorem step_sig1 (s s' : St) (err : Bool) (tok : Int) (hi : CInv s) (hph : s.ph = 1)
    (h : step s (.sig err tok) = some s') : CInv s' := by
  simp only [step] at h
  rw [if_pos hph] at h
  by_cases htok : (if err then s.exception = some tok else s.ts = some tok)
  · rw [if_pos htok] at h
    cases hb : Bulk.step s.p (.sig err) with
    | none => rw [hb] at h; simp at h
    | some p' =>
      rw [hb] at h
      simp only [Option.some.injEq] at h; subst h
      exact cinv_sig s p' err tok hi htok hb
  · rw [if_neg htok] at h; simp at h

/-- the parameters never change -/
theorem step_params (s s' : St) (e : Ev) (h : step s e = some s') :
    s'.S = s.S ∧ s'.w = s.w ∧ s'.n = s.n ∧ s'.v = s.v := by
  cases e <;> simp only [step, popNone] at h <;> (repeat' split at h) <;>
    first | (simp at h; done) | (simp only [Option.some.injEq] at h; subst h; exact ⟨rfl, rfl, rfl, rfl⟩)

/-- under `SafeC` the generated cut points are the ideal ones -/
theorem cutsOf_ideal (S : CTy) (w n c : Nat) (h : SafeC S w n c) (k : Nat) (hk : k ≤ w) :
    cutsOf S w n c k = part w (nchunks c n) k := by
  have hw : 1 ≤ w := h.2.2.2.1
  unfold cutsOf
  by_cases hkw : k < w
  · rw [if_pos hkw, C11_queue_ranges S w n c k h hkw]; simp
  · have : k = w := by omega
    subst this
    rw [if_neg hkw, C11_queue_ranges S k n c (k - 1) h (by omega)]
    simp only [Int.toNat_natCast]
    congr 1; omega

theorem planOK_of_safeC (S : CTy) (w n c : Nat) (h : SafeC S w n c) : planOK S w n c = true := by
  unfold planOK
  rw [List.all_eq_true]
  intro k hk
  have hkw : k < w := List.mem_range.1 hk
  rw [cutsOf_ideal S w n c h k (by omega), cutsOf_ideal S w n c h (k + 1) (by omega),
    C11_queue_ranges S w n c k h hkw]
  simp [part_mono]

/-- Invariant of all phases. -/
def Full (s : St) : Prop :=
  (s.ph = 0 ∧ Safe s.S s.w s.n ∧ s.p.L < s.w ∧ s.calls = [] ∧ s.thrown = [] ∧ s.done = [] ∧
     s.exception = none ∧ ∀ k, s.lp k = .out) ∨
  (s.ph = 2 ∧ s.n = 0 ∧ s.calls = [] ∧ s.thrown = [] ∧ (∀ k, s.lp k = .out) ∧
     (s.done = [] ∨ s.done = [(false, s.v)])) ∨
  (s.ph = 1 ∧ s.n ≠ 0 ∧ CInv s)

theorem full_init (S : CTy) (w n L : Nat) (v : Int) (hs : Safe S w n) (hL : L < w) :
    Full (init S w n L v) :=
  Or.inl ⟨rfl, hs, hL, rfl, rfl, rfl, rfl, fun _ => rfl⟩

theorem cinv_plan (s : St) (c : Nat) (hs : Safe s.S s.w s.n) (hL : s.p.L < s.w)
    (hc : chunkSizeOf s.S fuel s.w s.n = some (c : Int))
    (h0 : s.calls = [] ∧ s.thrown = [] ∧ s.done = [] ∧ s.exception = none ∧ ∀ k, s.lp k = .out) :
    CInv { s with ph := 1, c := c, ts := some s.v,
                  p := Bulk.init s.w s.p.L (cutsOf s.S s.w s.n c) } := by
  obtain ⟨c', hc', hsafe⟩ := C11_chunk_size_safe s.S s.w s.n hs
  have : c' = c := by
    have h1 : (c' : Int) = (c : Int) := by rw [hc] at hc'; simpa using hc'.symm
    exact_mod_cast h1
  subst this
  obtain ⟨e1, e2, e3, e4, e5⟩ := h0
  have hpa : ∀ k, k ≤ s.w → cutsOf s.S s.w s.n c' k = part s.w (nchunks c' s.n) k :=
    fun k hk => cutsOf_ideal s.S s.w s.n c' hsafe k hk
  refine {
    safe := hsafe
    pinv := Bulk.inv_init _ _ _ hL
    pq := Bulk.invQ_init _ _ _ (by
      intro k hk
      rw [hpa k (by omega), hpa (k + 1) (by omega)]; exact part_mono _ _ k)
    pw := rfl
    pa := hpa
    tsv := rfl
    lpOut := fun k _ => e5 k
    gotB := by intro k j h; rw [e5 k] at h; simp at h
    atB := by intro k a b h; rw [e5 k] at h; simp at h
    inB := by intro k a b h; rw [e5 k] at h; simp at h
    callsB := by intro e he; rw [e1] at he; simp at he
    acct := ?_
    thrIn := by intro k i h; rw [e5 k] at h; simp at h
    thrCnt := ?_
    excIn := by intro x hx; rw [e4] at hx; simp at hx
    excSome := by intro h; simp [Bulk.init] at h
    doneLen := by show s.done.length = 0; rw [e3]; rfl
    doneV := by intro t ht; rw [e3] at ht; simp at ht
    doneE := by intro t ht; rw [e3] at ht; simp at ht }
  · intro i _
    have z : sumTo s.w (fun u => pend c' i (s.lp u)) = 0 :=
      sumTo_eq_zero (fun t _ => by rw [e5 t]; rfl)
    unfold ncalls
    dsimp only
    rw [e1, z]
    simp [Bulk.init]
  · have z : sumTo s.w (fun u => isThrew (s.lp u)) = 0 :=
      sumTo_eq_zero (fun t _ => by rw [e5 t]; rfl)
    dsimp only
    rw [z, e2]; simp [Bulk.init]

theorem step_ph1 (s s' : St) (e : Ev) (hp : s.ph = 1) (h : step s e = some s') : s'.ph = 1 := by
  cases e <;> simp only [step, popNone] at h <;> (repeat' split at h) <;>
    first | (simp at h; done) | (simp only [Option.some.injEq] at h; subst h; first | exact hp | (exfalso; omega))

theorem full_step (s s' : St) (e : Ev) (hf : Full s) (h : step s e = some s') : Full s' := by
  rcases hf with ⟨hph, hs, hL, e1, e2, e3, e4, e5⟩ | ⟨hph, hn, e1, e2, e5, e3⟩ | ⟨hph, hn, hi⟩
  · -- before `set_value`
    cases e with
    | zero =>
      simp only [step] at h
      split at h
      next hg =>
        simp only [Option.some.injEq] at h; subst h
        exact Or.inr (Or.inl ⟨rfl, hg.2, e1, e2, e5, Or.inl e3⟩)
      next => simp at h
    | plan c =>
      simp only [step] at h
      split at h
      next hg =>
        simp only [Option.some.injEq] at h; subst h
        exact Or.inr (Or.inr ⟨rfl, hg.2.1, cinv_plan s c hs hL hg.2.2.1 ⟨e1, e2, e3, e4, e5⟩⟩)
      next => simp at h
    | _ => simp [step, hph] at h
  · -- `shape == 0`
    cases e with
    | sig err tok =>
      simp only [step] at h
      rw [if_neg (by omega)] at h
      split at h
      next hg =>
        simp only [Option.some.injEq] at h; subst h
        obtain ⟨_, _, ht, _⟩ := hg
        subst ht
        exact Or.inr (Or.inl ⟨hph, hn, e1, e2, e5, Or.inr rfl⟩)
      next => simp at h
    | _ => simp [step, hph] at h
  · -- workers running
    have hp' := step_ph1 s s' e hph h
    have hn' : s'.n ≠ 0 := by rw [(step_params s s' e h).2.2.1]; exact hn
    refine Or.inr (Or.inr ⟨hp', hn', ?_⟩)
    cases e with
    | zero => simp [step, hph] at h
    | plan c => simp [step, hph] at h
    | spawn k => exact step_spawn s s' k hi h
    | skip k => exact step_skip s s' k hi h
    | task k => exact step_task s s' k hi h
    | load k q f l => exact step_load s s' k q f l hi h
    | cas k q ok f l => exact step_cas s s' k q ok f l hi h
    | chunk k j => exact step_chunk s s' k j hi h
    | call k i v => exact step_call s s' k i v hi h
    | ret k => exact step_ret s s' k hi h
    | throw k => exact step_throw s s' k hi h
    | exc k => exact step_exc s s' k hi h
    | dec k last => exact step_dec s s' k last hi h
    | decide k err =>
      simp only [step] at h
      split at h
      · simp only [Option.some.injEq] at h; subst h; exact hi
      · simp at h
    | sig err tok => exact step_sig1 s s' err tok hi hph h

theorem full_of_accepted {S : CTy} {w n L : Nat} {v : Int} (hs : Safe S w n) (hL : L < w)
    {log : List Ev} {s : St} (h : runLog step (init S w n L v) log = some s) : Full s :=
  inv_of_runLog Full (fun s e s' => full_step s s' e) (full_init S w n L v hs hL) h

theorem params_of_accepted {S : CTy} {w n L : Nat} {v : Int} {log : List Ev} {s : St}
    (h : runLog step (init S w n L v) log = some s) : s.S = S ∧ s.w = w ∧ s.n = n ∧ s.v = v := by
  refine inv_of_runLog (fun s => s.S = S ∧ s.w = w ∧ s.n = n ∧ s.v = v) ?_ ⟨rfl, rfl, rfl, rfl⟩ h
  intro s e s' hf hs
  obtain ⟨a, b, c, d⟩ := step_params s s' e hs
  exact ⟨a.trans hf.1, b.trans hf.2.1, c.trans hf.2.2.1, d.trans hf.2.2.2⟩

theorem popped_le_one (p : Bulk.St) (hq : Bulk.InvQ p) (j : Nat) : p.popped j ≤ 1 := by
  by_cases hc : ∃ k, k < p.w ∧ p.a k ≤ j ∧ j < p.a (k + 1)
  · obtain ⟨k, hk, h1, h2⟩ := hc
    have := hq.acc k j hk h1 h2
    split at this <;> omega
  · have := hq.out j (fun k hk hh => hc ⟨k, hk, hh.1, hh.2⟩); omega

/-- on the value path every chunk of `[a 0, a w)` has been popped exactly once -/
theorem popped_eq_one_of_value (p : Bulk.St) (hi : Bulk.Inv p) (hq : Bulk.InvQ p)
    (ho : p.outcome = some false) (j : Nat) (h1 : p.a 0 ≤ j) (h2 : j < p.a p.w) : p.popped j = 1 := by
  obtain ⟨h0, he⟩ := hi.outc false ho
  have hdec := Bulk.no_active_when_done p hi h0
  have hLw : p.L < p.w := hi.wL
  have hsaw : p.sawAll = true := by
    rcases hq.locD (hdec p.L hLw) with h | h
    · exact h
    · rw [← he] at h; simp at h
  have hm := hq.mono
  obtain ⟨k, hk, c1, c2⟩ : ∃ k, k < p.w ∧ p.a k ≤ j ∧ j < p.a (k + 1) := by
    have := Partition.exists_cell (fun k => p.a k - p.a 0) p.w
      (fun k hk => by have := hm k hk; omega) (by omega) (j - p.a 0)
      (by have := Partition.mono_le p.a p.w hm 0 p.w (by omega) (by omega); omega)
    obtain ⟨k, hk, x1, x2⟩ := this
    have m0 := Partition.mono_le p.a p.w hm 0 k (by omega) (by omega)
    have m1 := Partition.mono_le p.a p.w hm 0 (k + 1) (by omega) (by omega)
    exact ⟨k, hk, by omega, by omega⟩
  have hacc := hq.acc k j hk c1 c2
  have hempty := (Bulk.qEmpty_iff _).1 (hq.all hsaw k hk)
  split at hacc
  · omega
  · omega

/-- at the decided outcome every worker is outside the index loop -/
theorem lp_out_of_outcome (s : St) (hi : CInv s) (e : Bool) (ho : s.p.outcome = some e) :
    ∀ k, s.lp k = .out := by
  intro k
  apply hi.lpOut
  by_cases hk : k < s.p.w
  · have h0 := (hi.pinv.outc e ho).1
    rw [Bulk.no_active_when_done s.p hi.pinv h0 k hk]; rfl
  · rw [hi.pinv.outside k (by omega)]; rfl

theorem ncalls_eq_zero_of_outside (s : St) (i : Int)
    (hb : ∀ e, e ∈ s.calls → 0 ≤ e.1 ∧ e.1 < s.n) (h : i < 0 ∨ (s.n : Int) ≤ i) : ncalls s i = 0 := by
  unfold ncalls
  rw [List.count_eq_zero]
  intro hm
  rw [List.mem_map] at hm
  obtain ⟨e, he, rfl⟩ := hm
  have := hb e he
  omega

theorem div_lt_nchunks (c n i : Nat) (hc : 1 ≤ c) (hi : i < n) : i / c < nchunks c n := by
  rw [Nat.div_lt_iff_lt_mul (by omega)]
  have := nchunks_mul_ge c n (by omega)
  omega

/-- every step of the composed model in the running phase is a stutter or one step of the
    protocol model on the component `p` -/
theorem step_proto (s s' : St) (e : Ev) (hp : s.ph = 1) (h : step s e = some s') :
    s'.p = s.p ∨ ∃ e', Bulk.step s.p e' = some s'.p := by
  cases e <;> simp only [step, popNone] at h <;> (repeat' split at h) <;>
    first
    | (simp at h; done)
    | (simp only [Option.some.injEq] at h; subst h
       first
       | exact Or.inl rfl
       | exact Or.inr ⟨_, by assumption⟩
       | (exfalso; omega))

/-- the protocol component of a running composed state is reachable in the protocol model from
    the queues the generated arithmetic initialised -/
def ProtoReach (s : St) : Prop :=
  s.ph = 1 → ∃ plog, runLog Bulk.step (Bulk.init s.w s.p.L (cutsOf s.S s.w s.n s.c)) plog = some s.p


theorem step_c1 (s s' : St) (e : Ev) (hp : s.ph = 1) (h : step s e = some s') : s'.c = s.c := by
  cases e <;> simp only [step, popNone] at h <;> (repeat' split at h) <;>
    first | (simp at h; done) | (simp only [Option.some.injEq] at h; subst h; first | rfl | (exfalso; omega))

theorem step_to_ph1 (s s' : St) (e : Ev) (hp : s.ph ≠ 1) (h : step s e = some s') (h1 : s'.ph = 1) :
    s'.p = Bulk.init s'.w s'.p.L (cutsOf s'.S s'.w s'.n s'.c) := by
  cases e <;> simp only [step, popNone] at h <;> (repeat' split at h) <;>
    first
    | (simp at h; done)
    | (simp only [Option.some.injEq] at h; subst h
       first
       | rfl
       | (exfalso; (try dsimp only at h1); omega))

theorem protoReach_step (s s' : St) (e : Ev) (hr : ProtoReach s) (h : step s e = some s') :
    ProtoReach s' := by
  intro h1
  by_cases hp : s.ph = 1
  · obtain ⟨plog, hl⟩ := hr hp
    obtain ⟨eS, ew, en, _⟩ := step_params s s' e h
    have ec := step_c1 s s' e hp h
    rcases step_proto s s' e hp h with hs | ⟨e', he'⟩
    · exact ⟨plog, by rw [eS, ew, en, ec, hs]; exact hl⟩
    · have eL := (Bulk.step_params _ _ _ he').2.1
      refine ⟨plog ++ [e'], ?_⟩
      rw [eS, ew, en, ec, eL, runLog_append, hl]
      simp [runLog, he']
  · exact ⟨[], by rw [← step_to_ph1 s s' e hp h h1]; rfl⟩

theorem protoReach_of_accepted {S : CTy} {w n L : Nat} {v : Int} {log : List Ev} {s : St}
    (h : runLog step (init S w n L v) log = some s) : ProtoReach s :=
  inv_of_runLog ProtoReach (fun s e s' => protoReach_step s s' e)
    (by intro h1; simp [init] at h1) h

theorem L_of_accepted {S : CTy} {w n L : Nat} {v : Int} {log : List Ev} {s : St}
    (h : runLog step (init S w n L v) log = some s) : s.p.L = L := by
  refine inv_of_runLog (fun s => s.p.L = L) ?_ rfl h
  intro s e s' hf hs
  by_cases hp : s.ph = 1
  · rcases step_proto s s' e hp hs with h1 | ⟨e', he'⟩
    · rw [h1]; exact hf
    · rw [(Bulk.step_params _ _ _ he').2.1]; exact hf
  · revert hf
    cases e <;> simp only [step, popNone] at hs <;> (repeat' split at hs) <;>
      first
      | (simp at hs; done)
      | (simp only [Option.some.injEq] at hs; subst hs; intro hf
         first
         | exact hf
         | (exfalso; omega))

end PikaVerif.BulkC
