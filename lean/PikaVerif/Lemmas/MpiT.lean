import PikaVerif.Lemmas.Mpi
/-!
# Termination measure of the MPI request model (follow-up C20t)

`mu s` = sum over the operations created so far of a per-operation potential `opW`.  Every event
that moves one operation (`moves e = true`) strictly decreases it — by the step guard alone, for
every state (no invariant, both `bug` values) —, `post` adds the potential of the new operation
(at most 15) and the remaining events (`neutral`) leave it unchanged.
-/
namespace PikaVerif.Mpi
open PikaVerif

/-- potential of the submitting / continuing side (includes the whole registry budget while the
    operation has not been enqueued yet) -/
def pcRank : Pc → Nat
  | .idle => 0
  | .done => 0
  | .eagerOk | .yDone | .cbRun | .woken => 1
  | .completed => 2
  | .errDone => 2
  | .failed => 3
  | .waiting => 3
  | .reg2 => 11
  | .reg1 => 12
  | .reg0 => 13
  | .posted => 14

/-- potential of the registry entry -/
def rsRank : Rs → Nat
  | .none => 0
  | .queued => 7
  | .vec => 6
  | .ready _ => 5
  | .taken _ _ => 4
  | .decd _ _ => 3
  | .calling _ _ => 2
  | .returned _ => 1
  | .gone => 0

def opW (o : Op) : Nat := pcRank o.pc + rsRank o.rs + (1 - o.rel)

/-- the termination measure -/
def mu (s : St) : Nat := sumTo s.n (fun x => opW (s.op x))

/-- events that move one existing operation forward (pika's own steps, MPI's reports, the release
    of the arguments) -/
def moves : Ev → Bool
  | .eager .. | .ydone .. | .sig .. | .reg .. | .gacInc .. | .ifInc .. | .enq .. | .addv ..
  | .q2v .. | .ready .. | .deq .. | .testany .. | .ifDec .. | .call .. | .cb .. | .ret ..
  | .gacDec .. | .woke .. | .rel .. => true
  | _ => false

/-- events that change no operation: the poller's lock rounds, the user's `register_polling` /
    `unregister_polling` rounds and the two pure observations `stop_polling returned` /
    `wait() returned` -/
def neutral : Ev → Bool
  | .lock _ | .unlock _ | .pollOn .. | .pollOff _ | .stopRet .. | .waitRet .. => true
  | _ => false

def isPost : Ev → Bool
  | .post .. => true
  | _ => false

theorem ev_trichotomy (e : Ev) : (moves e = true ∧ neutral e = false ∧ isPost e = false) ∨
    (moves e = false ∧ neutral e = true ∧ isPost e = false) ∨
    (moves e = false ∧ neutral e = false ∧ isPost e = true) := by
  cases e <;> simp [moves, neutral, isPost]

theorem mu_setOp_lt (s : St) (x : Nat) (o : Op) (hx : x < s.n) (h : opW o < opW (s.op x)) :
    sumTo s.n (fun u => opW (upd s.op x o u)) < mu s := by
  have h1 := sumTo_upd s.n opW s.op x o hx
  unfold mu
  omega

theorem mu_lt_of (s s' : St) (x : Nat) (o : Op) (hn : s'.n = s.n) (hop : s'.op = upd s.op x o)
    (hx : x < s.n) (h : opW o < opW (s.op x)) : mu s' < mu s := by
  have := mu_setOp_lt s x o hx h
  simp only [mu, hn, hop]
  exact this

attribute [local grind] pcRank rsRank opW setOp

/-- every event that moves an operation strictly decreases the measure -/
theorem mu_moves (s s' : St) (e : Ev) (hm : moves e = true) (h : step s e = some s') : mu s' < mu s := by
  cases e <;> simp only [moves] at hm <;> try (exact absurd hm (by decide))
  all_goals (
    simp only [step] at h
    repeat' split at h
    all_goals first | (simp at h; done) | skip
    all_goals (
      simp only [Option.some.injEq] at h
      subst h
      refine mu_lt_of s _ _ _ rfl rfl ?_ ?_ <;> grind))

/-- neutral events change neither the operations nor their number -/
theorem neutral_op (s s' : St) (e : Ev) (hm : neutral e = true) (h : step s e = some s') :
    s'.op = s.op ∧ s'.n = s.n ∧ s'.inFlight = s.inFlight ∧ s'.gac = s.gac := by
  cases e <;> simp only [neutral] at hm <;> try (exact absurd hm (by decide))
  all_goals (
    simp only [step] at h
    repeat' split at h
    all_goals first | (simp at h; done) | skip
    all_goals (
      simp only [Option.some.injEq] at h
      subst h
      exact ⟨rfl, rfl, rfl, rfl⟩))

theorem mu_neutral (s s' : St) (e : Ev) (hm : neutral e = true) (h : step s e = some s') : mu s' = mu s := by
  obtain ⟨h1, h2, _, _⟩ := neutral_op s s' e hm h
  simp only [mu, h1, h2]

/-- `post` adds the potential of the new operation: 15 for a successful MPI call, 4 for a failed one -/
theorem mu_post (s s' : St) (a x m : Nat) (ok : Bool) (h : step s (.post a x m ok) = some s') :
    s'.n = s.n + 1 ∧ mu s' = mu s + (if ok then 15 else 4) := by
  simp only [step] at h
  split at h
  case isFalse => simp at h
  rename_i hg
  obtain ⟨hx, _⟩ := hg
  subst hx
  simp only [Option.some.injEq] at h
  subst h
  refine ⟨rfl, ?_⟩
  simp only [mu, sumTo_succ, upd_same]
  rw [sumTo_upd_ge s.n opW s.op s.n _ (Nat.le_refl _)]
  cases ok <;> simp [opW, pcRank, rsRank]

def nMoves (log : List Ev) : Nat := (log.filter moves).length

/-- **Counting form.**  Along any accepted run: (number of moving events) + final measure is at most
    the initial measure + 15 per operation posted on the way. -/
theorem mu_runLog (log : List Ev) (s s' : St) (h : runLog step s log = some s') :
    nMoves log + mu s' + 15 * s.n ≤ mu s + 15 * s'.n := by
  induction log generalizing s with
  | nil => simp at h; subst h; simp [nMoves]
  | cons e es ih =>
    simp only [runLog] at h
    cases hs : step s e with
    | none => simp [hs] at h
    | some s1 =>
      simp only [hs] at h
      have := ih s1 h
      rcases ev_trichotomy e with ⟨m1, _, _⟩ | ⟨m1, m2, _⟩ | ⟨m1, _, m3⟩
      · have hlt := mu_moves s s1 e m1 hs
        have hn : s1.n = s.n := by
          cases e <;> simp only [moves] at m1 <;> try (exact absurd m1 (by decide))
          all_goals (
            simp only [step] at hs
            repeat' split at hs
            all_goals first | (simp at hs; done) | skip
            all_goals (
              simp only [Option.some.injEq] at hs
              subst hs
              rfl))
        simp only [nMoves, List.filter, m1, List.length_cons] at this ⊢
        omega
      · have heq := mu_neutral s s1 e m2 hs
        have hn := (neutral_op s s1 e m2 hs).2.1
        simp only [nMoves, List.filter, m1] at this ⊢
        omega
      · cases e with
        | post a x m ok =>
          obtain ⟨hn, hmu⟩ := mu_post s s1 a x m ok hs
          simp only [nMoves, List.filter, m1] at this ⊢
          cases ok <;> simp at hmu <;> omega
        | _ => simp [isPost] at m3

def nPosts (log : List Ev) : Nat := (log.filter isPost).length

/-- `s.n` counts the `post` events -/
theorem n_runLog (log : List Ev) (s s' : St) (h : runLog step s log = some s') : s'.n = s.n + nPosts log := by
  induction log generalizing s with
  | nil => simp at h; subst h; simp [nPosts]
  | cons e es ih =>
    simp only [runLog] at h
    cases hs : step s e with
    | none => simp [hs] at h
    | some s1 =>
      simp only [hs] at h
      have := ih s1 h
      have hn : s1.n = s.n + (if isPost e then 1 else 0) := by
        cases e <;> simp only [step] at hs
        all_goals (repeat' split at hs)
        all_goals first | (simp at hs; done) | skip
        all_goals (
          simp only [Option.some.injEq] at hs
          subst hs
          simp [isPost, setOp])
      simp only [nPosts, List.filter] at this ⊢
      cases hp : isPost e <;> simp [hp] at hn ⊢ <;> omega

theorem mu_init (b : Bool) : mu (init b) = 0 := rfl

end PikaVerif.Mpi
