import PikaVerif.Lemmas.BarrierU17
/-! C09u, coarse barrier: the measure `phi2` decreases with every accepted event that is not the
    poll stutter; unconditional length bound; existence of maximal extensions. -/
namespace PikaVerif.Barrier
open PikaVerif PikaVerif.C09Barrier

theorem sumTo_change {n : Nat} {f f' : Nat → Nat} {t : Nat} (ht : t < n) (h : ∀ u, u ≠ t → f' u = f u) :
    sumTo n f' + f t = sumTo n f + f' t := by
  have h1 : sumTo n f' = sumTo n (fun u => upd f t (f' t) u) := by
    apply sumTo_congr; intro u _
    by_cases hu : u = t
    · subst hu; simp
    · simp [hu, h u hu]
  rw [h1]
  exact sumTo_upd n (fun x => x) f t (f' t) ht

def progCost2 (B : Nat) : List Op → Nat
  | [] => 0
  | o :: l => opRank2 B o + progCost2 B l

def mu2 (B : Nat) (g : GSt) : Nat := sumTo g.p.s.n (fun t => pot B (g.st t) (g.w t) (g.p.s.pc t))
def phi2 (B : Nat) (g : GSt) : Nat := mu2 B g + sumTo g.p.s.n (fun t => progCost2 B (g.p.prog t))

theorem reachable_step {s s' : St} {e : Ev} (hr : Reachable s) (h : step s e = some s') : Reachable s' := by
  obtain ⟨n, N, log, hl⟩ := hr
  refine ⟨n, N, log ++ [e], ?_⟩
  rw [runLog_append, hl]; simp [runLog, h]

/-- the acting thread's potential: strictly smaller after every accepted event that is neither
    `inv` nor the stutter -/
theorem pot_thread (B : Nat) (g : GSt) (e : Ev) (p' : PSt) (hr : Reachable g.p.s) (hsw : SW g)
    (hsw' : SW (ghost g e p')) (hB : g.p.s.expected ≤ B) (hs : step g.p.s e = some p'.s)
    (hi : isInv e = false) (hst : isStutter e = false) :
    pot B ((ghost g e p').st (thr e)) ((ghost g e p').w (thr e)) (p'.s.pc (thr e)) <
      pot B (g.st (thr e)) (g.w (thr e)) (g.p.s.pc (thr e)) := by
  obtain ⟨_, hb⟩ := hr.inv
  have hpost := hsw' (thr e)
  rw [ghost_p] at hpost
  cases e
  case start t a => simp only [ghost, thr, upd_same]; exact pot_start B _ _ t a _ _ hB hs
  case cas t a b o =>
    obtain ⟨h1, h2⟩ := pot_cas B _ _ (g.st t) (g.w t) t a b o hb (hsw t) hs
    cases o
    case up => simp only [ghost, thr, upd_same]; exact h1 rfl
    all_goals (simp only [ghost, thr, upd_same] at hpost ⊢; exact h2 (by simp) hpost)
  case cas2 t a b o =>
    obtain ⟨h1, h2⟩ := pot_cas2 B _ _ (g.st t) (g.w t) t a b o hb (hsw t) hs
    cases o
    case up => simp only [ghost, thr, upd_same]; exact h1 rfl
    all_goals (simp only [ghost, thr, upd_same] at hpost ⊢; exact h2 (by simp) hpost)
  all_goals (
    simp only [ghost]
    exact pot_simple B _ _ _ _ _ hs hi hst (by simp) (by simp) (by simp))

/-- **Every accepted event that is not the poll stutter strictly decreases `phi2`.** -/
theorem phi2_step (B : Nat) (g g' : GSt) (e : Ev) (hr : Reachable g.p.s) (hsw : SW g)
    (hB : g.p.s.expected ≤ B) (h : gstep g e = some g') (hst : isStutter e = false) :
    phi2 B g' < phi2 B g := by
  have hsw' := sw_step g g' e hr hsw h
  simp only [gstep, Option.map_eq_some_iff] at h
  obtain ⟨p', hp, hg⟩ := h
  subst hg
  have hs := pstep_step g.p p' e hp
  have hn := step_n _ _ _ hs
  obtain ⟨htn, hpc⟩ := step_local _ _ e hs
  have hgl := ghost_local g e p'
  have hsum := sumTo_change (n := g.p.s.n) (t := thr e)
    (f := fun t => pot B (g.st t) (g.w t) (g.p.s.pc t))
    (f' := fun t => pot B ((ghost g e p').st t) ((ghost g e p').w t) (p'.s.pc t)) htn
    (fun u hu => by simp only [(hgl u hu).1, (hgl u hu).2, hpc u hu])
  simp only [phi2, mu2, ghost_p, hn]
  by_cases hinv : isInv e = true
  · cases e <;> simp [isInv] at hinv
    rename_i t o
    obtain ⟨rest, hpr, hpr', _⟩ := pstep_inv g.p p' t o hp
    have hpi := pot_inv B _ _ t o (g.st t) (g.w t) hs
    have hpsum := sumTo_upd g.p.s.n (progCost2 B) g.p.prog t rest htn
    rw [hpr] at hpsum
    simp only [progCost2] at hpsum
    have hgh : ghost g (.inv t o) p' = ⟨p', g.st, g.w⟩ := rfl
    rw [hgh] at hsum ⊢
    simp only [thr] at hsum htn
    dsimp only at hsum ⊢
    rw [hpr']
    omega
  · have hi : isInv e = false := by simpa using hinv
    have hlt := pot_thread B g e p' hr hsw hsw' hB hs hi hst
    rw [pstep_prog g.p p' e hi hp]
    omega

/-- the invariants carried along instrumented runs -/
structure GInv (B : Nat) (g : GSt) : Prop where
  r : Reachable g.p.s
  sw : SW g
  b : g.p.s.expected ≤ B

theorem ginv_step (B : Nat) (g g' : GSt) (e : Ev) (hi : GInv B g) (h : gstep g e = some g') : GInv B g' := by
  have hs := pstep_step _ _ e (gstep_pstep g g' e h)
  exact ⟨reachable_step hi.r hs, sw_step g g' e hi.r hi.sw h,
    Nat.le_trans (step_expected_le _ _ _ hs) hi.b⟩

theorem gstep_stutter (g g' : GSt) (e : Ev) (hst : isStutter e = true) (h : gstep g e = some g') : g' = g := by
  simp only [gstep, Option.map_eq_some_iff] at h
  obtain ⟨p', hp, hg⟩ := h
  have hs := pstep_step g.p p' e hp
  have hpr := pstep_prog g.p p' e (by cases e <;> simp [isStutter] at hst; rfl) hp
  have hid := stutter_id _ _ _ hst hs
  have hpp : p' = g.p := by cases p'; cases hgp : g.p; simp_all
  subst hg
  cases e <;> simp [isStutter] at hst
  simp only [ghost, hpp]

theorem runLog_phi2 (B : Nat) (log : List Ev) : ∀ (g g' : GSt), GInv B g → runLog gstep g log = some g' →
    log.length + phi2 B g' ≤ phi2 B g + stutters log := by
  induction log with
  | nil => intro g g' _ h; simp at h; subst h; simp [stutters]
  | cons e es ih =>
    intro g g' hi h
    simp only [runLog] at h
    cases hs : gstep g e with
    | none => simp [hs] at h
    | some g1 =>
      simp only [hs] at h
      have ih' := ih g1 g' (ginv_step B g g1 e hi hs) h
      simp only [List.length_cons, stutters]
      by_cases hst : isStutter e = true
      · have := gstep_stutter g g1 e hst hs
        subst this
        simp only [hst, if_true]; omega
      · have hst' : isStutter e = false := by simpa using hst
        have := phi2_step B g g1 e hi.r hi.sw hi.b hs hst'
        simp only [hst']; simp; omega

end PikaVerif.Barrier
