import PikaVerif.Lemmas.DequeHarm
/-!
# Converse of `stale_false_of_aba_false`: without a stale link CAS the recycling monitor never fires

A thread whose snapshot is still current (`anchor = lrs`) has its node `prev` in the chain, and chain
nodes are not passed to `deallocate`: so a current snapshot is clean (`CleanInv`), and a link CAS that
succeeds while current does not raise `aba`.  Together with `Lemmas/DequeTag.lean`:
`stale = false ⟺ aba = false` for every accepted log of the pinned tree's model.
-/
namespace PikaVerif.Deque
open PikaVerif

/-- a current snapshot is clean -/
def CleanInv (s : St) (dirty : Nat → Bool) : Prop :=
  ∀ T k d a prev pn, s.pc T = .stLink k d a prev pn → s.anchor = a → dirty T = false

theorem kont_ne_stLink (k k' : Kont) (d : Bool) (a : Anchor) (prev pn : Link) :
    kont k ≠ .stLink k' d a prev pn := by cases k <;> simp [kont]

theorem clean_frame {s s' : St} {dirty dirty' : Nat → Bool} (t : Nat) (hc : CleanInv s dirty)
    (hpc : ∀ T, T ≠ t → s'.pc T = s.pc T) (hA : s'.anchor = s.anchor)
    (hd : ∀ T, T ≠ t → ∀ k d a prev pn, s.pc T = .stLink k d a prev pn → s.anchor = a →
      dirty' T = dirty T)
    (ht : ∀ k d a prev pn, s'.pc t = .stLink k d a prev pn → dirty' t = false) :
    CleanInv s' dirty' := by
  intro T k d a prev pn hp hA'
  by_cases hT : T = t
  · subst hT; exact ht k d a prev pn hp
  · rw [hpc T hT] at hp
    rw [hA] at hA'
    rw [hd T hT k d a prev pn hp hA']
    exact hc T k d a prev pn hp hA'

/-- events that neither touch the anchor nor the monitor and do not enter `stLink` -/
macro "clean_simple" t:ident hc:ident h:ident : tactic => `(tactic| (
  simp only [stepG] at $h:ident
  (repeat' split at $h:ident) <;> first
    | (simp at $h:ident; done)
    | (simp only [Option.some.injEq] at $h:ident; subst $h:ident
       refine ⟨clean_frame $t $hc (fun T hT => by simp [upd, hT]) rfl
         (fun _ _ _ _ _ _ _ _ _ => rfl) (fun k d a prev pn hp => ?_), rfl⟩
       exfalso
       simp only [upd, if_true] at hp
       (repeat' split at hp) <;> simp [kont_ne_stLink] at hp)))

variable {fx : Bool} {s s' : St} {m : Mon}

theorem clean_inv (hc : CleanInv s m.dirty) (t : Nat) (p d : Bool) (v : Nat)
    (h : stepG fx s (.inv t p d v) = some s') :
    CleanInv s' (monStep s m (.inv t p d v)).dirty ∧ (monStep s m (.inv t p d v)).aba = m.aba := by
  clean_simple t hc h

theorem clean_ret (hc : CleanInv s m.dirty) (t : Nat) (ok : Bool) (v : Nat)
    (h : stepG fx s (.ret t ok v) = some s') :
    CleanInv s' (monStep s m (.ret t ok v)).dirty ∧ (monStep s m (.ret t ok v)).aba = m.aba := by
  clean_simple t hc h

theorem clean_done (hc : CleanInv s m.dirty) (t : Nat)
    (h : stepG fx s (.done t) = some s') :
    CleanInv s' (monStep s m (.done t)).dirty ∧ (monStep s m (.done t)).aba = m.aba := by
  clean_simple t hc h

theorem clean_ld (hc : CleanInv s m.dirty) (t : Nat) (a : Anchor)
    (h : stepG fx s (.ld t a) = some s') :
    CleanInv s' (monStep s m (.ld t a)).dirty ∧ (monStep s m (.ld t a)).aba = m.aba := by
  clean_simple t hc h

theorem clean_rd (hc : CleanInv s m.dirty) (t : Nat) (lk : Link)
    (h : stepG fx s (.rd t lk) = some s') :
    CleanInv s' (monStep s m (.rd t lk)).dirty ∧ (monStep s m (.rd t lk)).aba = m.aba := by
  clean_simple t hc h

theorem clean_alloc (hc : CleanInv s m.dirty) (t n : Nat)
    (h : stepG fx s (.alloc t n) = some s') :
    CleanInv s' (monStep s m (.alloc t n)).dirty ∧ (monStep s m (.alloc t n)).aba = m.aba := by
  clean_simple t hc h

theorem clean_link (hc : CleanInv s m.dirty) (t n g : Nat)
    (h : stepG fx s (.link t n g) = some s') :
    CleanInv s' (monStep s m (.link t n g)).dirty ∧ (monStep s m (.link t n g)).aba = m.aba := by
  clean_simple t hc h

theorem clean_chk (hc : CleanInv s m.dirty) (t : Nat) (same : Bool)
    (h : stepG fx s (.chk t same) = some s') :
    CleanInv s' (monStep s m (.chk t same)).dirty ∧ (monStep s m (.chk t same)).aba = m.aba := by
  simp only [stepG] at h
  (repeat' split at h) <;> first
    | (simp at h; done)
    | (simp only [Option.some.injEq] at h; subst h
       refine ⟨clean_frame t hc (fun T hT => by simp [upd, hT]) rfl
         (fun T hT _ _ _ _ _ _ _ => by simp [monStep, upd, hT])
         (fun _ _ _ _ _ _ => by simp [monStep, upd]), rfl⟩)

theorem clean_free (hi : Inv s) (hc : CleanInv s m.dirty) (t n : Nat)
    (h : stepG fx s (.free t n) = some s') :
    CleanInv s' (monStep s m (.free t n)).dirty ∧ (monStep s m (.free t n)).aba = m.aba := by
  simp only [stepG] at h
  split at h
  case isFalse => simp at h
  split at h
  case h_2 => simp at h
  rename_i mm v hpc
  split at h
  case isFalse => simp at h
  rename_i hnm
  subst hnm
  simp only [Option.some.injEq] at h; subst h
  have hl := hi.loc t; rw [hpc] at hl; simp only [Loc] at hl
  have ho := hi.own t; rw [hpc] at ho; simp only [owned] at ho
  have ho := (ho hl).2
  refine ⟨clean_frame t hc (fun T hT => by simp [upd, hT]) rfl ?_
    (fun k d a prev pn hp => by simp [upd] at hp), rfl⟩
  intro T _ k d a prev pn hp hA
  have hlT := hi.loc T; rw [hp] at hlT; simp only [Loc] at hlT
  have hm := (nbr_mem (hlT.2.2 hA)).2
  have hne : prev.ptr ≠ n := fun he => ho (he ▸ hm)
  simp [monStep, hp, snapNode, hne]

theorem clean_lcas (hc : CleanInv s m.dirty) (t : Nat) (ok : Bool)
    (h : stepG fx s (.lcas t ok) = some s') (hs : s'.stale = false) :
    CleanInv s' (monStep s m (.lcas t ok)).dirty ∧ (monStep s m (.lcas t ok)).aba = m.aba := by
  simp only [stepG] at h
  split at h
  case isFalse => simp at h
  split at h
  case h_2 => simp at h
  rename_i k d a prev pn hpc
  split at h
  case isFalse => simp at h
  split at h
  · rename_i hok
    subst hok
    simp only [Option.some.injEq] at h; subst h
    simp only [Bool.or_eq_false_iff, decide_eq_false_iff_not, Decidable.not_not] at hs
    have hdt := hc t k d a prev pn hpc hs.2
    refine ⟨clean_frame t hc (fun T hT => by simp [upd, hT]) rfl
      (fun _ _ _ _ _ _ _ _ _ => rfl) (fun k d a prev pn hp => by simp [upd] at hp), ?_⟩
    simp [monStep, hdt]
  · simp only [Option.some.injEq] at h; subst h
    refine ⟨clean_frame t hc (fun T hT => by simp [upd, hT]) rfl
      (fun _ _ _ _ _ _ _ _ _ => rfl)
      (fun k' d' a' prev' pn' hp => by simp [upd, kont_ne_stLink] at hp), ?_⟩
    rename_i hok
    simp [monStep, hok]

/-- after a successful anchor CAS no held anchor value is current -/
theorem clean_cas_core {dirty : Nat → Bool} (hi : Inv s) (t : Nat) (p' : Pc) (A' : Anchor)
    (C' pu po : List Nat) (hA : s.anchor.tag < A'.tag)
    (hp' : ∀ k d a prev pn, p' ≠ .stLink k d a prev pn) :
    CleanInv { s with anchor := A', chain := C', pushed := pu, popped := po,
                      pc := upd s.pc t p' } dirty := by
  intro T k d a prev pn hp hA'
  exfalso
  by_cases hT : T = t
  · subst hT; simp only [upd, if_true] at hp; exact hp' _ _ _ _ _ hp
  · simp only [upd, hT, if_false] at hp
    have := hi.tags T; rw [hp] at this; simp only [heldTag] at this
    dsimp only at hA'
    subst hA'; omega

theorem clean_cas (hi : Inv s) (hc : CleanInv s m.dirty) (t : Nat) (ok : Bool)
    (h : stepG fx s (.cas t ok) = some s') :
    CleanInv s' (monStep s m (.cas t ok)).dirty ∧ (monStep s m (.cas t ok)).aba = m.aba := by
  simp only [stepG] at h
  split at h
  case isFalse => simp at h
  split at h
  case h_6 => simp at h
  all_goals (
    split at h
    case isFalse => simp at h
    rename_i hok
    split at h
    · simp only [Option.some.injEq] at h; subst h
      subst hok
      simp only [decide_eq_true_eq] at *
      rename_i hA; subst hA
      refine ⟨clean_cas_core hi t _ _ _ _ _ (by first | (simp; done) | (split <;> simp))
        (fun _ _ _ _ _ hp => by first | (simp at hp; done) | exact kont_ne_stLink _ _ _ _ _ _ hp), rfl⟩
    · simp only [Option.some.injEq] at h; subst h
      refine ⟨clean_frame t hc (fun T hT => by simp [upd, hT]) rfl
        (fun _ _ _ _ _ _ _ _ _ => rfl)
        (fun k' d' a' prev' pn' hp => by simp [upd, kont_ne_stLink] at hp), rfl⟩)

theorem clean_step {e : Ev} (hi : Inv s) (hc : CleanInv s m.dirty)
    (h : stepG fx s e = some s') (hs : s'.stale = false) :
    CleanInv s' (monStep s m e).dirty ∧ (monStep s m e).aba = m.aba := by
  cases e with
  | inv t p d v => exact clean_inv hc t p d v h
  | alloc t n => exact clean_alloc hc t n h
  | ld t a => exact clean_ld hc t a h
  | chk t b => exact clean_chk hc t b h
  | rd t lk => exact clean_rd hc t lk h
  | link t n g => exact clean_link hc t n g h
  | lcas t ok => exact clean_lcas hc t ok h hs
  | cas t ok => exact clean_cas hi hc t ok h
  | free t n => exact clean_free hi hc t n h
  | ret t ok v => exact clean_ret hc t ok v h
  | done t => exact clean_done hc t h

/-- **Converse**: a run of model + monitor that ends with `stale = false` ends with `aba = false`. -/
theorem aba_false_of_stale_false {n : Nat} {log : List Ev} {s : St} {m : Mon}
    (h : runLog (stepM fx) (init n, mon0) log = some (s, m)) (hs : s.stale = false) :
    m.aba = false := by
  have key : ∀ (log : List Ev) (x y : St × Mon),
      (x.1.stale = false → Inv x.1 ∧ CleanInv x.1 x.2.dirty ∧ x.2.aba = false) →
      runLog (stepM fx) x log = some y → y.1.stale = false →
      Inv y.1 ∧ CleanInv y.1 y.2.dirty ∧ y.2.aba = false := by
    intro log
    induction log with
    | nil => intro x y h0 h hy; simp at h; subst h; exact h0 hy
    | cons e es ih =>
      intro x y h0 h hy
      simp only [runLog] at h
      cases he : stepM fx x e with
      | none => simp [he] at h
      | some x1 =>
        simp only [he] at h
        refine ih x1 y (fun hs1 => ?_) h hy
        obtain ⟨s0, m0⟩ := x
        simp only [stepM] at he
        cases hst : stepG fx s0 e with
        | none => simp [hst] at he
        | some s1 =>
          simp only [hst, Option.map_some, Option.some.injEq] at he
          subst he
          obtain ⟨g1, g2, g3⟩ := h0 (stale_mono hst hs1)
          obtain ⟨c1, c2⟩ := clean_step g1 g2 hst hs1
          exact ⟨step_inv g1 hst hs1, c1, by rw [c2]; exact g3⟩
  have := key log (init n, mon0) (s, m)
    (fun _ => ⟨inv_init n, fun T k d a prev pn hp _ => by simp [init] at hp, rfl⟩) h hs
  exact this.2.2

end PikaVerif.Deque
