import PikaVerif.Model.Erase
/-! Inductive invariant of the type-erasure model (shipped configuration: `sbo = false`). -/
set_option linter.unusedVariables false
namespace PikaVerif.Erase
open PikaVerif


structure Inv (c : Cfg) (s : St) : Prop where
  ctorI : ∀ id, s.ctor id = if id < s.next then 1 else 0
  dtorI : ∀ id, s.dtor id = if id < s.next ∧ s.owner id = none then 1 else 0
  ownA : ∀ id i, s.owner id = some i → (s.slot i).obj ≠ none ∧ ∀ o, (s.slot i).obj = some o → o.id = id
  ownB : ∀ i o, (s.slot i).obj = some o → s.owner o.id = some i
  ownLt : ∀ id i, s.owner id = some i → id < s.next
  dead : ∀ i, (s.slot i).live = false → (s.slot i).obj = none
  range : ∀ i, c.n ≤ i → (s.slot i).live = false
  fnV : ∀ i o, (s.slot i).obj = some o → (c.kind i).isFn = true →
      (s.slot i).vptr = some o.ty ∧ o.heap = o.ty.big
  fnN : ∀ i, (s.slot i).obj = none → (s.slot i).vptr = none
  sndV : ∀ i, (c.kind i).isFn = false → (s.slot i).vptr = none
  sndH : ∀ i o, (s.slot i).obj = some o → (c.kind i).isFn = false → o.heap = true
  cpy : ∀ i o, (s.slot i).obj = some o → (c.kind i).copyable = true → o.ty.copyable = true

theorem inv_init (c : Cfg) : Inv c init := by
  refine ⟨?_, ?_, ?_, ?_, ?_, ?_, ?_, ?_, ?_, ?_, ?_, ?_⟩ <;> simp [init, Slot.dead]

theorem movesFrom_fn {ki kj : Kind} (h : movesFrom ki kj = true) (hf : ki.isFn = true) : kj = ki := by
  cases ki <;> cases kj <;> simp_all [movesFrom, Kind.isFn]
theorem movesFrom_cp {ki kj : Kind} (h : movesFrom ki kj = true) (hf : ki.copyable = true) : kj = ki := by
  cases ki <;> cases kj <;> simp_all [movesFrom, Kind.copyable]
theorem movesFrom_snd {ki kj : Kind} (h : movesFrom ki kj = true) (hf : ki.isFn = false) : kj.isFn = false := by
  cases ki <;> cases kj <;> simp_all [movesFrom, Kind.isFn]

attribute [local grind] onHeap admits

set_option hygiene false in
macro "er_step" : tactic => `(tactic| (
  obtain ⟨h1,h2,h3,h4,h5,h6,h7,h8,h9,h10,h11,h12⟩ := hi
  simp only [exec, execStore, inval, St.put, St.die, St.dieO, St.own, St.ownO, St.born, St.leak, St.tick, Slot.dead, Slot.emptyW]
  repeat' split
  all_goals (
    refine ⟨?_, ?_, ?_, ?_, ?_, ?_, ?_, ?_, ?_, ?_, ?_, ?_⟩ <;> dsimp only
  )
  all_goals first
    | assumption
    | grind [upd]))

theorem inv_new (c : Cfg) (s : St) (hs : c.sbo = false) (hp : c.pinned = false) (hi : Inv c s) (i : Nat) :
    Inv c (exec c s (.new i)).st := by
  er_step

theorem inv_del (c : Cfg) (s : St) (hs : c.sbo = false) (hp : c.pinned = false) (hi : Inv c s) (i : Nat) :
    Inv c (exec c s (.del i)).st := by
  er_step

theorem inv_reset (c : Cfg) (s : St) (hs : c.sbo = false) (hp : c.pinned = false) (hi : Inv c s) (i : Nat) :
    Inv c (exec c s (.reset i)).st := by
  er_step
theorem inv_newp (c : Cfg) (s : St) (hs : c.sbo = false) (hp : c.pinned = false) (hi : Inv c s) (i : Nat) (ty : PTy) (v : Int) (cp : Bool) :
    Inv c (exec c s (.newp i ty v cp)).st := by
  er_step
theorem inv_set (c : Cfg) (s : St) (hs : c.sbo = false) (hp : c.pinned = false) (hi : Inv c s) (i : Nat) (ty : PTy) (v : Int) (cp : Bool) :
    Inv c (exec c s (.set i ty v cp)).st := by
  er_step
theorem inv_empty (c : Cfg) (s : St) (hs : c.sbo = false) (hp : c.pinned = false) (hi : Inv c s) (i : Nat) :
    Inv c (exec c s (.empty i)).st := by
  er_step
theorem inv_call (c : Cfg) (s : St) (hs : c.sbo = false) (hp : c.pinned = false) (hi : Inv c s) (i : Nat) (x : Int) :
    Inv c (exec c s (.call i x)).st := by
  er_step
theorem inv_run (c : Cfg) (s : St) (hs : c.sbo = false) (hp : c.pinned = false) (hi : Inv c s) (i : Nat) :
    Inv c (exec c s (.run i)).st := by
  er_step
theorem inv_runc (c : Cfg) (s : St) (hs : c.sbo = false) (hp : c.pinned = false) (hi : Inv c s) (i : Nat) :
    Inv c (exec c s (.runc i)).st := by
  er_step
set_option maxHeartbeats 2000000 in
theorem inv_copy (c : Cfg) (s : St) (hs : c.sbo = false) (hp : c.pinned = false) (hi : Inv c s) (i j : Nat) :
    Inv c (exec c s (.copy i j)).st := by
  er_step
theorem inv_move (c : Cfg) (s : St) (hs : c.sbo = false) (hp : c.pinned = false) (hi : Inv c s) (i j : Nat) :
    Inv c (exec c s (.move i j)).st := by
  have m1 := @movesFrom_fn (c.kind i) (c.kind j)
  have m2 := @movesFrom_cp (c.kind i) (c.kind j)
  have m3 := @movesFrom_snd (c.kind i) (c.kind j)
  er_step
theorem inv_cctor (c : Cfg) (s : St) (hs : c.sbo = false) (hp : c.pinned = false) (hi : Inv c s) (i j : Nat) :
    Inv c (exec c s (.cctor i j)).st := by
  er_step
theorem inv_mctor (c : Cfg) (s : St) (hs : c.sbo = false) (hp : c.pinned = false) (hi : Inv c s) (i j : Nat) :
    Inv c (exec c s (.mctor i j)).st := by
  have m1 := @movesFrom_fn (c.kind i) (c.kind j)
  have m2 := @movesFrom_cp (c.kind i) (c.kind j)
  have m3 := @movesFrom_snd (c.kind i) (c.kind j)
  er_step
theorem inv_swap (c : Cfg) (s : St) (hs : c.sbo = false) (hp : c.pinned = false) (hi : Inv c s) (i j : Nat) :
    Inv c (exec c s (.swap i j)).st := by
  er_step
theorem inv_arm (c : Cfg) (s : St) (hs : c.sbo = false) (hp : c.pinned = false) (hi : Inv c s) (k : Nat) :
    Inv c (exec c s (.arm k)).st := by
  er_step

theorem exec_inv (c : Cfg) (s : St) (hs : c.sbo = false) (hp : c.pinned = false) (hi : Inv c s) (op : Op) :
    Inv c (exec c s op).st := by
  cases op with
  | new i => exact inv_new c s hs hp hi i
  | newp i ty v cp => exact inv_newp c s hs hp hi i ty v cp
  | del i => exact inv_del c s hs hp hi i
  | set i ty v cp => exact inv_set c s hs hp hi i ty v cp
  | reset i => exact inv_reset c s hs hp hi i
  | copy i j => exact inv_copy c s hs hp hi i j
  | move i j => exact inv_move c s hs hp hi i j
  | cctor i j => exact inv_cctor c s hs hp hi i j
  | mctor i j => exact inv_mctor c s hs hp hi i j
  | swap i j => exact inv_swap c s hs hp hi i j
  | empty i => exact inv_empty c s hs hp hi i
  | call i x => exact inv_call c s hs hp hi i x
  | run i => exact inv_run c s hs hp hi i
  | runc i => exact inv_runc c s hs hp hi i
  | arm k => exact inv_arm c s hs hp hi k

theorem runOps_cons (c : Cfg) (s : St) (op : Op) (ops : List Op) :
    runOps c s (op :: ops) =
      ((runOps c (exec c s op).st ops).1,
       ((exec c s op).res, (exec c s op).evs) :: (runOps c (exec c s op).st ops).2) := rfl

theorem inv_run_ops (c : Cfg) (hs : c.sbo = false) (hp : c.pinned = false) (ops : List Op) :
    ∀ s, Inv c s → Inv c (finalSt c s ops) := by
  induction ops with
  | nil => intro s h; exact h
  | cons op ops ih =>
    intro s h
    simp only [finalSt, runOps_cons]
    exact ih _ (exec_inv c s hs hp h op)

end PikaVerif.Erase
