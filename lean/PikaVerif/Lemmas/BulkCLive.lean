import PikaVerif.Lemmas.BulkProg
import PikaVerif.Lemmas.IndexQueue
/-!
No stuck state in the composed bulk model `PikaVerif.BulkC` (C11, follow-up C11p).

* `PInv`: a worker that holds a loaded word is in the `while ((index = queue.pop_*()))` test of a
  running task and the generated per-iteration function does not return `nullopt` on that word;
  a worker that holds a popped chunk `j` is in `work _ j` of the protocol model.
* `enabled_of_running`: in the running phase, while the receiver has not been completed, some
  non-stutter event is enabled.
-/
namespace PikaVerif.BulkC
open PikaVerif PikaVerif.Gen.BulkArith PikaVerif.Gen.IndexRange PikaVerif.BulkPlan
open PikaVerif.BulkArith PikaVerif.Partition PikaVerif.C11

/-- per-worker consistency of (protocol pc, loaded word, loop state) -/
def PW (pc : Bulk.Pc) (e : Option (Int × Int)) (lp : Lp) : Prop :=
  (∀ v, e = some v → popReady lp = true ∧ ∃ off, popOff pc = some off ∧ popTry off v.1 v.2 ≠ none) ∧
  (∀ j, lp = .got j → ∃ off, pc = .work off j)

def PInv (s : St) : Prop :=
  (s.ph = 0 → ∀ k, s.ex k = none ∧ s.lp k = .out) ∧
  (s.ph = 1 → ∀ k, PW (s.p.pc k) (s.ex k) (s.lp k))

theorem pw_frame {pc pc' : Nat → Bulk.Pc} {ex ex' : Nat → Option (Int × Int)} {lp lp' : Nat → Lp}
    (k : Nat) (h : ∀ u, PW (pc u) (ex u) (lp u))
    (hpc : ∀ u, u ≠ k → pc' u = pc u) (hex : ∀ u, u ≠ k → ex' u = ex u)
    (hlp : ∀ u, u ≠ k → lp' u = lp u) (hk : PW (pc' k) (ex' k) (lp' k)) :
    ∀ u, PW (pc' u) (ex' u) (lp' u) := by
  intro u
  by_cases e : u = k
  · subst e; exact hk
  · rw [hpc u e, hex u e, hlp u e]; exact h u

theorem popOff_work (off j : Nat) : popOff (.work off j) = some off := rfl

/-- a worker outside `do_work` holds neither a word nor a chunk -/
theorem pw_of_inactive {pc : Bulk.Pc} {e : Option (Int × Int)} {lp : Lp} (h : PW pc e lp)
    (hp : popOff pc = none) (x : Bulk.Pc) : PW x e lp := by
  refine ⟨fun v hv => ?_, fun j hj => ?_⟩
  · obtain ⟨_, off, ho, _⟩ := h.1 v hv
    rw [hp] at ho; simp at ho
  · obtain ⟨off, ho⟩ := h.2 j hj
    rw [ho] at hp; simp [popOff] at hp

/-- a worker inside `do_work_chunk` holds no word -/
theorem pw_any {pc : Bulk.Pc} {e : Option (Int × Int)} {lp : Lp} (h : PW pc e lp)
    (hr : popReady lp = false) (x : Bulk.Pc) (y : Lp) (hy : ∀ j, y ≠ .got j) : PW x e y := by
  refine ⟨fun v hv => ?_, fun j hj => absurd hj (hy j)⟩
  have := (h.1 v hv).1
  rw [hr] at this; simp at this

theorem pw_none_out (x : Bulk.Pc) : PW x none .out :=
  ⟨fun v hv => by simp at hv, fun j hj => by simp at hj⟩

theorem popOff_eq_offOf (p : Bulk.Pc) : popOff p = Bulk.offOf p := by cases p <;> rfl

theorem pinv_popNone (s s' : St) (k q : Nat) (hP : ∀ u, PW (s.p.pc u) (s.ex u) (s.lp u))
    (h : popNone s k q = some s') : ∀ u, PW (s'.p.pc u) (s'.ex u) (s'.lp u) := by
  simp only [popNone] at h
  split at h
  next p' hb =>
    simp only [Option.some.injEq] at h; subst h
    obtain ⟨_, off, hoff, hp⟩ := Bulk.eff_popNone _ _ _ _ hb
    subst hp
    refine pw_frame k hP ?_ ?_ ?_ ?_ <;> worker_side
    dsimp only
    rw [upd_same, upd_same, upd_same]
    exact pw_none_out _
  next => simp at h

theorem pinv_exSet (s : St) (k off : Nat) (x : Int × Int)
    (hP : ∀ u, PW (s.p.pc u) (s.ex u) (s.lp u)) (hr : popReady (s.lp k) = true)
    (hoff : popOff (s.p.pc k) = some off) (hx : popTry off x.1 x.2 ≠ none) :
    ∀ u, PW (s.p.pc u) (upd s.ex k (some x) u) (s.lp u) := by
  refine pw_frame k hP ?_ ?_ ?_ ?_ <;> worker_side
  rw [upd_same]
  refine ⟨fun v hv => ?_, (hP k).2⟩
  simp only [Option.some.injEq] at hv; subst hv
  exact ⟨hr, off, hoff, hx⟩

theorem popReady_false_of {l : Lp} (h : (∃ j, l = .got j) ∨ (∃ c e, l = .incall c e) ∨
    (∃ i, l = .threw i) ∨ (∃ c e, l = .at c e ∧ c < e)) : popReady l = false := by
  rcases h with ⟨j, h⟩ | ⟨c, e, h⟩ | ⟨i, h⟩ | ⟨c, e, h, hlt⟩ <;> subst h <;> simp [popReady]
  omega

theorem pinv1_step (s s' : St) (e : Ev) (hph : s.ph = 1)
    (hP : ∀ u, PW (s.p.pc u) (s.ex u) (s.lp u)) (h : step s e = some s') :
    ∀ u, PW (s'.p.pc u) (s'.ex u) (s'.lp u) := by
  cases e with
  | zero => simp [step, hph] at h
  | plan c => simp [step, hph] at h
  | spawn k =>
    simp only [step] at h
    split at h
    next hg =>
      split at h
      next p' hb =>
        simp only [Option.some.injEq] at h; subst h
        obtain ⟨hk, hpc, hp⟩ := Bulk.eff_spawn _ _ _ hb
        subst hp
        refine pw_frame k hP ?_ ?_ ?_ ?_ <;> worker_side
        exact pw_of_inactive (hP k) (by rw [hpc]; rfl) _
      next => simp at h
    next hn => exact absurd hph hn
  | skip k =>
    simp only [step] at h
    split at h
    next hg =>
      split at h
      next p' hb =>
        simp only [Option.some.injEq] at h; subst h
        obtain ⟨hk, hpc, hp⟩ := Bulk.eff_skip _ _ _ hb
        subst hp
        refine pw_frame k hP ?_ ?_ ?_ ?_ <;> worker_side
        exact pw_of_inactive (hP k) (by rw [hpc]; rfl) _
      next => simp at h
    next hn => exact absurd hph hn
  | task k =>
    simp only [step] at h
    split at h
    next hg =>
      split at h
      next p' hb =>
        simp only [Option.some.injEq] at h; subst h
        obtain ⟨hk, hpc, hp⟩ := Bulk.eff_task _ _ _ hb
        subst hp
        refine pw_frame k hP ?_ ?_ ?_ ?_ <;> worker_side
        exact pw_of_inactive (hP k) (by rcases hpc with hpc | hpc <;> rw [hpc] <;> rfl) _
      next => simp at h
    next hn => exact absurd hph hn
  | load k q f l =>
    simp only [step] at h
    split at h
    next hg =>
      split at h
      next off hoff =>
        split at h
        next hq =>
          split at h
          next => exact pinv_popNone s s' k q hP h
          next x hx =>
            simp only [Option.some.injEq] at h; subst h
            exact pinv_exSet s k off (f, l) hP hg.2.2.2.1 hoff (by dsimp only; rw [hx]; simp)
        next => simp at h
      next => simp at h
    next => simp at h
  | cas k q ok f l =>
    simp only [step] at h
    split at h
    next hg =>
      split at h
      next ef el off hex hoff =>
        split at h
        next hq =>
          split at h
          next => simp at h
          next idx df dl htry =>
            split at h
            next hcur =>
              split at h
              next hok =>
                split at h
                next p' hb =>
                  split at h
                  next hw =>
                    simp only [Option.some.injEq] at h; subst h
                    obtain ⟨_, off', hoff', _, _, _, hp⟩ := Bulk.eff_popSome _ _ _ _ _ hb
                    subst hp
                    refine pw_frame k hP ?_ ?_ ?_ ?_ <;> worker_side
                    dsimp only
                    rw [upd_same, upd_same, upd_same]
                    refine ⟨fun v hv => by simp at hv, fun j hj => ?_⟩
                    simp only [Lp.got.injEq] at hj; subst hj
                    exact ⟨off', rfl⟩
                  next => simp at h
                next => simp at h
              next => simp at h
            next hcur =>
              split at h
              next hok =>
                split at h
                next => exact pinv_popNone s s' k q hP h
                next x hx =>
                  simp only [Option.some.injEq] at h; subst h
                  exact pinv_exSet s k off (f, l) hP hg.2.2 hoff (by dsimp only; rw [hx]; simp)
              next => simp at h
        next => simp at h
      next => simp at h
    next => simp at h
  | chunk k j =>
    simp only [step] at h
    split at h
    next hg =>
      split at h
      next p' hb =>
        simp only [Option.some.injEq] at h; subst h
        obtain ⟨hp, off, hpc⟩ := Bulk.eff_chunk _ _ _ _ hb
        subst hp
        refine pw_frame k hP ?_ ?_ ?_ ?_ <;> worker_side
        dsimp only
        rw [upd_same]
        exact pw_any (hP k) (popReady_false_of (Or.inl ⟨j, hg.2.2.1⟩)) _ _ (by simp)
      next => simp at h
    next => simp at h
  | call k i v =>
    simp only [step] at h
    split at h
    next hg =>
      split at h
      next cur ie hlp =>
        split at h
        next hc =>
          simp only [Option.some.injEq] at h; subst h
          refine pw_frame k hP ?_ ?_ ?_ ?_ <;> worker_side
          dsimp only
          rw [upd_same]
          exact pw_any (hP k) (popReady_false_of (Or.inr (Or.inr (Or.inr ⟨cur, ie, hlp, hc.1⟩)))) _ _
            (by simp)
        next => simp at h
      next => simp at h
    next => simp at h
  | ret k =>
    simp only [step] at h
    split at h
    next hg =>
      split at h
      next cur ie hlp =>
        simp only [Option.some.injEq] at h; subst h
        refine pw_frame k hP ?_ ?_ ?_ ?_ <;> worker_side
        dsimp only
        rw [upd_same]
        exact pw_any (hP k) (popReady_false_of (Or.inr (Or.inl ⟨cur, ie, hlp⟩))) _ _ (by simp)
      next => simp at h
    next => simp at h
  | throw k =>
    simp only [step] at h
    split at h
    next hg =>
      split at h
      next cur ie hlp =>
        simp only [Option.some.injEq] at h; subst h
        refine pw_frame k hP ?_ ?_ ?_ ?_ <;> worker_side
        dsimp only
        rw [upd_same]
        exact pw_any (hP k) (popReady_false_of (Or.inr (Or.inl ⟨cur, ie, hlp⟩))) _ _ (by simp)
      next => simp at h
    next => simp at h
  | exc k =>
    simp only [step] at h
    split at h
    next hg =>
      split at h
      next i hlp =>
        split at h
        next p' hb =>
          simp only [Option.some.injEq] at h; subst h
          obtain ⟨_, _, _, hp⟩ := Bulk.eff_exc _ _ _ hb
          subst hp
          refine pw_frame k hP ?_ ?_ ?_ ?_ <;> worker_side
          dsimp only
          rw [upd_same, upd_same]
          exact pw_any (hP k) (popReady_false_of (Or.inr (Or.inr (Or.inl ⟨i, hlp⟩)))) _ _ (by simp)
        next => simp at h
      next => simp at h
    next => simp at h
  | dec k last =>
    simp only [step] at h
    split at h
    next hg =>
      split at h
      next hlp =>
        split at h
        next hfin =>
          split at h
          next p' hb =>
            simp only [Option.some.injEq] at h; subst h
            obtain ⟨_, hrem, _, hp⟩ := Bulk.eff_dec _ _ _ _ hb
            rcases hp with ⟨⟨t, hpc⟩, hp⟩ | ⟨⟨off, j, hpc⟩, _, _⟩
            · subst hp
              refine pw_frame k hP ?_ ?_ ?_ ?_ <;> worker_side
              dsimp only
              rw [upd_same]
              exact pw_of_inactive (hP k) (by rw [hpc]; rfl) _
            · rw [hpc] at hfin; simp [isFin] at hfin
          next => simp at h
        next => simp at h
      next i hlp =>
        split at h
        next hwk =>
          split at h
          next p' hb =>
            simp only [Option.some.injEq] at h; subst h
            obtain ⟨_, hrem, _, hp⟩ := Bulk.eff_dec _ _ _ _ hb
            rcases hp with ⟨⟨t, hpc⟩, _⟩ | ⟨⟨off, j, hpc⟩, _, hp⟩
            · rw [hpc] at hwk; simp [isWork] at hwk
            · subst hp
              refine pw_frame k hP ?_ ?_ ?_ ?_ <;> worker_side
              dsimp only
              rw [upd_same, upd_same]
              exact pw_any (hP k) (popReady_false_of (Or.inr (Or.inr (Or.inl ⟨i, hlp⟩)))) _ _ (by simp)
          next => simp at h
        next => simp at h
      next => simp at h
    next => simp at h
  | decide k err =>
    simp only [step] at h
    split at h
    · simp only [Option.some.injEq] at h; subst h; exact hP
    · simp at h
  | sig err tok =>
    simp only [step] at h
    rw [if_pos hph] at h
    by_cases htok : (if err then s.exception = some tok else s.ts = some tok)
    · rw [if_pos htok] at h
      cases hb : Bulk.step s.p (.sig err) with
      | none => rw [hb] at h; simp at h
      | some p' =>
        rw [hb] at h
        simp only [Option.some.injEq] at h; subst h
        obtain ⟨_, _, hp⟩ := Bulk.eff_sig _ _ _ hb
        subst hp
        exact hP
    · rw [if_neg htok] at h; simp at h

theorem pinv_step (s s' : St) (e : Ev) (hP : PInv s) (h : step s e = some s') : PInv s' := by
  by_cases hph : s.ph = 1
  · have hp' := step_ph1 s s' e hph h
    exact ⟨fun h0 => by omega, fun _ => pinv1_step s s' e hph (hP.2 hph) h⟩
  · cases e with
    | zero =>
      simp only [step] at h
      split at h
      next hg =>
        simp only [Option.some.injEq] at h; subst h
        exact ⟨fun h0 => by simp at h0, fun h1 => by simp at h1⟩
      next => simp at h
    | plan c =>
      simp only [step] at h
      split at h
      next hg =>
        simp only [Option.some.injEq] at h; subst h
        refine ⟨fun h0 => by simp at h0, fun _ k => ?_⟩
        obtain ⟨e1, e2⟩ := hP.1 hg.1 k
        show PW Bulk.Pc.idle (s.ex k) (s.lp k)
        rw [e1, e2]; exact pw_none_out _
      next => simp at h
    | sig err tok =>
      simp only [step] at h
      rw [if_neg hph] at h
      split at h
      next hg =>
        simp only [Option.some.injEq] at h; subst h
        exact ⟨fun h0 => by dsimp only at h0; omega, fun h1 => by dsimp only at h1; omega⟩
      next => simp at h
    | _ => simp [step, hph] at h

theorem pinv_init (S : CTy) (w n L : Nat) (v : Int) : PInv (init S w n L v) :=
  ⟨fun _ _ => ⟨rfl, rfl⟩, fun h => by simp [init] at h⟩

theorem pinv_of_accepted {S : CTy} {w n L : Nat} {v : Int} {log : List Ev} {s : St}
    (h : runLog step (init S w n L v) log = some s) : PInv s :=
  inv_of_runLog PInv (fun s e s' => pinv_step s s' e) (pinv_init S w n L v) h

theorem spInv_of_accepted {S : CTy} {w n L : Nat} {v : Int} {log : List Ev} {s : St}
    (h : runLog step (init S w n L v) log = some s) (hp : s.ph = 1) : Bulk.SpInv s.p := by
  obtain ⟨plog, hpl⟩ := protoReach_of_accepted h hp
  exact Bulk.spInv_of_accepted hpl

/-! ### enabled events -/

/-- the event is accepted in `s` -/
def En (s : St) (e : Ev) : Prop := ∃ s', step s e = some s'

/-- the worker task an event belongs to (`none`: the thread running `set_value` / its spawner
    loop, and the receiver's completion) -/
def evActor : Ev → Option Nat
  | .task k => some k
  | .load k _ _ _ => some k
  | .cas k _ _ _ _ => some k
  | .chunk k _ => some k
  | .call k _ _ => some k
  | .ret k => some k
  | .throw k => some k
  | .exc k => some k
  | .dec k _ => some k
  | .decide k _ => some k
  | _ => none

/-- the generated per-iteration functions on a queue word of the model -/
theorem popTry_word (off f l : Nat) (hl : l < 4294967296) (hfl : f ≤ l) :
    popTry off (f : Int) (l : Int) =
      if f < l then
        some (if off = 0 then ((f : Int), ((f : Int) + 1, (l : Int)))
              else ((l : Int) - 1, ((f : Int), (l : Int) - 1)))
      else none := by
  unfold popTry
  by_cases h0 : off = 0
  · rw [if_pos h0, IQ.popLeftTry_exact (f : Int) (l : Int) (by omega) (by omega) (by omega) (by omega)]
    by_cases hlt : f < l
    · rw [if_pos (by omega), if_pos hlt, if_pos h0]
    · rw [if_neg (by omega), if_neg hlt]
  · rw [if_neg h0, IQ.popRightTry_exact (f : Int) (l : Int) (by omega) (by omega) (by omega) (by omega)]
    by_cases hlt : f < l
    · rw [if_pos (by omega), if_pos hlt, if_neg h0]
    · rw [if_neg (by omega), if_neg hlt]

/-- the words of the model's queues are below `2^32` -/
theorem word_bounds (s : St) (hi : CInv s) (q : Nat) (hq : q < s.w) :
    (s.p.qs q).1 ≤ (s.p.qs q).2 ∧ (s.p.qs q).2 < 4294967296 := by
  have hw : s.p.w = s.w := hi.pw
  have hr := hi.pq.rng q (by omega)
  have ha := hi.pa (q + 1) (by omega)
  have hm : part s.w (nchunks s.c s.n) (q + 1) ≤ part s.w (nchunks s.c s.n) s.w :=
    mono_le (part s.w (nchunks s.c s.n)) s.w (fun k _ => part_mono _ _ k) (q + 1) s.w (by omega) (by omega)
  rw [part_last _ _ (by omega)] at hm
  have := hi.safe.2.2.2.2.2.2.2.1
  omega

/-- `pop_*` observing an empty word returns `nullopt`: accepted by the protocol model -/
theorem en_popNone (s : St) (hi : CInv s) (k off : Nat) (hk : k < s.w)
    (hoff : Bulk.offOf (s.p.pc k) = some off)
    (hn : popTry off ((s.p.qs ((k + off) % s.w)).1 : Int) ((s.p.qs ((k + off) % s.w)).2 : Int) = none) :
    ∃ s', popNone s k ((k + off) % s.w) = some s' := by
  have hw : s.p.w = s.w := hi.pw
  have hqw : (k + off) % s.w < s.w := Nat.mod_lt _ (by omega)
  obtain ⟨b1, b2⟩ := word_bounds s hi _ hqw
  rw [popTry_word off _ _ b2 b1] at hn
  have hq : Bulk.qEmpty (s.p.qs ((k + off) % s.w)) = true := by
    rw [Bulk.qEmpty_iff]
    by_cases hlt : (s.p.qs ((k + off) % s.w)).1 < (s.p.qs ((k + off) % s.w)).2
    · rw [if_pos hlt] at hn; simp at hn
    · omega
  obtain ⟨p', hp'⟩ := Bulk.en_popNone s.p k off (by omega) hoff (by rw [hw]; exact hq)
  rw [hw] at hp'
  exact ⟨_, by simp only [popNone]; rw [hp']⟩

/-- a worker in the `while` test that holds no word can load the word of its current queue -/
theorem en_load (s : St) (hi : CInv s) (hph : s.ph = 1) (k off : Nat) (hk : k < s.w)
    (hoff : Bulk.offOf (s.p.pc k) = some off) (hr : popReady (s.lp k) = true)
    (hex : s.ex k = none) :
    En s (.load k ((k + off) % s.w) ((s.p.qs ((k + off) % s.w)).1 : Int)
      ((s.p.qs ((k + off) % s.w)).2 : Int)) := by
  have hpo : popOff (s.p.pc k) = some off := by rw [popOff_eq_offOf]; exact hoff
  unfold En
  simp only [step]
  rw [if_pos ⟨hph, hk, hex, hr, rfl⟩, hpo]
  dsimp only
  rw [if_pos rfl]
  cases hpt : popTry off ((s.p.qs ((k + off) % s.w)).1 : Int) ((s.p.qs ((k + off) % s.w)).2 : Int) with
  | none => exact en_popNone s hi k off hk hoff hpt
  | some x => exact ⟨_, rfl⟩

/-- a worker whose loaded word is stale: the compare-exchange fails and reloads -/
theorem en_casFail (s : St) (hi : CInv s) (hph : s.ph = 1) (k off : Nat) (hk : k < s.w)
    (hoff : Bulk.offOf (s.p.pc k) = some off) (hr : popReady (s.lp k) = true)
    (x : Int × Int) (hex : s.ex k = some x) (hx : x ≠ word (s.p.qs ((k + off) % s.w)))
    (hpt : popTry off x.1 x.2 ≠ none) :
    En s (.cas k ((k + off) % s.w) false ((s.p.qs ((k + off) % s.w)).1 : Int)
      ((s.p.qs ((k + off) % s.w)).2 : Int)) := by
  have hpo : popOff (s.p.pc k) = some off := by rw [popOff_eq_offOf]; exact hoff
  obtain ⟨ef, el⟩ := x
  unfold En
  simp only [step]
  rw [if_pos ⟨hph, hk, hr⟩, hex, hpo]
  dsimp only
  rw [if_pos rfl]
  cases hpx : popTry off ef el with
  | none => exact absurd hpx hpt
  | some y =>
    obtain ⟨idx, df, dl⟩ := y
    dsimp only
    rw [if_neg hx, if_pos ⟨trivial, rfl⟩]
    cases hpt : popTry off ((s.p.qs ((k + off) % s.w)).1 : Int) ((s.p.qs ((k + off) % s.w)).2 : Int) with
    | none => exact en_popNone s hi k off hk hoff hpt
    | some x => exact ⟨_, rfl⟩

/-- a worker whose loaded word is still the word of the queue: the compare-exchange succeeds -/
theorem en_casOk (s : St) (hi : CInv s) (hph : s.ph = 1) (k off : Nat) (hk : k < s.w)
    (hoff : Bulk.offOf (s.p.pc k) = some off) (hr : popReady (s.lp k) = true)
    (hex : s.ex k = some (word (s.p.qs ((k + off) % s.w))))
    (hpt : popTry off ((s.p.qs ((k + off) % s.w)).1 : Int) ((s.p.qs ((k + off) % s.w)).2 : Int) ≠ none) :
    ∃ df dl, En s (.cas k ((k + off) % s.w) true df dl) := by
  have hpo : popOff (s.p.pc k) = some off := by rw [popOff_eq_offOf]; exact hoff
  have hw : s.p.w = s.w := hi.pw
  have hqw : (k + off) % s.w < s.w := Nat.mod_lt _ (by omega)
  obtain ⟨b1, b2⟩ := word_bounds s hi _ hqw
  have hptw := popTry_word off (s.p.qs ((k + off) % s.w)).1 (s.p.qs ((k + off) % s.w)).2 b2 b1
  have hlt : (s.p.qs ((k + off) % s.w)).1 < (s.p.qs ((k + off) % s.w)).2 := by
    by_cases h : (s.p.qs ((k + off) % s.w)).1 < (s.p.qs ((k + off) % s.w)).2
    · exact h
    · rw [if_neg h] at hptw; exact absurd hptw hpt
  rw [if_pos hlt] at hptw
  have hne : Bulk.qEmpty (s.p.qs ((k + off) % s.w)) = false := (Bulk.qEmpty_false_iff _).2 hlt
  have hps := Bulk.en_popSome s.p k off (by omega) hoff (by rw [hw]; exact hne)
  rw [hw] at hps
  by_cases h0 : off = 0
  · rw [if_pos h0] at hptw
    simp only [if_pos h0] at hps
    refine ⟨((s.p.qs ((k + off) % s.w)).1 : Int) + 1, ((s.p.qs ((k + off) % s.w)).2 : Int), ?_⟩
    unfold En
    simp only [step]
    rw [if_pos ⟨hph, hk, hr⟩, hex, hpo]
    dsimp only [word]
    rw [if_pos rfl, hptw]
    dsimp only
    have hnn : (0 : Int) ≤ ((s.p.qs ((k + off) % s.w)).1 : Int) := by omega
    simp [hps, hnn, upd_same]
  · rw [if_neg h0] at hptw
    simp only [if_neg h0] at hps
    refine ⟨((s.p.qs ((k + off) % s.w)).1 : Int), ((s.p.qs ((k + off) % s.w)).2 : Int) - 1, ?_⟩
    have ht : (((s.p.qs ((k + off) % s.w)).2 : Int) - 1).toNat = (s.p.qs ((k + off) % s.w)).2 - 1 := by
      omega
    unfold En
    simp only [step]
    rw [if_pos ⟨hph, hk, hr⟩, hex, hpo]
    dsimp only [word]
    rw [if_pos rfl, hptw]
    dsimp only
    have hnn : (0 : Int) ≤ ((s.p.qs ((k + off) % s.w)).2 : Int) - 1 := by omega
    simp [ht, hps, upd_same]
    omega

/-- **A worker inside `do_work` can always move**: it enters the chunk it popped, makes the next
    call, returns from the call it is in, stores / drops the exception it is unwinding with, or
    makes the next step of a `pop_*` (load, compare-exchange that succeeds, compare-exchange that
    fails because another worker changed the word, `nullopt`). -/
theorem en_worker (s : St) (hi : CInv s) (hph : s.ph = 1) (k off : Nat) (hk : k < s.w)
    (hPk : PW (s.p.pc k) (s.ex k) (s.lp k))
    (hoff : Bulk.offOf (s.p.pc k) = some off) (ho : s.p.outcome = none) :
    ∃ e, evActor e = some k ∧ isStutter e = false ∧ En s e := by
  have hw : s.p.w = s.w := hi.pw
  have hrem := (hi.pinv.outn ho).1
  have hpo : popOff (s.p.pc k) = some off := by rw [popOff_eq_offOf]; exact hoff
  have popPath : popReady (s.lp k) = true → ∃ e, evActor e = some k ∧ isStutter e = false ∧ En s e := by
    intro hr
    cases hex : s.ex k with
    | none => exact ⟨_, rfl, rfl, en_load s hi hph k off hk hoff hr hex⟩
    | some x =>
      obtain ⟨_, off', ho', hpt⟩ := hPk.1 x hex
      have : off' = off := by rw [hpo] at ho'; injection ho' with h; exact h.symm
      subst this
      by_cases hx : x = word (s.p.qs ((k + off') % s.w))
      · subst hx
        obtain ⟨df, dl, hen⟩ := en_casOk s hi hph k off' hk hoff hr hex hpt
        exact ⟨_, rfl, rfl, hen⟩
      · exact ⟨_, rfl, rfl, en_casFail s hi hph k off' hk hoff hr x hex hx hpt⟩
  cases hlp : s.lp k with
  | out => exact popPath (by rw [hlp]; rfl)
  | got j =>
    obtain ⟨off', hpc⟩ := hPk.2 j hlp
    have hj := hi.gotB k j hlp
    have hub := (C11_chunk_ranges s.S s.w s.n s.c k j hi.safe hk hj).2
    have hbc := Bulk.en_chunk s.p k off' j (by omega) hpc
    refine ⟨.chunk k j, rfl, rfl, ?_⟩
    unfold En
    simp only [step]; rw [if_pos ⟨hph, hk, hlp, hub⟩, hbc]
    exact ⟨_, rfl⟩
  | «at» cur ie =>
    by_cases hlt : cur < ie
    · refine ⟨.call k cur s.v, rfl, rfl, ?_⟩
      unfold En
      simp only [step]; rw [if_pos ⟨hph, hk⟩, hlp]; dsimp only; rw [if_pos ⟨hlt, rfl, hi.tsv⟩]
      exact ⟨_, rfl⟩
    · exact popPath (by rw [hlp]; simp only [popReady, decide_eq_true_eq]; omega)
  | incall cur ie =>
    refine ⟨.ret k, rfl, rfl, ?_⟩
    unfold En
    simp only [step]; rw [if_pos ⟨hph, hk⟩, hlp]
    exact ⟨_, rfl⟩
  | threw i =>
    have hwk := isWork_of_lp s hi k (by rw [hlp]; simp)
    cases hpc : s.p.pc k with
    | work off' j =>
      cases hx : s.p.excThrown with
      | false =>
        obtain ⟨p', hp'⟩ := Bulk.en_exc s.p k off' j (by omega) hpc hx
        refine ⟨.exc k, rfl, rfl, ?_⟩
        unfold En
        simp only [step]; rw [if_pos ⟨hph, hk⟩, hlp]; dsimp only; rw [hp']
        exact ⟨_, rfl⟩
      | true =>
        obtain ⟨p', hp'⟩ := Bulk.en_dec_work s.p k off' j (by omega) hrem hpc hx
        refine ⟨.dec k (decide (s.p.remaining = 1)), rfl, rfl, ?_⟩
        unfold En
        simp only [step]; rw [if_pos ⟨hph, hk⟩, hlp]; dsimp only; rw [if_pos hwk, hp']
        exact ⟨_, rfl⟩
    | _ => rw [hpc] at hwk; simp [isWork] at hwk

/-- a worker that left `do_work` can decrement the join counter -/
theorem en_fin (s : St) (hi : CInv s) (hph : s.ph = 1) (k : Nat) (t : Bool) (hk : k < s.w)
    (hpc : s.p.pc k = .fin t) (ho : s.p.outcome = none) :
    ∃ e, evActor e = some k ∧ isStutter e = false ∧ En s e := by
  have hw : s.p.w = s.w := hi.pw
  have hrem := (hi.pinv.outn ho).1
  have hlp := hi.lpOut k (by rw [hpc]; rfl)
  obtain ⟨p', hp'⟩ := Bulk.en_dec_fin s.p k t (by omega) hrem hpc
  refine ⟨.dec k (decide (s.p.remaining = 1)), rfl, rfl, ?_⟩
  unfold En
  simp only [step]; rw [if_pos ⟨hph, hk⟩, hlp]; dsimp only; rw [if_pos (by rw [hpc]; rfl), hp']
  exact ⟨_, rfl⟩

/-- **No stuck state in the running phase, and who moves.**  While the receiver has not been
    completed: (a) the outcome is decided and the completion is enabled, or (b) the spawner loop
    can handle its next worker, or (c) the spawner loop is finished and the local worker can
    start, or (d) some worker `k < w` that has not yet decremented the join counter has an
    enabled non-stutter event of its own. -/
theorem running_progress (s : St) (hi : CInv s) (hph : s.ph = 1)
    (hP : ∀ u, PW (s.p.pc u) (s.ex u) (s.lp u)) (hsp : Bulk.SpInv s.p) (hd : s.done = []) :
    (∃ err tok, s.p.outcome = some err ∧ En s (.sig err tok)) ∨
    (Bulk.cur s.p < s.w ∧ (En s (.spawn (Bulk.cur s.p)) ∨ En s (.skip (Bulk.cur s.p)))) ∨
    (s.w ≤ Bulk.cur s.p ∧ En s (.task s.p.L)) ∨
    (∃ k e, k < s.w ∧ s.p.pc k ≠ .decd ∧ evActor e = some k ∧ isStutter e = false ∧ En s e) := by
  have hw : s.p.w = s.w := hi.pw
  have hs0 : s.p.signals = 0 := by rw [← hi.doneLen, hd]; rfl
  cases ho : s.p.outcome with
  | some err =>
    refine Or.inl ?_
    obtain ⟨p', hp'⟩ := Bulk.en_sig s.p err ho hs0
    cases err with
    | false =>
      refine ⟨false, s.v, rfl, ?_⟩
      unfold En
      simp only [step]; rw [if_pos hph, if_pos (by simpa using hi.tsv), hp']
      exact ⟨_, rfl⟩
    | true =>
      have hx : s.p.excThrown = true := ((hi.pinv.outc true ho).2).symm
      cases hexc : s.exception with
      | none => exact absurd hexc (hi.excSome hx)
      | some tok =>
        refine ⟨true, tok, rfl, ?_⟩
        unfold En
        simp only [step]; rw [if_pos hph, if_pos (by simpa using hexc), hp']
        exact ⟨_, rfl⟩
  | none =>
    refine Or.inr ?_
    rcases Bulk.actor s.p hi.pinv hsp ho with ⟨hc, hidle⟩ | ⟨hc, hidle⟩ | ⟨k, hk, hkL, hpc⟩ |
        ⟨k, off, hk, hoff⟩ | ⟨k, t, hk, hpc⟩
    · refine Or.inl ⟨by omega, ?_⟩
      obtain ⟨e, p', he, hp'⟩ := Bulk.en_spawn_skip s.p hc hidle
      rcases he with he | he <;> subst he
      · exact Or.inl (by unfold En; simp only [step]; rw [if_pos hph, hp']; exact ⟨_, rfl⟩)
      · exact Or.inr (by unfold En; simp only [step]; rw [if_pos hph, hp']; exact ⟨_, rfl⟩)
    · refine Or.inr (Or.inl ⟨by omega, ?_⟩)
      obtain ⟨p', hp'⟩ := Bulk.en_taskL s.p hi.pinv hc hidle
      unfold En; simp only [step]; rw [if_pos hph, hp']; exact ⟨_, rfl⟩
    · refine Or.inr (Or.inr ⟨k, .task k, by omega, by rw [hpc]; simp, rfl, rfl, ?_⟩)
      obtain ⟨p', hp'⟩ := Bulk.en_task s.p k hk hkL hpc
      unfold En; simp only [step]; rw [if_pos hph, hp']; exact ⟨_, rfl⟩
    · obtain ⟨e, h1, h2, h3⟩ := en_worker s hi hph k off (by omega) (hP k) hoff ho
      refine Or.inr (Or.inr ⟨k, e, by omega, ?_, h1, h2, h3⟩)
      intro hdd; rw [hdd] at hoff; simp [Bulk.offOf] at hoff
    · obtain ⟨e, h1, h2, h3⟩ := en_fin s hi hph k t (by omega) hpc ho
      exact Or.inr (Or.inr ⟨k, e, by omega, by rw [hpc]; simp, h1, h2, h3⟩)

end PikaVerif.BulkC
