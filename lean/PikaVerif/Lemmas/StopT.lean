import PikaVerif.Model.Stop
import PikaVerif.Core.Sum
/-!
# Termination measure for the stop_state model (follow-up C14t)

`mu s` is a natural number that strictly decreases with every accepted event of the model
`PikaVerif.Stop` that is neither a move of the environment (`envEv`: a new operation is invoked,
a thread finishes, a stop_source is copied / dropped, a query) nor a *stutter* (`stutter s e`:
the accepted event leaves the state unchanged — a spin re-load that sees the lock bit, a
spurious CAS failure).  It holds for every state (reachable or not) and both code variants.

The rank of a program counter depends on the lock bit and on the stop-requested bit: while the
lock is held `cas` ranks above `spin` (a failed CAS goes to the spin loop), while it is free
`spin` ranks above `cas` (the re-load goes back to the CAS).  Taking or releasing the lock (and
setting the stop bit) therefore moves the rank of every *other* activity by at most 2; the
acting activity pays for that with `W = 2 n + 1`.  A list element carries the cost `L` of one
round of the request_stop loop (dequeue, `is_removed_` store, callback, finished store, re-lock).
-/
namespace PikaVerif.Stop
open PikaVerif

/-- rank of the lock loop of `k` *after* the lock was taken, minus nothing: what is still to do
    while holding the lock and afterwards -/
def lockedK (W L : Nat) : Kind → Nat
  | .rs => W + 3
  | .relock => W + 3
  | .reg _ => L + W + 3
  | .unreg _ => W + 5

/-- rank of a program counter, given the lock bit and the stop-requested bit of the word -/
def rk (W L : Nat) (held req : Bool) : Pc → Nat
  | .fin => 0
  | .idle => 1
  | .retn _ _ => 2
  | .wait _ => 3
  | .chk _ => 4
  | .post _ _ => 2 * W + 8
  | .body _ _ => 2 * W + 9
  | .exec _ _ => 2 * W + 10
  | .pre _ => 2 * W + 11
  | .locked k => lockedK W L k
  | .cas k b => lockedK W L k + W + (if held then 2 else 1) + (if b = req then 0 else 1)
  | .spin k => lockedK W L k + W + (if held then 1 else 2)
  | .ld k => lockedK W L k + W + 4

def muW (s : St) : Nat := 2 * s.n + 1
def muL (s : St) : Nat := 3 * (2 * s.n + 1) + 10

/-- **the measure** -/
def mu (s : St) : Nat :=
  muL s * s.list.length + sumTo s.n (fun a => rk (muW s) (muL s) s.lock.isSome s.req (s.pc a))

/-- what a newly invoked operation adds at most -/
def invCost (s : St) : Nat := muL s + 2 * muW s + 6

/-- moves of the environment (the program): invoke an operation, finish a thread, copy / drop a
    stop_source, query -/
def envEv : Ev → Bool
  | .inv _ _ | .done _ | .srcInc _ | .srcDec _ | .query _ _ _ => true
  | _ => false

def isInv : Ev → Bool
  | .inv _ _ => true
  | _ => false

/-- **the stutter**: a failed CAS / a spin re-load after which the activity is exactly where it
    was (the whole state is unchanged: `stutter_same`) -/
def stutter (s : St) : Ev → Bool
  | .casFail a lk rq src =>
    match s.pc a with
    | .cas k b => decide ((if s.fixCas then checked k lk rq src else if lk then .spin k else .cas k rq) = .cas k b)
    | _ => false
  | .reload a lk rq src =>
    match s.pc a with
    | .spin k => decide (checked k lk rq src = .spin k)
    | _ => false
  | _ => false

theorem upd_self {α : Type} (f : Nat → α) (a : Nat) : upd f a (f a) = f := by
  funext u; simp only [upd]; split
  · next h => rw [h]
  · rfl

theorem upd_self' {α : Type} (f : Nat → α) (a : Nat) (v : α) (h : v = f a) : upd f a v = f := by
  subst h; exact upd_self f a

/-- the rank of an activity moves by at most 2 when the lock bit / stop bit change -/
theorem rk_other (W L : Nat) (h r h' r' : Bool) (p : Pc) : rk W L h' r' p ≤ rk W L h r p + 2 := by
  cases p <;> simp only [rk] <;> (repeat' split) <;> omega

theorem sumTo_le_add2 (n : Nat) (f f' : Nat → Nat) (h : ∀ b, b < n → f' b ≤ f b + 2) :
    sumTo n f' ≤ sumTo n f + 2 * n := by
  induction n with
  | zero => simp
  | succ k ih =>
    simp only [sumTo_succ]
    have := ih (fun b hb => h b (Nat.lt_succ_of_lt hb))
    have := h k (Nat.lt_succ_self k)
    omega

theorem sumTo_flip (n a : Nat) (f f' : Nat → Nat) (ha : a < n)
    (h : ∀ b, b < n → b ≠ a → f' b ≤ f b + 2) :
    sumTo n f' + f a ≤ sumTo n f + f' a + 2 * (n - 1) := by
  induction n with
  | zero => exact absurd ha (Nat.not_lt_zero _)
  | succ k ih =>
    simp only [sumTo_succ]
    by_cases hk : a = k
    · subst hk
      have := sumTo_le_add2 a f f' (fun b hb => h b (Nat.lt_succ_of_lt hb) (by omega))
      simp only [Nat.add_sub_cancel]
      omega
    · have hlt : a < k := by omega
      have := ih hlt (fun b hb hne => h b (Nat.lt_succ_of_lt hb) hne)
      have := h k (Nat.lt_succ_self k) (fun e => hk e.symm)
      omega

/-- an event that flips the lock bit / sets the stop bit: the acting activity pays `W` -/
theorem mu_lt_flip (n W L : Nat) (pc : Nat → Pc) (h r h' r' : Bool) (len len' a : Nat) (v : Pc)
    (ha : a < n) (hW : W = 2 * n + 1)
    (hd : rk W L h' r' v + L * len' + W ≤ rk W L h r (pc a) + L * len + 2) :
    L * len' + sumTo n (fun b => rk W L h' r' (upd pc a v b)) <
      L * len + sumTo n (fun b => rk W L h r (pc b)) := by
  have := sumTo_flip n a (fun b => rk W L h r (pc b)) (fun b => rk W L h' r' (upd pc a v b)) ha
    (fun b _ hne => by simp only [upd_other _ _ _ _ hne]; exact rk_other W L h r h' r' (pc b))
  simp only [upd_same] at this
  omega

/-- an event that leaves the lock bit and the stop bit alone -/
theorem mu_lt_same (n W L : Nat) (pc : Nat → Pc) (h r : Bool) (len len' a : Nat) (v : Pc)
    (ha : a < n)
    (hd : rk W L h r v + L * len' < rk W L h r (pc a) + L * len) :
    L * len' + sumTo n (fun b => rk W L h r (upd pc a v b)) <
      L * len + sumTo n (fun b => rk W L h r (pc b)) := by
  have := sumTo_upd n (rk W L h r) pc a v ha
  omega

theorem mu_le_env (n W L : Nat) (pc : Nat → Pc) (h r : Bool) (len a C : Nat) (v : Pc)
    (ha : a < n)
    (hd : rk W L h r v ≤ rk W L h r (pc a) + C) :
    L * len + sumTo n (fun b => rk W L h r (upd pc a v b)) ≤
      L * len + sumTo n (fun b => rk W L h r (pc b)) + C := by
  have := sumTo_upd n (rk W L h r) pc a v ha
  omega

/-! ## every event -/

theorem rk_checked_ld (W L : Nat) (hL : 10 ≤ L) (k : Kind) (h r : Bool) (src : Nat) :
    rk W L h r (checked k false r src) < rk W L h r (.ld k) := by
  cases k <;> cases r <;> cases h <;> (by_cases hs : src = 0) <;> simp [checked, rk, lockedK, hs] <;> omega

theorem rk_checked_spin (W L : Nat) (hL : 10 ≤ L) (k : Kind) (h r : Bool) (src : Nat) :
    checked k h r src = .spin k ∨ rk W L h r (checked k h r src) < rk W L h r (.spin k) := by
  cases k <;> cases r <;> cases h <;> (by_cases hs : src = 0) <;> simp [checked, rk, lockedK, hs] <;> omega

theorem rk_checked_cas (W L : Nat) (hL : 10 ≤ L) (k : Kind) (b h r : Bool) (src : Nat) :
    checked k h r src = .cas k b ∨ rk W L h r (checked k h r src) < rk W L h r (.cas k b) := by
  cases k <;> cases r <;> cases h <;> cases b <;> (by_cases hs : src = 0) <;> simp [checked, rk, lockedK, hs] <;> omega

theorem rk_pinned_cas (W L : Nat) (k : Kind) (b h r : Bool) :
    (if h then Pc.spin k else .cas k r) = .cas k b ∨
      rk W L h r (if h then Pc.spin k else .cas k r) < rk W L h r (.cas k b) := by
  cases r <;> cases h <;> cases b <;> simp [rk] <;> omega

theorem mu_load (s s' : St) (a : Nat) (lk rq : Bool) (src : Nat) (h : step s (.load a lk rq src) = some s') : mu s' < mu s := by
  simp only [step] at h
  split at h
  · next hc =>
    obtain ⟨h1, h2, h3, h4⟩ := hc
    split at h
    · next k hk =>
      simp only [Option.some.injEq] at h; subst h
      simp only [mu, muW, muL]
      apply mu_lt_same _ _ _ _ _ _ _ _ _ _ h1
      rw [hk, h3]
      have := rk_checked_ld (2 * s.n + 1) (3 * (2 * s.n + 1) + 10) (by omega) k s.lock.isSome s.req src
      omega
    · simp at h
  · simp at h

theorem mu_reload (s s' : St) (a : Nat) (lk rq : Bool) (src : Nat) (h : step s (.reload a lk rq src) = some s') :
    (stutter s (.reload a lk rq src) = true → s' = s) ∧ (stutter s (.reload a lk rq src) = false → mu s' < mu s) := by
  simp only [step] at h
  split at h
  · next hc =>
    obtain ⟨h1, h2, h3, h4⟩ := hc
    split at h
    · next k hk =>
      simp only [Option.some.injEq] at h; subst h
      simp only [stutter, hk, decide_eq_true_eq, decide_eq_false_iff_not]
      refine ⟨fun he => ?_, fun hne => ?_⟩
      · rw [upd_self' s.pc a _ (he.trans hk.symm)]
      · simp only [mu, muW, muL]
        apply mu_lt_same _ _ _ _ _ _ _ _ _ _ h1
        rw [hk, h3, h2]
        rw [h2, h3] at hne
        have := rk_checked_spin (2 * s.n + 1) (3 * (2 * s.n + 1) + 10) (by omega) k s.lock.isSome s.req src
        rcases this with h | h
        · exact absurd h hne
        · omega
    · simp at h
  · simp at h

theorem mu_casFail (s s' : St) (a : Nat) (lk rq : Bool) (src : Nat) (h : step s (.casFail a lk rq src) = some s') :
    (stutter s (.casFail a lk rq src) = true → s' = s) ∧ (stutter s (.casFail a lk rq src) = false → mu s' < mu s) := by
  simp only [step] at h
  split at h
  · next hc =>
    obtain ⟨h1, h2, h3, h4⟩ := hc
    split at h
    · next k b hk =>
      simp only [Option.some.injEq] at h; subst h
      simp only [stutter, hk, decide_eq_true_eq, decide_eq_false_iff_not]
      refine ⟨fun he => ?_, fun hne => ?_⟩
      · rw [upd_self' s.pc a _ (he.trans hk.symm)]
      · simp only [mu, muW, muL]
        apply mu_lt_same _ _ _ _ _ _ _ _ _ _ h1
        rw [hk]
        rw [h2, h3] at hne ⊢
        cases hf : s.fixCas
        · rw [hf] at hne
          simp only [Bool.false_eq_true, if_false] at hne ⊢
          have := rk_pinned_cas (2 * s.n + 1) (3 * (2 * s.n + 1) + 10) k b s.lock.isSome s.req
          rcases this with h | h
          · exact absurd h hne
          · omega
        · rw [hf] at hne
          simp only [if_true] at hne ⊢
          have := rk_checked_cas (2 * s.n + 1) (3 * (2 * s.n + 1) + 10) (by omega) k b s.lock.isSome s.req src
          rcases this with h | h
          · exact absurd h hne
          · omega
    · simp at h
  · simp at h

macro "mu_same" h:ident : tactic => `(tactic|
  (repeat' split at $h:ident
   all_goals first
    | (exfalso; simp at $h:ident; done)
    | (simp only [Option.some.injEq] at $h:ident; subst $h:ident
       simp only [mu, muW, muL]
       apply mu_lt_same
       · first | assumption | exact (by assumption : _ ∧ _).1
       · simp [rk, lockedK, checked, *] <;> (repeat' split) <;> (try simp [rk, lockedK]) <;> omega)))

macro "mu_flip" h:ident : tactic => `(tactic|
  (repeat' split at $h:ident
   all_goals first
    | (exfalso; simp at $h:ident; done)
    | (simp only [Option.some.injEq] at $h:ident; subst $h:ident
       simp only [mu, muW, muL]
       apply mu_lt_flip
       · first | assumption | exact (by assumption : _ ∧ _).1
       · rfl
       · simp [rk, lockedK, Nat.mul_add, *] <;> omega)))

theorem mu_ret (s s' : St) (a : Nat) (r : Bool) (h : step s (.ret a r) = some s') : mu s' < mu s := by
  simp only [step] at h
  mu_same h

theorem mu_acq (s s' : St) (a : Nat) (h : step s (.acq a) = some s') : mu s' < mu s := by
  simp only [step] at h
  mu_flip h

theorem mu_deq (s s' : St) (a c : Nat) (m : Bool) (h : step s (.deq a c m) = some s') : mu s' < mu s := by
  simp only [step] at h
  split at h
  · next hc =>
    obtain ⟨h1, h2, h3⟩ := hc
    split at h
    · split at h
      · simp only [Option.some.injEq] at h; subst h
        simp only [mu, muW, muL]
        apply mu_lt_flip _ _ _ _ _ _ _ _ _ _ _ _ h1 rfl
        rcases h3 with h3 | h3 <;> simp [rk, lockedK, Nat.mul_add, *] <;> omega
      · simp at h
    · simp at h
  · simp at h

theorem mu_rsDone (s s' : St) (a : Nat) (h : step s (.rsDone a) = some s') : mu s' < mu s := by
  simp only [step] at h
  split at h
  · next hc =>
    obtain ⟨h1, h2, h3, h4⟩ := hc
    simp only [Option.some.injEq] at h; subst h
    simp only [mu, muW, muL]
    apply mu_lt_flip _ _ _ _ _ _ _ _ _ _ _ _ h1 rfl
    rcases h3 with h3 | h3 <;> simp [rk, lockedK, h3] <;> omega
  · simp at h
theorem mu_push (s s' : St) (a c : Nat) (m : Bool) (h : step s (.push a c m) = some s') : mu s' < mu s := by
  simp only [step] at h
  mu_flip h
theorem mu_unlink (s s' : St) (a c : Nat) (m : Bool) (h : step s (.unlink a c m) = some s') : mu s' < mu s := by
  simp only [step] at h
  have hl := Nat.mul_le_mul_left (3 * (2 * s.n) + 3 + 10) (List.length_erase_le (a := c) (l := s.list))
  mu_flip h
theorem mu_preExec (s s' : St) (a c : Nat) (h : step s (.preExec a c) = some s') : mu s' < mu s := by
  simp only [step] at h
  mu_same h
theorem mu_cbBegin (s s' : St) (a c : Nat) (h : step s (.cbBegin a c) = some s') : mu s' < mu s := by
  simp only [step] at h
  mu_same h
theorem mu_cbEnd (s s' : St) (a c : Nat) (h : step s (.cbEnd a c) = some s') : mu s' < mu s := by
  simp only [step] at h
  mu_same h
theorem mu_finStore (s s' : St) (a c : Nat) (r : Bool) (h : step s (.finStore a c r) = some s') : mu s' < mu s := by
  simp only [step] at h
  mu_same h
theorem mu_inFin (s s' : St) (a c : Nat) (h : step s (.inFin a c) = some s') : mu s' < mu s := by
  simp only [step] at h
  mu_same h
theorem mu_selfChk (s s' : St) (a c : Nat) (e p : Bool) (h : step s (.selfChk a c e p) = some s') : mu s' < mu s := by
  simp only [step] at h
  mu_same h
theorem mu_waited (s s' : St) (a c : Nat) (h : step s (.waited a c) = some s') : mu s' < mu s := by
  simp only [step] at h
  mu_same h

theorem mu_inv (s s' : St) (a : Nat) (k : Kind) (h : step s (.inv a k) = some s') : mu s' ≤ mu s + invCost s := by
  simp only [step] at h
  repeat' split at h
  all_goals first
    | (exfalso; simp at h; done)
    | (simp only [Option.some.injEq] at h; subst h
       simp only [mu, muW, muL, invCost]
       apply mu_le_env
       · exact (by assumption : _ ∧ _).1
       · simp [rk, lockedK, *] <;> omega)

theorem mu_done (s s' : St) (a : Nat) (h : step s (.done a) = some s') : mu s' < mu s := by
  simp only [step] at h
  split at h
  · next hc =>
    simp only [Option.some.injEq] at h; subst h
    simp only [mu, muW, muL]
    apply mu_lt_same _ _ _ _ _ _ _ _ _ _ hc.1
    simp [rk, hc.2.2]
  · simp at h

theorem mu_srcInc (s s' : St) (a : Nat) (h : step s (.srcInc a) = some s') : mu s' = mu s := by
  simp only [step] at h
  split at h
  · simp only [Option.some.injEq] at h; subst h; rfl
  · simp at h

theorem mu_srcDec (s s' : St) (a : Nat) (h : step s (.srcDec a) = some s') : mu s' = mu s := by
  simp only [step] at h
  split at h
  · simp only [Option.some.injEq] at h; subst h; rfl
  · simp at h

theorem query_same (s s' : St) (a : Nat) (x y : Bool) (h : step s (.query a x y) = some s') : s' = s := by
  simp only [step] at h
  split at h
  · simp only [Option.some.injEq] at h; exact h.symm
  · simp at h

theorem step_n (s s' : St) (e : Ev) (h : step s e = some s') : s'.n = s.n := by
  cases e <;> simp only [step] at h <;> (repeat' split at h) <;>
    first
      | (exfalso; simp at h; done)
      | (simp only [Option.some.injEq] at h; subst h; rfl)

theorem sumTo_const_one (n : Nat) : sumTo n (fun _ => 1) = n := by
  induction n with
  | zero => rfl
  | succ k ih => simp only [sumTo_succ, ih]

theorem mu_init (n K : Nat) (ident : Nat → Nat) (f1 f2 : Bool) (srcs : Nat) :
    mu (init n K ident f1 f2 srcs) = n := by
  simp only [mu, init, List.length_nil, Nat.mul_zero, Nat.zero_add, rk]
  exact sumTo_const_one n

end PikaVerif.Stop
