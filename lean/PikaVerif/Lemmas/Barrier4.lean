import PikaVerif.Lemmas.Barrier3
/-! Preservation of the barrier invariants by every accepted event. -/
namespace PikaVerif.Barrier
open PikaVerif

theorem mr_zero' (N : Nat) : mr N 0 = N := rfl
attribute [local grind =] mr_zero' mr_succ
attribute [local grind] afterCall isWin isWon isPub inArr inR rem pcOk

set_option hygiene false in
macro "barB_step" t:term : tactic => `(tactic| (
  simp only [step] at h
  have hout := ha.outside
  have hw := win_some_facts hi
  have hnw1 := no_win_of_rem hi
  have hnw2 := no_win_of_inR hi
  obtain ⟨h1,h2,h3,h4,h5,h6,h7,h8,h9,h10,h11,h12⟩ := hi
  repeat' split at h
  all_goals first | (simp at h; done) | skip
  all_goals (
    simp only [Option.some.injEq] at h
    subst h
    have htn : $t < s.n := by grind
    have hA := fun q r => Asum_upd s.n s.pc $t q r htn
    have hR := fun q => Remsum_upd s.n s.pc $t q htn
    have hnw1t := hnw1 $t htn
    have hnw2t := fun k => hnw2 $t k htn
    have hinR : ∀ u c r m, inR r (Pc.try u c r m) = 1 := by intros; simp [inR]
    refine ⟨?_, ?_, ?_, ?_, ?_, ?_, ?_, ?_, ?_, ?_, ?_, ?_⟩ <;> dsimp only
  )
  all_goals first
    | assumption
    | (intro u; grind [upd])
    | grind [upd]))

theorem stepB_inv (s s' : St) (t : Nat) (o : Op) (ha : InvA s) (hi : InvB s) (h : step s (.inv t o) = some s') : InvB s' := by barB_step t
theorem stepB_adj (s s' : St) (t : Nat) (ha : InvA s) (hi : InvB s) (h : step s (.adj t) = some s') : InvB s' := by barB_step t
theorem stepB_load (s s' : St) (t a b : Nat) (ha : InvA s) (hi : InvB s) (h : step s (.load t a b) = some s') : InvB s' := by barB_step t
theorem stepB_start (s s' : St) (t a : Nat) (ha : InvA s) (hi : InvB s) (h : step s (.start t a) = some s') : InvB s' := by barB_step t
theorem stepB_last (s s' : St) (t a b : Nat) (ha : InvA s) (hi : InvB s) (h : step s (.last t a b) = some s') : InvB s' := by barB_step t
theorem stepB_compl (s s' : St) (t : Nat) (ha : InvA s) (hi : InvB s) (h : step s (.compl t) = some s') : InvB s' := by barB_step t
theorem stepB_poll (s s' : St) (t a b : Nat) (ha : InvA s) (hi : InvB s) (h : step s (.poll t a b) = some s') : InvB s' := by barB_step t
theorem stepB_ret (s s' : St) (t : Nat) (ha : InvA s) (hi : InvB s) (h : step s (.ret t) = some s') : InvB s' := by barB_step t
theorem stepB_done (s s' : St) (t : Nat) (ha : InvA s) (hi : InvB s) (h : step s (.done t) = some s') : InvB s' := by barB_step t


theorem wt_old (p k : Nat) : wt p k p = 0 := by
  have h1 := (fullB_ne p).symm; have h2 := (halfB_ne p).symm
  simp [wt, h1, h2]
theorem wt_half (p k : Nat) : wt p k (halfB p) = 1 := by
  have h1 := (fullB_ne_halfB p).symm
  simp [wt, h1]
theorem wt_full (p k : Nat) : wt p k (fullB p) = k := by simp [wt]
theorem isF_old (p : Nat) : isF p p = 0 := by
  have h1 := (fullB_ne p).symm; simp [isF, h1]
theorem isF_half (p : Nat) : isF p (halfB p) = 0 := by
  have h1 := (fullB_ne_halfB p).symm; simp [isF, h1]
theorem isF_full (p : Nat) : isF p (fullB p) = 1 := by simp [isF]

/-- facts about a thread at `bar.try` -/
theorem try_facts {s : St} (hb : InvB s) {t u cur r m : Nat} (ht : t < s.n)
    (heq : s.pc t = .try u cur r m) :
    m = mr s.e0 r ∧ (1 < m → cur ≤ (m + 1) / 2 ∧ nodes s.e0 r = (m + 1) / 2) ∧ s.tok t = s.phase ∧
    s.win = none := by
  have h1 := hb.shape t
  have h2 := hb.tokPhase t
  rw [heq] at h1 h2
  simp only [pcOk, inArr] at h1 h2
  refine ⟨h1.1, ?_, (h2 trivial).1, ?_⟩
  · intro hm; refine ⟨h1.2 hm, ?_⟩
    have := nodes_eq (N := s.e0) (r := r) (by omega); omega
  · rcases no_win_of_inR hb t r ht (by rw [heq]; simp [inR]) with h | h
    · exact h
    · have := (hb.winConv t h).1; rw [heq] at this; simp [isWin, isWon, isPub] at this

theorem cas_half_inv {s : St} (ha : InvA s) (hi : InvB s) {t u cur r m c : Nat} (ht : t < s.n)
    (heq : s.pc t = .try u cur r m) (hm : 1 < m) (hc : c = if cur = (m + 1) / 2 then 0 else cur)
    (hv : s.tk r c = s.tok t) (hnl : ¬ (c = (m + 1) / 2 - 1 ∧ m % 2 = 1)) :
    InvB { s with tk := upd2 s.tk r c (halfB (s.tok t)), pc := upd s.pc t (afterCall (s.aw t) u) } := by
  obtain ⟨hmr, hcur, htok, hwn⟩ := try_facts hi ht heq
  obtain ⟨hcur, hnodes⟩ := hcur hm
  have hcn : c < nodes s.e0 r := by rw [hnodes, hc]; split <;> omega
  have hcap : cap s.e0 r c = 2 := by
    unfold cap; rw [hnodes, ← hmr]; split
    · rename_i h; exact absurd ⟨by omega, h.2⟩ hnl
    · rfl
  rw [htok] at hv ⊢
  have hW := Wsum_upd2 s.e0 s.phase s.tk r c (halfB s.phase) hcn
  have hF := Fsum_upd2 s.e0 s.phase s.tk r c (halfB s.phase) hcn
  have hWne := fun r' => Wsum_upd2_ne s.e0 s.phase s.tk r c (halfB s.phase) r'
  have hFne := fun r' => Fsum_upd2_ne s.e0 s.phase s.tk r c (halfB s.phase) r'
  rw [hv, wt_old, wt_half] at hW
  rw [hv, isF_old, isF_half] at hF
  have hA := fun q r' => Asum_upd s.n s.pc t q r' ht
  have hR := fun q => Remsum_upd s.n s.pc t q ht
  have hout := ha.outside
  obtain ⟨h1,h2,h3,h4,h5,h6,h7,h8,h9,h10,h11,h12⟩ := hi
  refine ⟨?_, ?_, ?_, ?_, ?_, ?_, ?_, ?_, ?_, ?_, ?_, ?_⟩ <;> dsimp only
  all_goals first
    | assumption
    | (intro u; grind [upd])
    | grind [upd]
    | (intro r' c'; grind [upd2_apply])

theorem cas_up1_inv {s : St} (ha : InvA s) (hi : InvB s) {t u cur r m c : Nat} (ht : t < s.n)
    (heq : s.pc t = .try u cur r m) (hm : 1 < m) (hc : c = if cur = (m + 1) / 2 then 0 else cur)
    (hv : s.tk r c = s.tok t) (hl : c = (m + 1) / 2 - 1 ∧ m % 2 = 1) :
    InvB { s with tk := upd2 s.tk r c (fullB (s.tok t)),
                  pc := upd s.pc t (.try u (c / 2) (r + 1) ((m + 1) / 2)) } := by
  obtain ⟨hmr, hcur, htok, hwn⟩ := try_facts hi ht heq
  obtain ⟨hcur, hnodes⟩ := hcur hm
  have hcn : c < nodes s.e0 r := by rw [hnodes, hc]; split <;> omega
  have hcap : cap s.e0 r c = 1 := by
    unfold cap; rw [hnodes, ← hmr]; split
    · rfl
    · rename_i h; exact absurd ⟨by omega, hl.2⟩ h
  rw [htok] at hv ⊢
  have hW := Wsum_upd2 s.e0 s.phase s.tk r c (fullB s.phase) hcn
  have hF := Fsum_upd2 s.e0 s.phase s.tk r c (fullB s.phase) hcn
  have hWne := fun r' => Wsum_upd2_ne s.e0 s.phase s.tk r c (fullB s.phase) r'
  have hFne := fun r' => Fsum_upd2_ne s.e0 s.phase s.tk r c (fullB s.phase) r'
  rw [hv, wt_old, wt_full, hcap] at hW
  rw [hv, isF_old, isF_full] at hF
  have hA := fun q r' => Asum_upd s.n s.pc t q r' ht
  have hR := fun q => Remsum_upd s.n s.pc t q ht
  have hout := ha.outside
  obtain ⟨h1,h2,h3,h4,h5,h6,h7,h8,h9,h10,h11,h12⟩ := hi
  refine ⟨?_, ?_, ?_, ?_, ?_, ?_, ?_, ?_, ?_, ?_, ?_, ?_⟩ <;> dsimp only
  all_goals first
    | assumption
    | (intro u; grind [upd])
    | grind [upd]
    | (intro r' c'; grind [upd2_apply])

theorem try2_facts {s : St} (hb : InvB s) {t u cur r m : Nat} (ht : t < s.n)
    (heq : s.pc t = .try2 u cur r m) :
    m = mr s.e0 r ∧ 1 < m ∧ cur < (m + 1) / 2 ∧ nodes s.e0 r = (m + 1) / 2 ∧ s.tok t = s.phase ∧
    s.win = none := by
  have h1 := hb.shape t
  have h2 := hb.tokPhase t
  rw [heq] at h1 h2
  simp only [pcOk, inArr] at h1 h2
  refine ⟨h1.1, h1.2.1, h1.2.2, ?_, (h2 trivial).1, ?_⟩
  · have := nodes_eq (N := s.e0) (r := r) (by omega); omega
  · rcases no_win_of_inR hb t r ht (by rw [heq]; simp [inR]) with h | h
    · exact h
    · have := (hb.winConv t h).1; rw [heq] at this; simp [isWin, isWon, isPub] at this

theorem cas_up2_inv {s : St} (ha : InvA s) (hi : InvB s) {t u c r m : Nat} (ht : t < s.n)
    (heq : s.pc t = .try2 u c r m) (hv : s.tk r c = halfB (s.tok t)) :
    InvB { s with tk := upd2 s.tk r c (fullB (s.tok t)),
                  pc := upd s.pc t (.try u (c / 2) (r + 1) ((m + 1) / 2)) } := by
  obtain ⟨hmr, hm, hcur, hnodes, htok, hwn⟩ := try2_facts hi ht heq
  have hcn : c < nodes s.e0 r := by omega
  rw [htok] at hv ⊢
  have hcap : cap s.e0 r c = 2 := by
    have h1 := (halfB_ne s.phase); have h2 := (fullB_ne_halfB s.phase).symm
    rcases hi.tix r c hcn with h | h | h
    · rw [hv] at h; exact absurd h h1
    · exact h.2
    · rw [hv] at h; exact absurd h h2
  have hW := Wsum_upd2 s.e0 s.phase s.tk r c (fullB s.phase) hcn
  have hF := Fsum_upd2 s.e0 s.phase s.tk r c (fullB s.phase) hcn
  have hWne := fun r' => Wsum_upd2_ne s.e0 s.phase s.tk r c (fullB s.phase) r'
  have hFne := fun r' => Fsum_upd2_ne s.e0 s.phase s.tk r c (fullB s.phase) r'
  rw [hv, wt_half, wt_full, hcap] at hW
  rw [hv, isF_half, isF_full] at hF
  have hA := fun q r' => Asum_upd s.n s.pc t q r' ht
  have hR := fun q => Remsum_upd s.n s.pc t q ht
  have hout := ha.outside
  obtain ⟨h1,h2,h3,h4,h5,h6,h7,h8,h9,h10,h11,h12⟩ := hi
  refine ⟨?_, ?_, ?_, ?_, ?_, ?_, ?_, ?_, ?_, ?_, ?_, ?_⟩ <;> dsimp only
  all_goals first
    | assumption
    | (intro u; grind [upd])
    | grind [upd]
    | (intro r' c'; grind [upd2_apply])

/-- Moving a thread between program counters that count the same in every sum. -/
theorem pc_swap_inv {s : St} (ha : InvA s) (hi : InvB s) {t : Nat} (ht : t < s.n) (q : Pc)
    (hq : ∀ k, inR k q = inR k (s.pc t)) (hrem : rem q = rem (s.pc t)) (hok : pcOk s.e0 q)
    (harr : inArr q = true → inArr (s.pc t) = true) (hwon : isWon q = false) (hpub : isPub q = false)
    (hwin : isWin (s.pc t) = false) :
    InvB { s with pc := upd s.pc t q } := by
  have hA := fun r' => Asum_upd s.n s.pc t q r' ht
  have hR := Remsum_upd s.n s.pc t q ht
  have hout := ha.outside
  obtain ⟨h1,h2,h3,h4,h5,h6,h7,h8,h9,h10,h11,h12⟩ := hi
  refine ⟨?_, ?_, ?_, ?_, ?_, ?_, ?_, ?_, ?_, ?_, ?_, ?_⟩ <;> dsimp only
  all_goals first
    | assumption
    | (intro u; grind [upd])
    | grind [upd]

theorem stepB_cas (s s' : St) (t a b : Nat) (o : Out) (ha : InvA s) (hi : InvB s)
    (h : step s (.cas t a b o) = some s') : InvB s' := by
  simp only [step] at h
  by_cases htn : t < s.n
  · rw [if_pos htn] at h
    cases hpc : s.pc t <;> simp only [hpc] at h <;> try (simp at h; done)
    rename_i u cur r m
    by_cases hg : 1 < m ∧ b = r ∧ a = (if cur = (m + 1) / 2 then 0 else cur)
    · rw [if_pos hg] at h
      obtain ⟨hm, hb, hc⟩ := hg
      subst hb
      obtain ⟨hmr, hcur, htok, hwn⟩ := try_facts hi htn hpc
      obtain ⟨hcur, hnodes⟩ := hcur hm
      have hca : a < (m + 1) / 2 := by rw [hc]; split <;> omega
      have hmove : InvB { s with pc := upd s.pc t (.try u (a + 1) b m) } := by
        apply pc_swap_inv ha hi htn <;> simp [hpc, inR, rem, pcOk, inArr, isWon, isPub, isWin, hmr]
        omega
      by_cases hl : a = (m + 1) / 2 - 1 ∧ m % 2 = 1
      · rw [if_pos hl] at h
        by_cases hv : s.tk b a = s.tok t
        · rw [if_pos hv] at h
          by_cases ho : o = .up
          · rw [if_pos ho] at h
            simp only [Option.some.injEq] at h; subst h
            exact cas_up1_inv ha hi htn hpc hm hc hv hl
          · rw [if_neg ho] at h; simp at h
        · rw [if_neg hv] at h
          by_cases ho : o = .miss (s.tk b a)
          · rw [if_pos ho] at h
            simp only [Option.some.injEq] at h; subst h; exact hmove
          · rw [if_neg ho] at h; simp at h
      · rw [if_neg hl] at h
        by_cases hv : s.tk b a = s.tok t
        · rw [if_pos hv] at h
          by_cases ho : o = .half
          · rw [if_pos ho] at h
            simp only [Option.some.injEq] at h; subst h
            exact cas_half_inv ha hi htn hpc hm hc hv hl
          · rw [if_neg ho] at h; simp at h
        · rw [if_neg hv] at h
          by_cases hv2 : s.tk b a = halfB (s.tok t)
          · rw [if_pos hv2] at h
            by_cases ho : o = .seen
            · rw [if_pos ho] at h
              simp only [Option.some.injEq] at h; subst h
              apply pc_swap_inv ha hi htn <;> simp [hpc, inR, rem, pcOk, inArr, isWon, isPub, isWin, hmr]
              omega
            · rw [if_neg ho] at h; simp at h
          · rw [if_neg hv2] at h
            by_cases ho : o = .miss (s.tk b a)
            · rw [if_pos ho] at h
              simp only [Option.some.injEq] at h; subst h; exact hmove
            · rw [if_neg ho] at h; simp at h
    · rw [if_neg hg] at h; simp at h
  · rw [if_neg htn] at h; simp at h

theorem stepB_cas2 (s s' : St) (t a b : Nat) (o : Out) (ha : InvA s) (hi : InvB s)
    (h : step s (.cas2 t a b o) = some s') : InvB s' := by
  simp only [step] at h
  by_cases htn : t < s.n
  · rw [if_pos htn] at h
    cases hpc : s.pc t <;> simp only [hpc] at h <;> try (simp at h; done)
    rename_i u cur r m
    by_cases hg : b = r ∧ a = cur
    · rw [if_pos hg] at h
      obtain ⟨hb, hc⟩ := hg
      subst hb; subst hc
      obtain ⟨hmr, hm, hcur, hnodes, htok, hwn⟩ := try2_facts hi htn hpc
      by_cases hv : s.tk b a = halfB (s.tok t)
      · rw [if_pos hv] at h
        by_cases ho : o = .up
        · rw [if_pos ho] at h
          simp only [Option.some.injEq] at h; subst h
          exact cas_up2_inv ha hi htn hpc hv
        · rw [if_neg ho] at h; simp at h
      · rw [if_neg hv] at h
        by_cases ho : o = .miss (s.tk b a)
        · rw [if_pos ho] at h
          simp only [Option.some.injEq] at h; subst h
          apply pc_swap_inv ha hi htn <;> simp [hpc, inR, rem, pcOk, inArr, isWon, isPub, isWin, hmr]
          omega
        · rw [if_neg ho] at h; simp at h
    · rw [if_neg hg] at h; simp at h
  · rw [if_neg htn] at h; simp at h


theorem wt_self (p k : Nat) : wt p k p = 0 := by
  have h1 := (fullB_ne p).symm; have h2 := (halfB_ne p).symm
  simp [wt, h1, h2]
theorem isF_self (p : Nat) : isF p p = 0 := by
  have h1 := (fullB_ne p).symm; simp [isF, h1]

/-- a thread that counts in no sum is outside base.arrive and outside an arriving operation -/
theorem quiet_pc {N : Nat} {p : Pc} (hr : rem p = 0) (hk : ∀ k, inR k p = 0) (hs : pcOk N p) :
    inArr p = false ∧ isWon p = false ∧ isPub p = false ∧ ∀ N', pcOk N' p := by
  cases p <;> simp [inArr, isWon, isPub, pcOk, rem] at *
  case want u => omega
  case arr u => omega
  case «try» u c r m => have := hk r; simp [inR] at this
  case try2 u c r m => have := hk r; simp [inR] at this
  case won u r => have := hk r; simp [inR] at this
  case pub u r => have := hk r; simp [inR] at this

theorem stepB_publish (s s' : St) (t a b : Nat) (ha : InvA s) (hi : InvB s)
    (h : step s (.publish t a b) = some s') : InvB s' := by
  simp only [step] at h
  by_cases hg : t < s.n ∧ a = fullB (s.tok t) ∧ b = s.expected
  · rw [if_pos hg] at h
    obtain ⟨htn, hanp, hbne⟩ := hg
    cases hpc : s.pc t <;> simp only [hpc] at h <;> try (simp at h; done)
    rename_i u r0
    simp only [Option.some.injEq] at h; subst h
    have hwin : s.win = some t := hi.winOk t (by simp [hpc, isWin, isPub])
    obtain ⟨hrem, hinr, hcnt, he0, hfull⟩ := win_some_facts hi t hwin
    have hu : u = 0 := by have := hrem t htn; rw [hpc] at this; simpa [rem] using this
    have htok : s.tok t = s.phase := (hi.tokPhase t (by simp [hpc, inArr])).1
    have hq : ∀ t', t' ≠ t → t' < s.n → _ := fun t' hne ht' =>
      quiet_pc (N := s.e0) (hrem t' ht') (fun k => hinr t' k ht' hne) (hi.shape t')
    have hpcs : ∀ t', (upd s.pc t (afterCall (s.aw t) u) t' = s.pc t' ∧ t' ≠ t) ∨
        (t' = t ∧ (upd s.pc t (afterCall (s.aw t) u) t' = .polling ∨ upd s.pc t (afterCall (s.aw t) u) t' = .retn)) := by
      intro t'
      by_cases h : t' = t
      · right; subst h; subst hu; refine ⟨rfl, ?_⟩; cases s.aw t' <;> simp [upd, afterCall]
      · left; exact ⟨by simp [upd, h], h⟩
    -- every thread is quiet in the new state
    have hquiet : ∀ t', rem (upd s.pc t (afterCall (s.aw t) u) t') = 0 ∧
        (∀ k, inR k (upd s.pc t (afterCall (s.aw t) u) t') = 0) ∧
        inArr (upd s.pc t (afterCall (s.aw t) u) t') = false ∧
        isWon (upd s.pc t (afterCall (s.aw t) u) t') = false ∧
        isPub (upd s.pc t (afterCall (s.aw t) u) t') = false ∧
        ∀ N', pcOk N' (upd s.pc t (afterCall (s.aw t) u) t') := by
      intro t'
      rcases hpcs t' with ⟨he, hne⟩ | ⟨_, he | he⟩
      · rw [he]
        by_cases ht' : t' < s.n
        · obtain ⟨q1, q2, q3, q4⟩ := hq t' hne ht'
          exact ⟨hrem t' ht', fun k => hinr t' k ht' hne, q1, q2, q3, q4⟩
        · have := ha.outside t' (by omega); rw [this]; simp [rem, inR, inArr, isWon, isPub, pcOk]
      · rw [he]; simp [rem, inR, inArr, isWon, isPub, pcOk]
      · rw [he]; simp [rem, inR, inArr, isWon, isPub, pcOk]
    have hA0 : ∀ k, Asum s.n (upd s.pc t (afterCall (s.aw t) u)) k = 0 := by
      intro k; unfold Asum; apply sumTo_eq_zero; intro t' _; exact (hquiet t').2.1 k
    have hR0 : Remsum s.n (upd s.pc t (afterCall (s.aw t) u)) = 0 := by
      unfold Remsum; apply sumTo_eq_zero; intro t' _; exact (hquiet t').1
    have hle := ha.expLe
    have hfull' : ∀ k c, c < nodes s.expected k → s.tk k c = fullB s.phase := fun k c hc =>
      hfull k c (Nat.lt_of_lt_of_le hc (nodes_mono hle k))
    have hW0 : ∀ k, Wsum s.expected (fullB s.phase) s.tk k = 0 := by
      intro k; unfold Wsum; apply sumTo_eq_zero; intro c hc; rw [hfull' k c hc]; exact wt_self _ _
    have hF0 : ∀ k, Fsum s.expected (fullB s.phase) s.tk k = 0 := by
      intro k; unfold Fsum; apply sumTo_eq_zero; intro c hc; rw [hfull' k c hc]; exact isF_self _
    obtain ⟨hc1, _, hc3⟩ := hi.winConv t hwin
    have hpub := hi.pubF t (by simp [hpc, isPub])
    rw [htok] at hanp; subst hanp
    refine ⟨?_, ?_, ?_, ?_, ?_, ?_, ?_, ?_, ?_, ?_, ?_, ?_⟩ <;> dsimp only
    · rw [hi.phaseEq]; exact (phase_succ s.ph).symm
    · intro t'; have := hi.tokIdxOk t'; exact ⟨this.1, by omega⟩
    · intro t'; exact (hquiet t').2.2.2.2.2 _
    · intro t' h; rw [(hquiet t').2.2.1] at h; simp at h
    · intro t' h; simp [isWin, (hquiet t').2.2.2.1, (hquiet t').2.2.2.2.1] at h
    · intro t' h; simp at h
    · intro _; exact ⟨rfl, hpub.2, hpub.1, hc3⟩
    · intro t' h; rw [(hquiet t').2.2.2.1] at h; simp at h
    · intro t' h; rw [(hquiet t').2.2.2.2.1] at h; simp at h
    · rw [hW0 0, hA0 0, hR0]; omega
    · intro k; rw [hW0 (k + 1), hA0 (k + 1), hF0 k]
    · intro k c hc; exact Or.inl (hfull' k c hc)
  · rw [if_neg hg] at h; simp at h


theorem stepB (s s' : St) (e : Ev) (ha : InvA s) (hi : InvB s) (h : step s e = some s') : InvB s' := by
  cases e with
  | inv t o => exact stepB_inv s s' t o ha hi h
  | adj t => exact stepB_adj s s' t ha hi h
  | load t a b => exact stepB_load s s' t a b ha hi h
  | start t a => exact stepB_start s s' t a ha hi h
  | cas t a b o => exact stepB_cas s s' t a b o ha hi h
  | cas2 t a b o => exact stepB_cas2 s s' t a b o ha hi h
  | last t a b => exact stepB_last s s' t a b ha hi h
  | compl t => exact stepB_compl s s' t ha hi h
  | publish t a b => exact stepB_publish s s' t a b ha hi h
  | poll t a b => exact stepB_poll s s' t a b ha hi h
  | ret t => exact stepB_ret s s' t ha hi h
  | done t => exact stepB_done s s' t ha hi h

/-- Both invariant groups hold after every accepted log. -/
theorem inv_of_accepted {n N : Nat} {log : List Ev} {s : St}
    (h : runLog step (init n N) log = some s) : InvA s ∧ InvB s :=
  inv_of_runLog (fun s => InvA s ∧ InvB s)
    (fun s e s' hi hs => ⟨stepA s s' e hi.1 hs, stepB s s' e hi.1 hi.2 hs⟩)
    ⟨invA_init n N, invB_init n N⟩ h

end PikaVerif.Barrier
