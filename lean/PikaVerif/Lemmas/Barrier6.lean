import PikaVerif.Lemmas.Barrier5
/-! Third invariant: the drops of a phase never exceed its expected count (so the signed
    `expected += expected_adjustment` of the code never goes negative and the model's natural-number
    subtraction is exact). -/
namespace PikaVerif.Barrier
open PikaVerif

def dp : Pc → Nat
  | .wantDrop => 1
  | _ => 0
def DPsum (n : Nat) (pc : Nat → Pc) : Nat := sumTo n (fun t => dp (pc t))

structure InvC (s : St) : Prop where
  dropB : s.drops + DPsum s.n s.pc + s.count ≤ s.e0

theorem invC_init (n N : Nat) : InvC (init n N) := by
  refine ⟨?_⟩; simp [init, DPsum, dp, sumTo_eq_zero]

theorem DPsum_upd (n : Nat) (pc : Nat → Pc) (t : Nat) (q : Pc) (h : t < n) :
    DPsum n (upd pc t q) + dp (pc t) = DPsum n pc + dp q :=
  sumTo_upd n dp pc t q h

theorem dp_le_rem (p : Pc) : dp p ≤ rem p := by cases p <;> simp [dp, rem]

attribute [local grind] afterCall dp

set_option hygiene false in
macro "barC_step" t:term : tactic => `(tactic| (
  simp only [step] at h
  obtain ⟨h1⟩ := hc
  repeat' split at h
  all_goals first | (simp at h; done) | skip
  all_goals (
    simp only [Option.some.injEq] at h
    subst h
    have htn : $t < s.n := by grind
    have hD := fun q => DPsum_upd s.n s.pc $t q htn
    refine ⟨?_⟩ <;> dsimp only
  )
  all_goals first
    | assumption
    | grind [upd]))

theorem stepC_inv (s s' : St) (t : Nat) (o : Op) (hc : InvC s) (h : step s (.inv t o) = some s') : InvC s' := by barC_step t
theorem stepC_adj (s s' : St) (t : Nat) (hc : InvC s) (h : step s (.adj t) = some s') : InvC s' := by barC_step t
theorem stepC_load (s s' : St) (t a b : Nat) (hc : InvC s) (h : step s (.load t a b) = some s') : InvC s' := by barC_step t
theorem stepC_start (s s' : St) (t a : Nat) (hc : InvC s) (h : step s (.start t a) = some s') : InvC s' := by barC_step t
theorem stepC_cas (s s' : St) (t a b : Nat) (o : Out) (hc : InvC s) (h : step s (.cas t a b o) = some s') : InvC s' := by barC_step t
theorem stepC_cas2 (s s' : St) (t a b : Nat) (o : Out) (hc : InvC s) (h : step s (.cas2 t a b o) = some s') : InvC s' := by barC_step t
theorem stepC_last (s s' : St) (t a b : Nat) (hc : InvC s) (h : step s (.last t a b) = some s') : InvC s' := by barC_step t
theorem stepC_compl (s s' : St) (t : Nat) (hc : InvC s) (h : step s (.compl t) = some s') : InvC s' := by barC_step t
theorem stepC_poll (s s' : St) (t a b : Nat) (hc : InvC s) (h : step s (.poll t a b) = some s') : InvC s' := by barC_step t
theorem stepC_ret (s s' : St) (t : Nat) (hc : InvC s) (h : step s (.ret t) = some s') : InvC s' := by barC_step t
theorem stepC_done (s s' : St) (t : Nat) (hc : InvC s) (h : step s (.done t) = some s') : InvC s' := by barC_step t

theorem stepC_publish (s s' : St) (t a b : Nat) (ha : InvA s) (hb : InvB s)
    (h : step s (.publish t a b) = some s') : InvC s' := by
  simp only [step] at h
  by_cases hg : t < s.n ∧ a = fullB (s.tok t) ∧ b = s.expected
  · rw [if_pos hg] at h
    obtain ⟨htn, _, _⟩ := hg
    cases hpc : s.pc t <;> simp only [hpc] at h <;> try (simp at h; done)
    rename_i u r0
    simp only [Option.some.injEq] at h; subst h
    have hwin : s.win = some t := hb.winOk t (by simp [hpc, isWin, isPub])
    obtain ⟨hrem, _, _, _, _⟩ := win_some_facts hb t hwin
    refine ⟨?_⟩; dsimp only
    have : DPsum s.n (upd s.pc t (afterCall (s.aw t) u)) = 0 := by
      unfold DPsum; apply sumTo_eq_zero; intro t' ht'
      by_cases he : t' = t
      · subst he; simp only [upd_same]; unfold afterCall; cases s.aw t' <;> split <;> simp [dp]
      · rw [upd_other _ _ _ _ he]
        have := dp_le_rem (s.pc t'); have := hrem t' ht'; omega
    omega
  · rw [if_neg hg] at h; simp at h

theorem stepC (s s' : St) (e : Ev) (ha : InvA s) (hb : InvB s) (hc : InvC s) (h : step s e = some s') :
    InvC s' := by
  cases e with
  | inv t o => exact stepC_inv s s' t o hc h
  | adj t => exact stepC_adj s s' t hc h
  | load t a b => exact stepC_load s s' t a b hc h
  | start t a => exact stepC_start s s' t a hc h
  | cas t a b o => exact stepC_cas s s' t a b o hc h
  | cas2 t a b o => exact stepC_cas2 s s' t a b o hc h
  | last t a b => exact stepC_last s s' t a b hc h
  | compl t => exact stepC_compl s s' t hc h
  | publish t a b => exact stepC_publish s s' t a b ha hb h
  | poll t a b => exact stepC_poll s s' t a b hc h
  | ret t => exact stepC_ret s s' t hc h
  | done t => exact stepC_done s s' t hc h

theorem invC_of_accepted {n N : Nat} {log : List Ev} {s : St}
    (h : runLog step (init n N) log = some s) : InvC s :=
  (inv_of_runLog (fun s => (InvA s ∧ InvB s) ∧ InvC s)
    (fun s e s' hi hs => ⟨⟨stepA s s' e hi.1.1 hs, stepB s s' e hi.1.1 hi.1.2 hs⟩,
      stepC s s' e hi.1.1 hi.1.2 hi.2 hs⟩)
    ⟨⟨invA_init n N, invB_init n N⟩, invC_init n N⟩ h).2

end PikaVerif.Barrier
