import PikaVerif.Lemmas.BarrierT
/-! Simulation of the coarse barrier model by the fine one, event by event. -/
namespace PikaVerif.BarrierT
open PikaVerif PikaVerif.Barrier

/-! ## Framed coarse events commute with the abstraction -/

theorem frame (c : Barrier.St) (e : Barrier.Ev) (x y : Nat) (hf : framed e = true) :
    Barrier.step { c with expected := x, adj := y } e =
      (Barrier.step c e).map (fun c' => { c' with expected := x, adj := y }) := by
  cases e <;> simp [framed] at hf <;> simp only [Barrier.step] <;>
    (repeat' split) <;> simp_all

theorem frame_keeps {c c' : Barrier.St} {e : Barrier.Ev} (hf : framed e = true)
    (h : Barrier.step c e = some c') :
    c'.win = c.win ∧ c'.expected = c.expected ∧ c'.adj = c.adj ∧ c'.e0 = c.e0 ∧ c'.drops = c.drops := by
  cases e <;> simp [framed] at hf <;> simp only [Barrier.step] at h <;>
    (repeat' split at h) <;>
    first | (simp at h; done) | (simp only [Option.some.injEq] at h; subst h; simp)

/-- A thread inside the completion step (coarse pc `.pub`) is moved only by the phase store. -/
theorem pub_stays {c c' : Barrier.St} {e : Barrier.Ev} (h : Barrier.step c e = some c')
    (hne : ∀ a b d, e ≠ .publish a b d) (t : Nat) (hp : isPub (c.pc t) = true) :
    c'.pc t = c.pc t := by
  cases e <;> simp only [Barrier.step] at h <;> (repeat' split at h) <;>
    first
    | (simp at h; done)
    | (exfalso; exact hne _ _ _ rfl)
    | (simp only [Option.some.injEq] at h; subst h; dsimp only
       first
       | rfl
       | (simp only [upd]; split <;> first | rfl | (rename_i he; subst he; simp_all [isPub])))

end PikaVerif.BarrierT
