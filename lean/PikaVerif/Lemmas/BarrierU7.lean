import PikaVerif.Lemmas.BarrierU6
/-! C09u, coarse barrier: explicit bounds for the program classes, all-`fin` states are maximal,
    a concrete 130-phase run. -/
namespace PikaVerif.Barrier
open PikaVerif

theorem phi_pinit (B n N : Nat) (prog : Nat → List Op) :
    phi B (pinit n N prog) = n + sumTo n (fun t => progCost B (prog t)) := by
  simp only [phi, pinit, mu, init]
  have h1 : sumTo n (fun _ => rank B Pc.idle) = n := by
    rw [sumTo_const]; simp [rank]
  rw [h1]

theorem progCost_append (B : Nat) (l₁ l₂ : List Op) : progCost B (l₁ ++ l₂) = progCost B l₁ + progCost B l₂ := by
  induction l₁ with
  | nil => simp [progCost]
  | cons o l ih => simp only [List.cons_append, progCost, ih]; omega

theorem progCost_aw (B P : Nat) : progCost B (List.replicate P .aw) = P * (3 * B + 12) := by
  induction P with
  | zero => simp [progCost]
  | succ k ih =>
    simp only [List.replicate_succ, progCost, ih, opRank, cc, Nat.succ_mul]; omega

/-- the program class with drops: `P` times `arrive_and_wait`, then `arrive_and_drop` for the
    threads selected by `d` -/
def awdProg (P : Nat) (d : Nat → Bool) : Nat → List Op :=
  fun t => List.replicate P .aw ++ (if d t then [.drop] else [])

theorem progCost_awd (B P : Nat) (d : Nat → Bool) (t : Nat) :
    progCost B (awdProg P d t) ≤ P * (3 * B + 12) + (3 * B + 13) := by
  simp only [awdProg, progCost_append, progCost_aw]
  split <;> simp [progCost, opRank, cc]

/-- explicit bound for `N` threads × `P` `arrive_and_wait` -/
def boundAw (N P : Nat) : Nat := N * (P * (3 * N + 12)) + N
/-- explicit bound for `N` threads × (`P` `arrive_and_wait` + optional `arrive_and_drop`) -/
def boundAwd (N P : Nat) : Nat := N * (P * (3 * N + 12) + (3 * N + 13)) + N

theorem phi_aw (N P : Nat) : phi N (pinit N N (awProg P)) = boundAw N P := by
  rw [phi_pinit]
  simp only [awProg, progCost_aw, sumTo_const, boundAw]; omega

theorem phi_awd (N P : Nat) (d : Nat → Bool) : phi N (pinit N N (awdProg P d)) ≤ boundAwd N P := by
  rw [phi_pinit]
  have := sumTo_le_of_le (n := N) (f := fun t => progCost N (awdProg P d t))
    (g := fun _ => P * (3 * N + 12) + (3 * N + 13)) (fun t _ => progCost_awd N P d t)
  rw [sumTo_const] at this
  simp only [boundAwd]; omega

/-- number of events of a log that are neither stutters nor misses -/
def progress : List Ev → Nat
  | [] => 0
  | e :: l => (if isStutter e || isMiss e then 0 else 1) + progress l

theorem length_split (l : List Ev) : l.length = progress l + stutters l + misses l := by
  induction l with
  | nil => simp [progress, stutters, misses]
  | cons e es ih =>
    simp only [List.length_cons, progress, stutters, misses, ih]
    have : ¬ (isStutter e = true ∧ isMiss e = true) := by
      cases e <;> simp [isStutter, isMiss]
    cases h1 : isStutter e <;> cases h2 : isMiss e <;> simp_all <;> omega

/-- every accepted event is the move of a thread that has not ended -/
theorem step_thread (s s' : St) (e : Ev) (h : step s e = some s') : ∃ t, t < s.n ∧ s.pc t ≠ .fin := by
  cases e <;> simp only [step] at h
  case inv t o => exact ⟨t, by grind, by grind⟩
  case adj t => exact ⟨t, by grind, by grind⟩
  case load t a b => exact ⟨t, by grind, by grind⟩
  case start t a => exact ⟨t, by grind, by grind⟩
  case cas t a b o => exact ⟨t, by grind, by grind⟩
  case cas2 t a b o => exact ⟨t, by grind, by grind⟩
  case last t a b => exact ⟨t, by grind, by grind⟩
  case compl t => exact ⟨t, by grind, by grind⟩
  case publish t a b => exact ⟨t, by grind, by grind⟩
  case poll t a b => exact ⟨t, by grind, by grind⟩
  case ret t => exact ⟨t, by grind, by grind⟩
  case done t => exact ⟨t, by grind, by grind⟩

/-- a state in which every thread has ended accepts no event at all -/
theorem maximal_of_all_fin (p : PSt) (h : ∀ t, t < p.s.n → p.s.pc t = .fin) : Maximal p := by
  intro e p' hp
  obtain ⟨t, ht, hne⟩ := step_thread _ _ e (pstep_step p p' e hp)
  exact absurd (h t ht) hne

end PikaVerif.Barrier
