import PikaVerif.Lemmas.Once
/-! (part a: definitions, macro) Second group of invariants of the event / call_once model: the flag, the status word,
    the callable, wake-ups owed. -/
namespace PikaVerif.Once
open PikaVerif

def isOnce : Ctx → Bool
  | .once _ => true
  | .top => false

/-- Needs the result "thread has seen the flag true" -/
def needsSet : Pc → Op → Bool
  | .wPass _, _ => true
  | .retn _, o => decide (o = .wait)
  | _, _ => false

/-- Inside the winner's section of `call_once` (between the CAS and the status store). -/
def runW : Pc → Nat
  | .cReset _ | .cBody _ | .cRan _ => 1
  | _ => 0

/-- A non-throwing callable has been entered and its completion is not yet recorded. -/
def ranOkW : Pc → Nat
  | .cRan thr => b2n (!thr)
  | _ => 0

/-- Stored `true`, `notify_all` still owed. -/
def setW : Pc → Nat
  | .sLockW _ | .sLocked _ => 1
  | _ => 0

/-- Winner of the CAS that still owes the store of `true` into the event flag. -/
def owesSetW : Pc → Nat
  | .cReset _ | .cBody _ | .cRan _ => 1
  | .sWant c => b2n (isOnce c)
  | _ => 0

/-- Program counters of `call_once` reached only after `complete` was stored / observed. -/
def needsComplete : Pc → Op → Bool
  | .sWant c, _ | .sLockW c, _ | .sLocked c, _ | .sRel c, _ => decide (c = .once false)
  | .retn r, o => decide (r = 0) && isCall o
  | _, _ => false

/-- Waiting on the event from inside `call_once` (the CAS was lost). -/
def onceWaiter : Pc → Bool
  | .wWant c | .wLockW c | .wLocked c | .wMustEnq c | .enq c | .unl c _ | .susp c _ | .wokeNL c _ | .relk c _
  | .wPass c => isOnce c
  | _ => false

def rsum (s : St) : Nat := sumTo s.n (fun t => runW (s.pc t))
def ksum (s : St) : Nat := sumTo s.n (fun t => ranOkW (s.pc t))
def ssum (s : St) : Nat := sumTo s.n (fun t => setW (s.pc t))
def osum (s : St) : Nat := sumTo s.n (fun t => owesSetW (s.pc t))

structure InvP (s : St) : Prop where
  flagSets : s.flag = true → 0 < s.sets
  passSets : ∀ t, needsSet (s.pc t) (s.curOp t) = true → 0 < s.sets
  runOne : rsum s = if s.status = .running then 1 else 0
  compl : s.completions = if s.status = .complete then 1 else 0
  okRunsEq : s.okRuns = s.completions + ksum s
  winsPos : s.status ≠ .zero → 0 < s.wins
  waiterWins : ∀ t, onceWaiter (s.pc t) = true → 0 < s.wins
  complete : ∀ t, needsComplete (s.pc t) (s.curOp t) = true → s.status = .complete
  flagQ : s.flag = true → s.queue ≠ [] → 0 < ssum s
  onceFlag : s.flag = false → s.topResets = 0 → 0 < s.wins → 0 < osum s
  sticky : s.resets = 0 → 0 < s.sets → s.flag = true
  excOk : ∀ t, s.pc t = .retn 2 → s.curOp t = .call true

theorem invP_init (n : Nat) : InvP (init n) := by
  refine ⟨?_, ?_, ?_, ?_, ?_, ?_, ?_, ?_, ?_, ?_, ?_, ?_⟩ <;>
    simp [init, needsSet, needsComplete, onceWaiter, rsum, ksum, runW, ranOkW]
  · exact sumTo_eq_zero (fun _ _ => rfl)
  · exact (sumTo_eq_zero (fun _ _ => rfl)).symm

attribute [local grind] holds inQ b2n tokOf pcOpOk ctxOk isCall wDone sDone entry popd
  isOnce needsSet runW ranOkW setW owesSetW needsComplete onceWaiter

set_option hygiene false in
macro "once_stepP" t:term : tactic => `(tactic| (
  simp only [step] at h
  try unfold entry at h
  try unfold wDone at h
  try unfold sDone at h
  obtain ⟨h1,h2,h3,h4,h5,h6,h7,h8,h9,h10,h11,h12⟩ := hi
  have hop := hA.opOk
  have hlk := hA.lockHolder
  split at h
  case isFalse => simp at h
  rename_i hg
  have htn : $t < s.n := by grind
  have hleR := le_sumTo (f := fun u => runW (s.pc u)) htn
  have hleK := le_sumTo (f := fun u => ranOkW (s.pc u)) htn
  have hleS := le_sumTo (f := fun u => setW (s.pc u)) htn
  have hleO := le_sumTo (f := fun u => owesSetW (s.pc u)) htn
  simp only [rsum, ksum, ssum, osum] at h3 h5 h9 h10
  repeat' split at h
  all_goals first | (simp at h; done) | skip
  all_goals (
    simp only [Option.some.injEq] at h
    subst h
    refine ⟨?_, ?_, ?_, ?_, ?_, ?_, ?_, ?_, ?_, ?_, ?_, ?_⟩ <;> dsimp only [rsum, ksum, ssum, osum]
  )
  all_goals first
    | assumption
    | (intro u; grind [upd])
    | (rw [sumTo_upd_eq _ _ _ _ _ htn]; grind)
    | grind [upd]))

/-- A waiter that has read the loop condition `false` and is about to enqueue while the flag has
    meanwhile become `true` is owed a `notify_all` (the setter that stored `true` has not yet
    taken the lock, which the waiter holds). -/
structure InvM (s : St) : Prop where
  mustEnqOk : ∀ t c, s.pc t = .wMustEnq c → s.flag = true → 0 < ssum s

theorem invM_init (n : Nat) : InvM (init n) := by
  refine ⟨?_⟩; simp [init]

set_option hygiene false in
macro "once_stepM" t:term : tactic => `(tactic| (
  simp only [step] at h
  try unfold entry at h
  try unfold wDone at h
  try unfold sDone at h
  obtain ⟨h1⟩ := hi
  have hlk := hA.lockHolder
  split at h
  case isFalse => simp at h
  rename_i hg
  have htn : $t < s.n := by grind
  have hleS := le_sumTo (f := fun u => setW (s.pc u)) htn
  simp only [ssum] at h1
  repeat' split at h
  all_goals first | (simp at h; done) | skip
  all_goals (
    simp only [Option.some.injEq] at h
    subst h
    refine ⟨?_⟩ <;> dsimp only [ssum]
  )
  all_goals first
    | assumption
    | (intro u c; grind [upd])
    | (rw [sumTo_upd_eq _ _ _ _ _ htn]; intro u c; grind [upd])
    | grind [upd]))

end PikaVerif.Once
