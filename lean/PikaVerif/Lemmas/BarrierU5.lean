import PikaVerif.Lemmas.BarrierU4
/-! C09u, coarse barrier: a phase whose arrivals are all in cannot be without a last arriver;
    `fin` threads have empty programs; the bundle of invariants along program runs. -/
namespace PikaVerif.Barrier
open PikaVerif

theorem sumTo_eq_of_le {n : Nat} {f g : Nat → Nat} (h : ∀ c, c < n → f c ≤ g c)
    (hs : sumTo n g ≤ sumTo n f) : ∀ c, c < n → f c = g c := by
  induction n with
  | zero => intro c hc; exact absurd hc (Nat.not_lt_zero _)
  | succ k ih =>
    simp only [sumTo_succ] at hs
    have h1 := sumTo_le_of_le (fun c hc => h c (Nat.lt_succ_of_lt hc))
    have h2 := h k (Nat.lt_succ_self k)
    intro c hc
    by_cases hk : c = k
    · subst hk; omega
    · exact ih (fun c hc => h c (Nat.lt_succ_of_lt hc)) (by omega) c (by omega)

/-- **All arrivals of the phase are in, nobody is inside `base.arrive`: impossible.**  The last
    arrival of a phase always produces a last arriver (`won`/`pub`), so a state in which the
    phase's count is used up and every thread is outside the arriving code does not exist. -/
theorem tree_not_stuck {s : St} (hb : InvB s) (hA : ∀ r, Asum s.n s.pc r = 0)
    (hR : Remsum s.n s.pc = 0) (hc : s.count = 0) (he : 1 ≤ s.e0) : False := by
  have key : ∀ r, Wsum s.e0 s.phase s.tk r = mr s.e0 r := by
    intro r
    induction r with
    | zero => have := hb.c0; have := hA 0; simp only [mr]; omega
    | succ k ih =>
      have hpos := mr_pos he k
      by_cases hm : 1 < mr s.e0 k
      · have hcap := sumTo_cap hm
        have hle : ∀ c, c < nodes s.e0 k → wt s.phase (cap s.e0 k c) (s.tk k c) ≤ cap s.e0 k c := by
          intro c _
          have := cap_pos s.e0 k c
          unfold wt; split
          · omega
          · split <;> omega
        have heq := sumTo_eq_of_le hle (by unfold Wsum at ih; omega)
        have hfull : ∀ c, c < nodes s.e0 k → s.tk k c = fullB s.phase := by
          intro c hc
          have h1 := heq c hc
          have := cap_pos s.e0 k c
          rcases hb.tix k c hc with h | h | h
          · rw [h, wt_old] at h1; omega
          · rw [h.1, wt_half, h.2] at h1; omega
          · exact h
        have hF : Fsum s.e0 s.phase s.tk k = nodes s.e0 k := by
          unfold Fsum
          rw [sumTo_congr (g := fun _ => 1) (fun c hc => by simp [isF, hfull c hc]), sumTo_const]; omega
        have := hb.cr k
        have := hA (k + 1)
        rw [mr_succ, ← nodes_eq hm]; omega
      · exfalso
        have hn : nodes s.e0 k = 0 := nodes_top (by omega)
        unfold Wsum at ih; rw [hn] at ih; simp at ih; omega
  have h1 := key s.e0
  have h2 := mr_top s.e0
  have h3 := mr_pos he s.e0
  have hn : nodes s.e0 s.e0 = 0 := nodes_top h2
  unfold Wsum at h1; rw [hn] at h1; simp at h1; omega

/-- only `done` creates a `fin` -/
theorem step_fin (s s' : St) (e : Ev) (hs : step s e = some s') (hd : ∀ t, e ≠ .done t) :
    ∀ u, s'.pc u = .fin → s.pc u = .fin := by
  intro u
  cases e
  case done t => exact absurd rfl (hd t)
  all_goals
    simp only [step] at hs <;> (repeat' split at hs) <;>
    first
    | (simp at hs; done)
    | (simp only [Option.some.injEq] at hs; subst hs; grind [upd, afterCall])

/-- a finished thread has no operation left -/
def FinOk (p : PSt) : Prop := ∀ t, p.s.pc t = .fin → p.prog t = []

theorem finOk_step (p p' : PSt) (e : Ev) (hf : FinOk p) (h : pstep p e = some p') : FinOk p' := by
  have hs := pstep_step p p' e h
  intro u hu
  by_cases hd : ∃ t, e = .done t
  · obtain ⟨t, rfl⟩ := hd
    have hp := pstep_prog p p' _ (by simp [isInv]) h
    have h0 := pstep_done p p' t h
    rw [hp]
    by_cases hut : u = t
    · subst hut; exact h0
    · apply hf u
      simp only [step] at hs; split at hs
      · simp only [Option.some.injEq] at hs; rw [← hs] at hu; simpa [upd, hut] using hu
      · simp at hs
  · have hd' : ∀ t, e ≠ .done t := fun t he => hd ⟨t, he⟩
    have hfin := step_fin _ _ e hs hd' u hu
    by_cases hinv : isInv e = true
    · cases e <;> simp [isInv] at hinv
      rename_i t o
      obtain ⟨rest, hp, hp', htn⟩ := pstep_inv p p' t o h
      rw [hp']
      have hut : u ≠ t := by
        intro he; subst he
        simp only [step] at hs; split at hs
        · rename_i hg; rw [hg.2] at hfin; simp at hfin
        · simp at hs
      simp only [upd_other _ _ _ _ hut]; exact hf u hfin
    · rw [pstep_prog p p' e (by simpa using hinv) h]; exact hf u hfin

/-- the invariants that hold along every run of an `arrive_and_wait` program -/
structure AllU (N P : Nat) (p : PSt) : Prop where
  a : InvA p.s
  b : InvB p.s
  u : InvU N P p.s p.prog
  f : FinOk p

theorem allU_step (N P : Nat) (p p' : PSt) (e : Ev) (hi : AllU N P p) (h : pstep p e = some p') :
    AllU N P p' := by
  have hs := pstep_step p p' e h
  refine ⟨stepA _ _ e hi.a hs, stepB _ _ e hi.a hi.b hs, ?_, finOk_step p p' e hi.f h⟩
  cases e
  case inv t o =>
    obtain ⟨rest, hp, hp', _⟩ := pstep_inv p p' t o h
    rw [hp']; exact stepU_inv N P _ _ _ t o rest hi.u hp hs
  all_goals rw [pstep_prog p p' _ (by simp [isInv]) h]
  case adj t => exact stepU_adj N P _ _ _ t hi.b hi.u hs
  case load t a b => exact stepU_load N P _ _ _ t a b hi.b hi.u hs
  case start t a => exact stepU_start N P _ _ _ t a hi.b hi.u hs
  case cas t a b o => exact stepU_cas N P _ _ _ t a b o hi.b hi.u hs
  case cas2 t a b o => exact stepU_cas2 N P _ _ _ t a b o hi.b hi.u hs
  case last t a b => exact stepU_last N P _ _ _ t a b hi.b hi.u hs
  case compl t => exact stepU_compl N P _ _ _ t hi.b hi.u hs
  case publish t a b => exact stepU_publish N P _ _ _ t a b hi.b hi.u hs
  case poll t a b => exact stepU_poll N P _ _ _ t a b hi.b hi.u hs
  case ret t => exact stepU_ret N P _ _ _ t hi.b hi.u hs
  case done t => exact stepU_done N P _ _ _ t hi.b hi.u hs

/-- the program: every thread does `P` times `arrive_and_wait` -/
def awProg (P : Nat) : Nat → List Op := fun _ => List.replicate P .aw

theorem allU_init (N P : Nat) : AllU N P (pinit N N (awProg P)) := by
  refine ⟨invA_init N N, invB_init N N, ⟨rfl, ⟨rfl, rfl⟩, ?_, ?_, ?_, ?_⟩, ?_⟩
  · intro t _; exact ⟨fun o ho => List.eq_of_mem_replicate ho, by simp [pinit, awProg]⟩
  · intro t _; simp [pinit, init]
  · have : sumTo N (fun t => av P (pinit N N (awProg P)).prog t - (pinit N N (awProg P)).s.ph) = 0 :=
      sumTo_eq_zero (fun t _ => by simp [pinit, init, av, awProg])
    rw [this]; simp [pinit, init]
  · intro t _; simp [pinit, init, PcU, av, awProg]
  · intro t ht; simp [pinit, init] at ht

theorem allU_run (N P : Nat) (log : List Ev) (p : PSt) (h : runLog pstep (pinit N N (awProg P)) log = some p) :
    AllU N P p :=
  inv_of_runLog (AllU N P) (fun p e p' hi hs => allU_step N P p p' e hi hs) (allU_init N P) h

end PikaVerif.Barrier
