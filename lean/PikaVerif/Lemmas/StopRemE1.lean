import PikaVerif.Lemmas.StopRem
/-! Follow-up C14q: preservation of layer C (converse of `InvR.remA`), events group 1. -/
namespace PikaVerif.Stop
open PikaVerif
set_option maxHeartbeats 4000000

theorem stepC_inv (s s' : St) (a : Nat) (k : Kind) (hA : InvA s) (hB : InvB s) (hD : InvD s) (hi : InvC s) (h : step s (.inv a k) = some s') : InvC s' := by stopCi
theorem stepC_ret (s s' : St) (a : Nat) (r : Bool) (hA : InvA s) (hB : InvB s) (hD : InvD s) (hi : InvC s) (h : step s (.ret a r) = some s') : InvC s' := by stopC
theorem stepC_load (s s' : St) (a : Nat) (lk rq : Bool) (src : Nat) (hA : InvA s) (hB : InvB s) (hD : InvD s) (hi : InvC s) (h : step s (.load a lk rq src) = some s') : InvC s' := by stopC
theorem stepC_casFail (s s' : St) (a : Nat) (lk rq : Bool) (src : Nat) (hA : InvA s) (hB : InvB s) (hD : InvD s) (hi : InvC s) (h : step s (.casFail a lk rq src) = some s') : InvC s' := by stopC
theorem stepC_reload (s s' : St) (a : Nat) (lk rq : Bool) (src : Nat) (hA : InvA s) (hB : InvB s) (hD : InvD s) (hi : InvC s) (h : step s (.reload a lk rq src) = some s') : InvC s' := by stopC
theorem stepC_acq (s s' : St) (a : Nat) (hA : InvA s) (hB : InvB s) (hD : InvD s) (hi : InvC s) (h : step s (.acq a) = some s') : InvC s' := by stopC
theorem stepC_deq (s s' : St) (a c : Nat) (m : Bool) (hA : InvA s) (hB : InvB s) (hD : InvD s) (hi : InvC s) (h : step s (.deq a c m) = some s') : InvC s' := by stopC

end PikaVerif.Stop
