import PikaVerif.Lemmas.CV2
/-! Third group of invariants of the condition-variable model: the stop-token wait
    (`condition_variable_any::wait(lock, stop_token, pred)`) and `request_stop` (follow-up C07s).

    The central field is `covered`: once stop has been requested, every thread of a
    stop-token wait that has passed the `stop_requested()` re-check under the internal lock
    (S1) and has not been notified since still has its callback in the stop state's list, or
    the requester has that callback in its hand and has not finished the `notify_all` of the
    callback.  Together with `Inv.qIff` this is what makes the stop request impossible to
    lose between the waiter's check and its enqueue. -/
namespace PikaVerif.CV
open PikaVerif

/-- Program counters at which the thread holds the lock bit of the stop state. -/
def holdsS : Pc → Bool
  | .sRegLk | .rsLocked | .sRm _ => true
  | _ => false

/-- `~stop_callback` of a registered callback is running. -/
def dtorPc : Pc → Bool
  | .sDtor _ | .sRm _ | .sRmChk _ | .sRmWait _ => true
  | _ => false

/-- After an unlink attempt that found the callback already dequeued. -/
def rmPc : Pc → Bool
  | .sRmChk _ | .sRmWait _ => true
  | _ => false

/-- The body of a wait form after the construction of the stop callback (loop, `cond_.wait`). -/
def bodyPc : Pc → Bool
  | .predChk _ | .want | .sChk1 | .sStopped | .locked | .released | .enq _ | .unl _ _ | .susp _ | .slp _
  | .wokeNL _ _ | .relk _ _ | .post _ | .relockU _ | .postS _ => true
  | _ => false

/-- The callback runs on the registering thread (stop already requested). -/
def inlPc : Pc → Bool
  | .cWant k | .cLocked k | .cAll k | .cRet k => k
  | _ => false

/-- `request_stop` between winning the stop bit and leaving its callback loop. -/
def reqPc : Pc → Bool
  | .rsLocked | .rsRelock => true
  | .cWant k | .cLocked k | .cAll k | .cRet k => !k
  | _ => false

/-- `request_stop` has a dequeued callback in its hand (before the finished store). -/
def curHeldPc : Pc → Bool
  | .cWant k | .cLocked k | .cAll k | .cRet k => !k
  | _ => false

/-- … and has not yet completed the `notify_all` of that callback. -/
def popPending : Pc → Bool
  | .cWant k | .cLocked k | .cAll k => !k
  | _ => false

/-- Passed the S1 check (`stop_requested()` read false under the internal lock) and not
    notified since: on the way to, or parked in, `agent.suspend`. -/
def exposed : Pc → Bool
  | .locked | .released | .enq _ => true
  | .unl _ p | .susp p => !p
  | _ => false

/-- The stop bit was observed by this wait. -/
def sawStop : Pc → Bool
  | .predChk f => f
  | .sStopped => true
  | _ => false

/-- Result of a wait form once computed. -/
def resAll : Pc → Option Nat
  | .retn r | .sDtor r | .sRm r | .sRmChk r | .sRmWait r => some r
  | _ => none

structure Inv3 (s : St) : Prop where
  sHolder : ∀ t, holdsS (s.pc t) = true → s.sLock = some t
  sConv : ∀ r, s.sLock = some r → holdsS (s.pc r) = true ∧ r < s.n
  keptOk : ∀ t, s.kept t = true → isStop (s.curOp t) = true ∧ (bodyPc (s.pc t) = true ∨ dtorPc (s.pc t) = true)
  dtorKept : ∀ t, dtorPc (s.pc t) = true → s.kept t = true
  cbsOk : ∀ t, t ∈ s.cbs → s.kept t = true ∧ s.cbFin t = false
  cbsNodup : s.cbs.Nodup
  curOk : ∀ c, s.cur = some c → s.kept c = true ∧ c ∉ s.cbs ∧ s.cbFin c = false
  regOk : ∀ t, s.kept t = true → t ∈ s.cbs ∨ s.cur = some t ∨ s.cbFin t = true
  rmOk : ∀ t, rmPc (s.pc t) = true → t ∉ s.cbs
  reqOk : ∀ t, reqPc (s.pc t) = true → s.stopReq = true ∧ s.reqT = t ∧ s.stopDone = false
  curHeld : ∀ t, curHeldPc (s.pc t) = true → s.cur ≠ none
  curConv : ∀ c, s.cur = some c → curHeldPc (s.pc s.reqT) = true
  finReq : ∀ t, s.kept t = true → s.cbFin t = true → s.stopReq = true
  unregReq : ∀ t, isStop (s.curOp t) = true → s.kept t = false → (bodyPc (s.pc t) = true ∨ inlPc (s.pc t) = true) →
    s.stopReq = true
  regLkOk : ∀ t, s.pc t = .sRegLk → s.stopReq = false
  covered : s.stopReq = true → ∀ t, isStop (s.curOp t) = true → exposed (s.pc t) = true →
    t ∈ s.cbs ∨ (s.cur = some t ∧ popPending (s.pc s.reqT) = true)
  doneOk : s.stopDone = true → s.stopReq = true ∧ s.cbs = [] ∧ s.cur = none
  activeOk : s.stopReq = true → s.stopDone = false → reqPc (s.pc s.reqT) = true
  sawOk : ∀ t, s.curOp t = .swait false → sawStop (s.pc t) = true → s.stopReq = true
  swRes : ∀ t r, s.curOp t = .swait false → resAll (s.pc t) = some r → r = 1 ∨ s.stopReq = true

theorem inv3_init (n : Nat) (f : Bool) : Inv3 (init n f) := by
  refine ⟨?_, ?_, ?_, ?_, ?_, ?_, ?_, ?_, ?_, ?_, ?_, ?_, ?_, ?_, ?_, ?_, ?_, ?_, ?_, ?_⟩ <;>
    simp [init, holdsS, dtorPc, rmPc, bodyPc, inlPc, reqPc, curHeldPc, popPending, exposed, sawStop, resAll]

theorem curHeld_req {p : Pc} (h : curHeldPc p = true) : reqPc p = true := by
  cases p <;> simp [curHeldPc] at h <;> simp [reqPc, h]

theorem popPending_curHeld {p : Pc} (h : popPending p = true) : curHeldPc p = true := by
  cases p <;> simp [popPending] at h <;> simp [curHeldPc, h]

theorem exposed_body {p : Pc} (h : exposed p = true) : bodyPc p = true := by
  cases p <;> simp [exposed] at h <;> simp [bodyPc]

theorem exposed_holds_or_inQ {p : Pc} (h : exposed p = true) : holds p = true ∨ inQ p = true := by
  cases p <;> simp [exposed] at h <;> simp [holds, inQ, h]

/-- `request_stop` holds a callback only while it is active (so stop has been requested). -/
theorem Inv3.curReq {s : St} (hi : Inv3 s) (c : Nat) (hc : s.cur = some c) :
    s.stopReq = true ∧ s.stopDone = false ∧ reqPc (s.pc s.reqT) = true ∧ curHeldPc (s.pc s.reqT) = true := by
  have h1 := hi.curConv c hc
  have h2 := hi.reqOk s.reqT (curHeld_req h1)
  exact ⟨h2.1, h2.2.2, curHeld_req h1, h1⟩

theorem Inv3.curNone {s : St} (hi : Inv3 s) (h : curHeldPc (s.pc s.reqT) = false) : s.cur = none := by
  cases hc : s.cur with
  | none => rfl
  | some c => have := hi.curConv c hc; rw [h] at this; simp at this

/-- Before the stop bit is set, every stop-token waiter past its S1 check has its callback
    linked in the stop state. -/
theorem Inv3.preLinked {s : St} (hi : Inv3 s) (hq : s.stopReq = false) (u : Nat)
    (hc : isStop (s.curOp u) = true) (he : exposed (s.pc u) = true) : u ∈ s.cbs := by
  have hk : s.kept u = true := by
    cases hk : s.kept u with
    | true => rfl
    | false => have := hi.unregReq u hc hk (Or.inl (exposed_body he)); rw [hq] at this; simp at this
  rcases hi.regOk u hk with h | h | h
  · exact h
  · have := (hi.curReq u h).1; rw [hq] at this; simp at this
  · have := hi.finReq u hk h; rw [hq] at this; simp at this

theorem setPopped_facts3 {p p' : Pc} (h : setPopped p = some p') :
    holdsS p' = false ∧ holdsS p = false ∧ bodyPc p' = true ∧ bodyPc p = true ∧ dtorPc p' = false ∧
    dtorPc p = false ∧ rmPc p' = false ∧ rmPc p = false ∧ inlPc p' = false ∧ inlPc p = false ∧
    reqPc p' = false ∧ reqPc p = false ∧ curHeldPc p' = false ∧ curHeldPc p = false ∧
    popPending p' = false ∧ popPending p = false ∧ p' ≠ .sRegLk ∧ p ≠ .sRegLk ∧ exposed p' = false ∧
    sawStop p' = false ∧ sawStop p = false ∧ resAll p' = none ∧ resAll p = none := by
  unfold setPopped at h
  split at h <;> simp at h <;> subst h <;>
    simp [holdsS, bodyPc, dtorPc, rmPc, inlPc, reqPc, curHeldPc, popPending, exposed, sawStop, resAll]

set_option maxHeartbeats 1600000

attribute [local grind] holds holdsU noU inQ waitExp needTok b2n isTimed isPred isWait
  isNotify isStop pcOpOk exitPc holdsS dtorPc rmPc bodyPc inlPc reqPc curHeldPc popPending exposed sawStop resAll
attribute [local grind →] curHeld_req popPending_curHeld exposed_body exposed_holds_or_inQ isStop_facts

set_option hygiene false in
macro "cv_step3" : tactic => `(tactic| (
  simp only [step] at h
  have hlh := hA.lockHolder
  have hqi := hA.qIff
  have hop := hB.opOk
  have dcur := hi.curReq
  have dpre := hi.preLinked
  have dnone := hi.curNone
  obtain ⟨i1,i2,i3,i4,i5,i6,i7,i8,i9,i10,i11,i12,i13,i14,i15,i16,i17,i18,i19,i20⟩ := hi
  have q1 := i1 t
  have q3 := i3 t
  have q4 := i4 t
  have q9 := i9 t
  have q10 := i10 t
  have q11 := i11 t
  have q14 := i14 t
  have q15 := i15 t
  have qop := hop t
  split at h
  case isFalse => simp at h
  rename_i hg
  repeat' split at h
  all_goals first | (simp at h; done) | skip
  all_goals (
    simp only [Option.some.injEq] at h
    subst h
    refine ⟨?_, ?_, ?_, ?_, ?_, ?_, ?_, ?_, ?_, ?_, ?_, ?_, ?_, ?_, ?_, ?_, ?_, ?_, ?_, ?_⟩ <;> dsimp only
  )
  all_goals first
    | assumption
    | (intro u; grind [upd])
    | grind [upd]))

theorem step_inv3_inv (s s' : St) (t : Nat) (o : Op) (hA : Inv s) (hB : Inv2 s) (hi : Inv3 s) (h : step s (.inv t o) = some s') : Inv3 s' := by cv_step3
theorem step_inv3_ret (s s' : St) (t r : Nat) (hA : Inv s) (hB : Inv2 s) (hi : Inv3 s) (h : step s (.ret t r) = some s') : Inv3 s' := by cv_step3
theorem step_inv3_ulAcq (s s' : St) (t : Nat) (hA : Inv s) (hB : Inv2 s) (hi : Inv3 s) (h : step s (.ulAcq t) = some s') : Inv3 s' := by cv_step3
theorem step_inv3_ulRel (s s' : St) (t : Nat) (hA : Inv s) (hB : Inv2 s) (hi : Inv3 s) (h : step s (.ulRel t) = some s') : Inv3 s' := by cv_step3
theorem step_inv3_setFlag (s s' : St) (t : Nat) (v : Bool) (hA : Inv s) (hB : Inv2 s) (hi : Inv3 s) (h : step s (.setFlag t v) = some s') : Inv3 s' := by cv_step3
theorem step_inv3_pred (s s' : St) (t : Nat) (v : Bool) (hA : Inv s) (hB : Inv2 s) (hi : Inv3 s) (h : step s (.pred t v) = some s') : Inv3 s' := by cv_step3
theorem step_inv3_slAcq (s s' : St) (t : Nat) (hA : Inv s) (hB : Inv2 s) (hi : Inv3 s) (h : step s (.slAcq t) = some s') : Inv3 s' := by cv_step3
theorem step_inv3_slRel (s s' : St) (t : Nat) (hA : Inv s) (hB : Inv2 s) (hi : Inv3 s) (h : step s (.slRel t) = some s') : Inv3 s' := by cv_step3
theorem step_inv3_cvEnq (s s' : St) (t z : Nat) (b : Bool) (hA : Inv s) (hB : Inv2 s) (hi : Inv3 s) (h : step s (.cvEnq t z b) = some s') : Inv3 s' := by cv_step3
theorem step_inv3_cvNone (s s' : St) (t : Nat) (hA : Inv s) (hB : Inv2 s) (hi : Inv3 s) (h : step s (.cvNone t) = some s') : Inv3 s' := by cv_step3
theorem step_inv3_cvAll (s s' : St) (t z : Nat) (hA : Inv s) (hB : Inv2 s) (hi : Inv3 s) (h : step s (.cvAll t z) = some s') : Inv3 s' := by cv_step3
theorem step_inv3_cvWoke (s s' : St) (t : Nat) (a b : Bool) (hA : Inv s) (hB : Inv2 s) (hi : Inv3 s) (h : step s (.cvWoke t a b) = some s') : Inv3 s' := by cv_step3
theorem step_inv3_suspend (s s' : St) (t : Nat) (hA : Inv s) (hB : Inv2 s) (hi : Inv3 s) (h : step s (.suspend t) = some s') : Inv3 s' := by cv_step3
theorem step_inv3_woke (s s' : St) (t : Nat) (hA : Inv s) (hB : Inv2 s) (hi : Inv3 s) (h : step s (.woke t) = some s') : Inv3 s' := by cv_step3
theorem step_inv3_sleep (s s' : St) (t : Nat) (hA : Inv s) (hB : Inv2 s) (hi : Inv3 s) (h : step s (.sleep t) = some s') : Inv3 s' := by cv_step3
theorem step_inv3_timeout (s s' : St) (t : Nat) (hA : Inv s) (hB : Inv2 s) (hi : Inv3 s) (h : step s (.timeout t) = some s') : Inv3 s' := by cv_step3
theorem step_inv3_done (s s' : St) (t : Nat) (hA : Inv s) (hB : Inv2 s) (hi : Inv3 s) (h : step s (.done t) = some s') : Inv3 s' := by cv_step3
theorem step_inv3_stop0 (s s' : St) (t : Nat) (v : Bool) (hA : Inv s) (hB : Inv2 s) (hi : Inv3 s) (h : step s (.stop0 t v) = some s') : Inv3 s' := by cv_step3
theorem step_inv3_stop1 (s s' : St) (t : Nat) (v : Bool) (hA : Inv s) (hB : Inv2 s) (hi : Inv3 s) (h : step s (.stop1 t v) = some s') : Inv3 s' := by cv_step3
theorem step_inv3_stop2 (s s' : St) (t : Nat) (v : Bool) (hA : Inv s) (hB : Inv2 s) (hi : Inv3 s) (h : step s (.stop2 t v) = some s') : Inv3 s' := by cv_step3
theorem step_inv3_stSeen (s s' : St) (t : Nat) (hA : Inv s) (hB : Inv2 s) (hi : Inv3 s) (h : step s (.stSeen t) = some s') : Inv3 s' := by cv_step3
theorem step_inv3_stAcq (s s' : St) (t m : Nat) (hA : Inv s) (hB : Inv2 s) (hi : Inv3 s) (h : step s (.stAcq t m) = some s') : Inv3 s' := by cv_step3
theorem step_inv3_stPush (s s' : St) (t : Nat) (b : Bool) (hA : Inv s) (hB : Inv2 s) (hi : Inv3 s) (h : step s (.stPush t b) = some s') : Inv3 s' := by cv_step3
theorem step_inv3_stDeq (s s' : St) (t c : Nat) (b : Bool) (hA : Inv s) (hB : Inv2 s) (hi : Inv3 s) (h : step s (.stDeq t c b) = some s') : Inv3 s' := by cv_step3
theorem step_inv3_stFin (s s' : St) (t c : Nat) (b : Bool) (hA : Inv s) (hB : Inv2 s) (hi : Inv3 s) (h : step s (.stFin t c b) = some s') : Inv3 s' := by cv_step3
theorem step_inv3_stInFin (s s' : St) (t : Nat) (hA : Inv s) (hB : Inv2 s) (hi : Inv3 s) (h : step s (.stInFin t) = some s') : Inv3 s' := by cv_step3
theorem step_inv3_stUnlink (s s' : St) (t : Nat) (b : Bool) (hA : Inv s) (hB : Inv2 s) (hi : Inv3 s) (h : step s (.stUnlink t b) = some s') : Inv3 s' := by cv_step3
theorem step_inv3_stSelf (s s' : St) (t : Nat) (b : Bool) (hA : Inv s) (hB : Inv2 s) (hi : Inv3 s) (h : step s (.stSelf t b) = some s') : Inv3 s' := by cv_step3
theorem step_inv3_stWaited (s s' : St) (t : Nat) (hA : Inv s) (hB : Inv2 s) (hi : Inv3 s) (h : step s (.stWaited t) = some s') : Inv3 s' := by cv_step3
theorem step_inv3_stRsDone (s s' : St) (t : Nat) (hA : Inv s) (hB : Inv2 s) (hi : Inv3 s) (h : step s (.stRsDone t) = some s') : Inv3 s' := by cv_step3

theorem popCore_inv3 (s s' : St) (t z g : Nat) (d : Bool) (pcT : Pc) (hA : Inv s) (hi : Inv3 s)
    (hl : s.lock = some t) (hT : pcT = s.pc t ∨ (pcT = .nDone ∧ s.pc t = .nLocked))
    (h : popCore s t z g d pcT = some s') : Inv3 s' := by
  have hlh := hA.lockHolder
  have dcur := hi.curReq
  obtain ⟨i1,i2,i3,i4,i5,i6,i7,i8,i9,i10,i11,i12,i13,i14,i15,i16,i17,i18,i19,i20⟩ := hi
  unfold popCore at h
  split at h
  case h_2 => simp at h
  rename_i g' rest hq
  split at h
  case isFalse => simp at h
  rename_i hsz
  obtain ⟨hsz, hgg⟩ := hsz
  subst hgg
  split at h
  case h_2 => simp at h
  rename_i p' hp'
  obtain ⟨f1, f2, f3, f4, f5, f6, f7, f8, f9, f10, f11, f12, f13, f14, f15, f16, f17, f18, f19, f20, f21, f22, f23⟩ :=
    setPopped_facts3 hp'
  split at h
  case isFalse => simp at h
  simp only [Option.some.injEq] at h
  subst h
  have hgt : g' ≠ t := by
    intro he
    have a := (setPopped_facts hp').2.1
    have b := (hA.lockConv t hl).1
    rw [he] at a; rw [a] at b; simp at b
  have e1 : ∀ u, u ≠ t → u ≠ g' → upd (upd s.pc g' p') t pcT u = s.pc u := by
    intro u h1 h2; simp [upd, h1, h2]
  have e2 : upd (upd s.pc g' p') t pcT t = pcT := by simp [upd]
  have e3 : upd (upd s.pc g' p') t pcT g' = p' := by simp [upd, hgt]
  refine ⟨?_, ?_, ?_, ?_, ?_, ?_, ?_, ?_, ?_, ?_, ?_, ?_, ?_, ?_, ?_, ?_, ?_, ?_, ?_, ?_⟩ <;> dsimp only
  all_goals (rcases hT with hT | ⟨hT, hT2⟩)
  all_goals first
    | assumption
    | (intro u; by_cases hut : u = t <;> by_cases hug : u = g' <;> grind)
    | (intro u r; by_cases hut : u = t <;> by_cases hug : u = g' <;> grind)
    | grind

theorem step_inv3_popResume (s s' : St) (t z g : Nat) (d : Bool) (hA : Inv s) (_hB : Inv2 s) (hi : Inv3 s)
    (h : step s (.popResume t z g d) = some s') : Inv3 s' := by
  simp only [step] at h
  split at h
  case isFalse => simp at h
  rename_i hg
  split at h
  case h_2 => simp at h
  rename_i hpc
  exact popCore_inv3 s s' t z g d .nDone hA hi hg.2.1 (Or.inr ⟨rfl, hpc⟩) h

theorem step_inv3_popAll (s s' : St) (t z g : Nat) (d : Bool) (hA : Inv s) (_hB : Inv2 s) (hi : Inv3 s)
    (h : step s (.popAll t z g d) = some s') : Inv3 s' := by
  simp only [step] at h
  split at h
  case isFalse => simp at h
  rename_i hg
  split at h
  case h_3 => simp at h
  · rename_i hpc
    exact popCore_inv3 s s' t z g d .nAll hA hi hg.2 (Or.inl hpc.symm) h
  · rename_i k hpc
    exact popCore_inv3 s s' t z g d (.cAll k) hA hi hg.2 (Or.inl hpc.symm) h

theorem step_inv3 (s s' : St) (e : Ev) (hA : Inv s) (hB : Inv2 s) (hi : Inv3 s) (h : step s e = some s') : Inv3 s' := by
  cases e with
  | inv t o => exact step_inv3_inv s s' t o hA hB hi h
  | ret t r => exact step_inv3_ret s s' t r hA hB hi h
  | ulAcq t => exact step_inv3_ulAcq s s' t hA hB hi h
  | ulRel t => exact step_inv3_ulRel s s' t hA hB hi h
  | setFlag t v => exact step_inv3_setFlag s s' t v hA hB hi h
  | pred t v => exact step_inv3_pred s s' t v hA hB hi h
  | slAcq t => exact step_inv3_slAcq s s' t hA hB hi h
  | slRel t => exact step_inv3_slRel s s' t hA hB hi h
  | cvEnq t z b => exact step_inv3_cvEnq s s' t z b hA hB hi h
  | cvNone t => exact step_inv3_cvNone s s' t hA hB hi h
  | cvAll t z => exact step_inv3_cvAll s s' t z hA hB hi h
  | cvWoke t a b => exact step_inv3_cvWoke s s' t a b hA hB hi h
  | suspend t => exact step_inv3_suspend s s' t hA hB hi h
  | woke t => exact step_inv3_woke s s' t hA hB hi h
  | sleep t => exact step_inv3_sleep s s' t hA hB hi h
  | timeout t => exact step_inv3_timeout s s' t hA hB hi h
  | done t => exact step_inv3_done s s' t hA hB hi h
  | stop0 t v => exact step_inv3_stop0 s s' t v hA hB hi h
  | stop1 t v => exact step_inv3_stop1 s s' t v hA hB hi h
  | stop2 t v => exact step_inv3_stop2 s s' t v hA hB hi h
  | stSeen t => exact step_inv3_stSeen s s' t hA hB hi h
  | stAcq t m => exact step_inv3_stAcq s s' t m hA hB hi h
  | stPush t b => exact step_inv3_stPush s s' t b hA hB hi h
  | stDeq t c b => exact step_inv3_stDeq s s' t c b hA hB hi h
  | stFin t c b => exact step_inv3_stFin s s' t c b hA hB hi h
  | stInFin t => exact step_inv3_stInFin s s' t hA hB hi h
  | stUnlink t b => exact step_inv3_stUnlink s s' t b hA hB hi h
  | stSelf t b => exact step_inv3_stSelf s s' t b hA hB hi h
  | stWaited t => exact step_inv3_stWaited s s' t hA hB hi h
  | stRsDone t => exact step_inv3_stRsDone s s' t hA hB hi h
  | popResume t z g d => exact step_inv3_popResume s s' t z g d hA hB hi h
  | popAll t z g d => exact step_inv3_popAll s s' t z g d hA hB hi h

theorem inv3_of_accepted {n : Nat} {f : Bool} {log : List Ev} {s : St}
    (h : runLog step (init n f) log = some s) : Inv s ∧ Inv2 s ∧ Inv3 s := by
  have : ∀ (log : List Ev) (s0 s : St), Inv s0 ∧ Inv2 s0 ∧ Inv3 s0 → runLog step s0 log = some s →
      Inv s ∧ Inv2 s ∧ Inv3 s := by
    intro log
    induction log with
    | nil => intro s0 s h0 h; simp at h; exact h ▸ h0
    | cons e es ih =>
      intro s0 s h0 h
      simp only [runLog] at h
      cases hs : step s0 e with
      | none => simp [hs] at h
      | some s1 =>
        simp only [hs] at h
        exact ih s1 s ⟨step_inv s0 s1 e h0.1 hs, step_inv2 s0 s1 e h0.1 h0.2.1 hs,
          step_inv3 s0 s1 e h0.1 h0.2.1 h0.2.2 hs⟩ h
  exact this log _ s ⟨inv_init n f, inv2_init n f, inv3_init n f⟩ h

end PikaVerif.CV
