import PikaVerif.Lemmas.Aff
/-! C15: the compact decoder satisfies the property (termination and correctness). -/
namespace PikaVerif.Aff
open PikaVerif

/-- PU `q` may be used: the process mask is ignored or contains it -/
def ind (cfg : Cfg) (q : Nat) : Bool := !cfg.usePm || cfg.pm q

/-- number of usable PUs with logical index below `pos` -/
def cntTo (cfg : Cfg) (pos : Nat) : Nat := sumTo pos (fun q => if ind cfg q then 1 else 0)

/-- what C15 demands of the masks and reported PU numbers of workers `0 … n-1` -/
structure Good (cfg : Cfg) (aff : Nat → List Nat) (pn : Nat → Nat) : Prop where
  bound : ∀ i, i < cfg.n → ∃ q, aff i = [q] ∧ pn i = q ∧ q < numPus cfg.t ∧ ind cfg q = true
  distinct : ∀ i j, i < cfg.n → j < cfg.n → i ≠ j → aff i ≠ aff j

theorem inMask_eq (cfg : Cfg) {c p : Nat} (hc : c < cfg.t.nc) (hp : p < cfg.t.pus c) :
    inMask cfg c p = ind cfg (base cfg.t c + p) := by
  simp [inMask, ind, puNumber_eq cfg.t hc hp]

theorem cntTo_succ (cfg : Cfg) (pos : Nat) :
    cntTo cfg (pos + 1) = cntTo cfg pos + (if ind cfg pos then 1 else 0) := rfl

/-- invariant of the first pass of the compact decoder, at linear PU position `pos` -/
structure CInv (cfg : Cfg) (pos : Nat) (s : ASt) : Prop where
  count : s.k = cntTo cfg pos
  lt : s.k < cfg.n
  bound : ∀ i, i < s.k → ∃ q, q < pos ∧ s.aff i = [q] ∧ s.pn i = q ∧ ind cfg q = true
  fresh : ∀ i, s.k ≤ i → s.aff i = []
  distinct : ∀ i j, i < s.k → j < s.k → i ≠ j → s.aff i ≠ s.aff j

/-- the decoder returned with all `n` threads placed -/
structure Fin (cfg : Cfg) (s : ASt) : Prop where
  all : s.k = cfg.n
  good : Good cfg s.aff s.pn

theorem compactPu_inv (cfg : Cfg) (hu : effUsed cfg = 0) {c p : Nat} (hc : c < cfg.t.nc)
    (hp : p < cfg.t.pus c) (s : ASt) (h : CInv cfg (base cfg.t c + p) s) :
    CtlP (CInv cfg (base cfg.t c + p + 1)) (Fin cfg) False (compactPu cfg c p s) := by
  have hlt := base_add_lt_numPus cfg.t hc hp
  unfold compactPu
  rw [inMask_eq cfg hc hp, hu]
  simp only [Nat.add_zero]
  cases hi : ind cfg (base cfg.t c + p) with
  | false =>
    simp only [Bool.not_false, ↓reduceIte, CtlP]
    refine ⟨?_, h.lt, ?_, h.fresh, h.distinct⟩
    · rw [cntTo_succ, hi]; simpa using h.count
    · intro i hi'
      obtain ⟨q, hq, r⟩ := h.bound i hi'
      exact ⟨q, by omega, r⟩
  | true =>
    have hf := h.fresh s.k (Nat.le_refl _)
    simp only [Bool.not_true, Bool.false_eq_true, ↓reduceIte, assign, hf, ne_eq, not_true_eq_false,
      threadMask, puNumber_eq cfg.t hc hp]
    have hb : ∀ i, i < s.k + 1 → ∃ q, q < base cfg.t c + p + 1 ∧
        upd s.aff s.k [base cfg.t c + p] i = [q] ∧ upd s.pn s.k (base cfg.t c + p) i = q ∧
        ind cfg q = true := by
      intro i hi'
      by_cases hik : i = s.k
      · subst hik; exact ⟨_, by omega, by simp, by simp, hi⟩
      · obtain ⟨q, hq, r1, r2, r3⟩ := h.bound i (by omega)
        exact ⟨q, by omega, by simp [upd, hik, r1], by simp [upd, hik, r2], r3⟩
    have hd : ∀ i j, i < s.k + 1 → j < s.k + 1 → i ≠ j →
        upd s.aff s.k [base cfg.t c + p] i ≠ upd s.aff s.k [base cfg.t c + p] j := by
      intro i j hi' hj hij
      by_cases hik : i = s.k
      · have hjk : j ≠ s.k := by omega
        obtain ⟨q, hq, r1, _⟩ := h.bound j (by omega)
        simp only [upd, hik, hjk, ↓reduceIte, r1]
        intro he; simp at he; omega
      · by_cases hjk : j = s.k
        · obtain ⟨q, hq, r1, _⟩ := h.bound i (by omega)
          simp only [upd, hik, hjk, ↓reduceIte, r1]
          intro he; simp at he; omega
        · simp only [upd, hik, hjk, ↓reduceIte]
          exact h.distinct i j (by omega) (by omega) hij
    by_cases hn : s.k + 1 = cfg.n
    · simp only [hn, ↓reduceIte, CtlP]
      refine ⟨rfl, ?_, ?_⟩ <;> dsimp only
      · intro i hi'
        obtain ⟨q, hq, r⟩ := hb i (by omega)
        exact ⟨q, r.1, r.2.1, by omega, r.2.2⟩
      · intro i j hi' hj; exact hd i j (by omega) (by omega)
    · simp only [hn, ↓reduceIte, CtlP]
      refine ⟨?_, ?_, hb, ?_, hd⟩ <;> dsimp only
      · rw [cntTo_succ, hi]; simp [h.count]
      · have := h.lt; omega
      · intro i hi'
        have : i ≠ s.k := by omega
        simp [upd, this, h.fresh i (by omega)]


theorem effCores_le (cfg : Cfg) : effCores cfg ≤ cfg.t.nc := by
  unfold effCores; split <;> omega

theorem compactCore_inv (cfg : Cfg) (hu : effUsed cfg = 0) {c : Nat} (hc : c < cfg.t.nc)
    (s : ASt) (h : CInv cfg (base cfg.t c) s) :
    CtlP (CInv cfg (base cfg.t (c + 1))) (Fin cfg) False (compactCore cfg c s) := by
  unfold compactCore
  rw [hu]; simp only [Nat.add_zero]; rw [corePus_eq cfg.t hc, base_succ]
  exact forRange_inv (compactPu cfg c) (fun p => CInv cfg (base cfg.t c + p)) (Fin cfg) False
    (cfg.t.pus c) s (fun p s hp hs => compactPu_inv cfg hu hc hp s hs) h

theorem compactPass_inv (cfg : Cfg) (hu : effUsed cfg = 0) (s : ASt) (h : CInv cfg 0 s) :
    CtlP (CInv cfg (base cfg.t (effCores cfg))) (Fin cfg) False (compactPass cfg s) := by
  unfold compactPass
  exact forRange_inv (compactCore cfg) (fun c => CInv cfg (base cfg.t c)) (Fin cfg) False
    (effCores cfg) s
    (fun c s hc hs => compactCore_inv cfg hu (Nat.lt_of_lt_of_le hc (effCores_le cfg)) s hs) h

theorem cntTo_all (cfg : Cfg) (hu : cfg.usePm = false) (pos : Nat) : cntTo cfg pos = pos := by
  induction pos with
  | zero => rfl
  | succ k ih => rw [cntTo_succ, ih]; simp [ind, hu]

theorem cntTo_mask (cfg : Cfg) (hu : cfg.usePm = true) : cntTo cfg (numPus cfg.t) = countMask cfg := by
  unfold cntTo countMask
  apply sumTo_congr
  intro q _
  simp [ind, hu]

/-- number of PUs a decoder may use -/
def avail (cfg : Cfg) : Nat := if cfg.usePm then countMask cfg else numPus cfg.t

theorem tooMany_false (cfg : Cfg) (h : cfg.n ≤ avail cfg) : tooMany cfg = false := by
  unfold tooMany avail at *
  split <;> simp_all

/-- the cores the decoders look at hold at least `n` usable PUs -/
theorem enough (cfg : Cfg) (hwf : WF cfg.t)
    (hu : cfg.usePm = true ∨ cfg.n ≤ cfg.maxCores) (hn : cfg.n ≤ avail cfg) :
    cfg.n ≤ cntTo cfg (base cfg.t (effCores cfg)) := by
  cases hp : cfg.usePm with
  | true =>
    have : effCores cfg = cfg.t.nc := by simp [effCores, hp]
    rw [this]
    have := cntTo_mask cfg hp
    unfold numPus at this
    rw [this]
    simpa [avail, hp] using hn
  | false =>
    rw [cntTo_all cfg hp]
    have hm : cfg.n ≤ cfg.maxCores := by cases hu with
      | inl h => simp [hp] at h
      | inr h => exact h
    have hn' : cfg.n ≤ numPus cfg.t := by simpa [avail, hp] using hn
    simp only [effCores, hp, Bool.false_eq_true, ↓reduceIte]
    by_cases hc : cfg.maxCores ≤ cfg.t.nc
    · rw [Nat.min_eq_left hc]
      have := le_base hwf hc; omega
    · rw [Nat.min_eq_right (by omega)]; exact hn'

theorem init_CInv (cfg : Cfg) (hn : 0 < cfg.n) : CInv cfg 0 ASt.init :=
  ⟨rfl, hn, fun _ hi => absurd hi (Nat.not_lt_zero _), fun _ _ => rfl,
   fun _ _ hi => absurd hi (Nat.not_lt_zero _)⟩

/-- **compact**: every satisfiable request (with `used_cores = 0`, and — when the process mask
    is ignored — `max_cores` not below the thread count) returns masks satisfying C15. -/
theorem compact_spec (cfg : Cfg) (hwf : WF cfg.t) (hused : effUsed cfg = 0)
    (hu : cfg.usePm = true ∨ cfg.n ≤ cfg.maxCores) (hn : cfg.n ≤ avail cfg) :
    ∃ aff pn, decodeCompact cfg = .ok aff pn ∧ Good cfg aff pn := by
  unfold decodeCompact
  rw [tooMany_false cfg hn]
  simp only [Bool.false_eq_true, ↓reduceIte]
  by_cases h0 : cfg.n = 0
  · simp only [h0, ↓reduceIte]
    exact ⟨_, _, rfl, ⟨fun i hi => by omega, fun i j hi => by omega⟩⟩
  · simp only [h0, ↓reduceIte, compactLoop]
    have hp := compactPass_inv cfg hused ASt.init (init_CInv cfg (by omega))
    cases hr : compactPass cfg ASt.init with
    | fin s' => rw [hr] at hp; exact ⟨_, _, rfl, hp.good⟩
    | err => rw [hr] at hp; exact hp.elim
    | run s' =>
      rw [hr] at hp
      have h1 := hp.count
      have h2 := hp.lt
      have := enough cfg hwf hu hn
      omega

end PikaVerif.Aff
