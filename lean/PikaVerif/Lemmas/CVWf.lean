import PikaVerif.Lemmas.CVFin
/-!
# Lock discipline of programs (C07t)

`wf h l`: the operation list `l` respects the preconditions of the operations when started with
(`h = true`) / without the user lock, and ends without it.  `heldAfter s t` = whether thread `t`
will own the user lock when it is next between operations.  For a program whose threads all
satisfy `wf false`, no `inv` is ever refused and no thread ends its program owning the lock.
-/
namespace PikaVerif.CV
open PikaVerif

def wf : Bool → List Op → Bool
  | h, [] => !h
  | h, .lock :: l => !h && wf true l
  | h, .unlock :: l => h && wf false l
  | h, .set _ :: l => h && wf true l
  | h, .wait _ _ :: l => h && wf true l
  | h, .swait _ :: l => h && wf true l
  | h, .notify _ :: l => wf h l
  | h, .stop :: l => wf h l

def heldAfter (s : St) (t : Nat) : Bool :=
  match s.pc t with
  | .idle => decide (s.ulock = some t)
  | .fin => decide (s.ulock = some t)
  | _ =>
    match s.curOp t with
    | .lock => true
    | .unlock => false
    | .set _ => true
    | .wait _ _ => true
    | .swait _ => true
    | .notify _ => decide (s.ulock = some t)
    | .stop => decide (s.ulock = some t)

attribute [local grind] holds holdsU noU inQ setPopped isPred isWait isStop isNotify exitPc pcOpOk heldAfter

set_option maxHeartbeats 3200000

theorem setPopped_held {p p' : Pc} (h : setPopped p = some p') :
    p ≠ .idle ∧ p ≠ .fin ∧ p' ≠ .idle ∧ p' ≠ .fin := by
  unfold setPopped at h
  split at h <;> simp at h <;> subst h <;> simp

set_option hygiene false in
macro "held_step" : tactic => `(tactic| (
  simp only [step, popCore] at h
  have sp := @setPopped_held
  have a2 := hA.uHolder
  have a3 := hA.uNot
  have b1 := hB.opOk
  split at h
  case isFalse => simp at h
  rename_i hg
  repeat' split at h
  all_goals first | (simp at h; done) | skip
  all_goals (
    simp only [Option.some.injEq] at h
    subst h
    intro u
    grind [upd])))

theorem held_ret (s s' : St) (t r : Nat) (hA : Inv s) (hB : Inv2 s) (h : step s (.ret t r) = some s') : ∀ u, heldAfter s' u = heldAfter s u := by held_step
theorem held_ulAcq (s s' : St) (t : Nat) (hA : Inv s) (hB : Inv2 s) (h : step s (.ulAcq t) = some s') : ∀ u, heldAfter s' u = heldAfter s u := by held_step
theorem held_ulRel (s s' : St) (t : Nat) (hA : Inv s) (hB : Inv2 s) (h : step s (.ulRel t) = some s') : ∀ u, heldAfter s' u = heldAfter s u := by held_step
theorem held_setFlag (s s' : St) (t : Nat) (v : Bool) (hA : Inv s) (hB : Inv2 s) (h : step s (.setFlag t v) = some s') : ∀ u, heldAfter s' u = heldAfter s u := by held_step
theorem held_pred (s s' : St) (t : Nat) (v : Bool) (hA : Inv s) (hB : Inv2 s) (h : step s (.pred t v) = some s') : ∀ u, heldAfter s' u = heldAfter s u := by held_step
theorem held_slAcq (s s' : St) (t : Nat) (hA : Inv s) (hB : Inv2 s) (h : step s (.slAcq t) = some s') : ∀ u, heldAfter s' u = heldAfter s u := by held_step
theorem held_slRel (s s' : St) (t : Nat) (hA : Inv s) (hB : Inv2 s) (h : step s (.slRel t) = some s') : ∀ u, heldAfter s' u = heldAfter s u := by held_step
theorem held_cvEnq (s s' : St) (t z : Nat) (b : Bool) (hA : Inv s) (hB : Inv2 s) (h : step s (.cvEnq t z b) = some s') : ∀ u, heldAfter s' u = heldAfter s u := by held_step
theorem held_popResume (s s' : St) (t z q : Nat) (d : Bool) (hA : Inv s) (hB : Inv2 s) (h : step s (.popResume t z q d) = some s') : ∀ u, heldAfter s' u = heldAfter s u := by held_step
theorem held_cvNone (s s' : St) (t : Nat) (hA : Inv s) (hB : Inv2 s) (h : step s (.cvNone t) = some s') : ∀ u, heldAfter s' u = heldAfter s u := by held_step
theorem held_cvAll (s s' : St) (t z : Nat) (hA : Inv s) (hB : Inv2 s) (h : step s (.cvAll t z) = some s') : ∀ u, heldAfter s' u = heldAfter s u := by held_step
theorem held_popAll (s s' : St) (t z q : Nat) (d : Bool) (hA : Inv s) (hB : Inv2 s) (h : step s (.popAll t z q d) = some s') : ∀ u, heldAfter s' u = heldAfter s u := by held_step
theorem held_cvWoke (s s' : St) (t : Nat) (a b : Bool) (hA : Inv s) (hB : Inv2 s) (h : step s (.cvWoke t a b) = some s') : ∀ u, heldAfter s' u = heldAfter s u := by held_step
theorem held_suspend (s s' : St) (t : Nat) (hA : Inv s) (hB : Inv2 s) (h : step s (.suspend t) = some s') : ∀ u, heldAfter s' u = heldAfter s u := by held_step
theorem held_woke (s s' : St) (t : Nat) (hA : Inv s) (hB : Inv2 s) (h : step s (.woke t) = some s') : ∀ u, heldAfter s' u = heldAfter s u := by held_step
theorem held_sleep (s s' : St) (t : Nat) (hA : Inv s) (hB : Inv2 s) (h : step s (.sleep t) = some s') : ∀ u, heldAfter s' u = heldAfter s u := by held_step
theorem held_timeout (s s' : St) (t : Nat) (hA : Inv s) (hB : Inv2 s) (h : step s (.timeout t) = some s') : ∀ u, heldAfter s' u = heldAfter s u := by held_step
theorem held_done (s s' : St) (t : Nat) (hA : Inv s) (hB : Inv2 s) (h : step s (.done t) = some s') : ∀ u, heldAfter s' u = heldAfter s u := by held_step
theorem held_stop0 (s s' : St) (t : Nat) (v : Bool) (hA : Inv s) (hB : Inv2 s) (h : step s (.stop0 t v) = some s') : ∀ u, heldAfter s' u = heldAfter s u := by held_step
theorem held_stop1 (s s' : St) (t : Nat) (v : Bool) (hA : Inv s) (hB : Inv2 s) (h : step s (.stop1 t v) = some s') : ∀ u, heldAfter s' u = heldAfter s u := by held_step
theorem held_stop2 (s s' : St) (t : Nat) (v : Bool) (hA : Inv s) (hB : Inv2 s) (h : step s (.stop2 t v) = some s') : ∀ u, heldAfter s' u = heldAfter s u := by held_step
theorem held_stSeen (s s' : St) (t : Nat) (hA : Inv s) (hB : Inv2 s) (h : step s (.stSeen t) = some s') : ∀ u, heldAfter s' u = heldAfter s u := by held_step
theorem held_stAcq (s s' : St) (t m : Nat) (hA : Inv s) (hB : Inv2 s) (h : step s (.stAcq t m) = some s') : ∀ u, heldAfter s' u = heldAfter s u := by held_step
theorem held_stPush (s s' : St) (t : Nat) (b : Bool) (hA : Inv s) (hB : Inv2 s) (h : step s (.stPush t b) = some s') : ∀ u, heldAfter s' u = heldAfter s u := by held_step
theorem held_stDeq (s s' : St) (t c : Nat) (b : Bool) (hA : Inv s) (hB : Inv2 s) (h : step s (.stDeq t c b) = some s') : ∀ u, heldAfter s' u = heldAfter s u := by held_step
theorem held_stFin (s s' : St) (t c : Nat) (b : Bool) (hA : Inv s) (hB : Inv2 s) (h : step s (.stFin t c b) = some s') : ∀ u, heldAfter s' u = heldAfter s u := by held_step
theorem held_stInFin (s s' : St) (t : Nat) (hA : Inv s) (hB : Inv2 s) (h : step s (.stInFin t) = some s') : ∀ u, heldAfter s' u = heldAfter s u := by held_step
theorem held_stUnlink (s s' : St) (t : Nat) (b : Bool) (hA : Inv s) (hB : Inv2 s) (h : step s (.stUnlink t b) = some s') : ∀ u, heldAfter s' u = heldAfter s u := by held_step
theorem held_stSelf (s s' : St) (t : Nat) (b : Bool) (hA : Inv s) (hB : Inv2 s) (h : step s (.stSelf t b) = some s') : ∀ u, heldAfter s' u = heldAfter s u := by held_step
theorem held_stWaited (s s' : St) (t : Nat) (hA : Inv s) (hB : Inv2 s) (h : step s (.stWaited t) = some s') : ∀ u, heldAfter s' u = heldAfter s u := by held_step
theorem held_stRsDone (s s' : St) (t : Nat) (hA : Inv s) (hB : Inv2 s) (h : step s (.stRsDone t) = some s') : ∀ u, heldAfter s' u = heldAfter s u := by held_step

/-- no event other than `inv` changes who will own the user lock between operations -/
theorem held_step_all (s s' : St) (e : Ev) (hA : Inv s) (hB : Inv2 s) (hne : ∀ t o, e ≠ .inv t o)
    (h : step s e = some s') : ∀ u, heldAfter s' u = heldAfter s u := by
  cases e with
  | inv t o => exact absurd rfl (hne t o)
  | ret t r => exact held_ret s s' t r hA hB h
  | ulAcq t => exact held_ulAcq s s' t hA hB h
  | ulRel t => exact held_ulRel s s' t hA hB h
  | setFlag t v => exact held_setFlag s s' t v hA hB h
  | pred t v => exact held_pred s s' t v hA hB h
  | slAcq t => exact held_slAcq s s' t hA hB h
  | slRel t => exact held_slRel s s' t hA hB h
  | cvEnq t z b => exact held_cvEnq s s' t z b hA hB h
  | popResume t z q d => exact held_popResume s s' t z q d hA hB h
  | cvNone t => exact held_cvNone s s' t hA hB h
  | cvAll t z => exact held_cvAll s s' t z hA hB h
  | popAll t z q d => exact held_popAll s s' t z q d hA hB h
  | cvWoke t a b => exact held_cvWoke s s' t a b hA hB h
  | suspend t => exact held_suspend s s' t hA hB h
  | woke t => exact held_woke s s' t hA hB h
  | sleep t => exact held_sleep s s' t hA hB h
  | timeout t => exact held_timeout s s' t hA hB h
  | done t => exact held_done s s' t hA hB h
  | stop0 t v => exact held_stop0 s s' t v hA hB h
  | stop1 t v => exact held_stop1 s s' t v hA hB h
  | stop2 t v => exact held_stop2 s s' t v hA hB h
  | stSeen t => exact held_stSeen s s' t hA hB h
  | stAcq t m => exact held_stAcq s s' t m hA hB h
  | stPush t b => exact held_stPush s s' t b hA hB h
  | stDeq t c b => exact held_stDeq s s' t c b hA hB h
  | stFin t c b => exact held_stFin s s' t c b hA hB h
  | stInFin t => exact held_stInFin s s' t hA hB h
  | stUnlink t b => exact held_stUnlink s s' t b hA hB h
  | stSelf t b => exact held_stSelf s s' t b hA hB h
  | stWaited t => exact held_stWaited s s' t hA hB h
  | stRsDone t => exact held_stRsDone s s' t hA hB h

/-- `inv t o` of a well-formed continuation is never refused for lock reasons, and leaves a
    well-formed continuation -/
theorem held_inv (s s' : St) (t : Nat) (o : Op) (rest : List Op) (hA : Inv s) (hB : Inv2 s)
    (h : step s (.inv t o) = some s') :
    (∀ u, u ≠ t → heldAfter s' u = heldAfter s u) ∧
    (wf (heldAfter s t) (o :: rest) = true → wf (heldAfter s' t) rest = true) := by
  simp only [step] at h
  have a2 := hA.uHolder
  have a3 := hA.uNot
  have b1 := hB.opOk
  split at h
  case isFalse => simp at h
  rename_i hg
  repeat' split at h
  all_goals first | (simp at h; done) | skip
  all_goals (
    simp only [Option.some.injEq] at h
    subst h
    refine ⟨?_, ?_⟩
    · intro u hu; grind [upd]
    · simp only [wf]; grind [upd])

/-- a well-formed continuation's next operation is accepted by the model at an idle thread -/
theorem inv_accepted (s : St) (t : Nat) (o : Op) (rest : List Op) (htn : t < s.n) (hp : s.pc t = .idle)
    (hw : wf (heldAfter s t) (o :: rest) = true) : step s (.inv t o) ≠ none := by
  simp only [heldAfter, hp] at hw
  cases o <;> simp [wf] at hw <;> simp [step, htn, hp, hw]

/-- every thread's remaining program is well-formed for the lock state it will be in -/
def WfOk (p : PSt) : Prop := ∀ t, wf (heldAfter p.s t) (p.prog t) = true

theorem wfOk_init (n : Nat) (f : Bool) (prog : Nat → List Op) (h : ∀ t, wf false (prog t) = true) :
    WfOk (pinit n f prog) := by
  intro t; simpa [pinit, init, heldAfter] using h t

theorem wfOk_step (p p' : PSt) (e : Ev) (hg : Good p.s) (hw : WfOk p) (h : pstep p e = some p') : WfOk p' := by
  have hs := pstep_step p p' e h
  by_cases hinv : ∃ t o, e = .inv t o
  · obtain ⟨t, o, he⟩ := hinv
    subst he
    obtain ⟨rest, hp, hp', htn⟩ := pstep_inv p p' t o h
    obtain ⟨h1, h2⟩ := held_inv p.s p'.s t o rest hg.1 hg.2 hs
    intro u
    rw [hp']
    by_cases hut : u = t
    · subst hut
      simp only [upd_same]
      apply h2
      have := hw u; rw [hp] at this; exact this
    · rw [upd_other _ _ _ _ hut, h1 u hut]; exact hw u
  · have hne : ∀ t o, e ≠ .inv t o := fun t o he => hinv ⟨t, o, he⟩
    have hp := pstep_prog p p' e hne h
    intro u
    rw [hp, held_step_all p.s p'.s e hg.1 hg.2 hne hs u]
    exact hw u

theorem runLog_wfOk (log : List Ev) : ∀ (p p' : PSt), Good p.s → WfOk p → runLog pstep p log = some p' →
    WfOk p' := by
  induction log with
  | nil => intro p p' _ hw h; simp at h; subst h; exact hw
  | cons e es ih =>
    intro p p' hg hw h
    simp only [runLog] at h
    cases hs : pstep p e with
    | none => simp [hs] at h
    | some p1 =>
      simp only [hs] at h
      exact ih p1 p' (good_step _ _ _ hg (pstep_step p p1 e hs)) (wfOk_step p p1 e hg hw hs) h

theorem runLog_n (l : List Ev) : ∀ (s s' : St), runLog step s l = some s' → s'.n = s.n := by
  induction l with
  | nil => intro s s' h; simp at h; subst h; rfl
  | cons e es ih =>
    intro s s' h
    simp only [runLog] at h
    cases hs : step s e with
    | none => simp [hs] at h
    | some s1 => simp only [hs] at h; rw [ih s1 s' h, step_n _ _ _ hs]

end PikaVerif.CV
