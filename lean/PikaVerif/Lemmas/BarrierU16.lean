import PikaVerif.Lemmas.BarrierU15
/-! C09u, coarse barrier: the measure with a miss budget (`pot`), local lemmas. -/
namespace PikaVerif.Barrier
open PikaVerif PikaVerif.C09Barrier

/-- misses the thread can still make in its current round: distance the cursor can still travel -/
def bud (e cur st : Nat) (w : Bool) : Nat := if w then st - cur else (e - cur) + st

/-- cost of one call of `base.arrive` when `expected ≤ B` (with the miss budget) -/
def cc2 (B : Nat) : Nat := 6 * B + 10

/-- potential of a thread: rank of the pc + twice the miss budget of the current round -/
def pot (B : Nat) (st : Nat) (w : Bool) : Pc → Nat
  | .fin => 0
  | .idle => 1
  | .retn => 2
  | .polling => 3
  | .arr u => u * cc2 B + 3
  | .want u => u * cc2 B + 4
  | .wantDrop => cc2 B + 5
  | .try u cur _ m => u * cc2 B + 5 * m + 8 + 2 * bud ((m + 1) / 2) cur st w
  | .try2 u c _ m => u * cc2 B + 5 * m + 7 + 2 * bud ((m + 1) / 2) c st w
  | .won u _ => u * cc2 B + 6
  | .pub u _ => u * cc2 B + 5

def opRank2 (B : Nat) : Op → Nat
  | .arrive u => u * cc2 B + 4
  | .aw => cc2 B + 4
  | .drop => cc2 B + 5
  | .wait => 3

/-- the thread an event belongs to -/
def thr : Ev → Nat
  | .inv t _ | .adj t | .load t _ _ | .start t _ | .cas t _ _ _ | .cas2 t _ _ _ | .last t _ _
  | .compl t | .publish t _ _ | .poll t _ _ | .ret t | .done t => t

theorem pot_afterCall (B st : Nat) (w aw : Bool) (u : Nat) : pot B st w (afterCall aw u) ≤ u * cc2 B + 3 := by
  unfold afterCall
  split
  · split <;> simp [pot]
  · simp [pot]

theorem step_local (s s' : St) (e : Ev) (h : step s e = some s') :
    thr e < s.n ∧ ∀ u, u ≠ thr e → s'.pc u = s.pc u := by
  cases e <;> simp only [step] at h <;> (repeat' split at h) <;>
    first
    | (simp at h; done)
    | (simp only [Option.some.injEq] at h; subst h; simp only [thr]
       refine ⟨by grind, fun u hu => ?_⟩
       simp only [upd_other _ _ _ _ hu])

theorem ghost_local (g : GSt) (e : Ev) (p' : PSt) :
    ∀ u, u ≠ thr e → (ghost g e p').st u = g.st u ∧ (ghost g e p').w u = g.w u := by
  intro u hu
  cases e <;> simp only [thr] at hu
  case cas t a b o => cases o <;> simp [ghost, upd, hu]
  case cas2 t a b o => cases o <;> simp [ghost, upd, hu]
  all_goals simp [ghost, upd, hu]

attribute [local grind] pot opRank2 isStutter

/-- events that do not touch the ghost: the potential of the acting thread strictly decreases -/
theorem pot_simple (B : Nat) (s s' : St) (e : Ev) (st : Nat) (w : Bool) (h : step s e = some s')
    (hi : isInv e = false) (hst : isStutter e = false)
    (h1 : ∀ t a, e ≠ .start t a) (h2 : ∀ t a b o, e ≠ .cas t a b o) (h3 : ∀ t a b o, e ≠ .cas2 t a b o) :
    pot B st w (s'.pc (thr e)) < pot B st w (s.pc (thr e)) := by
  cases e
  case inv t o => simp [isInv] at hi
  case start t a => exact absurd rfl (h1 t a)
  case cas t a b o => exact absurd rfl (h2 t a b o)
  case cas2 t a b o => exact absurd rfl (h3 t a b o)
  all_goals
    simp only [step] at h <;> (repeat' split at h) <;>
    first
    | (simp at h; done)
    | (simp only [Option.some.injEq] at h; subst h; simp only [thr, upd_same]
       grind [pot_afterCall])

theorem pot_inv (B : Nat) (s s' : St) (t : Nat) (o : Op) (st : Nat) (w : Bool) (h : step s (.inv t o) = some s') :
    pot B st w (s'.pc t) + 1 = pot B st w (s.pc t) + opRank2 B o := by
  simp only [step] at h
  (repeat' split at h) <;> first | (simp at h; done) | skip
  all_goals (simp only [Option.some.injEq] at h; subst h; simp only [upd_same]; grind)

theorem calls_succ2 (B u : Nat) (h : 1 ≤ u) : u * cc2 B = (u - 1) * cc2 B + cc2 B := by
  rw [← Nat.succ_mul]; congr 1; omega

theorem pot_start (B : Nat) (s s' : St) (t a : Nat) (st : Nat) (w : Bool) (hB : s.expected ≤ B)
    (h : step s (.start t a) = some s') : pot B a false (s'.pc t) < pot B st w (s.pc t) := by
  simp only [step] at h
  (repeat' split at h) <;> first | (simp at h; done) | skip
  rename_i hg x u hpc hu
  simp only [Option.some.injEq] at h; subst h
  simp only [upd_same, hpc, pot, bud, Bool.false_eq_true, if_false]
  have := calls_succ2 B u hu
  have hc : cc2 B = 6 * B + 10 := rfl
  have := hg.2
  omega

end PikaVerif.Barrier
