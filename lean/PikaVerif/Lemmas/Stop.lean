import PikaVerif.Model.Stop
namespace PikaVerif.Stop
open PikaVerif

theorem erase_ne_nil {l : List Nat} {c : Nat} (h : l.erase c ≠ []) : l ≠ [] := by
  intro e; subst e; simp at h

def holds : Pc → Bool
  | .locked _ => true
  | _ => false

def isLoopKind : Kind → Bool
  | .rs | .relock => true
  | _ => false

def isRelock : Kind → Bool
  | .relock => true
  | _ => false

/-- the winning request_stop is inside its callback loop -/
def wAct : Pc → Nat
  | .locked k => b2n (isLoopKind k)
  | .pre _ => 1
  | .exec _ inl | .body _ inl | .post _ inl => b2n (!inl)
  | .ld k | .cas k _ | .spin k => b2n (isRelock k)
  | _ => 0

/-- the winning request_stop is about to return true -/
def wRet : Pc → Nat
  | .retn .rs r => b2n r
  | _ => 0

def lockOnly : Kind → Bool
  | .unreg _ | .relock => true
  | _ => false

structure InvA (s : St) : Prop where
  fix : s.fixCas = true
  lockHolder : ∀ a, holds (s.pc a) = true → s.lock = some a
  lockConv : ∀ r, s.lock = some r → holds (s.pc r) = true ∧ r < s.n
  outside : ∀ a, s.n ≤ a → s.pc a = .idle
  winReq : s.req = false → s.winner = none
  winReq2 : s.winner = none → s.req = false
  winIs : ∀ a, 0 < wAct (s.pc a) + wRet (s.pc a) → s.winner = some a
  winOne : ∀ w, s.winner = some w → s.rsTrue + wAct (s.pc w) + wRet (s.pc w) = 1 ∧ w < s.n
  winNone : s.winner = none → s.rsTrue = 0
  casReq : ∀ a k b, s.pc a = .cas k b → (b = false ∨ lockOnly k = true)
  regNoReq : ∀ a c, s.pc a = .locked (.reg c) → s.req = false
  listWin : s.list ≠ [] → ∀ w, s.winner = some w → wAct (s.pc w) = 1

theorem invA_init (n K : Nat) (id : Nat → Nat) (f2 : Bool) (m : Nat) : InvA (init n K id true f2 m) := by
  refine ⟨?_, ?_, ?_, ?_, ?_, ?_, ?_, ?_, ?_, ?_, ?_, ?_⟩ <;> simp [init, holds, wAct, wRet]

attribute [local grind] holds wAct wRet lockOnly isLoopKind isRelock b2n checked isBody

set_option hygiene false in
macro "stopA" : tactic => `(tactic| (
  simp only [step] at h
  obtain ⟨h0,h1,h2,h3,h4,h4',h5,h6,h7,h8,h9,h10⟩ := hi
  split at h
  case isFalse => simp at h
  rename_i hg
  repeat' split at h
  all_goals first | (simp at h; done) | skip
  all_goals try cases ‹Kind›
  all_goals (
    simp only [Option.some.injEq] at h
    subst h
    refine ⟨?_, ?_, ?_, ?_, ?_, ?_, ?_, ?_, ?_, ?_, ?_, ?_⟩ <;> try dsimp only
  )
  all_goals first
    | assumption
    | (intro u; grind [upd])
    | grind [upd, erase_ne_nil]))

theorem stepA_inv (s s' : St) (a : Nat) (k : Kind) (hi : InvA s) (h : step s (.inv a k) = some s') : InvA s' := by stopA
theorem stepA_ret (s s' : St) (a : Nat) (r : Bool) (hi : InvA s) (h : step s (.ret a r) = some s') : InvA s' := by stopA
theorem stepA_load (s s' : St) (a : Nat) (lk rq : Bool) (src : Nat) (hi : InvA s) (h : step s (.load a lk rq src) = some s') : InvA s' := by stopA
theorem stepA_casFail (s s' : St) (a : Nat) (lk rq : Bool) (src : Nat) (hi : InvA s) (h : step s (.casFail a lk rq src) = some s') : InvA s' := by stopA
theorem stepA_reload (s s' : St) (a : Nat) (lk rq : Bool) (src : Nat) (hi : InvA s) (h : step s (.reload a lk rq src) = some s') : InvA s' := by stopA
theorem stepA_acq (s s' : St) (a : Nat) (hi : InvA s) (h : step s (.acq a) = some s') : InvA s' := by stopA
theorem stepA_deq (s s' : St) (a c : Nat) (m : Bool) (hi : InvA s) (h : step s (.deq a c m) = some s') : InvA s' := by stopA
theorem stepA_rsDone (s s' : St) (a : Nat) (hi : InvA s) (h : step s (.rsDone a) = some s') : InvA s' := by stopA
theorem stepA_preExec (s s' : St) (a c : Nat) (hi : InvA s) (h : step s (.preExec a c) = some s') : InvA s' := by stopA
theorem stepA_cbBegin (s s' : St) (a c : Nat) (hi : InvA s) (h : step s (.cbBegin a c) = some s') : InvA s' := by stopA
theorem stepA_cbEnd (s s' : St) (a c : Nat) (hi : InvA s) (h : step s (.cbEnd a c) = some s') : InvA s' := by stopA
theorem stepA_finStore (s s' : St) (a c : Nat) (r : Bool) (hi : InvA s) (h : step s (.finStore a c r) = some s') : InvA s' := by stopA
theorem stepA_inFin (s s' : St) (a c : Nat) (hi : InvA s) (h : step s (.inFin a c) = some s') : InvA s' := by stopA
theorem stepA_push (s s' : St) (a c : Nat) (b : Bool) (hi : InvA s) (h : step s (.push a c b) = some s') : InvA s' := by stopA
theorem stepA_unlink (s s' : St) (a c : Nat) (r : Bool) (hi : InvA s) (h : step s (.unlink a c r) = some s') : InvA s' := by stopA
theorem stepA_selfChk (s s' : St) (a c : Nat) (e p : Bool) (hi : InvA s) (h : step s (.selfChk a c e p) = some s') : InvA s' := by stopA
theorem stepA_waited (s s' : St) (a c : Nat) (hi : InvA s) (h : step s (.waited a c) = some s') : InvA s' := by stopA
theorem stepA_srcInc (s s' : St) (a : Nat) (hi : InvA s) (h : step s (.srcInc a) = some s') : InvA s' := by stopA
theorem stepA_srcDec (s s' : St) (a : Nat) (hi : InvA s) (h : step s (.srcDec a) = some s') : InvA s' := by stopA
theorem stepA_query (s s' : St) (a : Nat) (x y : Bool) (hi : InvA s) (h : step s (.query a x y) = some s') : InvA s' := by stopA
theorem stepA_done (s s' : St) (a : Nat) (hi : InvA s) (h : step s (.done a) = some s') : InvA s' := by stopA

theorem stepA (s s' : St) (e : Ev) (hi : InvA s) (h : step s e = some s') : InvA s' := by
  cases e with
  | inv a k => exact stepA_inv s s' a k hi h
  | ret a r => exact stepA_ret s s' a r hi h
  | load a lk rq src => exact stepA_load s s' a lk rq src hi h
  | casFail a lk rq src => exact stepA_casFail s s' a lk rq src hi h
  | reload a lk rq src => exact stepA_reload s s' a lk rq src hi h
  | acq a => exact stepA_acq s s' a hi h
  | deq a c m => exact stepA_deq s s' a c m hi h
  | rsDone a => exact stepA_rsDone s s' a hi h
  | preExec a c => exact stepA_preExec s s' a c hi h
  | cbBegin a c => exact stepA_cbBegin s s' a c hi h
  | cbEnd a c => exact stepA_cbEnd s s' a c hi h
  | finStore a c r => exact stepA_finStore s s' a c r hi h
  | inFin a c => exact stepA_inFin s s' a c hi h
  | push a c b => exact stepA_push s s' a c b hi h
  | unlink a c r => exact stepA_unlink s s' a c r hi h
  | selfChk a c e p => exact stepA_selfChk s s' a c e p hi h
  | waited a c => exact stepA_waited s s' a c hi h
  | srcInc a => exact stepA_srcInc s s' a hi h
  | srcDec a => exact stepA_srcDec s s' a hi h
  | query a x y => exact stepA_query s s' a x y hi h
  | done a => exact stepA_done s s' a hi h

end PikaVerif.Stop
