import PikaVerif.Model.SndRef
/-!
Lemmas for `Model/SndRef.lean`: the receiver contract WITH payload locations, by structural induction
(`spec`): `start` ends with exactly one call of the connected receiver, with the denoted signal and a
payload location that is alive (allocated by this operation, not destroyed), older operation states
untouched, nothing destroyed was accessed.
-/
namespace PikaVerif.SndRef
open PikaVerif.Snd

theorem den_emb (env : List Int) : ∀ t : RT, den t = denote (emb t) env
  | .leaf (.value vs) => by simp [den, emb, denote]
  | .leaf (.error e) => by simp [den, emb, denote]
  | .leaf .stopped => by simp [den, emb, denote]
  | .thn f p => by simp [den, emb, denote, den_emb env p]
  | .rs p => by simp [den, emb, denote, den_emb env p]
  | .dos p => by simp [den, emb, denote, den_emb env p]
  | .wa2 a b => by simp [den, emb, denote, denotes, den_emb env a, den_emb env b]
  | .sp p => by simp [den, emb, denote, den_emb env p]

/-- nothing has been released, nothing at or above the allocation pointer is destroyed -/
structure Pre (s : M) : Prop where
  rel : s.released = false
  fresh : ∀ a, s.next ≤ a → s.dead a = false

/-- `s'` extends `s`: older operation states are neither destroyed nor modified, log and uaf unchanged -/
structure Ext (s s' : M) : Prop where
  next : s.next ≤ s'.next
  dead : ∀ a, a < s.next → s'.dead a = s.dead a
  cells : ∀ a, a < s.next → s'.cells a = s.cells a
  log : s'.log = s.log
  uaf : s'.uaf = s.uaf

/-- the payload location is an operation state allocated at or after `lo` that is not destroyed -/
def Live (lo : Nat) (l : Loc) (s : M) : Prop := ∀ a, l = some a → lo ≤ a ∧ a < s.next ∧ s.dead a = false

theorem Ext.refl (s : M) : Ext s s := ⟨Nat.le_refl _, fun _ _ => rfl, fun _ _ => rfl, rfl, rfl⟩

theorem Ext.trans {s s1 s2 : M} (h1 : Ext s s1) (h2 : Ext s1 s2) : Ext s s2 :=
  ⟨Nat.le_trans h1.next h2.next,
   fun a ha => (h2.dead a (Nat.lt_of_lt_of_le ha h1.next)).trans (h1.dead a ha),
   fun a ha => (h2.cells a (Nat.lt_of_lt_of_le ha h1.next)).trans (h1.cells a ha),
   h2.log.trans h1.log, h2.uaf.trans h1.uaf⟩

theorem ext_alloc (c : WCell) (s : M) : Ext s (alloc c s) :=
  ⟨Nat.le_succ _, fun _ _ => rfl, fun a ha => by simp [alloc, upd, Nat.ne_of_lt ha], rfl, rfl⟩

theorem pre_alloc (c : WCell) {s : M} (h : Pre s) : Pre (alloc c s) :=
  ⟨h.rel, fun a ha => h.fresh a (Nat.le_of_succ_le ha)⟩

theorem ext_setCell {s s' : M} (x : Nat) (c : WCell) (hx : s.next ≤ x) (h : Ext s s') : Ext s (setCell x c s') :=
  ⟨h.next, h.dead, fun a ha => by
      have : a ≠ x := Nat.ne_of_lt (Nat.lt_of_lt_of_le ha hx)
      simp [setCell, upd, this, h.cells a ha], h.log, h.uaf⟩

theorem pre_setCell {s : M} (x : Nat) (c : WCell) (h : Pre s) : Pre (setCell x c s) := ⟨h.rel, h.fresh⟩

theorem touch_eq {s : M} {a : Nat} (hp : Pre s) (hd : s.dead a = false) : touch a s = s := by
  simp [touch, gone, hp.rel, hd]

theorem use_eq {s : M} {lo : Nat} {l : Loc} (hp : Pre s) (hl : Live lo l s) : use l s = s := by
  cases l with
  | none => rfl
  | some a => exact touch_eq hp (hl a rfl).2.2

theorem live_none (lo : Nat) (s : M) : Live lo none s := fun _ h => by cases h

theorem live_mono {lo lo' : Nat} {l : Loc} {s : M} (h : lo' ≤ lo) (hl : Live lo l s) : Live lo' l s :=
  fun a ha => ⟨Nat.le_trans h (hl a ha).1, (hl a ha).2⟩

theorem live_locOf {lo x : Nat} {s : M} (sig : Sig) (h1 : lo ≤ x) (h2 : x < s.next) (h3 : s.dead x = false) :
    Live lo (locOf sig x) s := by
  intro a ha
  unfold locOf at ha
  split at ha
  · cases ha; exact ⟨h1, h2, h3⟩
  · cases ha

/-- The receiver contract with payload locations. -/
def Spec (v : Var) (t : RT) : Prop :=
  ∀ (k : Rc) (s : M), Pre s →
    ∃ s' l, start v t k s = k (den t) l s' ∧ Ext s s' ∧ Pre s' ∧ Live s.next l s'

theorem wa_finish (sa sb : Sig) :
    waFinish { waStep 1 { waStep 0 { remaining := 2 } sa with remaining := 1 } sb with remaining := 0 } =
      some (join [sa, sb]) := by
  cases sa <;> cases sb <;> simp [waStep, waFinish, join, joinAux]

theorem waStep_remaining (i : Nat) (w : WCell) (sig : Sig) : (waStep i w sig).remaining = w.remaining := by
  cases sig <;> grind [waStep]

theorem spec_leaf (v : Var) (sig : Sig) : Spec v (.leaf sig) := by
  intro k s hp
  refine ⟨alloc {} s, locOf sig s.next, rfl, ext_alloc _ s, pre_alloc _ hp, ?_⟩
  exact live_locOf sig (Nat.le_refl _) (Nat.lt_succ_self _) (hp.fresh _ (Nat.le_refl _))

theorem spec_thn (v : Var) (f : Fn) (p : RT) (ih : Spec v p) : Spec v (.thn f p) := by
  intro k s hp
  obtain ⟨s1, l, e1, x1, p1, l1⟩ := ih (thenR f k) s hp
  cases hd : den p with
  | value vs =>
    refine ⟨s1, none, ?_, x1, p1, live_none _ _⟩
    simp only [start, e1, den, hd, thenR, use_eq p1 l1]
  | error e =>
    refine ⟨s1, l, ?_, x1, p1, l1⟩
    simp only [start, e1, den, hd, thenR, applyThen]
  | stopped =>
    refine ⟨s1, l, ?_, x1, p1, l1⟩
    simp only [start, e1, den, hd, thenR, applyThen]

theorem spec_rs (v : Var) (p : RT) (ih : Spec v p) : Spec v (.rs p) := by
  intro k s hp
  obtain ⟨s1, l, e1, x1, p1, l1⟩ := ih (fwdR s.next k) (alloc {} s) (pre_alloc _ hp)
  have hd : s1.dead s.next = false := by
    rw [x1.dead s.next (Nat.lt_succ_self _)]; exact hp.fresh _ (Nat.le_refl _)
  refine ⟨s1, l, ?_, (ext_alloc _ s).trans x1, p1, live_mono (Nat.le_succ _) l1⟩
  simp only [start, e1, den, fwdR, touch_eq p1 hd]

theorem spec_dos (p : RT) (ih : Spec Var.pinned p) : Spec Var.pinned (.dos p) := by
  intro k s hp
  obtain ⟨s1, l, e1, x1, p1, l1⟩ := ih (dosR Var.pinned s.next k) (alloc {} s) (pre_alloc _ hp)
  have hd : s1.dead s.next = false := by
    rw [x1.dead s.next (Nat.lt_succ_self _)]; exact hp.fresh _ (Nat.le_refl _)
  have hx : Ext s s1 := (ext_alloc _ s).trans x1
  refine ⟨freeRange (s.next + 1) s1.next s1, none, ?_, ?_, ?_, live_none _ _⟩
  · simp only [start, e1, den]
    simp only [dosR, touch_eq p1 hd, use_eq p1 l1]
    cases den p <;> simp [Var.pinned]
  · refine ⟨hx.next, fun a ha => ?_, hx.cells, hx.log, hx.uaf⟩
    have : ¬ (s.next + 1 ≤ a) := by omega
    simp [freeRange, this, hx.dead a ha]
  · refine ⟨p1.rel, fun a ha => ?_⟩
    have h1 : s1.dead a = false := p1.fresh a ha
    have : ¬ (a < s1.next) := by simp only [freeRange] at ha; omega
    simp [freeRange, this, h1]

theorem spec_sp (v : Var) (p : RT) (ih : Spec v p) : Spec v (.sp p) := by
  intro k s hp
  obtain ⟨s1, l, e1, x1, p1, l1⟩ := ih (storeR s.next) (alloc {} s) (pre_alloc _ hp)
  have hd : s1.dead s.next = false := by
    rw [x1.dead s.next (Nat.lt_succ_self _)]; exact hp.fresh _ (Nat.le_refl _)
  have hx : Ext s s1 := (ext_alloc _ s).trans x1
  have hn : s.next < s1.next := Nat.lt_of_lt_of_le (Nat.lt_succ_self _) x1.next
  let s2 := setCell s.next { s1.cells s.next with stored := some (den p) } s1
  have p2 : Pre s2 := pre_setCell _ _ p1
  have hd2 : s2.dead s.next = false := hd
  refine ⟨s2, locOf (den p) s.next, ?_, ext_setCell _ _ (Nat.le_refl _) hx, p2,
    live_locOf _ (Nat.le_refl _) hn hd⟩
  simp only [start, e1, den, storeR, touch_eq p1 hd, use_eq p1 l1]
  show visit s.next k s2 = _
  simp only [visit, touch_eq p2 hd2]
  simp [s2, setCell]

theorem spec_wa2 (v : Var) (a b : RT) (iha : Spec v a) (ihb : Spec v b) : Spec v (.wa2 a b) := by
  intro k s hp
  have p0 : Pre (alloc { remaining := 2 } s) := pre_alloc _ hp
  have hd0 : (alloc { remaining := 2 } s).dead s.next = false := hp.fresh _ (Nat.le_refl _)
  obtain ⟨s1, la, e1, x1, p1, l1⟩ := iha (waR s.next 0 k) (alloc { remaining := 2 } s) p0
  have hd1 : s1.dead s.next = false := by
    rw [x1.dead s.next (Nat.lt_succ_self _)]; exact hd0
  have hc1 : s1.cells s.next = { remaining := 2 } := by
    rw [x1.cells s.next (Nat.lt_succ_self _)]; simp [alloc]
  have hx1 : Ext s s1 := (ext_alloc _ s).trans x1
  have hn1 : s.next < s1.next := Nat.lt_of_lt_of_le (Nat.lt_succ_self _) x1.next
  -- the state after the first predecessor's receiver call
  let w1 : WCell := { waStep 0 { remaining := 2 } (den a) with remaining := 1 }
  let s2 := setCell s.next w1 s1
  have p2 : Pre s2 := pre_setCell _ _ p1
  have hd2 : s2.dead s.next = false := hd1
  have hx2 : Ext s s2 := ext_setCell _ _ (Nat.le_refl _) hx1
  have hfirst : start v a (waR s.next 0 k) (touch s.next (alloc { remaining := 2 } s)) = s2 := by
    rw [touch_eq p0 hd0, e1]
    simp only [waR, touch_eq p1 hd1, use_eq p1 l1, hc1, waStep_remaining]
    simp [s2, w1]
  obtain ⟨s3, lb, e3, x3, p3, l3⟩ := ihb (waR s.next 1 k) s2 p2
  have hn2 : s.next < s2.next := hn1
  have hd3 : s3.dead s.next = false := by rw [x3.dead s.next hn2]; exact hd2
  have hc3 : s3.cells s.next = w1 := by
    rw [x3.cells s.next hn2]; simp [s2, setCell]
  have hx3 : Ext s s3 := hx2.trans x3
  let w2 : WCell := { waStep 1 w1 (den b) with remaining := 0 }
  let s4 := setCell s.next w2 s3
  have hfin : waFinish w2 = some (join [den a, den b]) := wa_finish (den a) (den b)
  refine ⟨s4, locOf (join [den a, den b]) s.next, ?_, ext_setCell _ _ (Nat.le_refl _) hx3,
    pre_setCell _ _ p3, live_locOf _ (Nat.le_refl _) (Nat.lt_of_lt_of_le hn2 x3.next) hd3⟩
  simp only [start, hfirst, touch_eq p2 hd2, e3, den]
  simp only [waR, touch_eq p3 hd3, use_eq p3 l3, hc3, waStep_remaining]
  have : (1 : Nat) - 1 = 0 := rfl
  simp only [w1, this, if_true]
  show (match waFinish w2 with
    | some sg => k sg (locOf sg s.next) s4
    | none => { s4 with uaf := true }) = _
  rw [hfin]

/-- **Receiver contract with payload locations**, the code as it is. -/
theorem spec : ∀ t : RT, Spec Var.pinned t
  | .leaf sig => spec_leaf _ sig
  | .thn f p => spec_thn _ f p (spec p)
  | .rs p => spec_rs _ p (spec p)
  | .dos p => spec_dos p (spec p)
  | .wa2 a b => spec_wa2 _ a b (spec a) (spec b)
  | .sp p => spec_sp _ p (spec p)

theorem pre_init : Pre M.init := ⟨rfl, fun _ _ => rfl⟩

end PikaVerif.SndRef
