import PikaVerif.Lemmas.BarrierU13
/-! C09u, coarse barrier: the sweep invariant `SW` is preserved by every accepted event. -/
namespace PikaVerif.Barrier
open PikaVerif PikaVerif.C09Barrier

def isTry : Pc → Bool
  | .try _ _ _ _ | .try2 _ _ _ _ => true
  | _ => false

theorem SWt_of_not_try {s : St} {st : Nat} {w : Bool} {pc : Pc} (h : isTry pc = false) : SWt s st w pc := by
  cases pc <;> simp [isTry] at h <;> simp [SWt]

/-- a miss on node `c = norm cur` (found full): the swept range grows by that node -/
theorem sweep_miss {s : St} {r e cur st c : Nat} {w : Bool} (h : Sweep s r e cur st w) (hle : cur ≤ e)
    (hc : c = if cur = e then 0 else cur) (hfull : s.tk r c = fullB s.phase)
    (hnot : ¬ ∀ c', c' < e → s.tk r c' = fullB s.phase) :
    Sweep s r e (c + 1) st (w || decide (cur = e)) := by
  obtain ⟨hst, h⟩ := h
  refine ⟨hst, ?_⟩
  by_cases hce : cur = e
  · rw [if_pos hce] at hc; subst hc
    cases w <;> simp only [Bool.false_eq_true, if_false, if_true, Bool.false_or, Bool.true_or, hce,
      decide_true] at h ⊢
    · refine ⟨?_, fun c' a b => h.2 c' a (by omega), fun c' a => ?_⟩
      · apply Classical.byContradiction; intro h0
        exact hnot (fun c' hc' => h.2 c' (by omega) (by omega))
      · have : c' = 0 := by omega
        subst this; exact hfull
    · omega
  · rw [if_neg hce] at hc; subst hc
    have hlt : c < e := by omega
    cases w <;> simp only [Bool.false_eq_true, if_false, if_true, Bool.false_or, Bool.true_or, hce,
      decide_false] at h ⊢
    · refine ⟨by omega, fun c' a b => ?_⟩
      by_cases hcc : c' = c
      · subst hcc; exact hfull
      · exact h.2 c' a (by omega)
    · refine ⟨?_, h.2.1, fun c' a => ?_⟩
      · apply Classical.byContradiction; intro h0
        apply hnot; intro c' hc'
        by_cases hcs : st ≤ c'
        · exact h.2.1 c' hcs hc'
        · exact h.2.2 c' (by omega)
      · by_cases hcc : c' = c
        · subst hcc; exact hfull
        · exact h.2.2 c' (by omega)

/-- `seen` on node `c = norm cur`: same swept range, the cursor is normalised -/
theorem sweep_seen {s : St} {r e cur st c : Nat} {w : Bool} (h : Sweep s r e cur st w) (hle : cur ≤ e)
    (hc : c = if cur = e then 0 else cur) :
    Sweep s r e c st (w || decide (cur = e)) := by
  obtain ⟨hst, h⟩ := h
  refine ⟨hst, ?_⟩
  by_cases hce : cur = e
  · rw [if_pos hce] at hc; subst hc
    cases w <;> simp only [Bool.false_eq_true, if_false, if_true, Bool.false_or, Bool.true_or, hce,
      decide_true] at h ⊢
    · exact ⟨by omega, fun c' a b => h.2 c' a (by omega), fun c' a => by omega⟩
    · omega
  · rw [if_neg hce] at hc; subst hc
    cases w <;> simp only [Bool.false_eq_true, if_false, if_true, Bool.false_or, Bool.true_or, hce,
      decide_false] at h ⊢ <;> exact h

/-- a searching thread's round is never completely full -/
theorem not_all_full (s : St) (hr : Reachable s) (t : Nat) (ht : t < s.n) (r m : Nat)
    (hin : inR r (s.pc t) = 1) (hm : m = mr s.e0 r) (hm1 : 1 < m) :
    ¬ ∀ c', c' < (m + 1) / 2 → s.tk r c' = fullB s.phase := by
  intro hall
  subst hm
  obtain ⟨c, hc, hav⟩ := C09B_slot_available s hr t ht r hin hm1
  rw [nodes_eq hm1] at hc
  have := hall c hc
  rcases hav with h | h
  · rw [h] at this; exact fullB_ne _ this.symm
  · rw [h.1] at this; exact fullB_ne_halfB _ this.symm

theorem sw_simple {s s' : St} {st : Nat → Nat} {w : Nat → Bool}
    (hsw : ∀ t, SWt s (st t) (w t) (s.pc t)) (hm : TkMono s s')
    (hpc : ∀ t, s'.pc t = s.pc t ∨ isTry (s'.pc t) = false) : ∀ t, SWt s' (st t) (w t) (s'.pc t) := by
  intro t
  rcases hpc t with h | h
  · rw [h]; exact SWt_frame hm _ _ _ (hsw t)
  · exact SWt_of_not_try h

theorem step_pc_simple (s s' : St) (e : Ev) (h : step s e = some s')
    (h1 : ∀ t a, e ≠ .start t a) (h2 : ∀ t a b o, e ≠ .cas t a b o) (h3 : ∀ t a b o, e ≠ .cas2 t a b o) :
    ∀ t, s'.pc t = s.pc t ∨ isTry (s'.pc t) = false := by
  intro u
  cases e
  case start t a => exact absurd rfl (h1 t a)
  case cas t a b o => exact absurd rfl (h2 t a b o)
  case cas2 t a b o => exact absurd rfl (h3 t a b o)
  all_goals
    simp only [step] at h <;> (repeat' split at h) <;>
    first
    | (simp at h; done)
    | (simp only [Option.some.injEq] at h; subst h; grind [upd, afterCall, isTry])

end PikaVerif.Barrier
