import PikaVerif.Lemmas.Erase
/-! Simulation: the implementation model `exec` refines the value-semantics specification `specExec`. -/
set_option linter.unusedVariables false
namespace PikaVerif.Erase
open PikaVerif

@[simp] theorem absSlot_live (sl : Slot) : (absSlot sl).live = sl.live := by
  unfold absSlot; split <;> (try split) <;> simp_all [ASlot.live]

theorem absSt_live (s : St) (i : Nat) : (absSt s i).live = (s.slot i).live := absSlot_live _

theorem callRes_core (o : Obj) (x : Int) (r : Bool) : (callRes o x r).core = aCall o.ty o.val x := by
  unfold callRes aCall; split <;> simp [Res.core]

theorem complRes_core (o : Obj) : (complRes o).core = aCompl o.ty o.val := by
  unfold complRes aCompl; repeat' split
  all_goals simp [Res.core]

set_option hygiene false in
macro "sim_step" : tactic => `(tactic| (
  obtain ⟨h1,h2,h3,h4,h5,h6,h7,h8,h9,h10,h11,h12⟩ := hi
  simp only [exec, execStore, specExec, inval, absSt_live, St.put, St.die, St.dieO, St.own, St.ownO, St.born, St.leak,
    Slot.dead, Slot.emptyW]
  repeat' split
  all_goals (refine ⟨?_, ?_⟩ <;> (try intro k) <;> simp only [absSt, absSlot, upd, Res.core, callRes_core, complRes_core])
  all_goals first
    | rfl
    | grind [absSt, absSlot, callRes, aCall, complRes, aCompl, Res.core]))

theorem sim_new (c : Cfg) (s : St) (hi : Inv c s) (i : Nat) :
    (∀ k, absSt (exec c s (.new i)).st k = (specExec c (absSt s) (.new i)).1 k) ∧
    (exec c s (.new i)).res.core = (specExec c (absSt s) (.new i)).2 := by
  sim_step
theorem sim_newp (c : Cfg) (s : St) (hi : Inv c s) (i : Nat) (ty : PTy) (v : Int) (cp : Bool) :
    (∀ k, absSt (exec c s (.newp i ty v cp)).st k = (specExec c (absSt s) (.newp i ty v cp)).1 k) ∧
    (exec c s (.newp i ty v cp)).res.core = (specExec c (absSt s) (.newp i ty v cp)).2 := by
  sim_step
theorem sim_del (c : Cfg) (s : St) (hi : Inv c s) (i : Nat) :
    (∀ k, absSt (exec c s (.del i)).st k = (specExec c (absSt s) (.del i)).1 k) ∧
    (exec c s (.del i)).res.core = (specExec c (absSt s) (.del i)).2 := by
  sim_step
theorem sim_set (c : Cfg) (s : St) (hi : Inv c s) (i : Nat) (ty : PTy) (v : Int) (cp : Bool) :
    (∀ k, absSt (exec c s (.set i ty v cp)).st k = (specExec c (absSt s) (.set i ty v cp)).1 k) ∧
    (exec c s (.set i ty v cp)).res.core = (specExec c (absSt s) (.set i ty v cp)).2 := by
  sim_step
theorem sim_reset (c : Cfg) (s : St) (hi : Inv c s) (i : Nat) :
    (∀ k, absSt (exec c s (.reset i)).st k = (specExec c (absSt s) (.reset i)).1 k) ∧
    (exec c s (.reset i)).res.core = (specExec c (absSt s) (.reset i)).2 := by
  sim_step
theorem sim_copy (c : Cfg) (s : St) (hi : Inv c s) (i j : Nat) :
    (∀ k, absSt (exec c s (.copy i j)).st k = (specExec c (absSt s) (.copy i j)).1 k) ∧
    (exec c s (.copy i j)).res.core = (specExec c (absSt s) (.copy i j)).2 := by
  sim_step
theorem sim_move (c : Cfg) (s : St) (hi : Inv c s) (i j : Nat) :
    (∀ k, absSt (exec c s (.move i j)).st k = (specExec c (absSt s) (.move i j)).1 k) ∧
    (exec c s (.move i j)).res.core = (specExec c (absSt s) (.move i j)).2 := by
  have m1 := @movesFrom_fn (c.kind i) (c.kind j)
  have m3 := @movesFrom_snd (c.kind i) (c.kind j)
  sim_step
theorem sim_cctor (c : Cfg) (s : St) (hi : Inv c s) (i j : Nat) :
    (∀ k, absSt (exec c s (.cctor i j)).st k = (specExec c (absSt s) (.cctor i j)).1 k) ∧
    (exec c s (.cctor i j)).res.core = (specExec c (absSt s) (.cctor i j)).2 := by
  sim_step
theorem sim_mctor (c : Cfg) (s : St) (hi : Inv c s) (i j : Nat) :
    (∀ k, absSt (exec c s (.mctor i j)).st k = (specExec c (absSt s) (.mctor i j)).1 k) ∧
    (exec c s (.mctor i j)).res.core = (specExec c (absSt s) (.mctor i j)).2 := by
  have m1 := @movesFrom_fn (c.kind i) (c.kind j)
  have m3 := @movesFrom_snd (c.kind i) (c.kind j)
  sim_step
theorem sim_swap (c : Cfg) (s : St) (hi : Inv c s) (i j : Nat) :
    (∀ k, absSt (exec c s (.swap i j)).st k = (specExec c (absSt s) (.swap i j)).1 k) ∧
    (exec c s (.swap i j)).res.core = (specExec c (absSt s) (.swap i j)).2 := by
  sim_step
theorem sim_empty (c : Cfg) (s : St) (hi : Inv c s) (i : Nat) :
    (∀ k, absSt (exec c s (.empty i)).st k = (specExec c (absSt s) (.empty i)).1 k) ∧
    (exec c s (.empty i)).res.core = (specExec c (absSt s) (.empty i)).2 := by
  sim_step
theorem sim_call (c : Cfg) (s : St) (hi : Inv c s) (i : Nat) (x : Int) :
    (∀ k, absSt (exec c s (.call i x)).st k = (specExec c (absSt s) (.call i x)).1 k) ∧
    (exec c s (.call i x)).res.core = (specExec c (absSt s) (.call i x)).2 := by
  sim_step
theorem sim_run (c : Cfg) (s : St) (hi : Inv c s) (i : Nat) :
    (∀ k, absSt (exec c s (.run i)).st k = (specExec c (absSt s) (.run i)).1 k) ∧
    (exec c s (.run i)).res.core = (specExec c (absSt s) (.run i)).2 := by
  sim_step
theorem sim_runc (c : Cfg) (s : St) (hi : Inv c s) (i : Nat) :
    (∀ k, absSt (exec c s (.runc i)).st k = (specExec c (absSt s) (.runc i)).1 k) ∧
    (exec c s (.runc i)).res.core = (specExec c (absSt s) (.runc i)).2 := by
  sim_step

theorem sim_exec (c : Cfg) (s : St) (hi : Inv c s) (op : Op) :
    absSt (exec c s op).st = (specExec c (absSt s) op).1 ∧
    (exec c s op).res.core = (specExec c (absSt s) op).2 := by
  have h : (∀ k, absSt (exec c s op).st k = (specExec c (absSt s) op).1 k) ∧
      (exec c s op).res.core = (specExec c (absSt s) op).2 := by
    cases op with
    | new i => exact sim_new c s hi i
    | newp i ty v cp => exact sim_newp c s hi i ty v cp
    | del i => exact sim_del c s hi i
    | set i ty v cp => exact sim_set c s hi i ty v cp
    | reset i => exact sim_reset c s hi i
    | copy i j => exact sim_copy c s hi i j
    | move i j => exact sim_move c s hi i j
    | cctor i j => exact sim_cctor c s hi i j
    | mctor i j => exact sim_mctor c s hi i j
    | swap i j => exact sim_swap c s hi i j
    | empty i => exact sim_empty c s hi i
    | call i x => exact sim_call c s hi i x
    | run i => exact sim_run c s hi i
    | runc i => exact sim_runc c s hi i
  exact ⟨funext h.1, h.2⟩

end PikaVerif.Erase
