import PikaVerif.Lemmas.Erase
/-! Simulation: the implementation model `exec` refines the value-semantics specification `specExec`. -/
set_option linter.unusedVariables false
namespace PikaVerif.Erase
open PikaVerif

@[simp] theorem absSlot_live (sl : Slot) : (absSlot sl).live = sl.live := by
  unfold absSlot; split <;> (try split) <;> simp_all [ASlot.live]

theorem absSt_live (s : St) (i : Nat) : ((absSt s).slots i).live = (s.slot i).live := absSlot_live _

theorem absSt_arm (s : St) : (absSt s).arm = s.arm := rfl

theorem callRes_core (o : Obj) (x : Int) (r : Bool) : (callRes o x r).core = aCall o.ty o.val x := by
  unfold callRes aCall; split <;> simp [Res.core]

theorem complRes_core (o : Obj) : (complRes o).core = aCompl o.ty o.val := by
  unfold complRes aCompl; repeat' split
  all_goals simp [Res.core]

set_option hygiene false in
macro "sim_step" : tactic => `(tactic| (
  obtain ⟨h1,h2,h3,h4,h5,h6,h7,h8,h9,h10,h11,h12⟩ := hi
  simp only [exec, execStore, specExec, inval, absSt_live, St.put, St.die, St.dieO, St.own, St.ownO, St.born, St.leak,
    St.tick, Slot.dead, Slot.emptyW, ASt.construct, ASt.set, absSt_arm]
  refine ⟨?_, ?_, ?_⟩
  rotate_left
  all_goals (try intro k)
  all_goals (repeat' split)
  all_goals (simp only [absSt, absSlot, upd, Res.core, callRes_core, complRes_core])
  all_goals first
    | rfl
    | grind [absSt, absSlot, callRes, aCall, complRes, aCompl, Res.core]))

/-- one step of the implementation model is one step of the specification -/
def Sim (c : Cfg) (s : St) (op : Op) : Prop :=
  (∀ k, (absSt (exec c s op).st).slots k = (specExec c (absSt s) op).1.slots k) ∧
  (absSt (exec c s op).st).arm = (specExec c (absSt s) op).1.arm ∧
  (exec c s op).res.core = (specExec c (absSt s) op).2

theorem sim_new (c : Cfg) (s : St) (hp : c.pinned = false) (hi : Inv c s) (i : Nat) : Sim c s (.new i) := by
  unfold Sim
  sim_step
set_option maxHeartbeats 1000000 in
theorem sim_newp (c : Cfg) (s : St) (hp : c.pinned = false) (hi : Inv c s) (i : Nat) (ty : PTy) (v : Int) (cp : Bool) : Sim c s (.newp i ty v cp) := by
  unfold Sim
  sim_step
theorem sim_del (c : Cfg) (s : St) (hp : c.pinned = false) (hi : Inv c s) (i : Nat) : Sim c s (.del i) := by
  unfold Sim
  sim_step
set_option maxHeartbeats 1000000 in
theorem sim_set (c : Cfg) (s : St) (hp : c.pinned = false) (hi : Inv c s) (i : Nat) (ty : PTy) (v : Int) (cp : Bool) : Sim c s (.set i ty v cp) := by
  unfold Sim
  sim_step
theorem sim_reset (c : Cfg) (s : St) (hp : c.pinned = false) (hi : Inv c s) (i : Nat) : Sim c s (.reset i) := by
  unfold Sim
  sim_step
set_option maxHeartbeats 1000000 in
theorem sim_copy (c : Cfg) (s : St) (hp : c.pinned = false) (hi : Inv c s) (i j : Nat) : Sim c s (.copy i j) := by
  unfold Sim
  sim_step
theorem sim_move (c : Cfg) (s : St) (hp : c.pinned = false) (hi : Inv c s) (i j : Nat) : Sim c s (.move i j) := by
  unfold Sim
  have m1 := @movesFrom_fn (c.kind i) (c.kind j)
  have m3 := @movesFrom_snd (c.kind i) (c.kind j)
  sim_step
theorem sim_cctor (c : Cfg) (s : St) (hp : c.pinned = false) (hi : Inv c s) (i j : Nat) : Sim c s (.cctor i j) := by
  unfold Sim
  sim_step
theorem sim_mctor (c : Cfg) (s : St) (hp : c.pinned = false) (hi : Inv c s) (i j : Nat) : Sim c s (.mctor i j) := by
  unfold Sim
  have m1 := @movesFrom_fn (c.kind i) (c.kind j)
  have m3 := @movesFrom_snd (c.kind i) (c.kind j)
  sim_step
theorem sim_swap (c : Cfg) (s : St) (hp : c.pinned = false) (hi : Inv c s) (i j : Nat) : Sim c s (.swap i j) := by
  unfold Sim
  sim_step
theorem sim_empty (c : Cfg) (s : St) (hp : c.pinned = false) (hi : Inv c s) (i : Nat) : Sim c s (.empty i) := by
  unfold Sim
  sim_step
theorem sim_call (c : Cfg) (s : St) (hp : c.pinned = false) (hi : Inv c s) (i : Nat) (x : Int) : Sim c s (.call i x) := by
  unfold Sim
  sim_step
theorem sim_run (c : Cfg) (s : St) (hp : c.pinned = false) (hi : Inv c s) (i : Nat) : Sim c s (.run i) := by
  unfold Sim
  sim_step
theorem sim_runc (c : Cfg) (s : St) (hp : c.pinned = false) (hi : Inv c s) (i : Nat) : Sim c s (.runc i) := by
  unfold Sim
  sim_step
theorem sim_arm (c : Cfg) (s : St) (hp : c.pinned = false) (hi : Inv c s) (k : Nat) : Sim c s (.arm k) := by
  unfold Sim
  sim_step

theorem sim_exec (c : Cfg) (s : St) (hp : c.pinned = false) (hi : Inv c s) (op : Op) :
    absSt (exec c s op).st = (specExec c (absSt s) op).1 ∧
    (exec c s op).res.core = (specExec c (absSt s) op).2 := by
  have h : Sim c s op := by
    cases op with
    | new i => exact sim_new c s hp hi i
    | newp i ty v cp => exact sim_newp c s hp hi i ty v cp
    | del i => exact sim_del c s hp hi i
    | set i ty v cp => exact sim_set c s hp hi i ty v cp
    | reset i => exact sim_reset c s hp hi i
    | copy i j => exact sim_copy c s hp hi i j
    | move i j => exact sim_move c s hp hi i j
    | cctor i j => exact sim_cctor c s hp hi i j
    | mctor i j => exact sim_mctor c s hp hi i j
    | swap i j => exact sim_swap c s hp hi i j
    | empty i => exact sim_empty c s hp hi i
    | call i x => exact sim_call c s hp hi i x
    | run i => exact sim_run c s hp hi i
    | runc i => exact sim_runc c s hp hi i
    | arm k => exact sim_arm c s hp hi k
  obtain ⟨h1, h2, h3⟩ := h
  refine ⟨?_, h3⟩
  cases ha : absSt (exec c s op).st with
  | mk sl ar =>
    cases hb : (specExec c (absSt s) op).1 with
    | mk sl' ar' =>
      rw [ha, hb] at h1 h2
      simp only at h1 h2
      rw [funext h1, h2]

end PikaVerif.Erase
