import PikaVerif.Lemmas.SchedCo2
/-! Enabledness lemmas of the scheduler model with the coroutine/body layer: in which states the
    acceptor accepts the next event of an operation in progress (used by the progress theorems). -/
namespace PikaVerif.SchedCo
open PikaVerif PikaVerif.Sched

theorem en_push (s : St) (a o : Nat) (hl : (s.base.obj o).live = true)
    (hst : (s.base.obj o).w.st = sPending)
    (h : ((s.base.obj o).fresh = true ∧ (s.base.obj o).q = 0) ∨ (s.base.obj o).pusher = some a) :
    (step s (.base (.push a o))).isSome = true := by
  simp [step, Sched.step, coBase, hl, hst, h]

theorem en_setBoost (s : St) (a o : Nat) (hl : (s.base.obj o).live = true)
    (hst : (s.base.obj o).w.st = sBoost) (h : (s.base.obj o).pusher = some a) :
    (step s (.base (.set a o (s.base.obj o).w ⟨sPending, (s.base.obj o).w.ex, (s.base.obj o).w.tag + 1⟩))).isSome = true := by
  simp [step, Sched.step, coBase, hl, hst, h]

theorem en_got (s : St) (a o : Nat) (hl : (s.base.obj o).live = true)
    (hh : (s.base.obj o).holder = none) (hq : 0 < (s.base.obj o).q) :
    (step s (.base (.got a o (s.base.obj o).w false))).isSome = true := by
  simp [step, Sched.step, coBase, hl, hh, hq]

theorem en_tagged (s : St) (a o : Nat) (hl : (s.base.obj o).live = true)
    (hh : (s.base.obj o).holder = some a) (he : (s.base.obj o).hexp = (s.base.obj o).w)
    (hst : (s.base.obj o).w.st = sPending) :
    (step s (.base (.tagged a o (s.base.obj o).w ⟨sActive, (s.base.obj o).w.ex, (s.base.obj o).w.tag + 1⟩))).isSome = true := by
  simp [step, Sched.step, coBase, hl, hh, he, hst]

theorem en_phaseBegin (s : St) (a o : Nat) (hl : (s.base.obj o).live = true)
    (ho : (s.base.obj o).owner = some a) (hp : (s.base.obj o).inPhase = false)
    (hr : (s.base.obj o).ranPhase = false) :
    (step s (.base (.phaseBegin a o))).isSome = true := by
  simp [step, Sched.step, coBase, hl, ho, hp, hr]

theorem en_coEnter (s : St) (a o : Nat) (hl : (s.base.obj o).live = true)
    (ho : (s.base.obj o).owner = some a) (hp : (s.base.obj o).inPhase = true)
    (hpc : (s.co o).pc = .ready) (hran : (s.co o).ran = false) :
    (step s (.coEnter a o)).isSome = true := by
  simp [step, hl, ho, hp, hpc, hran]

theorem en_coResume (s : St) (a o r : Nat) (hl : (s.base.obj o).live = true)
    (ho : (s.base.obj o).owner = some a) (hp : (s.base.obj o).inPhase = true)
    (hpc : (s.co o).pc = .yielded r) (hran : (s.co o).ran = false) :
    (step s (.coResume a o)).isSome = true := by
  simp [step, hl, ho, hp, hpc, hran, CoPc.isYielded]

theorem en_coReturn (s : St) (a o : Nat) (hl : (s.base.obj o).live = true)
    (ho : (s.base.obj o).owner = some a) (hp : (s.base.obj o).inPhase = true)
    (hpc : (s.co o).pc = .inBody) :
    (step s (.coReturn a o sTerminated)).isSome = true := by
  simp [step, hl, ho, hp, hpc]

theorem en_phaseEnd_yield (s : St) (a o r : Nat) (hl : (s.base.obj o).live = true)
    (ho : (s.base.obj o).owner = some a) (hp : (s.base.obj o).inPhase = true)
    (hpc : (s.co o).pc = .yielded r) (hran : (s.co o).ran = true) (hr : r ≠ sActive) :
    (step s (.base (.phaseEnd a o r))).isSome = true := by
  simp [step, Sched.step, coBase, hl, ho, hp, hpc, hran, hr]

theorem en_phaseEnd_return (s : St) (a o : Nat) (hl : (s.base.obj o).live = true)
    (ho : (s.base.obj o).owner = some a) (hp : (s.base.obj o).inPhase = true)
    (hpc : (s.co o).pc = .returned) (hran : (s.co o).ran = true) :
    (step s (.base (.phaseEnd a o sTerminated))).isSome = true := by
  have hne : ¬ (sTerminated = sActive) := by decide
  simp [step, Sched.step, coBase, hl, ho, hp, hpc, hran, hne]

theorem en_restore1 (s : St) (a o : Nat) (hl : (s.base.obj o).live = true)
    (ho : (s.base.obj o).owner = some a) (hp : (s.base.obj o).inPhase = false)
    (hr : (s.base.obj o).ranPhase = true) :
    (step s (.base (.restore1 a o (s.base.obj o).w
      ⟨(s.base.obj o).result, (s.base.obj o).w.ex, (s.base.obj o).w.tag + 1⟩))).isSome = true := by
  simp [step, Sched.step, coBase, hl, ho, hp, hr]

/-! ### Effects of the token-moving events and solo runs from a token to `active` -/

theorem eff_push (s : St) (a o : Nat) (hl : (s.base.obj o).live = true)
    (hst : (s.base.obj o).w.st = sPending)
    (h : ((s.base.obj o).fresh = true ∧ (s.base.obj o).q = 0) ∨ (s.base.obj o).pusher = some a) :
    ∃ s', step s (.base (.push a o)) = some s' ∧
      s'.base.obj o = { (s.base.obj o) with q := (s.base.obj o).q + 1, fresh := false, pusher := none } := by
  cases hs : step s _ with
  | none => have := en_push s a o hl hst h; rw [hs] at this; simp at this
  | some s' =>
    refine ⟨s', rfl, ?_⟩
    obtain ⟨hb, _⟩ := step_base s s' _ hs
    simp only [Sched.step] at hb
    repeat' split at hb
    all_goals first | (simp at hb; done) | (simp only [Option.some.injEq] at hb; rw [← hb]; simp; done) | (exfalso; simp_all; done)

theorem eff_setBoost (s : St) (a o : Nat) (hl : (s.base.obj o).live = true)
    (hst : (s.base.obj o).w.st = sBoost) (h : (s.base.obj o).pusher = some a) :
    ∃ s', step s (.base (.set a o (s.base.obj o).w ⟨sPending, (s.base.obj o).w.ex, (s.base.obj o).w.tag + 1⟩)) = some s' ∧
      s'.base.obj o = { (s.base.obj o) with w := ⟨sPending, (s.base.obj o).w.ex, (s.base.obj o).w.tag + 1⟩ } := by
  cases hs : step s _ with
  | none => have := en_setBoost s a o hl hst h; rw [hs] at this; simp at this
  | some s' =>
    refine ⟨s', rfl, ?_⟩
    obtain ⟨hb, _⟩ := step_base s s' _ hs
    simp only [Sched.step] at hb
    repeat' split at hb
    all_goals first | (simp at hb; done) | (simp only [Option.some.injEq] at hb; rw [← hb]; simp; done) | (exfalso; simp_all; done)

theorem eff_got (s : St) (a o : Nat) (hl : (s.base.obj o).live = true)
    (hh : (s.base.obj o).holder = none) (hq : 0 < (s.base.obj o).q) :
    ∃ s', step s (.base (.got a o (s.base.obj o).w false)) = some s' ∧
      s'.base.obj o = { (s.base.obj o) with q := (s.base.obj o).q - 1, holder := some a, hexp := (s.base.obj o).w } := by
  cases hs : step s _ with
  | none => have := en_got s a o hl hh hq; rw [hs] at this; simp at this
  | some s' =>
    refine ⟨s', rfl, ?_⟩
    obtain ⟨hb, _⟩ := step_base s s' _ hs
    simp only [Sched.step] at hb
    repeat' split at hb
    all_goals first | (simp at hb; done) | (simp only [Option.some.injEq] at hb; rw [← hb]; simp; done) | (exfalso; simp_all; done)

theorem eff_tagged (s : St) (a o : Nat) (hl : (s.base.obj o).live = true)
    (hh : (s.base.obj o).holder = some a) (he : (s.base.obj o).hexp = (s.base.obj o).w)
    (hst : (s.base.obj o).w.st = sPending) :
    ∃ s', step s (.base (.tagged a o (s.base.obj o).w ⟨sActive, (s.base.obj o).w.ex, (s.base.obj o).w.tag + 1⟩)) = some s' ∧
      s'.base.obj o = { (s.base.obj o) with w := ⟨sActive, (s.base.obj o).w.ex, (s.base.obj o).w.tag + 1⟩, owner := some a, ranPhase := false, holder := none } := by
  cases hs : step s _ with
  | none => have := en_tagged s a o hl hh he hst; rw [hs] at this; simp at this
  | some s' =>
    refine ⟨s', rfl, ?_⟩
    obtain ⟨hb, _⟩ := step_base s s' _ hs
    simp only [Sched.step] at hb
    repeat' split at hb
    all_goals first | (simp at hb; done) | (simp only [Option.some.injEq] at hb; rw [← hb]; simp; done) | (exfalso; simp_all; done)

/-- a worker that holds the popped entry of a pending thread activates it in one step -/
theorem run_from_holder (s : St) (a o : Nat) (hl : (s.base.obj o).live = true)
    (hh : (s.base.obj o).holder = some a) (he : (s.base.obj o).hexp = (s.base.obj o).w)
    (hst : (s.base.obj o).w.st = sPending) :
    ∃ log s', log.length = 1 ∧ runLog step s log = some s' ∧
      (s'.base.obj o).w.st = sActive ∧ (s'.base.obj o).owner = some a := by
  obtain ⟨s1, h1, e1⟩ := eff_tagged s a o hl hh he hst
  exact ⟨[.base (.tagged a o (s.base.obj o).w ⟨sActive, (s.base.obj o).w.ex, (s.base.obj o).w.tag + 1⟩)], s1, rfl, by simp [runLog, h1], by rw [e1], by rw [e1]⟩

/-- a queued pending thread can be popped and activated by any actor in two steps -/
theorem run_from_queue (s : St) (a o : Nat) (hl : (s.base.obj o).live = true)
    (hh : (s.base.obj o).holder = none) (hq : 0 < (s.base.obj o).q)
    (hst : (s.base.obj o).w.st = sPending) :
    ∃ log s', log.length = 2 ∧ runLog step s log = some s' ∧
      (s'.base.obj o).w.st = sActive ∧ (s'.base.obj o).owner = some a := by
  obtain ⟨s1, h1, e1⟩ := eff_got s a o hl hh hq
  obtain ⟨l2, s2, hl2, h2, r2⟩ := run_from_holder s1 a o (by rw [e1]; exact hl) (by rw [e1]) (by rw [e1]) (by rw [e1]; exact hst)
  match l2, hl2 with
  | [e], _ => exact ⟨[.base (.got a o (s.base.obj o).w false), e], s2, rfl, by simp only [runLog, h1]; exact h2, r2⟩

/-- a pending thread whose insertion is owed (or a fresh one) is queued, popped and activated in three steps -/
theorem run_from_pusher (s : St) (p a o : Nat) (hl : (s.base.obj o).live = true)
    (hst : (s.base.obj o).w.st = sPending) (hh : (s.base.obj o).holder = none)
    (h : ((s.base.obj o).fresh = true ∧ (s.base.obj o).q = 0) ∨ (s.base.obj o).pusher = some p) :
    ∃ log s', log.length = 3 ∧ runLog step s log = some s' ∧
      (s'.base.obj o).w.st = sActive ∧ (s'.base.obj o).owner = some a := by
  obtain ⟨s1, h1, e1⟩ := eff_push s p o hl hst h
  obtain ⟨l2, s2, hl2, h2, r2⟩ := run_from_queue s1 a o (by rw [e1]; exact hl) (by rw [e1]; exact hh) (by rw [e1]; simp) (by rw [e1]; exact hst)
  match l2, hl2 with
  | [e, e'], _ => exact ⟨[.base (.push p o), e, e'], s2, rfl, by simp only [runLog, h1]; exact h2, r2⟩

/-- … four steps when the loop still has to turn `pending_boost` into `pending` -/
theorem run_from_boost (s : St) (p a o : Nat) (hl : (s.base.obj o).live = true)
    (hst : (s.base.obj o).w.st = sBoost) (hh : (s.base.obj o).holder = none)
    (h : (s.base.obj o).pusher = some p) :
    ∃ log s', log.length = 4 ∧ runLog step s log = some s' ∧
      (s'.base.obj o).w.st = sActive ∧ (s'.base.obj o).owner = some a := by
  obtain ⟨s1, h1, e1⟩ := eff_setBoost s p o hl hst h
  obtain ⟨l2, s2, hl2, h2, r2⟩ := run_from_pusher s1 p a o (by rw [e1]; exact hl) (by rw [e1]) (by rw [e1]; exact hh) (Or.inr (by rw [e1]; exact h))
  match l2, hl2 with
  | [e, e', e''], _ => exact ⟨[.base (.set p o (s.base.obj o).w ⟨sPending, (s.base.obj o).w.ex, (s.base.obj o).w.tag + 1⟩), e, e', e''], s2, rfl, by simp only [runLog, h1]; exact h2, r2⟩

end PikaVerif.SchedCo
