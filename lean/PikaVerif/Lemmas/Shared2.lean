import PikaVerif.Lemmas.Shared
/-!
Ghost-counter invariants of the shared-state model (split / split_tuple / ensure_started):
every started consumer receives the stored completion exactly once.

The invariant is split into small groups that are proved separately, each one assuming the groups
before it on the pre-state only:
* `Inv`  (Lemmas/Shared.lean) lock / flag / stage protocol,
* `SInv` the predecessor's signal, the variant, `start_called` and the pending completion,
* `PInv` consumer phase / owner versus the program counters,
* `CInv` the continuation container versus the phases,
* `RInv` the per-consumer receive counters.
-/
namespace PikaVerif.Shared
open PikaVerif

/-- Program counters reached only after reading `predecessor_done = true`. -/
def sawDone : Pc → Bool
  | .seenT2 _ | .visiting _ => true
  | _ => false

/-- The predecessor's signal, the variant, `start_called`, the pending completion. -/
structure SInv (s : St) : Prop where
  sigNone : s.sig = none ↔ s.pst = .none
  sigV : ∀ c, s.sig = some c → s.v = stored s.storesStopped c
  armedStarted : s.armed = s.started
  pendSig : ∀ c, s.pending = some c → s.started = true → s.sig = some c
  notStartedPc : s.started = false → ∀ t, begun (s.pc t) = false
  notStartedPhase : s.started = false → ∀ k, s.phase k = .unused ∨ s.phase k = .active
  sawDoneDone : ∀ t, sawDone (s.pc t) = true → s.done = true
  noAbort : s.storesStopped = true → s.aborted = false

/-- Consumer phase / owner versus the program counters. -/
structure PInv (s : St) : Prop where
  consPhase : ∀ t k, consOf (s.pc t) = some k → s.phase k = .active ∧ s.owner k = t
  activeCons : ∀ k, s.phase k = .active → consOf (s.pc (s.owner k)) = some k

/-- The continuation container holds exactly the queued consumers, once each. -/
structure CInv (s : St) : Prop where
  contsQ : ∀ k, k ∈ s.conts ↔ s.phase k = .queued
  nodup : s.conts.Nodup

/-- Receive counters: a consumer in phase `got` has received exactly one signal, the stored one;
    every other consumer none. -/
structure RInv (s : St) : Prop where
  gotCount : ∀ k, s.got k = if s.phase k = .got then 1 else 0
  gotSigV : ∀ k c, s.phase k = .got → s.v = some c → s.gotSig k = some (sigFor s.kind k c)
  gotLate : ∀ k, s.phase k = .got → s.done = true
  gotV : ∀ k, s.phase k = .got → s.v ≠ none

theorem sinv_init (kind : Kind) (ss : Bool) : SInv (init kind ss) := by
  constructor <;> simp [init, begun, sawDone]
theorem pinv_init (kind : Kind) (ss : Bool) : PInv (init kind ss) := by
  constructor <;> simp [init, consOf]
theorem cinv_init (kind : Kind) (ss : Bool) : CInv (init kind ss) := by
  constructor <;> simp [init]
theorem rinv_init (kind : Kind) (ss : Bool) : RInv (init kind ss) := by
  constructor <;> simp [init]

theorem stored_true (c : Compl) : stored true c = some c := by simp [stored]

attribute [local grind] cHolds isProd PStage.rank consOf begun sawDone

set_option hygiene false in
/-- per-event preservation: unfold the acceptor, drop the rejecting branches, split the goal
    structure into its fields, close each with `grind`. -/
macro "sh2_step" : tactic => `(tactic| (
  simp only [step] at h
  split at h
  case isFalse => simp at h
  rename_i hg
  repeat' split at h
  all_goals first | (simp at h; done) | skip
  all_goals (
    simp only [Option.some.injEq] at h
    subst h
    constructor <;> dsimp only)
  all_goals first
    | assumption
    | (intro u; grind [upd])
    | grind [upd, mem_push, nodup_push, stored_true]))

/-! ### SInv -/
section
variable (s s' : St) (hi : Inv s) (hs : SInv s)
include hi hs

theorem step_sinv_tdone (t : Nat) (h : step s (.tdone t) = some s') : SInv s' := by
  obtain ⟨i1,i2,i3,i4,i5,i6,i7,i8,i9⟩ := hi; obtain ⟨a1,a2,a3,a4,a5,a6,a7,a8⟩ := hs; sh2_step
theorem step_sinv_ret (t : Nat) (h : step s (.ret t) = some s') : SInv s' := by
  obtain ⟨i1,i2,i3,i4,i5,i6,i7,i8,i9⟩ := hi; obtain ⟨a1,a2,a3,a4,a5,a6,a7,a8⟩ := hs; sh2_step
theorem step_sinv_slAcq (t : Nat) (h : step s (.slAcq t) = some s') : SInv s' := by
  obtain ⟨i1,i2,i3,i4,i5,i6,i7,i8,i9⟩ := hi; obtain ⟨a1,a2,a3,a4,a5,a6,a7,a8⟩ := hs; sh2_step
theorem step_sinv_invComplete (t : Nat) (c : Compl) (h : step s (.invComplete t c) = some s') : SInv s' := by
  obtain ⟨i1,i2,i3,i4,i5,i6,i7,i8,i9⟩ := hi; obtain ⟨a1,a2,a3,a4,a5,a6,a7,a8⟩ := hs; sh2_step
theorem step_sinv_fire (t : Nat) (c : Compl) (h : step s (.fire t c) = some s') : SInv s' := by
  obtain ⟨i1,i2,i3,i4,i5,i6,i7,i8,i9⟩ := hi; obtain ⟨a1,a2,a3,a4,a5,a6,a7,a8⟩ := hs; sh2_step
theorem step_sinv_invConsume (t k : Nat) (h : step s (.invConsume t k) = some s') : SInv s' := by
  obtain ⟨i1,i2,i3,i4,i5,i6,i7,i8,i9⟩ := hi; obtain ⟨a1,a2,a3,a4,a5,a6,a7,a8⟩ := hs; sh2_step
theorem step_sinv_seen1 (t : Nat) (b : Bool) (h : step s (.seen1 t b) = some s') : SInv s' := by
  obtain ⟨i1,i2,i3,i4,i5,i6,i7,i8,i9⟩ := hi; obtain ⟨a1,a2,a3,a4,a5,a6,a7,a8⟩ := hs; sh2_step
theorem step_sinv_seen2 (t : Nat) (b : Bool) (h : step s (.seen2 t b) = some s') : SInv s' := by
  obtain ⟨i1,i2,i3,i4,i5,i6,i7,i8,i9⟩ := hi; obtain ⟨a1,a2,a3,a4,a5,a6,a7,a8⟩ := hs; sh2_step
theorem step_sinv_slRel (t : Nat) (h : step s (.slRel t) = some s') : SInv s' := by
  obtain ⟨i1,i2,i3,i4,i5,i6,i7,i8,i9⟩ := hi; obtain ⟨a1,a2,a3,a4,a5,a6,a7,a8⟩ := hs; sh2_step
theorem step_sinv_flag (t i : Nat) (h : step s (.flag t i) = some s') : SInv s' := by
  obtain ⟨i1,i2,i3,i4,i5,i6,i7,i8,i9⟩ := hi; obtain ⟨a1,a2,a3,a4,a5,a6,a7,a8⟩ := hs; sh2_step
theorem step_sinv_run (t i : Nat) (h : step s (.run t i) = some s') : SInv s' := by
  obtain ⟨i1,i2,i3,i4,i5,i6,i7,i8,i9⟩ := hi; obtain ⟨a1,a2,a3,a4,a5,a6,a7,a8⟩ := hs; sh2_step
theorem step_sinv_abort (t : Nat) (h : step s (.abort t) = some s') : SInv s' := by
  obtain ⟨i1,i2,i3,i4,i5,i6,i7,i8,i9⟩ := hi; obtain ⟨a1,a2,a3,a4,a5,a6,a7,a8⟩ := hs
  have hv : s.storesStopped = true → s.pst ≠ .none → s.v ≠ none := by
    intro h1 h2
    cases hsig : s.sig with
    | none => exact absurd (a1.mp hsig) h2
    | some c => rw [a2 c hsig, h1, stored_true]; simp
  sh2_step
theorem step_sinv_rcv (t k : Nat) (r : RSig) (h : step s (.rcv t k r) = some s') : SInv s' := by
  obtain ⟨i1,i2,i3,i4,i5,i6,i7,i8,i9⟩ := hi; obtain ⟨a1,a2,a3,a4,a5,a6,a7,a8⟩ := hs; sh2_step
end

/-! ### PInv -/
section
variable (s s' : St) (hi : Inv s) (hs : SInv s) (hp : PInv s) (hc : CInv s)
include hi hs hp hc

theorem step_pinv_tdone (t : Nat) (h : step s (.tdone t) = some s') : PInv s' := by
  obtain ⟨i1,i2,i3,i4,i5,i6,i7,i8,i9⟩ := hi; obtain ⟨a1,a2,a3,a4,a5,a6,a7,a8⟩ := hs; obtain ⟨p1,p2⟩ := hp; obtain ⟨c1,c2⟩ := hc; sh2_step
theorem step_pinv_ret (t : Nat) (h : step s (.ret t) = some s') : PInv s' := by
  obtain ⟨i1,i2,i3,i4,i5,i6,i7,i8,i9⟩ := hi; obtain ⟨a1,a2,a3,a4,a5,a6,a7,a8⟩ := hs; obtain ⟨p1,p2⟩ := hp; obtain ⟨c1,c2⟩ := hc; sh2_step
theorem step_pinv_slAcq (t : Nat) (h : step s (.slAcq t) = some s') : PInv s' := by
  obtain ⟨i1,i2,i3,i4,i5,i6,i7,i8,i9⟩ := hi; obtain ⟨a1,a2,a3,a4,a5,a6,a7,a8⟩ := hs; obtain ⟨p1,p2⟩ := hp; obtain ⟨c1,c2⟩ := hc; sh2_step
theorem step_pinv_invComplete (t : Nat) (c : Compl) (h : step s (.invComplete t c) = some s') : PInv s' := by
  obtain ⟨i1,i2,i3,i4,i5,i6,i7,i8,i9⟩ := hi; obtain ⟨a1,a2,a3,a4,a5,a6,a7,a8⟩ := hs; obtain ⟨p1,p2⟩ := hp; obtain ⟨c1,c2⟩ := hc; sh2_step
theorem step_pinv_fire (t : Nat) (c : Compl) (h : step s (.fire t c) = some s') : PInv s' := by
  obtain ⟨i1,i2,i3,i4,i5,i6,i7,i8,i9⟩ := hi; obtain ⟨a1,a2,a3,a4,a5,a6,a7,a8⟩ := hs; obtain ⟨p1,p2⟩ := hp; obtain ⟨c1,c2⟩ := hc; sh2_step
theorem step_pinv_invConsume (t k : Nat) (h : step s (.invConsume t k) = some s') : PInv s' := by
  obtain ⟨i1,i2,i3,i4,i5,i6,i7,i8,i9⟩ := hi; obtain ⟨a1,a2,a3,a4,a5,a6,a7,a8⟩ := hs; obtain ⟨p1,p2⟩ := hp; obtain ⟨c1,c2⟩ := hc; sh2_step
theorem step_pinv_seen1 (t : Nat) (b : Bool) (h : step s (.seen1 t b) = some s') : PInv s' := by
  obtain ⟨i1,i2,i3,i4,i5,i6,i7,i8,i9⟩ := hi; obtain ⟨a1,a2,a3,a4,a5,a6,a7,a8⟩ := hs; obtain ⟨p1,p2⟩ := hp; obtain ⟨c1,c2⟩ := hc; sh2_step
theorem step_pinv_seen2 (t : Nat) (b : Bool) (h : step s (.seen2 t b) = some s') : PInv s' := by
  obtain ⟨i1,i2,i3,i4,i5,i6,i7,i8,i9⟩ := hi; obtain ⟨a1,a2,a3,a4,a5,a6,a7,a8⟩ := hs; obtain ⟨p1,p2⟩ := hp; obtain ⟨c1,c2⟩ := hc; sh2_step
theorem step_pinv_slRel (t : Nat) (h : step s (.slRel t) = some s') : PInv s' := by
  obtain ⟨i1,i2,i3,i4,i5,i6,i7,i8,i9⟩ := hi; obtain ⟨a1,a2,a3,a4,a5,a6,a7,a8⟩ := hs; obtain ⟨p1,p2⟩ := hp; obtain ⟨c1,c2⟩ := hc; sh2_step
theorem step_pinv_flag (t i : Nat) (h : step s (.flag t i) = some s') : PInv s' := by
  obtain ⟨i1,i2,i3,i4,i5,i6,i7,i8,i9⟩ := hi; obtain ⟨a1,a2,a3,a4,a5,a6,a7,a8⟩ := hs; obtain ⟨p1,p2⟩ := hp; obtain ⟨c1,c2⟩ := hc; sh2_step
theorem step_pinv_run (t i : Nat) (h : step s (.run t i) = some s') : PInv s' := by
  obtain ⟨i1,i2,i3,i4,i5,i6,i7,i8,i9⟩ := hi; obtain ⟨a1,a2,a3,a4,a5,a6,a7,a8⟩ := hs; obtain ⟨p1,p2⟩ := hp; obtain ⟨c1,c2⟩ := hc; sh2_step
theorem step_pinv_abort (t : Nat) (h : step s (.abort t) = some s') : PInv s' := by
  obtain ⟨i1,i2,i3,i4,i5,i6,i7,i8,i9⟩ := hi; obtain ⟨a1,a2,a3,a4,a5,a6,a7,a8⟩ := hs; obtain ⟨p1,p2⟩ := hp; obtain ⟨c1,c2⟩ := hc; sh2_step
theorem step_pinv_rcv (t k : Nat) (r : RSig) (h : step s (.rcv t k r) = some s') : PInv s' := by
  obtain ⟨i1,i2,i3,i4,i5,i6,i7,i8,i9⟩ := hi; obtain ⟨a1,a2,a3,a4,a5,a6,a7,a8⟩ := hs; obtain ⟨p1,p2⟩ := hp; obtain ⟨c1,c2⟩ := hc; sh2_step
end

/-! ### CInv -/
section
variable (s s' : St) (hi : Inv s) (hs : SInv s) (hp : PInv s) (hc : CInv s)
include hi hs hp hc

theorem step_cinv_tdone (t : Nat) (h : step s (.tdone t) = some s') : CInv s' := by
  obtain ⟨i1,i2,i3,i4,i5,i6,i7,i8,i9⟩ := hi; obtain ⟨a1,a2,a3,a4,a5,a6,a7,a8⟩ := hs; obtain ⟨p1,p2⟩ := hp; obtain ⟨c1,c2⟩ := hc; sh2_step
theorem step_cinv_ret (t : Nat) (h : step s (.ret t) = some s') : CInv s' := by
  obtain ⟨i1,i2,i3,i4,i5,i6,i7,i8,i9⟩ := hi; obtain ⟨a1,a2,a3,a4,a5,a6,a7,a8⟩ := hs; obtain ⟨p1,p2⟩ := hp; obtain ⟨c1,c2⟩ := hc; sh2_step
theorem step_cinv_slAcq (t : Nat) (h : step s (.slAcq t) = some s') : CInv s' := by
  obtain ⟨i1,i2,i3,i4,i5,i6,i7,i8,i9⟩ := hi; obtain ⟨a1,a2,a3,a4,a5,a6,a7,a8⟩ := hs; obtain ⟨p1,p2⟩ := hp; obtain ⟨c1,c2⟩ := hc; sh2_step
theorem step_cinv_invComplete (t : Nat) (c : Compl) (h : step s (.invComplete t c) = some s') : CInv s' := by
  obtain ⟨i1,i2,i3,i4,i5,i6,i7,i8,i9⟩ := hi; obtain ⟨a1,a2,a3,a4,a5,a6,a7,a8⟩ := hs; obtain ⟨p1,p2⟩ := hp; obtain ⟨c1,c2⟩ := hc; sh2_step
theorem step_cinv_fire (t : Nat) (c : Compl) (h : step s (.fire t c) = some s') : CInv s' := by
  obtain ⟨i1,i2,i3,i4,i5,i6,i7,i8,i9⟩ := hi; obtain ⟨a1,a2,a3,a4,a5,a6,a7,a8⟩ := hs; obtain ⟨p1,p2⟩ := hp; obtain ⟨c1,c2⟩ := hc; sh2_step
theorem step_cinv_invConsume (t k : Nat) (h : step s (.invConsume t k) = some s') : CInv s' := by
  obtain ⟨i1,i2,i3,i4,i5,i6,i7,i8,i9⟩ := hi; obtain ⟨a1,a2,a3,a4,a5,a6,a7,a8⟩ := hs; obtain ⟨p1,p2⟩ := hp; obtain ⟨c1,c2⟩ := hc; sh2_step
theorem step_cinv_seen1 (t : Nat) (b : Bool) (h : step s (.seen1 t b) = some s') : CInv s' := by
  obtain ⟨i1,i2,i3,i4,i5,i6,i7,i8,i9⟩ := hi; obtain ⟨a1,a2,a3,a4,a5,a6,a7,a8⟩ := hs; obtain ⟨p1,p2⟩ := hp; obtain ⟨c1,c2⟩ := hc; sh2_step
theorem step_cinv_seen2 (t : Nat) (b : Bool) (h : step s (.seen2 t b) = some s') : CInv s' := by
  obtain ⟨i1,i2,i3,i4,i5,i6,i7,i8,i9⟩ := hi; obtain ⟨a1,a2,a3,a4,a5,a6,a7,a8⟩ := hs; obtain ⟨p1,p2⟩ := hp; obtain ⟨c1,c2⟩ := hc; sh2_step
theorem step_cinv_slRel (t : Nat) (h : step s (.slRel t) = some s') : CInv s' := by
  obtain ⟨i1,i2,i3,i4,i5,i6,i7,i8,i9⟩ := hi; obtain ⟨a1,a2,a3,a4,a5,a6,a7,a8⟩ := hs; obtain ⟨p1,p2⟩ := hp; obtain ⟨c1,c2⟩ := hc; sh2_step
theorem step_cinv_flag (t i : Nat) (h : step s (.flag t i) = some s') : CInv s' := by
  obtain ⟨i1,i2,i3,i4,i5,i6,i7,i8,i9⟩ := hi; obtain ⟨a1,a2,a3,a4,a5,a6,a7,a8⟩ := hs; obtain ⟨p1,p2⟩ := hp; obtain ⟨c1,c2⟩ := hc; sh2_step
theorem step_cinv_run (t i : Nat) (h : step s (.run t i) = some s') : CInv s' := by
  obtain ⟨i1,i2,i3,i4,i5,i6,i7,i8,i9⟩ := hi; obtain ⟨a1,a2,a3,a4,a5,a6,a7,a8⟩ := hs; obtain ⟨p1,p2⟩ := hp; obtain ⟨c1,c2⟩ := hc; sh2_step
theorem step_cinv_abort (t : Nat) (h : step s (.abort t) = some s') : CInv s' := by
  obtain ⟨i1,i2,i3,i4,i5,i6,i7,i8,i9⟩ := hi; obtain ⟨a1,a2,a3,a4,a5,a6,a7,a8⟩ := hs; obtain ⟨p1,p2⟩ := hp; obtain ⟨c1,c2⟩ := hc; sh2_step
theorem step_cinv_rcv (t k : Nat) (r : RSig) (h : step s (.rcv t k r) = some s') : CInv s' := by
  obtain ⟨i1,i2,i3,i4,i5,i6,i7,i8,i9⟩ := hi; obtain ⟨a1,a2,a3,a4,a5,a6,a7,a8⟩ := hs; obtain ⟨p1,p2⟩ := hp; obtain ⟨c1,c2⟩ := hc; sh2_step
end

/-! ### RInv -/
section
variable (s s' : St) (hi : Inv s) (hs : SInv s) (hp : PInv s) (hc : CInv s) (hr : RInv s)
include hi hs hp hc hr

theorem step_rinv_tdone (t : Nat) (h : step s (.tdone t) = some s') : RInv s' := by
  obtain ⟨i1,i2,i3,i4,i5,i6,i7,i8,i9⟩ := hi; obtain ⟨a1,a2,a3,a4,a5,a6,a7,a8⟩ := hs; obtain ⟨p1,p2⟩ := hp; obtain ⟨c1,c2⟩ := hc; obtain ⟨r1,r2,r3,r4⟩ := hr; sh2_step
theorem step_rinv_ret (t : Nat) (h : step s (.ret t) = some s') : RInv s' := by
  obtain ⟨i1,i2,i3,i4,i5,i6,i7,i8,i9⟩ := hi; obtain ⟨a1,a2,a3,a4,a5,a6,a7,a8⟩ := hs; obtain ⟨p1,p2⟩ := hp; obtain ⟨c1,c2⟩ := hc; obtain ⟨r1,r2,r3,r4⟩ := hr; sh2_step
theorem step_rinv_slAcq (t : Nat) (h : step s (.slAcq t) = some s') : RInv s' := by
  obtain ⟨i1,i2,i3,i4,i5,i6,i7,i8,i9⟩ := hi; obtain ⟨a1,a2,a3,a4,a5,a6,a7,a8⟩ := hs; obtain ⟨p1,p2⟩ := hp; obtain ⟨c1,c2⟩ := hc; obtain ⟨r1,r2,r3,r4⟩ := hr; sh2_step
theorem step_rinv_invComplete (t : Nat) (c : Compl) (h : step s (.invComplete t c) = some s') : RInv s' := by
  obtain ⟨i1,i2,i3,i4,i5,i6,i7,i8,i9⟩ := hi; obtain ⟨a1,a2,a3,a4,a5,a6,a7,a8⟩ := hs; obtain ⟨p1,p2⟩ := hp; obtain ⟨c1,c2⟩ := hc; obtain ⟨r1,r2,r3,r4⟩ := hr; sh2_step
theorem step_rinv_fire (t : Nat) (c : Compl) (h : step s (.fire t c) = some s') : RInv s' := by
  obtain ⟨i1,i2,i3,i4,i5,i6,i7,i8,i9⟩ := hi; obtain ⟨a1,a2,a3,a4,a5,a6,a7,a8⟩ := hs; obtain ⟨p1,p2⟩ := hp; obtain ⟨c1,c2⟩ := hc; obtain ⟨r1,r2,r3,r4⟩ := hr; sh2_step
theorem step_rinv_invConsume (t k : Nat) (h : step s (.invConsume t k) = some s') : RInv s' := by
  obtain ⟨i1,i2,i3,i4,i5,i6,i7,i8,i9⟩ := hi; obtain ⟨a1,a2,a3,a4,a5,a6,a7,a8⟩ := hs; obtain ⟨p1,p2⟩ := hp; obtain ⟨c1,c2⟩ := hc; obtain ⟨r1,r2,r3,r4⟩ := hr; sh2_step
theorem step_rinv_seen1 (t : Nat) (b : Bool) (h : step s (.seen1 t b) = some s') : RInv s' := by
  obtain ⟨i1,i2,i3,i4,i5,i6,i7,i8,i9⟩ := hi; obtain ⟨a1,a2,a3,a4,a5,a6,a7,a8⟩ := hs; obtain ⟨p1,p2⟩ := hp; obtain ⟨c1,c2⟩ := hc; obtain ⟨r1,r2,r3,r4⟩ := hr; sh2_step
theorem step_rinv_seen2 (t : Nat) (b : Bool) (h : step s (.seen2 t b) = some s') : RInv s' := by
  obtain ⟨i1,i2,i3,i4,i5,i6,i7,i8,i9⟩ := hi; obtain ⟨a1,a2,a3,a4,a5,a6,a7,a8⟩ := hs; obtain ⟨p1,p2⟩ := hp; obtain ⟨c1,c2⟩ := hc; obtain ⟨r1,r2,r3,r4⟩ := hr; sh2_step
theorem step_rinv_slRel (t : Nat) (h : step s (.slRel t) = some s') : RInv s' := by
  obtain ⟨i1,i2,i3,i4,i5,i6,i7,i8,i9⟩ := hi; obtain ⟨a1,a2,a3,a4,a5,a6,a7,a8⟩ := hs; obtain ⟨p1,p2⟩ := hp; obtain ⟨c1,c2⟩ := hc; obtain ⟨r1,r2,r3,r4⟩ := hr; sh2_step
theorem step_rinv_flag (t i : Nat) (h : step s (.flag t i) = some s') : RInv s' := by
  obtain ⟨i1,i2,i3,i4,i5,i6,i7,i8,i9⟩ := hi; obtain ⟨a1,a2,a3,a4,a5,a6,a7,a8⟩ := hs; obtain ⟨p1,p2⟩ := hp; obtain ⟨c1,c2⟩ := hc; obtain ⟨r1,r2,r3,r4⟩ := hr; sh2_step
theorem step_rinv_run (t i : Nat) (h : step s (.run t i) = some s') : RInv s' := by
  obtain ⟨i1,i2,i3,i4,i5,i6,i7,i8,i9⟩ := hi; obtain ⟨a1,a2,a3,a4,a5,a6,a7,a8⟩ := hs; obtain ⟨p1,p2⟩ := hp; obtain ⟨c1,c2⟩ := hc; obtain ⟨r1,r2,r3,r4⟩ := hr; sh2_step
theorem step_rinv_abort (t : Nat) (h : step s (.abort t) = some s') : RInv s' := by
  obtain ⟨i1,i2,i3,i4,i5,i6,i7,i8,i9⟩ := hi; obtain ⟨a1,a2,a3,a4,a5,a6,a7,a8⟩ := hs; obtain ⟨p1,p2⟩ := hp; obtain ⟨c1,c2⟩ := hc; obtain ⟨r1,r2,r3,r4⟩ := hr; sh2_step
theorem step_rinv_rcv (t k : Nat) (r : RSig) (h : step s (.rcv t k r) = some s') : RInv s' := by
  obtain ⟨i1,i2,i3,i4,i5,i6,i7,i8,i9⟩ := hi; obtain ⟨a1,a2,a3,a4,a5,a6,a7,a8⟩ := hs; obtain ⟨p1,p2⟩ := hp; obtain ⟨c1,c2⟩ := hc; obtain ⟨r1,r2,r3,r4⟩ := hr; sh2_step
end

/-- The complete inductive invariant. -/
structure Full (s : St) : Prop where
  inv : Inv s
  sinv : SInv s
  pinv : PInv s
  cinv : CInv s
  rinv : RInv s

theorem full_init (kind : Kind) (ss : Bool) : Full (init kind ss) :=
  ⟨inv_init kind ss, sinv_init kind ss, pinv_init kind ss, cinv_init kind ss, rinv_init kind ss⟩

theorem step_full (s s' : St) (e : Ev) (hf : Full s) (h : step s e = some s') : Full s' := by
  obtain ⟨hi, hs, hp, hc, hr⟩ := hf
  refine ⟨step_inv s s' e hi h, ?_, ?_, ?_, ?_⟩
  · cases e with
    | tdone t => exact step_sinv_tdone s s' hi hs t h
    | ret t => exact step_sinv_ret s s' hi hs t h
    | slAcq t => exact step_sinv_slAcq s s' hi hs t h
    | invComplete t c => exact step_sinv_invComplete s s' hi hs t c h
    | fire t c => exact step_sinv_fire s s' hi hs t c h
    | invConsume t k => exact step_sinv_invConsume s s' hi hs t k h
    | seen1 t b => exact step_sinv_seen1 s s' hi hs t b h
    | seen2 t b => exact step_sinv_seen2 s s' hi hs t b h
    | slRel t => exact step_sinv_slRel s s' hi hs t h
    | flag t i => exact step_sinv_flag s s' hi hs t i h
    | run t i => exact step_sinv_run s s' hi hs t i h
    | abort t => exact step_sinv_abort s s' hi hs t h
    | rcv t k r => exact step_sinv_rcv s s' hi hs t k r h
  · cases e with
    | tdone t => exact step_pinv_tdone s s' hi hs hp hc t h
    | ret t => exact step_pinv_ret s s' hi hs hp hc t h
    | slAcq t => exact step_pinv_slAcq s s' hi hs hp hc t h
    | invComplete t c => exact step_pinv_invComplete s s' hi hs hp hc t c h
    | fire t c => exact step_pinv_fire s s' hi hs hp hc t c h
    | invConsume t k => exact step_pinv_invConsume s s' hi hs hp hc t k h
    | seen1 t b => exact step_pinv_seen1 s s' hi hs hp hc t b h
    | seen2 t b => exact step_pinv_seen2 s s' hi hs hp hc t b h
    | slRel t => exact step_pinv_slRel s s' hi hs hp hc t h
    | flag t i => exact step_pinv_flag s s' hi hs hp hc t i h
    | run t i => exact step_pinv_run s s' hi hs hp hc t i h
    | abort t => exact step_pinv_abort s s' hi hs hp hc t h
    | rcv t k r => exact step_pinv_rcv s s' hi hs hp hc t k r h
  · cases e with
    | tdone t => exact step_cinv_tdone s s' hi hs hp hc t h
    | ret t => exact step_cinv_ret s s' hi hs hp hc t h
    | slAcq t => exact step_cinv_slAcq s s' hi hs hp hc t h
    | invComplete t c => exact step_cinv_invComplete s s' hi hs hp hc t c h
    | fire t c => exact step_cinv_fire s s' hi hs hp hc t c h
    | invConsume t k => exact step_cinv_invConsume s s' hi hs hp hc t k h
    | seen1 t b => exact step_cinv_seen1 s s' hi hs hp hc t b h
    | seen2 t b => exact step_cinv_seen2 s s' hi hs hp hc t b h
    | slRel t => exact step_cinv_slRel s s' hi hs hp hc t h
    | flag t i => exact step_cinv_flag s s' hi hs hp hc t i h
    | run t i => exact step_cinv_run s s' hi hs hp hc t i h
    | abort t => exact step_cinv_abort s s' hi hs hp hc t h
    | rcv t k r => exact step_cinv_rcv s s' hi hs hp hc t k r h
  · cases e with
    | tdone t => exact step_rinv_tdone s s' hi hs hp hc hr t h
    | ret t => exact step_rinv_ret s s' hi hs hp hc hr t h
    | slAcq t => exact step_rinv_slAcq s s' hi hs hp hc hr t h
    | invComplete t c => exact step_rinv_invComplete s s' hi hs hp hc hr t c h
    | fire t c => exact step_rinv_fire s s' hi hs hp hc hr t c h
    | invConsume t k => exact step_rinv_invConsume s s' hi hs hp hc hr t k h
    | seen1 t b => exact step_rinv_seen1 s s' hi hs hp hc hr t b h
    | seen2 t b => exact step_rinv_seen2 s s' hi hs hp hc hr t b h
    | slRel t => exact step_rinv_slRel s s' hi hs hp hc hr t h
    | flag t i => exact step_rinv_flag s s' hi hs hp hc hr t i h
    | run t i => exact step_rinv_run s s' hi hs hp hc hr t i h
    | abort t => exact step_rinv_abort s s' hi hs hp hc hr t h
    | rcv t k r => exact step_rinv_rcv s s' hi hs hp hc hr t k r h

theorem full_of_accepted {kind : Kind} {ss : Bool} {log : List Ev} {s : St}
    (h : runLog step (init kind ss) log = some s) : Full s :=
  inv_of_runLog Full (fun s e s' => step_full s s' e) (full_init kind ss) h

end PikaVerif.Shared
