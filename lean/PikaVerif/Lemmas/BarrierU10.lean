import PikaVerif.Lemmas.BarrierU9
/-! C09u, coarse barrier: the lock-step invariant with drops at a phase store, along runs, and
    the final states of maximal runs of `awdProg` programs. -/
namespace PikaVerif.Barrier
open PikaVerif PikaVerif.C09Barrier

theorem stepD_publish (N P : Nat) (d : Nat → Bool) (s s' : St) (prog : Nat → List Op) (t a b : Nat)
    (ha : InvA s) (hb : InvB s) (hi : InvD N P d s prog) (h : step s (.publish t a b) = some s') :
    InvD N P d s' prog := by
  obtain ⟨h1, h2, h2a, h2b, h3, h4, h5, h6⟩ := hi
  simp only [step] at h
  split at h
  case isFalse => simp at h
  rename_i hg
  have ht : t < N := by omega
  split at h
  case h_2 => simp at h
  rename_i u r hpc
  have hw : s.win = some t := hb.winOk t (by simp [isWin, isPub, hpc])
  obtain ⟨hrem, hinr, hcnt, he0pos, hfull⟩ := win_some_facts hb t hw
  have h6t := h6 t ht
  rw [hpc] at h6t; simp only [PcD] at h6t
  obtain ⟨hu0, hat, hawt⟩ := h6t
  have htp := hb.tokPhase t (by simp [inArr, hpc])
  have hdn : ∀ c, dn d c ≤ 1 := fun c => by unfold dn; split <;> omega
  have he0 : s.e0 = N := by
    rcases h2b with h | h
    · exact h
    · have hnil := h.2 t ht; have := hdn t
      simp only [avd] at hat; rw [hnil] at hat; simp only [List.length_nil] at hat; omega
  have hle1 : ∀ c, c < N → avd P d prog c - s.ph ≤ 1 := by
    intro c hc
    have := PcD_le (h6 c hc) (hb.tokIdxOk c).2
    omega
  have hall := all_one_of_sumTo_eq hle1 (by omega)
  have hexp := ha.expLe
  simp only [Option.some.injEq] at h
  subst h
  refine ⟨h1, ?_, ?_, ?_, h3, ?_, ?_, ?_⟩ <;> try dsimp only
  · intro hlt; exact h2 (by omega)
  · omega
  · by_cases hlt : s.ph < P
    · exact Or.inl (h2 hlt).1
    · refine Or.inr ⟨by omega, fun c hc => ?_⟩
      have h1' := hall c hc
      have h2' := (h3 c hc).2
      have h3' := hdn c
      apply List.eq_nil_of_length_eq_zero
      simp only [avd] at h1'; omega
  · intro c hc; have := hall c hc; omega
  · have : sumTo N (fun c => avd P d prog c - (s.ph + 1)) = 0 :=
      sumTo_eq_zero (fun c hc => by have := hall c hc; omega)
    rw [this]; omega
  · intro c hc
    have hac := hall c hc
    have hac' : avd P d prog c = s.ph + 1 := by omega
    by_cases hct : c = t
    · subst hct; simp only [upd_same, hu0, afterCall, if_true]
      cases haw : s.aw c
      · simp only [PcD]; exact Or.inl hac'
      · rw [haw] at hawt
        simp only [if_true, PcD]
        exact ⟨by omega, hawt⟩
    · simp only [upd_other _ _ _ _ hct]
      have h6c := h6 c hc
      have hna := not_arriving_of_quiet (hrem c (by omega)) (fun k => hinr c k (by omega) hct) (hb.shape c)
      rw [hac'] at h6c ⊢
      cases hpcc : s.pc c <;> rw [hpcc] at h6c hna <;> simp [arriving] at hna <;> simp only [PcD] at h6c ⊢
      all_goals first
        | omega
        | exact h6c
        | exact Or.inl trivial

structure AllD (N P : Nat) (d : Nat → Bool) (p : PSt) : Prop where
  a : InvA p.s
  b : InvB p.s
  u : InvD N P d p.s p.prog
  f : FinOk p

theorem allD_step (N P : Nat) (d : Nat → Bool) (p p' : PSt) (e : Ev) (hi : AllD N P d p) (h : pstep p e = some p') :
    AllD N P d p' := by
  have hs := pstep_step p p' e h
  refine ⟨stepA _ _ e hi.a hs, stepB _ _ e hi.a hi.b hs, ?_, finOk_step p p' e hi.f h⟩
  cases e
  case inv t o =>
    obtain ⟨rest, hp, hp', _⟩ := pstep_inv p p' t o h
    rw [hp']; exact stepD_inv N P d _ _ _ t o rest hi.u hp hs
  all_goals rw [pstep_prog p p' _ (by simp [isInv]) h]
  case adj t => exact stepD_adj N P d _ _ _ t hi.b hi.u hs
  case load t a b => exact stepD_load N P d _ _ _ t a b hi.b hi.u hs
  case start t a => exact stepD_start N P d _ _ _ t a hi.b hi.u hs
  case cas t a b o => exact stepD_cas N P d _ _ _ t a b o hi.b hi.u hs
  case cas2 t a b o => exact stepD_cas2 N P d _ _ _ t a b o hi.b hi.u hs
  case last t a b => exact stepD_last N P d _ _ _ t a b hi.b hi.u hs
  case compl t => exact stepD_compl N P d _ _ _ t hi.b hi.u hs
  case publish t a b => exact stepD_publish N P d _ _ _ t a b hi.a hi.b hi.u hs
  case poll t a b => exact stepD_poll N P d _ _ _ t a b hi.b hi.u hs
  case ret t => exact stepD_ret N P d _ _ _ t hi.b hi.u hs
  case done t => exact stepD_done N P d _ _ _ t hi.b hi.u hs

theorem len_awd (P : Nat) (d : Nat → Bool) (t : Nat) : (awdProg P d t).length = P + dn d t := by
  simp only [awdProg, dn, List.length_append, List.length_replicate]
  split <;> simp

theorem allD_init (N P : Nat) (d : Nat → Bool) : AllD N P d (pinit N N (awdProg P d)) := by
  refine ⟨invA_init N N, invB_init N N, ⟨rfl, fun _ => ⟨rfl, rfl⟩, Nat.le_refl _, Or.inl rfl, ?_, ?_, ?_, ?_⟩, ?_⟩
  · intro t _; exact ⟨Or.inr ⟨P, rfl⟩, by simp [pinit, len_awd]⟩
  · intro t _; simp [pinit, init]
  · have : sumTo N (fun t => avd P d (pinit N N (awdProg P d)).prog t - (pinit N N (awdProg P d)).s.ph) = 0 :=
      sumTo_eq_zero (fun t _ => by simp [pinit, init, avd, len_awd])
    rw [this]; simp [pinit, init]
  · intro t _; simp [pinit, init, PcD, avd, len_awd]
  · intro t ht; simp [pinit, init] at ht

theorem allD_run (N P : Nat) (d : Nat → Bool) (log : List Ev) (p : PSt)
    (h : runLog pstep (pinit N N (awdProg P d)) log = some p) : AllD N P d p :=
  inv_of_runLog (AllD N P d) (fun p e p' hi hs => allD_step N P d p p' e hi hs) (allD_init N P d) h

end PikaVerif.Barrier
