import PikaVerif.Lemmas.Elastic
import PikaVerif.Core.Sum
/-! Termination measure of the `Elastic` model (C19t): potential per worker, event classes,
    the step inequality and its sum over a log. -/
namespace PikaVerif.Elastic
open PikaVerif

/-- steps a worker still owes on its sleep path: `pre_sleep` seen in the loop = 6 (commit, store,
    enter wait, be notified, wake up, CAS back), … , woken = 1 -/
def pathPot (x : Wk) : Nat :=
  match x.pc with
  | .loop => if x.st = rsPreSleep then 6 else 0
  | .commit => 5
  | .stored => 4
  | .waiting => if x.notified then 2 else 3
  | .woken => 1

/-- potential of a worker: sleep path + queued tasks + a held pu mutex (model hold) -/
def pot (x : Wk) : Nat := pathPot x + x.q + (if x.lk.isSome then 1 else 0)

def apot : APc → Nat
  | .idle => 0
  | .refused => 1

/-- the measure over workers / actors `0 … N-1` -/
def mu (N : Nat) (s : St) : Nat :=
  sumTo N (fun w => pot (s.wk w)) + s.lowq + sumTo N (fun a => apot (s.apc a))

/-- **sources**: what the environment (controller calls, submitters) puts in; the weight is the
    potential it adds: a placement 1, a successful selection (pu mutex taken) 1, the pu mutex of a
    suspend call 1, a CAS `running → pre_sleep` 6, a refusal 1 -/
def weight : Ev → Nat
  | .inc _ _ => 1
  | .incLow _ => 1
  | .sel _ _ _ _ _ ok => if ok then 1 else 0
  | .slock _ _ => 1
  | .cas _ _ b _ => if b = rsRunning then 6 else 0
  | .ucas _ _ b _ => if b = rsRunning then 6 else 0
  | .refuse _ => 1
  | _ => 0

/-- **moves** (by the event alone): the runtime's steps that consume potential -/
def moves : Ev → Bool
  | .chk _ v c => decide (v = rsPreSleep) && c
  | .sleep _ => true
  | .wait _ => true
  | .woke _ => true
  | .wake _ _ _ => true
  | .dec _ _ => true
  | .decLow _ => true
  | .sunl _ _ => true
  | _ => false

/-- **effective** events in a state: the moves, plus the three events that are a move or an exact
    stutter depending on the state: `unl` (releases a model hold or had none), `notify` (first
    notify of a waiting worker, or lost / repeated), `ret` (ends a refused call, or any other return) -/
def eff (s : St) : Ev → Bool
  | .unl _ w => (s.wk w).lk.isSome
  | .notify _ w => decide ((s.wk w).pc = .waiting) && !(s.wk w).notified
  | .ret a => decide (s.apc a = .refused)
  | e => moves e

/-- **neutral** events: neither source nor possibly effective — loop rounds and polls -/
def neutral : Ev → Bool
  | .start _ _ _ => true
  | .top _ _ => true
  | .qlen _ _ _ => true
  | .chk _ v c => !(decide (v = rsPreSleep) && c)
  | .sel _ _ _ _ _ ok => !ok
  | .cas _ _ b _ => decide (b ≠ rsRunning)
  | .ucas _ _ b _ => decide (b ≠ rsRunning)
  | .sdone _ _ _ => true
  | .rload _ _ _ => true
  | _ => false

def b2n (b : Bool) : Nat := if b then 1 else 0

/-- index range: the worker (or, for `refuse` / `ret`, the actor) the event is about is `< N` -/
def inR (N : Nat) : Ev → Bool
  | .start _ w _ => decide (w < N)
  | .top w _ => decide (w < N)
  | .qlen _ w _ => decide (w < N)
  | .chk w _ _ => decide (w < N)
  | .sleep w => decide (w < N)
  | .wait w => decide (w < N)
  | .woke w => decide (w < N)
  | .wake w _ _ => decide (w < N)
  | .inc _ w => decide (w < N)
  | .dec _ w => decide (w < N)
  | .incLow _ => true
  | .decLow _ => true
  | .sel _ w _ _ _ _ => decide (w < N)
  | .unl _ w => decide (w < N)
  | .slock _ w => decide (w < N)
  | .cas _ w _ _ => decide (w < N)
  | .sunl _ w => decide (w < N)
  | .sdone _ w _ => decide (w < N)
  | .ucas _ w _ _ => decide (w < N)
  | .notify _ w => decide (w < N)
  | .rload _ w _ => decide (w < N)
  | .refuse a => decide (a < N)
  | .ret a => decide (a < N)

/-- the index the event is about (for `maxKey`) -/
def evKey : Ev → Nat
  | .start _ w _ => w
  | .top w _ => w
  | .qlen _ w _ => w
  | .chk w _ _ => w
  | .sleep w => w
  | .wait w => w
  | .woke w => w
  | .wake w _ _ => w
  | .inc _ w => w
  | .dec _ w => w
  | .incLow _ => 0
  | .decLow _ => 0
  | .sel _ w _ _ _ _ => w
  | .unl _ w => w
  | .slock _ w => w
  | .cas _ w _ _ => w
  | .sunl _ w => w
  | .sdone _ w _ => w
  | .ucas _ w _ _ => w
  | .notify _ w => w
  | .rload _ w _ => w
  | .refuse a => a
  | .ret a => a

theorem inR_of_key (N : Nat) (e : Ev) (h : evKey e < N) : inR N e = true := by
  cases e <;> simp_all [inR, evKey]

theorem mu_upd_wk (N : Nat) (s : St) (w : Nat) (x' : Wk) (hw : w < N) :
    mu N { s with wk := upd s.wk w x' } + pot (s.wk w) = mu N s + pot x' := by
  have := sumTo_upd N pot s.wk w x' hw
  simp only [mu]
  omega

theorem mu_upd_apc (N : Nat) (s : St) (a : Nat) (p : APc) (ha : a < N) :
    mu N { s with apc := upd s.apc a p } + apot (s.apc a) = mu N s + apot p := by
  have := sumTo_upd N apot s.apc a p ha
  simp only [mu]
  omega

theorem mu_init (N : Nat) (cfg : Cfg) : mu N (init cfg) = 0 := by
  have h1 : sumTo N (fun w => pot ((init cfg).wk w)) = 0 := sumTo_eq_zero (fun t _ => by simp [init, pot, pathPot])
  have h2 : sumTo N (fun a => apot ((init cfg).apc a)) = 0 := sumTo_eq_zero (fun t _ => by simp [init, apot])
  simp only [mu, h1, h2]
  rfl


theorem mu_step_wk (N : Nat) (s : St) (w : Nat) (x' : Wk) (k g : Nat) (hw : w < N)
    (h : k + pot x' ≤ pot (s.wk w) + g) : k + mu N { s with wk := upd s.wk w x' } ≤ mu N s + g := by
  have := mu_upd_wk N s w x' hw
  omega

theorem mu_step_apc (N : Nat) (s : St) (a : Nat) (p : APc) (k g : Nat) (ha : a < N)
    (h : k + apot p ≤ apot (s.apc a) + g) : k + mu N { s with apc := upd s.apc a p } ≤ mu N s + g := by
  have := mu_upd_apc N s a p ha
  omega

set_option hygiene false in
macro "mu_wk" : tactic => `(tactic| (
  simp only [step] at h
  repeat' split at h
  all_goals first | (simp at h; done) | skip
  all_goals (
    simp only [Option.some.injEq] at h
    subst h
    first
    | (simp [eff, moves, weight, b2n]; done)
    | (refine mu_step_wk N s w _ _ _ hw ?_
       have hx := hi w
       obtain ⟨h1,h2,h3,h4,h5,h6,h7,h8,h9⟩ := hx
       simp only [pot, pathPot, eff, moves, weight, b2n]
       grind [casResult]))))

theorem mu_step_start (N : Nat) (s s' : St) (a : Nat) (w : Nat) (old : Nat) (hi : Inv s) (hw : w < N)
    (h : step s (.start a w old) = some s') :
    b2n (eff s (.start a w old)) + mu N s' ≤ mu N s + weight (.start a w old) := by
  mu_wk

theorem mu_step_top (N : Nat) (s s' : St) (w : Nat) (v : Nat) (hi : Inv s) (hw : w < N)
    (h : step s (.top w v) = some s') :
    b2n (eff s (.top w v)) + mu N s' ≤ mu N s + weight (.top w v) := by
  mu_wk

theorem mu_step_qlen (N : Nat) (s s' : St) (a : Nat) (w : Nat) (len : Nat) (hi : Inv s) (hw : w < N)
    (h : step s (.qlen a w len) = some s') :
    b2n (eff s (.qlen a w len)) + mu N s' ≤ mu N s + weight (.qlen a w len) := by
  mu_wk

theorem mu_step_chk (N : Nat) (s s' : St) (w : Nat) (v : Nat) (c : Bool) (hi : Inv s) (hw : w < N)
    (h : step s (.chk w v c) = some s') :
    b2n (eff s (.chk w v c)) + mu N s' ≤ mu N s + weight (.chk w v c) := by
  mu_wk

theorem mu_step_sleep (N : Nat) (s s' : St) (w : Nat) (hi : Inv s) (hw : w < N)
    (h : step s (.sleep w) = some s') :
    b2n (eff s (.sleep w)) + mu N s' ≤ mu N s + weight (.sleep w) := by
  mu_wk

theorem mu_step_wait (N : Nat) (s s' : St) (w : Nat) (hi : Inv s) (hw : w < N)
    (h : step s (.wait w) = some s') :
    b2n (eff s (.wait w)) + mu N s' ≤ mu N s + weight (.wait w) := by
  mu_wk

theorem mu_step_woke (N : Nat) (s s' : St) (w : Nat) (hi : Inv s) (hw : w < N)
    (h : step s (.woke w) = some s') :
    b2n (eff s (.woke w)) + mu N s' ≤ mu N s + weight (.woke w) := by
  mu_wk

theorem mu_step_wake (N : Nat) (s s' : St) (w : Nat) (b : Nat) (af : Nat) (hi : Inv s) (hw : w < N)
    (h : step s (.wake w b af) = some s') :
    b2n (eff s (.wake w b af)) + mu N s' ≤ mu N s + weight (.wake w b af) := by
  mu_wk

theorem mu_step_inc (N : Nat) (s s' : St) (a : Nat) (w : Nat) (hi : Inv s) (hw : w < N)
    (h : step s (.inc a w) = some s') :
    b2n (eff s (.inc a w)) + mu N s' ≤ mu N s + weight (.inc a w) := by
  mu_wk

theorem mu_step_dec (N : Nat) (s s' : St) (a : Nat) (w : Nat) (hi : Inv s) (hw : w < N)
    (h : step s (.dec a w) = some s') :
    b2n (eff s (.dec a w)) + mu N s' ≤ mu N s + weight (.dec a w) := by
  mu_wk

theorem mu_step_sel (N : Nat) (s s' : St) (a : Nat) (w : Nat) (v : Nat) (mx : Nat) (owns : Bool) (ok : Bool) (hi : Inv s) (hw : w < N)
    (h : step s (.sel a w v mx owns ok) = some s') :
    b2n (eff s (.sel a w v mx owns ok)) + mu N s' ≤ mu N s + weight (.sel a w v mx owns ok) := by
  mu_wk

theorem mu_step_unl (N : Nat) (s s' : St) (a : Nat) (w : Nat) (_hi : Inv s) (hw : w < N)
    (h : step s (.unl a w) = some s') :
    b2n (eff s (.unl a w)) + mu N s' ≤ mu N s + weight (.unl a w) := by
  simp only [step] at h
  split at h
  · rename_i hl
    simp only [Option.some.injEq] at h
    subst h
    simp [eff, weight, b2n, hl]
  · rename_i b g hl
    split at h
    · simp only [Option.some.injEq] at h
      subst h
      refine mu_step_wk N s w _ _ _ hw ?_
      simp [eff, weight, b2n, hl, pot, pathPot]
      omega
    · simp at h
  · simp at h

theorem mu_step_slock (N : Nat) (s s' : St) (a : Nat) (w : Nat) (hi : Inv s) (hw : w < N)
    (h : step s (.slock a w) = some s') :
    b2n (eff s (.slock a w)) + mu N s' ≤ mu N s + weight (.slock a w) := by
  mu_wk

theorem mu_step_cas (N : Nat) (s s' : St) (a : Nat) (w : Nat) (b : Nat) (af : Nat) (hi : Inv s) (hw : w < N)
    (h : step s (.cas a w b af) = some s') :
    b2n (eff s (.cas a w b af)) + mu N s' ≤ mu N s + weight (.cas a w b af) := by
  mu_wk

theorem mu_step_sunl (N : Nat) (s s' : St) (a : Nat) (w : Nat) (hi : Inv s) (hw : w < N)
    (h : step s (.sunl a w) = some s') :
    b2n (eff s (.sunl a w)) + mu N s' ≤ mu N s + weight (.sunl a w) := by
  mu_wk

theorem mu_step_sdone (N : Nat) (s s' : St) (a : Nat) (w : Nat) (v : Nat) (hi : Inv s) (hw : w < N)
    (h : step s (.sdone a w v) = some s') :
    b2n (eff s (.sdone a w v)) + mu N s' ≤ mu N s + weight (.sdone a w v) := by
  mu_wk

theorem mu_step_ucas (N : Nat) (s s' : St) (a : Nat) (w : Nat) (b : Nat) (af : Nat) (hi : Inv s) (hw : w < N)
    (h : step s (.ucas a w b af) = some s') :
    b2n (eff s (.ucas a w b af)) + mu N s' ≤ mu N s + weight (.ucas a w b af) := by
  mu_wk

theorem mu_step_notify (N : Nat) (s s' : St) (a : Nat) (w : Nat) (_hi : Inv s) (hw : w < N)
    (h : step s (.notify a w) = some s') :
    b2n (eff s (.notify a w)) + mu N s' ≤ mu N s + weight (.notify a w) := by
  simp only [step] at h
  split at h
  · rename_i hl
    simp only [Option.some.injEq] at h
    subst h
    refine mu_step_wk N s w _ _ _ hw ?_
    cases hn : (s.wk w).notified <;> simp [eff, weight, b2n, hl, pot, pathPot, hn] <;> omega
  · rename_i hl
    simp only [Option.some.injEq] at h
    subst h
    simp [eff, weight, b2n, hl]

theorem mu_step_rload (N : Nat) (s s' : St) (a : Nat) (w : Nat) (v : Nat) (hi : Inv s) (hw : w < N)
    (h : step s (.rload a w v) = some s') :
    b2n (eff s (.rload a w v)) + mu N s' ≤ mu N s + weight (.rload a w v) := by
  mu_wk

theorem mu_step_incLow (N : Nat) (s s' : St) (a : Nat) (h : step s (.incLow a) = some s') :
    b2n (eff s (.incLow a)) + mu N s' ≤ mu N s + weight (.incLow a) := by
  simp only [step, Option.some.injEq] at h
  subst h
  simp [mu, eff, moves, weight, b2n]
  omega

theorem mu_step_decLow (N : Nat) (s s' : St) (a : Nat) (h : step s (.decLow a) = some s') :
    b2n (eff s (.decLow a)) + mu N s' ≤ mu N s + weight (.decLow a) := by
  simp only [step] at h
  split at h
  · simp only [Option.some.injEq] at h
    subst h
    rename_i hg
    simp [mu, eff, moves, weight, b2n]
    omega
  · simp at h

theorem mu_step_refuse (N : Nat) (s s' : St) (a : Nat) (ha : a < N) (h : step s (.refuse a) = some s') :
    b2n (eff s (.refuse a)) + mu N s' ≤ mu N s + weight (.refuse a) := by
  simp only [step] at h
  split at h
  · rename_i hg
    simp only [Option.some.injEq] at h
    subst h
    refine mu_step_apc N s a _ _ _ ha ?_
    simp [eff, moves, weight, b2n, apot, hg]
  · simp at h

theorem mu_step_ret (N : Nat) (s s' : St) (a : Nat) (ha : a < N) (h : step s (.ret a) = some s') :
    b2n (eff s (.ret a)) + mu N s' ≤ mu N s + weight (.ret a) := by
  simp only [step, Option.some.injEq] at h
  subst h
  refine mu_step_apc N s a _ _ _ ha ?_
  cases hp : s.apc a <;> simp [eff, weight, b2n, apot, hp]

/-- **Step inequality.**  In a state satisfying the invariant, an accepted event about an index
    `< N` changes the measure by at most its weight, and an effective event pays 1. -/
theorem mu_step (N : Nat) (s s' : St) (e : Ev) (hi : Inv s) (hr : inR N e = true)
    (h : step s e = some s') : b2n (eff s e) + mu N s' ≤ mu N s + weight e := by
  cases e with
  | start a w old => exact mu_step_start N s s' a w old hi (by simpa [inR] using hr) h
  | top w v => exact mu_step_top N s s' w v hi (by simpa [inR] using hr) h
  | qlen a w len => exact mu_step_qlen N s s' a w len hi (by simpa [inR] using hr) h
  | chk w v c => exact mu_step_chk N s s' w v c hi (by simpa [inR] using hr) h
  | sleep w => exact mu_step_sleep N s s' w hi (by simpa [inR] using hr) h
  | wait w => exact mu_step_wait N s s' w hi (by simpa [inR] using hr) h
  | woke w => exact mu_step_woke N s s' w hi (by simpa [inR] using hr) h
  | wake w b af => exact mu_step_wake N s s' w b af hi (by simpa [inR] using hr) h
  | inc a w => exact mu_step_inc N s s' a w hi (by simpa [inR] using hr) h
  | dec a w => exact mu_step_dec N s s' a w hi (by simpa [inR] using hr) h
  | sel a w v mx owns ok => exact mu_step_sel N s s' a w v mx owns ok hi (by simpa [inR] using hr) h
  | unl a w => exact mu_step_unl N s s' a w hi (by simpa [inR] using hr) h
  | slock a w => exact mu_step_slock N s s' a w hi (by simpa [inR] using hr) h
  | cas a w b af => exact mu_step_cas N s s' a w b af hi (by simpa [inR] using hr) h
  | sunl a w => exact mu_step_sunl N s s' a w hi (by simpa [inR] using hr) h
  | sdone a w v => exact mu_step_sdone N s s' a w v hi (by simpa [inR] using hr) h
  | ucas a w b af => exact mu_step_ucas N s s' a w b af hi (by simpa [inR] using hr) h
  | notify a w => exact mu_step_notify N s s' a w hi (by simpa [inR] using hr) h
  | rload a w v => exact mu_step_rload N s s' a w v hi (by simpa [inR] using hr) h
  | incLow a => exact mu_step_incLow N s s' a h
  | decLow a => exact mu_step_decLow N s s' a h
  | refuse a => exact mu_step_refuse N s s' a (by simpa [inR] using hr) h
  | ret a => exact mu_step_ret N s s' a (by simpa [inR] using hr) h


/-! ## Sum over a log -/

/-- number of effective events along the run of `log` from `s` -/
def nEff (s : St) : List Ev → Nat
  | [] => 0
  | e :: es => match step s e with
    | none => 0
    | some s' => b2n (eff s e) + nEff s' es

/-- number of moves (event-determined class) of a log -/
def nMoves : List Ev → Nat
  | [] => 0
  | e :: es => b2n (moves e) + nMoves es

/-- total weight of the sources of a log -/
def wsum : List Ev → Nat
  | [] => 0
  | e :: es => weight e + wsum es

theorem moves_le_eff (s : St) (e : Ev) : b2n (moves e) ≤ b2n (eff s e) := by
  cases e <;> simp [moves, eff, b2n]

theorem nMoves_le_nEff (log : List Ev) : ∀ (s s' : St), runLog step s log = some s' → nMoves log ≤ nEff s log := by
  induction log with
  | nil => intro s s' _; exact Nat.le_refl _
  | cons e es ih =>
    intro s s' h
    simp only [runLog] at h
    cases hs : step s e with
    | none => simp [hs] at h
    | some s1 =>
      simp only [hs] at h
      have := ih s1 s' h
      have := moves_le_eff s e
      simp only [nMoves, nEff, hs]
      omega

theorem mu_runLog (N : Nat) (log : List Ev) : ∀ (s s' : St), Inv s → (∀ e, e ∈ log → inR N e = true) →
    runLog step s log = some s' → nEff s log + mu N s' ≤ mu N s + wsum log := by
  induction log with
  | nil =>
    intro s s' _ _ h
    simp at h
    subst h
    simp [nEff, wsum]
  | cons e es ih =>
    intro s s' hi hr h
    simp only [runLog] at h
    cases hs : step s e with
    | none => simp [hs] at h
    | some s1 =>
      simp only [hs] at h
      have h1 := mu_step N s s1 e hi (hr e (List.mem_cons_self ..)) hs
      have h2 := ih s1 s' (step_inv s s1 e hi hs) (fun e' he' => hr e' (List.mem_cons_of_mem _ he')) h
      simp only [nEff, wsum, hs]
      omega

/-- largest index mentioned in a log, plus one -/
def keyBound : List Ev → Nat
  | [] => 0
  | e :: es => max (evKey e + 1) (keyBound es)

theorem inR_mono (N M : Nat) (e : Ev) (h : inR N e = true) (hm : N ≤ M) : inR M e = true := by
  cases e <;> simp_all [inR] <;> omega

theorem inR_keyBound (log : List Ev) : ∀ e, e ∈ log → inR (keyBound log) e = true := by
  induction log with
  | nil => intro e he; cases he
  | cons e es ih =>
    intro e' he'
    simp only [List.mem_cons] at he'
    cases he' with
    | inl h =>
      subst h
      exact inR_of_key _ _ (by simp only [keyBound]; omega)
    | inr h =>
      exact inR_mono _ _ _ (ih e' h) (by simp only [keyBound]; omega)

/-! ## Exact stutters and neutral events -/

theorem upd_self {α : Type} (f : Nat → α) (t : Nat) : upd f t (f t) = f := by
  funext u
  simp only [upd]
  split
  · rename_i h; rw [h]
  · rfl

/-- an ineffective `unl` / `notify` / `ret` leaves the state exactly as it is -/
theorem ineff_stutter (s s' : St) (e : Ev) (h : step s e = some s') (hne : eff s e = false)
    (hk : (∃ a w, e = .unl a w) ∨ (∃ a w, e = .notify a w) ∨ (∃ a, e = .ret a)) : s' = s := by
  rcases hk with ⟨a, w, rfl⟩ | ⟨a, w, rfl⟩ | ⟨a, rfl⟩
  · simp only [eff] at hne
    simp only [step] at h
    split at h
    · simp at h; exact h.symm
    · rename_i hl; simp [hl] at hne
    · simp at h
  · simp only [eff] at hne
    simp only [step] at h
    split at h
    · rename_i hp
      simp only [Option.some.injEq] at h
      subst h
      have hn : (s.wk w).notified = true := by simpa [hp] using hne
      have : ({ (s.wk w) with notified := true } : Wk) = s.wk w := by
        cases hx : s.wk w
        simp [hx] at hn
        simp [hn]
      rw [this, upd_self]
    · simp at h; exact h.symm
  · simp only [eff] at hne
    simp only [step, Option.some.injEq] at h
    subst h
    have hi : s.apc a = .idle := by
      cases hp : s.apc a
      · rfl
      · simp [hp] at hne
    rw [← hi, upd_self]

/-- the polls: a failed selection, the suspender's `sdone`, the resume loop's `rload`, a queue
    length read by a thread other than the worker — accepted without changing the state -/
theorem poll_stutter (s s' : St) :
    (∀ a w v mx owns, step s (.sel a w v mx owns false) = some s' → s' = s) ∧
    (∀ a w v, step s (.sdone a w v) = some s' → s' = s) ∧
    (∀ a w v, step s (.rload a w v) = some s' → s' = s) ∧
    (∀ a w len, (s.wk w).actor ≠ some a → step s (.qlen a w len) = some s' → s' = s) := by
  refine ⟨?_, ?_, ?_, ?_⟩
  · intro a w v mx owns h
    simp only [step] at h
    split at h
    · simp at h; exact h.symm
    · simp at h
  · intro a w v h
    simp only [step] at h
    split at h <;> simp at h
    exact h.symm
  · intro a w v h
    simp only [step] at h
    split at h <;> simp at h
    exact h.symm
  · intro a w len hne h
    simp only [step, hne, false_and, if_false] at h
    split at h <;> simp at h <;> exact h.2.symm

end PikaVerif.Elastic
