import PikaVerif.Model.Rw
/-! Inductive invariant of the async_rw_mutex model: definitions, counting lemmas, `decRc`. -/
namespace PikaVerif

/-- `sumTo_upd` for a weight that also depends on the index. -/
theorem sumTo_updw {α : Type} (n : Nat) (w : Nat → α → Nat) (f : Nat → α) (t : Nat) (v : α)
    (h : t < n) :
    sumTo n (fun u => w u (upd f t v u)) + w t (f t) = sumTo n (fun u => w u (f u)) + w t v := by
  induction n with
  | zero => exact absurd h (Nat.not_lt_zero _)
  | succ k ih =>
    simp only [sumTo_succ]
    by_cases hk : t = k
    · subst hk
      have h1 : sumTo t (fun u => w u (upd f t v u)) = sumTo t (fun u => w u (f u)) := by
        apply sumTo_congr
        intro u hu
        have : u ≠ t := by omega
        simp [upd, this]
      simp only [upd_same]
      omega
    · have hlt : t < k := by omega
      have := ih hlt
      have hne : k ≠ t := fun h => hk h.symm
      simp only [upd_other _ _ _ _ hne]
      omega

namespace Rw

/-- References an access holds on its group's shared state. -/
def weight : Acc → Nat
  | .none => 0
  | .sender => 1
  | .starting _ _ => 1
  | .loaded _ _ _ => 1
  | .queued _ => 1
  | .granted c => c + 1
  | .released => 0

/-- requested, continuation not yet run -/
def pre : Acc → Bool
  | .sender | .starting _ _ | .loaded _ _ _ | .queued _ => true
  | _ => false

/-- continuation has run -/
def post : Acc → Bool
  | .granted _ | .released => true
  | _ => false

def isQ : Acc → Bool
  | .queued _ => true
  | _ => false

def isDrain : Dn → Bool
  | .drain _ _ => true
  | _ => false

/-- references held by the accesses of group `g` -/
def gsumF (na : Nat) (grp : Nat → Nat) (acc : Nat → Acc) (g : Nat) : Nat :=
  sumTo na (fun a => if grp a = g then weight (acc a) else 0)
abbrev gsum (s : St) (g : Nat) : Nat := gsumF s.na s.grp s.acc g

/-- the mutex' `state` member -/
def mtxwF (alive : Bool) (ng g : Nat) : Nat := if alive = true ∧ g + 1 = ng then 1 else 0
abbrev mtxw (s : St) (g : Nat) : Nat := mtxwF s.alive s.ng g

/-- the previous shared state's `next_state` member -/
def linkwF (dead : Nat → Bool) (g : Nat) : Nat := if 0 < g ∧ dead (g - 1) = false then 1 else 0
abbrev linkw (s : St) (g : Nat) : Nat := linkwF s.dead g

/-- the operation states waiting on group `g` (queued and not yet continued) -/
def qofF (head : Nat → Option (List Nat)) (dn : Nat → Dn) (g : Nat) : List Nat :=
  match head g with
  | some q => q
  | none => match dn g with
    | .drain _ r => r
    | _ => []
abbrev qof (s : St) (g : Nat) : List Nat := qofF s.head s.dn g

/-- The invariant, parameterised by `e g` = references of group `g` held by the atomic block
    in progress (0 between events). -/
structure InvE (s : St) (e : Nat → Nat) : Prop where
  accNone : ∀ a, s.na ≤ a → s.acc a = .none
  accSome : ∀ a, a < s.na → s.acc a ≠ .none
  grpLt : ∀ a, a < s.na → s.grp a < s.ng
  grpMono : ∀ a b, a ≤ b → b < s.na → s.grp a ≤ s.grp b
  rwSingle : ∀ a b, a < s.na → b < s.na → s.grp a = s.grp b → s.rw (s.grp a) = true → a = b
  lastKind : 0 < s.ng → s.rw (s.ng - 1) = s.lastRw
  zeroKind : s.ng = 0 → s.lastRw = true ∧ s.na = 0
  firstOk : ∀ g, g < s.ng → s.first g < s.na ∧ s.grp (s.first g) = g
  account : ∀ g, g < s.ng → s.rc g = mtxw s g + linkw s g + gsum s g + e g
  deadRc : ∀ g, g < s.ng → (s.dead g = true ↔ s.rc g = 0)
  dnIdle : ∀ g, g < s.ng → (s.dn g = .idle ↔ (0 < g ∧ s.dead (g - 1) = false))
  headDn : ∀ g, g < s.ng → ((s.head g).isNone = isDrain (s.dn g))
  qMem : ∀ g a, g < s.ng → (a ∈ qof s g ↔ (a < s.na ∧ s.grp a = g ∧ isQ (s.acc a) = true))
  qNodup : ∀ g, g < s.ng → (qof s g).Nodup
  openPre : ∀ a, a < s.na → (s.head (s.grp a)).isSome = true → pre (s.acc a) = true
  grantsOk : ∀ a, s.grants a = if post (s.acc a) = true then 1 else 0
  vf : s.vfreed = true → s.alive = false ∧ (s.ng = 0 ∨ s.dead (s.ng - 1) = true)

abbrev Inv (s : St) : Prop := InvE s (fun _ => 0)

theorem inv_init : Inv init := by
  refine ⟨?_, ?_, ?_, ?_, ?_, ?_, ?_, ?_, ?_, ?_, ?_, ?_, ?_, ?_, ?_, ?_, ?_⟩ <;> simp [init, post, gsumF, mtxwF, linkwF, qofF]

/-- an access of group `g` contributes its weight to `gsum g` -/
theorem weight_le_gsum (s : St) (a : Nat) (h : a < s.na) : weight (s.acc a) ≤ gsum s (s.grp a) := by
  have := le_sumTo (f := fun u => if s.grp u = s.grp a then weight (s.acc u) else 0) h
  simpa [gsumF] using this

/-- `gsum` after changing the state of access `a`. -/
theorem gsum_upd (s : St) (a : Nat) (v : Acc) (h : a < s.na) (g : Nat) :
    gsumF s.na s.grp (upd s.acc a v) g
      = if s.grp a = g then gsum s g - weight (s.acc a) + weight v else gsum s g := by
  have h1 := sumTo_updw s.na (fun u x => if s.grp u = g then weight x else 0) s.acc a v h
  have h2 := weight_le_gsum s a h
  simp only [gsumF] at h1 h2 ⊢
  split
  · rename_i hg; subst hg; simp only [if_true] at h1; omega
  · rename_i hg; simp only [hg, if_false] at h1; omega

theorem pre_weight {x : Acc} (h : pre x = true) : weight x = 1 := by
  cases x <;> simp_all [pre, weight]

theorem linkwF_kill (d : Nat → Bool) (g g' : Nat) :
    linkwF (upd d g true) g' = if g' = g + 1 then 0 else linkwF d g' := by
  simp only [linkwF, upd]
  by_cases h : g' = g + 1
  · subst h; simp
  · have : ¬ (g' - 1 = g) ∨ g' = 0 := by omega
    rcases this with h1 | h1
    · simp [h, h1]
    · subst h1; simp

theorem linkwF_live (d : Nat → Bool) (g : Nat) (h : d g = false) : linkwF d (g + 1) = 1 := by
  simp [linkwF, h]

theorem qofF_dn_upd (head : Nat → Option (List Nat)) (dn : Nat → Dn) (g g' : Nat) (x : Dn)
    (h : (head g).isSome = true) : qofF head (upd dn g x) g' = qofF head dn g' := by
  simp only [qofF, upd]
  by_cases hg : g' = g
  · subst hg; cases hh : head g' <;> simp_all
  · simp [hg]

theorem decRc_inv (s : St) (t g : Nat) (hg : g < s.ng)
    (hi : InvE s (fun x => if x = g then 1 else 0)) : Inv (decRc s t g) := by
  obtain ⟨h1,h2,h3,h4,h5,h6,h7,h8,h9,h10,h11,h12,h13,h14,h15,h16,h17⟩ := hi
  dsimp only [mtxw, linkw, gsum, qof] at h9 h13 h14
  have hrcg := h9 g hg
  simp only [if_true] at hrcg
  have hdg : s.dead g = false := by
    cases hd : s.dead g with
    | false => rfl
    | true => have := (h10 g hg).1 hd; omega
  unfold decRc
  split
  · rename_i hone
    split
    · rename_i hnext
      -- the next group is still open and its first access has not been granted
      have hidle : s.dn (g + 1) = .idle := (h11 (g + 1) hnext).2 ⟨by omega, by simpa using hdg⟩
      have hopen : (s.head (g + 1)).isSome = true := by
        have := h12 (g + 1) hnext; rw [hidle] at this; cases hh : s.head (g + 1) <;> simp_all [isDrain]
      obtain ⟨hf1, hf2⟩ := h8 (g + 1) hnext
      have hpre := h15 (s.first (g + 1)) hf1 (by rw [hf2]; exact hopen)
      have hw := weight_le_gsum s _ hf1
      rw [hf2, pre_weight hpre] at hw
      dsimp only [gsum] at hw
      have hrc1 := h9 (g + 1) hnext
      have hl1 := linkwF_live s.dead g hdg
      have hne : ¬ (g + 1 = g) := by omega
      simp only [hne, if_false] at hrc1
      refine ⟨?_, ?_, ?_, ?_, ?_, ?_, ?_, ?_, ?_, ?_, ?_, ?_, ?_, ?_, ?_, ?_, ?_⟩ <;> dsimp only [mtxw, linkw, gsum, qof]
      all_goals first | assumption | skip
      · -- account
        intro g' hg'
        have A := h9 g' hg'
        rw [linkwF_kill]
        simp only [upd]
        by_cases e1 : g' = g + 1
        · subst e1; simp only [if_true]; omega
        · by_cases e2 : g' = g
          · subst e2; simp only [e1, if_false, if_true] at A ⊢; omega
          · simp only [e1, e2, if_false] at A ⊢; omega
      · -- deadRc
        intro g' hg'
        have A := h10 g' hg'
        simp only [upd]
        by_cases e1 : g' = g + 1
        · subst e1; simp only [hne, if_true, if_false]; constructor
          · intro hd; have := A.1 hd; omega
          · intro hz; omega
        · by_cases e2 : g' = g
          · subst e2; simp [e1]
          · simp only [e1, e2, if_false]; exact A
      · -- dnIdle
        intro g' hg'
        have A := h11 g' hg'
        simp only [upd]
        by_cases e1 : g' = g + 1
        · subst e1; simp
        · have : ¬ (g' - 1 = g) ∨ g' = 0 := by omega
          rcases this with e2 | e2
          · simp only [e1, e2, if_false]; exact A
          · subst e2; simp only [e1, if_false]; simpa using A
      · -- headDn
        intro g' hg'
        have A := h12 g' hg'
        simp only [upd]
        by_cases e1 : g' = g + 1
        · subst e1; simp only [if_true]; rw [hidle] at A; simpa [isDrain] using A
        · simp only [e1, if_false]; exact A
      · intro g' a hg'
        rw [qofF_dn_upd _ _ _ _ _ hopen]; exact h13 g' a hg'
      · intro g' hg'
        rw [qofF_dn_upd _ _ _ _ _ hopen]; exact h14 g' hg'
      · intro hv
        obtain ⟨v1, v2⟩ := h17 hv
        refine ⟨v1, ?_⟩
        rcases v2 with v2 | v2
        · exact Or.inl v2
        · right; simp only [upd]; split <;> simp_all
    · rename_i hnext
      have hlast : g + 1 = s.ng := by omega
      refine ⟨?_, ?_, ?_, ?_, ?_, ?_, ?_, ?_, ?_, ?_, ?_, ?_, ?_, ?_, ?_, ?_, ?_⟩ <;> dsimp only [mtxw, linkw, gsum, qof]
      all_goals first | assumption | skip
      · intro g' hg'
        have A := h9 g' hg'
        rw [linkwF_kill]
        simp only [upd]
        have e1 : ¬ (g' = g + 1) := by omega
        by_cases e2 : g' = g
        · subst e2; simp only [e1, if_false, if_true] at A ⊢; omega
        · simp only [e1, e2, if_false] at A ⊢; omega
      · intro g' hg'
        have A := h10 g' hg'
        simp only [upd]
        by_cases e2 : g' = g
        · subst e2; simp
        · simp only [e2, if_false]; exact A
      · intro g' hg'
        have A := h11 g' hg'
        simp only [upd]
        have : ¬ (g' - 1 = g) ∨ g' = 0 := by omega
        rcases this with e2 | e2
        · simp only [e2, if_false]; exact A
        · subst e2; simpa using A
      · intro hv
        obtain ⟨v1, v2⟩ := h17 hv
        refine ⟨v1, ?_⟩
        rcases v2 with v2 | v2
        · exact Or.inl v2
        · right; simp only [upd]; split <;> simp_all
  · rename_i hone
    refine ⟨?_, ?_, ?_, ?_, ?_, ?_, ?_, ?_, ?_, ?_, ?_, ?_, ?_, ?_, ?_, ?_, ?_⟩ <;> dsimp only [mtxw, linkw, gsum, qof]
    all_goals first | assumption | skip
    · intro g' hg'
      have A := h9 g' hg'
      simp only [upd]
      by_cases e2 : g' = g
      · subst e2; simp only [if_true] at A ⊢; omega
      · simp only [e2, if_false] at A ⊢; omega
    · intro g' hg'
      have A := h10 g' hg'
      simp only [upd]
      by_cases e2 : g' = g
      · subst e2; simp only [if_true]; constructor
        · intro hd; rw [hd] at hdg; simp at hdg
        · intro hz; omega
      · simp only [e2, if_false]; exact A

/-- Changing the state of one access (and possibly the queue bookkeeping): the counting part of
    the invariant follows from the weights, the queue part is supplied by the caller. -/
theorem setAcc_inv (s : St) (e e' : Nat → Nat) (a : Nat) (v : Acc) (gr' : Nat → Nat)
    (head' : Nat → Option (List Nat)) (dn' : Nat → Dn)
    (hi : InvE s e) (ha : a < s.na) (hv : v ≠ .none)
    (hgr : ∀ b, gr' b = if post (upd s.acc a v b) = true then 1 else 0)
    (he : ∀ g, e' g + (if s.grp a = g then weight v else 0)
             = e g + (if s.grp a = g then weight (s.acc a) else 0))
    (hdn : ∀ g, g < s.ng → (dn' g = .idle ↔ s.dn g = .idle))
    (hhd : ∀ g, g < s.ng → (head' g).isNone = isDrain (dn' g))
    (hqm : ∀ g b, g < s.ng → (b ∈ qofF head' dn' g ↔ (b < s.na ∧ s.grp b = g ∧ isQ (upd s.acc a v b) = true)))
    (hqn : ∀ g, g < s.ng → (qofF head' dn' g).Nodup)
    (hop : ∀ b, b < s.na → (head' (s.grp b)).isSome = true → pre (upd s.acc a v b) = true) :
    InvE { s with acc := upd s.acc a v, grants := gr', head := head', dn := dn' } e' := by
  obtain ⟨h1,h2,h3,h4,h5,h6,h7,h8,h9,h10,h11,h12,h13,h14,h15,h16,h17⟩ := hi
  dsimp only [mtxw, linkw, gsum, qof] at h9 h13 h14
  refine ⟨?_, ?_, ?_, ?_, ?_, ?_, ?_, ?_, ?_, ?_, ?_, ?_, ?_, ?_, ?_, ?_, ?_⟩ <;> dsimp only [mtxw, linkw, gsum, qof]
  all_goals first | assumption | skip
  · intro b hb; have : b ≠ a := by omega
    simp only [upd, this, if_false]; exact h1 b hb
  · intro b hb; simp only [upd]; split
    · exact hv
    · exact h2 b hb
  · intro g hg
    have A := h9 g hg
    have B := he g
    rw [gsum_upd s a v ha g]
    have C := weight_le_gsum s a ha
    dsimp only [gsum] at C
    dsimp only [gsum]
    split
    · rename_i hgg; subst hgg; simp only [if_true] at B; omega
    · rename_i hgg; simp only [hgg, if_false] at B; omega
  · intro g hg; rw [hdn g hg]; exact h11 g hg

theorem lt_of_acc {s : St} {e : Nat → Nat} (hi : InvE s e) {a : Nat} (h : s.acc a ≠ .none) : a < s.na := by
  by_cases hlt : a < s.na
  · exact hlt
  · exact absurd (hi.accNone a (by omega)) h

/-- `setAcc_inv` when the queues are untouched. -/
theorem setAcc_inv' (s : St) (e e' : Nat → Nat) (a : Nat) (v : Acc) (gr' : Nat → Nat)
    (hi : InvE s e) (ha : a < s.na) (hv : v ≠ .none)
    (hgr : ∀ b, gr' b = if post (upd s.acc a v b) = true then 1 else 0)
    (he : ∀ g, e' g + (if s.grp a = g then weight v else 0)
             = e g + (if s.grp a = g then weight (s.acc a) else 0))
    (hq : isQ v = isQ (s.acc a))
    (hp : pre v = true ∨ s.head (s.grp a) = none) :
    InvE { s with acc := upd s.acc a v, grants := gr' } e' := by
  have hi' := hi
  obtain ⟨h1,h2,h3,h4,h5,h6,h7,h8,h9,h10,h11,h12,h13,h14,h15,h16,h17⟩ := hi
  refine setAcc_inv s e e' a v gr' s.head s.dn hi' ha hv hgr he (fun _ _ => Iff.rfl) h12 ?_ h14 ?_
  · intro g b hg
    rw [h13 g b hg]
    simp only [upd]
    by_cases hb : b = a
    · subst hb; simp [hq]
    · simp [hb]
  · intro b hb ho
    simp only [upd]
    by_cases hba : b = a
    · subst hba; simp only [if_true]
      rcases hp with hp | hp
      · exact hp
      · rw [hp] at ho; simp at ho
    · simp only [hba, if_false]; exact h15 b hb ho

/-- a state change of an access that keeps weight, pre-ness and queued-ness -/
theorem swapPre_inv (s : St) (a : Nat) (v : Acc) (hi : Inv s)
    (hx : pre (s.acc a) = true) (hxq : isQ (s.acc a) = false)
    (hv : pre v = true) (hvq : isQ v = false) :
    Inv { s with acc := upd s.acc a v } := by
  have ha : a < s.na := lt_of_acc hi (by intro h; rw [h] at hx; simp [pre] at hx)
  have hw : weight v = weight (s.acc a) := by rw [pre_weight hx, pre_weight hv]
  refine setAcc_inv' s _ _ a v s.grants hi ha (by intro h; rw [h] at hv; simp [pre] at hv) ?_ ?_
    (by rw [hvq, hxq]) (Or.inl hv)
  · intro b
    rw [hi.grantsOk b]
    simp only [upd]
    by_cases hb : b = a
    · subst hb
      have p1 : post (s.acc b) = false := by cases hh : s.acc b <;> simp_all [pre, post]
      have p2 : post v = false := by cases v <;> simp_all [pre, post]
      simp [p1, p2]
    · simp [hb]
  · intro g; rw [hw]


theorem pre_facts {x : Acc} (h : pre x = true) : post x = false ∧ x ≠ .none ∧ weight x = 1 := by
  cases x <;> simp_all [pre, post, weight]

/-- Running the continuation of access `a` (inline or from `done()`, where the frame's list
    shrinks at the same time). -/
theorem grant_inv (s : St) (t a : Nat) (det : Bool) (dn' : Nat → Dn)
    (hi : Inv s) (ha : a < s.na) (hx : pre (s.acc a) = true) (hsent : s.head (s.grp a) = none)
    (hdn : ∀ g, g < s.ng → (dn' g = .idle ↔ s.dn g = .idle))
    (hhd : ∀ g, g < s.ng → (s.head g).isNone = isDrain (dn' g))
    (hqm : ∀ g b, g < s.ng → (b ∈ qofF s.head dn' g ↔
        (b < s.na ∧ s.grp b = g ∧ isQ (s.acc b) = true ∧ b ≠ a)))
    (hqn : ∀ g, g < s.ng → (qofF s.head dn' g).Nodup) :
    Inv (grant { s with dn := dn' } t a det) := by
  obtain ⟨px1, px2, px3⟩ := pre_facts hx
  have hg := hi.grpLt a ha
  have hga : s.grants a = 0 := by rw [hi.grantsOk a]; simp [px1]
  have hgr : ∀ (v : Acc), post v = true → ∀ b, upd s.grants a (s.grants a + 1) b =
      if post (upd s.acc a v b) = true then 1 else 0 := by
    intro v hv b
    simp only [upd]
    by_cases hb : b = a
    · subst hb; simp [hv, hga]
    · simp only [hb, if_false]; exact hi.grantsOk b
  have hqm' : ∀ (v : Acc), isQ v = false → ∀ g b, g < s.ng → (b ∈ qofF s.head dn' g ↔
      (b < s.na ∧ s.grp b = g ∧ isQ (upd s.acc a v b) = true)) := by
    intro v hv g b hgg
    rw [hqm g b hgg]
    simp only [upd]
    by_cases hb : b = a
    · subst hb; simp [hv]
    · simp [hb]
  have hop : ∀ (v : Acc), ∀ b, b < s.na → (s.head (s.grp b)).isSome = true → pre (upd s.acc a v b) = true := by
    intro v b hb ho
    simp only [upd]
    by_cases hba : b = a
    · subst hba; rw [hsent] at ho; simp at ho
    · simp only [hba, if_false]; exact hi.openPre b hb ho
  unfold grant
  cases det with
  | false =>
    simp only [Bool.false_eq_true, if_false]
    refine setAcc_inv s _ _ a (.granted 0) _ s.head dn' hi ha (by simp) (hgr _ (by simp [post])) ?_
      hdn hhd (hqm' _ (by simp [isQ])) hqn (hop _)
    intro g; rw [px3]; simp [weight]
  | true =>
    simp only [if_true]
    refine decRc_inv _ t (s.grp a) hg ?_
    refine setAcc_inv s _ _ a .released _ s.head dn' hi ha (by simp) (hgr _ (by simp [post])) ?_
      hdn hhd (hqm' _ (by simp [isQ])) hqn (hop _)
    intro g; rw [px3]; simp only [weight]
    by_cases h : s.grp a = g
    · simp [h]
    · have : ¬ (g = s.grp a) := fun h' => h h'.symm
      simp [h, this]

end Rw
end PikaVerif
