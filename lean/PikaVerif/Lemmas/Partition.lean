/-!
# Partitions of `[0, N)` by a monotone sequence of cut points

`a 0 = 0 ≤ a 1 ≤ … ≤ a m = N`: every `j < N` lies in exactly one cell `[a k, a (k+1))`, `k < m`.
Used twice for C11: worker → chunk ranges (`a k = k * nc / w`) and chunk → index ranges
(`a j = min (j * c) n`).
-/
namespace PikaVerif.Partition

theorem mono_le (a : Nat → Nat) (m : Nat) (hmono : ∀ k, k < m → a k ≤ a (k + 1)) :
    ∀ k k', k ≤ k' → k' ≤ m → a k ≤ a k' := by
  intro k k' hkk
  induction k' with
  | zero => intro _; have : k = 0 := by omega
            subst this; exact Nat.le_refl _
  | succ i ih =>
    intro hm
    by_cases h : k = i + 1
    · subst h; exact Nat.le_refl _
    · exact Nat.le_trans (ih (by omega) (by omega)) (hmono i (by omega))

/-- Existence of the cell. -/
theorem exists_cell (a : Nat → Nat) (m : Nat) (hmono : ∀ k, k < m → a k ≤ a (k + 1))
    (h0 : a 0 = 0) (j : Nat) (hj : j < a m) : ∃ k, k < m ∧ a k ≤ j ∧ j < a (k + 1) := by
  induction m with
  | zero => rw [h0] at hj; exact absurd hj (Nat.not_lt_zero _)
  | succ i ih =>
    by_cases h : j < a i
    · obtain ⟨k, hk, h1, h2⟩ := ih (fun k hk => hmono k (by omega)) h
      exact ⟨k, by omega, h1, h2⟩
    · exact ⟨i, by omega, by omega, hj⟩

/-- Uniqueness of the cell. -/
theorem cell_unique (a : Nat → Nat) (m : Nat) (hmono : ∀ k, k < m → a k ≤ a (k + 1))
    {j k k' : Nat} (hk : k < m) (hk' : k' < m)
    (h1 : a k ≤ j) (h2 : j < a (k + 1)) (h1' : a k' ≤ j) (h2' : j < a (k' + 1)) : k = k' := by
  by_cases hlt : k < k'
  · have := mono_le a m hmono (k + 1) k' (by omega) (by omega); omega
  · by_cases hgt : k' < k
    · have := mono_le a m hmono (k' + 1) k (by omega) (by omega); omega
    · omega

/-- The cut points `k * nc / w` of `init_queue`. -/
def part (w nc k : Nat) : Nat := k * nc / w

theorem part_mono (w nc k : Nat) : part w nc k ≤ part w nc (k + 1) := by
  unfold part
  apply Nat.div_le_div_right
  exact Nat.mul_le_mul_right nc (by omega)

theorem part_zero (w nc : Nat) : part w nc 0 = 0 := by simp [part]

theorem part_last (w nc : Nat) (hw : 0 < w) : part w nc w = nc := by
  unfold part; exact Nat.mul_div_cancel_left nc hw

/-- The cut points `min (j * c) n` of `do_work_chunk`. -/
def cut (c n j : Nat) : Nat := min (j * c) n

theorem cut_mono (c n j : Nat) : cut c n j ≤ cut c n (j + 1) := by
  unfold cut
  have : j * c ≤ (j + 1) * c := Nat.mul_le_mul_right c (by omega)
  omega

theorem cut_zero (c n : Nat) : cut c n 0 = 0 := by simp [cut]

/-- Number of chunks `⌈n / c⌉` as the code computes it. -/
def nchunks (c n : Nat) : Nat := (n + c - 1) / c

theorem nchunks_mul_ge (c n : Nat) (hc : 0 < c) : n ≤ nchunks c n * c := by
  unfold nchunks
  have h := Nat.div_add_mod (n + c - 1) c
  have h2 := Nat.mod_lt (n + c - 1) hc
  rw [Nat.mul_comm] at h
  omega

theorem lt_of_lt_nchunks (c n j : Nat) (hc : 0 < c) (hj : j < nchunks c n) : j * c < n := by
  unfold nchunks at hj
  have h1 : (j + 1) ≤ (n + c - 1) / c := hj
  have h2 := (Nat.le_div_iff_mul_le hc).1 h1
  have : (j + 1) * c = j * c + c := by rw [Nat.add_mul]; simp
  omega

theorem cut_last (c n : Nat) (hc : 0 < c) : cut c n (nchunks c n) = n := by
  unfold cut; have := nchunks_mul_ge c n hc; omega

theorem cut_of_lt (c n j : Nat) (hc : 0 < c) (hj : j < nchunks c n) : cut c n j = j * c := by
  unfold cut; have := lt_of_lt_nchunks c n j hc hj; omega

/-- Worker `k` owns chunks `[part k, part (k+1))`: they partition `[0, nc)`. -/
theorem chunk_owner (w nc : Nat) (hw : 0 < w) (j : Nat) (hj : j < nc) :
    ∃ k, k < w ∧ part w nc k ≤ j ∧ j < part w nc (k + 1) ∧
      ∀ k', k' < w → part w nc k' ≤ j → j < part w nc (k' + 1) → k' = k := by
  have hm : ∀ k, k < w → part w nc k ≤ part w nc (k + 1) := fun k _ => part_mono w nc k
  obtain ⟨k, hk, h1, h2⟩ := exists_cell (part w nc) w hm (part_zero w nc) j
    (by rw [part_last w nc hw]; exact hj)
  exact ⟨k, hk, h1, h2, fun k' hk' h1' h2' => cell_unique (part w nc) w hm hk' hk h1' h2' h1 h2⟩

/-- Chunk `j` covers indices `[j*c, min ((j+1)*c) n)`: they partition `[0, n)`. -/
theorem index_owner (c n : Nat) (hc : 0 < c) (i : Nat) (hi : i < n) :
    ∃ j, j < nchunks c n ∧ j * c ≤ i ∧ i < min ((j + 1) * c) n ∧
      ∀ j', j' < nchunks c n → j' * c ≤ i → i < min ((j' + 1) * c) n → j' = j := by
  have hm : ∀ k, k < nchunks c n → cut c n k ≤ cut c n (k + 1) := fun k _ => cut_mono c n k
  obtain ⟨j, hj, h1, h2⟩ := exists_cell (cut c n) (nchunks c n) hm (cut_zero c n) i
    (by rw [cut_last c n hc]; exact hi)
  rw [cut_of_lt c n j hc hj] at h1
  refine ⟨j, hj, h1, h2, ?_⟩
  intro j' hj' h1' h2'
  have e' := cut_of_lt c n j' hc hj'
  have e := cut_of_lt c n j hc hj
  exact cell_unique (cut c n) (nchunks c n) hm hj' hj (by rw [e']; exact h1') h2'
    (by rw [e]; exact h1) h2

end PikaVerif.Partition
