import PikaVerif.Lemmas.AffTerm
/-! C15 (follow-up C15t): the numa-balanced decoder.

* exact characterisation of the inputs on which it does not return (`numaHangs`);
* the per-socket loops with their offsets: on a socket whose cores have the sizes the decoder
  assumes (`SockOK`: `get_number_of_core_pus(num_core)` without `core_offset` happens to be
  right) the binding part is correct; the reported PU number still lacks the offset. -/
namespace PikaVerif.Aff
open PikaVerif

/-! ## non-termination -/

/-- some socket is asked for more threads than its scan can find -/
def numaHangsAt (cfg : Cfg) : List Nat → Nat → Bool
  | [], _ => false
  | share :: rest, n =>
    decide (balTotal cfg (sockOff cfg.t n) (socketCores cfg.t n) < share) ||
      numaHangsAt cfg rest (n + 1)

/-- `num_threads_socket` as computed by the decoder -/
def numaSharesOf (cfg : Cfg) : List Nat := numaShares cfg (numaPusT cfg) (numSockets cfg.t) 0 0

/-- **decidable predicate: the numa-balanced decoder does not return** -/
def numaHangs (cfg : Cfg) : Bool := !tooMany cfg && numaHangsAt cfg (numaSharesOf cfg) 0

def Fresh (s : ASt) : Prop := ∀ i, s.k ≤ i → s.aff i = []

theorem numaSockets_spec (cfg : Cfg) : ∀ (shares : List Nat) (n : Nat) (s : ASt), Fresh s →
    match numaSockets cfg shares n s with
    | .hang => numaHangsAt cfg shares n = true
    | .run s' => numaHangsAt cfg shares n = false ∧ Fresh s'
    | .err => False := by
  intro shares
  induction shares with
  | nil => intro n s hs; simp [numaSockets, numaHangsAt, hs]
  | cons share rest ih =>
    intro n s hs
    simp only [numaSockets, numaHangsAt]
    have h1 := balPhase1_isSome cfg (sockOff cfg.t n) share (socketCores cfg.t n)
    cases hb : balPhase1 cfg (sockOff cfg.t n) share (socketCores cfg.t n) with
    | none =>
      rw [hb] at h1
      have : ¬ share ≤ balTotal cfg (sockOff cfg.t n) (socketCores cfg.t n) := by simpa using h1.symm
      simp only
      have : balTotal cfg (sockOff cfg.t n) (socketCores cfg.t n) < share := by omega
      simp [this]
    | some b =>
      rw [hb] at h1
      have hle : share ≤ balTotal cfg (sockOff cfg.t n) (socketCores cfg.t n) := by simpa using h1.symm
      have hnl : ¬ balTotal cfg (sockOff cfg.t n) (socketCores cfg.t n) < share := by omega
      simp only [hnl, decide_false, Bool.false_or]
      have h2 := balPhase2_noerr cfg b (effUsed cfg) (effUsed cfg + sockOff cfg.t n)
        (socketCores cfg.t n) s hs
      cases hr : balPhase2 cfg b (effUsed cfg) (effUsed cfg + sockOff cfg.t n)
          (socketCores cfg.t n) s with
      | run s' => rw [hr] at h2; exact ih (n + 1) s' h2
      | fin s' => rw [hr] at h2; exact h2.elim
      | err => rw [hr] at h2; exact h2.elim

def isDivergeR : Res → Bool
  | .diverge => true
  | _ => false

/-- **numa-balanced does not return iff `numaHangs`** (both directions) -/
theorem decodeNuma_diverges_iff (cfg : Cfg) : isDivergeR (decodeNuma cfg) = numaHangs cfg := by
  unfold decodeNuma numaHangs
  cases ht : tooMany cfg with
  | true => simp [isDivergeR]
  | false =>
    simp only [Bool.false_eq_true, ↓reduceIte, Bool.not_false, Bool.true_and]
    have := numaSockets_spec cfg (numaSharesOf cfg) 0 ASt.init (fun _ _ => rfl)
    unfold numaSharesOf at this ⊢
    cases hr : numaSockets cfg (numaShares cfg (numaPusT cfg) (numSockets cfg.t) 0 0) 0 ASt.init with
    | run s => rw [hr] at this; simp [isDivergeR, this.1]
    | err => rw [hr] at this; exact this.elim
    | hang => rw [hr] at this; simp [isDivergeR, this]

/-! ## a socket whose cores have the sizes the decoder assumes -/

/-- cores `off … off + ncores - 1` exist and the `c`-th of them has as many PUs as core `c` of
    the machine (what `get_number_of_core_pus(num_core)` — without `core_offset` — returns) -/
def SockOK (cfg : Cfg) (off ncores : Nat) : Prop :=
  ∀ c, c < ncores → c + off < cfg.t.nc ∧ cfg.t.pus (c + off) = cfg.t.pus c

/-- invariant of the first phase on a socket with core offset `off` -/
structure BInvO (cfg : Cfg) (off ncores : Nat) (s : BSt) : Prop where
  len : ∀ c, s.cnt c = (s.idx c).length
  mem : ∀ c x, x ∈ s.idx c → c < ncores ∧ x < s.nxt c ∧ x < cfg.t.pus (c + off) ∧
    ind cfg (base cfg.t (c + off) + x) = true
  sorted : ∀ c, (s.idx c).Pairwise (· < ·)
  sum : sumTo ncores s.cnt = s.k

theorem balCore_invO (cfg : Cfg) (off ncores goal : Nat) (hH : SockOK cfg off ncores) {c : Nat}
    (hc : c < ncores) (s : BSt) (h : BInvO cfg off ncores s) :
    CtlP (BInvO cfg off ncores) (BInvO cfg off ncores) False (balCore cfg off goal c s) := by
  obtain ⟨hcn, hsame⟩ := hH c hc
  have hc0 : c < cfg.t.nc := by omega
  have hcp : corePus cfg.t c = cfg.t.pus (c + off) := by rw [corePus_eq cfg.t hc0, hsame]
  unfold balCore
  simp only [hcp]
  obtain ⟨s1, s2, _⟩ := scanPu_spec (fun p => inMask cfg (c + off) p) (cfg.t.pus (c + off)) (s.nxt c)
  generalize scanPu (fun p => inMask cfg (c + off) p) (cfg.t.pus (c + off)) (s.nxt c) = r at s1 s2
  obtain ⟨j, u⟩ := r
  simp only at s1 s2
  cases u with
  | false =>
    simp only [Bool.not_false, ↓reduceIte, CtlP]
    refine ⟨h.len, ?_, h.sorted, h.sum⟩
    intro c' x hx
    obtain ⟨h1, h2, h3⟩ := h.mem c' x hx
    refine ⟨h1, ?_, h3⟩
    by_cases hcc : c' = c
    · subst hcc; simp only [upd_same]; omega
    · simpa [upd, hcc] using h2
  | true =>
    obtain ⟨t1, t2, t3, _⟩ := s2 rfl
    have hx : j - 1 < cfg.t.pus (c + off) := by omega
    have hind : ind cfg (base cfg.t (c + off) + (j - 1)) = true := by
      rw [← inMask_eq cfg hcn hx]; exact t3
    simp only [Bool.not_true, Bool.false_eq_true, ↓reduceIte, upd_same]
    have hI : BInvO cfg off ncores (BSt.mk (s.k + 1) (upd s.nxt c j)
        (upd s.idx c (s.idx c ++ [j - 1])) (upd s.cnt c (s.cnt c + 1))) := by
      refine ⟨?_, ?_, ?_, ?_⟩ <;> dsimp only
      · intro c'
        by_cases hcc : c' = c
        · subst hcc; simp [h.len c']
        · simp [upd, hcc, h.len c']
      · intro c' x hx'
        by_cases hcc : c' = c
        · subst hcc
          simp only [upd_same, List.mem_append, List.mem_singleton] at hx' ⊢
          rcases hx' with hx' | hx'
          · obtain ⟨h1, h2, h3⟩ := h.mem c' x hx'
            exact ⟨h1, by omega, h3⟩
          · subst hx'; exact ⟨hc, by omega, hx, hind⟩
        · simp only [upd, hcc, ↓reduceIte] at hx' ⊢
          exact h.mem c' x hx'
      · intro c'
        by_cases hcc : c' = c
        · subst hcc
          simp only [upd_same, List.pairwise_append]
          refine ⟨h.sorted c', by simp, ?_⟩
          intro a ha b hb
          simp only [List.mem_singleton] at hb
          have := (h.mem c' a ha).2.1
          omega
        · simp only [upd, hcc, ↓reduceIte]; exact h.sorted c'
      · have e : sumTo ncores (upd s.cnt c (s.cnt c + 1)) =
            sumTo ncores s.cnt - s.cnt c + (s.cnt c + 1) :=
          sumTo_upd_eq ncores (fun x => x) s.cnt c (s.cnt c + 1) hc
        have l := le_sumTo (f := s.cnt) hc
        have hs := h.sum
        rw [e]; omega
    by_cases hn : s.k + 1 = goal
    · simp only [hn, ↓reduceIte, CtlP]
      rw [← hn]; exact hI
    · simp only [hn, ↓reduceIte, CtlP]
      exact hI

theorem balLoop_invO (cfg : Cfg) (off ncores goal : Nat) (hH : SockOK cfg off ncores) :
    ∀ (f : Nat) (s : BSt), BInvO cfg off ncores s →
    ∀ b, balLoop cfg off goal ncores f s = some b → BInvO cfg off ncores b := by
  intro f
  induction f with
  | zero => intro s _ b h; simp [balLoop] at h
  | succ f ih =>
    intro s hs b h
    simp only [balLoop, balPass] at h
    have hp := forRange_inv (balCore cfg off goal) (fun _ s => BInvO cfg off ncores s)
      (fun s => BInvO cfg off ncores s) False ncores s
      (fun c s hc hs => balCore_invO cfg off ncores goal hH hc s hs) hs
    cases hr : forRange ncores (balCore cfg off goal) s with
    | fin s' =>
      rw [hr] at hp h
      simp only [Option.some.injEq] at h
      subst h; exact hp
    | err => rw [hr] at hp; exact hp.elim
    | run s' =>
      rw [hr] at hp h
      simp only at h
      split at h
      · simp at h
      · exact ih s' hp b h

theorem init_BInvO (cfg : Cfg) (off ncores : Nat) : BInvO cfg off ncores BSt.init :=
  ⟨fun _ => rfl, fun _ _ h => by simp [BSt.init] at h, fun _ => by simp [BSt.init],
   by simp [BSt.init]; exact sumTo_eq_zero (fun _ _ => rfl)⟩

theorem balPhase1_invO (cfg : Cfg) (off ncores goal : Nat) (hH : SockOK cfg off ncores) (b : BSt)
    (h : balPhase1 cfg off goal ncores = some b) : BInvO cfg off ncores b ∧ b.k = goal := by
  refine ⟨?_, balPhase1_k cfg off goal ncores b h⟩
  unfold balPhase1 at h
  split at h
  · simp only [Option.some.injEq] at h
    subst h; exact init_BInvO cfg off ncores
  · exact balLoop_invO cfg off ncores goal hH _ _ (init_BInvO cfg off ncores) b h

/-- invariant of the second phase on a socket: `k0` threads were placed by earlier sockets, all
    on PUs below `base off` -/
structure PInvO (cfg : Cfg) (b : BSt) (off ncores k0 c j : Nat) (s : ASt) : Prop where
  count : s.k = k0 + sumTo c b.cnt + j
  old : ∀ i, i < k0 → ∃ q, q < base cfg.t off ∧ s.aff i = [q] ∧ ind cfg q = true
  new : ∀ i, k0 ≤ i → i < s.k → ∃ c' j', c' < ncores ∧ j' < b.cnt c' ∧ (c' < c ∨ (c' = c ∧ j' < j)) ∧
    s.aff i = [base cfg.t (c' + off) + (b.idx c').getD j' 0] ∧
    s.pn i = base cfg.t c' + (b.idx c').getD j' 0
  fresh : ∀ i, s.k ≤ i → s.aff i = []
  distinct : ∀ i i', i < s.k → i' < s.k → i ≠ i' → s.aff i ≠ s.aff i'

theorem idx_mem (cfg : Cfg) (off ncores : Nat) (b : BSt) (hb : BInvO cfg off ncores b) {c j : Nat}
    (hj : j < b.cnt c) : (b.idx c).getD j 0 ∈ b.idx c ∧ j < (b.idx c).length := by
  have hjl : j < (b.idx c).length := by rw [← hb.len c]; exact hj
  exact ⟨by rw [getD_lt _ hjl]; exact List.getElem_mem hjl, hjl⟩

theorem balAssign_invO (cfg : Cfg) (hu : effUsed cfg = 0) (b : BSt) (off ncores k0 : Nat)
    (hH : SockOK cfg off ncores) (hb : BInvO cfg off ncores b) {c j : Nat}
    (hc : c < ncores) (hj : j < b.cnt c) (s : ASt) (h : PInvO cfg b off ncores k0 c j s) :
    CtlP (PInvO cfg b off ncores k0 c (j + 1)) (fun _ => False) False
      (balAssign cfg b (effUsed cfg) (effUsed cfg + off) c j s) := by
  obtain ⟨hcn, hsame⟩ := hH c hc
  have hc0 : c < cfg.t.nc := by omega
  have hf := h.fresh s.k (Nat.le_refl _)
  obtain ⟨hmem, hjl⟩ := idx_mem cfg off ncores b hb hj
  obtain ⟨_, _, hx, hix⟩ := hb.mem c _ hmem
  have hx0 : (b.idx c).getD j 0 < cfg.t.pus c := by rw [← hsame]; exact hx
  unfold balAssign
  simp only [hf, ne_eq, not_true_eq_false, ↓reduceIte, hu, Nat.add_zero, Nat.zero_add, threadMask,
    puNumber_eq cfg.t hcn hx, puNumber_eq cfg.t hc0 hx0, CtlP]
  have hnew : ∀ i, i < s.k → s.aff i ≠ [base cfg.t (c + off) + (b.idx c).getD j 0] := by
    intro i hi he
    by_cases hik : i < k0
    · obtain ⟨q, hq, ha, _⟩ := h.old i hik
      rw [ha] at he
      have he' : q = base cfg.t (c + off) + (b.idx c).getD j 0 := by simpa using he
      have := base_mono cfg.t (c := off) (d := c + off) (by omega)
      omega
    · obtain ⟨c', j', h1, h2, h3, h4, _⟩ := h.new i (by omega) hi
      rw [h4] at he
      have he' : base cfg.t (c' + off) + (b.idx c').getD j' 0 =
          base cfg.t (c + off) + (b.idx c).getD j 0 := by simpa using he
      obtain ⟨hmem', hjl'⟩ := idx_mem cfg off ncores b hb h2
      obtain ⟨_, _, hx', _⟩ := hb.mem c' _ hmem'
      obtain ⟨e1, e2⟩ := base_inj cfg.t hx' hx he'
      have e1' : c' = c := by omega
      subst e1'
      have hlt : j' < j := by omega
      have := (List.pairwise_iff_getElem.1 (hb.sorted c')) j' j hjl' hjl hlt
      rw [getD_lt _ hjl', getD_lt _ hjl] at e2
      omega
  refine ⟨by simp only [h.count]; omega, ?_, ?_, ?_, ?_⟩ <;> dsimp only
  · intro i hi
    obtain ⟨q, hq, ha, hi'⟩ := h.old i hi
    have hk := h.count
    have : i ≠ s.k := by omega
    exact ⟨q, hq, by simp [upd, this, ha], hi'⟩
  · intro i hi1 hi2
    by_cases hik : i = s.k
    · subst hik
      exact ⟨c, j, hc, hj, Or.inr ⟨rfl, by omega⟩, by simp, by simp⟩
    · obtain ⟨c', j', h1, h2, h3, h4, h5⟩ := h.new i hi1 (by omega)
      refine ⟨c', j', h1, h2, ?_, by simp [upd, hik, h4], by simp [upd, hik, h5]⟩
      rcases h3 with h3 | ⟨h3, h3'⟩
      · exact Or.inl h3
      · exact Or.inr ⟨h3, by omega⟩
  · intro i hi
    have : i ≠ s.k := by omega
    simp [upd, this, h.fresh i (by omega)]
  · intro i i' hi hi' hne
    by_cases hik : i = s.k
    · have hjk : i' ≠ s.k := by omega
      simp only [upd, hik, hjk, ↓reduceIte]
      exact fun he => hnew i' (by omega) he.symm
    · by_cases hjk : i' = s.k
      · simp only [upd, hik, hjk, ↓reduceIte]
        exact hnew i (by omega)
      · simp only [upd, hik, hjk, ↓reduceIte]
        exact h.distinct i i' (by omega) (by omega) hne

theorem balPhase2_invO (cfg : Cfg) (hu : effUsed cfg = 0) (b : BSt) (off ncores k0 : Nat)
    (hH : SockOK cfg off ncores) (hb : BInvO cfg off ncores b) (s : ASt)
    (h : PInvO cfg b off ncores k0 0 0 s) :
    CtlP (PInvO cfg b off ncores k0 ncores 0) (fun _ => False) False
      (balPhase2 cfg b (effUsed cfg) (effUsed cfg + off) ncores s) := by
  unfold balPhase2
  refine forRange_inv _ (fun c => PInvO cfg b off ncores k0 c 0) (fun _ => False) False ncores s ?_ h
  intro c s hc hs
  have := forRange_inv (balAssign cfg b (effUsed cfg) (effUsed cfg + off) c)
    (fun j => PInvO cfg b off ncores k0 c j) (fun _ => False) False (b.cnt c) s
    (fun j s hj hs => balAssign_invO cfg hu b off ncores k0 hH hb hc hj s hs) hs
  cases hr : forRange (b.cnt c) (balAssign cfg b (effUsed cfg) (effUsed cfg + off) c) s with
  | run s' =>
    rw [hr] at this
    simp only [CtlP] at this ⊢
    refine ⟨by rw [this.count, sumTo_succ]; omega, this.old, ?_, this.fresh, this.distinct⟩
    intro i hi1 hi2
    obtain ⟨c', j', h1, h2, h3, h4⟩ := this.new i hi1 hi2
    refine ⟨c', j', h1, h2, ?_, h4⟩
    rcases h3 with h3 | ⟨h3, _⟩
    · exact Or.inl (by omega)
    · exact Or.inl (by omega)
  | fin s' => rw [hr] at this; exact this
  | err => rw [hr] at this; exact this.elim

/-- state between two sockets: every worker placed so far sits on its own usable PU below `lo` -/
structure NInv (cfg : Cfg) (lo : Nat) (s : ASt) : Prop where
  bound : ∀ i, i < s.k → ∃ q, q < lo ∧ s.aff i = [q] ∧ ind cfg q = true
  fresh : ∀ i, s.k ≤ i → s.aff i = []
  distinct : ∀ i i', i < s.k → i' < s.k → i ≠ i' → s.aff i ≠ s.aff i'

/-- one socket of the assignment part -/
theorem numaSocket_step (cfg : Cfg) (hu : effUsed cfg = 0) (off ncores share : Nat)
    (hH : SockOK cfg off ncores) (b : BSt) (hb : balPhase1 cfg off share ncores = some b)
    (s : ASt) (hs : NInv cfg (base cfg.t off) s) :
    ∃ s', balPhase2 cfg b (effUsed cfg) (effUsed cfg + off) ncores s = .run s' ∧
      NInv cfg (base cfg.t (off + ncores)) s' ∧ s'.k = s.k + share ∧
      (∀ i, s.k ≤ i → i < s'.k → ∃ c x, c < ncores ∧ s'.aff i = [base cfg.t (c + off) + x] ∧
        s'.pn i = base cfg.t c + x) := by
  obtain ⟨hbi, hbk⟩ := balPhase1_invO cfg off ncores share hH b hb
  have h0 : PInvO cfg b off ncores s.k 0 0 s :=
    ⟨rfl, hs.bound, fun i h1 h2 => by omega, hs.fresh, hs.distinct⟩
  have hp := balPhase2_invO cfg hu b off ncores s.k hH hbi s h0
  cases hr : balPhase2 cfg b (effUsed cfg) (effUsed cfg + off) ncores s with
  | fin s' => rw [hr] at hp; exact hp.elim
  | err => rw [hr] at hp; exact hp.elim
  | run s' =>
    rw [hr] at hp
    simp only [CtlP] at hp
    have hk : s'.k = s.k + share := by rw [hp.count, hbi.sum, hbk]; rfl
    refine ⟨s', rfl, ⟨?_, hp.fresh, hp.distinct⟩, hk, ?_⟩
    · intro i hi
      by_cases hik : i < s.k
      · obtain ⟨q, hq, r⟩ := hp.old i hik
        have := base_mono cfg.t (c := off) (d := off + ncores) (by omega)
        exact ⟨q, by omega, r⟩
      · obtain ⟨c', j', h1, h2, _, h4, _⟩ := hp.new i (by omega) hi
        obtain ⟨hmem, _⟩ := idx_mem cfg off ncores b hbi h2
        obtain ⟨_, _, hx, hix⟩ := hbi.mem c' _ hmem
        refine ⟨_, ?_, h4, hix⟩
        have := base_add_lt cfg.t hx (show c' + off < off + ncores by omega)
        exact this
    · intro i hi1 hi2
      obtain ⟨c', j', h1, _, _, h4, h5⟩ := hp.new i hi1 hi2
      exact ⟨c', _, h1, h4, h5⟩

theorem sockOff_succ (t : Topo) (n : Nat) : sockOff t (n + 1) = sockOff t n + socketCores t n := rfl

/-- all sockets from `n` on have the shape the decoder assumes -/
def SocksOK (cfg : Cfg) (n len : Nat) : Prop :=
  ∀ m, n ≤ m → m < n + len → SockOK cfg (sockOff cfg.t m) (socketCores cfg.t m)

theorem numaSockets_ok (cfg : Cfg) (hu : effUsed cfg = 0) : ∀ (shares : List Nat) (n : Nat) (s : ASt),
    SocksOK cfg n shares.length → numaHangsAt cfg shares n = false →
    NInv cfg (base cfg.t (sockOff cfg.t n)) s →
    ∃ s', numaSockets cfg shares n s = .run s' ∧
      NInv cfg (base cfg.t (sockOff cfg.t (n + shares.length))) s' ∧ s'.k = s.k + shares.sum := by
  intro shares
  induction shares with
  | nil => intro n s _ _ hs; exact ⟨s, rfl, by simpa using hs, by simp⟩
  | cons share rest ih =>
    intro n s hok hh hs
    simp only [numaHangsAt, Bool.or_eq_false_iff, decide_eq_false_iff_not] at hh
    obtain ⟨hh1, hh2⟩ := hh
    simp only [numaSockets]
    have h1 := balPhase1_isSome cfg (sockOff cfg.t n) share (socketCores cfg.t n)
    cases hb : balPhase1 cfg (sockOff cfg.t n) share (socketCores cfg.t n) with
    | none =>
      rw [hb] at h1
      have : ¬ share ≤ balTotal cfg (sockOff cfg.t n) (socketCores cfg.t n) := by simpa using h1.symm
      omega
    | some b =>
      simp only
      obtain ⟨s1, e1, i1, k1, _⟩ := numaSocket_step cfg hu (sockOff cfg.t n) (socketCores cfg.t n)
        share (hok n (Nat.le_refl _) (by simp)) b hb s hs
      rw [e1]
      simp only
      rw [← sockOff_succ] at i1
      obtain ⟨s2, e2, i2, k2⟩ := ih (n + 1) s1
        (fun m hm1 hm2 => hok m (by omega) (by simp only [List.length_cons]; omega)) hh2 i1
      refine ⟨s2, e2, ?_, ?_⟩
      · have : n + (share :: rest).length = n + 1 + rest.length := by
          simp only [List.length_cons]; omega
        rw [this]; exact i2
      · rw [k2, k1, List.sum_cons]; omega

/-- sockets that get no thread leave everything as it is -/
theorem forRange_id {σ : Type} (body : Nat → σ → Ctl σ) (hb : ∀ i s, body i s = .run s) :
    ∀ (cnt i : Nat) (s : σ), forFrom body i cnt s = .run s := by
  intro cnt
  induction cnt with
  | zero => intro i s; rfl
  | succ m ih => intro i s; simp only [forFrom, hb i s]; exact ih (i + 1) s

theorem numaSockets_zeros (cfg : Cfg) : ∀ (rest : List Nat) (n : Nat) (s : ASt),
    (∀ x, x ∈ rest → x = 0) → numaSockets cfg rest n s = .run s := by
  intro rest
  induction rest with
  | nil => intro n s _; rfl
  | cons x rest ih =>
    intro n s hz
    have hx : x = 0 := hz x (by simp)
    subst hx
    have h2 : balPhase2 cfg BSt.init (effUsed cfg) (effUsed cfg + sockOff cfg.t n)
        (socketCores cfg.t n) s = .run s := by
      unfold balPhase2 forRange
      apply forRange_id
      intro c s'
      rfl
    simp only [numaSockets, balPhase1, ↓reduceIte, h2]
    exact ih (n + 1) s (fun y hy => hz y (by simp [hy]))

/-! ## machines on which the missing `core_offset` of `get_number_of_core_pus` is harmless -/

/-- **decidable**: the sockets partition the cores, and the `c`-th core of every socket has as
    many PUs as core `c` of the machine (e.g. all cores of equal size) -/
def NumaShape (t : Topo) : Prop :=
  sockOff t (numSockets t) = t.nc ∧
  ∀ n, n < numSockets t → ∀ c, c < socketCores t n → t.pus (c + sockOff t n) = t.pus c

instance (t : Topo) : Decidable (NumaShape t) := by unfold NumaShape; infer_instance

theorem sumTo_mono_len (f : Nat → Nat) {a b : Nat} (h : a ≤ b) : sumTo a f ≤ sumTo b f := by
  induction b with
  | zero => have : a = 0 := by omega
            subst this; exact Nat.le_refl _
  | succ k ih =>
    by_cases hk : a = k + 1
    · subst hk; exact Nat.le_refl _
    · have := ih (by omega); rw [sumTo_succ]; omega

theorem sock_end_le (t : Topo) (h : NumaShape t) {m : Nat} (hm : m < numSockets t) :
    sockOff t m + socketCores t m ≤ t.nc := by
  rw [← sockOff_succ, ← h.1]
  exact sumTo_mono_len _ (by omega)

theorem socksOK_of_shape (cfg : Cfg) (h : NumaShape cfg.t) : SocksOK cfg 0 (numSockets cfg.t) := by
  intro m _ hm c hc
  have := sock_end_le cfg.t h (show m < numSockets cfg.t by omega)
  exact ⟨by omega, h.2 m (by omega) c hc⟩

theorem numaShares_length (cfg : Cfg) (P : Nat) : ∀ m n t2, (numaShares cfg P m n t2).length = m := by
  intro m
  induction m with
  | zero => intro n t2; rfl
  | succ k ih => intro n t2; simp [numaShares, ih]

/-- on a well-shaped socket the scan reaches exactly the PUs the decoder counted for it -/
theorem balTotal_eq_socketPus (cfg : Cfg) (off ncores : Nat) (hH : SockOK cfg off ncores) :
    balTotal cfg off ncores = socketPusInMask cfg off ncores := by
  unfold balTotal total socketPusInMask
  apply sumTo_congr
  intro c hc
  obtain ⟨h1, h2⟩ := hH c hc
  have h0 : c < cfg.t.nc := by omega
  show cntB (fun p => inMask cfg (c + off) p) (corePus cfg.t c) = _
  rw [corePus_eq cfg.t h0, corePus_eq cfg.t h1, h2]
  rfl

theorem roundDiv_le (n p P : Nat) (h : n ≤ P) : roundDiv (n * p) P ≤ p := by
  unfold roundDiv
  by_cases hP : P = 0
  · subst hP; simp
  · have h1 : n * p ≤ P * p := Nat.mul_le_mul_right p h
    have h2 : 2 * (n * p) + P < (p + 1) * (2 * P) := by
      have : (p + 1) * (2 * P) = 2 * (P * p) + 2 * P := by
        rw [Nat.add_mul, Nat.mul_comm p (2 * P), Nat.mul_assoc]; omega
      omega
    have := (Nat.div_lt_iff_lt_mul (by omega : 0 < 2 * P)).2 h2
    omega

/-- **on a well-shaped machine numa-balanced always returns** (for every request that passes
    `check_num_threads`): each socket is asked for at most the PUs it has in the mask -/
theorem numaShares_no_hang (cfg : Cfg) (P : Nat) (hP : cfg.n ≤ P) : ∀ (m n t2 : Nat),
    SocksOK cfg n m → numaHangsAt cfg (numaShares cfg P m n t2) n = false := by
  intro m
  induction m with
  | zero => intro n t2 _; rfl
  | succ k ih =>
    intro n t2 hok
    simp only [numaShares, numaHangsAt, Bool.or_eq_false_iff, decide_eq_false_iff_not]
    refine ⟨?_, ih (n + 1) _ (fun m h1 h2 => hok m (by omega) (by omega))⟩
    rw [balTotal_eq_socketPus cfg _ _ (hok n (Nat.le_refl _) (by omega))]
    have := roundDiv_le cfg.n (socketPusInMask cfg (sockOff cfg.t n) (socketCores cfg.t n)) P hP
    split <;> omega

/-- PUs of the mask on cores `off … off + m - 1` -/
theorem socketPus_eq_cntTo (cfg : Cfg) (off : Nat) : ∀ m, off + m ≤ cfg.t.nc →
    socketPusInMask cfg off m + cntTo cfg (base cfg.t off) = cntTo cfg (base cfg.t (off + m)) := by
  intro m
  induction m with
  | zero => intro _; simp [socketPusInMask]
  | succ k ih =>
    intro hk
    have hc : k + off < cfg.t.nc := by omega
    have := ih (by omega)
    unfold socketPusInMask at this ⊢
    rw [sumTo_succ]
    have e : off + (k + 1) = (k + off) + 1 := by omega
    rw [e, base_succ, cntTo_add_core cfg hc _ (Nat.le_refl _), corePus_eq cfg.t hc]
    have e2 : off + k = k + off := by omega
    rw [e2] at this
    show _ + cntB (fun p => inMask cfg (k + off) p) (cfg.t.pus (k + off)) + _ = _
    omega

theorem numaPusT_eq_avail (cfg : Cfg) (h : NumaShape cfg.t) : numaPusT cfg = avail cfg := by
  have key : ∀ n, n ≤ numSockets cfg.t →
      sumTo n (fun n => socketPusInMask cfg (sockOff cfg.t n) (socketCores cfg.t n)) =
        cntTo cfg (base cfg.t (sockOff cfg.t n)) := by
    intro n
    induction n with
    | zero => intro _; rfl
    | succ k ih =>
      intro hk
      rw [sumTo_succ, ih (by omega), sockOff_succ]
      rw [Nat.add_comm]
      exact socketPus_eq_cntTo cfg _ _ (sock_end_le cfg.t h (show k < numSockets cfg.t by omega))
  unfold numaPusT
  rw [key _ (Nat.le_refl _), h.1]
  unfold avail
  show cntTo cfg (numPus cfg.t) = _
  cases hp : cfg.usePm with
  | true => simpa using cntTo_mask cfg hp
  | false => simpa using cntTo_all cfg hp (numPus cfg.t)

theorem numa_shape_no_hang (cfg : Cfg) (h : NumaShape cfg.t) (ht : tooMany cfg = false) :
    numaHangs cfg = false := by
  unfold numaHangs numaSharesOf
  have hn : cfg.n ≤ numaPusT cfg := by
    rw [numaPusT_eq_avail cfg h]
    unfold tooMany at ht; unfold avail
    split <;> simp_all
  rw [numaShares_no_hang cfg _ hn _ 0 0 (socksOK_of_shape cfg h)]
  simp

/-- what C15 demands of the masks alone -/
structure GoodBind (cfg : Cfg) (aff : Nat → List Nat) : Prop where
  bound : ∀ i, i < cfg.n → ∃ q, aff i = [q] ∧ q < numPus cfg.t ∧ ind cfg q = true
  distinct : ∀ i j, i < cfg.n → j < cfg.n → i ≠ j → aff i ≠ aff j

theorem init_NInv (cfg : Cfg) (lo : Nat) : NInv cfg lo ASt.init :=
  ⟨fun _ hi => absurd hi (Nat.not_lt_zero _), fun _ _ => rfl, fun _ _ hi => absurd hi (Nat.not_lt_zero _)⟩

/-- **numa-balanced on a well-shaped machine**: the decoder returns; the first
    `Σ num_threads_socket` workers sit on pairwise distinct PUs of the mask, the others (lost by
    the rounding) keep an empty mask -/
theorem numa_bind_spec (cfg : Cfg) (hu : effUsed cfg = 0) (h : NumaShape cfg.t)
    (ht : tooMany cfg = false) :
    ∃ aff pn, decodeNuma cfg = .ok aff pn ∧
      (∀ i, i < (numaSharesOf cfg).sum → ∃ q, aff i = [q] ∧ q < numPus cfg.t ∧ ind cfg q = true) ∧
      (∀ i j, i < (numaSharesOf cfg).sum → j < (numaSharesOf cfg).sum → i ≠ j → aff i ≠ aff j) ∧
      (∀ i, (numaSharesOf cfg).sum ≤ i → aff i = []) := by
  have hh := numa_shape_no_hang cfg h ht
  simp only [numaHangs, ht, Bool.not_false, Bool.true_and] at hh
  have hlen : (numaSharesOf cfg).length = numSockets cfg.t := numaShares_length cfg _ _ _ _
  obtain ⟨s', e, hi, hk⟩ := numaSockets_ok cfg hu (numaSharesOf cfg) 0 ASt.init
    (by rw [hlen]; exact socksOK_of_shape cfg h) hh (init_NInv cfg _)
  rw [hlen, Nat.zero_add, h.1] at hi
  have hk' : s'.k = (numaSharesOf cfg).sum := by rw [hk]; simp [ASt.init]
  unfold decodeNuma
  simp only [ht, Bool.false_eq_true, ↓reduceIte]
  unfold numaSharesOf at e
  rw [e]
  refine ⟨_, _, rfl, ?_, ?_, ?_⟩
  · intro i hi'
    obtain ⟨q, hq, ha, hx⟩ := hi.bound i (by omega)
    exact ⟨q, ha, hq, hx⟩
  · intro i j h1 h2; exact hi.distinct i j (by omega) (by omega)
  · intro i h1; exact hi.fresh i (by omega)

/-- **numa-balanced when only the first socket receives threads** (one socket; or a mask inside
    socket 0; or a thread count that rounds to 0 elsewhere): everything is right -/
theorem numa_first_socket_spec (cfg : Cfg) (hu : effUsed cfg = 0) (ht : tooMany cfg = false)
    (hc : socketCores cfg.t 0 ≤ cfg.t.nc) (hn : cfg.n ≤ balTotal cfg 0 (socketCores cfg.t 0))
    (rest : List Nat) (hs : numaSharesOf cfg = cfg.n :: rest) (hz : ∀ x, x ∈ rest → x = 0) :
    ∃ aff pn, decodeNuma cfg = .ok aff pn ∧ Good cfg aff pn := by
  have hH : SockOK cfg 0 (socketCores cfg.t 0) := fun c hc' => ⟨by omega, rfl⟩
  have h1 := balPhase1_isSome cfg 0 cfg.n (socketCores cfg.t 0)
  unfold decodeNuma
  simp only [ht, Bool.false_eq_true, ↓reduceIte]
  unfold numaSharesOf at hs
  rw [hs]
  simp only [numaSockets]
  have hoff : sockOff cfg.t 0 = 0 := rfl
  rw [hoff]
  cases hb : balPhase1 cfg 0 cfg.n (socketCores cfg.t 0) with
  | none => rw [hb] at h1; simp [hn] at h1
  | some b =>
    simp only
    obtain ⟨s1, e1, i1, k1, n1⟩ := numaSocket_step cfg hu 0 (socketCores cfg.t 0) cfg.n hH b hb
      ASt.init (init_NInv cfg _)
    rw [e1]
    simp only
    rw [numaSockets_zeros cfg rest 1 s1 hz]
    refine ⟨_, _, rfl, ?_, ?_⟩
    · intro i hi
      have hk : s1.k = cfg.n := by rw [k1]; simp [ASt.init]
      obtain ⟨q, hq, ha, hx⟩ := i1.bound i (by omega)
      obtain ⟨c, x, _, ha', hp'⟩ := n1 i (by simp [ASt.init]) (by omega)
      have hlo : base cfg.t (0 + socketCores cfg.t 0) ≤ numPus cfg.t :=
        base_mono cfg.t (by omega)
      refine ⟨q, ha, ?_, by omega, hx⟩
      rw [ha] at ha'
      simp only [Nat.add_zero, List.cons.injEq, and_true] at ha'
      omega
    · intro i j h1 h2
      have hk : s1.k = cfg.n := by rw [k1]; simp [ASt.init]
      exact i1.distinct i j (by omega) (by omega)

theorem countInit_all (n : Nat) (aff : Nat → List Nat) (h : ∀ i, i < n → aff i ≠ []) :
    countInit n aff = n := by
  unfold countInit
  induction n with
  | zero => rfl
  | succ k ih =>
    rw [sumTo_succ, ih (fun i hi => h i (by omega))]
    simp [h k (by omega)]

theorem countInit_le (n : Nat) (aff : Nat → List Nat) : countInit n aff ≤ n := by
  unfold countInit
  induction n with
  | zero => exact Nat.le_refl _
  | succ k ih => rw [sumTo_succ]; split <;> omega

theorem countInit_lt (n : Nat) (aff : Nat → List Nat) (j : Nat) (hj : j < n) (h : aff j = []) :
    countInit n aff < n := by
  induction n with
  | zero => omega
  | succ k ih =>
    unfold countInit
    rw [sumTo_succ]
    by_cases hk : j = k
    · subst hk
      have := countInit_le j aff
      unfold countInit at this
      have e : (if aff j ≠ [] then 1 else 0) = 0 := by simp [h]
      rw [e]; omega
    · have := ih (by omega)
      unfold countInit at this
      split <;> omega


/-! ## the reported PU number -/

/-- the second phase only writes entries from `s.k` on -/
theorem balPhase2_keeps (cfg : Cfg) (b : BSt) (cn cm ncores : Nat) (s : ASt) :
    CtlP (fun s' => s.k ≤ s'.k ∧ ∀ i, i < s.k → s'.aff i = s.aff i ∧ s'.pn i = s.pn i)
      (fun s' => s.k ≤ s'.k ∧ ∀ i, i < s.k → s'.aff i = s.aff i ∧ s'.pn i = s.pn i) True
      (balPhase2 cfg b cn cm ncores s) := by
  unfold balPhase2
  refine forRange_inv _ (fun _ s' => s.k ≤ s'.k ∧ ∀ i, i < s.k → s'.aff i = s.aff i ∧ s'.pn i = s.pn i)
    (fun s' => s.k ≤ s'.k ∧ ∀ i, i < s.k → s'.aff i = s.aff i ∧ s'.pn i = s.pn i) True ncores s ?_
    ⟨Nat.le_refl _, fun _ _ => ⟨rfl, rfl⟩⟩
  intro c s1 _ h1
  have := forRange_inv (balAssign cfg b cn cm c)
    (fun _ s' => s.k ≤ s'.k ∧ ∀ i, i < s.k → s'.aff i = s.aff i ∧ s'.pn i = s.pn i)
    (fun s' => s.k ≤ s'.k ∧ ∀ i, i < s.k → s'.aff i = s.aff i ∧ s'.pn i = s.pn i) True (b.cnt c) s1 ?_ h1
  · cases hr : forRange (b.cnt c) (balAssign cfg b cn cm c) s1 with
    | run s' => rw [hr] at this; exact this
    | fin s' => rw [hr] at this; exact this
    | err => trivial
  · intro j s2 _ h2
    unfold balAssign
    split
    · trivial
    · simp only [CtlP]
      refine ⟨by omega, ?_⟩
      intro i hi
      have : i ≠ s2.k := by omega
      simp only [upd, this, ↓reduceIte]
      exact h2.2 i hi

/-- some worker placed so far reports a PU it is not bound to -/
def Misreported (s : ASt) : Prop := ∃ i, i < s.k ∧ s.aff i ≠ [s.pn i]

theorem numaSockets_keeps_misreported (cfg : Cfg) : ∀ (shares : List Nat) (n : Nat) (s s' : ASt),
    numaSockets cfg shares n s = .run s' → Misreported s → Misreported s' := by
  intro shares
  induction shares with
  | nil => intro n s s' h hm; simp only [numaSockets, NCtl.run.injEq] at h; subst h; exact hm
  | cons share rest ih =>
    intro n s s' h hm
    simp only [numaSockets] at h
    cases hb : balPhase1 cfg (sockOff cfg.t n) share (socketCores cfg.t n) with
    | none => rw [hb] at h; simp at h
    | some b =>
      rw [hb] at h
      simp only at h
      have hk := balPhase2_keeps cfg b (effUsed cfg) (effUsed cfg + sockOff cfg.t n)
        (socketCores cfg.t n) s
      cases hr : balPhase2 cfg b (effUsed cfg) (effUsed cfg + sockOff cfg.t n)
          (socketCores cfg.t n) s with
      | err => rw [hr] at h; simp at h
      | fin s1 =>
        rw [hr] at hk h
        simp only at h
        refine ih (n + 1) s1 s' h ?_
        obtain ⟨i, hi, hne⟩ := hm
        obtain ⟨e1, e2⟩ := hk.2 i hi
        exact ⟨i, by have := hk.1; omega, by rw [e1, e2]; exact hne⟩
      | run s1 =>
        rw [hr] at hk h
        simp only at h
        refine ih (n + 1) s1 s' h ?_
        obtain ⟨i, hi, hne⟩ := hm
        obtain ⟨e1, e2⟩ := hk.2 i hi
        exact ⟨i, by have := hk.1; omega, by rw [e1, e2]; exact hne⟩

theorem base_lt_base (t : Topo) (hwf : WF t) {c d : Nat} (h : c < d) (hd : d < t.nc) :
    base t c < base t d := by
  have := base_add_lt t (hwf.pus c (by omega)) h
  omega

/-- if a socket with a positive core offset receives a thread on a well-shaped machine, some
    worker reports a PU it is not bound to -/
theorem numaSockets_misreports (cfg : Cfg) (hu : effUsed cfg = 0) (hwf : WF cfg.t) :
    ∀ (shares : List Nat) (n : Nat) (s s' : ASt),
    SocksOK cfg n shares.length → NInv cfg (base cfg.t (sockOff cfg.t n)) s →
    numaSockets cfg shares n s = .run s' →
    (∃ j, j < shares.length ∧ 0 < shares.getD j 0 ∧ 0 < sockOff cfg.t (n + j)) →
    Misreported s' := by
  intro shares
  induction shares with
  | nil => intro n s s' _ _ _ h; obtain ⟨j, hj, _⟩ := h; simp at hj
  | cons share rest ih =>
    intro n s s' hok hs h hex
    have h' := h
    simp only [numaSockets] at h
    cases hb : balPhase1 cfg (sockOff cfg.t n) share (socketCores cfg.t n) with
    | none => rw [hb] at h; simp at h
    | some b =>
      rw [hb] at h
      simp only at h
      have hH := hok n (Nat.le_refl _) (by simp)
      obtain ⟨s1, e1, i1, k1, n1⟩ := numaSocket_step cfg hu (sockOff cfg.t n) (socketCores cfg.t n)
        share hH b hb s hs
      rw [e1] at h
      simp only at h
      rw [← sockOff_succ] at i1
      have hok' : SocksOK cfg (n + 1) rest.length :=
        fun m hm1 hm2 => hok m (by omega) (by simp only [List.length_cons]; omega)
      obtain ⟨j, hj, hpos, hoff⟩ := hex
      cases j with
      | zero =>
        simp only [List.getD_cons_zero, Nat.add_zero] at hpos hoff
        -- the first worker of this socket is misreported
        obtain ⟨c, x, hc, ha, hp⟩ := n1 s.k (Nat.le_refl _) (by omega)
        obtain ⟨hcn, _⟩ := hH c hc
        have hlt : base cfg.t c < base cfg.t (c + sockOff cfg.t n) :=
          base_lt_base cfg.t hwf (by omega) hcn
        have hm1 : Misreported s1 := ⟨s.k, by omega, by rw [ha, hp]; intro he; simp at he; omega⟩
        exact numaSockets_keeps_misreported cfg rest (n + 1) s1 s' h hm1
      | succ j' =>
        refine ih (n + 1) s1 s' hok' i1 h ⟨j', by simpa using hj, by simpa using hpos, ?_⟩
        have : n + 1 + j' = n + (j' + 1) := by omega
        rw [this]; exact hoff


theorem numaShares_sum_le (cfg : Cfg) (P : Nat) : ∀ (m n t2 : Nat), t2 ≤ cfg.n →
    t2 + (numaShares cfg P m n t2).sum ≤ cfg.n := by
  intro m
  induction m with
  | zero => intro n t2 h; simpa [numaShares] using h
  | succ k ih =>
    intro n t2 h
    simp only [numaShares, List.sum_cons]
    split
    · have := ih (n + 1) (t2 + (cfg.n - t2)) (by omega)
      omega
    · rename_i hle
      have := ih (n + 1) (t2 + roundDiv (cfg.n * socketPusInMask cfg (sockOff cfg.t n) (socketCores cfg.t n)) P) (by omega)
      omega

/-- **numa-balanced on a well-shaped machine misreports as soon as a socket with a positive core
    offset receives a thread** -/
theorem numa_misreport_spec (cfg : Cfg) (hu : effUsed cfg = 0) (hwf : WF cfg.t) (h : NumaShape cfg.t)
    (ht : tooMany cfg = false) (j : Nat) (hj : j < numSockets cfg.t)
    (hpos : 0 < (numaSharesOf cfg).getD j 0) (hoff : 0 < sockOff cfg.t j) :
    ∃ aff pn, decodeNuma cfg = .ok aff pn ∧ ∃ i, i < cfg.n ∧ aff i ≠ [pn i] := by
  have hh := numa_shape_no_hang cfg h ht
  simp only [numaHangs, ht, Bool.not_false, Bool.true_and] at hh
  have hlen : (numaSharesOf cfg).length = numSockets cfg.t := numaShares_length cfg _ _ _ _
  have hok : SocksOK cfg 0 (numaSharesOf cfg).length := by rw [hlen]; exact socksOK_of_shape cfg h
  obtain ⟨s', e, _, hk⟩ := numaSockets_ok cfg hu (numaSharesOf cfg) 0 ASt.init hok hh (init_NInv cfg _)
  have hm := numaSockets_misreports cfg hu hwf (numaSharesOf cfg) 0 ASt.init s' hok (init_NInv cfg _) e
    ⟨j, by rw [hlen]; exact hj, hpos, by simpa using hoff⟩
  have hsum := numaShares_sum_le cfg (numaPusT cfg) (numSockets cfg.t) 0 0 (Nat.zero_le _)
  obtain ⟨i, hi, hne⟩ := hm
  unfold decodeNuma
  simp only [ht, Bool.false_eq_true, ↓reduceIte]
  unfold numaSharesOf at e hk hsum
  rw [e]
  refine ⟨_, _, rfl, i, ?_, hne⟩
  simp only [ASt.init, Nat.zero_add] at hk hsum
  omega

end PikaVerif.Aff
