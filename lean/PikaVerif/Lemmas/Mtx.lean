import PikaVerif.Model.Mtx
/-! Inductive invariant of the mutex model, part 1: internal spinlock, wait queue, wake-ups. -/
namespace PikaVerif.Mtx
open PikaVerif

/-- Program counters at which the task holds the internal spinlock. -/
def holds : Pc → Bool
  | .locked _ | .again _ | .sig | .enq _ | .relk _ _ | .timedOut | .owned _ | .disowned
  | .notified => true
  | _ => false

/-- Program counters at which the task's entry is linked in the cv queue. -/
def inQ : Pc → Bool
  | .enq _ => true
  | .unl _ p | .susp p | .slp p | .wokeNL _ p | .relk _ p => !p
  | _ => false

def b2n (b : Bool) : Nat := if b then 1 else 0

/-- Hand-offs in flight: 1 for an unlocker that cleared `owner_id_` and has not notified yet,
    1 for a waiter that was notified and has not re-tested `owner_id_` yet. -/
def weight : Pc → Nat
  | .unl _ p | .susp p | .slp p | .wokeNL _ p | .relk _ p => b2n p
  | .again c => b2n c
  | .sig => 1
  | .disowned => 1
  | _ => 0

def wsum (s : St) : Nat := sumTo s.n (fun t => weight (s.pc t))

structure Inv (s : St) : Prop where
  lockHolder : ∀ t, holds (s.pc t) = true → s.lock = some t
  outside : ∀ t, s.n ≤ t → s.pc t = .idle
  qIff : ∀ t, t ∈ s.queue ↔ inQ (s.pc t) = true
  qNodup : s.queue.Nodup
  wake : ∀ t, (s.pc t = .unl false true ∨ s.pc t = .susp true) → 0 < s.tok t
  /-- no lost unlock: while the mutex is free and tasks are queued, a hand-off is in flight -/
  budget : s.queue ≠ [] → s.owner = none → 0 < wsum s

theorem inv_init (n : Nat) : Inv (init n) := by
  refine ⟨?_, ?_, ?_, ?_, ?_, ?_⟩ <;> simp [init, holds, inQ]

theorem erase_ne_nil (q : List Nat) (x : Nat) (h : q.erase x ≠ []) : q ≠ [] := by
  intro hq; subst hq; simp at h

attribute [local grind] holds inQ weight setPopped b2n
attribute [local grind →] erase_ne_nil

set_option hygiene false in
macro "mtx_step" t:term : tactic => `(tactic| (
  simp only [step] at h
  obtain ⟨h1,h2,h3,h4,h6,h7⟩ := hi
  split at h
  case isFalse => simp at h
  rename_i hg
  have htn : $t < s.n := by grind
  have hle := le_sumTo (f := fun u => weight (s.pc u)) htn
  simp only [wsum] at h7
  repeat' split at h
  all_goals first | (simp at h; done) | skip
  all_goals (
    simp only [Option.some.injEq] at h
    subst h
    refine ⟨?_, ?_, ?_, ?_, ?_, ?_⟩ <;> dsimp only [wsum]
  )
  all_goals first
    | assumption
    | (intro u; grind [upd])
    | (rw [sumTo_upd_eq _ _ _ _ _ htn]; grind)
    | grind [upd]))

theorem step_inv_inv (s s' : St) (t : Nat) (o : Op) (hi : Inv s) (h : step s (.inv t o) = some s') : Inv s' := by mtx_step t
theorem step_inv_ret (s s' : St) (t : Nat) (r : Res) (hi : Inv s) (h : step s (.ret t r) = some s') : Inv s' := by mtx_step t
theorem step_inv_slAcq (s s' : St) (t : Nat) (hi : Inv s) (h : step s (.slAcq t) = some s') : Inv s' := by mtx_step t
theorem step_inv_slRel (s s' : St) (t : Nat) (hi : Inv s) (h : step s (.slRel t) = some s') : Inv s' := by mtx_step t
theorem step_inv_cvEnq (s s' : St) (t z : Nat) (b : Bool) (hi : Inv s) (h : step s (.cvEnq t z b) = some s') : Inv s' := by mtx_step t
theorem step_inv_cvNone (s s' : St) (t : Nat) (hi : Inv s) (h : step s (.cvNone t) = some s') : Inv s' := by mtx_step t
theorem step_inv_cvWoke (s s' : St) (t : Nat) (a b : Bool) (hi : Inv s) (h : step s (.cvWoke t a b) = some s') : Inv s' := by mtx_step t
theorem step_inv_own (s s' : St) (t k : Nat) (w : Bool) (hi : Inv s) (h : step s (.own t k w) = some s') : Inv s' := by mtx_step t
theorem step_inv_disown (s s' : St) (t : Nat) (hi : Inv s) (h : step s (.disown t) = some s') : Inv s' := by mtx_step t
theorem step_inv_suspend (s s' : St) (t : Nat) (hi : Inv s) (h : step s (.suspend t) = some s') : Inv s' := by mtx_step t
theorem step_inv_woke (s s' : St) (t : Nat) (hi : Inv s) (h : step s (.woke t) = some s') : Inv s' := by mtx_step t
theorem step_inv_sleep (s s' : St) (t : Nat) (hi : Inv s) (h : step s (.sleep t) = some s') : Inv s' := by mtx_step t
theorem step_inv_timeout (s s' : St) (t : Nat) (hi : Inv s) (h : step s (.timeout t) = some s') : Inv s' := by mtx_step t
theorem step_inv_csEnter (s s' : St) (t : Nat) (hi : Inv s) (h : step s (.csEnter t) = some s') : Inv s' := by mtx_step t
theorem step_inv_csExit (s s' : St) (t : Nat) (hi : Inv s) (h : step s (.csExit t) = some s') : Inv s' := by mtx_step t
theorem step_inv_done (s s' : St) (t : Nat) (hi : Inv s) (h : step s (.done t) = some s') : Inv s' := by mtx_step t

theorem step_inv_popResume (s s' : St) (t z g : Nat) (d : Bool) (hi : Inv s)
    (h : step s (.popResume t z g d) = some s') : Inv s' := by
  simp only [step] at h
  obtain ⟨h1,h2,h3,h4,h6,h7⟩ := hi
  split at h
  case isFalse => simp at h
  rename_i hg
  have htn : t < s.n := by grind
  simp only [wsum] at h7
  split at h
  case h_2 => simp at h
  rename_i g' rest hpc hq
  split at h
  case isFalse => simp at h
  rename_i hsz
  obtain ⟨hsz, hgg⟩ := hsz
  subst hgg
  split at h
  case h_2 => simp at h
  rename_i p' hp'
  have hgq : g' ∈ s.queue := by rw [hq]; simp
  have hginQ := (h3 g').1 hgq
  have hgn : g' < s.n := by
    by_cases hc : s.n ≤ g'
    · have := h2 g' hc; rw [this] at hginQ; simp [inQ] at hginQ
    · omega
  have hgt : g' ≠ t := by
    intro he; rw [he, hpc] at hginQ; simp [inQ] at hginQ
  have hnd : g' ∉ rest ∧ rest.Nodup := by rw [hq] at h4; simpa using h4
  have hw1 := sumTo_upd s.n weight s.pc g' p' hgn
  have hw2 := sumTo_upd s.n weight (upd s.pc g' p') t .notified htn
  split at h
  case isFalse => simp at h
  rename_i hdrop
  simp only [Option.some.injEq] at h
  subst h
  have hwp : weight p' = 1 ∧ weight (s.pc g') = 0 ∧ inQ p' = false ∧ holds p' = false ∧
      (p' = .unl false true ∨ p' = .susp true → d = false) := by
    cases hpg : s.pc g' <;> simp_all [setPopped, inQ, weight, b2n, holds] <;> grind
  refine ⟨?_, ?_, ?_, ?_, ?_, ?_⟩ <;> dsimp only [wsum]
  · intro u; grind [upd]
  · intro u; grind [upd]
  · intro u
    have := h3 u
    rw [hq] at this
    by_cases hut : u = t
    · subst hut; simp [upd, inQ, hpc] at this ⊢; grind
    · by_cases hug : u = g'
      · subst hug; simp [upd, hut, hwp.2.2.1, hnd.1]
      · simp [upd, hut, hug] at this ⊢; simpa [hug] using this
  · exact hnd.2
  · intro u hu
    by_cases hut : u = t
    · subst hut; simp [upd] at hu
    · by_cases hug : u = g'
      · subst hug
        simp only [upd, hut, if_false, if_true] at hu
        have hd := hwp.2.2.2.2 hu
        subst hd
        simp [upd]
      · simp only [upd, hut, hug, if_false] at hu
        have := h6 u hu
        split <;> simp [upd, hug, this]
  · intro _ _
    simp only [upd_other _ _ _ _ (Ne.symm hgt)] at hw2
    rw [hpc] at hw2
    have e1 : weight Pc.disowned = 1 := rfl
    have e2 : weight Pc.notified = 0 := rfl
    rw [e1, e2] at hw2
    have e3 := hwp.1
    have e4 := hwp.2.1
    have hle : weight (s.pc t) ≤ sumTo s.n (fun u => weight (s.pc u)) :=
      le_sumTo (f := fun u => weight (s.pc u)) htn
    rw [hpc, e1] at hle
    omega

theorem step_inv (s s' : St) (e : Ev) (hi : Inv s) (h : step s e = some s') : Inv s' := by
  cases e with
  | inv t o => exact step_inv_inv s s' t o hi h
  | ret t r => exact step_inv_ret s s' t r hi h
  | slAcq t => exact step_inv_slAcq s s' t hi h
  | slRel t => exact step_inv_slRel s s' t hi h
  | cvEnq t z b => exact step_inv_cvEnq s s' t z b hi h
  | popResume t z g d => exact step_inv_popResume s s' t z g d hi h
  | cvNone t => exact step_inv_cvNone s s' t hi h
  | cvWoke t a b => exact step_inv_cvWoke s s' t a b hi h
  | own t k w => exact step_inv_own s s' t k w hi h
  | disown t => exact step_inv_disown s s' t hi h
  | suspend t => exact step_inv_suspend s s' t hi h
  | woke t => exact step_inv_woke s s' t hi h
  | sleep t => exact step_inv_sleep s s' t hi h
  | timeout t => exact step_inv_timeout s s' t hi h
  | csEnter t => exact step_inv_csEnter s s' t hi h
  | csExit t => exact step_inv_csExit s s' t hi h
  | done t => exact step_inv_done s s' t hi h

theorem inv_of_accepted {n : Nat} {log : List Ev} {s : St}
    (h : runLog step (init n) log = some s) : Inv s :=
  inv_of_runLog Inv (fun s e s' => step_inv s s' e) (inv_init n) h

end PikaVerif.Mtx
