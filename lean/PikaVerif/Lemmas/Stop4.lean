import PikaVerif.Lemmas.Stop2
/-!
# Third invariant of the stop_state model: program order of a thread (call stack)

Follow-up C14p.  The activities `a, a+K, a+2K, …` of one OS/pika thread form a call stack:
a nested activity is active only while its parent is inside a callback body.  On top of
invariants A (lock / unique winner) and B (callback life cycle) this file defines the
vocabulary (`thr`, `act`, `gone`, `runPhase`, `Faith`) and proves the first layer
(`InvS`: stack shape, `signalling_thread_` is the winner's identity, no `retn relock`),
together with the derived "top of stack is unique" lemma used by the later layers.
-/
namespace PikaVerif.Stop
open PikaVerif

/-- the OS/pika thread an activity belongs to -/
def thr (K a : Nat) : Nat := a % K

/-- the activity is inside an operation -/
def act : Pc → Bool
  | .idle | .fin => false
  | _ => true

/-- destructor about to return -/
def retUnreg : Pc → Option Nat
  | .retn (.unreg c) _ => some c
  | _ => none

/-- the destructor of `c` has returned or has passed its last access to the stop state
    (only the `return` is left) -/
def gone (s : St) (c : Nat) : Prop :=
  s.life c = .dead ∨ retUnreg (s.pc (s.dtorBy c)) = some c

/-- request_stop has published `is_removed_` for `c` and not yet stored the finished flag -/
def runPhase : Pc → Option Nat
  | .exec c inl | .body c inl | .post c inl => if inl then none else some c
  | _ => none

/-- the lock path of `remove_callback` (everything before the `return`) -/
def unregPath : Pc → Option Nat
  | .ld (.unreg c) | .cas (.unreg c) _ | .spin (.unreg c) | .locked (.unreg c) => some c
  | .chk c | .wait c => some c
  | _ => none

/-- `get_self_id()` (after the repair: task id + OS thread id) tells threads apart and nothing else -/
def Faith (s : St) : Prop :=
  0 < s.K ∧ ∀ a b, s.ident a = s.ident b ↔ thr s.K a = thr s.K b

/-- constants of a run -/
theorem step_consts (s s' : St) (e : Ev) (h : step s e = some s') :
    s'.n = s.n ∧ s'.K = s.K ∧ s'.ident = s.ident ∧ s'.fixCas = s.fixCas ∧ s'.fixCtor = s.fixCtor := by
  cases e <;> simp only [step] at h <;> (repeat' split at h) <;>
    first
    | (simp at h; done)
    | (simp only [Option.some.injEq] at h; subst h; simp)

theorem step_faith (s s' : St) (e : Ev) (h : step s e = some s') (hf : Faith s) : Faith s' := by
  obtain ⟨_, h2, h3, _, _⟩ := step_consts s s' e h
  unfold Faith at *
  rw [h2, h3]; exact hf

/-! ## Layer S: stack shape -/

structure InvS (s : St) : Prop where
  stack : ∀ a, act (s.pc (a + s.K)) = true → isBody (s.pc a) = true
  sigW : ∀ w, s.winner = some w → s.sig = s.ident w
  noRelockRet : ∀ a r, s.pc a ≠ .retn .relock r

theorem invS_init (n K : Nat) (id : Nat → Nat) (f1 f2 : Bool) (m : Nat) : InvS (init n K id f1 f2 m) := by
  refine ⟨?_, ?_, ?_⟩ <;> simp [init, act]

theorem isBody_act {p : Pc} (h : isBody p = true) : act p = true := by
  cases p <;> simp_all [isBody, act]

/-- every ancestor of an active activity is inside a callback body -/
theorem InvS.chain {s : St} (hS : InvS s) :
    ∀ j a, act (s.pc (a + (j + 1) * s.K)) = true → isBody (s.pc a) = true := by
  intro j
  induction j with
  | zero => intro a h; apply hS.stack; simpa using h
  | succ j ih =>
    intro a h
    apply ih
    apply isBody_act
    apply hS.stack
    have : a + (j + 1) * s.K + s.K = a + (j + 1 + 1) * s.K := by
      rw [Nat.add_mul (j + 1) 1]; omega
    rw [this]; exact h

theorem same_thr_lt {K x y : Nat} (_hK : 0 < K) (ht : thr K x = thr K y) (hlt : x < y) :
    ∃ j, y = x + (j + 1) * K := by
  unfold thr at ht
  have h0 : (y - x) % K = 0 := Nat.sub_mod_eq_zero_of_mod_eq ht.symm
  have hd : K ∣ (y - x) := Nat.dvd_of_mod_eq_zero h0
  obtain ⟨q, hq⟩ := hd
  have hq0 : 0 < q := by
    rcases Nat.eq_zero_or_pos q with h | h
    · subst h; omega
    · exact h
  refine ⟨q - 1, ?_⟩
  have : q - 1 + 1 = q := by omega
  rw [this, Nat.mul_comm]; omega

/-- of two activities of one thread the lower one is inside a callback body whenever the upper
    one is active -/
theorem InvS.below {s : St} (hS : InvS s) (hK : 0 < s.K) :
    ∀ x y, thr s.K x = thr s.K y → x < y → act (s.pc y) = true → isBody (s.pc x) = true := by
  intro x y ht hlt ha
  obtain ⟨j, hj⟩ := same_thr_lt hK ht hlt
  subst hj
  exact hS.chain j x ha

/-- **top of stack is unique**: two active activities of one thread that are both outside a
    callback body are the same activity -/
theorem InvS.top {s : St} (hS : InvS s) (hK : 0 < s.K) :
    ∀ x y, thr s.K x = thr s.K y → act (s.pc x) = true → act (s.pc y) = true →
      isBody (s.pc x) = false → isBody (s.pc y) = false → x = y := by
  intro x y ht hx hy hbx hby
  rcases Nat.lt_trichotomy x y with h | h | h
  · have := hS.below hK x y ht h hy; simp [hbx] at this
  · exact h
  · have := hS.below hK y x ht.symm h hx; simp [hby] at this

theorem winPhase_wAct {p : Pc} {c : Nat} (h : winPhase p = some c) : 0 < wAct p := by
  cases p with
  | pre c => simp [wAct]
  | exec c inl => cases inl <;> simp_all [winPhase, wAct, b2n]
  | body c inl => cases inl <;> simp_all [winPhase, wAct, b2n]
  | post c inl => cases inl <;> simp_all [winPhase, wAct, b2n]
  | _ => simp [winPhase] at h

/-- whoever processes a dequeued callback is the winner -/
theorem InvA.winPhaseWinner {s : St} (hA : InvA s) :
    ∀ w c, winPhase (s.pc w) = some c → s.winner = some w := by
  intro w c h
  apply hA.winIs
  have := winPhase_wAct h
  omega

theorem runPhase_win {p : Pc} {c : Nat} (h : runPhase p = some c) : winPhase p = some c := by
  cases p with
  | exec c inl => cases inl <;> simp_all [winPhase, runPhase]
  | body c inl => cases inl <;> simp_all [winPhase, runPhase]
  | post c inl => cases inl <;> simp_all [winPhase, runPhase]
  | _ => simp [runPhase] at h

attribute [local grind] act isBody checked holds

set_option maxHeartbeats 2000000

set_option hygiene false in
macro "stopS" : tactic => `(tactic| (
  have hA2 := hA.casNoReq
  simp only [step] at h
  obtain ⟨h1,h2,h3⟩ := hi
  split at h
  case isFalse => simp at h
  rename_i hg
  repeat' split at h
  all_goals first | (simp at h; done) | skip
  all_goals try cases ‹Kind›
  all_goals (
    simp only [Option.some.injEq] at h
    subst h
    refine ⟨?_, ?_, ?_⟩ <;> try dsimp only
  )
  all_goals first
    | assumption
    | (intro u; grind [upd])
    | grind [upd]))

theorem stepS_inv (s s' : St) (a : Nat) (k : Kind) (hA : InvA s) (hi : InvS s) (h : step s (.inv a k) = some s') : InvS s' := by stopS
theorem stepS_ret (s s' : St) (a : Nat) (r : Bool) (hA : InvA s) (hi : InvS s) (h : step s (.ret a r) = some s') : InvS s' := by stopS
theorem stepS_load (s s' : St) (a : Nat) (lk rq : Bool) (src : Nat) (hA : InvA s) (hi : InvS s) (h : step s (.load a lk rq src) = some s') : InvS s' := by stopS
theorem stepS_casFail (s s' : St) (a : Nat) (lk rq : Bool) (src : Nat) (hA : InvA s) (hi : InvS s) (h : step s (.casFail a lk rq src) = some s') : InvS s' := by stopS
theorem stepS_reload (s s' : St) (a : Nat) (lk rq : Bool) (src : Nat) (hA : InvA s) (hi : InvS s) (h : step s (.reload a lk rq src) = some s') : InvS s' := by stopS
theorem stepS_acq (s s' : St) (a : Nat) (hA : InvA s) (hi : InvS s) (h : step s (.acq a) = some s') : InvS s' := by stopS
theorem stepS_deq (s s' : St) (a c : Nat) (m : Bool) (hA : InvA s) (hi : InvS s) (h : step s (.deq a c m) = some s') : InvS s' := by stopS
theorem stepS_rsDone (s s' : St) (a : Nat) (hA : InvA s) (hi : InvS s) (h : step s (.rsDone a) = some s') : InvS s' := by stopS
theorem stepS_preExec (s s' : St) (a c : Nat) (hA : InvA s) (hi : InvS s) (h : step s (.preExec a c) = some s') : InvS s' := by stopS
theorem stepS_cbBegin (s s' : St) (a c : Nat) (hA : InvA s) (hi : InvS s) (h : step s (.cbBegin a c) = some s') : InvS s' := by stopS
theorem stepS_cbEnd (s s' : St) (a c : Nat) (hA : InvA s) (hi : InvS s) (h : step s (.cbEnd a c) = some s') : InvS s' := by stopS
theorem stepS_finStore (s s' : St) (a c : Nat) (r : Bool) (hA : InvA s) (hi : InvS s) (h : step s (.finStore a c r) = some s') : InvS s' := by stopS
theorem stepS_inFin (s s' : St) (a c : Nat) (hA : InvA s) (hi : InvS s) (h : step s (.inFin a c) = some s') : InvS s' := by stopS
theorem stepS_push (s s' : St) (a c : Nat) (b : Bool) (hA : InvA s) (hi : InvS s) (h : step s (.push a c b) = some s') : InvS s' := by stopS
theorem stepS_unlink (s s' : St) (a c : Nat) (r : Bool) (hA : InvA s) (hi : InvS s) (h : step s (.unlink a c r) = some s') : InvS s' := by stopS
theorem stepS_selfChk (s s' : St) (a c : Nat) (e p : Bool) (hA : InvA s) (hi : InvS s) (h : step s (.selfChk a c e p) = some s') : InvS s' := by stopS
theorem stepS_waited (s s' : St) (a c : Nat) (hA : InvA s) (hi : InvS s) (h : step s (.waited a c) = some s') : InvS s' := by stopS
theorem stepS_srcInc (s s' : St) (a : Nat) (hA : InvA s) (hi : InvS s) (h : step s (.srcInc a) = some s') : InvS s' := by stopS
theorem stepS_srcDec (s s' : St) (a : Nat) (hA : InvA s) (hi : InvS s) (h : step s (.srcDec a) = some s') : InvS s' := by stopS
theorem stepS_query (s s' : St) (a : Nat) (x y : Bool) (hA : InvA s) (hi : InvS s) (h : step s (.query a x y) = some s') : InvS s' := by stopS
theorem stepS_done (s s' : St) (a : Nat) (hA : InvA s) (hi : InvS s) (h : step s (.done a) = some s') : InvS s' := by stopS

theorem stepS (s s' : St) (e : Ev) (hA : InvA s) (hi : InvS s) (h : step s e = some s') : InvS s' := by
  cases e with
  | inv a k => exact stepS_inv s s' a k hA hi h
  | ret a r => exact stepS_ret s s' a r hA hi h
  | load a lk rq src => exact stepS_load s s' a lk rq src hA hi h
  | casFail a lk rq src => exact stepS_casFail s s' a lk rq src hA hi h
  | reload a lk rq src => exact stepS_reload s s' a lk rq src hA hi h
  | acq a => exact stepS_acq s s' a hA hi h
  | deq a c m => exact stepS_deq s s' a c m hA hi h
  | rsDone a => exact stepS_rsDone s s' a hA hi h
  | preExec a c => exact stepS_preExec s s' a c hA hi h
  | cbBegin a c => exact stepS_cbBegin s s' a c hA hi h
  | cbEnd a c => exact stepS_cbEnd s s' a c hA hi h
  | finStore a c r => exact stepS_finStore s s' a c r hA hi h
  | inFin a c => exact stepS_inFin s s' a c hA hi h
  | push a c b => exact stepS_push s s' a c b hA hi h
  | unlink a c r => exact stepS_unlink s s' a c r hA hi h
  | selfChk a c e p => exact stepS_selfChk s s' a c e p hA hi h
  | waited a c => exact stepS_waited s s' a c hA hi h
  | srcInc a => exact stepS_srcInc s s' a hA hi h
  | srcDec a => exact stepS_srcDec s s' a hA hi h
  | query a x y => exact stepS_query s s' a x y hA hi h
  | done a => exact stepS_done s s' a hA hi h

end PikaVerif.Stop
