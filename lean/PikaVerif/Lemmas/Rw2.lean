import PikaVerif.Lemmas.Rw
/-! Preservation of the async_rw_mutex invariant by every event. -/
namespace PikaVerif.Rw
open PikaVerif

theorem step_inv_start (s s' : St) (t a : Nat) (det : Bool) (hi : Inv s)
    (h : step s (.start t a det) = some s') : Inv s' := by
  simp only [step] at h
  split at h
  · rename_i hx
    simp only [Option.some.injEq] at h; subst h
    exact swapPre_inv s a _ hi (by simp [hx, pre]) (by simp [hx, isQ]) (by simp [pre]) (by simp [isQ])
  · simp at h
/-- inline grant: `add_op_state` saw the sentinel -/
theorem grant_inline_inv (s : St) (t a : Nat) (det : Bool) (hi : Inv s)
    (hx : pre (s.acc a) = true) (hxq : isQ (s.acc a) = false) (hsent : s.head (s.grp a) = none) :
    Inv (grant s t a det) := by
  have ha : a < s.na := lt_of_acc hi (pre_facts hx).2.1
  refine grant_inv s t a det s.dn hi ha hx hsent (fun _ _ => Iff.rfl) hi.headDn ?_ hi.qNodup
  intro g b hg
  have := hi.qMem g b hg
  dsimp only [qof] at this
  rw [this]
  constructor
  · rintro ⟨h1, h2, h3⟩
    refine ⟨h1, h2, h3, ?_⟩
    intro hb; subst hb; rw [hxq] at h3; simp at h3
  · rintro ⟨h1, h2, h3, _⟩; exact ⟨h1, h2, h3⟩

theorem step_inv_load (s s' : St) (t a cls : Nat) (ack died : Bool) (hi : Inv s)
    (h : step s (.load t a cls ack died) = some s') : Inv s' := by
  simp only [step] at h
  split at h
  · rename_i t' det hx
    split at h
    · split at h
      · split at h
        · simp only [Option.some.injEq] at h; subst h
          exact swapPre_inv s a _ hi (by simp [hx, pre]) (by simp [hx, isQ]) (by simp [pre]) (by simp [isQ])
        · simp at h
      · rename_i hs
        split at h
        · simp only [Option.some.injEq] at h; subst h
          exact grant_inline_inv s t a det hi (by simp [hx, pre]) (by simp [hx, isQ]) hs
        · simp at h
    · simp at h
  · simp at h
theorem qofF_open (head : Nat → Option (List Nat)) (dn : Nat → Dn) (g : Nat) (q : List Nat)
    (h : head g = some q) : qofF head dn g = q := by simp [qofF, h]

theorem qofF_head_upd_ne (head : Nat → Option (List Nat)) (dn : Nat → Dn) (g g' : Nat) (x : Option (List Nat))
    (h : g' ≠ g) : qofF (upd head g x) dn g' = qofF head dn g' := by simp [qofF, upd, h]

/-- successful CAS: the operation state is pushed on the open queue -/
theorem push_inv (s : St) (a t h : Nat) (det : Bool) (q : List Nat) (hi : Inv s)
    (hx : s.acc a = .loaded t det h) (hq : s.head (s.grp a) = some q) :
    Inv { s with head := upd s.head (s.grp a) (some (a :: q)), acc := upd s.acc a (.queued det) } := by
  have hi' := hi
  obtain ⟨h1,h2,h3,h4,h5,h6,h7,h8,h9,h10,h11,h12,h13,h14,h15,h16,h17⟩ := hi
  dsimp only [qof] at h13 h14
  have ha : a < s.na := lt_of_acc hi' (by rw [hx]; simp)
  have hg := h3 a ha
  have hqo := qofF_open s.head s.dn _ q hq
  have hanq : a ∉ q := by
    intro hm
    have := (h13 (s.grp a) a hg).1 (by rw [hqo]; exact hm)
    rw [hx] at this; simp [isQ] at this
  refine setAcc_inv s _ _ a (.queued det) s.grants (upd s.head (s.grp a) (some (a :: q))) s.dn hi' ha
    (by simp) ?_ ?_ (fun _ _ => Iff.rfl) ?_ ?_ ?_ ?_
  · intro b
    rw [h16 b]; simp only [upd]
    by_cases hb : b = a
    · subst hb; simp [hx, post]
    · simp [hb]
  · intro g; rw [hx]; simp [weight]
  · intro g hgg
    simp only [upd]
    by_cases e : g = s.grp a
    · subst e; simp only [if_true]; have := h12 _ hg; rw [hq] at this; simpa using this
    · simp only [e, if_false]; exact h12 g hgg
  · intro g b hgg
    by_cases e : g = s.grp a
    · subst e
      rw [qofF_open _ _ _ (a :: q) (by simp [upd])]
      have A := h13 _ b hgg
      rw [hqo] at A
      simp only [List.mem_cons, upd]
      by_cases hb : b = a
      · subst hb; simp [ha, isQ]
      · simp only [hb, false_or, if_false]; exact A
    · rw [qofF_head_upd_ne _ _ _ _ _ e]
      rw [h13 g b hgg]
      simp only [upd]
      by_cases hb : b = a
      · subst hb; simp only [if_true]
        have : ¬ (s.grp b = g) := fun h' => e h'.symm
        simp [this]
      · simp [hb]
  · intro g hgg
    by_cases e : g = s.grp a
    · subst e
      rw [qofF_open _ _ _ (a :: q) (by simp [upd])]
      have := h14 _ hgg
      rw [hqo] at this
      exact List.nodup_cons.2 ⟨hanq, this⟩
    · rw [qofF_head_upd_ne _ _ _ _ _ e]; exact h14 g hgg
  · intro b hb ho
    simp only [upd] at ho ⊢
    by_cases hba : b = a
    · subst hba; simp [pre]
    · simp only [hba, if_false]
      by_cases e : s.grp b = s.grp a
      · exact h15 b hb (by rw [e, hq]; rfl)
      · simp only [e, if_false] at ho; exact h15 b hb ho

theorem step_inv_cas (s s' : St) (t a : Nat) (ok : Bool) (cls : Nat) (ack died : Bool) (hi : Inv s)
    (h : step s (.cas t a ok cls ack died) = some s') : Inv s' := by
  simp only [step] at h
  split at h
  · rename_i t' det hh hx
    split at h
    · split at h
      · rename_i q hq
        split at h
        · split at h
          · simp only [Option.some.injEq] at h; subst h
            exact push_inv s a t' hh det q hi hx hq
          · simp at h
        · split at h
          · simp only [Option.some.injEq] at h; subst h
            exact swapPre_inv s a _ hi (by simp [hx, pre]) (by simp [hx, isQ]) (by simp [pre]) (by simp [isQ])
          · simp at h
      · rename_i hs
        split at h
        · simp only [Option.some.injEq] at h; subst h
          exact grant_inline_inv s t a det hi (by simp [hx, pre]) (by simp [hx, isQ]) hs
        · simp at h
    · simp at h
  · simp at h
theorem step_inv_xchg (s s' : St) (t g cls : Nat) (hi : Inv s)
    (h : step s (.xchg t g cls) = some s') : Inv s' := by
  simp only [step] at h
  split at h
  · rename_i t' q hdn hq
    split at h
    · rename_i hc
      obtain ⟨_, hg, _⟩ := hc
      simp only [Option.some.injEq] at h; subst h
      obtain ⟨h1,h2,h3,h4,h5,h6,h7,h8,h9,h10,h11,h12,h13,h14,h15,h16,h17⟩ := hi
      dsimp only [qof] at h13 h14
      have hqo := qofF_open s.head s.dn g q hq
      have hqn : ∀ g', qofF (upd s.head g none) (upd s.dn g (Dn.drain t q)) g' = qofF s.head s.dn g' := by
        intro g'
        by_cases e : g' = g
        · subst e; rw [hqo]; simp [qofF, upd]
        · simp [qofF, upd, e]
      refine ⟨?_, ?_, ?_, ?_, ?_, ?_, ?_, ?_, ?_, ?_, ?_, ?_, ?_, ?_, ?_, ?_, ?_⟩ <;> dsimp only [mtxw, linkw, gsum, qof]
      all_goals first | assumption | skip
      · intro g' hg'
        have A := h11 g' hg'
        simp only [upd]
        by_cases e : g' = g
        · subst e; simp only [if_true]; rw [hdn] at A; simpa using A
        · simp only [e, if_false]; exact A
      · intro g' hg'
        simp only [upd]
        by_cases e : g' = g
        · subst e; simp [isDrain]
        · simp only [e, if_false]; exact h12 g' hg'
      · intro g' b hg'; rw [hqn]; exact h13 g' b hg'
      · intro g' hg'; rw [hqn]; exact h14 g' hg'
      · intro b hb ho
        simp only [upd] at ho
        by_cases e : s.grp b = g
        · simp [e] at ho
        · simp only [e, if_false] at ho; exact h15 b hb ho
    · simp at h
  · simp at h
theorem step_inv_cont (s s' : St) (t g : Nat) (ack : Option Nat) (died : Bool) (hi : Inv s)
    (h : step s (.cont t g ack died) = some s') : Inv s' := by
  simp only [step] at h
  split at h
  · rename_i t' a rest hdn
    split at h
    · rename_i det hx
      split at h
      · rename_i hc
        obtain ⟨_, hga, _, _⟩ := hc
        simp only [Option.some.injEq] at h; subst h
        have ha : a < s.na := lt_of_acc hi (by rw [hx]; simp)
        have hg : g < s.ng := hga ▸ hi.grpLt a ha
        have hhead : s.head g = none := by
          have := hi.headDn g hg; rw [hdn] at this
          cases hh : s.head g <;> simp_all [isDrain]
        have hqo : qofF s.head s.dn g = a :: rest := by simp [qofF, hhead, hdn]
        have hnd := hi.qNodup g hg
        dsimp only [qof] at hnd
        rw [hqo] at hnd
        have hnd' := List.nodup_cons.1 hnd
        have hqn : ∀ g', g' ≠ g → qofF s.head (upd s.dn g (Dn.drain t rest)) g' = qofF s.head s.dn g' := by
          intro g' e; simp [qofF, upd, e]
        have hqg : qofF s.head (upd s.dn g (Dn.drain t rest)) g = rest := by simp [qofF, upd, hhead]
        refine grant_inv s t a det _ hi ha (by simp [hx, pre]) (by rw [hga]; exact hhead) ?_ ?_ ?_ ?_
        · intro g' hg'
          simp only [upd]
          by_cases e : g' = g
          · subst e; simp [hdn]
          · simp [e]
        · intro g' hg'
          simp only [upd]
          by_cases e : g' = g
          · subst e; simp [hhead, isDrain]
          · simp only [e, if_false]; exact hi.headDn g' hg'
        · intro g' b hg'
          have A := hi.qMem g' b hg'
          dsimp only [qof] at A
          by_cases e : g' = g
          · subst e
            rw [hqg]
            rw [hqo] at A
            simp only [List.mem_cons] at A
            constructor
            · intro hm
              have := A.1 (Or.inr hm)
              refine ⟨this.1, this.2.1, this.2.2, ?_⟩
              intro hb; subst hb; exact hnd'.1 hm
            · rintro ⟨b1, b2, b3, b4⟩
              rcases A.2 ⟨b1, b2, b3⟩ with hb | hb
              · exact absurd hb b4
              · exact hb
          · rw [hqn g' e, A]
            constructor
            · rintro ⟨b1, b2, b3⟩
              refine ⟨b1, b2, b3, ?_⟩
              intro hb; subst hb; exact e (b2 ▸ hga)
            · rintro ⟨b1, b2, b3, _⟩; exact ⟨b1, b2, b3⟩
        · intro g' hg'
          by_cases e : g' = g
          · subst e; rw [hqg]; exact hnd'.2
          · rw [hqn g' e]; exact hi.qNodup g' hg'
      · simp at h
    · simp at h
  · simp at h
/-- a granted or released access lives in a group whose queue has been processed -/
theorem post_sent {s : St} {e : Nat → Nat} (hi : InvE s e) {a : Nat} (ha : a < s.na)
    (hp : post (s.acc a) = true) : s.head (s.grp a) = none := by
  cases hh : s.head (s.grp a) with
  | none => rfl
  | some q =>
    have := hi.openPre a ha (by rw [hh]; rfl)
    cases hx : s.acc a <;> simp_all [pre, post]

/-- one more reference on a live group, not yet owned by anything -/
theorem incRc_inv (s : St) (g : Nat) (hi : Inv s) (hg : g < s.ng) (hl : s.rc g ≠ 0) :
    InvE { s with rc := upd s.rc g (s.rc g + 1) } (fun x => if x = g then 1 else 0) := by
  obtain ⟨h1,h2,h3,h4,h5,h6,h7,h8,h9,h10,h11,h12,h13,h14,h15,h16,h17⟩ := hi
  refine ⟨?_, ?_, ?_, ?_, ?_, ?_, ?_, ?_, ?_, ?_, ?_, ?_, ?_, ?_, ?_, ?_, ?_⟩ <;> dsimp only [mtxw, linkw, gsum, qof]
  all_goals first | assumption | skip
  · intro g' hg'
    have A := h9 g' hg'
    dsimp only [mtxw, linkw, gsum] at A
    simp only [upd]
    by_cases e : g' = g
    · subst e; simp only [if_true]; omega
    · simp only [e, if_false]; omega
  · intro g' hg'
    have A := h10 g' hg'
    simp only [upd]
    by_cases e : g' = g
    · subst e; simp only [if_true]; constructor
      · intro hd; exact absurd (A.1 hd) hl
      · intro hz; omega
    · simp only [e, if_false]; exact A

theorem granted_facts {s : St} (hi : Inv s) {a c : Nat} (hx : s.acc a = .granted c) :
    a < s.na ∧ s.grp a < s.ng ∧ c + 1 ≤ s.rc (s.grp a) ∧ s.head (s.grp a) = none := by
  have ha : a < s.na := lt_of_acc hi (by rw [hx]; simp)
  have hg := hi.grpLt a ha
  have hw := weight_le_gsum s a ha
  rw [hx] at hw
  have A := hi.account _ hg
  refine ⟨ha, hg, ?_, post_sent hi ha (by rw [hx]; rfl)⟩
  simp only [weight] at hw
  omega

theorem step_inv_copy (s s' : St) (t a : Nat) (hi : Inv s)
    (h : step s (.copy t a) = some s') : Inv s' := by
  simp only [step] at h
  split at h
  · rename_i c hx
    split at h
    · simp only [Option.some.injEq] at h; subst h
      obtain ⟨ha, hg, hrc, hs⟩ := granted_facts hi hx
      have h0 := incRc_inv s (s.grp a) hi hg (by omega)
      refine setAcc_inv' _ _ _ a (.granted (c + 1)) s.grants h0 ha (by simp) ?_ ?_ (by simp [hx, isQ]) (Or.inr hs)
      · intro b
        rw [hi.grantsOk b]; simp only [upd]
        by_cases hb : b = a
        · subst hb; simp [hx, post]
        · simp [hb]
      · intro g; dsimp only; rw [hx]; simp only [weight]
        by_cases e : s.grp a = g
        · subst e; simp; omega
        · have : ¬ (g = s.grp a) := fun h' => e h'.symm
          simp [e, this]
    · simp at h
  · simp at h

theorem step_inv_rel (s s' : St) (t a : Nat) (died : Bool) (hi : Inv s)
    (h : step s (.rel t a died) = some s') : Inv s' := by
  simp only [step] at h
  split at h
  · rename_i c hx
    split at h
    · simp only [Option.some.injEq] at h; subst h
      obtain ⟨ha, hg, hrc, hs⟩ := granted_facts hi hx
      refine decRc_inv _ t (s.grp a) hg ?_
      refine setAcc_inv' s _ _ a (relAcc c) s.grants hi ha (by cases c <;> simp [relAcc]) ?_ ?_
        (by cases c <;> simp [relAcc, hx, isQ]) (Or.inr hs)
      · intro b
        rw [hi.grantsOk b]; simp only [upd]
        by_cases hb : b = a
        · subst hb; cases c <;> simp [hx, post, relAcc]
        · simp [hb]
      · intro g; rw [hx]
        have : weight (relAcc c) = c := by cases c <;> simp [relAcc, weight]
        rw [this]; simp only [weight]
        by_cases e : s.grp a = g
        · subst e; simp; omega
        · have : ¬ (g = s.grp a) := fun h' => e h'.symm
          simp [e, this]
    · simp at h
  · simp at h

theorem step_inv_write (s s' : St) (t a v : Nat) (hi : Inv s)
    (h : step s (.write t a v) = some s') : Inv s' := by
  simp only [step] at h
  split at h
  · split at h
    · simp only [Option.some.injEq] at h; subst h
      obtain ⟨h1,h2,h3,h4,h5,h6,h7,h8,h9,h10,h11,h12,h13,h14,h15,h16,h17⟩ := hi
      exact ⟨h1,h2,h3,h4,h5,h6,h7,h8,h9,h10,h11,h12,h13,h14,h15,h16,h17⟩
    · simp at h
  · simp at h

theorem step_inv_readv (s s' : St) (t a v : Nat) (hi : Inv s)
    (h : step s (.readv t a v) = some s') : Inv s' := by
  simp only [step] at h
  split at h
  · split at h
    · simp only [Option.some.injEq] at h; subst h; exact hi
    · simp at h
  · simp at h

theorem step_inv_vfree (s s' : St) (t : Nat) (hi : Inv s)
    (h : step s (.vfree t) = some s') : Inv s' := by
  simp only [step] at h
  split at h
  · rename_i hc
    simp only [Option.some.injEq] at h; subst h
    obtain ⟨h1,h2,h3,h4,h5,h6,h7,h8,h9,h10,h11,h12,h13,h14,h15,h16,h17⟩ := hi
    exact ⟨h1,h2,h3,h4,h5,h6,h7,h8,h9,h10,h11,h12,h13,h14,h15,h16, fun _ => ⟨hc.1, hc.2.1⟩⟩
  · simp at h
theorem gsumF_push (na : Nat) (grp : Nat → Nat) (acc : Nat → Acc) (g0 : Nat) (v : Acc) (g : Nat) :
    gsumF (na + 1) (upd grp na g0) (upd acc na v) g
      = gsumF na grp acc g + (if g0 = g then weight v else 0) := by
  simp only [gsumF, sumTo_succ, upd_same]
  congr 1
  apply sumTo_congr
  intro u hu
  have : u ≠ na := by omega
  simp [upd, this]

/-- the group the mutex points to is alive -/
theorem last_alive {s : St} (hi : Inv s) (hal : s.alive = true) (hng : 0 < s.ng) :
    s.rc (s.ng - 1) ≠ 0 ∧ s.dead (s.ng - 1) = false := by
  have hg : s.ng - 1 < s.ng := by omega
  have A := hi.account _ hg
  have hm : mtxw s (s.ng - 1) = 1 := by simp [mtxw, mtxwF, hal]; omega
  have hr : s.rc (s.ng - 1) ≠ 0 := by omega
  refine ⟨hr, ?_⟩
  cases hd : s.dead (s.ng - 1) with
  | false => rfl
  | true => exact absurd ((hi.deadRc _ hg).1 hd) hr

theorem kill_inv (s : St) (hi : Inv s) (hal : s.alive = true) (hng : 0 < s.ng) :
    InvE { s with alive := false } (fun x => if x = s.ng - 1 then 1 else 0) := by
  obtain ⟨h1,h2,h3,h4,h5,h6,h7,h8,h9,h10,h11,h12,h13,h14,h15,h16,h17⟩ := hi
  refine ⟨?_, ?_, ?_, ?_, ?_, ?_, ?_, ?_, ?_, ?_, ?_, ?_, ?_, ?_, ?_, ?_, ?_⟩ <;> dsimp only [mtxw, linkw, gsum, qof]
  all_goals first | assumption | skip
  · intro g hg
    have A := h9 g hg
    dsimp only [mtxw, linkw, gsum] at A
    simp only [mtxwF, hal, true_and] at A
    simp only [mtxwF, Bool.false_eq_true, false_and, if_false]
    by_cases e : g = s.ng - 1
    · subst e
      have : s.ng - 1 + 1 = s.ng := by omega
      simp only [this, if_true] at A ⊢; omega
    · have : ¬ (g + 1 = s.ng) := by omega
      simp only [this, e, if_false] at A ⊢; omega
  · intro hv; have := (h17 hv).1; rw [hal] at this; simp at this

theorem step_inv_destroy (s s' : St) (t : Nat) (died : Bool) (hi : Inv s)
    (h : step s (.destroy t died) = some s') : Inv s' := by
  simp only [step] at h
  split at h
  · rename_i hal
    split at h
    · rename_i hng
      split at h
      · simp only [Option.some.injEq] at h; subst h
        exact decRc_inv _ t (s.ng - 1) (by dsimp only; omega) (kill_inv s hi hal hng)
      · simp at h
    · rename_i hng
      split at h
      · simp only [Option.some.injEq] at h; subst h
        obtain ⟨h1,h2,h3,h4,h5,h6,h7,h8,h9,h10,h11,h12,h13,h14,h15,h16,h17⟩ := hi
        refine ⟨h1,h2,h3,h4,h5,h6,h7,h8,?_,h10,h11,h12,h13,h14,h15,h16,?_⟩
        · intro g hg; dsimp only at hg; omega
        · intro hv; have := (h17 hv).1; rw [hal] at this; simp at this
      · simp at h
  · simp at h
theorem qofF_upd_ne (head : Nat → Option (List Nat)) (dn : Nat → Dn) (g g' : Nat)
    (x : Option (List Nat)) (y : Dn) (h : g' ≠ g) :
    qofF (upd head g x) (upd dn g y) g' = qofF head dn g' := by simp [qofF, upd, h]

/-- `read()` / `readwrite()` allocating a new shared state (before `prev_state` is dropped) -/
theorem newGroup_inv (s : St) (t : Nat) (w : Bool) (hi : Inv s) (hal : s.alive = true) :
    InvE { s with ng := s.ng + 1, rw := upd s.rw s.ng w, head := upd s.head s.ng (some []),
                  dn := upd s.dn s.ng (if s.ng = 0 then .pend t else .idle),
                  rc := upd s.rc s.ng (if s.ng = 0 then 2 else 3), dead := upd s.dead s.ng false,
                  first := upd s.first s.ng s.na, lastRw := w,
                  na := s.na + 1, grp := upd s.grp s.na s.ng, acc := upd s.acc s.na .sender }
      (fun x => if 0 < s.ng ∧ x = s.ng - 1 then 1 else 0) := by
  have hla := fun h => last_alive hi hal h
  obtain ⟨h1,h2,h3,h4,h5,h6,h7,h8,h9,h10,h11,h12,h13,h14,h15,h16,h17⟩ := hi
  dsimp only [mtxw, linkw, gsum, qof] at h9 h13 h14
  have hgn : ∀ b, b < s.na → s.grp b ≠ s.ng := fun b hb => by have := h3 b hb; omega
  refine ⟨?_, ?_, ?_, ?_, ?_, ?_, ?_, ?_, ?_, ?_, ?_, ?_, ?_, ?_, ?_, ?_, ?_⟩ <;> dsimp only [mtxw, linkw, gsum, qof]
  · intro b hb; have : b ≠ s.na := by omega
    simp only [upd, this, if_false]; exact h1 b (by omega)
  · intro b hb; simp only [upd]; split
    · simp
    · exact h2 b (by omega)
  · intro b hb; simp only [upd]; split
    · omega
    · have := h3 b (by omega); omega
  · intro a b hab hb
    simp only [upd]
    by_cases e1 : b = s.na
    · subst e1; simp only [if_true]; split
      · omega
      · have := h3 a (by omega); omega
    · have e2 : a ≠ s.na := by omega
      simp only [e1, e2, if_false]; exact h4 a b hab (by omega)
  · intro a b ha hb hab hrw
    simp only [upd] at hab hrw
    by_cases e1 : a = s.na
    · by_cases e2 : b = s.na
      · omega
      · simp only [e1, e2, if_true, if_false] at hab
        exact absurd hab.symm (hgn b (by omega))
    · by_cases e2 : b = s.na
      · simp only [e1, e2, if_true, if_false] at hab
        exact absurd hab (hgn a (by omega))
      · simp only [e1, e2, if_false] at hab hrw
        simp only [hgn a (by omega), if_false] at hrw
        exact h5 a b (by omega) (by omega) hab hrw
  · intro _; simp [upd]
  · intro h; omega
  · intro g hg
    simp only [upd]
    by_cases e : g = s.ng
    · subst e; simp
    · have hg' : g < s.ng := by omega
      obtain ⟨f1, f2⟩ := h8 g hg'
      have : s.first g ≠ s.na := by omega
      simp only [e, this, if_false]; exact ⟨by omega, f2⟩
  · -- account
    intro g hg
    rw [gsumF_push]
    by_cases e : g = s.ng
    · subst e
      have hz : gsumF s.na s.grp s.acc s.ng = 0 := by
        apply sumTo_eq_zero
        intro u hu
        simp [hgn u hu]
      have hne : ¬ (0 < s.ng ∧ s.ng = s.ng - 1) := by omega
      simp only [upd_same, hz, hne, if_false, if_true, weight, mtxwF, hal, true_and, linkwF]
      by_cases e0 : s.ng = 0
      · simp [e0]
      · have hp : 0 < s.ng := by omega
        have hne2 : s.ng - 1 ≠ s.ng := by omega
        have := (hla hp).2
        simp [e0, hp, upd, hne2, this]
    · have hg' : g < s.ng := by omega
      have A := h9 g hg'
      have hne : ¬ (s.ng = g) := fun h => e h.symm
      simp only [upd, e, hne, if_false, Nat.add_zero]
      have hl : linkwF (upd s.dead s.ng false) g = linkwF s.dead g := by
        simp only [linkwF, upd]
        have : g - 1 ≠ s.ng := by omega
        simp [this]
      rw [hl]
      simp only [mtxwF, hal, true_and] at A ⊢
      by_cases e1 : g = s.ng - 1
      · subst e1
        have c1 : s.ng - 1 + 1 = s.ng := by omega
        have c2 : ¬ (s.ng = s.ng + 1) := by omega
        have c3 : 0 < s.ng := by omega
        simp only [c1, c2, c3, if_true, if_false, and_self] at A ⊢; omega
      · have c1 : ¬ (g + 1 = s.ng) := by omega
        have c2 : ¬ (g + 1 = s.ng + 1) := by omega
        have c3 : ¬ (0 < s.ng ∧ g = s.ng - 1) := fun h => e1 h.2
        simp only [c1, c2, c3, if_false] at A ⊢; omega
  · intro g hg
    simp only [upd]
    by_cases e : g = s.ng
    · subst e; simp only [if_true]; split <;> simp
    · simp only [e, if_false]; exact h10 g (by omega)
  · intro g hg
    simp only [upd]
    by_cases e : g = s.ng
    · subst e
      by_cases e0 : s.ng = 0
      · simp [e0]
      · have hp : 0 < s.ng := by omega
        have hne2 : s.ng - 1 ≠ s.ng := by omega
        simp [e0, hp, hne2, (hla hp).2]
    · have : g - 1 ≠ s.ng := by omega
      simp only [e, this, if_false]; exact h11 g (by omega)
  · intro g hg
    simp only [upd]
    by_cases e : g = s.ng
    · subst e; simp only [if_true]; split <;> simp [isDrain]
    · simp only [e, if_false]; exact h12 g (by omega)
  · intro g b hg
    by_cases e : g = s.ng
    · subst e
      have : qofF (upd s.head s.ng (some [])) (upd s.dn s.ng (if s.ng = 0 then Dn.pend t else Dn.idle)) s.ng = [] := by
        simp [qofF, upd]
      rw [this]
      simp only [List.not_mem_nil, false_iff, upd]
      rintro ⟨b1, b2, b3⟩
      by_cases eb : b = s.na
      · simp [eb, isQ] at b3
      · simp only [eb, if_false] at b2; exact hgn b (by omega) b2
    · rw [qofF_upd_ne _ _ _ _ _ _ e, h13 g b (by omega)]
      simp only [upd]
      by_cases eb : b = s.na
      · subst eb
        have : ¬ (s.ng = g) := fun h => e h.symm
        simp [this]
      · simp only [eb, if_false]
        constructor
        · rintro ⟨b1, b2, b3⟩; exact ⟨by omega, b2, b3⟩
        · rintro ⟨b1, b2, b3⟩; exact ⟨by omega, b2, b3⟩
  · intro g hg
    by_cases e : g = s.ng
    · subst e
      have : qofF (upd s.head s.ng (some [])) (upd s.dn s.ng (if s.ng = 0 then Dn.pend t else Dn.idle)) s.ng = [] := by
        simp [qofF, upd]
      rw [this]; exact List.nodup_nil
    · rw [qofF_upd_ne _ _ _ _ _ _ e]; exact h14 g (by omega)
  · intro b hb ho
    simp only [upd] at ho ⊢
    by_cases eb : b = s.na
    · simp [eb, pre]
    · simp only [eb, if_false] at ho ⊢
      simp only [hgn b (by omega), if_false] at ho
      exact h15 b (by omega) ho
  · intro b
    simp only [upd]
    by_cases eb : b = s.na
    · subst eb
      have := h16 s.na
      rw [h1 s.na (Nat.le_refl _)] at this
      simp only [if_true]; simpa [post] using this
    · simp only [eb, if_false]; exact h16 b
  · intro hv; have := (h17 hv).1; rw [hal] at this; simp at this

/-- `read()` after a read: one more sender on the current shared state -/
theorem reuse_inv (s : St) (hi : Inv s) (hal : s.alive = true) (hl : s.lastRw = false) :
    Inv { s with rc := upd s.rc (s.ng - 1) (s.rc (s.ng - 1) + 1), na := s.na + 1,
                 grp := upd s.grp s.na (s.ng - 1), acc := upd s.acc s.na .sender } := by
  have hng : 0 < s.ng := by
    by_cases h : s.ng = 0
    · have := (hi.zeroKind h).1; rw [hl] at this; simp at this
    · omega
  obtain ⟨hr, hd⟩ := last_alive hi hal hng
  obtain ⟨h1,h2,h3,h4,h5,h6,h7,h8,h9,h10,h11,h12,h13,h14,h15,h16,h17⟩ := hi
  dsimp only [mtxw, linkw, gsum, qof] at h9 h13 h14
  have hrw : s.rw (s.ng - 1) = false := by rw [h6 hng]; exact hl
  have hgl : s.ng - 1 < s.ng := by omega
  refine ⟨?_, ?_, ?_, ?_, ?_, ?_, ?_, ?_, ?_, ?_, ?_, ?_, ?_, ?_, ?_, ?_, ?_⟩ <;> dsimp only [mtxw, linkw, gsum, qof]
  all_goals first | assumption | skip
  · intro b hb; have : b ≠ s.na := by omega
    simp only [upd, this, if_false]; exact h1 b (by omega)
  · intro b hb; simp only [upd]; split
    · simp
    · exact h2 b (by omega)
  · intro b hb; simp only [upd]; split
    · omega
    · exact h3 b (by omega)
  · intro a b hab hb
    simp only [upd]
    by_cases e1 : b = s.na
    · subst e1; simp only [if_true]; split
      · omega
      · have := h3 a (by omega); omega
    · have e2 : a ≠ s.na := by omega
      simp only [e1, e2, if_false]; exact h4 a b hab (by omega)
  · intro a b ha hb hab hrw'
    simp only [upd] at hab hrw'
    by_cases e1 : a = s.na
    · simp only [e1, if_true] at hrw'; rw [hrw] at hrw'; simp at hrw'
    · by_cases e2 : b = s.na
      · simp only [e1, e2, if_true, if_false] at hab hrw'
        rw [hab, hrw] at hrw'; simp at hrw'
      · simp only [e1, e2, if_false] at hab hrw'
        exact h5 a b (by omega) (by omega) hab hrw'
  · intro h; omega
  · intro g hg
    obtain ⟨f1, f2⟩ := h8 g hg
    have : s.first g ≠ s.na := by omega
    simp only [upd, this, if_false]; exact ⟨by omega, f2⟩
  · intro g hg
    rw [gsumF_push]
    have A := h9 g hg
    simp only [upd, weight]
    by_cases e : g = s.ng - 1
    · subst e; simp only [if_true]; omega
    · have : ¬ (s.ng - 1 = g) := fun h => e h.symm
      simp only [e, this, if_false]; omega
  · intro g hg
    have A := h10 g hg
    simp only [upd]
    by_cases e : g = s.ng - 1
    · subst e; simp only [if_true]; constructor
      · intro h; rw [h] at hd; simp at hd
      · intro h; omega
    · simp only [e, if_false]; exact A
  · intro g b hg
    rw [h13 g b hg]
    simp only [upd]
    by_cases eb : b = s.na
    · subst eb; simp [isQ]
    · simp only [eb, if_false]
      constructor
      · rintro ⟨b1, b2, b3⟩; exact ⟨by omega, b2, b3⟩
      · rintro ⟨b1, b2, b3⟩; exact ⟨by omega, b2, b3⟩
  · intro b hb ho
    simp only [upd] at ho ⊢
    by_cases eb : b = s.na
    · simp [eb, pre]
    · simp only [eb, if_false] at ho ⊢
      exact h15 b (by omega) ho
  · intro b
    simp only [upd]
    by_cases eb : b = s.na
    · subst eb
      have := h16 s.na
      rw [h1 s.na (Nat.le_refl _)] at this
      simp only [if_true]; simpa [post] using this
    · simp only [eb, if_false]; exact h16 b

theorem step_inv_req (s s' : St) (t a : Nat) (w newg died : Bool) (hi : Inv s)
    (h : step s (.req t a w newg died) = some s') : Inv s' := by
  simp only [step] at h
  split at h
  · rename_i hc
    obtain ⟨hal, ha⟩ := hc
    subst ha
    split at h
    · split at h
      · simp only [Option.some.injEq] at h; subst h
        have h0 := newGroup_inv s t w hi hal
        split
        · rename_i hp
          refine decRc_inv _ t (s.ng - 1) (by dsimp only; omega) ?_
          have : (fun x => if 0 < s.ng ∧ x = s.ng - 1 then 1 else 0) = (fun x => if x = s.ng - 1 then 1 else 0) := by
            funext x; simp [hp]
          rw [← this]; exact h0
        · rename_i hp
          have : (fun x => if 0 < s.ng ∧ x = s.ng - 1 then 1 else 0) = (fun _ => 0) := by
            funext x; simp [hp]
          rw [this] at h0; exact h0
      · simp at h
    · rename_i hw
      split at h
      · simp only [Option.some.injEq] at h; subst h
        refine reuse_inv s hi hal ?_
        cases hl : s.lastRw with
        | false => rfl
        | true => exact absurd (Or.inr hl) hw
      · simp at h
  · simp at h

theorem step_inv (s s' : St) (e : Ev) (hi : Inv s) (h : step s e = some s') : Inv s' := by
  cases e with
  | req t a w newg died => exact step_inv_req s s' t a w newg died hi h
  | destroy t died => exact step_inv_destroy s s' t died hi h
  | start t a det => exact step_inv_start s s' t a det hi h
  | load t a cls ack died => exact step_inv_load s s' t a cls ack died hi h
  | cas t a ok cls ack died => exact step_inv_cas s s' t a ok cls ack died hi h
  | xchg t g cls => exact step_inv_xchg s s' t g cls hi h
  | cont t g ack died => exact step_inv_cont s s' t g ack died hi h
  | copy t a => exact step_inv_copy s s' t a hi h
  | rel t a died => exact step_inv_rel s s' t a died hi h
  | write t a v => exact step_inv_write s s' t a v hi h
  | readv t a v => exact step_inv_readv s s' t a v hi h
  | vfree t => exact step_inv_vfree s s' t hi h

theorem inv_of_accepted {log : List Ev} {s : St} (h : runLog step init log = some s) : Inv s :=
  inv_of_runLog Inv (fun s e s' => step_inv s s' e) inv_init h

end PikaVerif.Rw
