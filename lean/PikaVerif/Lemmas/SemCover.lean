import PikaVerif.Lemmas.SemProg
/-!
# Accounting of a program's releases and acquires (C08t)

Ghost-free bookkeeping that ties the model's counters `released` / `acquired` to the program:
* `relSum`: `released` + permits of the `release` operations in progress before their `sem.add`
  + permits of the `release` operations not yet started is constant along a program run;
* `consSum`: `acquired` + acquire-type operations in progress that have not taken/failed yet
  + acquire-type operations not yet started never increases;
* `HzOk`: the permits of the releases a thread has still to run *behind an untimed acquire* are at
  most `hazard (prog₀ t)` (the release counts that follow the first `acq` of the thread's program).
-/
namespace PikaVerif.Sem
open PikaVerif

def relCount : Op → Nat
  | .rel k => k
  | _ => 0

def consCount : Op → Nat
  | .rel _ => 0
  | _ => 1

/-- permits a `release` in progress has not yet added -/
def pendR : Pc → Nat
  | .want o => relCount o
  | .locked o _ => relCount o
  | _ => 0

/-- acquire-type operation in progress that has neither taken a permit nor failed yet -/
def pendC : Pc → Nat
  | .want o => consCount o
  | .locked o _ => consCount o
  | .enq _ | .unl _ _ | .susp _ | .slp _ | .wokeNL _ _ | .relk _ _ => 1
  | _ => 0

/-- inside an untimed `acquire` that has not yet taken its permit -/
def inAcq : Pc → Bool
  | .want o => decide (o = .acq)
  | .locked o _ => decide (o = .acq)
  | .enq tm | .unl tm _ | .wokeNL tm _ | .relk tm _ => !tm
  | .susp _ => true
  | _ => false

def relTot : List Op → Nat
  | [] => 0
  | o :: l => relCount o + relTot l

def consTot : List Op → Nat
  | [] => 0
  | o :: l => consCount o + consTot l

/-- permits released behind the first untimed `acquire` of a thread's program -/
def hazard : List Op → Nat
  | [] => 0
  | o :: l => if o = .acq then relTot l else hazard l

theorem hazard_le_relTot : ∀ l, hazard l ≤ relTot l
  | [] => Nat.le_refl _
  | o :: l => by
    simp only [hazard, relTot]
    split
    · omega
    · have := hazard_le_relTot l; omega

theorem sumTo_le {n : Nat} {f g : Nat → Nat} (h : ∀ t, t < n → f t ≤ g t) : sumTo n f ≤ sumTo n g := by
  induction n with
  | zero => exact Nat.le_refl _
  | succ k ih =>
    simp only [sumTo_succ]
    have := ih (fun t ht => h t (Nat.lt_succ_of_lt ht))
    have := h k (Nat.lt_succ_self k)
    omega

theorem sumTo_add (n : Nat) (f g : Nat → Nat) : sumTo n (fun t => f t + g t) = sumTo n f + sumTo n g := by
  induction n with
  | zero => rfl
  | succ k ih => simp only [sumTo_succ, ih]; omega

/-- a double update whose inner update does not change the weight -/
theorem sumTo_upd2 {α : Type} (n : Nat) (w : α → Nat) (f : Nat → α) (g t : Nat) (p' v : α)
    (hw : w p' = w (f g)) :
    sumTo n (fun u => w (upd (upd f g p') t v u)) = sumTo n (fun u => w (upd f t v u)) := by
  apply sumTo_congr
  intro u _
  simp only [upd]
  split
  · rfl
  · split
    · rename_i h; rw [hw, h]
    · rfl

theorem setPopped_pend {q q' : Pc} (h : setPopped q = some q') :
    pendR q' = pendR q ∧ pendC q' = pendC q ∧ inAcq q' = inAcq q := by
  unfold setPopped at h
  split at h <;> simp at h <;> subst h <;> simp [pendR, pendC, inAcq]

attribute [local grind] pendR pendC relCount consCount

set_option hygiene false in
macro "acc_step" t:term : tactic => `(tactic| (
  simp only [step] at h
  split at h
  case isFalse => simp at h
  rename_i hg
  have htn : $t < s.n := by grind
  have hle := le_sumTo (f := fun u => pendR (s.pc u)) htn
  have hle2 := le_sumTo (f := fun u => pendC (s.pc u)) htn
  repeat' split at h
  all_goals first | (simp at h; done) | skip
  all_goals (
    simp only [Option.some.injEq] at h
    subst h
    dsimp only
    try rw [sumTo_upd_eq _ pendR _ _ _ htn]
    try rw [sumTo_upd_eq _ pendC _ _ _ htn]
    grind)))

/-- the two accounting statements for one accepted non-`inv` event -/
def AccStep (s s' : St) : Prop :=
  s'.released + sumTo s.n (fun u => pendR (s'.pc u)) = s.released + sumTo s.n (fun u => pendR (s.pc u)) ∧
  s'.acquired + sumTo s.n (fun u => pendC (s'.pc u)) ≤ s.acquired + sumTo s.n (fun u => pendC (s.pc u))

theorem acc_ret (s s' : St) (t : Nat) (r : Bool) (h : step s (.ret t r) = some s') : AccStep s s' := by unfold AccStep; acc_step t
theorem acc_slAcq (s s' : St) (t : Nat) (h : step s (.slAcq t) = some s') : AccStep s s' := by unfold AccStep; acc_step t
theorem acc_slRel (s s' : St) (t : Nat) (h : step s (.slRel t) = some s') : AccStep s s' := by unfold AccStep; acc_step t
theorem acc_cvEnq (s s' : St) (t z : Nat) (b : Bool) (h : step s (.cvEnq t z b) = some s') : AccStep s s' := by unfold AccStep; acc_step t
theorem acc_cvNone (s s' : St) (t : Nat) (h : step s (.cvNone t) = some s') : AccStep s s' := by unfold AccStep; acc_step t
theorem acc_cvWoke (s s' : St) (t : Nat) (a b : Bool) (h : step s (.cvWoke t a b) = some s') : AccStep s s' := by unfold AccStep; acc_step t
theorem acc_take (s s' : St) (t : Nat) (v : Int) (h : step s (.take t v) = some s') : AccStep s s' := by unfold AccStep; acc_step t
theorem acc_add (s s' : St) (t : Nat) (v : Int) (c : Nat) (h : step s (.add t v c) = some s') : AccStep s s' := by unfold AccStep; acc_step t
theorem acc_suspend (s s' : St) (t : Nat) (h : step s (.suspend t) = some s') : AccStep s s' := by unfold AccStep; acc_step t
theorem acc_woke (s s' : St) (t : Nat) (h : step s (.woke t) = some s') : AccStep s s' := by unfold AccStep; acc_step t
theorem acc_sleep (s s' : St) (t : Nat) (h : step s (.sleep t) = some s') : AccStep s s' := by unfold AccStep; acc_step t
theorem acc_timeout (s s' : St) (t : Nat) (h : step s (.timeout t) = some s') : AccStep s s' := by unfold AccStep; acc_step t
theorem acc_done (s s' : St) (t : Nat) (h : step s (.done t) = some s') : AccStep s s' := by unfold AccStep; acc_step t

theorem acc_popResume (s s' : St) (t z g : Nat) (d : Bool) (h : step s (.popResume t z g d) = some s') :
    AccStep s s' := by
  unfold AccStep
  simp only [step] at h
  split at h
  case isFalse => simp at h
  rename_i hg
  have htn : t < s.n := hg.1
  split at h
  case h_2 => simp at h
  rename_i i n g' rest hpc hq
  split at h
  case isFalse => simp at h
  split at h
  case h_2 => simp at h
  rename_i p' hp'
  obtain ⟨e1, e2, _⟩ := setPopped_pend hp'
  split at h
  case isFalse => simp at h
  simp only [Option.some.injEq] at h
  subst h
  dsimp only
  rw [sumTo_upd2 _ pendR _ _ _ _ _ e1, sumTo_upd2 _ pendC _ _ _ _ _ e2]
  have hle := le_sumTo (f := fun u => pendR (s.pc u)) htn
  have hle2 := le_sumTo (f := fun u => pendC (s.pc u)) htn
  rw [sumTo_upd_eq _ pendR _ _ _ htn, sumTo_upd_eq _ pendC _ _ _ htn]
  rw [hpc] at hle hle2 ⊢
  simp only [pendR, pendC] at hle hle2 ⊢
  omega

theorem acc_step (s s' : St) (e : Ev) (hne : ∀ t o, e ≠ .inv t o) (h : step s e = some s') : AccStep s s' := by
  cases e with
  | inv t o => exact absurd rfl (hne t o)
  | ret t r => exact acc_ret s s' t r h
  | slAcq t => exact acc_slAcq s s' t h
  | slRel t => exact acc_slRel s s' t h
  | cvEnq t z b => exact acc_cvEnq s s' t z b h
  | popResume t z g d => exact acc_popResume s s' t z g d h
  | cvNone t => exact acc_cvNone s s' t h
  | cvWoke t a b => exact acc_cvWoke s s' t a b h
  | take t v => exact acc_take s s' t v h
  | add t v c => exact acc_add s s' t v c h
  | suspend t => exact acc_suspend s s' t h
  | woke t => exact acc_woke s s' t h
  | sleep t => exact acc_sleep s s' t h
  | timeout t => exact acc_timeout s s' t h
  | done t => exact acc_done s s' t h

theorem acc_inv (s s' : St) (t : Nat) (o : Op) (h : step s (.inv t o) = some s') :
    s'.released = s.released ∧ s'.acquired = s.acquired ∧ s.pc t = .idle ∧ s'.pc = upd s.pc t (.want o) ∧
    sumTo s.n (fun u => pendR (s'.pc u)) = sumTo s.n (fun u => pendR (s.pc u)) + relCount o ∧
    sumTo s.n (fun u => pendC (s'.pc u)) = sumTo s.n (fun u => pendC (s.pc u)) + consCount o := by
  simp only [step] at h
  split at h
  case isFalse => simp at h
  rename_i hg
  have htn : t < s.n := hg.1
  have hle := le_sumTo (f := fun u => pendR (s.pc u)) htn
  have hle2 := le_sumTo (f := fun u => pendC (s.pc u)) htn
  simp only [Option.some.injEq] at h
  subst h
  dsimp only
  rw [sumTo_upd_eq _ pendR _ _ _ htn, sumTo_upd_eq _ pendC _ _ _ htn]
  rw [hg.2] at hle hle2 ⊢
  simp only [pendR, pendC] at hle hle2 ⊢
  refine ⟨trivial, trivial, trivial, trivial, ?_, ?_⟩ <;> omega

/-- only `inv` enters an untimed acquire -/
theorem step_inAcq (s s' : St) (e : Ev) (hs : step s e = some s') (hne : ∀ t o, e ≠ .inv t o) :
    ∀ u, inAcq (s'.pc u) = true → inAcq (s.pc u) = true := by
  intro u
  cases e
  case inv t o => exact absurd rfl (hne t o)
  case popResume t z g d =>
    simp only [step] at hs
    (repeat' split at hs) <;> first | (simp at hs; done) | skip
    all_goals (
      rename_i hsp _ _
      simp only [Option.some.injEq] at hs; subst hs; simp only [upd]; intro hu
      (repeat' split at hu)
      · simp [inAcq] at hu
      · rename_i hug; rw [(setPopped_pend hsp).2.2, ← hug] at hu; exact hu
      · exact hu)
  all_goals
    simp only [step] at hs <;> (repeat' split at hs) <;>
      first
      | (simp at hs; done)
      | (simp only [Option.some.injEq] at hs; subst hs; simp only [upd]; intro hu
         (repeat' split at hu) <;>
           first
           | exact hu
           | (simp [inAcq] at hu; done)
           | (subst_vars; simp_all [inAcq]; done))

def relSum (p : PSt) : Nat :=
  p.s.released + sumTo p.s.n (fun u => pendR (p.s.pc u)) + sumTo p.s.n (fun u => relTot (p.prog u))

def consSum (p : PSt) : Nat :=
  p.s.acquired + sumTo p.s.n (fun u => pendC (p.s.pc u)) + sumTo p.s.n (fun u => consTot (p.prog u))

/-- permits of the releases thread `t` still has to run behind an untimed acquire -/
def hW (p : PSt) (t : Nat) : Nat :=
  if inAcq (p.s.pc t) = true then relTot (p.prog t) else hazard (p.prog t)

theorem cover_step (p p' : PSt) (e : Ev) (h : pstep p e = some p') :
    relSum p' = relSum p ∧ consSum p' ≤ consSum p ∧ ∀ t, hW p' t ≤ hW p t := by
  have hs := pstep_step p p' e h
  have hn := step_n _ _ _ hs
  by_cases hinv : ∃ t o, e = .inv t o
  · obtain ⟨t, o, he⟩ := hinv
    subst he
    obtain ⟨rest, hp, hp', htn⟩ := pstep_inv p p' t o h
    obtain ⟨a1, a2, a3, a4, a5, a6⟩ := acc_inv _ _ _ _ hs
    have b1 := sumTo_upd p.s.n relTot p.prog t rest htn
    have b2 := sumTo_upd p.s.n consTot p.prog t rest htn
    rw [hp] at b1 b2
    simp only [relTot, consTot] at b1 b2
    refine ⟨?_, ?_, ?_⟩
    · simp only [relSum, hn, hp', a1, a5]; omega
    · simp only [consSum, hn, hp', a2, a6]; omega
    · intro u
      simp only [hW, hp', a4, upd]
      by_cases hut : u = t
      · subst hut
        simp only [if_true, a3, hp, inAcq, hazard]
        by_cases ho : o = .acq <;> simp [ho]
      · simp only [hut, if_false]; exact Nat.le_refl _
  · have hne : ∀ t o, e ≠ .inv t o := fun t o he => hinv ⟨t, o, he⟩
    have hp := pstep_prog p p' e hne h
    obtain ⟨a1, a2⟩ := acc_step _ _ _ hne hs
    refine ⟨?_, ?_, ?_⟩
    · simp only [relSum, hn, hp]; omega
    · simp only [consSum, hn, hp]; omega
    · intro u
      simp only [hW, hp]
      have := step_inAcq _ _ _ hs hne u
      have hz := hazard_le_relTot (p.prog u)
      by_cases h1 : inAcq (p'.s.pc u) = true
      · simp [h1, this h1]
      · by_cases h2 : inAcq (p.s.pc u) = true
        · simp [h1, h2, hz]
        · simp [h1, h2]

theorem cover_log (log : List Ev) : ∀ (p p' : PSt), runLog pstep p log = some p' →
    relSum p' = relSum p ∧ consSum p' ≤ consSum p ∧ ∀ t, hW p' t ≤ hW p t := by
  induction log with
  | nil => intro p p' h; simp at h; subst h; simp
  | cons e es ih =>
    intro p p' h
    simp only [runLog] at h
    cases hs : pstep p e with
    | none => simp [hs] at h
    | some p1 =>
      simp only [hs] at h
      obtain ⟨a1, a2, a3⟩ := cover_step p p1 e hs
      obtain ⟨b1, b2, b3⟩ := ih p1 p' h
      exact ⟨by omega, by omega, fun t => Nat.le_trans (b3 t) (a3 t)⟩

/-- totals of a program with `n` threads -/
def progRel (n : Nat) (prog : Nat → List Op) : Nat := sumTo n (fun t => relTot (prog t))
def progCons (n : Nat) (prog : Nat → List Op) : Nat := sumTo n (fun t => consTot (prog t))
def progHazard (n : Nat) (prog : Nat → List Op) : Nat := sumTo n (fun t => hazard (prog t))

theorem cover_pinit (n : Nat) (v : Int) (prog : Nat → List Op) :
    relSum (pinit n v prog) = progRel n prog ∧ consSum (pinit n v prog) = progCons n prog ∧
    ∀ t, hW (pinit n v prog) t = hazard (prog t) := by
  refine ⟨?_, ?_, ?_⟩
  · simp only [relSum, pinit, init, progRel]
    have hz : sumTo n (fun _ => pendR Pc.idle) = 0 := sumTo_eq_zero (fun _ _ => rfl)
    rw [hz]; omega
  · simp only [consSum, pinit, init, progCons]
    have hz : sumTo n (fun _ => pendC Pc.idle) = 0 := sumTo_eq_zero (fun _ _ => rfl)
    rw [hz]; omega
  · intro t; simp [hW, pinit, init, inAcq]

end PikaVerif.Sem
