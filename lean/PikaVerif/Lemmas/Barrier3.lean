import PikaVerif.Lemmas.Barrier2
/-! Consequences of the counting invariant: capacity bound per round, emptiness above the top
    round, uniqueness of the last arriver, and the "last arriver ⇒ everybody arrived" lemma
    (downward induction over the rounds). -/
namespace PikaVerif.Barrier
open PikaVerif

theorem Fsum_le_nodes (N p : Nat) (tk : Nat → Nat → Nat) (r : Nat) : Fsum N p tk r ≤ nodes N r :=
  sumTo_le_n (by intro c _; unfold isF; split <;> omega)

theorem two_le_sumTo {n : Nat} {f : Nat → Nat} {a b : Nat} (ha : a < n) (hb : b < n) (hab : a ≠ b)
    (h1 : 1 ≤ f a) (h2 : 1 ≤ f b) : 2 ≤ sumTo n f := by
  induction n with
  | zero => exact absurd ha (Nat.not_lt_zero _)
  | succ k ih =>
    simp only [sumTo_succ]
    by_cases hak : a = k
    · have hbk : b < k := by omega
      have := le_sumTo (f := f) hbk
      subst hak; omega
    · by_cases hbk : b = k
      · have hak' : a < k := by omega
        have := le_sumTo (f := f) hak'
        subst hbk; omega
      · have := ih (by omega) (by omega); omega

/-- Capacity bound: round `r` never holds more arrivals than it has participants. -/
theorem X_bound {s : St} (hb : InvB s) (r : Nat) :
    Wsum s.e0 s.phase s.tk r + Asum s.n s.pc r ≤ mr s.e0 r := by
  cases r with
  | zero => have := hb.c0; simp only [mr]; omega
  | succ k =>
    have := hb.cr k
    have := Fsum_le_nodes s.e0 s.phase s.tk k
    have := nodes_le_mr_succ s.e0 k
    omega

/-- Nobody is in a round above a round that has at most one participant. -/
theorem above_top_empty {s : St} (hb : InvB s) {r k : Nat} (htop : mr s.e0 r ≤ 1) (hk : r < k) :
    Asum s.n s.pc k = 0 := by
  obtain ⟨j, rfl⟩ : ∃ j, k = j + 1 := ⟨k - 1, by omega⟩
  have h1 := hb.cr j
  have hn : nodes s.e0 j = 0 := nodes_top (Nat.le_trans (mr_anti s.e0 (by omega : r ≤ j)) htop)
  have := Fsum_le_nodes s.e0 s.phase s.tk j
  omega

theorem Wsum_all_full {N p : Nat} {tk : Nat → Nat → Nat} {r : Nat} (hm : 1 < mr N r)
    (h : ∀ c, c < nodes N r → tk r c = fullB p) : Wsum N p tk r = mr N r := by
  rw [← sumTo_cap hm]
  unfold Wsum
  apply sumTo_congr
  intro c hc
  simp [wt, h c hc]

/-- Two different threads cannot both be in top rounds (rounds with at most one participant). -/
theorem top_unique {s : St} (hb : InvB s) {t t1 r r1 : Nat} (ht : t < s.n) (ht1 : t1 < s.n)
    (hne : t ≠ t1) (hin : inR r (s.pc t) = 1) (hin1 : inR r1 (s.pc t1) = 1)
    (htop : mr s.e0 r ≤ 1) (htop1 : mr s.e0 r1 ≤ 1) : False := by
  by_cases hrr : r = r1
  · subst hrr
    have := two_le_sumTo (f := fun u => inR r (s.pc u)) ht ht1 hne (by simp [hin]) (by simp [hin1])
    have := X_bound hb r
    unfold Asum at this; omega
  · by_cases hlt : r < r1
    · have := above_top_empty hb htop hlt
      have := le_sumTo (f := fun u => inR r1 (s.pc u)) ht1
      unfold Asum at *; simp only [hin1] at this; omega
    · have := above_top_empty hb htop1 (by omega : r1 < r)
      have := le_sumTo (f := fun u => inR r (s.pc u)) ht
      unfold Asum at *; simp only [hin] at this; omega

/-- Downward induction: if a thread is in a top round `r`, every round `k ≤ r` holds exactly
    as many arrivals as it has participants. -/
theorem win_Q {s : St} (hb : InvB s) {t r : Nat} (ht : t < s.n) (hin : inR r (s.pc t) = 1)
    (htop : mr s.e0 r ≤ 1) :
    ∀ d k, k + d = r → Wsum s.e0 s.phase s.tk k + Asum s.n s.pc k = mr s.e0 k ∧ 1 ≤ mr s.e0 k := by
  intro d
  induction d with
  | zero =>
    intro k hk
    have hkr : k = r := by omega
    subst hkr
    have h1 := le_sumTo (f := fun u => inR k (s.pc u)) ht
    simp only [hin] at h1
    have h2 := X_bound hb k
    unfold Asum at *
    omega
  | succ d ih =>
    intro k hk
    obtain ⟨hq, hpos⟩ := ih (k + 1) (by omega)
    have hcr := hb.cr k
    have hF := Fsum_le_nodes s.e0 s.phase s.tk k
    have hm : 1 < mr s.e0 k := by
      by_cases h : 1 < mr s.e0 k
      · exact h
      · have := nodes_top (N := s.e0) (r := k) (by omega); omega
    have hn := nodes_eq hm
    have hFn : Fsum s.e0 s.phase s.tk k = nodes s.e0 k := by rw [mr_succ] at hq hpos; omega
    have hall := all_one_of_sumTo_eq (f := fun c => isF s.phase (s.tk k c))
      (by intro c _; simp only [isF]; split <;> omega) hFn
    have hfull : ∀ c, c < nodes s.e0 k → s.tk k c = fullB s.phase := by
      intro c hc
      have := hall c hc
      simp only [isF] at this
      split at this
      · assumption
      · omega
    have hW := Wsum_all_full (p := s.phase) hm hfull
    have := X_bound hb k
    omega

/-- What holds when a thread is in a top round (it is the last arriver of the phase). -/
theorem win_facts {s : St} (hb : InvB s) {t r : Nat} (ht : t < s.n) (hin : inR r (s.pc t) = 1)
    (htop : mr s.e0 r ≤ 1) :
    Remsum s.n s.pc = 0 ∧ s.count = 0 ∧ 1 ≤ s.e0 ∧
    (∀ k, k ≠ r → Asum s.n s.pc k = 0) ∧ Asum s.n s.pc r = 1 ∧
    (∀ k c, c < nodes s.e0 k → s.tk k c = fullB s.phase) := by
  have hQ := win_Q hb ht hin htop
  have h0 := hQ r 0 (by omega)
  have hc0 := hb.c0
  simp only [mr] at h0
  -- per round k < r: all full, nobody active
  have hk : ∀ k, k < r → Asum s.n s.pc k = 0 ∧ ∀ c, c < nodes s.e0 k → s.tk k c = fullB s.phase := by
    intro k hk
    obtain ⟨hq, hpos⟩ := hQ (r - (k + 1)) (k + 1) (by omega)
    obtain ⟨hq0, _⟩ := hQ (r - k) k (by omega)
    have hcr := hb.cr k
    have hF := Fsum_le_nodes s.e0 s.phase s.tk k
    have hm : 1 < mr s.e0 k := by
      by_cases h : 1 < mr s.e0 k
      · exact h
      · have := nodes_top (N := s.e0) (r := k) (by omega); omega
    have hn := nodes_eq hm
    have hFn : Fsum s.e0 s.phase s.tk k = nodes s.e0 k := by rw [mr_succ] at hq hpos; omega
    have hall := all_one_of_sumTo_eq (f := fun c => isF s.phase (s.tk k c))
      (by intro c _; simp only [isF]; split <;> omega) hFn
    have hfull : ∀ c, c < nodes s.e0 k → s.tk k c = fullB s.phase := by
      intro c hc
      have := hall c hc
      simp only [isF] at this
      split at this
      · assumption
      · omega
    have hW := Wsum_all_full (p := s.phase) hm hfull
    exact ⟨by omega, hfull⟩
  have hAr : Asum s.n s.pc r = 1 := by
    have h1 := le_sumTo (f := fun u => inR r (s.pc u)) ht
    simp only [hin] at h1
    have h2 := X_bound hb r
    unfold Asum at *
    omega
  refine ⟨?_, ?_, ?_, ?_, hAr, ?_⟩
  · omega
  · omega
  · exact (hQ r 0 (by omega)).2
  · intro k hkr
    by_cases hlt : k < r
    · exact (hk k hlt).1
    · exact above_top_empty hb htop (by omega)
  · intro k c hc
    by_cases hlt : k < r
    · exact (hk k hlt).2 c hc
    · have := nodes_top (N := s.e0) (r := k) (Nat.le_trans (mr_anti s.e0 (by omega : r ≤ k)) htop)
      omega

theorem isWin_inR {N : Nat} {p : Pc} (h : isWin p = true) (hs : pcOk N p) :
    ∃ r, inR r p = 1 ∧ mr N r ≤ 1 := by
  cases p <;> simp [isWin, isWon, isPub] at h
  case won u r => exact ⟨r, by simp [inR], hs⟩
  case pub u r => exact ⟨r, by simp [inR], hs⟩

/-- While a last arriver exists (between `true` from base.arrive and the phase store) nobody
    else is inside an arriving operation, the phase's count is used up and every in-range
    ticket is full. -/
theorem win_some_facts {s : St} (hb : InvB s) : ∀ t1, s.win = some t1 →
    (∀ t, t < s.n → rem (s.pc t) = 0) ∧ (∀ t k, t < s.n → t ≠ t1 → inR k (s.pc t) = 0) ∧
    s.count = 0 ∧ 1 ≤ s.e0 ∧ (∀ k c, c < nodes s.e0 k → s.tk k c = fullB s.phase) := by
  intro t1 hw
  obtain ⟨hwin, ht1, _⟩ := hb.winConv t1 hw
  obtain ⟨r, hin, htop⟩ := isWin_inR hwin (hb.shape t1)
  obtain ⟨hrem, hcnt, he0, hA, hAr, hfull⟩ := win_facts hb ht1 hin htop
  refine ⟨?_, ?_, hcnt, he0, hfull⟩
  · intro t ht
    have := le_sumTo (f := fun u => rem (s.pc u)) ht
    unfold Remsum at hrem; omega
  · intro t k ht hne
    by_cases hk : k = r
    · subst hk
      by_cases h0 : inR k (s.pc t) = 0
      · exact h0
      · have := two_le_sumTo (f := fun u => inR k (s.pc u)) ht ht1 hne (by show 1 ≤ inR k (s.pc t); omega) (by simp [hin])
        unfold Asum at hAr; omega
    · have := hA k hk
      have := le_sumTo (f := fun u => inR k (s.pc u)) ht
      unfold Asum at *; omega

/-- A thread that still owes an arrival excludes a last arriver. -/
theorem no_win_of_rem {s : St} (hb : InvB s) : ∀ t, t < s.n → 1 ≤ rem (s.pc t) → s.win = none := by
  intro t ht hr
  cases hw : s.win with
  | none => rfl
  | some t1 => have := (win_some_facts hb t1 hw).1 t ht; omega

/-- A thread inside base.arrive excludes a last arriver other than itself. -/
theorem no_win_of_inR {s : St} (hb : InvB s) : ∀ t k, t < s.n → inR k (s.pc t) = 1 →
    s.win = none ∨ s.win = some t := by
  intro t k ht hr
  cases hw : s.win with
  | none => exact Or.inl rfl
  | some t1 =>
    by_cases h : t = t1
    · subst h; exact Or.inr rfl
    · have := (win_some_facts hb t1 hw).2.1 t k ht h; omega

end PikaVerif.Barrier
