import PikaVerif.Lemmas.MpiT
/-!
# Final states of maximal runs of the MPI request model (follow-up C20t)

* `Inv2`: a second inductive invariant (created operations are not `idle`; an operation that is
  posted / registering / waiting was posted successfully; MPI has not yet reported an operation
  that is posted, registering, queued or in the vector).
* `pika e`: the events that are pika's own obligatory steps (everything that moves an operation
  except MPI's four reports and the optional release of owned arguments).
* `Maximal s`: no such event is accepted in `s`, nor in the state a poller reaches by taking the
  poll lock.
* `final_op`: in a reachable maximal state every operation is either finished (`done`, registry
  entry never created or completely gone) or waits for MPI's report.
-/
namespace PikaVerif.Mpi
open PikaVerif

/-- the operation is on its way to / in the registry and waits -/
def pend : Pc → Bool
  | .posted | .reg0 | .reg1 | .reg2 | .waiting => true
  | _ => false

/-- MPI cannot have reported yet: not polled successfully, not tested successfully -/
def unrep (o : Op) : Bool :=
  (match o.pc with | .posted | .reg0 | .reg1 | .reg2 => true | _ => false) ||
  (match o.rs with | .queued | .vec => true | _ => false)

structure OpInv2 (o : Op) : Prop where
  pendOk : pend o.pc = true → o.okPost = true
  unrepNot : unrep o = true → o.mpiDone = false
  rsNonePc : o.rs = .none → o.pc ≠ .waiting

structure Inv2 (s : St) : Prop where
  ops : ∀ x, OpInv2 (s.op x)
  notIdle : ∀ x, x < s.n → (s.op x).pc ≠ .idle

theorem inv2_init (b : Bool) : Inv2 (init b) := by
  refine ⟨fun x => ⟨?_, ?_, ?_⟩, ?_⟩ <;> simp [init, pend, unrep]

attribute [local grind] pend unrep setOp pre early5 isCalling late

set_option hygiene false in
macro "mpi_step2" x:term : tactic => `(tactic| (
  obtain ⟨h1, h2⟩ := hi
  have hpre := fun x => (hj.ops x).preNone
  simp only [step] at h
  repeat' split at h
  all_goals first | (simp at h; done) | skip
  all_goals (
    simp only [Option.some.injEq] at h
    subst h
    refine ⟨?_, ?_⟩ <;> dsimp only [setOp]
    · intro u
      have hx := h1 $x
      have hp := hpre $x
      obtain ⟨i1, i2, i3⟩ := hx
      by_cases hu : u = $x
      · rw [hu]
        simp only [upd_same]
        refine ⟨?_, ?_, ?_⟩ <;> grind
      · simp only [upd_other _ _ _ _ hu]; exact h1 u
    · intro u hu
      by_cases hu' : u = $x
      · rw [hu'] at hu ⊢
        have := h2 $x hu
        simp only [upd_same]
        grind
      · simp only [upd_other _ _ _ _ hu']; exact h2 u hu)))

theorem step_inv2_post (s s' : St) (a x m : Nat) (ok : Bool) (hi : Inv2 s)
    (h : step s (.post a x m ok) = some s') : Inv2 s' := by
  obtain ⟨h1, h2⟩ := hi
  simp only [step] at h
  split at h
  case isFalse => simp at h
  rename_i hg
  obtain ⟨hx, _⟩ := hg
  subst hx
  simp only [Option.some.injEq] at h
  subst h
  refine ⟨?_, ?_⟩ <;> dsimp only
  · intro u
    by_cases hu : u = s.n
    · subst hu
      simp only [upd_same]
      cases ok <;> (refine ⟨?_, ?_, ?_⟩ <;> simp [pend, unrep])
    · simp only [upd_other _ _ _ _ hu]; exact h1 u
  · intro u hu
    by_cases hu' : u = s.n
    · subst hu'
      simp only [upd_same]
      cases ok <;> simp
    · simp only [upd_other _ _ _ _ hu']; exact h2 u (by omega)

theorem step_inv2_glob (s s' : St) (e : Ev) (hn : neutral e = true) (hi : Inv2 s)
    (h : step s e = some s') : Inv2 s' := by
  obtain ⟨h1, h2, _, _⟩ := neutral_op s s' e hn h
  obtain ⟨i1, i2⟩ := hi
  exact ⟨by rw [h1]; exact i1, by rw [h1, h2]; exact i2⟩

theorem step_inv2 (s s' : St) (e : Ev) (hj : Inv s) (hi : Inv2 s) (h : step s e = some s') : Inv2 s' := by
  cases e with
  | post a x m ok => exact step_inv2_post s s' a x m ok hi h
  | eager a x => mpi_step2 x
  | ydone a x => mpi_step2 x
  | sig a x => mpi_step2 x
  | reg a x => mpi_step2 x
  | gacInc a x => mpi_step2 x
  | ifInc a x v => mpi_step2 x
  | enq a x => mpi_step2 x
  | addv a x => mpi_step2 x
  | lock a => exact step_inv2_glob s s' _ rfl hi h
  | unlock a => exact step_inv2_glob s s' _ rfl hi h
  | q2v a x => mpi_step2 x
  | ready a x e => mpi_step2 x
  | deq a x e => mpi_step2 x
  | testany a x e => mpi_step2 x
  | ifDec a x v => mpi_step2 x
  | call a x => mpi_step2 x
  | cb a x e => mpi_step2 x
  | ret a x => mpi_step2 x
  | gacDec a x => mpi_step2 x
  | woke a x => mpi_step2 x
  | rel a x => mpi_step2 x
  | pollOn a b => exact step_inv2_glob s s' _ rfl hi h
  | pollOff a => exact step_inv2_glob s s' _ rfl hi h
  | stopRet a v => exact step_inv2_glob s s' _ rfl hi h
  | waitRet a v k => exact step_inv2_glob s s' _ rfl hi h

structure Inv12 (s : St) : Prop where
  i1 : Inv s
  i2 : Inv2 s

theorem inv12_of_accepted {log : List Ev} {s : St} (h : runLog step (init false) log = some s) : Inv12 s :=
  inv_of_runLog Inv12 (fun s e s' hi hs => ⟨step_inv s s' e hi.i1 hs, step_inv2 s s' e hi.i1 hi.i2 hs⟩)
    ⟨inv_init, inv2_init false⟩ h

/-- pika's own obligatory steps: every event that moves an operation except MPI's reports
    (`eager`, `ydone`, `ready`, `testany`) and the release of owned arguments (`rel`) -/
def pika : Ev → Bool
  | .sig .. | .reg .. | .gacInc .. | .ifInc .. | .enq .. | .addv .. | .q2v .. | .deq .. | .ifDec ..
  | .call .. | .cb .. | .ret .. | .gacDec .. | .woke .. => true
  | _ => false

theorem pika_moves (e : Ev) (h : pika e = true) : moves e = true := by
  cases e <;> simp [pika] at h <;> rfl

/-- nothing left to do for pika: no obligatory step is accepted, neither now nor after a poller
    has taken the poll lock (the lock / unlock rounds that find nothing are the model's stutter) -/
def Maximal (s : St) : Prop :=
  ∀ e, pika e = true → step s e = none ∧ ∀ a s1, step s (.lock a) = some s1 → step s1 e = none

/-- the operation waits for MPI: either its own poll (early poll / `yield_while` loop — or nobody
    has installed the polling function the registration needs) or the pollers' `MPI_Test*` on the
    vector entry -/
def AwaitsMpi (s : St) (o : Op) : Prop :=
  o.okPost = true ∧ o.mpiDone = false ∧ o.sigs = 0 ∧ o.cbs = 0 ∧
  ((o.pc = .posted ∧ o.rs = .none ∧ (o.mode = mYield ∨ s.installed = false)) ∨ (o.pc = .waiting ∧ o.rs = .vec))

/-- the operation is over: receiver signalled once; never registered (no callback) or registered,
    callback invoked once and returned, entry gone -/
def Finished (o : Op) : Prop :=
  o.pc = .done ∧ o.sigs = 1 ∧ ((o.rs = .none ∧ o.cbs = 0) ∨ (o.rs = .gone ∧ o.cbs = 1)) ∧
  (o.okPost = true → o.mpiDone = true)

theorem inFlight_pos (s : St) (hj : Inv s) (x : Nat) (hx : x < s.n) (h : rsIF (s.op x).rs = true) :
    1 ≤ s.inFlight := by
  rw [hj.inflight]
  have := le_sumTo (f := fun x => ifW (s.op x)) hx
  have h1 : 1 ≤ ifW (s.op x) := by simp [ifW, h, b2n]
  omega

theorem final_op (s : St) (hj : Inv s) (hi : Inv2 s) (hm : Maximal s) (x : Nat) (hx : x < s.n) :
    Finished (s.op x) ∨ AwaitsMpi s (s.op x) := by
  have j := hj.ops x
  have i := hi.ops x
  have hni := hi.notIdle x hx
  have hsig := (hm (.sig 0 x) rfl).1
  cases hpc : (s.op x).pc with
  | idle => exact absurd hpc hni
  | errDone => exact absurd hpc j.noErrDone
  | failed => simp [step, hx, hpc] at hsig
  | eagerOk => simp [step, hx, hpc] at hsig
  | yDone => simp [step, hx, hpc] at hsig
  | cbRun => simp [step, hx, hpc] at hsig
  | woken => simp [step, hx, hpc] at hsig
  | reg0 => have := (hm (.gacInc 0 x) rfl).1; simp [step, hx, hpc] at this
  | reg1 => have := (hm (.ifInc 0 x (s.inFlight + 1)) rfl).1; simp [step, hx, hpc] at this
  | reg2 =>
    have h1 := (hm (.enq 0 x) rfl).1
    have h2 := (hm (.addv 0 x) rfl).1
    cases hs : s.stm <;> simp [step, hx, hpc, hs] at h1 h2
  | completed => have := (hm (.woke 0 x) rfl).1; simp [step, hx, hpc] at this
  | posted =>
    right
    have hrs := j.preNone (by rw [hpc]; rfl)
    have hok := i.pendOk (by rw [hpc]; rfl)
    have hnm := i.unrepNot (by simp [unrep, hpc])
    have hs := j.sigs
    have hc := j.cbs
    refine ⟨hok, hnm, by rw [hs, hpc]; rfl, by rw [hc, hrs]; rfl, Or.inl ⟨hpc, hrs, ?_⟩⟩
    have := (hm (.reg 0 x) rfl).1
    simp only [step, hx, hpc, true_and] at this
    by_cases hmode : (s.op x).mode = mYield
    · exact Or.inl hmode
    · right
      cases hinst : s.installed
      · rfl
      · simp [hmode, hinst] at this
  | waiting =>
    have hok := i.pendOk (by rw [hpc]; rfl)
    have hs := j.sigs
    have hc := j.cbs
    cases hrs : (s.op x).rs with
    | none => exact absurd hpc (i.rsNonePc hrs)
    | returned a => rcases j.waitEarly hpc with h | h <;> simp [hrs, early5, isCalling] at h
    | gone => rcases j.waitEarly hpc with h | h <;> simp [hrs, early5, isCalling] at h
    | vec =>
      right
      have hnm := i.unrepNot (by simp [unrep, hrs])
      exact ⟨hok, hnm, by rw [hs, hpc]; rfl, by rw [hc, hrs]; rfl, Or.inr ⟨hpc, hrs⟩⟩
    | queued =>
      exfalso
      cases hl : s.lock with
      | some b =>
        have := (hm (.q2v b x) rfl).1
        simp [step, hx, hrs, hl] at this
      | none =>
        have := (hm (.q2v 0 x) rfl).2 0 { s with lock := some 0 } (by simp [step, hl])
        simp [step, hx, hrs] at this
    | ready e => have := (hm (.deq 0 x e) rfl).1; simp [step, hx, hrs] at this
    | taken a e =>
      exfalso
      have hpos := inFlight_pos s hj x hx (by rw [hrs]; rfl)
      have := (hm (.ifDec a x (s.inFlight - 1)) rfl).1
      have h1 : s.inFlight - 1 + 1 = s.inFlight := by omega
      simp [step, hx, hrs, h1] at this
    | decd a e => have := (hm (.call a x) rfl).1; simp [step, hx, hrs] at this
    | calling a e => have := (hm (.cb a x e) rfl).1; simp [step, hx, hrs, hpc] at this
  | done =>
    left
    have hs := j.sigs
    have hc := j.cbs
    have hdm := j.doneMpi hpc
    refine ⟨hpc, by rw [hs, hpc]; rfl, ?_, hdm⟩
    cases hrs : (s.op x).rs with
    | none => exact Or.inl ⟨rfl, by rw [hc, hrs]; rfl⟩
    | gone => exact Or.inr ⟨rfl, by rw [hc, hrs]; rfl⟩
    | calling a e => have := (hm (.ret a x) rfl).1; simp [step, hx, hrs, hpc] at this
    | returned a => have := (hm (.gacDec a x) rfl).1; simp [step, hx, hrs] at this
    | queued => rcases j.doneRs hpc with h | h <;> simp [hrs, late] at h
    | vec => rcases j.doneRs hpc with h | h <;> simp [hrs, late] at h
    | ready e => rcases j.doneRs hpc with h | h <;> simp [hrs, late] at h
    | taken a e => rcases j.doneRs hpc with h | h <;> simp [hrs, late] at h
    | decd a e => rcases j.doneRs hpc with h | h <;> simp [hrs, late] at h

/-- weights of operations that are finished or wait in the vector -/
theorem ifW_final (s : St) (o : Op) (h : Finished o ∨ AwaitsMpi s o) :
    ifW o = b2n (o.pc == .waiting) ∧ gacW o = b2n (o.pc == .waiting) := by
  rcases h with ⟨h1, _, h3, _⟩ | ⟨_, _, _, _, h5⟩
  · rcases h3 with ⟨h3, _⟩ | ⟨h3, _⟩ <;> simp [ifW, gacW, h1, h3, rsIF, rsGac, b2n]
  · rcases h5 with ⟨h5, h6, _⟩ | ⟨h5, h6⟩ <;> simp [ifW, gacW, h5, h6, rsIF, rsGac, b2n]

/-- a state of measure 0 is maximal (every obligatory step would decrease the measure) -/
theorem maximal_of_mu_zero (s : St) (h0 : mu s = 0) : Maximal s := by
  intro e he
  have hmv := pika_moves e he
  refine ⟨?_, ?_⟩
  · cases hs : step s e with
    | none => rfl
    | some s1 => have := mu_moves s s1 e hmv hs; omega
  · intro a s1 hl
    have hmu := mu_neutral s s1 (.lock a) rfl hl
    cases hs : step s1 e with
    | none => rfl
    | some s2 => have := mu_moves s1 s2 e hmv hs; omega

/-- from any state pika's own steps (plus lock acquisitions) lead to a maximal state within
    `2 * mu s` events -/
theorem exists_maximal (k : Nat) : ∀ s : St, mu s ≤ k →
    ∃ ext s', runLog step s ext = some s' ∧ Maximal s' ∧ ext.length ≤ 2 * mu s ∧
      (∀ e, e ∈ ext → pika e = true ∨ ∃ a, e = .lock a) := by
  induction k with
  | zero =>
    intro s hk
    refine ⟨[], s, rfl, ?_, by simp, by simp⟩
    intro e he
    have hmv := pika_moves e he
    refine ⟨?_, ?_⟩
    · cases hs : step s e with
      | none => rfl
      | some s1 => have := mu_moves s s1 e hmv hs; omega
    · intro a s1 hl
      have hmu := mu_neutral s s1 (.lock a) rfl hl
      cases hs : step s1 e with
      | none => rfl
      | some s2 => have := mu_moves s1 s2 e hmv hs; omega
  | succ k ih =>
    intro s hk
    by_cases hmax : Maximal s
    · exact ⟨[], s, rfl, hmax, by simp, by simp⟩
    · simp only [Maximal] at hmax
      obtain ⟨e, he⟩ := Classical.not_forall.mp hmax
      obtain ⟨hp, hne⟩ := Classical.not_imp.mp he
      have hmv := pika_moves e hp
      by_cases h1 : step s e = none
      · have h2 : ¬ ∀ a s1, step s (.lock a) = some s1 → step s1 e = none := fun hh => hne ⟨h1, hh⟩
        obtain ⟨a, h2⟩ := Classical.not_forall.mp h2
        obtain ⟨s1, h2⟩ := Classical.not_forall.mp h2
        obtain ⟨hl, h3⟩ := Classical.not_imp.mp h2
        have hmu := mu_neutral s s1 (.lock a) rfl hl
        cases hs : step s1 e with
        | none => exact absurd hs h3
        | some s2 =>
          have hlt := mu_moves s1 s2 e hmv hs
          obtain ⟨ext, s', hrun, hmx, hlen, hall⟩ := ih s2 (by omega)
          refine ⟨.lock a :: e :: ext, s', by simp [runLog, hl, hs, hrun], hmx, by simp; omega, ?_⟩
          intro e' he'
          simp only [List.mem_cons] at he'
          rcases he' with rfl | rfl | he'
          · exact Or.inr ⟨a, rfl⟩
          · exact Or.inl hp
          · exact hall e' he'
      · cases hs : step s e with
        | none => exact absurd hs h1
        | some s2 =>
          have hlt := mu_moves s s2 e hmv hs
          obtain ⟨ext, s', hrun, hmx, hlen, hall⟩ := ih s2 (by omega)
          refine ⟨e :: ext, s', by simp [runLog, hs, hrun], hmx, by simp; omega, ?_⟩
          intro e' he'
          simp only [List.mem_cons] at he'
          rcases he' with rfl | he'
          · exact Or.inl hp
          · exact hall e' he'

set_option hygiene false in
macro "nopika" x:term : tactic => `(tactic| (
  simp only [step]
  by_cases hx : $x < s.n
  · rcases h $x hx with ⟨h1, _, h3, _⟩ | ⟨_, _, _, _, h5⟩
    · rcases h3 with ⟨h3, _⟩ | ⟨h3, _⟩ <;> simp [h1, h3, hx]
    · rcases h5 with ⟨h5, h6, h7⟩ | ⟨h5, h6⟩
      · rcases h7 with h7 | h7 <;> simp [h5, h6, h7, hx]
      · simp [h5, h6, hx]
  · simp [hx]))

theorem no_pika_step (s : St) (h : ∀ x, x < s.n → Finished (s.op x) ∨ AwaitsMpi s (s.op x))
    (e : Ev) (he : pika e = true) : step s e = none := by
  cases e with
  | sig a x => nopika x
  | reg a x => nopika x
  | gacInc a x => nopika x
  | ifInc a x v => nopika x
  | enq a x => nopika x
  | addv a x => nopika x
  | q2v a x => nopika x
  | deq a x e => nopika x
  | ifDec a x v => nopika x
  | call a x => nopika x
  | cb a x e => nopika x
  | ret a x => nopika x
  | gacDec a x => nopika x
  | woke a x => nopika x
  | _ => simp [pika] at he

/-- converse of `final_op`: a state all of whose operations are finished or wait for MPI is maximal -/
theorem maximal_of_final (s : St) (h : ∀ x, x < s.n → Finished (s.op x) ∨ AwaitsMpi s (s.op x)) :
    Maximal s := by
  intro e he
  refine ⟨no_pika_step s h e he, ?_⟩
  intro a s1 hl
  obtain ⟨h1, h2, _, _⟩ := neutral_op s s1 (.lock a) rfl hl
  have hinst : s1.installed = s.installed := by
    simp only [step] at hl
    split at hl <;> simp at hl
    subst hl; rfl
  apply no_pika_step s1 _ e he
  intro x hx
  rw [h2] at hx
  rw [h1]
  rcases h x hx with hf | hw
  · exact Or.inl hf
  · right
    simp only [AwaitsMpi, hinst] at hw ⊢
    exact hw

end PikaVerif.Mpi
