import PikaVerif.Lemmas.Place
/-! The static-hint invariant of the placement model (C10). -/
namespace PikaVerif.Place
open PikaVerif

attribute [local grind] taskFree storedPrio classOf idxOf isHighPrio PinnedP

theorem place_idx {P : Pool} (hP : PinnedP P) {prio mode : Nat} {v : Int} {idx h : Nat}
    (hok : okIdx P mode v idx = true) (hmode : mode = 1) (hv : v = (h : Int)) (hm : h % P.n = h)
    (hprio : P.prioQ = true → prio = pNormal ∨ prio = pBoost) :
    idxOf P (classOf P.prioQ prio) idx = h ∧ classOf P.prioQ prio ≠ cLow := by
  obtain ⟨_, hst, hel, _, hnhp⟩ := hP
  have hi := (okIdx_spec hok).2 hel (h % P.n) (by subst hmode; subst hv; exact pick_nat _ _)
  rw [hm] at hi
  subst hi
  cases hq : P.prioQ with
  | false => simp [classOf, idxOf]
  | true =>
    have := hnhp hq
    rcases hprio hq with hp | hp <;> subst hp <;>
      simp [classOf, idxOf, isHighPrio, pNormal, pBoost, pHighRec, pHigh, pLow, cHigh, cLow, cNormal, this, hm]

theorem core_inv4_sched (s s' : St) (a o p idx mode v prio allow q) (hi1 : Inv1 s) (hi : Inv4 s)
    (h : core s (.sched a o p idx mode v prio allow q) = some s') : Inv4 s' := by
  obtain ⟨g1, g2, g3, g4, g5, g6, g7⟩ := hi1
  obtain ⟨h1, h2, h3, h4⟩ := hi
  simp only [core] at h
  split at h
  · rename_i hg
    obtain ⟨hlive, hloc, hph, hkn, hopq, hok, hq⟩ := hg
    split at h
    · -- scheduling loop re-queue
      split at h
      · rename_i hg2
        obtain ⟨hhold, hwork, hhp, hmode, hv, hprio⟩ := hg2
        simp only [Option.some.injEq] at h
        subst h
        have hsched : (s.task o).hpool = (s.task o).sched := g3 o hlive (by simp [hhold])
        constructor
        · exact h1
        · intro o' h' hl hP hpr hstr hpin hlo
          by_cases ho : o' = o
          · subst ho
            simp only [upd_same] at hl hP hpr hstr hpin hlo ⊢
            have hh : (s.task o').hidx = h' := h3 o' h' hlive hP hpr hstr hpin (by simp [hhold])
            rw [← hhp, hsched]
            exact place_idx hP (by rw [← hsched, hhp]; exact hok) hmode (by rw [hv, hh]) (pin_mod hpin) (fun _ => hprio)
          · simp only [upd_other _ _ _ _ ho] at hl hP hpr hstr hpin hlo ⊢
            exact h2 o' h' hl hP hpr hstr hpin hlo
        · intro o' h' hl hP hpr hstr hpin hho
          by_cases ho : o' = o
          · subst ho
            simp only [upd_same] at hho
            simp at hho
          · simp only [upd_other _ _ _ _ ho] at hl hP hpr hstr hpin hho ⊢
            exact h3 o' h' hl hP hpr hstr hpin hho
        · intro o' h' v' hl hP hpr hstr hpin hmem
          by_cases ho : o' = o
          · subst ho
            simp only [upd_same] at hl hP hpr hstr hpin hmem
            exact h4 o' h' v' hlive hP hpr hstr hpin hmem
          · simp only [upd_other _ _ _ _ ho] at hl hP hpr hstr hpin hmem
            exact h4 o' h' v' hl hP hpr hstr hpin hmem
      · simp at h
    · -- set_thread_state re-queue
      split at h
      · rename_i hg2
        obtain ⟨hhold, hp, hprio, hhint, hlw⟩ := hg2
        simp only [Option.some.injEq] at h
        subst h
        constructor
        · exact h1
        · intro o' h' hl hP hpr hstr hpin hlo
          by_cases ho : o' = o
          · subst ho
            simp only [upd_same] at hl hP hpr hstr hpin hlo ⊢
            simp only [Bool.or_eq_false_iff, Bool.not_eq_eq_eq_not, Bool.not_false, Bool.and_eq_true,
              decide_eq_true_eq] at hstr
            obtain ⟨hs0, hm1, hvn⟩ := hstr
            have hvh : v = (h' : Int) := by
              rcases h4 o' h' v hlive hP hpr hs0 hpin (hlw hm1) with hx | hx
              · exact absurd hx hvn
              · exact hx
            subst hp
            have hpr' : (s.pool (s.task o').sched).prioQ = true → prio = pNormal ∨ prio = pBoost := by
              intro hq2; left; rw [hprio hq2]; exact hpr
            exact place_idx hP hok hm1 hvh (pin_mod hpin) hpr'
          · simp only [upd_other _ _ _ _ ho] at hl hP hpr hstr hpin hlo ⊢
            exact h2 o' h' hl hP hpr hstr hpin hlo
        · intro o' h' hl hP hpr hstr hpin hho
          by_cases ho : o' = o
          · subst ho
            simp only [upd_same] at hho
            simp [hhold] at hho
          · simp only [upd_other _ _ _ _ ho] at hl hP hpr hstr hpin hho ⊢
            exact h3 o' h' hl hP hpr hstr hpin hho
        · intro o' h' v' hl hP hpr hstr hpin hmem
          by_cases ho : o' = o
          · subst ho
            simp only [upd_same] at hl hP hpr hstr hpin hmem
            simp only [Bool.or_eq_false_iff] at hstr
            exact h4 o' h' v' hlive hP hpr hstr.1 hpin hmem
          · simp only [upd_other _ _ _ _ ho] at hl hP hpr hstr hpin hmem
            exact h4 o' h' v' hl hP hpr hstr hpin hmem
      · simp at h
  · simp at h

set_option hygiene false in
macro "place_core4" : tactic => `(tactic| (
  simp only [core] at h
  repeat' split at h
  all_goals first | (simp at h; done) | skip
  all_goals (
    simp only [Option.some.injEq] at h
    subst h
    constructor <;> (try dsimp only) <;> intros <;> grind [upd, Nat.mod_mod, → okIdx_spec, → pin_pick, pin_none, → pin_mod, pick_nat, → pick_mode])))

set_option maxHeartbeats 1000000 in
theorem core_inv4 (s s' : St) (e : Ev) (hi1 : Inv1 s) (hi : Inv4 s) (h : core s e = some s') : Inv4 s' := by
  obtain ⟨g1, g2, g3, g4, g5, g6, g7⟩ := hi1
  obtain ⟨h1, h2, h3, h4⟩ := hi
  cases e with
  | poolCfg a p n nhp pq st el op => place_core4
  | queueReg a q p cls idx n nhp => place_core4
  | worker a p w => place_core4
  | create a e p idx mode v prio q => place_core4
  | createNow a o p idx mode v prio q bp bprio => place_core4
  | convert a e o qd qs bp bprio => place_core4
  | bindOnly a o bp bprio => place_core4
  | sched a o p idx mode v prio allow q =>
    exact core_inv4_sched s s' a o p idx mode v prio allow q ⟨g1, g2, g3, g4, g5, g6, g7⟩ ⟨h1, h2, h3, h4⟩ h
  | pop a o q => place_core4
  | phaseBegin a o w => place_core4
  | phaseEnd a o r => place_core4
  | lwStore a o v => place_core4
  | stsHint a o mode v => place_core4
  | start a k p => place_core4
  | started a k => place_core4
  | run a o k => place_core4
  | runStd a k => place_core4
  | obs a o p w => place_core4


theorem mark_inv4 (s : St) (a : Nat) (hi : Inv4 s) : Inv4 (mark s a) := by
  obtain ⟨h1, h2, h3, h4⟩ := hi
  exact ⟨h1, h2, h3, h4⟩

theorem step_inv4 (s s' : St) (e : Ev) (hi1 : Inv1 s) (hi : Inv4 s) (h : step s e = some s') : Inv4 s' := by
  simp only [step] at h
  split at h
  · rename_i s1 hc
    simp only [Option.some.injEq] at h
    subst h
    exact mark_inv4 _ _ (core_inv4 s s1 e hi1 hi hc)
  · simp at h

/-- all invariants together -/
structure Inv (s : St) : Prop where
  i1 : Inv1 s
  i2 : Inv2 s
  i3 : Inv3 s
  i4 : Inv4 s

theorem inv_init : Inv init := ⟨inv1_init, inv2_init, inv3_init, inv4_init⟩

theorem step_inv (s s' : St) (e : Ev) (hi : Inv s) (h : step s e = some s') : Inv s' :=
  ⟨step_inv1 s s' e hi.i1 h, step_inv2 s s' e hi.i2 h, step_inv3 s s' e hi.i3 h, step_inv4 s s' e hi.i1 hi.i4 h⟩

theorem inv_of_accepted {log : List Ev} {s : St} (h : runLog step init log = some s) : Inv s :=
  inv_of_runLog Inv (fun s e s' => step_inv s s' e) inv_init h

end PikaVerif.Place
