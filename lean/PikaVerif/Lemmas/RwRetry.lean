import PikaVerif.Lemmas.RwMax
/-!
Real CAS retries are bounded (follow-up C04r).

A CAS retry is *real* when the head has moved since the retrying thread's last observation
(`h0 ≠ q.length`, in fact `h0 < q.length`: invariant `LoadedLe`), *spurious* otherwise (the weak
CAS failed although the expected value was current; the state does not change).  Potential
`psi N s` = Σ over the accesses inside the CAS loop of the number of pushes they have not observed
yet (`lag`) + `N` for every access that has not left the CAS loop yet.  A successful push makes
every other thread inside the loop of that shared state lag by one more (≤ `na - 1 < N` in total)
and takes its own `N` away; a real retry resets the lag of the retrying thread, which was positive.
Hence: (real retries in a log) ≤ `N · (requests)` whenever `na ≤ N`.
-/
namespace PikaVerif.Rw
open PikaVerif PikaVerif.C04

/-! ## sums -/

theorem sumTo_mono {n : Nat} {f f' : Nat → Nat} (h : ∀ b, b < n → f' b ≤ f b) : sumTo n f' ≤ sumTo n f := by
  induction n with
  | zero => simp
  | succ k ih =>
    simp only [sumTo_succ]
    have := ih (fun b hb => h b (by omega))
    have := h k (by omega)
    omega

theorem sumTo_le_add1 {n : Nat} {f f' : Nat → Nat} (h : ∀ b, b < n → f' b ≤ f b + 1) :
    sumTo n f' ≤ sumTo n f + n := by
  induction n with
  | zero => simp
  | succ k ih =>
    simp only [sumTo_succ]
    have := ih (fun b hb => h b (by omega))
    have := h k (by omega)
    omega

theorem sumTo_single {n : Nat} {f f' : Nat → Nat} {a : Nat} (ha : a < n)
    (h : ∀ b, b < n → b ≠ a → f' b = f b) : sumTo n f' + f a = sumTo n f + f' a := by
  induction n with
  | zero => omega
  | succ k ih =>
    simp only [sumTo_succ]
    by_cases e : a = k
    · subst e
      have : sumTo a f' = sumTo a f := sumTo_congr (fun b hb => h b (by omega) (by omega))
      omega
    · have := ih (by omega) (fun b hb hne => h b (by omega) hne)
      have := h k (by omega) (fun x => e x.symm)
      omega

theorem sumTo_push {n : Nat} {f f' : Nat → Nat} {a : Nat} (ha : a < n)
    (h : ∀ b, b < n → b ≠ a → f' b ≤ f b + 1) (h0 : f' a = 0) : sumTo n f' + 1 ≤ sumTo n f + n := by
  induction n with
  | zero => omega
  | succ k ih =>
    simp only [sumTo_succ]
    by_cases e : a = k
    · subst e
      have := sumTo_le_add1 (f := f) (f' := f') (n := a) (fun b hb => h b (by omega) (by omega))
      omega
    · have := ih (by omega) (fun b hb hne => h b (by omega) hne)
      have := h k (by omega) (fun x => e x.symm)
      omega

/-! ## definitions -/

/-- inside the CAS loop with the queue still open: pushes not yet observed -/
def lag (s : St) (a : Nat) : Nat :=
  match s.acc a, s.head (s.grp a) with
  | .loaded _ _ h, some q => q.length - h
  | _, _ => 0

/-- has not left `add_op_state` yet (may still execute a CAS) -/
def prePush : Acc → Nat
  | .sender => 1
  | .starting _ _ => 1
  | .loaded _ _ _ => 1
  | _ => 0

def psi (N : Nat) (s : St) : Nat :=
  sumTo s.na (lag s) + N * sumTo s.na (fun a => prePush (s.acc a))

/-- the expected value of a thread inside the CAS loop is never ahead of the queue -/
def LoadedLe (s : St) : Prop :=
  ∀ a t det h q, s.acc a = .loaded t det h → s.head (s.grp a) = some q → h ≤ q.length

/-- what an accepted event does to the fields the CAS loop depends on -/
inductive Shape (s s' : St) : Prop
  | same (h1 : s'.acc = s.acc) (h2 : s'.head = s.head) (h3 : s'.grp = s.grp) (h4 : s'.na = s.na)
  | acc (a : Nat) (v : Acc) (ha : a < s.na) (h1 : s'.acc = upd s.acc a v) (h2 : s'.head = s.head)
      (h3 : s'.grp = s.grp) (h4 : s'.na = s.na) (hv : prePush v ≤ prePush (s.acc a))
      (hl : ∀ t d h, v = .loaded t d h → ∃ q, s.head (s.grp a) = some q ∧ h = q.length)
  | push (a t : Nat) (det : Bool) (q : List Nat) (ha : a < s.na) (hx : s.acc a = .loaded t det q.length)
      (hh : s.head (s.grp a) = some q) (h1 : s'.acc = upd s.acc a (.queued det))
      (h2 : s'.head = upd s.head (s.grp a) (some (a :: q))) (h3 : s'.grp = s.grp) (h4 : s'.na = s.na)
  | close (g : Nat) (h1 : s'.acc = s.acc) (h2 : s'.head = upd s.head g none) (h3 : s'.grp = s.grp)
      (h4 : s'.na = s.na)
  | newReq (h1 : s'.acc = upd s.acc s.na .sender) (h4 : s'.na = s.na + 1)
      (h3 : ∀ b, b < s.na → s'.grp b = s.grp b)
      (h2 : ∀ b, b < s.na → s'.head (s.grp b) = s.head (s.grp b))

theorem grant_fields (s : St) (t a : Nat) (det : Bool) :
    (grant s t a det).acc = upd s.acc a (if det then .released else .granted 0) ∧
    (grant s t a det).head = s.head ∧ (grant s t a det).grp = s.grp ∧ (grant s t a det).na = s.na := by
  cases det with
  | false => exact ⟨rfl, rfl, rfl, rfl⟩
  | true =>
    obtain ⟨h1, h2, _, _, _, h6, h7⟩ := decRc_fields
      { s with grants := upd s.grants a (s.grants a + 1), acc := upd s.acc a .released } t (s.grp a)
    exact ⟨h1, h6, h7, h2⟩

theorem shape_grant (s : St) (t a : Nat) (det : Bool) (ha : a < s.na) : Shape s (grant s t a det) := by
  obtain ⟨h1, h2, h3, h4⟩ := grant_fields s t a det
  refine .acc a _ ha h1 h2 h3 h4 ?_ ?_
  · cases det <;> simp [prePush]
  · intro t d h hv; cases det <;> simp at hv

theorem shape_decRc (s s0 : St) (t g : Nat) (hs : Shape s s0) : Shape s (decRc s0 t g) := by
  obtain ⟨h1, h2, _, _, _, h6, h7⟩ := decRc_fields s0 t g
  cases hs with
  | same a1 a2 a3 a4 => exact .same (h1.trans a1) (h6.trans a2) (h7.trans a3) (h2.trans a4)
  | acc a v ha a1 a2 a3 a4 hv hl => exact .acc a v ha (h1.trans a1) (h6.trans a2) (h7.trans a3) (h2.trans a4) hv hl
  | push a t det q ha hx hh a1 a2 a3 a4 =>
    exact .push a t det q ha hx hh (h1.trans a1) (h6.trans a2) (h7.trans a3) (h2.trans a4)
  | close g a1 a2 a3 a4 => exact .close g (h1.trans a1) (h6.trans a2) (h7.trans a3) (h2.trans a4)
  | newReq a1 a4 a3 a2 =>
    exact .newReq (h1.trans a1) (h2.trans a4) (fun b hb => by rw [h7]; exact a3 b hb)
      (fun b hb => by rw [h6]; exact a2 b hb)

theorem step_shape (s s' : St) (e : Ev) (hi : Inv s) (h : step s e = some s') : Shape s s' := by
  cases e with
  | req t a w newg died =>
    simp only [step] at h
    split at h
    · rename_i hc
      obtain ⟨_, ha⟩ := hc; subst ha
      split at h
      · split at h
        · simp only [Option.some.injEq] at h; subst h
          have hb : Shape s
              { s with ng := s.ng + 1, rw := upd s.rw s.ng w, head := upd s.head s.ng (some []),
                       dn := upd s.dn s.ng (if s.ng = 0 then .pend t else .idle),
                       rc := upd s.rc s.ng (if s.ng = 0 then 2 else 3), dead := upd s.dead s.ng false,
                       first := upd s.first s.ng s.na, lastRw := w,
                       na := s.na + 1, grp := upd s.grp s.na s.ng, acc := upd s.acc s.na .sender } := by
            refine .newReq rfl rfl ?_ ?_
            · intro b hb
              have : b ≠ s.na := by omega
              simp [upd, this]
            · intro b hb
              have := hi.grpLt b hb
              have : s.grp b ≠ s.ng := by omega
              simp [upd, this]
          split
          · exact shape_decRc _ _ _ _ hb
          · exact hb
        · simp at h
      · split at h
        · simp only [Option.some.injEq] at h; subst h
          refine .newReq rfl rfl ?_ ?_
          · intro b hb
            have : b ≠ s.na := by omega
            simp [upd, this]
          · intro b hb; rfl
        · simp at h
    · simp at h
  | destroy t died =>
    simp only [step] at h
    split at h
    · split at h
      · split at h
        · simp only [Option.some.injEq] at h; subst h
          exact shape_decRc _ _ _ _ (.same rfl rfl rfl rfl)
        · simp at h
      · split at h
        · simp only [Option.some.injEq] at h; subst h
          exact .same rfl rfl rfl rfl
        · simp at h
    · simp at h
  | start t a det =>
    simp only [step] at h
    split at h
    · rename_i hx
      simp only [Option.some.injEq] at h; subst h
      have ha : a < s.na := lt_of_acc hi (by rw [hx]; simp)
      refine .acc a (.starting t det) ha rfl rfl rfl rfl (by rw [hx]; simp [prePush]) ?_
      intro t d h hv; simp at hv
    · simp at h
  | load t a cls ack died =>
    simp only [step] at h
    split at h
    · rename_i t' det hx
      have ha : a < s.na := lt_of_acc hi (by rw [hx]; simp)
      split at h
      · split at h
        · rename_i q hh
          split at h
          · simp only [Option.some.injEq] at h; subst h
            refine .acc a (.loaded t det q.length) ha rfl rfl rfl rfl (by rw [hx]; simp [prePush]) ?_
            intro t d h hv
            simp only [Acc.loaded.injEq] at hv
            exact ⟨q, hh, hv.2.2.symm⟩
          · simp at h
        · split at h
          · simp only [Option.some.injEq] at h; subst h
            exact shape_grant s t a det ha
          · simp at h
      · simp at h
    · simp at h
  | cas t a ok cls ack died =>
    simp only [step] at h
    split at h
    · rename_i t' det h0 hx
      have ha : a < s.na := lt_of_acc hi (by rw [hx]; simp)
      split at h
      · rename_i ht; subst ht
        split at h
        · rename_i q hh
          split at h
          · split at h
            · rename_i hc
              simp only [Option.some.injEq] at h; subst h
              obtain ⟨hlen, _, _⟩ := hc
              subst hlen
              exact .push a t' det q ha hx hh rfl rfl rfl rfl
            · simp at h
          · split at h
            · simp only [Option.some.injEq] at h; subst h
              refine .acc a (.loaded t' det q.length) ha rfl rfl rfl rfl (by rw [hx]; simp [prePush]) ?_
              intro t d h hv
              simp only [Acc.loaded.injEq] at hv
              exact ⟨q, hh, hv.2.2.symm⟩
            · simp at h
        · split at h
          · simp only [Option.some.injEq] at h; subst h
            exact shape_grant s t' a det ha
          · simp at h
      · simp at h
    · simp at h
  | xchg t g cls =>
    simp only [step] at h
    split at h
    · split at h
      · simp only [Option.some.injEq] at h; subst h
        exact .close g rfl rfl rfl rfl
      · simp at h
    · simp at h
  | cont t g ack died =>
    simp only [step] at h
    split at h
    · rename_i t' a rest hd
      split at h
      · rename_i det hx
        have ha : a < s.na := lt_of_acc hi (by rw [hx]; simp)
        split at h
        · simp only [Option.some.injEq] at h; subst h
          obtain ⟨h1, h2, h3, h4⟩ := grant_fields { s with dn := upd s.dn g (.drain t rest) } t a det
          refine .acc a _ ha h1 h2 h3 h4 ?_ ?_
          · cases det <;> simp [prePush]
          · intro t d h hv; cases det <;> simp at hv
        · simp at h
      · simp at h
    · simp at h
  | copy t a =>
    simp only [step] at h
    split at h
    · rename_i c hx
      have ha : a < s.na := lt_of_acc hi (by rw [hx]; simp)
      split at h
      · simp only [Option.some.injEq] at h; subst h
        refine .acc a (.granted (c + 1)) ha rfl rfl rfl rfl (by simp [prePush]) ?_
        intro t d h hv; simp at hv
      · simp at h
    · simp at h
  | rel t a died =>
    simp only [step] at h
    split at h
    · rename_i c hx
      have ha : a < s.na := lt_of_acc hi (by rw [hx]; simp)
      split at h
      · simp only [Option.some.injEq] at h; subst h
        apply shape_decRc
        refine .acc a (relAcc c) ha rfl rfl rfl rfl (by cases c <;> simp [relAcc, prePush]) ?_
        intro t d h hv; cases c <;> simp [relAcc] at hv
      · simp at h
    · simp at h
  | write t a v =>
    simp only [step] at h
    split at h
    · split at h
      · simp only [Option.some.injEq] at h; subst h; exact .same rfl rfl rfl rfl
      · simp at h
    · simp at h
  | readv t a v =>
    simp only [step] at h
    split at h
    · split at h
      · simp only [Option.some.injEq] at h; subst h; exact .same rfl rfl rfl rfl
      · simp at h
    · simp at h
  | vfree t =>
    simp only [step] at h
    split at h
    · simp only [Option.some.injEq] at h; subst h; exact .same rfl rfl rfl rfl
    · simp at h

/-! ## the invariant `LoadedLe` -/

theorem loadedLe_init : LoadedLe init := by
  intro a t det h q hx; simp [init] at hx

theorem loadedLe_shape (s s' : St) (hi : Inv s) (hl : LoadedLe s) (hs : Shape s s') : LoadedLe s' := by
  cases hs with
  | same h1 h2 h3 h4 =>
    intro a t det h q hx hh
    rw [h1] at hx; rw [h2, h3] at hh
    exact hl a t det h q hx hh
  | acc a v ha h1 h2 h3 h4 hv hlv =>
    intro b t det h q hx hh
    rw [h1] at hx; rw [h2, h3] at hh
    by_cases e : b = a
    · subst e
      simp only [upd_same] at hx
      obtain ⟨q', hq', he⟩ := hlv t det h hx
      rw [hq'] at hh; simp only [Option.some.injEq] at hh; subst hh; omega
    · rw [upd_other _ _ _ _ e] at hx
      exact hl b t det h q hx hh
  | push a t0 det0 q0 ha hx0 hh0 h1 h2 h3 h4 =>
    intro b t det h q hx hh
    rw [h1] at hx; rw [h2, h3] at hh
    by_cases e : b = a
    · subst e; simp at hx
    · rw [upd_other _ _ _ _ e] at hx
      by_cases eg : s.grp b = s.grp a
      · rw [eg, upd_same] at hh
        simp only [Option.some.injEq] at hh; subst hh
        have := hl b t det h q0 hx (by rw [eg]; exact hh0)
        simp only [List.length_cons]; omega
      · rw [upd_other _ _ _ _ eg] at hh
        exact hl b t det h q hx hh
  | close g h1 h2 h3 h4 =>
    intro b t det h q hx hh
    rw [h1] at hx; rw [h2, h3] at hh
    by_cases eg : s.grp b = g
    · rw [eg, upd_same] at hh; simp at hh
    · rw [upd_other _ _ _ _ eg] at hh
      exact hl b t det h q hx hh
  | newReq h1 h4 h3 h2 =>
    intro b t det h q hx hh
    rw [h1] at hx
    by_cases e : b = s.na
    · subst e; simp at hx
    · rw [upd_other _ _ _ _ e] at hx
      have hb : b < s.na := lt_of_acc hi (by rw [hx]; simp)
      rw [h3 b hb, h2 b hb] at hh
      exact hl b t det h q hx hh

theorem loadedLe_of_accepted {log : List Ev} {s : St} (h : runLog step init log = some s) :
    Inv s ∧ LoadedLe s :=
  inv_of_runLog (fun s => Inv s ∧ LoadedLe s)
    (fun s e s' hi hs => ⟨step_inv s s' e hi.1 hs, loadedLe_shape s s' hi.1 hi.2 (step_shape s s' e hi.1 hs)⟩)
    ⟨inv_init, loadedLe_init⟩ h

/-! ## the potential -/

theorem lag_eq (s s' : St) (b : Nat) (h1 : s'.acc b = s.acc b) (h2 : s'.head (s'.grp b) = s.head (s.grp b)) :
    lag s' b = lag s b := by
  simp only [lag, h1, h2]

theorem lag_zero (s : St) (b : Nat) (h : ∀ t d h, s.acc b ≠ .loaded t d h) : lag s b = 0 := by
  unfold lag
  split
  · rename_i t d h0 q hx _; exact absurd hx (h t d h0)
  · rfl

theorem psi_shape (N : Nat) (s s' : St) (hi : Inv s) (hN : s.na ≤ N) (hs : Shape s s') :
    psi N s' ≤ psi N s + N * (s'.na - s.na) ∧
    (∀ a t det h0 q, s.acc a = .loaded t det h0 → s.head (s.grp a) = some q → h0 < q.length →
       s'.acc = upd s.acc a (.loaded t det q.length) → s'.head = s.head → s'.grp = s.grp → s'.na = s.na →
       psi N s' + 1 ≤ psi N s) := by
  have hretry : ∀ a t det h0 q, s.acc a = .loaded t det h0 → s.head (s.grp a) = some q → h0 < q.length →
       s'.acc = upd s.acc a (.loaded t det q.length) → s'.head = s.head → s'.grp = s.grp → s'.na = s.na →
       psi N s' + 1 ≤ psi N s := by
    intro a t det h0 q hx hh hlt h1 h2 h3 h4
    have ha : a < s.na := lt_of_acc hi (by rw [hx]; simp)
    have hL := sumTo_single (f := lag s) (f' := lag s') ha (fun b _ hne => by
      apply lag_eq
      · rw [h1, upd_other _ _ _ _ hne]
      · rw [h2, h3])
    have hP := sumTo_upd s.na prePush s.acc a (.loaded t det q.length) ha
    have l0 : lag s a = q.length - h0 := by simp only [lag, hx, hh]
    have l1 : lag s' a = 0 := by simp only [lag, h1, h2, h3, upd_same, hh]; omega
    have e1 : prePush (Acc.loaded t det h0) = 1 := rfl
    have e2 : prePush (Acc.loaded t det q.length) = 1 := rfl
    rw [hx, e1, e2] at hP
    simp only [psi, h4, h1]
    have : sumTo s.na (fun u => prePush (upd s.acc a (.loaded t det q.length) u)) = sumTo s.na (fun u => prePush (s.acc u)) := by omega
    rw [this]
    omega
  refine ⟨?_, hretry⟩
  cases hs with
  | same h1 h2 h3 h4 =>
    have hL : sumTo s.na (lag s') = sumTo s.na (lag s) :=
      sumTo_congr (fun b _ => lag_eq s s' b (by rw [h1]) (by rw [h2, h3]))
    simp only [psi, h4, h1, hL]; omega
  | acc a v ha h1 h2 h3 h4 hv hlv =>
    have hL := sumTo_single (f := lag s) (f' := lag s') ha (fun b _ hne => by
      apply lag_eq
      · rw [h1, upd_other _ _ _ _ hne]
      · rw [h2, h3])
    have l1 : lag s' a = 0 := by
      unfold lag
      split
      · rename_i t d h0 q hx hh
        rw [h1, upd_same] at hx
        obtain ⟨q', hq', he⟩ := hlv t d h0 hx
        rw [h2, h3, hq'] at hh; simp only [Option.some.injEq] at hh; subst hh; omega
      · rfl
    have hP := sumTo_upd s.na prePush s.acc a v ha
    have hmul : N * sumTo s.na (fun u => prePush (upd s.acc a v u)) ≤ N * sumTo s.na (fun u => prePush (s.acc u)) :=
      Nat.mul_le_mul_left N (by omega)
    simp only [psi, h4, h1]
    omega
  | push a t det q ha hx hh h1 h2 h3 h4 =>
    have hL := sumTo_push (f := lag s) (f' := lag s') ha (fun b _ hne => by
      unfold lag
      rw [h1, h2, h3, upd_other _ _ _ _ hne]
      by_cases eg : s.grp b = s.grp a
      · rw [eg, upd_same, hh]
        cases s.acc b <;> simp <;> omega
      · rw [upd_other _ _ _ _ eg]; omega)
      (lag_zero s' a (by intro t d h; rw [h1, upd_same]; simp))
    have hP := sumTo_upd s.na prePush s.acc a (.queued det) ha
    have e1 : prePush (Acc.loaded t det q.length) = 1 := rfl
    have e2 : prePush (Acc.queued det) = 0 := rfl
    rw [hx, e1, e2] at hP
    have hmul : N * sumTo s.na (fun u => prePush (s.acc u)) =
        N * sumTo s.na (fun u => prePush (upd s.acc a (.queued det) u)) + N := by
      have : sumTo s.na (fun u => prePush (s.acc u)) = sumTo s.na (fun u => prePush (upd s.acc a (.queued det) u)) + 1 := by omega
      rw [this, Nat.mul_succ]
    simp only [psi, h4, h1]
    omega
  | close g h1 h2 h3 h4 =>
    have hL : sumTo s.na (lag s') ≤ sumTo s.na (lag s) := sumTo_mono (fun b _ => by
      unfold lag
      rw [h1, h2, h3]
      by_cases eg : s.grp b = g
      · rw [eg, upd_same]; cases s.acc b <;> simp
      · rw [upd_other _ _ _ _ eg]; omega)
    simp only [psi, h4, h1]; omega
  | newReq h1 h4 h3 h2 =>
    have hL : sumTo s.na (lag s') = sumTo s.na (lag s) := sumTo_congr (fun b hb => by
      have hne : b ≠ s.na := by omega
      apply lag_eq
      · rw [h1, upd_other _ _ _ _ hne]
      · rw [h3 b hb, h2 b hb])
    have l1 : lag s' s.na = 0 := lag_zero s' s.na (by intro t d h; rw [h1, upd_same]; simp)
    have hP := sumTo_upd_ge s.na prePush s.acc s.na .sender (Nat.le_refl _)
    have e1 : s.na + 1 - s.na = 1 := by omega
    have e2 : prePush Acc.sender = 1 := rfl
    simp only [psi, h4, h1, sumTo_succ, upd_same, hL, l1, hP, e2, e1, Nat.mul_add, Nat.mul_one]
    omega

/-! ## counting real retries along a run -/

/-- a CAS retry whose expected value is stale: the head has moved since the last observation -/
def isReal (s : St) : Ev → Bool
  | .cas _ a false cls _ _ =>
    cls != 2 && (match s.acc a, s.head (s.grp a) with
                 | .loaded _ _ h, some q => h != q.length
                 | _, _ => false)
  | _ => false

theorem isReal_isRetry (s : St) (e : Ev) (h : isReal s e = true) : isRetry e = true := by
  cases e with
  | cas t a ok cls ack died =>
    cases ok with
    | true => simp [isReal] at h
    | false => simp only [isReal, Bool.and_eq_true] at h; simpa [isRetry] using h.1
  | _ => simp [isReal] at h

/-- number of real retries in a run from `s` -/
def reals : St → List Ev → Nat
  | _, [] => 0
  | s, e :: es => (if isReal s e then 1 else 0) +
      (match step s e with
       | some s' => reals s' es
       | none => 0)

def reqCount : List Ev → Nat
  | [] => 0
  | e :: es => reqN e + reqCount es

theorem reals_le_retries (log : List Ev) : ∀ s, reals s log ≤ retries log := by
  induction log with
  | nil => intro s; simp [reals, retries]
  | cons e es ih =>
    intro s
    simp only [reals, retries]
    have h1 : (if isReal s e = true then 1 else 0) ≤ (if isRetry e = true then 1 else 0) := by
      by_cases hr : isReal s e = true
      · simp [hr, isReal_isRetry s e hr]
      · simp [hr]
    cases hs : step s e with
    | none => simp; omega
    | some s1 => have := ih s1; simp only []; omega

theorem psi_step (N : Nat) (s s' : St) (e : Ev) (hi : Inv s) (hl : LoadedLe s) (hN : s.na ≤ N)
    (h : step s e = some s') :
    psi N s' + (if isReal s e then 1 else 0) ≤ psi N s + N * reqN e := by
  obtain ⟨h1, h2⟩ := psi_shape N s s' hi hN (step_shape s s' e hi h)
  have hna := step_na s s' e h
  have e1 : s'.na - s.na = reqN e := by omega
  rw [e1] at h1
  by_cases hr : isReal s e = true
  · obtain ⟨t, a, cls, ack, died, hE, hc⟩ := isRetry_shape e (isReal_isRetry s e hr)
    subst hE
    obtain ⟨det, h0, q, hx, hh, hs⟩ := retry_shape s s' t a cls ack died hc h
    have hne : h0 ≠ q.length := by
      simp only [isReal, hx, hh, Bool.and_eq_true] at hr
      simpa using hr.2
    have hle := hl a t det h0 q hx hh
    have := h2 a t det h0 q hx hh (by omega) (by rw [hs]) (by rw [hs]) (by rw [hs]) (by rw [hs])
    simp only [hr, if_true]
    omega
  · simp only [hr]; simpa using h1

theorem runLog_na_le (log : List Ev) : ∀ (s s' : St), runLog step s log = some s' →
    s'.na = s.na + reqCount log := by
  induction log with
  | nil => intro s s' h; simp at h; subst h; simp [reqCount]
  | cons e es ih =>
    intro s s' h
    simp only [runLog] at h
    cases hs : step s e with
    | none => simp [hs] at h
    | some s1 =>
      simp only [hs] at h
      have := ih s1 s' h
      have := step_na s s1 e hs
      simp only [reqCount]; omega

theorem runLog_psi (N : Nat) (log : List Ev) : ∀ (s s' : St), Inv s → LoadedLe s → runLog step s log = some s' →
    s'.na ≤ N → psi N s' + reals s log ≤ psi N s + N * reqCount log := by
  induction log with
  | nil => intro s s' _ _ h _; simp at h; subst h; simp [reals, reqCount]
  | cons e es ih =>
    intro s s' hi hl h hN
    simp only [runLog] at h
    cases hs : step s e with
    | none => simp [hs] at h
    | some s1 =>
      simp only [hs] at h
      have hle := runLog_na_le es s1 s' h
      have hna := step_na s s1 e hs
      have h1 := psi_step N s s1 e hi hl (by omega) hs
      have h2 := ih s1 s' (step_inv s s1 e hi hs) (loadedLe_shape s s1 hi hl (step_shape s s1 e hi hs)) h hN
      simp only [reals, hs, reqCount, Nat.mul_add]
      omega

theorem psi_init (N : Nat) : psi N init = 0 := by simp [psi, init]

/-- real retries in an accepted log ≤ (number of requests)² -/
theorem reals_bound (log : List Ev) (s : St) (h : runLog step init log = some s) :
    reals init log ≤ s.na * s.na := by
  have h1 := runLog_psi s.na log init s inv_init loadedLe_init h (Nat.le_refl _)
  have h2 := runLog_na_le log init s h
  rw [psi_init] at h1
  have : reqCount log = s.na := by simp [init] at h2; omega
  rw [this] at h1
  omega

end PikaVerif.Rw
