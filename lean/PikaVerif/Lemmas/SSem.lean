import PikaVerif.Model.SSem
/-! Invariants of the sliding semaphore model: structural part. -/
namespace PikaVerif.SSem
open PikaVerif

def holds : Pc → Bool
  | .locked _ _ _ | .lockedSig _ | .enq _ | .relk _ _ | .passed | .refused
  | .sigL _ _ | .sigRes _ _ _ | .sigFin => true
  | _ => false

def inQ : Pc → Bool
  | .enq _ => true
  | .unl _ p | .susp _ p | .wokeNL _ p | .relk _ p => !p
  | _ => false

/-- upper limit a queued waiter is waiting for -/
def ubound : Pc → Option Int
  | .enq u | .unl u _ | .susp u _ | .wokeNL u _ | .relk u _ => some u
  | _ => none

/-- notifications a signaller will still issue -/
def weight : Pc → Nat
  | .sigL i n => n - i
  | .sigRes i n _ => n - i - 1
  | .sigNL i n => n - i
  | _ => 0

def budget (s : St) : Nat := sumTo s.n (fun t => weight (s.pc t))

structure Inv1 (s : St) : Prop where
  lockHolder : ∀ t, holds (s.pc t) = true → s.lock = some t
  outside : ∀ t, s.n ≤ t → s.pc t = .idle
  qIff : ∀ t, t ∈ s.queue ↔ inQ (s.pc t) = true
  qNodup : s.queue.Nodup
  noneEmpty : ∀ t i n, s.pc t = .sigRes i n false → s.queue = []
  wake : ∀ t u, (s.pc t = .unl u true ∨ s.pc t = .susp u true) → 0 < s.tok t
  sigLt : ∀ t i n, s.pc t = .sigL i n → i < n

theorem inv1_init (n : Nat) (d l : Int) : Inv1 (init n d l) := by
  refine ⟨?_, ?_, ?_, ?_, ?_, ?_, ?_⟩ <;> simp [init, holds, inQ]

attribute [local grind] holds inQ setPopped

set_option hygiene false in
macro "ss_step" : tactic => `(tactic| (
  simp only [step] at h
  obtain ⟨h1,h2,h3,h4,h5,h6,h7⟩ := hi
  split at h
  case isFalse => simp at h
  rename_i hg
  repeat' split at h
  all_goals first | (simp at h; done) | skip
  all_goals (
    simp only [Option.some.injEq] at h
    subst h
    refine ⟨?_, ?_, ?_, ?_, ?_, ?_, ?_⟩ <;> dsimp only
  )
  all_goals first
    | assumption
    | (intro u; grind [upd])
    | grind [upd]))

theorem step_inv1_popResume (s s' : St) (t z g : Nat) (hi : Inv1 s)
    (h : step s (.popResume t z g) = some s') : Inv1 s' := by
  simp only [step] at h
  obtain ⟨h1,h2,h3,h4,h5,h6,h7⟩ := hi
  split at h
  case isFalse => simp at h
  rename_i hg
  split at h
  case h_2 => simp at h
  rename_i i n g' rest hpc hq
  split at h
  case isFalse => simp at h
  rename_i hsz
  obtain ⟨hsz, hgg⟩ := hsz
  subst hgg
  split at h
  case h_2 => simp at h
  rename_i p' hp'
  have hgq : g' ∈ s.queue := by rw [hq]; simp
  have hginQ := (h3 g').1 hgq
  have hgt : g' ≠ t := by
    intro he; rw [he, hpc] at hginQ; simp [inQ] at hginQ
  have hnd : g' ∉ rest ∧ rest.Nodup := by rw [hq] at h4; simpa using h4
  simp only [Option.some.injEq] at h
  subst h
  have hwp : inQ p' = false ∧ holds p' = false ∧ (∀ i n b, p' ≠ .sigRes i n b) ∧ (∀ i n, p' ≠ .sigL i n) := by
    unfold setPopped at hp'
    split at hp' <;> simp at hp' <;> subst hp' <;> simp [inQ, holds]
  refine ⟨?_, ?_, ?_, ?_, ?_, ?_, ?_⟩ <;> dsimp only
  · intro u; grind [upd]
  · intro u; grind [upd]
  · intro u
    have := h3 u
    rw [hq] at this
    by_cases hut : u = t
    · subst hut; simp [upd, inQ, hpc] at this ⊢; grind
    · by_cases hug : u = g'
      · subst hug; simp [upd, hut, hwp.1, hnd.1]
      · simp [upd, hut, hug] at this ⊢; simpa [hug] using this
  · exact hnd.2
  · intro u i' n' hu
    by_cases hut : u = t
    · subst hut; simp [upd] at hu; grind
    · by_cases hug : u = g'
      · subst hug; simp [upd, hut] at hu; exact absurd hu (hwp.2.2.1 i' n' false)
      · simp [upd, hut, hug] at hu; have := h5 u i' n' hu; rw [hq] at this; simp at this
  · intro u b hu
    by_cases hut : u = t
    · subst hut; simp [upd] at hu
    · by_cases hug : u = g'
      · subst hug; simp [upd]
      · simp only [upd, hut, hug, if_false] at hu
        have := h6 u b hu
        simp [upd, hug, this]
  · intro u i' n' hu
    by_cases hut : u = t
    · subst hut; simp [upd] at hu
    · by_cases hug : u = g'
      · subst hug; simp [upd, hut] at hu; exact absurd hu (hwp.2.2.2 i' n')
      · simp [upd, hut, hug] at hu; exact h7 u i' n' hu

theorem step_inv1 (s s' : St) (e : Ev) (hi : Inv1 s) (h : step s e = some s') : Inv1 s' := by
  cases e with
  | inv t o => ss_step
  | ret t r => ss_step
  | slAcq t => ss_step
  | slRel t => ss_step
  | cvEnq t z => ss_step
  | popResume t z g => exact step_inv1_popResume s s' t z g hi h
  | cvNone t => ss_step
  | cvWoke t a => ss_step
  | pass t u l => ss_step
  | sig t l z => ss_step
  | suspend t => ss_step
  | woke t => ss_step
  | done t => ss_step

end PikaVerif.SSem
