import PikaVerif.Lemmas.StopRem
/-! Follow-up C14q: preservation of layer C (converse of `InvR.remA`), events group 2. -/
namespace PikaVerif.Stop
open PikaVerif
set_option maxHeartbeats 4000000

theorem stepC_rsDone (s s' : St) (a : Nat) (hA : InvA s) (hB : InvB s) (hD : InvD s) (hi : InvC s) (h : step s (.rsDone a) = some s') : InvC s' := by stopC
theorem stepC_preExec (s s' : St) (a c : Nat) (hA : InvA s) (hB : InvB s) (hD : InvD s) (hi : InvC s) (h : step s (.preExec a c) = some s') : InvC s' := by stopC
theorem stepC_cbBegin (s s' : St) (a c : Nat) (hA : InvA s) (hB : InvB s) (hD : InvD s) (hi : InvC s) (h : step s (.cbBegin a c) = some s') : InvC s' := by stopC
theorem stepC_cbEnd (s s' : St) (a c : Nat) (hA : InvA s) (hB : InvB s) (hD : InvD s) (hi : InvC s) (h : step s (.cbEnd a c) = some s') : InvC s' := by stopC
theorem stepC_finStore (s s' : St) (a c : Nat) (r : Bool) (hA : InvA s) (hB : InvB s) (hD : InvD s) (hi : InvC s) (h : step s (.finStore a c r) = some s') : InvC s' := by stopC
theorem stepC_inFin (s s' : St) (a c : Nat) (hA : InvA s) (hB : InvB s) (hD : InvD s) (hi : InvC s) (h : step s (.inFin a c) = some s') : InvC s' := by stopC
theorem stepC_push (s s' : St) (a c : Nat) (b : Bool) (hA : InvA s) (hB : InvB s) (hD : InvD s) (hi : InvC s) (h : step s (.push a c b) = some s') : InvC s' := by stopC

end PikaVerif.Stop
