import PikaVerif.Lemmas.BarrierU
/-! Per-event behaviour of the measure `mu B` of the coarse barrier model (C09u). -/
namespace PikaVerif.Barrier
open PikaVerif

attribute [local grind] rank opRank isStutter isMiss isMiss2

theorem calls_succ (B u : Nat) (h : 1 ≤ u) : u * cc B = (u - 1) * cc B + cc B := by
  rw [← Nat.succ_mul]; congr 1; omega

set_option hygiene false in
macro "muB_step" t:term : tactic => `(tactic| (
  simp only [step] at h
  split at h
  case isFalse => simp at h
  rename_i hg
  have htn : $t < s.n := by grind
  have hle := le_sumTo (f := fun u => rank B (s.pc u)) htn
  repeat' split at h
  all_goals first | (simp at h; done) | skip
  all_goals (
    simp only [Option.some.injEq] at h
    subst h
    simp only [mu]
    rw [sumTo_upd_eq _ (rank B) _ _ _ htn]
    try (have hac := rank_afterCall B (s.aw $t))
    grind)))

theorem mu_adj (B : Nat) (s s' : St) (t : Nat) (h : step s (.adj t) = some s') : mu B s' < mu B s := by muB_step t
theorem mu_load (B : Nat) (s s' : St) (t a b : Nat) (h : step s (.load t a b) = some s') : mu B s' < mu B s := by muB_step t
theorem mu_last (B : Nat) (s s' : St) (t a b : Nat) (h : step s (.last t a b) = some s') : mu B s' < mu B s := by muB_step t
theorem mu_compl (B : Nat) (s s' : St) (t : Nat) (h : step s (.compl t) = some s') : mu B s' < mu B s := by muB_step t
theorem mu_publish (B : Nat) (s s' : St) (t a b : Nat) (h : step s (.publish t a b) = some s') : mu B s' < mu B s := by muB_step t
theorem mu_ret (B : Nat) (s s' : St) (t : Nat) (h : step s (.ret t) = some s') : mu B s' < mu B s := by muB_step t
theorem mu_done (B : Nat) (s s' : St) (t : Nat) (h : step s (.done t) = some s') : mu B s' < mu B s := by muB_step t
theorem mu_poll (B : Nat) (s s' : St) (t a b : Nat) (hns : b ≠ a) (h : step s (.poll t a b) = some s') :
    mu B s' < mu B s := by muB_step t


theorem mu_start (B : Nat) (s s' : St) (t a : Nat) (hB : s.expected ≤ B) (h : step s (.start t a) = some s') :
    mu B s' < mu B s := by
  simp only [step] at h
  split at h
  case isFalse => simp at h
  rename_i hg
  have htn : t < s.n := hg.1
  have hle := le_sumTo (f := fun u => rank B (s.pc u)) htn
  split at h
  case h_2 => simp at h
  rename_i u hpc
  split at h
  case isFalse => simp at h
  rename_i hu
  simp only [Option.some.injEq] at h
  subst h
  simp only [mu]
  rw [sumTo_upd_eq _ (rank B) _ _ _ htn]
  have := calls_succ B u hu
  simp only [hpc, rank] at hle ⊢
  have hc : cc B = 3 * B + 8 := rfl
  omega

/-- `cas`: strictly decreasing unless it is a miss, then unchanged -/
theorem mu_cas (B : Nat) (s s' : St) (t a b : Nat) (o : Out) (h : step s (.cas t a b o) = some s') :
    (isMiss (.cas t a b o) = false → mu B s' < mu B s) ∧ (isMiss (.cas t a b o) = true → mu B s' = mu B s) := by
  simp only [step] at h
  split at h
  case isFalse => simp at h
  rename_i htn
  have hle := le_sumTo (f := fun u => rank B (s.pc u)) htn
  split at h
  case h_2 => simp at h
  rename_i u cur r m hpc
  generalize (if cur = (m + 1) / 2 then 0 else cur) = c0 at h
  split at h
  case isFalse => simp at h
  rename_i hgd
  obtain ⟨hm1, -, -⟩ := hgd
  repeat' split at h
  all_goals first | (simp at h; done) | skip
  all_goals (
    simp only [Option.some.injEq] at h
    subst h
    simp only [mu]
    rw [sumTo_upd_eq _ (rank B) _ _ _ htn]
    try (have hac := rank_afterCall B (s.aw t))
    grind)

/-- `cas2`: strictly decreasing unless it is a miss, then `+1` at most -/
theorem mu_cas2 (B : Nat) (s s' : St) (t a b : Nat) (o : Out) (h : step s (.cas2 t a b o) = some s') :
    (isMiss (.cas2 t a b o) = false → mu B s' < mu B s) ∧ (isMiss (.cas2 t a b o) = true → mu B s' ≤ mu B s + 1) := by
  simp only [step] at h
  split at h
  case isFalse => simp at h
  rename_i htn
  have hle := le_sumTo (f := fun u => rank B (s.pc u)) htn
  repeat' split at h
  all_goals first | (simp at h; done) | skip
  all_goals (
    simp only [Option.some.injEq] at h
    subst h
    simp only [mu]
    rw [sumTo_upd_eq _ (rank B) _ _ _ htn]
    grind)

theorem mu_inv (B : Nat) (s s' : St) (t : Nat) (o : Op) (h : step s (.inv t o) = some s') :
    mu B s' + 1 = mu B s + opRank B o := by
  simp only [step] at h
  split at h
  case isFalse => simp at h
  rename_i hg
  have htn : t < s.n := hg.1
  have hle := le_sumTo (f := fun u => rank B (s.pc u)) htn
  repeat' split at h
  all_goals first | (simp at h; done) | skip
  all_goals (
    simp only [Option.some.injEq] at h
    subst h
    simp only [mu]
    rw [sumTo_upd_eq _ (rank B) _ _ _ htn]
    grind)

/-- **Every accepted event other than `inv`, the stutter and the misses strictly decreases `mu`;
    a miss raises it by at most one (only a `cas2` miss does).** -/
theorem mu_step (B : Nat) (s s' : St) (e : Ev) (hB : s.expected ≤ B) (hi : isInv e = false)
    (h : step s e = some s') :
    (isStutter e = false → isMiss e = false → mu B s' < mu B s) ∧
    (isMiss e = true → mu B s' ≤ mu B s + (if isMiss2 e then 1 else 0)) := by
  cases e
  case inv t o => simp [isInv] at hi
  case adj t => exact ⟨fun _ _ => mu_adj B s s' t h, fun hm => by simp [isMiss] at hm⟩
  case load t a b => exact ⟨fun _ _ => mu_load B s s' t a b h, fun hm => by simp [isMiss] at hm⟩
  case start t a => exact ⟨fun _ _ => mu_start B s s' t a hB h, fun hm => by simp [isMiss] at hm⟩
  case last t a b => exact ⟨fun _ _ => mu_last B s s' t a b h, fun hm => by simp [isMiss] at hm⟩
  case compl t => exact ⟨fun _ _ => mu_compl B s s' t h, fun hm => by simp [isMiss] at hm⟩
  case publish t a b => exact ⟨fun _ _ => mu_publish B s s' t a b h, fun hm => by simp [isMiss] at hm⟩
  case ret t => exact ⟨fun _ _ => mu_ret B s s' t h, fun hm => by simp [isMiss] at hm⟩
  case done t => exact ⟨fun _ _ => mu_done B s s' t h, fun hm => by simp [isMiss] at hm⟩
  case poll t a b =>
    refine ⟨fun hs _ => mu_poll B s s' t a b ?_ h, fun hm => by simp [isMiss] at hm⟩
    simpa [isStutter] using hs
  case cas t a b o =>
    obtain ⟨h1, h2⟩ := mu_cas B s s' t a b o h
    refine ⟨fun _ hm => h1 hm, fun hm => ?_⟩
    have := h2 hm
    omega
  case cas2 t a b o =>
    obtain ⟨h1, h2⟩ := mu_cas2 B s s' t a b o h
    refine ⟨fun _ hm => h1 hm, fun hm => ?_⟩
    have := h2 hm
    have h3 : isMiss2 (.cas2 t a b o) = true := by
      cases o <;> simp [isMiss, isMiss2] at hm ⊢
    simp only [h3, if_true]
    exact this

end PikaVerif.Barrier
