import PikaVerif.Lemmas.Stop7
/-! Follow-up C14p: preservation of layer R (is_removed flag and pointer) by every event. -/
namespace PikaVerif.Stop
open PikaVerif
set_option maxHeartbeats 4000000

theorem stepR_inv (s s' : St) (a : Nat) (k : Kind) (hA : InvA s) (hB : InvB s) (hi : InvR s) (h : step s (.inv a k) = some s') : InvR s' := by stopRi
theorem stepR_ret (s s' : St) (a : Nat) (r : Bool) (hA : InvA s) (hB : InvB s) (hi : InvR s) (h : step s (.ret a r) = some s') : InvR s' := by stopR
theorem stepR_load (s s' : St) (a : Nat) (lk rq : Bool) (src : Nat) (hA : InvA s) (hB : InvB s) (hi : InvR s) (h : step s (.load a lk rq src) = some s') : InvR s' := by stopR
theorem stepR_casFail (s s' : St) (a : Nat) (lk rq : Bool) (src : Nat) (hA : InvA s) (hB : InvB s) (hi : InvR s) (h : step s (.casFail a lk rq src) = some s') : InvR s' := by stopR
theorem stepR_reload (s s' : St) (a : Nat) (lk rq : Bool) (src : Nat) (hA : InvA s) (hB : InvB s) (hi : InvR s) (h : step s (.reload a lk rq src) = some s') : InvR s' := by stopR
theorem stepR_acq (s s' : St) (a : Nat) (hA : InvA s) (hB : InvB s) (hi : InvR s) (h : step s (.acq a) = some s') : InvR s' := by stopR
theorem stepR_deq (s s' : St) (a c : Nat) (m : Bool) (hA : InvA s) (hB : InvB s) (hi : InvR s) (h : step s (.deq a c m) = some s') : InvR s' := by stopR
theorem stepR_rsDone (s s' : St) (a : Nat) (hA : InvA s) (hB : InvB s) (hi : InvR s) (h : step s (.rsDone a) = some s') : InvR s' := by stopR
theorem stepR_preExec (s s' : St) (a c : Nat) (hA : InvA s) (hB : InvB s) (hi : InvR s) (h : step s (.preExec a c) = some s') : InvR s' := by stopR
theorem stepR_cbBegin (s s' : St) (a c : Nat) (hA : InvA s) (hB : InvB s) (hi : InvR s) (h : step s (.cbBegin a c) = some s') : InvR s' := by stopR
theorem stepR_cbEnd (s s' : St) (a c : Nat) (hA : InvA s) (hB : InvB s) (hi : InvR s) (h : step s (.cbEnd a c) = some s') : InvR s' := by stopR
theorem stepR_finStore (s s' : St) (a c : Nat) (r : Bool) (hA : InvA s) (hB : InvB s) (hi : InvR s) (h : step s (.finStore a c r) = some s') : InvR s' := by stopR
theorem stepR_inFin (s s' : St) (a c : Nat) (hA : InvA s) (hB : InvB s) (hi : InvR s) (h : step s (.inFin a c) = some s') : InvR s' := by stopR
theorem stepR_push (s s' : St) (a c : Nat) (b : Bool) (hA : InvA s) (hB : InvB s) (hi : InvR s) (h : step s (.push a c b) = some s') : InvR s' := by stopR
theorem stepR_unlink (s s' : St) (a c : Nat) (r : Bool) (hA : InvA s) (hB : InvB s) (hi : InvR s) (h : step s (.unlink a c r) = some s') : InvR s' := by stopR
theorem stepR_selfChk (s s' : St) (a c : Nat) (e p : Bool) (hA : InvA s) (hB : InvB s) (hi : InvR s) (h : step s (.selfChk a c e p) = some s') : InvR s' := by stopR
theorem stepR_waited (s s' : St) (a c : Nat) (hA : InvA s) (hB : InvB s) (hi : InvR s) (h : step s (.waited a c) = some s') : InvR s' := by stopR
theorem stepR_srcInc (s s' : St) (a : Nat) (hA : InvA s) (hB : InvB s) (hi : InvR s) (h : step s (.srcInc a) = some s') : InvR s' := by stopR
theorem stepR_srcDec (s s' : St) (a : Nat) (hA : InvA s) (hB : InvB s) (hi : InvR s) (h : step s (.srcDec a) = some s') : InvR s' := by stopR
theorem stepR_query (s s' : St) (a : Nat) (x y : Bool) (hA : InvA s) (hB : InvB s) (hi : InvR s) (h : step s (.query a x y) = some s') : InvR s' := by stopR
theorem stepR_done (s s' : St) (a : Nat) (hA : InvA s) (hB : InvB s) (hi : InvR s) (h : step s (.done a) = some s') : InvR s' := by stopR

end PikaVerif.Stop
