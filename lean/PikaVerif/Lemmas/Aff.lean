import PikaVerif.Model.Aff
/-! Lemmas for the affinity model (C15): loop rule, topology arithmetic. -/
namespace PikaVerif.Aff
open PikaVerif

/-- outcome predicate of a loop body: `P` if it keeps running, `Q` if the function returned,
    `E` if it raised an error -/
def CtlP {σ : Type} (P Q : σ → Prop) (E : Prop) : Ctl σ → Prop
  | .run s => P s
  | .fin s => Q s
  | .err => E

theorem forFrom_inv {σ : Type} (body : Nat → σ → Ctl σ) (P : Nat → σ → Prop) (Q : σ → Prop)
    (E : Prop) : ∀ (cnt i : Nat) (s : σ),
    (∀ j s, i ≤ j → j < i + cnt → P j s → CtlP (P (j + 1)) Q E (body j s)) → P i s →
    CtlP (P (i + cnt)) Q E (forFrom body i cnt s) := by
  intro cnt
  induction cnt with
  | zero => intro i s _ h; simpa [forFrom, CtlP] using h
  | succ m ih =>
    intro i s hb h
    simp only [forFrom]
    have h1 := hb i s (Nat.le_refl i) (by omega) h
    cases hr : body i s with
    | run s' =>
      rw [hr] at h1
      have := ih (i + 1) s' (fun j s hj hj2 hp => hb j s (by omega) (by omega) hp) h1
      simpa [Nat.add_assoc, Nat.add_comm 1 m] using this
    | fin s' => rw [hr] at h1; simpa [CtlP] using h1
    | err => rw [hr] at h1; simpa [CtlP] using h1

theorem forRange_inv {σ : Type} (body : Nat → σ → Ctl σ) (P : Nat → σ → Prop) (Q : σ → Prop)
    (E : Prop) (m : Nat) (s : σ)
    (hb : ∀ j s, j < m → P j s → CtlP (P (j + 1)) Q E (body j s)) (h : P 0 s) :
    CtlP (P m) Q E (forRange m body s) := by
  have := forFrom_inv body P Q E m 0 s (fun j s _ hj hp => hb j s (by omega) hp) h
  simpa [forRange] using this

/-- well-formed machine: at least one core, every core has at least one PU -/
structure WF (t : Topo) : Prop where
  cores : 0 < t.nc
  pus : ∀ c, c < t.nc → 0 < t.pus c

theorem base_succ (t : Topo) (c : Nat) : base t (c + 1) = base t c + t.pus c := rfl

theorem base_mono (t : Topo) {c d : Nat} (h : c ≤ d) : base t c ≤ base t d := by
  induction d with
  | zero => have : c = 0 := by omega
            subst this; exact Nat.le_refl _
  | succ k ih =>
    by_cases hk : c = k + 1
    · subst hk; exact Nat.le_refl _
    · have := ih (by omega); rw [base_succ]; omega

theorem le_base {t : Topo} (hwf : WF t) {c : Nat} (h : c ≤ t.nc) : c ≤ base t c := by
  induction c with
  | zero => exact Nat.zero_le _
  | succ k ih =>
    have := ih (by omega)
    have := hwf.pus k (by omega)
    rw [base_succ]; omega

theorem base_add_lt (t : Topo) {c d x : Nat} (hx : x < t.pus c) (h : c < d) :
    base t c + x < base t d := by
  have := base_mono t (c := c + 1) (d := d) (by omega)
  rw [base_succ] at this; omega

/-- PUs of different cores have different logical indices -/
theorem base_inj (t : Topo) {c d x y : Nat} (hx : x < t.pus c) (hy : y < t.pus d)
    (h : base t c + x = base t d + y) : c = d ∧ x = y := by
  by_cases hcd : c = d
  · subst hcd; exact ⟨rfl, by omega⟩
  · exfalso
    by_cases hlt : c < d
    · have := base_add_lt t hx hlt; omega
    · have := base_add_lt t hy (show d < c by omega); omega

theorem puNumber_eq (t : Topo) {c p : Nat} (hc : c < t.nc) (hp : p < t.pus c) :
    puNumber t c p = base t c + p := by
  simp [puNumber, Nat.mod_eq_of_lt hc, Nat.mod_eq_of_lt hp]

theorem corePus_eq (t : Topo) {c : Nat} (hc : c < t.nc) : corePus t c = t.pus c := by
  simp [corePus, hc]

theorem base_add_lt_numPus (t : Topo) {c p : Nat} (hc : c < t.nc) (hp : p < t.pus c) :
    base t c + p < numPus t := base_add_lt t hp hc

end PikaVerif.Aff
