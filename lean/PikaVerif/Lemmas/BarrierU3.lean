import PikaVerif.Lemmas.BarrierU2
/-!
# Finite programs over the coarse barrier model (C09u)

`pstep` is the model's `step` restricted to the logs of a program: `inv t o` must be the next
operation of thread `t` (which is consumed), `done t` needs the thread's list to be empty, every
other event is passed to `step` unchanged.
-/
namespace PikaVerif.Barrier
open PikaVerif

structure PSt where
  s : St
  prog : Nat → List Op

def pstep (p : PSt) (e : Ev) : Option PSt :=
  match e with
  | .inv t o =>
    match p.prog t with
    | o' :: rest =>
      if o' = o then (step p.s (.inv t o)).map (fun s' => ⟨s', upd p.prog t rest⟩) else none
    | [] => none
  | .done t => if p.prog t = [] then (step p.s (.done t)).map (fun s' => ⟨s', p.prog⟩) else none
  | e => (step p.s e).map (fun s' => ⟨s', p.prog⟩)

/-- `n` threads on a barrier constructed with expected count `N` -/
def pinit (n N : Nat) (prog : Nat → List Op) : PSt := ⟨init n N, prog⟩

theorem pstep_step (p p' : PSt) (e : Ev) (h : pstep p e = some p') : step p.s e = some p'.s := by
  cases e <;> simp only [pstep] at h <;> (repeat' split at h) <;>
    first
    | (simp at h; done)
    | (simp only [Option.map_eq_some_iff] at h; obtain ⟨s', h1, h2⟩ := h; subst h2; simpa using h1)
    | (subst_vars; simp only [Option.map_eq_some_iff] at h; obtain ⟨s', h1, h2⟩ := h; subst h2; simpa using h1)

theorem pstep_prog (p p' : PSt) (e : Ev) (hne : isInv e = false) (h : pstep p e = some p') :
    p'.prog = p.prog := by
  cases e <;> simp only [pstep] at h <;> (repeat' split at h) <;>
    first
    | (simp at h; done)
    | (simp [isInv] at hne; done)
    | (simp only [Option.map_eq_some_iff] at h; obtain ⟨s', h1, h2⟩ := h; subst h2; rfl)

theorem pstep_inv (p p' : PSt) (t : Nat) (o : Op) (h : pstep p (.inv t o) = some p') :
    ∃ rest, p.prog t = o :: rest ∧ p'.prog = upd p.prog t rest ∧ t < p.s.n := by
  have hs := pstep_step p p' _ h
  simp only [pstep] at h
  split at h
  · rename_i o' rest hp
    split at h
    · rename_i ho; subst ho
      simp only [Option.map_eq_some_iff] at h; obtain ⟨s', h1, h2⟩ := h; subst h2
      refine ⟨rest, hp, rfl, ?_⟩
      simp only [step] at h1; split at h1
      · rename_i hg; exact hg.1
      · simp at h1
    · simp at h
  · simp at h

theorem pstep_done (p p' : PSt) (t : Nat) (h : pstep p (.done t) = some p') : p.prog t = [] := by
  simp only [pstep] at h
  split at h
  · assumption
  · simp at h

/-- events other than `inv` / `done` are accepted by the program layer iff the model accepts them -/
theorem pstep_other (p : PSt) (e : Ev) (s' : St) (hi : isInv e = false) (hd : ∀ t, e ≠ .done t)
    (h : step p.s e = some s') : pstep p e = some ⟨s', p.prog⟩ := by
  cases e <;> first
    | (simp [isInv] at hi; done)
    | (exact absurd rfl (hd _))
    | (simp only [pstep, h, Option.map_some])

theorem runLog_pstep_step (log : List Ev) : ∀ (p p' : PSt), runLog pstep p log = some p' →
    runLog step p.s log = some p'.s := by
  induction log with
  | nil => intro p p' h; simp at h; subst h; simp
  | cons e es ih =>
    intro p p' h
    simp only [runLog] at h ⊢
    cases hs : pstep p e with
    | none => simp [hs] at h
    | some p1 =>
      simp only [hs] at h
      rw [pstep_step p p1 e hs]
      exact ih p1 p' h

/-- potential of the operations a thread has not started yet -/
def progCost (B : Nat) : List Op → Nat
  | [] => 0
  | o :: l => opRank B o + progCost B l

/-- the measure on program states -/
def phi (B : Nat) (p : PSt) : Nat := mu B p.s + sumTo p.s.n (fun t => progCost B (p.prog t))

def stutters : List Ev → Nat
  | [] => 0
  | e :: l => (if isStutter e then 1 else 0) + stutters l
def misses : List Ev → Nat
  | [] => 0
  | e :: l => (if isMiss e then 1 else 0) + misses l
def misses2 : List Ev → Nat
  | [] => 0
  | e :: l => (if isMiss2 e then 1 else 0) + misses2 l

theorem misses2_le (l : List Ev) : misses2 l ≤ misses l := by
  induction l with
  | nil => simp [misses, misses2]
  | cons e es ih =>
    simp only [misses, misses2]
    have : isMiss2 e = true → isMiss e = true := by
      cases e <;> simp [isMiss, isMiss2]
      rename_i o; cases o <;> simp [isMiss, isMiss2]
    by_cases h2 : isMiss2 e = true
    · simp [h2, this h2]; omega
    · simp [h2]; split <;> omega

/-- **Every accepted event of a program that is neither the stutter nor a miss strictly decreases
    `phi`; the stutter leaves the whole state unchanged; a miss raises `phi` by at most `1`
    (only a `cas2` miss does).** -/
theorem phi_step (B : Nat) (p p' : PSt) (e : Ev) (hB : p.s.expected ≤ B) (h : pstep p e = some p') :
    (isStutter e = false → isMiss e = false → phi B p' < phi B p) ∧
    (isStutter e = true → p' = p) ∧
    (isMiss e = true → phi B p' ≤ phi B p + (if isMiss2 e then 1 else 0)) := by
  have hs := pstep_step p p' e h
  have hn := step_n _ _ _ hs
  by_cases hinv : isInv e = true
  · cases e <;> simp [isInv] at hinv
    rename_i t o
    obtain ⟨rest, hp, hp', htn⟩ := pstep_inv p p' t o h
    have hm := mu_inv B _ _ _ _ hs
    refine ⟨fun _ _ => ?_, fun hst => by simp [isStutter] at hst, fun hm => by simp [isMiss] at hm⟩
    simp only [phi, hn, hp']
    have := sumTo_upd p.s.n (progCost B) p.prog t rest htn
    rw [hp] at this
    simp only [progCost] at this
    omega
  · have hne : isInv e = false := by simpa using hinv
    obtain ⟨h1, h2⟩ := mu_step B _ _ _ hB hne hs
    have hp := pstep_prog p p' e hne h
    refine ⟨fun a b => ?_, fun hst => ?_, fun hm => ?_⟩
    · have := h1 a b; simp only [phi, hn, hp]; omega
    · have := stutter_id _ _ _ hst hs
      cases p; cases p'; simp_all
    · have := h2 hm; simp only [phi, hn, hp]; omega

/-- **Length of an accepted log of a program**: at most `phi` of the start state, plus the stutters,
    plus the misses (a `cas2` miss counts twice). -/
theorem runLog_phi (B : Nat) (log : List Ev) : ∀ (p p' : PSt), p.s.expected ≤ B → runLog pstep p log = some p' →
    log.length + phi B p' ≤ phi B p + stutters log + misses log + misses2 log := by
  induction log with
  | nil => intro p p' _ h; simp at h; subst h; simp [stutters, misses, misses2]
  | cons e es ih =>
    intro p p' hB h
    simp only [runLog] at h
    cases hs : pstep p e with
    | none => simp [hs] at h
    | some p1 =>
      simp only [hs] at h
      obtain ⟨h1, h2, h3⟩ := phi_step B p p1 e hB hs
      have hB1 : p1.s.expected ≤ B := Nat.le_trans (step_expected_le _ _ _ (pstep_step _ _ _ hs)) hB
      have ih' := ih p1 p' hB1 h
      simp only [List.length_cons, stutters, misses, misses2]
      have hm2 : isMiss2 e = true → isMiss e = true := by
        cases e <;> simp [isMiss, isMiss2]
        rename_i o; cases o <;> simp [isMiss, isMiss2]
      by_cases hst : isStutter e = true
      · have := h2 hst; subst this
        simp only [hst, if_true]; split <;> split <;> omega
      · have hst' : isStutter e = false := by simpa using hst
        by_cases hm : isMiss e = true
        · have := h3 hm
          by_cases hx : isMiss2 e = true
          · simp [hx] at this; simp [hst', hm, hx]; omega
          · have hx' : isMiss2 e = false := by simpa using hx
            simp [hx'] at this; simp [hst', hm, hx']; omega
        · have hm' : isMiss e = false := by simpa using hm
          have := h1 hst' hm'
          have hm2' : isMiss2 e = false := by
            cases hx : isMiss2 e with
            | false => rfl
            | true => rw [hm2 hx] at hm'; exact absurd hm' (by simp)
          simp only [hst', hm', hm2']; simp; omega

end PikaVerif.Barrier
