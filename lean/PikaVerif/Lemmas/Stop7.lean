import PikaVerif.Lemmas.Stop5
/-!
# Fifth invariant of the stop_state model: what a waiting destructor waits for

Follow-up C14p, layers L, R, Q (on top of A and B; no thread identities needed):
* `InvL.path` — with the repaired constructor the lock path of `remove_callback` is only
  entered for a callback that was linked into the list;
* `InvL.linkedA`, `linkedP` — a linked callback whose destructor has not passed the unlink is
  in the list or was dequeued by request_stop;
* `InvR.remA`, `remP` — request_stop's local `is_removed` is only set once the destructor of
  the callback it processes has passed its thread check;
* `InvR.ptrNew`, `ptrA`, `ptrP` — `is_removed_` of a callback whose destructor has not passed
  the thread check points into the frame of the request_stop that processes it;
* `InvQ.deqA`, `deqP` — a dequeued callback whose destructor has not passed the thread check
  is finished or is being processed by the request_stop that dequeued it.
-/
namespace PikaVerif.Stop
open PikaVerif

def alive : Life → Bool
  | .ctor | .live => true
  | _ => false

structure InvL (s : St) : Prop where
  path : ∀ b c, unregPath (s.pc b) = some c → s.fixCtor = true → s.pushed c = true
  linkedA : ∀ c, s.pushed c = true → alive (s.life c) = true → c ∈ s.list ∨ s.deqd c = true
  linkedP : ∀ b c, unregPath (s.pc b) = some c → s.pushed c = true → c ∈ s.list ∨ s.deqd c = true

structure InvR (s : St) : Prop where
  remA : ∀ w c, runPhase (s.pc w) = some c → s.remFlag w = true → alive (s.life c) = false
  remP : ∀ w c b, runPhase (s.pc w) = some c → s.remFlag w = true → unregPath (s.pc b) ≠ some c
  ptrNew : ∀ w c, s.remPtr c = some w → s.life c ≠ .new
  ptrA : ∀ w c, s.remPtr c = some w → alive (s.life c) = true → runPhase (s.pc w) = some c
  ptrP : ∀ w c b, s.remPtr c = some w → unregPath (s.pc b) = some c → runPhase (s.pc w) = some c

structure InvQ (s : St) : Prop where
  deqA : ∀ c, s.deqd c = true → alive (s.life c) = true → s.fin c = true ∨ winPhase (s.pc (s.owner c)) = some c
  deqP : ∀ b c, unregPath (s.pc b) = some c → s.deqd c = true →
    s.fin c = true ∨ winPhase (s.pc (s.owner c)) = some c

theorem invL_init (n K : Nat) (id : Nat → Nat) (f1 f2 : Bool) (m : Nat) : InvL (init n K id f1 f2 m) := by
  refine ⟨?_, ?_, ?_⟩ <;> simp [init, unregPath]
theorem invR_init (n K : Nat) (id : Nat → Nat) (f1 f2 : Bool) (m : Nat) : InvR (init n K id f1 f2 m) := by
  refine ⟨?_, ?_, ?_, ?_, ?_⟩ <;> simp [init, unregPath, runPhase]
theorem invQ_init (n K : Nat) (id : Nat → Nat) (f1 f2 : Bool) (m : Nat) : InvQ (init n K id f1 f2 m) := by
  refine ⟨?_, ?_⟩ <;> simp [init, unregPath]

theorem unregPath_unregOf {p : Pc} {c : Nat} (h : unregPath p = some c) : unregOf p = some c := by
  cases p with
  | ld k => cases k <;> simp_all [unregOf, unregPath]
  | cas k b => cases k <;> simp_all [unregOf, unregPath]
  | spin k => cases k <;> simp_all [unregOf, unregPath]
  | locked k => cases k <;> simp_all [unregOf, unregPath]
  | chk c => simp_all [unregOf, unregPath]
  | wait c => simp_all [unregOf, unregPath]
  | _ => simp [unregPath] at h

attribute [grind →] unregPath_unregOf runPhase_win

attribute [grind] alive

attribute [local grind] isBody holds

set_option maxHeartbeats 4000000

set_option hygiene false in
macro "stopL" : tactic => `(tactic| (
  have b1 := hB.inList
  have b3 := hB.regP
  have b6 := hB.unregP
  have b7 := hB.unregOut
  have b8 := hB.dtorP
  have b12 := hB.keptP
  have b14 := hB.fresh
  have b15 := hB.retRegP
  clear hB hA
  simp only [step] at h
  obtain ⟨h1,h2,h3⟩ := hi
  split at h
  case isFalse => simp at h
  rename_i hg
  repeat' split at h
  all_goals first | (simp at h; done) | skip
  all_goals try cases ‹Kind›
  all_goals (
    simp only [Option.some.injEq] at h
    subst h
    refine ⟨?_,?_,?_⟩ <;> try dsimp only
  )
  all_goals first
    | assumption
    | (intro u; grind (instances := 20000) [upd])
    | grind (instances := 20000) [upd, mem_of_mem_erase', mem_erase_ne, not_mem_erase_self]))

set_option hygiene false in
macro "stopLi" : tactic => `(tactic| (
  have b1 := hB.inList
  have b3 := hB.regP
  have b6 := hB.unregP
  have b7 := hB.unregOut
  have b8 := hB.dtorP
  have b12 := hB.keptP
  have b14 := hB.fresh
  have b15 := hB.retRegP
  clear hB hA
  simp only [step] at h
  obtain ⟨h1,h2,h3⟩ := hi
  split at h
  case isFalse => simp at h
  rename_i hg
  replace hg := And.intro hg.1 hg.2.1
  repeat' split at h
  all_goals first | (simp at h; done) | skip
  all_goals try cases ‹Kind›
  all_goals (
    simp only [Option.some.injEq] at h
    subst h
    refine ⟨?_,?_,?_⟩ <;> try dsimp only
  )
  all_goals first
    | assumption
    | (intro u; grind (instances := 20000) [upd])
    | grind (instances := 20000) [upd, mem_of_mem_erase', mem_erase_ne, not_mem_erase_self]))

set_option hygiene false in
macro "stopR" : tactic => `(tactic| (
  have b4 := hB.winP
  have b15 := hB.retRegP
  have b6 := hB.unregP
  have b8 := hB.dtorP
  have b14 := hB.fresh
  clear hB hA
  simp only [step] at h
  obtain ⟨h1,h2,h3,h4,h5⟩ := hi
  split at h
  case isFalse => simp at h
  rename_i hg
  repeat' split at h
  all_goals first | (simp at h; done) | skip
  all_goals try cases ‹Kind›
  all_goals (
    simp only [Option.some.injEq] at h
    subst h
    refine ⟨?_,?_,?_,?_,?_⟩ <;> try dsimp only
  )
  all_goals first
    | assumption
    | (intro u; grind (instances := 20000) [upd])
    | grind (instances := 20000) [upd, mem_of_mem_erase', mem_erase_ne, not_mem_erase_self]))

set_option hygiene false in
macro "stopRi" : tactic => `(tactic| (
  have b4 := hB.winP
  have b15 := hB.retRegP
  have b6 := hB.unregP
  have b8 := hB.dtorP
  have b14 := hB.fresh
  clear hB hA
  simp only [step] at h
  obtain ⟨h1,h2,h3,h4,h5⟩ := hi
  split at h
  case isFalse => simp at h
  rename_i hg
  replace hg := And.intro hg.1 hg.2.1
  repeat' split at h
  all_goals first | (simp at h; done) | skip
  all_goals try cases ‹Kind›
  all_goals (
    simp only [Option.some.injEq] at h
    subst h
    refine ⟨?_,?_,?_,?_,?_⟩ <;> try dsimp only
  )
  all_goals first
    | assumption
    | (intro u; grind (instances := 20000) [upd])
    | grind (instances := 20000) [upd, mem_of_mem_erase', mem_erase_ne, not_mem_erase_self]))

set_option hygiene false in
macro "stopQ" : tactic => `(tactic| (
  have hWW := hA.winPhaseWinner
  have b1 := hB.inList
  have b6 := hB.unregP
  have b11 := hB.finRuns
  have b13 := hB.ownerW
  have b14 := hB.fresh
  have b15 := hB.retRegP
  have r1 := hR.remA
  have r2 := hR.remP
  clear hB hA hR
  simp only [step] at h
  obtain ⟨h1,h2⟩ := hi
  split at h
  case isFalse => simp at h
  rename_i hg
  repeat' split at h
  all_goals first | (simp at h; done) | skip
  all_goals try cases ‹Kind›
  all_goals (
    simp only [Option.some.injEq] at h
    subst h
    refine ⟨?_,?_⟩ <;> try dsimp only
  )
  all_goals first
    | assumption
    | (intro u; grind (instances := 20000) [upd])
    | grind (instances := 20000) [upd, mem_of_mem_erase', mem_erase_ne, not_mem_erase_self]))

set_option hygiene false in
macro "stopQi" : tactic => `(tactic| (
  have hWW := hA.winPhaseWinner
  have b1 := hB.inList
  have b6 := hB.unregP
  have b11 := hB.finRuns
  have b13 := hB.ownerW
  have b14 := hB.fresh
  have b15 := hB.retRegP
  have r1 := hR.remA
  have r2 := hR.remP
  clear hB hA hR
  simp only [step] at h
  obtain ⟨h1,h2⟩ := hi
  split at h
  case isFalse => simp at h
  rename_i hg
  replace hg := And.intro hg.1 hg.2.1
  repeat' split at h
  all_goals first | (simp at h; done) | skip
  all_goals try cases ‹Kind›
  all_goals (
    simp only [Option.some.injEq] at h
    subst h
    refine ⟨?_,?_⟩ <;> try dsimp only
  )
  all_goals first
    | assumption
    | (intro u; grind (instances := 20000) [upd])
    | grind (instances := 20000) [upd, mem_of_mem_erase', mem_erase_ne, not_mem_erase_self]))

end PikaVerif.Stop
