import PikaVerif.Model.Rec
/-! Inductive invariants of the recursive-mutex model and of the spinlock model. -/
namespace PikaVerif.Rec
open PikaVerif

def b2n (b : Bool) : Nat := if b then 1 else 0

def isGot : Pc → Bool
  | .got _ => true
  | _ => false

def isZeroed : Pc → Bool
  | .zeroed => true
  | _ => false

/-- Difference between `recursion_count` and the owner's observable depth: a successful lock
    not yet reported, or an unlock invoked and not yet executed. -/
def pend : Pc → Nat
  | .retn o r => b2n (r && !decide (o = .runlock))
  | .want o => b2n (decide (o = .runlock))
  | _ => 0

def expectTook : Pc → Option Bool
  | .want _ | .got _ => some false
  | .retn o r => if o = .runlock then none else some r
  | _ => none

def gotOk : Pc → Bool
  | .got o => !decide (o = .runlock)
  | _ => true

structure RInv (s : St) : Prop where
  outside : ∀ t, s.n ≤ t → s.pc t = .idle ∧ s.depthG t = 0 ∧ s.inCS t = false
  gotV : ∀ t, isGot (s.pc t) = true → s.v = some t ∧ s.ctx ≠ some t
  ctxV : ∀ t, s.ctx = some t → s.v = some t
  vRev : ∀ t, s.v = some t → s.ctx = some t ∨ isGot (s.pc t) = true
  depth : ∀ t, s.ctx = some t → s.cnt = s.depthG t + pend (s.pc t)
  notOwner : ∀ t, s.ctx ≠ some t → s.depthG t = 0 ∧ pend (s.pc t) = 0 ∧ isZeroed (s.pc t) = false
  zeroedCnt : ∀ t, isZeroed (s.pc t) = true → s.cnt = 0
  cntPos : ∀ t, s.ctx = some t → isZeroed (s.pc t) = true ∨ 0 < s.cnt
  csHold : ∀ t, s.inCS t = true → 0 < s.depthG t
  occSum : s.enters = s.exits + sumTo s.n (fun t => b2n (s.inCS t))
  took : ∀ t b, expectTook (s.pc t) = some b → s.tookOp t = b
  gotWf : ∀ t, gotOk (s.pc t) = true

theorem rinv_init (n : Nat) : RInv (init n) := by
  refine ⟨?_, ?_, ?_, ?_, ?_, ?_, ?_, ?_, ?_, ?_, ?_, ?_⟩ <;>
    simp [init, isGot, isZeroed, pend, expectTook, gotOk]
  exact (sumTo_eq_zero (fun t _ => rfl)).symm

attribute [local grind] isGot isZeroed pend expectTook gotOk b2n ownKind

set_option hygiene false in
macro "rec_step" t:term : tactic => `(tactic| (
  simp only [step] at h
  obtain ⟨h1,h2,h3,h4,h5,h6,h7,h8,h9,h10,h11,h12⟩ := hi
  split at h
  case isFalse => simp at h
  rename_i hg
  have htn : $t < s.n := by grind
  have hle := le_sumTo (f := fun u => b2n (s.inCS u)) htn
  repeat' split at h
  all_goals first | (simp at h; done) | skip
  all_goals (
    simp only [Option.some.injEq] at h
    subst h
    refine ⟨?_, ?_, ?_, ?_, ?_, ?_, ?_, ?_, ?_, ?_, ?_, ?_⟩ <;> dsimp only
  )
  all_goals first
    | assumption
    | (intro u; grind [upd])
    | (rw [sumTo_upd_eq _ _ _ _ _ htn]; grind)
    | grind [upd]))

theorem want_unlock_owner {s : St} (hi : RInv s) (t : Nat) (hp : s.pc t = .want .runlock) :
    s.ctx = some t := by
  by_cases hc : s.ctx = some t
  · exact hc
  · have := (hi.notOwner t hc).2.1; rw [hp] at this; simp [pend, b2n] at this

theorem step_rinv_inv (s s' : St) (t : Nat) (o : Op) (hi : RInv s) (h : step s (.inv t o) = some s') : RInv s' := by rec_step t
theorem step_rinv_ret (s s' : St) (t : Nat) (r : Bool) (hi : RInv s) (h : step s (.ret t r) = some s') : RInv s' := by rec_step t
theorem step_rinv_reent (s s' : St) (t c : Nat) (hi : RInv s) (h : step s (.reent t c) = some s') : RInv s' := by rec_step t
theorem step_rinv_slAcq (s s' : St) (t : Nat) (hi : RInv s) (h : step s (.slAcq t) = some s') : RInv s' := by rec_step t
theorem step_rinv_slTry (s s' : St) (t : Nat) (r : Bool) (hi : RInv s) (h : step s (.slTry t r) = some s') : RInv s' := by rec_step t
theorem step_rinv_own (s s' : St) (t k : Nat) (hi : RInv s) (h : step s (.own t k) = some s') : RInv s' := by rec_step t
theorem step_rinv_zero (s s' : St) (t : Nat) (hi : RInv s) (h : step s (.zero t) = some s') : RInv s' := by
  have hctx := want_unlock_owner hi t
  rec_step t
theorem step_rinv_dec (s s' : St) (t c : Nat) (hi : RInv s) (h : step s (.dec t c) = some s') : RInv s' := by
  have hctx := want_unlock_owner hi t
  rec_step t
theorem step_rinv_free (s s' : St) (t : Nat) (hi : RInv s) (h : step s (.free t) = some s') : RInv s' := by rec_step t
theorem step_rinv_csEnter (s s' : St) (t : Nat) (hi : RInv s) (h : step s (.csEnter t) = some s') : RInv s' := by rec_step t
theorem step_rinv_csExit (s s' : St) (t : Nat) (hi : RInv s) (h : step s (.csExit t) = some s') : RInv s' := by rec_step t
theorem step_rinv_done (s s' : St) (t : Nat) (hi : RInv s) (h : step s (.done t) = some s') : RInv s' := by rec_step t

theorem step_rinv (s s' : St) (e : Ev) (hi : RInv s) (h : step s e = some s') : RInv s' := by
  cases e with
  | inv t o => exact step_rinv_inv s s' t o hi h
  | ret t r => exact step_rinv_ret s s' t r hi h
  | reent t c => exact step_rinv_reent s s' t c hi h
  | slAcq t => exact step_rinv_slAcq s s' t hi h
  | slTry t r => exact step_rinv_slTry s s' t r hi h
  | own t k => exact step_rinv_own s s' t k hi h
  | zero t => exact step_rinv_zero s s' t hi h
  | dec t c => exact step_rinv_dec s s' t c hi h
  | free t => exact step_rinv_free s s' t hi h
  | csEnter t => exact step_rinv_csEnter s s' t hi h
  | csExit t => exact step_rinv_csExit s s' t hi h
  | done t => exact step_rinv_done s s' t hi h

theorem rinv_of_accepted {n : Nat} {log : List Ev} {s : St}
    (h : runLog step (init n) log = some s) : RInv s :=
  inv_of_runLog RInv (fun s e s' => step_rinv s s' e) (rinv_init n) h

end PikaVerif.Rec

namespace PikaVerif.Spin
open PikaVerif

def b2n (b : Bool) : Nat := if b then 1 else 0

/-- Program counters at which the thread has the lock without `holdsG`: acquired and not yet
    reported, or `unlock` invoked and not yet executed. -/
def mid : Pc → Bool
  | .retn o r => r && !decide (o = .sunlock)
  | .want o => decide (o = .sunlock)
  | _ => false

def inUnl : Pc → Bool
  | .want o => decide (o = .sunlock)
  | .retn o _ => decide (o = .sunlock)
  | _ => false

def expectTook : Pc → Option Bool
  | .want _ => some false
  | .retn o r => if o = .sunlock then none else some r
  | _ => none

structure SInv (s : St) : Prop where
  outside : ∀ t, s.n ≤ t → s.pc t = .idle ∧ s.inCS t = false ∧ s.holdsG t = false
  hold1 : ∀ t, s.holdsG t = true → s.v = some t
  stage : ∀ t, mid (s.pc t) = true → s.v = some t
  vRev : ∀ u, s.v = some u → s.holdsG u = true ∨ mid (s.pc u) = true
  unlockStage : ∀ t, inUnl (s.pc t) = true → s.holdsG t = false
  csHold : ∀ t, s.inCS t = true → s.holdsG t = true
  occSum : s.enters = s.exits + sumTo s.n (fun t => b2n (s.inCS t))
  took : ∀ t b, expectTook (s.pc t) = some b → s.tookOp t = b

theorem sinv_init (n : Nat) : SInv (init n) := by
  refine ⟨?_, ?_, ?_, ?_, ?_, ?_, ?_, ?_⟩ <;> simp [init, mid, inUnl, expectTook]
  exact (sumTo_eq_zero (fun t _ => rfl)).symm

attribute [local grind] mid inUnl expectTook b2n

set_option hygiene false in
macro "spin_step" t:term : tactic => `(tactic| (
  simp only [step] at h
  obtain ⟨h1,h2,h3,h4,h5,h6,h7,h8⟩ := hi
  split at h
  case isFalse => simp at h
  rename_i hg
  have htn : $t < s.n := by grind
  have hle := le_sumTo (f := fun u => b2n (s.inCS u)) htn
  repeat' split at h
  all_goals first | (simp at h; done) | skip
  all_goals (
    simp only [Option.some.injEq] at h
    subst h
    refine ⟨?_, ?_, ?_, ?_, ?_, ?_, ?_, ?_⟩ <;> dsimp only
  )
  all_goals first
    | assumption
    | (intro u; grind [upd])
    | (rw [sumTo_upd_eq _ _ _ _ _ htn]; grind)
    | grind [upd]))

theorem step_sinv (s s' : St) (e : Ev) (hi : SInv s) (h : step s e = some s') : SInv s' := by
  cases e with
  | inv t o => spin_step t
  | ret t r => spin_step t
  | slAcq t => spin_step t
  | slTry t r => spin_step t
  | slRel t => spin_step t
  | csEnter t => spin_step t
  | csExit t => spin_step t
  | done t => spin_step t

theorem sinv_of_accepted {n : Nat} {log : List Ev} {s : St}
    (h : runLog step (init n) log = some s) : SInv s :=
  inv_of_runLog SInv (fun s e s' => step_sinv s s' e) (sinv_init n) h

end PikaVerif.Spin
