import PikaVerif.Model.Place
/-! Invariants of the placement model `Place` (C10). -/
namespace PikaVerif.Place
open PikaVerif

/-- **Pool consistency**: wherever a task (or a staged task description) sits — in a queue, or held
    by a worker — that place belongs to the pool of the task's own scheduler. -/
structure Inv1 (s : St) : Prop where
  entPool : ∀ e, (s.ent e).live = true → (s.ent e).qpool = (s.ent e).sched
  locPool : ∀ o, (s.task o).live = true → (s.task o).loc.isSome = true → (s.task o).lpool = (s.task o).sched
  holdPool : ∀ o, (s.task o).live = true → (s.task o).holder.isSome = true → (s.task o).hpool = (s.task o).sched
  holdWorker : ∀ o a, (s.task o).live = true → (s.task o).holder = some a →
    (s.act a).worker = some ((s.task o).hpool, (s.task o).hidx)
  taskKnown : ∀ o, (s.task o).live = true → (s.pool (s.task o).sched).known = true
  entKnown : ∀ e, (s.ent e).live = true → (s.pool (s.ent e).sched).known = true
  phaseHeld : ∀ o, (s.task o).live = true → (s.task o).inPhase = true → (s.task o).holder.isSome = true

/-- **Sender operations**: tasks created by the start of operation `k` exist only after that start
    began, live on `k`'s target pool, and are never held by an actor that is inside `start(k)`. -/
structure Inv2 (s : St) : Prop where
  payStarted : ∀ o k, (s.task o).live = true → (s.task o).payload = some k → (s.op k).started = true
  payStartedE : ∀ e k, (s.ent e).live = true → (s.ent e).payload = some k → (s.op k).started = true
  startStarted : ∀ b k, (s.act b).starting = some k → (s.op k).started = true
  notInline : ∀ o b k, (s.task o).live = true → (s.task o).payload = some k → (s.act b).starting = some k →
    (s.task o).holder ≠ some b
  payTarget : ∀ o k, (s.task o).live = true → (s.task o).payload = some k → (s.task o).sched = (s.op k).target
  payTargetE : ∀ e k, (s.ent e).live = true → (s.ent e).payload = some k → (s.ent e).sched = (s.op k).target

/-- **Fresh actors**: an OS thread that has not produced any event is no pool worker, is not
    inside a start call and holds no task. -/
structure Inv3 (s : St) : Prop where
  freshAct : ∀ a, (s.act a).seen = false → (s.act a).worker = none ∧ (s.act a).starting = none
  freshHold : ∀ a o, (s.act a).seen = false → (s.task o).live = true → (s.task o).holder ≠ some a

/-- the pool can neither steal nor redirect, and every worker has its own high priority queue -/
def PinnedP (P : Pool) : Prop :=
  P.known = true ∧ P.steal = false ∧ P.elastic = false ∧ P.opq = false ∧ (P.prioQ = true → P.nhp = P.n)

/-- the worker a creation hint names on pool `P` -/
def pinTarget (P : Pool) (hint : Option Int) : Option Nat :=
  match hint with
  | some v => (match hintNum v with | some m => some (m % P.n) | none => none)
  | none => none

/-- **Static hint**: a normal-priority task with a worker hint on a pinned pool that has never been
    re-queued by `set_thread_state` with a hint that names no worker sits only in queues of, is held
    only by, and has recorded as last worker only, the hinted worker. -/
structure Inv4 (s : St) : Prop where
  pinE : ∀ e h, (s.ent e).live = true → PinnedP (s.pool (s.ent e).sched) → (s.ent e).prio = pNormal →
    pinTarget (s.pool (s.ent e).sched) (s.ent e).hint = some h → (s.ent e).qidx = h ∧ (s.ent e).qcls ≠ cLow
  pinLoc : ∀ o h, (s.task o).live = true → PinnedP (s.pool (s.task o).sched) → (s.task o).prio = pNormal →
    (s.task o).strayed = false → pinTarget (s.pool (s.task o).sched) (s.task o).hint = some h →
    (s.task o).loc.isSome = true → (s.task o).lidx = h ∧ (s.task o).lcls ≠ cLow
  pinHold : ∀ o h, (s.task o).live = true → PinnedP (s.pool (s.task o).sched) → (s.task o).prio = pNormal →
    (s.task o).strayed = false → pinTarget (s.pool (s.task o).sched) (s.task o).hint = some h →
    (s.task o).holder.isSome = true → (s.task o).hidx = h
  pinLw : ∀ o h v, (s.task o).live = true → PinnedP (s.pool (s.task o).sched) → (s.task o).prio = pNormal →
    (s.task o).strayed = false → pinTarget (s.pool (s.task o).sched) (s.task o).hint = some h →
    v ∈ (s.task o).lw → v = -1 ∨ v = (h : Int)

theorem hintNum_nat (n : Nat) : hintNum (n : Int) = some n := by
  unfold hintNum
  have h1 : ¬ ((n : Int) = -1) := by omega
  have h2 : ¬ ((n : Int) < 0) := by omega
  simp [h1, h2]

theorem okIdx_spec {P : Pool} {mode : Nat} {v : Int} {idx : Nat} (h : okIdx P mode v idx = true) :
    idx < P.n ∧ (P.elastic = false → ∀ i, pickIdx P.n mode v = some i → idx = i) := by
  unfold okIdx at h
  simp only [Bool.and_eq_true, Bool.or_eq_true, decide_eq_true_eq] at h
  refine ⟨h.1, ?_⟩
  intro he i hp
  rcases h.2 with h2 | h2
  · simp [he] at h2
  · rw [hp] at h2; simpa using h2

theorem pin_pick {P : Pool} {v : Int} {h : Nat} (hp : pinTarget P (some v) = some h) :
    pickIdx P.n 1 v = some h := by
  unfold pinTarget at hp
  unfold pickIdx
  simp only [] at hp
  split at hp <;> simp_all

theorem pin_none {P : Pool} {h : Nat} : pinTarget P none ≠ some h := by simp [pinTarget]

theorem pin_mod {P : Pool} {hint : Option Int} {h : Nat} (hp : pinTarget P hint = some h) : h % P.n = h := by
  unfold pinTarget at hp
  split at hp
  · split at hp
    · simp only [Option.some.injEq] at hp; subst hp; exact Nat.mod_mod _ _
    · simp at hp
  · simp at hp

theorem pick_nat (n w : Nat) : pickIdx n 1 (w : Int) = some (w % n) := by
  simp [pickIdx, hintNum_nat]

theorem pick_mode {n mode : Nat} {v : Int} {i : Nat} (h : pickIdx n mode v = some i) : mode = 1 := by
  unfold pickIdx at h
  split at h
  · assumption
  · simp at h

theorem inv1_init : Inv1 init := by constructor <;> simp [init]
theorem inv2_init : Inv2 init := by constructor <;> simp [init]
theorem inv3_init : Inv3 init := by constructor <;> simp [init]
theorem inv4_init : Inv4 init := by constructor <;> simp [init]

attribute [local grind] taskFree storedPrio

set_option hygiene false in
macro "place_core" : tactic => `(tactic| (
  simp only [core] at h
  repeat' split at h
  all_goals first | (simp at h; done) | skip
  all_goals (
    simp only [Option.some.injEq] at h
    subst h
    constructor <;> (try dsimp only) <;> intros <;> grind [upd])))

theorem core_inv1 (s s' : St) (e : Ev) (hi : Inv1 s) (h : core s e = some s') : Inv1 s' := by
  obtain ⟨h1, h2, h3, h4, h5, h6, h7⟩ := hi
  cases e with
  | poolCfg a p n nhp pq st el op => place_core
  | queueReg a q p cls idx n nhp => place_core
  | worker a p w => place_core
  | create a e p idx mode v prio q => place_core
  | createNow a o p idx mode v prio q bp bprio => place_core
  | convert a e o qd qs bp bprio => place_core
  | bindOnly a o bp bprio => place_core
  | sched a o p idx mode v prio allow q => place_core
  | pop a o q => place_core
  | phaseBegin a o w => place_core
  | phaseEnd a o r => place_core
  | lwStore a o v => place_core
  | stsHint a o mode v => place_core
  | start a k p => place_core
  | started a k => place_core
  | run a o k => place_core
  | runStd a k => place_core
  | obs a o p w => place_core

theorem core_inv2 (s s' : St) (e : Ev) (hi : Inv2 s) (h : core s e = some s') : Inv2 s' := by
  obtain ⟨h1, h2, h3, h4, h5, h6⟩ := hi
  cases e with
  | poolCfg a p n nhp pq st el op => place_core
  | queueReg a q p cls idx n nhp => place_core
  | worker a p w => place_core
  | create a e p idx mode v prio q => place_core
  | createNow a o p idx mode v prio q bp bprio => place_core
  | convert a e o qd qs bp bprio => place_core
  | bindOnly a o bp bprio => place_core
  | sched a o p idx mode v prio allow q => place_core
  | pop a o q => place_core
  | phaseBegin a o w => place_core
  | phaseEnd a o r => place_core
  | lwStore a o v => place_core
  | stsHint a o mode v => place_core
  | start a k p => place_core
  | started a k => place_core
  | run a o k => place_core
  | runStd a k => place_core
  | obs a o p w => place_core

/-- marking an actor as seen changes nothing the first two invariants talk about -/
theorem mark_inv1 (s : St) (a : Nat) (hi : Inv1 s) : Inv1 (mark s a) := by
  obtain ⟨h1, h2, h3, h4, h5, h6, h7⟩ := hi
  constructor <;> simp only [mark] <;> intros <;> grind [upd]

theorem mark_inv2 (s : St) (a : Nat) (hi : Inv2 s) : Inv2 (mark s a) := by
  obtain ⟨h1, h2, h3, h4, h5, h6⟩ := hi
  constructor <;> simp only [mark] <;> intros <;> grind [upd]

theorem step_inv1 (s s' : St) (e : Ev) (hi : Inv1 s) (h : step s e = some s') : Inv1 s' := by
  simp only [step] at h
  split at h
  · rename_i s1 hc
    simp only [Option.some.injEq] at h
    subst h
    exact mark_inv1 _ _ (core_inv1 s s1 e hi hc)
  · simp at h

theorem step_inv2 (s s' : St) (e : Ev) (hi : Inv2 s) (h : step s e = some s') : Inv2 s' := by
  simp only [step] at h
  split at h
  · rename_i s1 hc
    simp only [Option.some.injEq] at h
    subst h
    exact mark_inv2 _ _ (core_inv2 s s1 e hi hc)
  · simp at h


/-! ### Fresh actors (proved on `step`, because `core` + `mark` only together keep it) -/

set_option hygiene false in
macro "place_step3" : tactic => `(tactic| (
  simp only [step] at h
  split at h
  · rename_i s1 hc
    simp only [Option.some.injEq] at h
    subst h
    simp only [core] at hc
    repeat' split at hc
    all_goals first | (simp at hc; done) | skip
    all_goals (
      simp only [Option.some.injEq] at hc
      subst hc
      constructor <;> simp only [mark, Ev.actor] <;> intros <;> grind [upd])
  · simp at h))

theorem step_inv3 (s s' : St) (e : Ev) (hi : Inv3 s) (h : step s e = some s') : Inv3 s' := by
  obtain ⟨h1, h2⟩ := hi
  cases e with
  | poolCfg a p n nhp pq st el op => place_step3
  | queueReg a q p cls idx n nhp => place_step3
  | worker a p w => place_step3
  | create a e p idx mode v prio q => place_step3
  | createNow a o p idx mode v prio q bp bprio => place_step3
  | convert a e o qd qs bp bprio => place_step3
  | bindOnly a o bp bprio => place_step3
  | sched a o p idx mode v prio allow q => place_step3
  | pop a o q => place_step3
  | phaseBegin a o w => place_step3
  | phaseEnd a o r => place_step3
  | lwStore a o v => place_step3
  | stsHint a o mode v => place_step3
  | start a k p => place_step3
  | started a k => place_step3
  | run a o k => place_step3
  | runStd a k => place_step3
  | obs a o p w => place_step3

end PikaVerif.Place
