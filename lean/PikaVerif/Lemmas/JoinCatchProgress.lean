import PikaVerif.Lemmas.JoinCatch
import PikaVerif.Props.C13
/-! Progress for `JoinCatch` (follow-up C13j): the stuck-state analysis of `C13_join_returns` depends on the reachable
state only through the invariant `Join.Inv`; here it is for any state that satisfies the invariant (same proof text),
so that it applies to the states of `JoinCatch`, where user code may have handled interruptions. -/
namespace PikaVerif.Join
open PikaVerif PikaVerif.C13

theorem join_returns_of_inv (s : Join.St) (hi : Join.Inv s) (hs : C13.Stuck s) :
    (∀ j, s.jpc j = .out ∨ ∃ h o, s.jpc j = .susp h o ∧ s.tok j = 0 ∧
        (s.phase o = .fresh ∨ s.phase o = .body)) ∧
    (∀ o, s.phase o = .fresh ∨ s.phase o = .body ∨ s.phase o = .exited) := by
  have en : ∀ e, ¬ External s e → step s e ≠ none → False := fun e h1 h2 => h1 (hs e h2)
  have hph : ∀ o, s.phase o = .fresh ∨ s.phase o = .body ∨ s.phase o = .exited := by
    intro o
    cases hp : s.phase o
    case fresh => simp
    case body => simp
    case exited => simp
    case hit => exact (en (.ipClear o) (by simp [External]) (by simp [step, hp])).elim
    case unwinding =>
      have := hi.phaseOut o (by simp [hp])
      exact (en (.interrupted o) (by simp [External]) (by simp [step, hp, this])).elim
    case finished =>
      exact (en (.ecBegin o (s.funcs o).length) (by simp [External]) (by simp [step, hp])).elim
    case loopHead =>
      cases hf : s.funcs o with
      | nil => exact (en (.ecRan o) (by simp [External]) (by simp [step, hp, hf])).elim
      | cons c rest => exact (en (.ecTake o rest.length) (by simp [External]) (by simp [step, hp, hf])).elim
    case run c =>
      cases c with
      | join j =>
        have hw := hi.cbOwner j o (by simp [hp])
        have hne : j ≠ o := by
          intro he; subst he
          have := hi.phaseOut j (by simp [hp]); rw [this] at hw; simp at hw
        exact (en (.resume j o) (by simp [External]) (by simp [step, hp, hne])).elim
      | user k => exact (en (.ucb o o k) (by simp [External]) (by simp [step, hp])).elim
    case ranCb => exact (en (.ecNext o (s.funcs o).length) (by simp [External]) (by simp [step, hp])).elim
    case exitedL => exact (en (.exited o) (by simp [External]) (by simp [step, hp])).elim
  refine ⟨?_, hph⟩
  intro j
  -- no handle lock is held in a stuck state
  have free : ∀ h, s.mtx h = none := by
    intro h
    cases hm : s.mtx h with
    | none => rfl
    | some r =>
      exfalso
      have hh := hi.mtxHolder h r hm
      cases hp : s.jpc r <;> simp [hp] at hh
      case locked h' =>
        subst hh
        cases hid : s.hid h' with
        | none => exact en (.jnErr h' r 1) (by simp [External]) (by simp [step, hp, hm, hid])
        | some o =>
          by_cases ho : o = r
          · subst ho; exact en (.jnErr h' o 2) (by simp [External]) (by simp [step, hp, hm, hid])
          · exact en (.jnChecked h' r o) (by simp [External]) (by simp [step, hp, hm, hid, ho])
      case checked h' o =>
        subst hh
        by_cases hq : s.en r = true ∧ s.req r = true
        · have hb : s.phase r = .body := hi.jpcBody r (by simp [hp])
          exact en (.ipHit r true) (by simp [External, hp]) (by simp [step, hp, hm, hq, hb])
        · exact en (.ipMiss r) (by simp [External, hp]) (by simp [step, hp, hq])
      case pointed h' o =>
        subst hh
        have hne : o ≠ r := by
          have := hi.selfFree r; rw [hp] at this; simpa using this
        exact en (.ecAdd o r (if s.ran o then 0 else if s.term o then 2 else 1)) (by simp [External])
          (by simp only [step, hp]; simp [hne]; split <;> (try split) <;> simp)
      case added h' o =>
        subst hh
        exact en (.jnUnlock h' r) (by simp [External]) (by simp [step, hp, hm])
      case refused h' o =>
        subst hh
        exact en (.jnDone h' r) (by simp [External]) (by simp [step, hp, hm])
  cases hp : s.jpc j
  case out => exact Or.inl rfl
  case locked h => have := hi.holdsMtx j h (by simp [hp]); rw [free h] at this; simp at this
  case checked h o => have := hi.holdsMtx j h (by simp [hp]); rw [free h] at this; simp at this
  case pointed h o => have := hi.holdsMtx j h (by simp [hp]); rw [free h] at this; simp at this
  case added h o => have := hi.holdsMtx j h (by simp [hp]); rw [free h] at this; simp at this
  case refused h o => have := hi.holdsMtx j h (by simp [hp]); rw [free h] at this; simp at this
  case window h o => exact (en (.jnSusp h j) (by simp [External]) (by simp [step, hp])).elim
  case woke h o => exact (en (.jnDone h j) (by simp [External]) (by simp [step, hp, free h])).elim
  case uadd o k =>
    have hne : o ≠ j := by
      have := hi.selfFree j; rw [hp] at this; simpa using this
    exact (en (.ecAdd o j (if s.ran o then 0 else if s.term o then 2 else 1)) (by simp [External])
      (by simp only [step, hp]; simp [hne]; split <;> (try split) <;> simp)).elim
  case susp h o =>
    by_cases ht : 0 < s.tok j
    · exact (en (.jnWoke h j) (by simp [External]) (by simp [step, hp, ht])).elim
    · refine Or.inr ⟨h, o, rfl, by omega, ?_⟩
      have hb := hi.balance j o (by simp [hp])
      rcases hph o with h1 | h1 | h1
      · exact Or.inl h1
      · exact Or.inr h1
      · exfalso
        have hr' := hi.phaseRan o (Or.inr h1)
        have he := hi.ranEmpty o hr'
        rw [he, h1] at hb
        simp at hb
        omega

end PikaVerif.Join
