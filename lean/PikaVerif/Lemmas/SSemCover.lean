import PikaVerif.Lemmas.SSemProg
/-!
# Covered programs over the sliding semaphore (C08t, sliding clause)

Ghost-free bookkeeping that ties the model's `lower` limit to the program:
* `unguarded`: the signal values of a thread's program that are not sequenced behind a `wait` of
  the same thread (a signal behind a `wait` may never run, because that `wait` may block);
* `pendU`: the unguarded signal values a thread has still to deliver (empty while the thread is
  inside a `wait`);
* invariant `Cover`: every unguarded signal value of the original program is either already
  `≤ lower` or still pending; `maxDiff` is constant, `lower` never drops below its initial value,
  and every `wait(u)` in progress or still to run stems from the original program.
-/
namespace PikaVerif.SSem
open PikaVerif

/-- signal values not sequenced behind a `wait` of the same thread -/
def unguarded : List Op → List Int
  | [] => []
  | .wait _ :: _ => []
  | .signal l :: r => l :: unguarded r
  | .tryw _ :: r => unguarded r

/-- upper limits of the (untimed) `wait` operations of a program -/
def waitVals : List Op → List Int
  | [] => []
  | .wait u :: r => u :: waitVals r
  | .tryw _ :: r => waitVals r
  | .signal _ :: r => waitVals r

/-- inside an untimed `wait(u)` whose condition has not been seen satisfied yet -/
def inWait : Pc → Bool
  | .want (.wait _) => true
  | .locked _ false _ => true
  | .enq _ | .unl _ _ | .susp _ _ | .wokeNL _ _ | .relk _ _ => true
  | _ => false

/-- the value of a `signal` in progress that has not yet raised `lower` -/
def curSig : Pc → List Int
  | .want (.signal l) => [l]
  | .lockedSig l => [l]
  | _ => []

/-- the upper limit of the untimed `wait` in progress -/
def curWait : Pc → List Int
  | .want (.wait u) => [u]
  | .locked u false _ => [u]
  | .enq u | .unl u _ | .susp u _ | .wokeNL u _ | .relk u _ => [u]
  | _ => []

/-- unguarded signal values thread `t` has still to deliver -/
def pendU (p : PSt) (t : Nat) : List Int :=
  if inWait (p.s.pc t) = true then [] else curSig (p.s.pc t) ++ unguarded (p.prog t)

theorem setPopped_cover {q q' : Pc} (h : setPopped q = some q') :
    inWait q' = inWait q ∧ curSig q' = curSig q ∧ curWait q' = curWait q := by
  unfold setPopped at h
  split at h <;> simp at h <;> subst h <;> simp [inWait, curSig, curWait]

/-- what one accepted non-`inv` event does to the bookkeeping of every thread -/
def USigStep (s s' : St) : Prop :=
  s.lower ≤ s'.lower ∧ s'.maxDiff = s.maxDiff ∧
  ∀ u, (inWait (s'.pc u) = true → inWait (s.pc u) = true) ∧
       (∀ x, x ∈ curSig (s.pc u) → x ≤ s'.lower ∨ x ∈ curSig (s'.pc u)) ∧
       (∀ w, w ∈ curWait (s'.pc u) → w ∈ curWait (s.pc u))

set_option hygiene false in
macro "usig_step" t:term : tactic => `(tactic| (
  unfold USigStep
  simp only [step] at h
  repeat' split at h
  all_goals first | (simp at h; done) | skip
  all_goals (
    simp only [Option.some.injEq] at h
    subst h
    refine ⟨?_, rfl, fun u => ?_⟩
    · first | exact Int.le_refl _ | (subst_vars; exact Int.le_max_right _ _)
    · by_cases hut : u = $t
      · subst hut
        simp_all [upd, inWait, curSig, curWait, Int.le_max_left]
      · simp only [upd, hut, if_false]
        exact ⟨id, fun x hx => Or.inr hx, fun w hw => hw⟩)))

theorem usig_ret (s s' : St) (t : Nat) (r : Bool) (h : step s (.ret t r) = some s') : USigStep s s' := by usig_step t
theorem usig_slAcq (s s' : St) (t : Nat) (h : step s (.slAcq t) = some s') : USigStep s s' := by usig_step t
theorem usig_slRel (s s' : St) (t : Nat) (h : step s (.slRel t) = some s') : USigStep s s' := by usig_step t
theorem usig_cvEnq (s s' : St) (t z : Nat) (h : step s (.cvEnq t z) = some s') : USigStep s s' := by usig_step t
theorem usig_cvNone (s s' : St) (t : Nat) (h : step s (.cvNone t) = some s') : USigStep s s' := by usig_step t
theorem usig_cvWoke (s s' : St) (t : Nat) (a : Bool) (h : step s (.cvWoke t a) = some s') : USigStep s s' := by usig_step t
theorem usig_pass (s s' : St) (t : Nat) (u l : Int) (h : step s (.pass t u l) = some s') : USigStep s s' := by usig_step t
theorem usig_sig (s s' : St) (t : Nat) (l : Int) (z : Nat) (h : step s (.sig t l z) = some s') : USigStep s s' := by usig_step t
theorem usig_suspend (s s' : St) (t : Nat) (h : step s (.suspend t) = some s') : USigStep s s' := by usig_step t
theorem usig_woke (s s' : St) (t : Nat) (h : step s (.woke t) = some s') : USigStep s s' := by usig_step t
theorem usig_done (s s' : St) (t : Nat) (h : step s (.done t) = some s') : USigStep s s' := by usig_step t

theorem usig_popResume (s s' : St) (t z g : Nat) (h : step s (.popResume t z g) = some s') :
    USigStep s s' := by
  unfold USigStep
  simp only [step] at h
  repeat' split at h
  all_goals first | (simp at h; done) | skip
  all_goals (
    rename_i hpc _ _ _ hsp
    obtain ⟨e1, e2, e3⟩ := setPopped_cover hsp
    simp only [Option.some.injEq] at h
    subst h
    refine ⟨Int.le_refl _, rfl, fun u => ?_⟩
    by_cases hut : u = t
    · subst hut
      simp_all [upd, inWait, curSig, curWait]
    · by_cases hug : u = g
      · subst hug
        simp only [upd, hut, if_false, if_true, e1, e2, e3]
        exact ⟨id, fun x hx => Or.inr hx, fun w hw => hw⟩
      · simp only [upd, hut, hug, if_false]
        exact ⟨id, fun x hx => Or.inr hx, fun w hw => hw⟩)

theorem usig_step (s s' : St) (e : Ev) (hne : ∀ t o, e ≠ .inv t o) (h : step s e = some s') :
    USigStep s s' := by
  cases e with
  | inv t o => exact absurd rfl (hne t o)
  | ret t r => exact usig_ret s s' t r h
  | slAcq t => exact usig_slAcq s s' t h
  | slRel t => exact usig_slRel s s' t h
  | cvEnq t z => exact usig_cvEnq s s' t z h
  | popResume t z g => exact usig_popResume s s' t z g h
  | cvNone t => exact usig_cvNone s s' t h
  | cvWoke t a => exact usig_cvWoke s s' t a h
  | pass t u l => exact usig_pass s s' t u l h
  | sig t l z => exact usig_sig s s' t l z h
  | suspend t => exact usig_suspend s s' t h
  | woke t => exact usig_woke s s' t h
  | done t => exact usig_done s s' t h

theorem usig_inv (s s' : St) (t : Nat) (o : Op) (h : step s (.inv t o) = some s') :
    s'.lower = s.lower ∧ s'.maxDiff = s.maxDiff ∧ s.pc t = .idle ∧ s'.pc = upd s.pc t (.want o) := by
  simp only [step] at h
  split at h
  case isFalse => simp at h
  rename_i hg
  simp only [Option.some.injEq] at h
  subst h
  exact ⟨rfl, rfl, hg.2, rfl⟩

/-- the covering invariant of a run of `prog0` started with distance `d` and lower limit `l` -/
def UCover (d l : Int) (prog0 : Nat → List Op) (p : PSt) : Prop :=
  p.s.maxDiff = d ∧ l ≤ p.s.lower ∧
  (∀ t x, x ∈ unguarded (prog0 t) → x ≤ p.s.lower ∨ x ∈ pendU p t) ∧
  (∀ t u, u ∈ curWait (p.s.pc t) ∨ u ∈ waitVals (p.prog t) → u ∈ waitVals (prog0 t))

theorem ucover_pinit (n : Nat) (d l : Int) (prog : Nat → List Op) : UCover d l prog (pinit n d l prog) := by
  refine ⟨rfl, Int.le_refl _, ?_, ?_⟩
  · intro t x hx
    right
    simpa [pendU, pinit, init, inWait, curSig] using hx
  · intro t u hu
    simpa [pinit, init, curWait] using hu

theorem ucover_step (d l : Int) (prog0 : Nat → List Op) (p p' : PSt) (e : Ev)
    (hc : UCover d l prog0 p) (h : pstep p e = some p') : UCover d l prog0 p' := by
  have hs := pstep_step p p' e h
  obtain ⟨c1, c2, c3, c4⟩ := hc
  by_cases hinv : ∃ t o, e = .inv t o
  · obtain ⟨t, o, he⟩ := hinv
    subst he
    obtain ⟨rest, hp, hp', htn⟩ := pstep_inv p p' t o h
    obtain ⟨a1, a2, a3, a4⟩ := usig_inv _ _ _ _ hs
    refine ⟨by omega, by omega, ?_, ?_⟩
    · intro u x hx
      have hx' := c3 u x hx
      rw [a1]
      rcases hx' with hx' | hx'
      · exact Or.inl hx'
      · by_cases hut : u = t
        · subst hut
          simp only [pendU, a3, hp, inWait, curSig] at hx'
          simp only [pendU, a4, hp', upd, if_true]
          cases o with
          | wait w => simp [unguarded] at hx'
          | tryw w =>
            simp [unguarded] at hx'
            right; simp [inWait, curSig, hx']
          | signal w =>
            simp [unguarded] at hx'
            right; simp [inWait, curSig]; exact hx'
        · right
          simpa only [pendU, a4, hp', upd, hut, if_false] using hx'
    · intro u w hw
      by_cases hut : u = t
      · subst hut
        apply c4 u w
        right
        rw [hp]
        simp only [a4, hp', upd, if_true] at hw
        cases o <;> simp [curWait, waitVals] at hw ⊢ <;> first | exact hw | (right; exact hw) | skip
      · apply c4 u w
        simpa only [a4, hp', upd, hut, if_false] using hw
  · have hne : ∀ t o, e ≠ .inv t o := fun t o he => hinv ⟨t, o, he⟩
    have hp := pstep_prog p p' e hne h
    obtain ⟨b1, b2, b3⟩ := usig_step _ _ _ hne hs
    refine ⟨by omega, by omega, ?_, ?_⟩
    · intro u x hx
      obtain ⟨d1, d2, d3⟩ := b3 u
      rcases c3 u x hx with hx' | hx'
      · left; omega
      · simp only [pendU] at hx' ⊢
        by_cases h1 : inWait (p.s.pc u) = true
        · simp [h1] at hx'
        · have h2 : ¬ inWait (p'.s.pc u) = true := fun hh => h1 (d1 hh)
          rw [if_neg h1] at hx'
          rw [if_neg h2, hp]
          rcases List.mem_append.1 hx' with hx' | hx'
          · rcases d2 x hx' with hh | hh
            · exact Or.inl hh
            · exact Or.inr (List.mem_append.2 (Or.inl hh))
          · exact Or.inr (List.mem_append.2 (Or.inr hx'))
    · intro u w hw
      apply c4 u w
      rcases hw with hw | hw
      · exact Or.inl ((b3 u).2.2 w hw)
      · right; rw [← hp]; exact hw

theorem ucover_log (d l : Int) (prog0 : Nat → List Op) {p p' : PSt} {log : List Ev}
    (hc : UCover d l prog0 p) (h : runLog pstep p log = some p') : UCover d l prog0 p' :=
  inv_of_runLog (UCover d l prog0) (fun a e b ha hs => ucover_step d l prog0 a b e ha hs) hc h

end PikaVerif.SSem
