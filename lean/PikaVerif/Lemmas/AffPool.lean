import PikaVerif.Lemmas.Aff
/-! C15: the resource partitioner keeps the pools a partition of the exposed PUs. -/
namespace PikaVerif.Aff.Pool
open PikaVerif

theorem nodup_filter {l : List Nat} (p : Nat → Bool) (h : l.Nodup) : (l.filter p).Nodup := by
  induction l with
  | nil => simp
  | cons a t ih =>
    rw [List.nodup_cons] at h
    simp only [List.filter]
    split
    · rw [List.nodup_cons]
      exact ⟨fun hm => h.1 (List.mem_filter.1 hm).1, ih h.2⟩
    · exact ih h.2

/-- invariant of the partitioner: the pools are a partition of the PUs handed out so far -/
structure Inv (s : St) : Prop where
  nodupE : s.exposed.Nodup
  pos : 0 < s.npools
  nodup : ∀ i, (s.pool i).Nodup
  disj : ∀ i j p, i ≠ j → p ∈ s.pool i → p ∉ s.pool j
  cover : ∀ p, (∃ i, i < s.npools ∧ p ∈ s.pool i) ↔ (p ∈ s.exposed ∧ s.occ p ≠ 0)
  inside : ∀ i p, p ∈ s.pool i → i < s.npools

theorem step_inv (s s' : St) (e : Ev) (h : Inv s) (hs : step s e = some s') : Inv s' := by
  unfold step at hs
  split at hs
  · simp at hs
  · cases e with
    | create =>
      simp only [Option.some.injEq] at hs
      subst hs
      refine ⟨h.nodupE, by dsimp only; omega, h.nodup, h.disj, ?_, ?_⟩ <;> dsimp only
      · intro p
        rw [← h.cover p]
        constructor
        · rintro ⟨i, _, hp⟩; exact ⟨i, h.inside i p hp, hp⟩
        · rintro ⟨i, hi, hp⟩; exact ⟨i, by omega, hp⟩
      · intro i p hp; have := h.inside i p hp; omega
    | add pu pool =>
      simp only at hs
      split at hs
      · rename_i hpre
        split at hs
        · rename_i hocc
          split at hs
          · simp at hs
          · simp only [Option.some.injEq] at hs
            subst hs
            have hnot : ∀ i, pu ∉ s.pool i := by
              intro i hm
              have := (h.cover pu).1 ⟨i, h.inside i pu hm, hm⟩
              exact this.2 hocc
            refine ⟨h.nodupE, h.pos, ?_, ?_, ?_, ?_⟩ <;> dsimp only
            · intro i
              by_cases hi : i = pool
              · subst hi
                simp only [upd_same, List.nodup_append]
                refine ⟨h.nodup i, by simp, ?_⟩
                intro a ha b hb
                simp only [List.mem_singleton] at hb
                subst hb
                intro he; subst he; exact hnot i ha
              · simp only [upd, hi, ↓reduceIte]; exact h.nodup i
            · intro i j p hij hp hq
              by_cases hi : i = pool
              · have hj : j ≠ pool := by omega
                subst hi
                simp only [upd_same, List.mem_append, List.mem_singleton] at hp
                simp only [upd, hj, ↓reduceIte] at hq
                rcases hp with hp | hp
                · exact h.disj i j p hij hp hq
                · subst hp; exact hnot j hq
              · simp only [upd, hi, ↓reduceIte] at hp
                by_cases hj : j = pool
                · subst hj
                  simp only [upd_same, List.mem_append, List.mem_singleton] at hq
                  rcases hq with hq | hq
                  · exact h.disj i j p hij hp hq
                  · subst hq; exact hnot i hp
                · simp only [upd, hj, ↓reduceIte] at hq
                  exact h.disj i j p hij hp hq
            · intro p
              by_cases hp : p = pu
              · subst hp
                simp only [upd_same]
                constructor
                · intro _; exact ⟨hpre.1, by omega⟩
                · intro _; exact ⟨pool, hpre.2, by simp⟩
              · simp only [upd, hp, ↓reduceIte]
                rw [← h.cover p]
                constructor
                · rintro ⟨i, hi, hm⟩
                  by_cases hip : i = pool
                  · subst hip
                    simp only [↓reduceIte, List.mem_append, List.mem_singleton, hp, or_false] at hm
                    exact ⟨i, hi, hm⟩
                  · simp only [hip, ↓reduceIte] at hm; exact ⟨i, hi, hm⟩
                · rintro ⟨i, hi, hm⟩
                  refine ⟨i, hi, ?_⟩
                  by_cases hip : i = pool
                  · subst hip; simp [hm]
                  · simp [hip, hm]
            · intro i p hp
              by_cases hip : i = pool
              · subst hip; exact hpre.2
              · simp only [upd, hip, ↓reduceIte] at hp; exact h.inside i p hp
        · simp at hs
      · simp at hs
    | setup =>
      simp only at hs
      split at hs
      · simp only [Option.some.injEq] at hs
        subst hs
        have hfree : ∀ p, p ∈ free s ↔ (p ∈ s.exposed ∧ s.occ p = 0) := by
          intro p; simp [free, List.mem_filter]
        have hnot : ∀ i p, p ∈ free s → p ∉ s.pool i := by
          intro i p hf hm
          have := (h.cover p).1 ⟨i, h.inside i p hm, hm⟩
          exact this.2 ((hfree p).1 hf).2
        refine ⟨h.nodupE, h.pos, ?_, ?_, ?_, ?_⟩ <;> dsimp only
        · intro i
          by_cases hi : i = 0
          · subst hi
            simp only [upd_same, List.nodup_append]
            refine ⟨h.nodup 0, nodup_filter _ h.nodupE, ?_⟩
            intro a ha b hb he
            subst he; exact hnot 0 a hb ha
          · simp only [upd, hi, ↓reduceIte]; exact h.nodup i
        · intro i j p hij hp hq
          by_cases hi : i = 0
          · have hj : j ≠ 0 := by omega
            subst hi
            simp only [upd_same, List.mem_append] at hp
            simp only [upd, hj, ↓reduceIte] at hq
            rcases hp with hp | hp
            · exact h.disj 0 j p hij hp hq
            · exact hnot j p hp hq
          · simp only [upd, hi, ↓reduceIte] at hp
            by_cases hj : j = 0
            · subst hj
              simp only [upd_same, List.mem_append] at hq
              rcases hq with hq | hq
              · exact h.disj i 0 p hij hp hq
              · exact hnot i p hq hp
            · simp only [upd, hj, ↓reduceIte] at hq
              exact h.disj i j p hij hp hq
        · intro p
          by_cases hf : p ∈ free s
          · simp only [hf, ↓reduceIte]
            constructor
            · intro _; exact ⟨((hfree p).1 hf).1, by omega⟩
            · intro _; exact ⟨0, h.pos, by simp [hf]⟩
          · simp only [hf, ↓reduceIte]
            rw [← h.cover p]
            constructor
            · rintro ⟨i, hi, hm⟩
              by_cases hi0 : i = 0
              · subst hi0
                simp only [upd_same, List.mem_append, hf, or_false] at hm
                exact ⟨0, hi, hm⟩
              · simp only [upd, hi0, ↓reduceIte] at hm; exact ⟨i, hi, hm⟩
            · rintro ⟨i, hi, hm⟩
              refine ⟨i, hi, ?_⟩
              by_cases hi0 : i = 0
              · subst hi0; simp [hm]
              · simp [upd, hi0, hm]
        · intro i p hp
          by_cases hi0 : i = 0
          · subst hi0; exact h.pos
          · simp only [upd, hi0, ↓reduceIte] at hp; exact h.inside i p hp
      · simp at hs

theorem init_inv (exposed : List Nat) (osThreads : Nat) (h : exposed.Nodup) :
    Inv (init exposed osThreads) :=
  ⟨h, by simp [init], fun _ => by simp [init], fun _ _ _ _ hp => by simp [init] at hp,
   fun p => by simp [init], fun _ _ hp => by simp [init] at hp⟩

/-- once configured, nothing is free any more -/
theorem configured_full (s s' : St) (e : Ev) (hs : step s e = some s') (hc : s'.configured = true) :
    ∀ p, p ∈ s'.exposed → s'.occ p ≠ 0 := by
  unfold step at hs
  split at hs
  · simp at hs
  · rename_i hnc
    cases e with
    | create => simp only [Option.some.injEq] at hs; subst hs; simp [hnc] at hc
    | add pu pool =>
      simp only at hs
      repeat' split at hs
      all_goals first | (simp at hs; done) | (simp only [Option.some.injEq] at hs; subst hs; simp [hnc] at hc)
    | setup =>
      simp only at hs
      split at hs
      · simp only [Option.some.injEq] at hs
        subst hs
        intro p hp
        dsimp only at hp ⊢
        by_cases hf : p ∈ free s
        · simp [hf]
        · simp only [hf, ↓reduceIte]
          intro h0
          exact hf (by simp [free, List.mem_filter, hp, h0])
      · simp at hs

end PikaVerif.Aff.Pool
