import PikaVerif.Lemmas.OnceU3
/-!
# Life cycle of the `k` callers of `call_once` (C09u): invariant of the program layer
-/
namespace PikaVerif.Once
open PikaVerif

/-- life cycle of caller `t`: not yet called / inside `call_once` / returned with a recorded
    result `r` (0 = normally, only once a completion was stored; 2 = its own exception) -/
def CallerOk (thr : Nat → Bool) (p : PSt) (t : Nat) : Prop :=
  (p.prog t = [.call (thr t)] ∧ p.s.pc t = .idle ∧ p.res t = none ∧ p.s.curOp t = .occ) ∨
  (p.prog t = [] ∧ p.s.curOp t = .call (thr t) ∧
    ((p.res t = none ∧ p.s.pc t ≠ .idle ∧ p.s.pc t ≠ .fin) ∨
     ((p.s.pc t = .idle ∨ p.s.pc t = .fin) ∧ ∃ r, p.res t = some r ∧ (r = 0 → 0 < p.s.completions) ∧
        (r = 0 ∨ (r = 2 ∧ thr t = true)))))

structure J (thr : Nat → Bool) (p : PSt) : Prop where
  st : ∀ t, CallerOk thr p t
  ok : 0 < p.s.okRuns → ∃ u, u < p.s.n ∧ thr u = false
  noTop : p.s.topResets = 0
  retOk : RetOk p.s

theorem J_init (thr : Nat → Bool) (k : Nat) : J thr (pinit k (callers thr)) := by
  refine ⟨?_, ?_, rfl, retOk_init k⟩
  · intro t; left; simp [pinit, callers, init]
  · intro h; simp [pinit, init] at h

theorem callerOk_transfer (thr : Nat → Bool) (p p' : PSt) (t : Nat)
    (hprog : p'.prog t = p.prog t) (hres : p'.res t = p.res t) (hcur : p'.s.curOp t = p.s.curOp t)
    (hidle : p'.s.pc t = .idle ↔ p.s.pc t = .idle) (hfin : p'.s.pc t = .fin ↔ p.s.pc t = .fin)
    (hc : p.s.completions ≤ p'.s.completions) (h : CallerOk thr p t) : CallerOk thr p' t := by
  unfold CallerOk at h ⊢
  rw [hprog, hres, hcur]
  rcases h with ⟨a1, a2, a3, a4⟩ | ⟨b1, b2, ⟨c1, c2, c3⟩ | ⟨d1, r, d2, d3, d4⟩⟩
  · exact Or.inl ⟨a1, hidle.mpr a2, a3, a4⟩
  · exact Or.inr ⟨b1, b2, Or.inl ⟨c1, fun h => c2 (hidle.mp h), fun h => c3 (hfin.mp h)⟩⟩
  · refine Or.inr ⟨b1, b2, Or.inr ⟨?_, r, d2, fun h => Nat.lt_of_lt_of_le (d3 h) hc, d4⟩⟩
    rcases d1 with d1 | d1
    · exact Or.inl (hidle.mpr d1)
    · exact Or.inr (hfin.mpr d1)

/-- the part of `J` that does not depend on the kind of event -/
theorem J_rest (thr : Nat → Bool) (p p' : PSt) (e : Ev) (hA : Inv p.s) (hJ : J thr p)
    (h : pstep p e = some p') :
    (0 < p'.s.okRuns → ∃ u, u < p'.s.n ∧ thr u = false) ∧ p'.s.topResets = 0 ∧ RetOk p'.s := by
  have hs := pstep_step p p' e h
  have hn := step_n _ _ _ hs
  refine ⟨?_, ?_, retOk_step _ _ _ hJ.retOk hs⟩
  · intro hpos
    rw [hn]
    rcases step_okRuns _ _ _ hs with h1 | ⟨t, htn, hpc⟩
    · exact hJ.ok (h1 ▸ hpos)
    · have hop := hA.opOk t
      rw [hpc] at hop
      simp only [pcOpOk, decide_eq_true_eq] at hop
      rcases hJ.st t with ⟨_, a2, _⟩ | ⟨_, b2, _⟩
      · rw [hpc] at a2; cases a2
      · rw [hop] at b2
        exact ⟨t, htn, by simpa using b2.symm⟩
  · rcases step_topResets _ _ _ hs with h1 | ⟨t, hpc⟩
    · rw [h1]; exact hJ.noTop
    · exfalso
      have hop := hA.opOk t
      rw [hpc] at hop
      simp only [pcOpOk, decide_eq_true_eq] at hop
      rcases hJ.st t with ⟨_, a2, _⟩ | ⟨_, b2, _⟩
      · rw [hpc] at a2; cases a2
      · rw [hop] at b2; cases b2


theorem J_step (thr : Nat → Bool) (p p' : PSt) (e : Ev) (hA : Inv p.s) (hP : InvP p.s) (hJ : J thr p)
    (h : pstep p e = some p') : J thr p' := by
  have hs := pstep_step p p' e h
  have hc := step_compl_mono _ _ _ hs
  obtain ⟨r1, r2, r3⟩ := J_rest thr p p' e hA hJ h
  refine ⟨?_, r1, r2, r3⟩
  cases e with
  | inv t o =>
    obtain ⟨rest, hp, hp', _⟩ := pstep_inv p p' t o h
    have hres := pstep_res p p' _ (by intro _ _ he; cases he) h
    obtain ⟨_, f1, f2, f3, f4⟩ := step_inv_frame _ _ _ _ hs
    intro u
    by_cases hu : u = t
    · subst hu
      rcases hJ.st u with ⟨a1, a2, a3, a4⟩ | ⟨b1, _⟩
      · rw [hp] at a1
        simp only [List.cons.injEq] at a1
        right
        refine ⟨by rw [hp']; simp [a1.2], by rw [f3]; exact a1.1, Or.inl ⟨by rw [hres]; exact a3, ?_, ?_⟩⟩
        · rw [f2, a1.1]; simp [entry]
        · rw [f2, a1.1]; simp [entry]
      · rw [hp] at b1; cases b1
    · obtain ⟨g1, g2⟩ := f4 u hu
      exact callerOk_transfer thr p p' u (by rw [hp']; simp [upd, hu]) (by rw [hres]) g2
        (by rw [g1]) (by rw [g1]) hc (hJ.st u)
  | ret t r =>
    have hprog := pstep_prog p p' _ (by intro _ _ he; cases he) h
    have hres := pstep_ret p p' t r h
    obtain ⟨_, f1, f2, f3, f4⟩ := step_ret_frame _ _ _ _ hs
    intro u
    by_cases hu : u = t
    · subst hu
      have hop := hA.opOk u
      rcases hJ.st u with ⟨_, a2, _⟩ | ⟨b1, b2, ⟨c1, c2, c3⟩ | ⟨d1, _⟩⟩
      · rw [a2] at f1; rcases f1 with f1 | f1 <;> cases f1
      · have hpc : p.s.pc u = .retn r := by
          rcases f1 with f1 | f1
          · exact f1
          · rw [f1, b2] at hop; simp [pcOpOk] at hop
        right
        refine ⟨by rw [hprog]; exact b1, by rw [f3]; exact b2, Or.inr ⟨Or.inl f2, r, by rw [hres]; simp, ?_, ?_⟩⟩
        · intro hr0
          subst hr0
          have hst := hP.complete u (by rw [hpc, b2]; simp [needsComplete, isCall])
          have hcm := hP.compl
          rw [hst] at hcm
          simp at hcm
          omega
        · rcases hJ.retOk u r hpc with h0 | h2
          · exact Or.inl h0
          · subst h2
            have hx := hP.excOk u hpc
            rw [hx] at b2
            exact Or.inr ⟨rfl, by simpa using b2.symm⟩
      · rcases d1 with d1 | d1 <;> rw [d1] at f1 <;> rcases f1 with f1 | f1 <;> cases f1
    · have g1 := f4 u hu
      exact callerOk_transfer thr p p' u (by rw [hprog]) (by rw [hres]; simp [upd, hu]) (by rw [f3])
        (by rw [g1]) (by rw [g1]) hc (hJ.st u)
  | done t =>
    have hprog := pstep_prog p p' _ (by intro _ _ he; cases he) h
    have hres := pstep_res p p' _ (by intro _ _ he; cases he) h
    have hpe := pstep_done p p' t h
    obtain ⟨_, f1, f2, f3, f4⟩ := step_done_frame _ _ _ hs
    intro u
    by_cases hu : u = t
    · subst hu
      rcases hJ.st u with ⟨a1, _⟩ | ⟨b1, b2, ⟨c1, c2, c3⟩ | ⟨d1, r, d2, d3, d4⟩⟩
      · rw [hpe] at a1; cases a1
      · exact absurd f1 c2
      · right
        exact ⟨by rw [hprog]; exact b1, by rw [f3]; exact b2,
          Or.inr ⟨Or.inr f2, r, by rw [hres]; exact d2, fun h => Nat.lt_of_lt_of_le (d3 h) hc, d4⟩⟩
    · have g1 := f4 u hu
      exact callerOk_transfer thr p p' u (by rw [hprog]) (by rw [hres]) (by rw [f3])
        (by rw [g1]) (by rw [g1]) hc (hJ.st u)
  | _ =>
    have hprog := pstep_prog p p' _ (by intro _ _ he; cases he) h
    have hres := pstep_res p p' _ (by intro _ _ he; cases he) h
    have hfr := step_other _ _ _ (by intro _ _ he; cases he) (by intro _ _ he; cases he)
      (by intro _ he; cases he) hs
    intro u
    obtain ⟨g1, g2, g3⟩ := hfr u
    exact callerOk_transfer thr p p' u (by rw [hprog]) (by rw [hres]) g3 g1 g2 hc (hJ.st u)

/-- all invariants along an accepted log of the callers' program -/
theorem J_of_accepted (thr : Nat → Bool) (k : Nat) (log : List Ev) (p' : PSt)
    (h : runLog pstep (pinit k (callers thr)) log = some p') :
    Inv p'.s ∧ InvM p'.s ∧ InvP p'.s ∧ J thr p' := by
  have : ∀ (log : List Ev) (p0 p : PSt), Inv p0.s ∧ InvM p0.s ∧ InvP p0.s ∧ J thr p0 →
      runLog pstep p0 log = some p → Inv p.s ∧ InvM p.s ∧ InvP p.s ∧ J thr p := by
    intro log
    induction log with
    | nil => intro p0 p h0 h; simp at h; exact h ▸ h0
    | cons e es ih =>
      intro p0 p h0 h
      simp only [runLog] at h
      cases hs : pstep p0 e with
      | none => simp [hs] at h
      | some p1 =>
        simp only [hs] at h
        have hm := pstep_step p0 p1 e hs
        exact ih p1 p ⟨step_inv _ _ e h0.1 hm, step_invM _ _ e h0.1 h0.2.1 hm,
          step_invP _ _ e h0.1 h0.2.1 h0.2.2.1 hm, J_step thr p0 p1 e h0.1 h0.2.2.1 h0.2.2.2 hs⟩ h
  exact this log _ p' ⟨inv_init k, invM_init k, invP_init k, J_init thr k⟩ h

end PikaVerif.Once
