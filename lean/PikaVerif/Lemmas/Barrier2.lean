import PikaVerif.Lemmas.Barrier
/-! Invariants of the barrier model.  Group A: bookkeeping independent of the counting
    argument.  Group B: the counting invariant of the tournament tree. -/
namespace PikaVerif.Barrier
open PikaVerif

/-! ## Group A -/

structure InvA (s : St) : Prop where
  outside : ∀ t, s.n ≤ t → s.pc t = .idle
  expLe : s.expected ≤ s.e0

theorem invA_init (n N : Nat) : InvA (init n N) := by
  refine ⟨?_, ?_⟩ <;> simp [init]

attribute [local grind] afterCall fullB

set_option hygiene false in
macro "barA_step" : tactic => `(tactic| (
  simp only [step] at h
  obtain ⟨h1,h2⟩ := hi
  repeat' split at h
  all_goals first | (simp at h; done) | skip
  all_goals (
    simp only [Option.some.injEq] at h
    subst h
    refine ⟨?_, ?_⟩ <;> dsimp only
  )
  all_goals first
    | assumption
    | (intro u; grind [upd])
    | grind [upd]))

theorem stepA (s s' : St) (e : Ev) (hi : InvA s) (h : step s e = some s') : InvA s' := by
  cases e <;> barA_step

/-! ## Group B: definitions -/

/-- Weight of a ticket value in phase `p`: arrivals the node has absorbed. -/
def wt (p capv v : Nat) : Nat := if v = fullB p then capv else if v = halfB p then 1 else 0
def isF (p v : Nat) : Nat := if v = fullB p then 1 else 0

/-- arrivals absorbed by the tickets of round `r` -/
def Wsum (N p : Nat) (tk : Nat → Nat → Nat) (r : Nat) : Nat :=
  sumTo (nodes N r) (fun c => wt p (cap N r c) (tk r c))
/-- full nodes of round `r` = threads sent on to round `r+1` -/
def Fsum (N p : Nat) (tk : Nat → Nat → Nat) (r : Nat) : Nat :=
  sumTo (nodes N r) (fun c => isF p (tk r c))

/-- the thread is in round `r` of base.arrive (still searching, or returned `true` from it) -/
def inR (r : Nat) : Pc → Nat
  | .try _ _ r' _ | .try2 _ _ r' _ | .won _ r' | .pub _ r' => if r' = r then 1 else 0
  | _ => 0
def Asum (n : Nat) (pc : Nat → Pc) (r : Nat) : Nat := sumTo n (fun t => inR r (pc t))

/-- calls of base.arrive the thread still has to start in its current operation -/
def rem : Pc → Nat
  | .want u | .arr u | .try u _ _ _ | .try2 u _ _ _ | .won u _ | .pub u _ => u
  | .wantDrop => 1
  | _ => 0
def Remsum (n : Nat) (pc : Nat → Pc) : Nat := sumTo n (fun t => rem (pc t))

def isWon : Pc → Bool
  | .won _ _ => true
  | _ => false
def isPub : Pc → Bool
  | .pub _ _ => true
  | _ => false
def isWin (p : Pc) : Bool := isWon p || isPub p
/-- between the phase load of `arrive` and its return -/
def inArr : Pc → Bool
  | .arr _ | .try _ _ _ _ | .try2 _ _ _ _ | .won _ _ | .pub _ _ => true
  | _ => false

/-- the locals of base.arrive agree with the phase's expected count -/
def pcOk (N : Nat) : Pc → Prop
  | .try _ cur r m => m = mr N r ∧ (1 < m → cur ≤ (m + 1) / 2)
  | .try2 _ cur r m => m = mr N r ∧ 1 < m ∧ cur < (m + 1) / 2
  | .won _ r | .pub _ r => mr N r ≤ 1
  | .arr u | .want u => 1 ≤ u
  | _ => True

structure InvB (s : St) : Prop where
  phaseEq : s.phase = (2 * s.ph) % 256
  tokIdxOk : ∀ t, s.tok t = (2 * s.tokIdx t) % 256 ∧ s.tokIdx t ≤ s.ph
  shape : ∀ t, pcOk s.e0 (s.pc t)
  tokPhase : ∀ t, inArr (s.pc t) = true → s.tok t = s.phase ∧ s.tokIdx t = s.ph
  winOk : ∀ t, isWin (s.pc t) = true → s.win = some t
  winConv : ∀ t, s.win = some t → isWin (s.pc t) = true ∧ t < s.n ∧ s.wins = s.ph + 1
  noWin : s.win = none → s.expected = s.e0 ∧ s.adj = s.drops ∧ s.compls = s.ph ∧ s.wins = s.ph
  wonF : ∀ t, isWon (s.pc t) = true → s.expected = s.e0 ∧ s.adj = s.drops ∧ s.compls = s.ph
  pubF : ∀ t, isPub (s.pc t) = true → s.compls = s.ph + 1 ∧ s.adj = 0
  c0 : Wsum s.e0 s.phase s.tk 0 + Asum s.n s.pc 0 + Remsum s.n s.pc + s.count = s.e0
  cr : ∀ r, Wsum s.e0 s.phase s.tk (r + 1) + Asum s.n s.pc (r + 1) = Fsum s.e0 s.phase s.tk r
  tix : ∀ r c, c < nodes s.e0 r → s.tk r c = s.phase ∨ (s.tk r c = halfB s.phase ∧ cap s.e0 r c = 2) ∨
      s.tk r c = fullB s.phase

/-! ## sums under updates -/

theorem Asum_upd (n : Nat) (pc : Nat → Pc) (t : Nat) (q : Pc) (r : Nat) (h : t < n) :
    Asum n (upd pc t q) r + inR r (pc t) = Asum n pc r + inR r q :=
  sumTo_upd n (inR r) pc t q h

theorem Remsum_upd (n : Nat) (pc : Nat → Pc) (t : Nat) (q : Pc) (h : t < n) :
    Remsum n (upd pc t q) + rem (pc t) = Remsum n pc + rem q :=
  sumTo_upd n rem pc t q h

theorem Wsum_upd2_ne (N p : Nat) (tk : Nat → Nat → Nat) (r0 c v r : Nat) (h : r ≠ r0) :
    Wsum N p (upd2 tk r0 c v) r = Wsum N p tk r := by
  unfold Wsum upd2; simp [upd, h]

theorem Fsum_upd2_ne (N p : Nat) (tk : Nat → Nat → Nat) (r0 c v r : Nat) (h : r ≠ r0) :
    Fsum N p (upd2 tk r0 c v) r = Fsum N p tk r := by
  unfold Fsum upd2; simp [upd, h]

theorem Wsum_upd2 (N p : Nat) (tk : Nat → Nat → Nat) (r c v : Nat) (h : c < nodes N r) :
    Wsum N p (upd2 tk r c v) r + wt p (cap N r c) (tk r c) = Wsum N p tk r + wt p (cap N r c) v := by
  have := sumTo_upd_idx (nodes N r) (fun c v => wt p (cap N r c) v) (tk r) c v h
  unfold Wsum upd2
  simpa [upd_same] using this

theorem Fsum_upd2 (N p : Nat) (tk : Nat → Nat → Nat) (r c v : Nat) (h : c < nodes N r) :
    Fsum N p (upd2 tk r c v) r + isF p (tk r c) = Fsum N p tk r + isF p v := by
  have := sumTo_upd_idx (nodes N r) (fun _ v => isF p v) (tk r) c v h
  unfold Fsum upd2
  simpa [upd_same] using this

theorem upd2_apply (tk : Nat → Nat → Nat) (r0 c0 v r c : Nat) :
    upd2 tk r0 c0 v r c = if r = r0 ∧ c = c0 then v else tk r c := by
  unfold upd2 upd; by_cases h1 : r = r0 <;> by_cases h2 : c = c0 <;> simp [h1, h2]

theorem invB_init (n N : Nat) : InvB (init n N) := by
  refine ⟨?_, ?_, ?_, ?_, ?_, ?_, ?_, ?_, ?_, ?_, ?_, ?_⟩ <;>
    simp [init, isWin, isWon, isPub, inArr, pcOk, Wsum, Fsum, Asum, Remsum, wt, isF, inR, rem, fullB, halfB,
      sumTo_eq_zero]

end PikaVerif.Barrier
