import PikaVerif.Lemmas.Elastic
/-! A worker whose thread never started is untouched: state `initialized`, in its loop, nobody waits
    for it (C19t). -/
namespace PikaVerif.Elastic
open PikaVerif

def Unstarted (x : Wk) : Prop := x.actor = none → x.st = rsInit ∧ x.pc = .loop ∧ x.waiters = []

def InvU (s : St) : Prop := ∀ w, Unstarted (s.wk w)

theorem invU_init (cfg : Cfg) : InvU (init cfg) := by
  intro w _
  simp [init]

theorem step_invU (s s' : St) (e : Ev) (hi : InvU s) (h : step s e = some s') : InvU s' := by
  cases e
  all_goals (
    simp only [step] at h
    repeat' split at h
    all_goals first | (simp at h; done) | skip
    all_goals (
      simp only [Option.some.injEq] at h
      subst h
      intro w'
      first
      | exact hi w'
      | (simp only [upd]
         split
         · rename_i hw
           subst hw
           have hx := hi w'
           simp only [Unstarted] at hx ⊢
           intro ha
           simp_all [casResult]
         · exact hi w')))

theorem invU_of_accepted {cfg : Cfg} {log : List Ev} {s : St} (h : runLog step (init cfg) log = some s) :
    InvU s :=
  inv_of_runLog InvU (fun s e s' => step_invU s s' e) (invU_init cfg) h

end PikaVerif.Elastic
