import PikaVerif.Model.IndexQueue
import PikaVerif.Lemmas.BulkArith
/-! Inductive invariant of the index-queue model. -/
namespace PikaVerif.IQ
open PikaVerif PikaVerif.Gen.IndexRange PikaVerif.BulkArith

/-! ### the generated per-iteration functions on in-range values -/

theorem popLeftTry_exact (f l : Int) (h0 : 0 ≤ f) (hl : l < 4294967296) (h1 : 0 ≤ l) (hf : f < 4294967296) :
    popLeftTry f l = if f < l then some (f, (f + 1, l)) else none := by
  unfold popLeftTry rangeEmpty incrementFirst
  rw [u32_wrap f h0 hf, u32_wrap l h1 hl]
  by_cases h : f < l
  · have : ¬ (f ≥ l) := by omega
    simp only [this, decide_false, h, if_true]
    rw [u32_wrap 1 (by omega) (by omega), u32_wrap (f + 1) (by omega) (by omega),
      u32_wrap (f + 1) (by omega) (by omega)]
    simp
  · have : f ≥ l := by omega
    simp [this, h]

theorem popRightTry_exact (f l : Int) (h0 : 0 ≤ f) (hl : l < 4294967296) (h1 : 0 ≤ l) (hf : f < 4294967296) :
    popRightTry f l = if f < l then some (l - 1, (f, l - 1)) else none := by
  unfold popRightTry rangeEmpty decrementLast
  rw [u32_wrap f h0 hf, u32_wrap l h1 hl]
  by_cases h : f < l
  · have : ¬ (f ≥ l) := by omega
    simp only [this, decide_false, h, if_true]
    rw [u32_wrap 1 (by omega) (by omega), u32_wrap (l - 1) (by omega) (by omega),
      u32_wrap (l - 1) (by omega) (by omega)]
    simp
  · have : f ≥ l := by omega
    simp [this, h]

/-- `x, x-1, …` (`k` items): the left pops, newest first. -/
def descFrom (x : Int) : Nat → List Int
  | 0 => []
  | k + 1 => x :: descFrom (x - 1) k

/-- `x, x+1, …` (`k` items): the right pops, newest first. -/
def ascFrom (x : Int) : Nat → List Int
  | 0 => []
  | k + 1 => x :: ascFrom (x + 1) k

theorem count_descFrom (i x : Int) (k : Nat) :
    (descFrom x k).count i = if x - k < i ∧ i ≤ x then 1 else 0 := by
  induction k generalizing x with
  | zero =>
    simp only [descFrom, List.count_nil]
    split
    · omega
    · rfl
  | succ k ih =>
    simp only [descFrom, List.count_cons, ih, beq_iff_eq]
    have e : ((k + 1 : Nat) : Int) = (k : Int) + 1 := by omega
    rw [e]
    repeat' split
    all_goals omega

theorem count_ascFrom (i x : Int) (k : Nat) :
    (ascFrom x k).count i = if x ≤ i ∧ i < x + k then 1 else 0 := by
  induction k generalizing x with
  | zero =>
    simp only [ascFrom, List.count_nil]
    split
    · omega
    · rfl
  | succ k ih =>
    simp only [ascFrom, List.count_cons, ih, beq_iff_eq]
    have e : ((k + 1 : Nat) : Int) = (k : Int) + 1 := by omega
    rw [e]
    repeat' split
    all_goals omega

structure Inv (s : St) : Prop where
  lo : 0 ≤ s.first0
  hi : s.last0 < 4294967296
  f0 : s.first0 ≤ s.first
  fl : s.first ≤ s.last
  l0 : s.last ≤ s.last0
  cntL : s.first = s.first0 + s.poppedL.length
  cntR : s.last = s.last0 - s.poppedR.length
  histL : s.poppedL = descFrom (s.first - 1) s.poppedL.length
  histR : s.poppedR = ascFrom s.last s.poppedR.length
  /-- an observed range is an earlier value of the word: the word only shrinks -/
  seen : ∀ t sd f l, s.pc t = .loaded sd f l → s.first0 ≤ f ∧ f ≤ s.first ∧ s.last ≤ l ∧ l ≤ s.last0
  outside : ∀ t, s.n ≤ t → s.pc t = .idle

theorem inv_init (n : Nat) (f l : Int) (h0 : 0 ≤ f) (h1 : f ≤ l) (h2 : l < 4294967296) :
    Inv (init n f l) := by
  refine ⟨h0, h2, ?_, h1, ?_, ?_, ?_, ?_, ?_, ?_, ?_⟩ <;> simp [init, descFrom, ascFrom]

theorem step_inv (s s' : St) (e : Ev) (hi : Inv s) (h : step s e = some s') : Inv s' := by
  obtain ⟨a1, a2, a3, a4, a5, a6, a7, a8, a9, a10, a11⟩ := hi
  cases e with
  | inv t sd =>
    simp only [step] at h
    split at h
    · simp only [Option.some.injEq] at h; subst h
      refine ⟨a1, a2, a3, a4, a5, a6, a7, a8, a9, ?_, ?_⟩ <;> dsimp only
      · intro u sd' f l hu
        by_cases hut : u = t
        · subst hut; simp [upd] at hu
        · simp only [upd, hut, if_false] at hu; exact a10 u sd' f l hu
      · intro u hu; have : u ≠ t := by omega
        simp [upd, this]; exact a11 u hu
    · simp at h
  | load t f l =>
    simp only [step] at h
    split at h
    · rename_i hg
      split at h
      · simp only [Option.some.injEq] at h; subst h
        refine ⟨a1, a2, a3, a4, a5, a6, a7, a8, a9, ?_, ?_⟩ <;> dsimp only
        · intro u sd' f' l' hu
          by_cases hut : u = t
          · subst hut; simp [upd] at hu; obtain ⟨_, rfl, rfl⟩ := hu
            rw [hg.2.1, hg.2.2]; omega
          · simp only [upd, hut, if_false] at hu; exact a10 u sd' f' l' hu
        · intro u hu; have : u ≠ t := by omega
          simp [upd, this]; exact a11 u hu
      · simp at h
    · simp at h
  | cas t ok f l =>
    simp only [step] at h
    split at h
    · rename_i htn
      split at h
      · rename_i sd ef el hpc
        have hs := a10 t sd ef el hpc
        have hfail : ∀ s'' : St, s'' = { s with pc := upd s.pc t (.loaded sd s.first s.last) } →
            Inv s'' := by
          intro s'' hs''; subst hs''
          refine ⟨a1, a2, a3, a4, a5, a6, a7, a8, a9, ?_, ?_⟩ <;> dsimp only
          · intro u sd' f' l' hu
            by_cases hut : u = t
            · subst hut; simp [upd] at hu; obtain ⟨_, rfl, rfl⟩ := hu; omega
            · simp only [upd, hut, if_false] at hu; exact a10 u sd' f' l' hu
          · intro u hu; have : u ≠ t := by omega
            simp [upd, this]; exact a11 u hu
        cases sd
        · simp only [popTry] at h
          rw [popLeftTry_exact ef el (by omega) (by omega) (by omega) (by omega)] at h
          by_cases hne : ef < el
          · simp only [hne, if_true] at h
            split at h
            · rename_i hcur
              obtain ⟨hc1, hc2⟩ := hcur
              subst hc1; subst hc2
              split at h
              · rename_i hok
                simp only [Option.some.injEq, pushPop] at h; subst h
                refine ⟨a1, a2, ?_, ?_, a5, ?_, a7, ?_, a9, ?_, ?_⟩ <;> dsimp only
                · omega
                · omega
                · simp only [List.length_cons]; omega
                · simp only [List.length_cons, descFrom]
                  congr 1
                  · omega
                  · have : s.first + 1 - 1 - 1 = s.first - 1 := by omega
                    rw [this]; exact a8
                · intro u sd' f' l' hu
                  by_cases hut : u = t
                  · subst hut; simp [upd] at hu
                  · simp only [upd, hut, if_false] at hu
                    have := a10 u sd' f' l' hu; omega
                · intro u hu; have : u ≠ t := by omega
                  simp [upd, this]; exact a11 u hu
              · simp at h
            · split at h
              · rename_i hf
                simp only [Option.some.injEq] at h
                apply hfail s'; rw [← h, hf.2.1, hf.2.2]
              · simp at h
          · simp [hne] at h
        · simp only [popTry] at h
          rw [popRightTry_exact ef el (by omega) (by omega) (by omega) (by omega)] at h
          by_cases hne : ef < el
          · simp only [hne, if_true] at h
            split at h
            · rename_i hcur
              obtain ⟨hc1, hc2⟩ := hcur
              subst hc1; subst hc2
              split at h
              · rename_i hok
                simp only [Option.some.injEq, pushPop] at h; subst h
                refine ⟨a1, a2, a3, ?_, ?_, a6, ?_, a8, ?_, ?_, ?_⟩ <;> dsimp only
                · omega
                · omega
                · simp only [List.length_cons]; omega
                · simp only [List.length_cons, ascFrom]
                  congr 1
                  have : s.last - 1 + 1 = s.last := by omega
                  rw [this]; exact a9
                · intro u sd' f' l' hu
                  by_cases hut : u = t
                  · subst hut; simp [upd] at hu
                  · simp only [upd, hut, if_false] at hu
                    have := a10 u sd' f' l' hu; omega
                · intro u hu; have : u ≠ t := by omega
                  simp [upd, this]; exact a11 u hu
              · simp at h
            · split at h
              · rename_i hf
                simp only [Option.some.injEq] at h
                apply hfail s'; rw [← h, hf.2.1, hf.2.2]
              · simp at h
          · simp [hne] at h
      · simp at h
    · simp at h
  | ret t r =>
    simp only [step] at h
    split at h
    · rename_i htn
      have key : ∀ s'' : St, s'' = { s with pc := upd s.pc t .idle } → Inv s'' := by
        intro s'' hs''; subst hs''
        refine ⟨a1, a2, a3, a4, a5, a6, a7, a8, a9, ?_, ?_⟩ <;> dsimp only
        · intro u sd' f' l' hu
          by_cases hut : u = t
          · subst hut; simp [upd] at hu
          · simp only [upd, hut, if_false] at hu; exact a10 u sd' f' l' hu
        · intro u hu; have : u ≠ t := by omega
          simp [upd, this]; exact a11 u hu
      split at h
      · split at h
        · simp only [Option.some.injEq] at h; exact key s' h.symm
        · simp at h
      · split at h
        · simp only [Option.some.injEq] at h; exact key s' h.symm
        · simp at h
      · simp at h
    · simp at h
  | done t =>
    simp only [step] at h
    split at h
    · simp only [Option.some.injEq] at h; subst h
      refine ⟨a1, a2, a3, a4, a5, a6, a7, a8, a9, ?_, ?_⟩ <;> dsimp only
      · intro u sd' f l hu
        by_cases hut : u = t
        · subst hut; simp [upd] at hu
        · simp only [upd, hut, if_false] at hu; exact a10 u sd' f l hu
      · intro u hu; have : u ≠ t := by omega
        simp [upd, this]; exact a11 u hu
    · simp at h


/-- A thread about to return an index has popped it (its CAS succeeded with that index). -/
def Retd (s : St) : Prop := ∀ t i, s.pc t = .retn i → i ∈ s.poppedL ∨ i ∈ s.poppedR

/-- The parameters of the run never change. -/
def Frame (n : Nat) (f l : Int) (s : St) : Prop := s.n = n ∧ s.first0 = f ∧ s.last0 = l

theorem retd_upd {pc : Nat → Pc} {L R L' R' : List Int} (t : Nat) (p : Pc)
    (hr : ∀ u i, pc u = .retn i → i ∈ L ∨ i ∈ R)
    (hL : ∀ i, i ∈ L → i ∈ L') (hR : ∀ i, i ∈ R → i ∈ R')
    (hp : ∀ i, p = .retn i → i ∈ L' ∨ i ∈ R') :
    ∀ u i, upd pc t p u = .retn i → i ∈ L' ∨ i ∈ R' := by
  intro u i hu
  by_cases hut : u = t
  · subst hut; simp only [upd_same] at hu; exact hp i hu
  · simp only [upd, hut, if_false] at hu
    rcases hr u i hu with h | h
    · exact Or.inl (hL i h)
    · exact Or.inr (hR i h)

theorem step_retd_frame (n : Nat) (f l : Int) (s s' : St) (e : Ev)
    (hi : Retd s ∧ Frame n f l s) (h : step s e = some s') : Retd s' ∧ Frame n f l s' := by
  obtain ⟨hr, hf⟩ := hi
  unfold Retd at hr ⊢
  cases e with
  | inv t sd =>
    simp only [step] at h; split at h
    · simp only [Option.some.injEq] at h; subst h
      exact ⟨retd_upd t _ hr (fun _ h => h) (fun _ h => h) (by simp), hf⟩
    · simp at h
  | load t f' l' =>
    simp only [step] at h; split at h
    · split at h
      · simp only [Option.some.injEq] at h; subst h
        exact ⟨retd_upd t _ hr (fun _ h => h) (fun _ h => h) (by simp), hf⟩
      · simp at h
    · simp at h
  | cas t ok f' l' =>
    simp only [step] at h; split at h
    · split at h
      · split at h
        · simp at h
        · split at h
          · split at h
            · simp only [Option.some.injEq] at h; subst h
              simp only [pushPop]
              split
              · exact ⟨retd_upd t _ hr (fun _ h => List.mem_cons_of_mem _ h) (fun _ h => h)
                  (by intro i hi; simp only [Pc.retn.injEq] at hi; subst hi; exact Or.inl (List.mem_cons_self ..)), hf⟩
              · exact ⟨retd_upd t _ hr (fun _ h => h) (fun _ h => List.mem_cons_of_mem _ h)
                  (by intro i hi; simp only [Pc.retn.injEq] at hi; subst hi; exact Or.inr (List.mem_cons_self ..)), hf⟩
            · simp at h
          · split at h
            · simp only [Option.some.injEq] at h; subst h
              exact ⟨retd_upd t _ hr (fun _ h => h) (fun _ h => h) (by simp), hf⟩
            · simp at h
      · simp at h
    · simp at h
  | ret t r =>
    simp only [step] at h; split at h
    · split at h
      · split at h
        · simp only [Option.some.injEq] at h; subst h
          exact ⟨retd_upd t _ hr (fun _ h => h) (fun _ h => h) (by simp), hf⟩
        · simp at h
      · split at h
        · simp only [Option.some.injEq] at h; subst h
          exact ⟨retd_upd t _ hr (fun _ h => h) (fun _ h => h) (by simp), hf⟩
        · simp at h
      · simp at h
    · simp at h
  | done t =>
    simp only [step] at h; split at h
    · simp only [Option.some.injEq] at h; subst h
      exact ⟨retd_upd t _ hr (fun _ h => h) (fun _ h => h) (by simp), hf⟩
    · simp at h

theorem retd_frame_of_accepted {n : Nat} {f l : Int} {log : List Ev} {s : St}
    (h : runLog step (init n f l) log = some s) : Retd s ∧ Frame n f l s :=
  inv_of_runLog (fun s => Retd s ∧ Frame n f l s) (fun s e s' => step_retd_frame n f l s s' e)
    ⟨by intro t i h; simp [init] at h, rfl, rfl, rfl⟩ h

theorem inv_of_accepted {n : Nat} {f l : Int} (h0 : 0 ≤ f) (h1 : f ≤ l) (h2 : l < 4294967296)
    {log : List Ev} {s : St} (h : runLog step (init n f l) log = some s) : Inv s :=
  inv_of_runLog Inv (fun s e s' => step_inv s s' e) (inv_init n f l h0 h1 h2) h

end PikaVerif.IQ
