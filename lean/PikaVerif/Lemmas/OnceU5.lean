import PikaVerif.Props.C09
import PikaVerif.Lemmas.OnceU4
/-!
# Final states of maximal runs of `k` callers of `call_once`; the spin round (C09u)
-/
namespace PikaVerif.Once
open PikaVerif PikaVerif.C09

/-- no event at all is accepted (not even a spin): the run is maximal -/
def PStuck (p : PSt) : Prop := ∀ e, pstep p e = none

theorem pstep_none_step (p : PSt) (e : Ev) (h1 : ∀ t o, e ≠ .inv t o) (h2 : ∀ t, e ≠ .done t)
    (h : pstep p e = none) : step p.s e = none := by
  cases e <;> first | exact absurd rfl (h1 _ _) | exact absurd rfl (h2 _) | (simpa [pstep] using h)

/-- **Final state of a maximal run of `k` callers.**  Every caller has called, returned and
    finished; its recorded result is 0 (normal; then the status is `complete`) or 2 (exception;
    then its own callable throws). -/
theorem callers_final (thr : Nat → Bool) (k : Nat) (log : List Ev) (p' : PSt)
    (h : runLog pstep (pinit k (callers thr)) log = some p') (hst : PStuck p') :
    ∀ t, t < k → p'.s.pc t = .fin ∧ p'.prog t = [] ∧
      ∃ r, p'.res t = some r ∧ (r = 0 → p'.s.status = .complete) ∧ (r = 0 ∨ (r = 2 ∧ thr t = true)) := by
  obtain ⟨hA, hM, hP, hJ⟩ := J_of_accepted thr k log p' h
  have hm : runLog step (init k) log = some p'.s := runLog_pstep_step log _ p' h
  have hr : OReachable p'.s := ⟨k, log, hm⟩
  have hs : OStuck p'.s := fun e h1 h2 => pstep_none_step p' e h1 h2 (hst e)
  have hn : p'.s.n = k := (once_counters_log log _ _ hm).2.2
  intro t ht
  have htn : t < p'.s.n := hn ▸ ht
  rcases hJ.st t with ⟨a1, a2, _, _⟩ | ⟨b1, b2, ⟨_, c2, c3⟩ | ⟨d1, r, d2, d3, d4⟩⟩
  · exfalso
    have := hst (.inv t (.call (thr t)))
    simp [pstep, a1, step, htn, a2] at this
  · exfalso
    rcases C09_once_all_callers_return p'.s hr hs hJ.noTop t htn (by rw [b2]; rfl) with h1 | h1
    · exact c2 h1
    · exact c3 h1
  · rcases d1 with d1 | d1
    · exfalso
      have := hst (.done t)
      simp [pstep, b1, step, htn, d1] at this
    · refine ⟨d1, b1, r, d2, ?_, d4⟩
      intro hr0
      have hc := hP.compl
      have := d3 hr0
      by_cases hcs : p'.s.status = .complete
      · exact hcs
      · rw [if_neg hcs] at hc; omega

/-- **One spin round returns to the same state.**  A caller at the status load while the status
    is `running` and the event flag is `true` goes through `onceLoad, onceLost false, evLoad true`
    and the model is in exactly the state it started from. -/
theorem spin_round (s : St) (t : Nat) (thr : Bool) (htn : t < s.n) (hpc : s.pc t = .cLoad thr)
    (hst : s.status = .running) (hf : s.flag = true) :
    runLog step s [.onceLoad t, .onceLost t false, .evLoad t true] = some s := by
  have hupd : upd (upd (upd s.pc t (Pc.cCas thr)) t (Pc.wWant (Ctx.once thr))) t (Pc.cLoad thr) = s.pc := by
    funext u
    by_cases hu : u = t
    · subst hu; simp [upd, hpc]
    · simp [upd, hu]
  simp [runLog, step, htn, hpc, hst, hf, wDone, hupd]
  cases s; simp_all

set_option hygiene false in
macro "ne_step" t:term : tactic => `(tactic| (
  simp only [step] at h
  (repeat' split at h)
  all_goals first | (simp at h; done) | skip
  all_goals (
    simp only [Option.some.injEq] at h
    subst h
    have := hpc $t
    grind [upd, wDone, sDone])))

/-- **No single event is a stutter**: every accepted event changes the state (it moves the program
    counter of its thread). -/
theorem step_ne (s s' : St) (e : Ev) (h : step s e = some s') : s' ≠ s := by
  have hw : ∀ c, wDone c = .retn 0 ∨ ∃ thr, wDone c = .cLoad thr := by
    intro c; cases c <;> simp [wDone]
  have hsd : ∀ c c', sDone c ≠ .sRel c' := by intro c c'; cases c <;> simp [sDone]
  have hen : ∀ o, entry o ≠ .idle := by intro o; cases o <;> simp [entry]
  intro heq
  have hpc : ∀ u, s'.pc u = s.pc u := by intro u; rw [heq]
  clear heq
  cases e with
  | inv t o => ne_step t
  | ret t r => ne_step t
  | slAcq t => ne_step t
  | slRel t => ne_step t
  | evLoad t v => ne_step t
  | evLoadL t v => ne_step t
  | stored t v => ne_step t
  | cvEnq t z => ne_step t
  | notifyAll t l => ne_step t
  | cvWoke t a => ne_step t
  | suspend t => ne_step t
  | woke t => ne_step t
  | onceLoad t => ne_step t
  | onceWon t => ne_step t
  | onceLost t a => ne_step t
  | body t a => ne_step t
  | onceStored t a => ne_step t
  | done t => ne_step t

end PikaVerif.Once
