import PikaVerif.Lemmas.Rw2
/-! Consequences of the async_rw_mutex invariant used by the property theorems. -/
namespace PikaVerif.Rw
open PikaVerif

theorem weight_zero {x : Acc} (h : weight x = 0) : x = .none ∨ x = .released := by
  cases x <;> simp_all [weight]

/-- every access of a destroyed shared state has been released -/
theorem dead_released {s : St} (hi : Inv s) {g a : Nat} (hg : g < s.ng) (hd : s.dead g = true)
    (ha : a < s.na) (hga : s.grp a = g) : s.acc a = .released := by
  have hr := (hi.deadRc g hg).1 hd
  have A := hi.account g hg
  have hw := weight_le_gsum s a ha
  rw [hga] at hw
  have : weight (s.acc a) = 0 := by omega
  rcases weight_zero this with h | h
  · exact absurd h (hi.accSome a ha)
  · exact h

/-- shared states are destroyed in creation order -/
theorem dead_pred {s : St} (hi : Inv s) {g : Nat} (hg : g + 1 < s.ng) (hd : s.dead (g + 1) = true) :
    s.dead g = true := by
  have hr := (hi.deadRc _ hg).1 hd
  have A := hi.account _ hg
  have hl : linkw s (g + 1) = 0 := by omega
  cases hdg : s.dead g with
  | true => rfl
  | false => simp [linkw, linkwF, hdg] at hl

theorem dead_prefix {s : St} (hi : Inv s) {g : Nat} (hg : g < s.ng) (hd : s.dead g = true) :
    ∀ g', g' ≤ g → s.dead g' = true := by
  induction g with
  | zero => intro g' h; have : g' = 0 := by omega
            subst this; exact hd
  | succ k ih =>
    intro g' h
    by_cases e : g' = k + 1
    · subst e; exact hd
    · exact ih (by omega) (dead_pred hi hg hd) g' (by omega)

/-- `done()` has been called on a group only after its predecessor was destroyed -/
theorem sent_pred {s : St} (hi : Inv s) {g : Nat} (hg : g < s.ng) (hs : s.head g = none) :
    g = 0 ∨ s.dead (g - 1) = true := by
  have h1 := hi.headDn g hg
  rw [hs] at h1
  have hni : s.dn g ≠ .idle := by intro h; rw [h] at h1; simp [isDrain] at h1
  have h2 := hi.dnIdle g hg
  by_cases e : g = 0
  · exact Or.inl e
  · right
    cases hd : s.dead (g - 1) with
    | true => rfl
    | false => exact absurd (h2.2 ⟨by omega, hd⟩) hni

/-- once an access has been granted, every access of an earlier group is released -/
theorem granted_pred_released {s : St} (hi : Inv s) {a b : Nat} (ha : a < s.na) (hb : b < s.na)
    (hp : post (s.acc a) = true) (hlt : s.grp b < s.grp a) : s.acc b = .released := by
  have hg := hi.grpLt a ha
  have hs := post_sent hi ha hp
  rcases sent_pred hi hg hs with h | h
  · omega
  · have hg1 : s.grp a - 1 < s.ng := by omega
    have := dead_prefix hi hg1 h (s.grp b) (by omega)
    exact dead_released hi (by omega) this hb rfl

end PikaVerif.Rw
