import PikaVerif.Lemmas.RwT
import PikaVerif.Props.C04
/-!
Programs over the async_rw_mutex model, bound on the length of their runs, final states of
maximal runs (follow-up C04r).

A *program* is what a finite C++ program can ask of one mutex:
* `kinds`: the finite sequence of requests of the owner (`false` = `read()`, `true` = `readwrite()`),
  followed by the destruction of the mutex object;
* for every sender obtained: it is started (`start … det = false`) or dropped unstarted
  (`det = true`, `start_detached` from the sender's destructor) - by any thread, at any time after
  the request;
* for every wrapper delivered: it may be copied, read and written through while it is held, within
  the finite budgets `copies` / `reads` / `writes` of the program, and every copy is destroyed
  (`rel`) - by any thread, at any time.
The order is the one the model requires (`step` rejects everything else): requests in order, the
mutex destroyed after the last request, `start a` after `req a`, wrapper operations between grant and
the last release.  Thread placement is arbitrary: every operation may be executed by any thread id.
-/
namespace PikaVerif.Rw
open PikaVerif PikaVerif.C04

/-! ## Accounting over logs -/

def costs : List Ev → Nat
  | [] => 0
  | e :: es => cost e + costs es

def gains : List Ev → Nat
  | [] => 0
  | e :: es => gain e + gains es

/-- number of CAS retries in a log -/
def retries : List Ev → Nat
  | [] => 0
  | e :: es => (if isRetry e then 1 else 0) + retries es

theorem costs_retries (log : List Ev) : costs log + retries log = log.length := by
  induction log with
  | nil => rfl
  | cons e es ih =>
    simp only [costs, retries, cost, List.length_cons]
    split <;> omega

theorem runLog_mu (log : List Ev) : ∀ (s s' : St), Inv s → runLog step s log = some s' →
    mu s' + costs log ≤ mu s + gains log := by
  induction log with
  | nil => intro s s' _ h; simp at h; subst h; simp [costs, gains]
  | cons e es ih =>
    intro s s' hi h
    simp only [runLog] at h
    cases hs : step s e with
    | none => simp [hs] at h
    | some s1 =>
      simp only [hs] at h
      have h1 := mu_step s s1 e hi hs
      have h2 := ih s1 s' (step_inv s s1 e hi hs) h
      simp only [costs, gains]
      omega

/-! ## Programs -/

structure PSt where
  s : St
  /-- requests the owner has still to make -/
  reqs : List Bool
  /-- remaining budget of wrapper copies / modifications / reads -/
  copies : Nat
  writes : Nat
  reads : Nat

def pinit (kinds : List Bool) (c w r : Nat) : PSt := ⟨init, kinds, c, w, r⟩

def pstep (p : PSt) : Ev → Option PSt
  | .req t a w newg died =>
    match p.reqs with
    | k :: rest =>
      if k = w then (step p.s (.req t a w newg died)).map (fun s' => { p with s := s', reqs := rest })
      else none
    | [] => none
  | .destroy t died =>
    if p.reqs = [] then (step p.s (.destroy t died)).map (fun s' => { p with s := s' }) else none
  | .copy t a =>
    if 0 < p.copies then (step p.s (.copy t a)).map (fun s' => { p with s := s', copies := p.copies - 1 })
    else none
  | .write t a v =>
    if 0 < p.writes then (step p.s (.write t a v)).map (fun s' => { p with s := s', writes := p.writes - 1 })
    else none
  | .readv t a v =>
    if 0 < p.reads then (step p.s (.readv t a v)).map (fun s' => { p with s := s', reads := p.reads - 1 })
    else none
  | e => (step p.s e).map (fun s' => { p with s := s' })

/-- every program step is a model step -/
theorem pstep_step (p p' : PSt) (e : Ev) (h : pstep p e = some p') : step p.s e = some p'.s := by
  cases e <;> simp only [pstep] at h
  case req t a w newg died =>
    split at h
    · split at h
      · simp only [Option.map_eq_some_iff] at h; obtain ⟨s', h1, h2⟩ := h; subst h2; exact h1
      · simp at h
    · simp at h
  all_goals first
    | (split at h
       · simp only [Option.map_eq_some_iff] at h; obtain ⟨s', h1, h2⟩ := h; subst h2; exact h1
       · simp at h)
    | (simp only [Option.map_eq_some_iff] at h; obtain ⟨s', h1, h2⟩ := h; subst h2; exact h1)

theorem runLog_pstep_step (log : List Ev) : ∀ (p p' : PSt), runLog pstep p log = some p' →
    runLog step p.s log = some p'.s := by
  induction log with
  | nil => intro p p' h; simp at h; subst h; simp
  | cons e es ih =>
    intro p p' h
    simp only [runLog] at h ⊢
    cases hs : pstep p e with
    | none => simp [hs] at h
    | some p1 =>
      simp only [hs] at h
      rw [pstep_step p p1 e hs]
      exact ih p1 p' h

/-- potential of a program state: the measure of the model state plus the work the remaining
    operations of the program can still create -/
def phi (p : PSt) : Nat := mu p.s + 7 * p.reqs.length + 2 * p.copies + p.writes + p.reads

/-- the bound: 2 (destruction of the mutex and of the value) + 7 per request (request, start,
    load, CAS, exchange of the group, continuation, release) + 2 per wrapper copy (copy, release)
    + 1 per read / modification of the value -/
def bound (kinds : List Bool) (c w r : Nat) : Nat := 2 + 7 * kinds.length + 2 * c + w + r

theorem phi_pinit (kinds : List Bool) (c w r : Nat) : phi (pinit kinds c w r) = bound kinds c w r := by
  simp only [phi, pinit, bound, mu_init]

theorem phi_step (p p' : PSt) (e : Ev) (hi : Inv p.s) (h : pstep p e = some p') :
    phi p' + cost e ≤ phi p := by
  have hm := mu_step p.s p'.s e hi (pstep_step p p' e h)
  cases e <;> simp only [pstep] at h
  case req t a w newg died =>
    split at h
    · rename_i k rest hr
      split at h
      · simp only [Option.map_eq_some_iff] at h; obtain ⟨s', h1, h2⟩ := h; subst h2
        simp only [phi, hr, List.length_cons, gain] at hm ⊢
        omega
      · simp at h
    · simp at h
  case destroy t died =>
    split at h
    · simp only [Option.map_eq_some_iff] at h; obtain ⟨s', h1, h2⟩ := h; subst h2
      simp only [phi, gain] at hm ⊢; omega
    · simp at h
  case copy t a =>
    split at h
    · simp only [Option.map_eq_some_iff] at h; obtain ⟨s', h1, h2⟩ := h; subst h2
      simp only [phi, gain] at hm ⊢; omega
    · simp at h
  case write t a v =>
    split at h
    · simp only [Option.map_eq_some_iff] at h; obtain ⟨s', h1, h2⟩ := h; subst h2
      simp only [phi, gain] at hm ⊢; omega
    · simp at h
  case readv t a v =>
    split at h
    · simp only [Option.map_eq_some_iff] at h; obtain ⟨s', h1, h2⟩ := h; subst h2
      simp only [phi, gain] at hm ⊢; omega
    · simp at h
  all_goals
    (simp only [Option.map_eq_some_iff] at h; obtain ⟨s', h1, h2⟩ := h; subst h2
     simp only [phi, gain] at hm ⊢; omega)

theorem runLog_phi (log : List Ev) : ∀ (p p' : PSt), Inv p.s → runLog pstep p log = some p' →
    phi p' + costs log ≤ phi p := by
  induction log with
  | nil => intro p p' _ h; simp at h; subst h; simp [costs]
  | cons e es ih =>
    intro p p' hi h
    simp only [runLog] at h
    cases hs : pstep p e with
    | none => simp [hs] at h
    | some p1 =>
      simp only [hs] at h
      have h1 := phi_step p p1 e hi hs
      have h2 := ih p1 p' (step_inv _ _ e hi (pstep_step p p1 e hs)) h
      simp only [costs]
      omega

/-! ## The mutex is alive as long as the owner has requests to make -/

theorem decRc_alive (s : St) (t g : Nat) : (decRc s t g).alive = s.alive := (decRc_fields s t g).2.2.2.1

theorem grant_alive (s : St) (t a : Nat) (det : Bool) : (grant s t a det).alive = s.alive := by
  cases det with
  | false => rfl
  | true =>
    exact decRc_alive { s with grants := upd s.grants a (s.grants a + 1), acc := upd s.acc a .released } t (s.grp a)

theorem step_alive (s s' : St) (e : Ev) (h : step s e = some s') (hne : ∀ t d, e ≠ .destroy t d) :
    s'.alive = s.alive := by
  cases e with
  | destroy t d => exact absurd rfl (hne t d)
  | req t a w newg died =>
    simp only [step] at h
    split at h
    · split at h
      · split at h
        · simp only [Option.some.injEq] at h; subst h
          split
          · rw [decRc_alive]
          · rfl
        · simp at h
      · split at h
        · simp only [Option.some.injEq] at h; subst h; rfl
        · simp at h
    · simp at h
  | _ =>
    simp only [step] at h
    repeat' split at h
    all_goals first
      | (simp at h; done)
      | (simp only [Option.some.injEq] at h; subst h; first | rfl | (rw [decRc_alive]) | (rw [grant_alive]))

def PAlive (p : PSt) : Prop := p.reqs ≠ [] → p.s.alive = true

theorem palive_step (p p' : PSt) (e : Ev) (ha : PAlive p) (h : pstep p e = some p') : PAlive p' := by
  have hs := pstep_step p p' e h
  by_cases hd : ∃ t d, e = .destroy t d
  · obtain ⟨t, d, he⟩ := hd
    subst he
    simp only [pstep] at h
    split at h
    · rename_i hr
      simp only [Option.map_eq_some_iff] at h; obtain ⟨s', h1, h2⟩ := h; subst h2
      intro hne; exact absurd hr hne
    · simp at h
  · have hal := step_alive _ _ e hs (fun t d he => hd ⟨t, d, he⟩)
    intro hne
    rw [hal]
    apply ha
    -- the remaining requests only shrink
    cases e <;> simp only [pstep] at h
    case req t a w newg died =>
      split at h
      · rename_i k rest hr; rw [hr]; simp
      · simp at h
    case destroy t d => exact absurd ⟨t, d, rfl⟩ hd
    all_goals first
      | (split at h
         · simp only [Option.map_eq_some_iff] at h; obtain ⟨s', h1, h2⟩ := h; subst h2; exact hne
         · simp at h)
      | (simp only [Option.map_eq_some_iff] at h; obtain ⟨s', h1, h2⟩ := h; subst h2; exact hne)

theorem runLog_palive (log : List Ev) : ∀ (p p' : PSt), PAlive p → runLog pstep p log = some p' → PAlive p' := by
  induction log with
  | nil => intro p p' ha h; simp at h; subst h; exact ha
  | cons e es ih =>
    intro p p' ha h
    simp only [runLog] at h
    cases hs : pstep p e with
    | none => simp [hs] at h
    | some p1 =>
      simp only [hs] at h
      exact ih p1 p' (palive_step p p1 e ha hs) h

/-! ## Final states -/

/-- Nothing is left to do: no step of the implementation (`Stuck`: `add_op_state`, `done()`), no
    sender left to start or drop, no wrapper left to destroy, the mutex object destroyed, the value
    destructor not pending. -/
def Quiescent (s : St) : Prop :=
  Stuck s ∧ (∀ t a det, step s (.start t a det) = none) ∧ (∀ t a d, step s (.rel t a d) = none) ∧
    (∀ t, step s (.vfree t) = none) ∧ s.alive = false

/-- with the mutex gone and every access released, every shared state is destroyed -/
theorem all_dead {s : St} (hi : Inv s) (hal : s.alive = false)
    (hall : ∀ b, b < s.na → s.acc b = .released) : ∀ g, g < s.ng → s.dead g = true := by
  intro g
  induction g with
  | zero =>
    intro hg
    have A := hi.account 0 hg
    have hm : mtxw s 0 = 0 := by simp [mtxw, mtxwF, hal]
    have hl : linkw s 0 = 0 := by simp [linkw, linkwF]
    have hs : gsum s 0 = 0 := by
      apply sumTo_eq_zero
      intro u hu
      by_cases e : s.grp u = 0
      · simp [e, hall u hu, weight]
      · simp [e]
    have : s.rc 0 = 0 := by omega
    exact (hi.deadRc 0 hg).2 this
  | succ k ih =>
    intro hg
    have hk := ih (by omega)
    have A := hi.account (k + 1) hg
    have hm : mtxw s (k + 1) = 0 := by simp [mtxw, mtxwF, hal]
    have hl : linkw s (k + 1) = 0 := by simp [linkw, linkwF, hk]
    have hs : gsum s (k + 1) = 0 := by
      apply sumTo_eq_zero
      intro u hu
      by_cases e : s.grp u = k + 1
      · simp [e, hall u hu, weight]
      · simp [e]
    have : s.rc (k + 1) = 0 := by omega
    exact (hi.deadRc _ hg).2 this

/-- **Final states.**  In a reachable quiescent state every requested access has been granted
    exactly once and is completely released, every shared state has been destroyed (reference
    count zero, `done()` finished, queue closed and empty) and the value has been destroyed. -/
theorem final_of_quiescent (s : St) (hr : Reachable s) (hq : Quiescent s) :
    (∀ a, a < s.na → s.acc a = .released ∧ s.grants a = 1) ∧
    (∀ g, g < s.ng → s.dead g = true ∧ s.rc g = 0 ∧ s.head g = none ∧ ∃ t, s.dn g = .drain t []) ∧
    s.vfreed = true := by
  obtain ⟨hstuck, hstart, hrel, hvf, hal⟩ := hq
  have hr' := hr
  obtain ⟨log, hlog⟩ := hr
  have hi := inv_of_accepted hlog
  obtain ⟨p1, p2, p3⟩ := C04_progress s hr' hstuck
  -- every access is queued or released
  have hqr : ∀ a, a < s.na → isQ (s.acc a) = true ∨ s.acc a = .released := by
    intro a ha
    cases hx : s.acc a with
    | none => exact absurd hx (hi.accSome a ha)
    | sender => have := hstart 0 a false; simp [step, hx] at this
    | starting t d => exact absurd hx (p1 a t d)
    | loaded t d h => exact absurd hx (p2 a t d h)
    | queued d => left; rfl
    | granted c =>
      have := hrel 0 a (decide (s.rc (s.grp a) = 1)); simp [step, hx] at this
    | released => right; rfl
  -- by induction over the groups: none is queued
  have hall : ∀ n a, a < s.na → s.grp a ≤ n → s.acc a = .released := by
    intro n
    induction n with
    | zero =>
      intro a ha hg
      rcases hqr a ha with h | h
      · have hw := C04_no_stall s hr' hstuck a ha
          ⟨hi.accSome a ha, by intro e; rw [e] at h; simp [isQ] at h⟩
          (fun b _ hlt => by omega)
        unfold WasGranted at hw
        cases hx : s.acc a <;> rw [hx] at h hw <;> simp [isQ, post] at h hw
      · exact h
    | succ k ih =>
      intro a ha hg
      rcases hqr a ha with h | h
      · have hw := C04_no_stall s hr' hstuck a ha
          ⟨hi.accSome a ha, by intro e; rw [e] at h; simp [isQ] at h⟩
          (fun b hb hlt => ih b hb (by omega))
        unfold WasGranted at hw
        cases hx : s.acc a <;> rw [hx] at h hw <;> simp [isQ, post] at h hw
      · exact h
  have hrelAll : ∀ b, b < s.na → s.acc b = .released := fun b hb => hall (s.grp b) b hb (Nat.le_refl _)
  have hdead := all_dead hi hal hrelAll
  refine ⟨?_, ?_, ?_⟩
  · intro a ha
    refine ⟨hrelAll a ha, ?_⟩
    have := hi.grantsOk a
    rw [hrelAll a ha] at this
    simpa [post] using this
  · intro g hg
    have hd := hdead g hg
    have hrc := (hi.deadRc g hg).1 hd
    have hni : s.dn g ≠ .idle := by
      intro h
      have := (hi.dnIdle g hg).1 h
      have := hdead (g - 1) (by omega)
      simp_all
    have hdn : ∃ t, s.dn g = .drain t [] := by
      rcases p3 g hg with h | h
      · exact absurd h hni
      · exact h
    obtain ⟨t, ht⟩ := hdn
    have hh := hi.headDn g hg
    rw [ht] at hh
    refine ⟨hd, hrc, ?_, t, ht⟩
    cases hx : s.head g with
    | none => rfl
    | some q => rw [hx] at hh; simp [isDrain] at hh
  · cases hv : s.vfreed with
    | true => rfl
    | false =>
      exfalso
      have := hvf 0
      simp only [step] at this
      have hc : s.alive = false ∧ (s.ng = 0 ∨ s.dead (s.ng - 1) = true) ∧ s.vfreed = false := by
        refine ⟨hal, ?_, hv⟩
        by_cases h0 : s.ng = 0
        · exact Or.inl h0
        · exact Or.inr (hdead _ (by omega))
      simp [hc] at this

/-- no program event is enabled -/
def PMax (p : PSt) : Prop := ∀ e, pstep p e = none

/-- the model state of a maximal program state is quiescent and the owner has made all requests -/
theorem quiescent_of_pmax (p : PSt) (hi : Inv p.s) (ha : PAlive p) (hm : PMax p) :
    p.reqs = [] ∧ Quiescent p.s := by
  have hreq : p.reqs = [] := by
    cases hr : p.reqs with
    | nil => rfl
    | cons k rest =>
      exfalso
      have hal := ha (by rw [hr]; simp)
      by_cases hn : k = true ∨ p.s.lastRw = true
      · have := hm (.req 0 p.s.na k true (decide (0 < p.s.ng) && decide (p.s.rc (p.s.ng - 1) = 1)))
        simp [pstep, hr, step, hal, hn] at this
      · have := hm (.req 0 p.s.na k false false)
        simp [pstep, hr, step, hal, hn] at this
  have hint : ∀ e, (∀ t a w n d, e ≠ .req t a w n d) → (∀ t d, e ≠ .destroy t d) → (∀ t a, e ≠ .copy t a) →
      (∀ t a v, e ≠ .write t a v) → (∀ t a v, e ≠ .readv t a v) → step p.s e = none := by
    intro e h1 h2 h3 h4 h5
    have := hm e
    cases e with
    | req t a w n d => exact absurd rfl (h1 t a w n d)
    | destroy t d => exact absurd rfl (h2 t d)
    | copy t a => exact absurd rfl (h3 t a)
    | write t a v => exact absurd rfl (h4 t a v)
    | readv t a v => exact absurd rfl (h5 t a v)
    | _ => simpa [pstep] using this
  refine ⟨hreq, ?_, ?_, ?_, ?_, ?_⟩
  · intro e he
    cases e <;> first | (apply hint <;> intros <;> simp; done) | exact absurd he (by simp [Internal])
  · intro t a det; apply hint <;> intros <;> simp
  · intro t a d; apply hint <;> intros <;> simp
  · intro t; apply hint <;> intros <;> simp
  · cases hal : p.s.alive with
    | false => rfl
    | true =>
      exfalso
      by_cases hng : 0 < p.s.ng
      · have := hm (.destroy 0 (decide (p.s.rc (p.s.ng - 1) = 1)))
        simp [pstep, hreq, step, hal, hng] at this
      · have := hm (.destroy 0 false)
        simp [pstep, hreq, step, hal, hng] at this

end PikaVerif.Rw
