import PikaVerif.Lemmas.Stop6
import PikaVerif.Lemmas.Stop8
import PikaVerif.Lemmas.Stop7L
import PikaVerif.Lemmas.Stop7R
import PikaVerif.Lemmas.Stop7Q
/-! Follow-up C14p: all invariants after every accepted log of the repaired code (repaired
    constructor, faithful thread identities), and the progress lemmas built on them. -/
namespace PikaVerif.Stop
open PikaVerif

theorem stepL (s s' : St) (e : Ev) (hA : InvA s) (hB : InvB s) (hi : InvL s) (h : step s e = some s') : InvL s' := by
  cases e with
  | inv a k => exact stepL_inv s s' a k hA hB hi h
  | ret a r => exact stepL_ret s s' a r hA hB hi h
  | load a lk rq src => exact stepL_load s s' a lk rq src hA hB hi h
  | casFail a lk rq src => exact stepL_casFail s s' a lk rq src hA hB hi h
  | reload a lk rq src => exact stepL_reload s s' a lk rq src hA hB hi h
  | acq a => exact stepL_acq s s' a hA hB hi h
  | deq a c m => exact stepL_deq s s' a c m hA hB hi h
  | rsDone a => exact stepL_rsDone s s' a hA hB hi h
  | preExec a c => exact stepL_preExec s s' a c hA hB hi h
  | cbBegin a c => exact stepL_cbBegin s s' a c hA hB hi h
  | cbEnd a c => exact stepL_cbEnd s s' a c hA hB hi h
  | finStore a c r => exact stepL_finStore s s' a c r hA hB hi h
  | inFin a c => exact stepL_inFin s s' a c hA hB hi h
  | push a c b => exact stepL_push s s' a c b hA hB hi h
  | unlink a c r => exact stepL_unlink s s' a c r hA hB hi h
  | selfChk a c e p => exact stepL_selfChk s s' a c e p hA hB hi h
  | waited a c => exact stepL_waited s s' a c hA hB hi h
  | srcInc a => exact stepL_srcInc s s' a hA hB hi h
  | srcDec a => exact stepL_srcDec s s' a hA hB hi h
  | query a x y => exact stepL_query s s' a x y hA hB hi h
  | done a => exact stepL_done s s' a hA hB hi h

theorem stepR (s s' : St) (e : Ev) (hA : InvA s) (hB : InvB s) (hi : InvR s) (h : step s e = some s') : InvR s' := by
  cases e with
  | inv a k => exact stepR_inv s s' a k hA hB hi h
  | ret a r => exact stepR_ret s s' a r hA hB hi h
  | load a lk rq src => exact stepR_load s s' a lk rq src hA hB hi h
  | casFail a lk rq src => exact stepR_casFail s s' a lk rq src hA hB hi h
  | reload a lk rq src => exact stepR_reload s s' a lk rq src hA hB hi h
  | acq a => exact stepR_acq s s' a hA hB hi h
  | deq a c m => exact stepR_deq s s' a c m hA hB hi h
  | rsDone a => exact stepR_rsDone s s' a hA hB hi h
  | preExec a c => exact stepR_preExec s s' a c hA hB hi h
  | cbBegin a c => exact stepR_cbBegin s s' a c hA hB hi h
  | cbEnd a c => exact stepR_cbEnd s s' a c hA hB hi h
  | finStore a c r => exact stepR_finStore s s' a c r hA hB hi h
  | inFin a c => exact stepR_inFin s s' a c hA hB hi h
  | push a c b => exact stepR_push s s' a c b hA hB hi h
  | unlink a c r => exact stepR_unlink s s' a c r hA hB hi h
  | selfChk a c e p => exact stepR_selfChk s s' a c e p hA hB hi h
  | waited a c => exact stepR_waited s s' a c hA hB hi h
  | srcInc a => exact stepR_srcInc s s' a hA hB hi h
  | srcDec a => exact stepR_srcDec s s' a hA hB hi h
  | query a x y => exact stepR_query s s' a x y hA hB hi h
  | done a => exact stepR_done s s' a hA hB hi h

theorem stepQ (s s' : St) (e : Ev) (hA : InvA s) (hB : InvB s) (hR : InvR s) (hi : InvQ s) (h : step s e = some s') : InvQ s' := by
  cases e with
  | inv a k => exact stepQ_inv s s' a k hA hB hR hi h
  | ret a r => exact stepQ_ret s s' a r hA hB hR hi h
  | load a lk rq src => exact stepQ_load s s' a lk rq src hA hB hR hi h
  | casFail a lk rq src => exact stepQ_casFail s s' a lk rq src hA hB hR hi h
  | reload a lk rq src => exact stepQ_reload s s' a lk rq src hA hB hR hi h
  | acq a => exact stepQ_acq s s' a hA hB hR hi h
  | deq a c m => exact stepQ_deq s s' a c m hA hB hR hi h
  | rsDone a => exact stepQ_rsDone s s' a hA hB hR hi h
  | preExec a c => exact stepQ_preExec s s' a c hA hB hR hi h
  | cbBegin a c => exact stepQ_cbBegin s s' a c hA hB hR hi h
  | cbEnd a c => exact stepQ_cbEnd s s' a c hA hB hR hi h
  | finStore a c r => exact stepQ_finStore s s' a c r hA hB hR hi h
  | inFin a c => exact stepQ_inFin s s' a c hA hB hR hi h
  | push a c b => exact stepQ_push s s' a c b hA hB hR hi h
  | unlink a c r => exact stepQ_unlink s s' a c r hA hB hR hi h
  | selfChk a c e p => exact stepQ_selfChk s s' a c e p hA hB hR hi h
  | waited a c => exact stepQ_waited s s' a c hA hB hR hi h
  | srcInc a => exact stepQ_srcInc s s' a hA hB hR hi h
  | srcDec a => exact stepQ_srcDec s s' a hA hB hR hi h
  | query a x y => exact stepQ_query s s' a x y hA hB hR hi h
  | done a => exact stepQ_done s s' a hA hB hR hi h

/-- the activity that performs an event -/
def actor : Ev → Nat
  | .inv a _ | .ret a _ | .load a _ _ _ | .casFail a _ _ _ | .reload a _ _ _ | .acq a | .deq a _ _
  | .rsDone a | .preExec a _ | .cbBegin a _ | .cbEnd a _ | .finStore a _ _ | .inFin a _ | .push a _ _
  | .unlink a _ _ | .selfChk a _ _ _ | .waited a _ | .srcInc a | .srcDec a | .query a _ _ | .done a => a

/-- events that move an operation forward: everything except the environment's choices
    (invoking a new operation, finishing a thread, copying / dropping a source, a query) and
    futile spins (a failed CAS or a re-load that observed the lock bit held by somebody) -/
def productive : Ev → Bool
  | .inv _ _ | .done _ | .srcInc _ | .srcDec _ | .query _ _ _ => false
  | .casFail _ lk _ _ | .reload _ lk _ _ => !lk
  | _ => true

def lockLoop : Pc → Bool
  | .cas _ _ | .spin _ => true
  | _ => false

/-- the model accepts `e` in `s` -/
def enabled (s : St) (e : Ev) : Bool := (step s e).isSome

/-- the holder of the lock can always perform its next step, which releases the lock -/
theorem holder_steps {s : St} (hA : InvA s) {h : Nat} (hl : s.lock = some h) :
    ∃ e, actor e = h ∧ productive e = true ∧ enabled s e = true ∧ ∀ s', step s e = some s' → s'.lock = none := by
  obtain ⟨hh, hn⟩ := hA.lockConv h hl
  cases hp : s.pc h with
  | locked k =>
    cases k with
    | rs =>
      cases hlist : s.list with
      | nil => exact ⟨.rsDone h, rfl, rfl, by simp [enabled, step, hn, hl, hp, hlist],
          by intro s' hs; simp [step, hn, hl, hp, hlist] at hs; rw [← hs]⟩
      | cons c rest =>
        exact ⟨.deq h c (decide (rest ≠ [])), rfl, rfl, by simp [enabled, step, hn, hl, hp, hlist],
          by intro s' hs; simp [step, hn, hl, hp, hlist] at hs; rw [← hs]⟩
    | relock =>
      cases hlist : s.list with
      | nil => exact ⟨.rsDone h, rfl, rfl, by simp [enabled, step, hn, hl, hp, hlist],
          by intro s' hs; simp [step, hn, hl, hp, hlist] at hs; rw [← hs]⟩
      | cons c rest =>
        exact ⟨.deq h c (decide (rest ≠ [])), rfl, rfl, by simp [enabled, step, hn, hl, hp, hlist],
          by intro s' hs; simp [step, hn, hl, hp, hlist] at hs; rw [← hs]⟩
    | reg c => exact ⟨.push h c (decide (s.list ≠ [])), rfl, rfl, by simp [enabled, step, hn, hl, hp],
          by intro s' hs; simp [step, hn, hl, hp] at hs; rw [← hs]⟩
    | unreg c =>
      by_cases hm : c ∈ s.list
      · exact ⟨.unlink h c true, rfl, rfl, by simp [enabled, step, hn, hl, hp, hm],
          by intro s' hs; simp [step, hn, hl, hp, hm] at hs; rw [← hs]⟩
      · exact ⟨.unlink h c false, rfl, rfl, by simp [enabled, step, hn, hl, hp, hm],
          by intro s' hs; simp [step, hn, hl, hp, hm] at hs; rw [← hs]⟩
  | _ => simp [hp, holds] at hh



/-- everything the progress theorem needs about a state -/
structure InvProg (s : St) : Prop where
  all : InvAll s
  L : InvL s
  R : InvR s
  Q : InvQ s
  finTop : ∀ a, s.pc a = .fin → a < s.K
  fixCtor : s.fixCtor = true

theorem stepProg (s s' : St) (e : Ev) (hi : InvProg s) (h : step s e = some s') : InvProg s' :=
  ⟨stepAll s s' e hi.all h, stepL s s' e hi.all.A hi.all.B hi.L h, stepR s s' e hi.all.A hi.all.B hi.R h,
   stepQ s s' e hi.all.A hi.all.B hi.R hi.Q h, finTop_step s s' e hi.finTop h,
   by rw [(step_consts s s' e h).2.2.2.2]; exact hi.fixCtor⟩

theorem invProg_of_accepted {n K : Nat} {ident : Nat → Nat} {srcs : Nat} {log : List Ev} {s : St}
    (hK : 0 < K) (hid : ∀ a b, ident a = ident b ↔ a % K = b % K)
    (h : runLog step (init n K ident true true srcs) log = some s) : InvProg s :=
  inv_of_runLog InvProg (fun s e s' hi hs => stepProg s s' e hi hs)
    ⟨invAll_init n K ident true srcs hK hid, invL_init n K ident true true srcs, invR_init n K ident true true srcs,
     invQ_init n K ident true true srcs, finTop_init n K ident true true srcs, rfl⟩ h

/-- a waiting destructor waits for a callback that request_stop is processing on another thread -/
theorem wait_legit {s : St} (hP : InvProg s) {a c : Nat} (hp : s.pc a = .wait c) (hf : s.fin c = false) :
    ∃ w, winPhase (s.pc w) = some c ∧ thr s.K w ≠ thr s.K a := by
  have hI := hP.all
  have hpath : unregPath (s.pc a) = some c := by simp [hp, unregPath]
  have hpu := hP.L.path a c hpath hP.fixCtor
  have hout := (hI.B.unregOut a c (by simp [hp, unregDone])).1
  have hd : s.deqd c = true := by
    rcases hP.L.linkedP a c hpath hpu with h | h
    · exact absurd h hout
    · exact h
  have hw : winPhase (s.pc (s.owner c)) = some c := by
    rcases hP.Q.deqP a c hpath hd with h | h
    · rw [hf] at h; simp at h
    · exact h
  refine ⟨s.owner c, hw, ?_⟩
  intro ht
  have hwin := hI.A.winPhaseWinner _ c hw
  have hs := hI.S.sigW _ hwin
  apply hI.D.waitOther a c hp
  rw [hs]; exact (hI.F.2 _ a).2 ht

theorem act_lt {s : St} (hA : InvA s) {a : Nat} (ha : act (s.pc a) = true) : a < s.n := by
  rcases Nat.lt_or_ge a s.n with h | h
  · exact h
  · have := hA.outside a h; rw [this] at ha; simp [act] at ha

/-- **Progress, local form.**  Every activity that is inside an operation
    (1) is inside a callback body whose nested operation is active (the thread is working there), or
    (2) can perform a productive step itself, or
    (3) is in a lock loop while another activity holds the lock, and that holder can perform its
        next step, which releases the lock, or
    (4) legitimately waits in `remove_callback`: the callback is being processed by request_stop
        on another thread and its finished flag is not yet stored. -/
theorem progress_local {s : St} (hP : InvProg s) (a : Nat) (ha : act (s.pc a) = true) :
    (isBody (s.pc a) = true ∧ act (s.pc (a + s.K)) = true)
    ∨ (∃ e, actor e = a ∧ productive e = true ∧ enabled s e = true)
    ∨ (∃ h e, s.lock = some h ∧ h ≠ a ∧ lockLoop (s.pc a) = true ∧ actor e = h ∧ productive e = true ∧
          enabled s e = true ∧ ∀ s', step s e = some s' → s'.lock = none)
    ∨ (∃ c w, s.pc a = .wait c ∧ s.fin c = false ∧ winPhase (s.pc w) = some c ∧ thr s.K w ≠ thr s.K a) := by
  have hA := hP.all.A
  have han := act_lt hA ha
  have lockCase : ∀ h, s.lock = some h → lockLoop (s.pc a) = true →
      (∃ h e, s.lock = some h ∧ h ≠ a ∧ lockLoop (s.pc a) = true ∧ actor e = h ∧ productive e = true ∧
          enabled s e = true ∧ ∀ s', step s e = some s' → s'.lock = none) := by
    intro h hl hloop
    obtain ⟨e, he1, he2, he3, he4⟩ := holder_steps hA hl
    refine ⟨h, e, hl, ?_, hloop, he1, he2, he3, he4⟩
    intro hha; subst hha
    have := (hA.lockConv h hl).1
    cases hp : s.pc h <;> simp [hp, holds, lockLoop] at this hloop
  cases hp : s.pc a with
  | idle => simp [hp, act] at ha
  | fin => simp [hp, act] at ha
  | ld k =>
    exact Or.inr (Or.inl ⟨.load a s.lock.isSome s.req s.srcs, rfl, rfl, by simp [enabled, step, han, hp]⟩)
  | cas k b =>
    cases hl : s.lock with
    | some h =>
      refine Or.inr (Or.inr (Or.inl ?_))
      rw [← hl, ← hp]
      exact lockCase h hl (by simp [hp, lockLoop])
    | none =>
      by_cases hb : b = s.req
      · refine Or.inr (Or.inl ⟨.acq a, rfl, rfl, ?_⟩)
        cases k <;> simp [enabled, step, han, hp, hl, hb]
      · exact Or.inr (Or.inl ⟨.casFail a false s.req s.srcs, rfl, rfl, by simp [enabled, step, han, hp, hl]⟩)
  | spin k =>
    cases hl : s.lock with
    | some h =>
      refine Or.inr (Or.inr (Or.inl ?_))
      rw [← hl, ← hp]
      exact lockCase h hl (by simp [hp, lockLoop])
    | none =>
      exact Or.inr (Or.inl ⟨.reload a false s.req s.srcs, rfl, rfl, by simp [enabled, step, han, hp, hl]⟩)
  | locked k =>
    have hl := hA.lockHolder a (by simp [hp, holds])
    obtain ⟨e, he1, he2, he3, _⟩ := holder_steps hA hl
    exact Or.inr (Or.inl ⟨e, he1, he2, he3⟩)
  | pre c => exact Or.inr (Or.inl ⟨.preExec a c, rfl, rfl, by simp [enabled, step, han, hp]⟩)
  | exec c inl => exact Or.inr (Or.inl ⟨.cbBegin a c, rfl, rfl, by simp [enabled, step, han, hp]⟩)
  | body c inl =>
    by_cases hc : act (s.pc (a + s.K)) = true
    · exact Or.inl ⟨by simp [isBody], hc⟩
    · have hidle : s.pc (a + s.K) = .idle := by
        cases hq : s.pc (a + s.K) with
        | idle => rfl
        | fin => have := hP.finTop _ hq; omega
        | _ => simp [hq, act] at hc
      exact Or.inr (Or.inl ⟨.cbEnd a c, rfl, rfl, by simp [enabled, step, han, hp, hidle]⟩)
  | post c inl =>
    cases inl with
    | false => exact Or.inr (Or.inl ⟨.finStore a c (s.remFlag a), rfl, rfl, by
        cases hr : s.remFlag a <;> simp [enabled, step, han, hp, hr]⟩)
    | true => exact Or.inr (Or.inl ⟨.inFin a c, rfl, rfl, by simp [enabled, step, han, hp]⟩)
  | chk c =>
    by_cases he : s.sig = s.ident a
    · cases hr : s.remPtr c with
      | some w => exact Or.inr (Or.inl ⟨.selfChk a c true true, rfl, rfl, by simp [enabled, step, han, hp, he, hr]⟩)
      | none => exact Or.inr (Or.inl ⟨.selfChk a c true false, rfl, rfl, by simp [enabled, step, han, hp, he, hr]⟩)
    · exact Or.inr (Or.inl ⟨.selfChk a c false false, rfl, rfl, by simp [enabled, step, han, hp, he]⟩)
  | wait c =>
    cases hf : s.fin c with
    | true => exact Or.inr (Or.inl ⟨.waited a c, rfl, rfl, by simp [enabled, step, han, hp, hf]⟩)
    | false =>
      obtain ⟨w, hw1, hw2⟩ := wait_legit hP hp hf
      exact Or.inr (Or.inr (Or.inr ⟨c, w, rfl, hf, hw1, hw2⟩))
  | retn k r =>
    cases k with
    | rs => exact Or.inr (Or.inl ⟨.ret a r, rfl, rfl, by simp [enabled, step, han, hp]⟩)
    | reg c => exact Or.inr (Or.inl ⟨.ret a r, rfl, rfl, by simp [enabled, step, han, hp]⟩)
    | unreg c => exact Or.inr (Or.inl ⟨.ret a r, rfl, rfl, by simp [enabled, step, han, hp]⟩)
    | relock => exact absurd hp (hP.all.S.noRelockRet a r)

/-- no activity of the thread of a request_stop that is processing a callback is stuck -/
theorem no_stuck_on_winner_thread {s : St} (hP : InvProg s)
    (hstuck : ∀ e, productive e = true → enabled s e = false) (w0 c0 : Nat)
    (hw0 : winPhase (s.pc w0) = some c0) :
    ∀ m x, s.n - x ≤ m → thr s.K x = thr s.K w0 → act (s.pc x) = true → False := by
  intro m
  induction m with
  | zero => intro x hm _ ha; have := act_lt hP.all.A ha; omega
  | succ m ih =>
    intro x hm ht ha
    have hxn := act_lt hP.all.A ha
    rcases progress_local hP x ha with h | ⟨e, _, h2, h3⟩ | ⟨_, e, _, _, _, _, h2, h3, _⟩ | ⟨c, w, hp, _, hw, hne⟩
    · have hK := hP.all.F.1
      exact ih (x + s.K) (by omega) (by rw [thr_add]; exact ht) h.2
    · rw [hstuck e h2] at h3; simp at h3
    · rw [hstuck e h2] at h3; simp at h3
    · have e1 := hP.all.A.winPhaseWinner w c hw
      have e2 := hP.all.A.winPhaseWinner w0 c0 hw0
      rw [e1] at e2; simp at e2; subst e2
      exact hne ht.symm

theorem winPhase_act {p : Pc} {c : Nat} (h : winPhase p = some c) : act p = true := by
  cases p <;> simp_all [winPhase, act]

/-- **No deadlock.**  A state in which no productive step is possible has every activity idle
    or finished. -/
theorem stuck_all_idle {s : St} (hP : InvProg s) (hstuck : ∀ e, productive e = true → enabled s e = false) :
    ∀ a, act (s.pc a) = false := by
  have key : ∀ m a, s.n - a ≤ m → act (s.pc a) = true → False := by
    intro m
    induction m with
    | zero => intro a hm ha; have := act_lt hP.all.A ha; omega
    | succ m ih =>
      intro a hm ha
      have han := act_lt hP.all.A ha
      rcases progress_local hP a ha with h | ⟨e, _, h2, h3⟩ | ⟨_, e, _, _, _, _, h2, h3, _⟩ | ⟨c, w, _, _, hw, _⟩
      · have hK := hP.all.F.1
        exact ih (a + s.K) (by omega) h.2
      · rw [hstuck e h2] at h3; simp at h3
      · rw [hstuck e h2] at h3; simp at h3
      · exact no_stuck_on_winner_thread hP hstuck w c hw (s.n - w) w (Nat.le_refl _) rfl (winPhase_act hw)
  intro a
  cases h : act (s.pc a) with
  | false => rfl
  | true => exact absurd h (fun h => key (s.n - a) a (Nat.le_refl _) h)


end PikaVerif.Stop
