import PikaVerif.Lemmas.StopT2
/-!
# Finite programs over the stop_state model (follow-up C14t)

A *program* gives every thread `t < K` a finite list of operations (`ops t`) and every callback
`c` a finite script (`ops (K + c)`): construct / destroy a callback, request_stop, the queries,
copy / drop a stop_source.  `pstep` is the model's `step` restricted to the logs of that program:
an environment event of activity `a` must be an operation still to come in the list of `a`'s
*slot* — the thread's list at nesting level 0, the script of the callback whose body the parent
activity `a - K` is in otherwise (operations before it are skipped: the harness skips operations
that are illegal at that moment, e.g. destroying a callback that is not alive); `done a` needs
the thread's list to be empty; every other event is passed to `step` unchanged.

`phi` = `mu` + `(invCost + 1)` per operation not yet started.  Every accepted event of a program
is a stutter (state and program unchanged) or strictly decreases `phi`.
-/
namespace PikaVerif.Stop
open PikaVerif

inductive Op where
  | call (k : Kind) | q | inc | dec
  deriving DecidableEq, Repr

/-- the rest of the list after the first occurrence of `o` -/
def after (o : Op) : List Op → Option (List Op)
  | [] => none
  | x :: l => if x = o then some l else after o l

theorem after_length (o : Op) (l r : List Op) (h : after o l = some r) : r.length < l.length := by
  induction l with
  | nil => simp [after] at h
  | cons x l ih =>
    simp only [after] at h
    split at h
    · simp only [Option.some.injEq] at h; subst h; simp
    · have := ih h; simp only [List.length_cons]; omega

structure PSt where
  s : St
  /-- slots `0 … K-1`: threads; slot `K + c`: script of callback `c` -/
  ops : Nat → List Op
  /-- number of slots -/
  m : Nat

/-- where activity `a` takes its operations from -/
def slot (s : St) (a : Nat) : Option Nat :=
  if a < s.K then some a
  else match s.pc (a - s.K) with
    | .body c _ => some (s.K + c)
    | _ => none

def consume (p : PSt) (a : Nat) (o : Op) (e : Ev) : Option PSt :=
  match slot p.s a with
  | some i =>
    if i < p.m then
      match after o (p.ops i) with
      | some rest => (step p.s e).map (fun s' => ⟨s', upd p.ops i rest, p.m⟩)
      | none => none
    else none
  | none => none

def lift (p : PSt) (e : Ev) : Option PSt := (step p.s e).map (fun s' => ⟨s', p.ops, p.m⟩)

def pstep (p : PSt) (e : Ev) : Option PSt :=
  match e with
  | .inv a k => consume p a (.call k) e
  | .query a _ _ => consume p a .q e
  | .srcInc a => consume p a .inc e
  | .srcDec a => consume p a .dec e
  | .done a => if p.ops a = [] then lift p e else none
  | _ => lift p e

/-- operations not yet started -/
def todo (p : PSt) : Nat := sumTo p.m (fun i => (p.ops i).length)

def phi (p : PSt) : Nat := mu p.s + (invCost p.s + 1) * todo p

theorem consume_spec (p p' : PSt) (a : Nat) (o : Op) (e : Ev) (h : consume p a o e = some p') :
    step p.s e = some p'.s ∧ p'.m = p.m ∧ todo p' < todo p := by
  simp only [consume] at h
  split at h
  · next i hi =>
    split at h
    · next him =>
      split at h
      · next rest hr =>
        simp only [Option.map_eq_some_iff] at h
        obtain ⟨s', h1, h2⟩ := h
        subst h2
        refine ⟨h1, rfl, ?_⟩
        simp only [todo]
        have := sumTo_upd p.m List.length p.ops i rest him
        have := after_length o _ _ hr
        omega
      · simp at h
    · simp at h
  · simp at h

theorem lift_spec (p p' : PSt) (e : Ev) (h : lift p e = some p') :
    step p.s e = some p'.s ∧ p'.m = p.m ∧ p'.ops = p.ops := by
  simp only [lift, Option.map_eq_some_iff] at h
  obtain ⟨s', h1, h2⟩ := h
  subst h2
  exact ⟨h1, rfl, rfl⟩

/-- every accepted program step is an accepted model step -/
theorem pstep_step (p p' : PSt) (e : Ev) (h : pstep p e = some p') : step p.s e = some p'.s := by
  cases e <;> simp only [pstep] at h <;>
    first
      | exact (consume_spec _ _ _ _ _ h).1
      | exact (lift_spec _ _ _ h).1
      | (split at h
         · exact (lift_spec _ _ _ h).1
         · simp at h)

theorem runLog_pstep_step (log : List Ev) : ∀ (p p' : PSt), runLog pstep p log = some p' →
    runLog step p.s log = some p'.s := by
  induction log with
  | nil => intro p p' h; simp at h; subst h; simp
  | cons e es ih =>
    intro p p' h
    simp only [runLog] at h ⊢
    cases hs : pstep p e with
    | none => simp [hs] at h
    | some p1 =>
      simp only [hs] at h
      rw [pstep_step p p1 e hs]
      exact ih p1 p' h

/-- **Every accepted event of a program is a stutter or strictly decreases `phi`.** -/
theorem phi_step (p p' : PSt) (e : Ev) (h : pstep p e = some p') :
    (stutter p.s e = true ∧ p'.s = p.s ∧ p'.ops = p.ops ∧ p'.m = p.m) ∨ phi p' < phi p := by
  have hs := pstep_step p p' e h
  obtain ⟨hn, hst, hmv, henv, hdone⟩ := mu_step _ _ _ hs
  have hc : invCost p'.s = invCost p.s := invCost_eq _ _ hn
  have hcons : ∀ a o, consume p a o e = some p' → envEv e = true → phi p' < phi p := by
    intro a o hco he
    obtain ⟨_, _, htd⟩ := consume_spec _ _ _ _ _ hco
    have h1 := henv he
    have h2 : mu p'.s ≤ mu p.s + invCost p.s := by
      split at h1 <;> omega
    simp only [phi, hc]
    have : (invCost p.s + 1) * (todo p' + 1) ≤ (invCost p.s + 1) * todo p := Nat.mul_le_mul_left _ htd
    rw [Nat.mul_add] at this
    omega
  have hlift : lift p e = some p' → envEv e = false →
      (stutter p.s e = true ∧ p'.s = p.s ∧ p'.ops = p.ops ∧ p'.m = p.m) ∨ phi p' < phi p := by
    intro hl he
    obtain ⟨_, hm, ho⟩ := lift_spec _ _ _ hl
    cases hstt : stutter p.s e
    · right
      have := hmv (by simp [moving, he, hstt])
      have htd : todo p' = todo p := by simp [todo, hm, ho]
      simp only [phi, hc, htd]; omega
    · exact Or.inl ⟨rfl, hst hstt, ho, hm⟩
  cases e with
  | inv a k => exact Or.inr (hcons a _ h rfl)
  | query a x y => exact Or.inr (hcons a _ h rfl)
  | srcInc a => exact Or.inr (hcons a _ h rfl)
  | srcDec a => exact Or.inr (hcons a _ h rfl)
  | done a =>
    right
    simp only [pstep] at h
    split at h
    · obtain ⟨_, hm, ho⟩ := lift_spec _ _ _ h
      have := hdone a rfl
      have htd : todo p' = todo p := by simp [todo, hm, ho]
      simp only [phi, hc, htd]; omega
    · simp at h
  | _ => exact hlift h rfl

/-- number of non-stutter events along the program run of `l` from `p` -/
def nSteps : PSt → List Ev → Nat
  | _, [] => 0
  | p, e :: l =>
    match pstep p e with
    | none => 0
    | some p' => (if stutter p.s e then 0 else 1) + nSteps p' l

/-- **Bound of every accepted log of a program**: non-stutter events + final `phi` ≤ initial `phi`. -/
theorem prog_bound (p p' : PSt) (l : List Ev) (h : runLog pstep p l = some p') :
    nSteps p l + phi p' ≤ phi p := by
  induction l generalizing p with
  | nil => simp at h; subst h; simp [nSteps]
  | cons e es ih =>
    simp only [runLog] at h
    cases hs : pstep p e with
    | none => simp [hs] at h
    | some p1 =>
      simp only [hs] at h
      have h1 := ih p1 h
      simp only [nSteps, hs]
      rcases phi_step p p1 e hs with ⟨hst, h2, h3, h4⟩ | hlt
      · have : phi p1 = phi p := by simp [phi, todo, h2, h3, h4]
        simp [hst]; omega
      · split <;> omega

/-- pika's own events do not touch the program -/
theorem pstep_own (p : PSt) (e : Ev) (s' : St) (he : envEv e = false) (h : step p.s e = some s') :
    pstep p e = some ⟨s', p.ops, p.m⟩ := by
  cases e <;> simp_all [pstep, lift, envEv]

theorem lift_run (l : List Ev) : ∀ (p : PSt) (s' : St), (∀ e ∈ l, envEv e = false) →
    runLog step p.s l = some s' → runLog pstep p l = some ⟨s', p.ops, p.m⟩ := by
  induction l with
  | nil => intro p s' _ h; simp at h; subst h; rfl
  | cons e es ih =>
    intro p s' hall h
    simp only [runLog] at h ⊢
    cases hs : step p.s e with
    | none => simp [hs] at h
    | some s1 =>
      simp only [hs] at h
      rw [pstep_own p e s1 (hall e List.mem_cons_self) hs]
      exact ih ⟨s1, p.ops, p.m⟩ s' (fun x hx => hall x (List.mem_cons_of_mem _ hx)) h

/-- number of stutters along the program run of `l` from `p` -/
def nStut : PSt → List Ev → Nat
  | _, [] => 0
  | p, e :: l =>
    match pstep p e with
    | none => 0
    | some p' => (if stutter p.s e then 1 else 0) + nStut p' l

theorem steps_add_stut (p p' : PSt) (l : List Ev) (h : runLog pstep p l = some p') :
    nSteps p l + nStut p l = l.length := by
  induction l generalizing p with
  | nil => rfl
  | cons e es ih =>
    simp only [runLog] at h
    cases hs : pstep p e with
    | none => simp [hs] at h
    | some p1 =>
      simp only [hs] at h
      have := ih p1 h
      simp only [nSteps, nStut, hs, List.length_cons]
      split <;> omega

def pinit (n K : Nat) (ident : Nat → Nat) (fixCas fixCtor : Bool) (srcs : Nat) (ops : Nat → List Op) (m : Nat) : PSt :=
  ⟨init n K ident fixCas fixCtor srcs, ops, m⟩

end PikaVerif.Stop
