import PikaVerif.Model.CVAbort
/-! Inductive invariant of the `abort_all` model (`Model/CVAbort.lean`). -/
namespace PikaVerif.CVAbort
open PikaVerif

/-- Program counters at which the thread holds the internal spinlock. -/
def holds : Pc → Bool
  | .wLocked _ | .enq _ | .relk _ _ | .thrLk _ | .post _ | .nLocked _ | .nAll | .nDone
  | .aLoop | .aPopped _ | .aDone => true
  | _ => false

/-- Program counters at which the thread's entry is linked (in `queue_` or in the local list). -/
def inQ : Pc → Bool
  | .enq _ => true
  | .unl _ p | .susp p | .slp p | .wokeNL _ p | .relk _ p | .thrNL p | .thrLk p => !p
  | _ => false

/-- Inside `abort_all`. -/
def inAb : Pc → Bool
  | .aWant | .aLoop | .aPopped _ | .aUnl _ | .aRelk | .aDone | .aRet => true
  | _ => false

/-- Inside the loops of `abort_all` (the local list exists). -/
def lqOk : Pc → Bool
  | .aLoop | .aPopped _ | .aUnl _ | .aRelk => true
  | _ => false

/-- 1 iff the aborter at this pc has popped `t`'s entry and not yet called `ctx.abort()` on it. -/
def pendN : Pc → Nat → Nat
  | .aPopped g, t => if g = t then 1 else 0
  | .aUnl g, t => if g = t then 1 else 0
  | _, _ => 0

/-- Popped while (about to be) parked in an untimed wait: a wake-up must exist or be on its way. -/
def needTok : Pc → Bool
  | .unl tm p => !tm && p
  | .susp p => p
  | _ => false

structure Inv (s : St) : Prop where
  lockHolder : ∀ t, holds (s.pc t) = true → s.lock = some t
  lockConv : ∀ r, s.lock = some r → holds (s.pc r) = true
  qIff : ∀ t, (t ∈ s.queue ∨ t ∈ s.lq) ↔ inQ (s.pc t) = true
  qNodup : (s.queue ++ s.lq).Nodup
  abHolder : ∀ t, inAb (s.pc t) = true → s.ab = some t
  abConv : ∀ a, s.ab = some a → inAb (s.pc a) = true
  lqNone : s.ab = none → s.lq = []
  lqEmpty : ∀ a, s.ab = some a → lqOk (s.pc a) = false → s.lq = []
  cnt : ∀ t, s.pops t + s.abPops t + b2n (inQ (s.pc t)) ≤ s.enqs t
  abCnt : ∀ a t, s.ab = some a → s.abPops t = s.aborts t + pendN (s.pc a) t
  abCnt0 : s.ab = none → ∀ t, s.abPops t = s.aborts t
  wake : ∀ t, needTok (s.pc t) = true → 0 < s.tok t ∨ s.aborts t < s.abPops t

theorem inv_init (n : Nat) : Inv (init n) := by
  refine ⟨?_, ?_, ?_, ?_, ?_, ?_, ?_, ?_, ?_, ?_, ?_, ?_⟩ <;>
    simp [init, holds, inQ, inAb, lqOk, needTok, b2n]

attribute [local grind] holds inQ inAb lqOk pendN needTok setPopped b2n isSlp

set_option maxHeartbeats 1000000

set_option hygiene false in
macro "cva_step" : tactic => `(tactic| (
  simp only [step, popCore] at h
  obtain ⟨h1,h2,h3,h4,h5,h6,h7,h8,h9,h10,h11,h12⟩ := hi
  repeat' split at h
  all_goals first | (simp at h; done) | skip
  all_goals (
    simp only [Option.some.injEq] at h
    subst h
    refine ⟨?_, ?_, ?_, ?_, ?_, ?_, ?_, ?_, ?_, ?_, ?_, ?_⟩ <;> dsimp only
  )
  all_goals first
    | assumption
    | (intro u; grind [upd])
    | (intro u v; grind [upd])
    | grind [upd]))

theorem step_inv_inv (s s' : St) (t : Nat) (o : Op) (hi : Inv s) (h : step s (.inv t o) = some s') : Inv s' := by cva_step
theorem step_inv_ret (s s' : St) (t : Nat) (r : Nat) (hi : Inv s) (h : step s (.ret t r) = some s') : Inv s' := by cva_step
theorem step_inv_slAcq (s s' : St) (t : Nat) (hi : Inv s) (h : step s (.slAcq t) = some s') : Inv s' := by cva_step
theorem step_inv_slRel (s s' : St) (t : Nat) (hi : Inv s) (h : step s (.slRel t) = some s') : Inv s' := by cva_step
theorem step_inv_cvNone (s s' : St) (t : Nat) (hi : Inv s) (h : step s (.cvNone t) = some s') : Inv s' := by cva_step
theorem step_inv_cvAll (s s' : St) (t z : Nat) (hi : Inv s) (h : step s (.cvAll t z) = some s') : Inv s' := by cva_step
theorem step_inv_suspend (s s' : St) (t : Nat) (hi : Inv s) (h : step s (.suspend t) = some s') : Inv s' := by cva_step
theorem step_inv_woke (s s' : St) (t : Nat) (b : Bool) (hi : Inv s) (h : step s (.woke t b) = some s') : Inv s' := by cva_step
theorem step_inv_sleep (s s' : St) (t : Nat) (hi : Inv s) (h : step s (.sleep t) = some s') : Inv s' := by cva_step
theorem step_inv_timeout (s s' : St) (t : Nat) (hi : Inv s) (h : step s (.timeout t) = some s') : Inv s' := by cva_step
theorem step_inv_done (s s' : St) (t : Nat) (hi : Inv s) (h : step s (.done t) = some s') : Inv s' := by cva_step
theorem step_inv_abDone (s s' : St) (t z : Nat) (hi : Inv s) (h : step s (.abDone t z) = some s') : Inv s' := by cva_step
theorem step_inv_abort (s s' : St) (t g : Nat) (d : Bool) (hi : Inv s) (h : step s (.abort t g d) = some s') : Inv s' := by
  have hx : isSlp (s.pc g) = true → needTok (s.pc g) = false := by
    cases s.pc g <;> simp [isSlp, needTok]
  cva_step
theorem step_inv_cvEnq (s s' : St) (t z : Nat) (b : Bool) (hi : Inv s) (h : step s (.cvEnq t z b) = some s') : Inv s' := by cva_step
theorem step_inv_abSwap (s s' : St) (t z : Nat) (hi : Inv s) (h : step s (.abSwap t z) = some s') : Inv s' := by cva_step
theorem step_inv_cvWoke (s s' : St) (t : Nat) (a b : Bool) (hi : Inv s) (h : step s (.cvWoke t a b) = some s') : Inv s' := by cva_step
theorem step_inv_threw (s s' : St) (t : Nat) (hi : Inv s) (h : step s (.threw t) = some s') : Inv s' := by cva_step

theorem setPopped_facts {p p' : Pc} (h : setPopped p = some p') :
    holds p' = false ∧ holds p = false ∧ inQ p = true ∧ inQ p' = false ∧ inAb p' = false ∧ inAb p = false ∧
    lqOk p' = false ∧ lqOk p = false ∧ (∀ x, pendN p' x = 0) ∧ (∀ x, pendN p x = 0) ∧
    (needTok p' = true → isSlp p = false) ∧ (needTok p = false) := by
  unfold setPopped at h
  split at h <;> simp at h <;> subst h <;> simp [holds, inQ, inAb, lqOk, pendN, needTok, isSlp]

theorem step_inv_popResume (s s' : St) (t z g : Nat) (d : Bool) (hi : Inv s) (h : step s (.popResume t z g d) = some s') : Inv s' := by
  have hx := fun p' => @setPopped_facts (s.pc g) p'
  cva_step
theorem step_inv_popAll (s s' : St) (t z g : Nat) (d : Bool) (hi : Inv s) (h : step s (.popAll t z g d) = some s') : Inv s' := by
  have hx := fun p' => @setPopped_facts (s.pc g) p'
  cva_step
theorem step_inv_abPop (s s' : St) (t z g : Nat) (hi : Inv s) (h : step s (.abPop t z g) = some s') : Inv s' := by
  have hx := fun p' => @setPopped_facts (s.pc g) p'
  cva_step

theorem step_inv (s s' : St) (e : Ev) (hi : Inv s) (h : step s e = some s') : Inv s' := by
  cases e with
  | inv t o => exact step_inv_inv s s' t o hi h
  | ret t r => exact step_inv_ret s s' t r hi h
  | slAcq t => exact step_inv_slAcq s s' t hi h
  | slRel t => exact step_inv_slRel s s' t hi h
  | cvEnq t z b => exact step_inv_cvEnq s s' t z b hi h
  | popResume t z g d => exact step_inv_popResume s s' t z g d hi h
  | cvNone t => exact step_inv_cvNone s s' t hi h
  | cvAll t z => exact step_inv_cvAll s s' t z hi h
  | popAll t z g d => exact step_inv_popAll s s' t z g d hi h
  | cvWoke t a b => exact step_inv_cvWoke s s' t a b hi h
  | suspend t => exact step_inv_suspend s s' t hi h
  | woke t b => exact step_inv_woke s s' t b hi h
  | sleep t => exact step_inv_sleep s s' t hi h
  | timeout t => exact step_inv_timeout s s' t hi h
  | threw t => exact step_inv_threw s s' t hi h
  | abSwap t z => exact step_inv_abSwap s s' t z hi h
  | abPop t z g => exact step_inv_abPop s s' t z g hi h
  | abort t g d => exact step_inv_abort s s' t g d hi h
  | abDone t z => exact step_inv_abDone s s' t z hi h
  | done t => exact step_inv_done s s' t hi h

theorem inv_of_accepted {n : Nat} {log : List Ev} {s : St}
    (h : runLog step (init n) log = some s) : Inv s :=
  inv_of_runLog Inv (fun s e s' => step_inv s s' e) (inv_init n) h

end PikaVerif.CVAbort
