import PikaVerif.Model.Config
/-! Helper lemmas for the configuration model: inversion of the `Except` pipelines, the
    assoc-list configuration tree, facts about the generated tables (re-checked by `decide`
    against the regenerated `Gen/Settings.lean` on every build). -/
namespace PikaVerif.Config
open PikaVerif.Gen.Settings

theorem bind_ok {ε α β : Type} (a : Except ε α) (f : α → Except ε β) (y : β) :
    (a >>= f) = .ok y ↔ ∃ x, a = .ok x ∧ f x = .ok y := by
  cases a <;> simp [bind, Except.bind]

theorem check_ok (c : Bool) (e : Err) (u : Unit) : check c e = .ok u ↔ c = false := by
  cases c <;> simp [check, fail, pure, Except.pure]

theorem checkU_ok (c : Bool) (w : String) (u : Unit) : checkU c w = .ok u ↔ c = false := by
  cases c <;> simp [checkU, unsup, pure, Except.pure]

theorem pure_ok {α : Type} (a b : α) : (pure a : M α) = .ok b ↔ a = b := by
  simp [pure, Except.pure]

/-! ## configuration tree -/

theorem find_setKey_same (cfg : List (String × String)) (k v : String) :
    (setKey cfg k v).find? (fun p => p.1 == k) = some (k, v) := by
  induction cfg with
  | nil => simp [setKey]
  | cons a t ih =>
    simp only [setKey]
    by_cases ha : a.1 == k
    · simp [ha]
    · simp [ha, ih]

theorem find_setKey_other (cfg : List (String × String)) (k k' v : String) (hne : k' ≠ k) :
    (setKey cfg k v).find? (fun p => p.1 == k') = cfg.find? (fun p => p.1 == k') := by
  have hkk : (k == k') = false := by simp; exact fun h => hne h.symm
  induction cfg with
  | nil => simp [setKey, hkk]
  | cons a t ih =>
    simp only [setKey]
    by_cases ha : a.1 == k
    · have hk : a.1 = k := by simpa using ha
      simp [hkk, hk]
    · simp only [ha, List.find?_cons]
      by_cases hb : a.1 == k' <;> simp [hb, ih]

theorem cfgLookup_setKey_same (cfg : List (String × String)) (k v : String) :
    cfgLookup (setKey cfg k v) k = v := by
  simp [cfgLookup, find_setKey_same]

theorem cfgLookup_setKey_other (cfg : List (String × String)) (k k' v : String) (hne : k' ≠ k) :
    cfgLookup (setKey cfg k v) k' = cfgLookup cfg k' := by
  simp [cfgLookup, find_setKey_other _ _ _ _ hne]

/-- keys `handle_arguments` writes back -/
def writtenKeys : List String :=
  ["pika.ignore_process_mask", "pika.process_mask", "pika.scheduler", "pika.affinity", "pika.bind",
   "pika.pu_step", "pika.pu_offset", "pika.numa_sensitive", "pika.os_threads", "pika.cores",
   "pika.thread_queue.high_priority_queues"]

/-- the hand-written list agrees with what the translator found in `handle_arguments` -/
theorem writtenKeys_generated : writtenKeys = written.map (·.1) := by decide

theorem writeBack_other (cfg : List (String × String)) (r : Resolved) (k : String)
    (hk : k ∉ writtenKeys) : cfgLookup (writeBack cfg r) k = cfgLookup cfg k := by
  simp only [writtenKeys, List.mem_cons, List.not_mem_nil, or_false, not_or] at hk
  obtain ⟨h1, h2, h3, h4, h5, h6, h7, h8, h9, h10, h11⟩ := hk
  unfold writeBack
  simp only []
  split <;> split <;> simp [cfgLookup_setKey_other, *]

theorem writeBack_threads (cfg : List (String × String)) (r : Resolved) :
    cfgLookup (writeBack cfg r) "pika.os_threads" = natStr r.threads := by
  unfold writeBack
  simp only []
  split <;> simp [cfgLookup_setKey_other, cfgLookup_setKey_same]

theorem writeBack_cores (cfg : List (String × String)) (r : Resolved) :
    cfgLookup (writeBack cfg r) "pika.cores" = natStr r.cores := by
  unfold writeBack
  simp only []
  split <;> simp [cfgLookup_setKey_other, cfgLookup_setKey_same]

theorem writeBack_scheduler (cfg : List (String × String)) (r : Resolved) :
    cfgLookup (writeBack cfg r) "pika.scheduler" = r.scheduler := by
  unfold writeBack
  simp only []
  split <;> split <;> simp [cfgLookup_setKey_other, cfgLookup_setKey_same]

theorem writeBack_affinity (cfg : List (String × String)) (r : Resolved) :
    cfgLookup (writeBack cfg r) "pika.affinity" = r.affinity := by
  unfold writeBack
  simp only []
  split <;> split <;> simp [cfgLookup_setKey_other, cfgLookup_setKey_same]

theorem writeBack_puStep (cfg : List (String × String)) (r : Resolved) :
    cfgLookup (writeBack cfg r) "pika.pu_step" = natStr r.puStep := by
  unfold writeBack
  simp only []
  split <;> simp [cfgLookup_setKey_other, cfgLookup_setKey_same]

theorem writeBack_bind (cfg : List (String × String)) (r : Resolved) (h : r.bind ≠ "") :
    cfgLookup (writeBack cfg r) "pika.bind" = r.bind := by
  have : r.bind.isEmpty = false := by
    cases hb : r.bind.isEmpty with
    | false => rfl
    | true => exact absurd (by simpa using hb) h
  unfold writeBack
  simp only [this]
  split <;> simp [cfgLookup_setKey_other, cfgLookup_setKey_same]

theorem applyInis_lookup (inis : List String) : ∀ (cfg cfg' : List (String × String)) (k : String),
    applyInis cfg inis = .ok cfg' → cfgLookup cfg' k = (lastIni inis k).getD (cfgLookup cfg k) := by
  induction inis with
  | nil => intro cfg cfg' k h; simp [applyInis, pure, Except.pure] at h; subst h; simp [lastIni]
  | cons s rest ih =>
    intro cfg cfg' k h
    unfold applyInis at h
    split at h
    · simp [fail] at h
    · rename_i k0 v hs
      simp only [] at h
      split at h
      · simp [unsup] at h
      · split at h
        · simp [unsup] at h
        · split at h
          · simp [fail] at h
          · have := ih _ _ k h
            rw [this]
            simp only [lastIni, hs]
            cases hl : lastIni rest k with
            | some w => simp
            | none =>
              simp only [Option.getD_none]
              by_cases hk : (stripBang k0).1 == k
              · have : (stripBang k0).1 = k := by simpa using hk
                simp [← this, cfgLookup_setKey_same]
              · have hne : k ≠ (stripBang k0).1 := by
                  intro he; apply hk; simp [he]
                simp [hk, cfgLookup_setKey_other _ _ _ _ hne]

theorem cfgLookup_baseCfg (env : String → Option String) (s : Setting) (hs : s ∈ settings) :
    cfgLookup (baseCfg env) s.key = rtGet env s.key := by
  unfold baseCfg cfgLookup
  have : ∀ (l : List Setting), s ∈ l →
      ((l.map (fun s => (s.key, rtGet env s.key))).find? (fun p => p.1 == s.key)).map (·.2) = some (rtGet env s.key) := by
    intro l
    induction l with
    | nil => intro h; simp at h
    | cons a t ih =>
      intro h
      simp only [List.map_cons, List.find?_cons]
      by_cases ha : a.key == s.key
      · have : a.key = s.key := by simpa using ha
        simp [this]
      · simp only [ha]
        have : s ∈ t := by
          cases h with
          | head => simp at ha
          | tail _ h => exact h
        exact ih this
  rw [this settings hs]; rfl


/-- no `--pika:ini` definition of a key in cfgmap means none in the ini tree either -/
theorem lastIni_none_of_cfgGet_none (inis : List String) (k : String)
    (h : cfgGet inis k = none) : lastIni inis k = none := by
  induction inis with
  | nil => rfl
  | cons s rest ih =>
    unfold cfgGet at h
    simp only [List.filterMap_cons] at h
    cases hs : splitIni s with
    | none =>
      simp only [hs] at h
      simp only [lastIni, hs]
      rw [ih (by unfold cfgGet; exact h)]
    | some kv =>
      obtain ⟨k0, v⟩ := kv
      simp only [hs, List.findSome?_cons] at h
      by_cases hk : (stripBang k0).1 == k
      · simp [hk] at h
      · simp only [hk] at h
        simp only [lastIni, hs, hk]
        rw [ih (by unfold cfgGet; exact h)]
        simp

/-- in both passes of `handle_arguments` the rtcfg_ entry of a key without `--pika:ini`
    definition is the environment / default value -/
theorem rt_second (vm : Vm) (k : String) (h : cfgGet (vm.multi "pika:ini") k = none) :
    vm.second.rt k = rtGet vm.env k := by
  simp [Vm.second, rtFinal, lastIni_none_of_cfgGet_none _ _ h]

theorem second_opt (vm : Vm) : vm.second.opt = vm.opt := rfl
theorem second_multi (vm : Vm) : vm.second.multi = vm.multi := rfl
theorem second_env (vm : Vm) : vm.second.env = vm.env := rfl
theorem mkVm_rt (occ env : List (String × String)) (k : String) :
    (mkVm occ env).rt k = rtGet (mkVm occ env).env k := rfl

/-! ## inversion of the stages -/

theorem handleArguments_ok {m : Machine} {vm : Vm} {r : Resolved} (h : handleArguments m vm = .ok r) :
    r.scheduler = handleStr vm "pika:scheduler" "pika.scheduler" ∧
    r.affinity = handleStr vm "pika:affinity" "pika.affinity" ∧
    handleThreads m vm r.useMask = .ok r.threads ∧
    handleCores m vm r.useMask r.threads = .ok r.cores ∧
    (∃ ps, handleNat vm "pika:pu-step" "pika.pu_step" (some 1) = .ok ps ∧ r.puStep = ps.getD 1) ∧
    handleNat vm "pika:pu-offset" "pika.pu_offset" none = .ok r.puOffset ∧
    affinityDomainOk r.affinity = true ∧
    r.hp = none := by
  unfold handleArguments at h
  simp only [bind_ok, check_ok, checkU_ok, pure_ok] at h
  obtain ⟨_, _, _, _, _, _, _, ha, ps, hps, _, _, po, hpo, _, _, nu, _, _, _, t, ht, c, hc, hr⟩ := h
  subst hr
  exact ⟨rfl, rfl, ht, hc, ⟨ps, hps, rfl⟩, hpo, by simpa using ha, rfl⟩

theorem handleHp_ok {vm : Vm} {r0 r : Resolved} (h : handleHp vm r0 = .ok r) :
    r.threads = r0.threads ∧ r.scheduler = r0.scheduler ∧ r.affinity = r0.affinity ∧ r.cores = r0.cores ∧
    r.useMask = r0.useMask ∧ r.bind = r0.bind ∧ r.puStep = r0.puStep ∧ r.puOffset = r0.puOffset := by
  unfold handleHp at h
  split at h
  · simp only [bind_ok, check_ok, pure_ok] at h
    obtain ⟨_, _, _, _, _, _, hr⟩ := h
    subst hr
    simp
  · simp only [pure_ok] at h
    subst h
    simp

theorem configure_ok {m : Machine} {vm : Vm} {r : Resolved} {cfg : List (String × String)}
    (h : configure m vm = .ok (r, cfg)) :
    ∃ r1 r0 cfg0, handleArguments m vm = .ok r1 ∧
      applyInis (baseCfg vm.env) (vm.multi "pika:ini") = .ok cfg0 ∧
      handleArguments m vm.second = .ok r0 ∧
      handleHp vm r0 = .ok r ∧ cfg = writeBack cfg0 r := by
  unfold configure at h
  simp only [bind_ok, pure_ok] at h
  obtain ⟨r1, h0, cfg0, h1, r0, h0', r2, h2, h3⟩ := h
  simp only [Prod.mk.injEq] at h3
  obtain ⟨h3, h4⟩ := h3
  subst h3
  exact ⟨r1, r0, cfg0, h0, h1, h0', h2, h4.symm⟩

theorem startStage_ok {m : Machine} {pre argv : List String} {p : Parsed} {r : Resolved}
    {cfg : List (String × String)} {rep : Report} (h : startStage m pre argv p r cfg = .ok rep) :
    rep.cfg = cfg ∧
    rep.workers = workersOf m (cfgLookup cfg "pika.bind") r.threads ∧
    schedulerPolicy (cfgLookup cfg "pika.scheduler") = some rep.policy ∧
    rep.argv = entryArgv (cfgLookup cfg "pika.commandline.allow_unknown" != "0") p ∧
    (!p.unreg.isEmpty && !(cfgLookup cfg "pika.commandline.allow_unknown" != "0")) = false ∧
    (cfgLookup cfg "pika.bind" != "none" &&
      decide (r.threads > (if r.useMask then m.maskPus else m.pus))) = false := by
  unfold startStage at h
  simp only [bind_ok, check_ok, checkU_ok, pure_ok] at h
  obtain ⟨_, _, _, hthr, _, _, _, _, pol, hpol, _, _, _, _, _, _, _, hunk, hr⟩ := h
  subst hr
  refine ⟨rfl, rfl, ?_, rfl, hunk, hthr⟩
  split at hpol
  · rename_i p' hp'
    simp only [pure_ok] at hpol
    subst hpol
    exact hp'
  · simp [fail] at hpol

theorem resolveM_ok {m : Machine} {inp : Input} {rep : Report} (h : resolveM m inp = .ok rep) :
    ∃ pre p r cfg, parseStage inp = .ok (pre, p) ∧
      configure m (mkVm p.occ inp.env) = .ok (r, cfg) ∧
      startStage m pre inp.argv p r cfg = .ok rep := by
  unfold resolveM at h
  simp only [bind_ok] at h
  obtain ⟨⟨pre, p⟩, h1, ⟨r, cfg⟩, h2, h3⟩ := h
  exact ⟨pre, p, r, cfg, h1, h2, h3⟩

/-! ## generated tables -/

/-- Sanity of the generated tables, re-established by `decide` whenever the tables change:
    every row of the settings table has its default-ini line (same environment variable and
    default), every `handle_*` function's option is a declared option, its key is a settings
    row carrying that option, and the key is written back to the configuration. -/
def tableOk : Bool :=
  settings.all (fun s => match findRow s.key with
    | some r => r.env == s.env && r.dflt == s.dflt
    | none => false) &&
  handlers.all (fun h => cliOpts.any (fun o => o.name == h.opt) && written.any (fun w => w.1 == h.key) &&
    settings.any (fun s => s.key == h.key && s.opt == some h.opt))

set_option maxRecDepth 100000 in
theorem table_ok : tableOk = true := by decide

theorem rtGet_setting (env : String → Option String) (s : Setting) (hs : s ∈ settings) :
    rtGet env s.key = match s.env with
      | some e => (env e).getD s.dflt
      | none => s.dflt := by
  have h := table_ok
  simp only [tableOk, Bool.and_eq_true, List.all_eq_true] at h
  have h1 := h.1 s hs
  unfold rtGet
  split at h1
  · rename_i r hr
    simp only [Bool.and_eq_true, beq_iff_eq] at h1
    simp only [hr, h1.1, h1.2]
    cases s.env <;> rfl
  · simp at h1

/-! ## tokenizer, store, numbers -/

theorem natOr_of_natThrow {s : String} {n d : Nat} (h : natThrow s = .ok n) : natOr s d = .ok n := by
  unfold natThrow at h
  unfold natOr
  cases hp : parseNat s with
  | ok k => simp [hp, pure, Except.pure] at h ⊢; exact h
  | bad => simp [hp, fail] at h
  | odd => simp [hp, unsup] at h

theorem keyword_natOr {m : Machine} {um : Bool} {s : String} {n : Nat}
    (h : keywordThreads m um s = .ok n) : natOr s n = .ok n := by
  by_cases h1 : s = "cores"
  · subst h1; rfl
  · by_cases h2 : s = "all"
    · subst h2; rfl
    · simp only [keywordThreads, beq_iff_eq, h1, h2, if_false] at h
      exact natOr_of_natThrow h

theorem perm_short_eq {α : Type} {l l' : List α} (hp : l.Perm l') (hl : l.length ≤ 1) : l = l' := by
  have hlen := hp.length_eq
  match l, l' with
  | [], [] => rfl
  | [a], [b] => simpa using hp
  | [], _ :: _ => simp at hlen
  | _ :: _, [] => simp at hlen
  | [_], _ :: _ :: _ => simp at hlen
  | _ :: _ :: _, _ => simp at hl

/-- `store` accepts a command line only if every single-valued option occurs at most once -/
theorem storeCheck_unique (occ : List (String × String)) : ∀ (seen : List String),
    storeCheck seen occ = .ok () → ∀ n, composing n = false →
      (occ.filter (fun p => p.1 == n)).length ≤ 1 ∧
      (n ∈ seen → (occ.filter (fun p => p.1 == n)).length = 0) := by
  induction occ with
  | nil => intro seen _ n _; simp
  | cons a rest ih =>
    intro seen h n hn
    obtain ⟨n', v'⟩ := a
    unfold storeCheck at h
    split at h
    · simp [fail] at h
    · rename_i hdup
      simp only [bind_ok] at h
      obtain ⟨_, _, hrest⟩ := h
      have ih' := ih (n' :: seen) hrest n hn
      simp only [List.filter_cons]
      by_cases he : n' == n
      · have hnn : n' = n := by simpa using he
        subst hnn
        simp only [he, if_true, List.length_cons]
        have h0 := ih'.2 (by simp)
        refine ⟨by omega, ?_⟩
        intro hs
        simp [hn, hs] at hdup
      · simp only [he]
        refine ⟨ih'.1, fun hs => ih'.2 (by simp [hs])⟩
/-- an argument that does not start with `-` or `@` -/
def isPositional (tok : String) : Bool :=
  match tok.toList with
  | c :: _ => c != '-' && c != '@'
  | [] => false

def isAdjacentForm (tok : String) : Bool :=
  match tok.toList with
  | '-' :: '-' :: body => (splitEq body).2.isSome
  | _ => false

theorem tokStep_positional (table : List OptRow) (acc : Parsed) (tok : String) (rest : List String)
    (h : isPositional tok = true) :
    tokStep table acc tok rest =
      .ok ({ acc with pos := acc.pos ++ [tok], mixed := acc.mixed ++ [tok] }, rest) := by
  unfold isPositional at h
  unfold tokStep
  split at h
  · rename_i c cs hc
    simp only [Bool.and_eq_true, bne_iff_ne, ne_eq] at h
    simp only [hc]
    split
    · rename_i heq; simp at heq; exact absurd heq.1 h.1
    · rename_i heq; simp at heq; exact absurd heq.1 h.1
    · rename_i heq; simp at heq; exact absurd heq.1 h.2
    · rename_i heq; simp at heq
    · rfl
  · simp at h

/-- an option given as `--name=value` never touches the following arguments nor the positional list -/
theorem tokStep_adjacent (table : List OptRow) (acc acc' : Parsed) (tok : String) (rest rest' : List String)
    (hf : isAdjacentForm tok = true) (h : tokStep table acc tok rest = .ok (acc', rest')) :
    rest' = rest ∧ acc'.pos = acc.pos := by
  unfold isAdjacentForm at hf
  split at hf
  · rename_i body hb
    unfold tokStep at h
    simp only [hb] at h
    cases hs : splitEq body with
    | mk n adj =>
      simp only [hs, Option.isSome_iff_exists] at hf
      obtain ⟨v, hv⟩ := hf
      subst hv
      simp only [hs] at h
      repeat' split at h
      all_goals first
        | (simp [unsup] at h; done)
        | (simp [fail] at h; done)
        | (simp only [pure_ok, Prod.mk.injEq] at h; obtain ⟨h1, h2⟩ := h; subst h1; exact ⟨h2.symm, rfl⟩)
  · simp at hf

/-- a command line consisting of positional arguments only reaches `pos` unchanged and in order -/
theorem tokenize_positionals (table : List OptRow) (args : List String) :
    ∀ (acc : Parsed) (fuel : Nat), args.length < fuel → (∀ a ∈ args, isPositional a = true) →
    tokenize table fuel acc args =
      .ok { acc with pos := acc.pos ++ args, mixed := acc.mixed ++ args } := by
  induction args with
  | nil => intro acc fuel _ _; cases fuel <;> simp [tokenize, pure, Except.pure]
  | cons a t ih =>
    intro acc fuel hf hall
    cases fuel with
    | zero => simp at hf
    | succ f =>
      simp only [tokenize, tokStep_positional table acc a t (hall a (by simp)), bind, Except.bind]
      rw [ih _ f (by simpa using hf) (fun x hx => hall x (by simp [hx]))]
      simp [List.append_assoc]


/-! ## quoting (C16f) -/

theorem splitU_escaped (q : Bool) (cur rest : List Char) (c : Char)
    (hc : (isEscC c || isQuoteC c) = true) : splitU q cur ('\\' :: c :: rest) = splitU q (c :: cur) rest := by
  have hn : (c == 'n') = false := by
    simp only [isEscC, isQuoteC, Bool.or_eq_true, beq_iff_eq] at hc
    rcases hc with hc | hc | hc <;> subst hc <;> decide
  have h3 : (isEscC c || isQuoteC c || isSepC c) = true := by simp [hc]
  rw [splitU.eq_def]
  simp [isEscC, hn] 
  simp [isEscC] at h3 hc
  intro h1 h2 h4
  simp [isEscC, h1, h2, h4] at h3

theorem splitU_plain (q : Bool) (cur rest : List Char) (c : Char)
    (he : isEscC c = false) (hq : isQuoteC c = false) (hs : isSepC c = false) :
    splitU q cur (c :: rest) = splitU q (c :: cur) rest := by
  rw [splitU.eq_def]; simp [he, hq, hs]

theorem splitU_sep_in (cur rest : List Char) (c : Char) (he : isEscC c = false) (hs : isSepC c = true) :
    splitU true cur (c :: rest) = splitU true (c :: cur) rest := by
  rw [splitU.eq_def]; simp [he, hs]

theorem splitU_escQ (s : List Char) : ∀ (q : Bool) (cur rest : List Char),
    (q = true ∨ s.any isSepC = false) →
    splitU q cur (escQ s ++ rest) = splitU q (s.reverse ++ cur) rest := by
  induction s with
  | nil => intro q cur rest _; simp [escQ]
  | cons c r ih =>
    intro q cur rest h
    have h' : q = true ∨ r.any isSepC = false := by
      rcases h with h | h
      · exact Or.inl h
      · right; simp only [List.any_cons, Bool.or_eq_false_iff] at h; exact h.2
    by_cases hc : (isEscC c || isQuoteC c) = true
    · simp only [escQ, hc, if_true, List.cons_append]
      rw [splitU_escaped q cur _ c hc, ih q (c :: cur) rest h']
      simp
    · have hc' : (isEscC c || isQuoteC c) = false := by simpa using hc
      simp only [escQ, hc', Bool.false_eq_true, if_false, List.cons_append]
      have he : isEscC c = false := by simp only [Bool.or_eq_false_iff] at hc'; exact hc'.1
      have hq : isQuoteC c = false := by simp only [Bool.or_eq_false_iff] at hc'; exact hc'.2
      by_cases hs : isSepC c = true
      · rcases h with h | h
        · subst h
          rw [splitU_sep_in cur _ c he hs, ih true (c :: cur) rest h']; simp
        · simp [List.any_cons, hs] at h
      · have hs' : isSepC c = false := by simpa using hs
        rw [splitU_plain q cur _ c he hq hs', ih q (c :: cur) rest h']; simp


theorem any_escQ_sep (s : List Char) : (escQ s).any isSepC = s.any isSepC := by
  induction s with
  | nil => rfl
  | cons c r ih =>
    by_cases hc : (isEscC c || isQuoteC c) = true
    · have : isSepC c = false := by
        simp only [isEscC, isQuoteC, Bool.or_eq_true, beq_iff_eq] at hc
        rcases hc with hc | hc | hc <;> subst hc <;> decide
      simp [escQ, hc, ih, this, isSepC]
    · have hc' : (isEscC c || isQuoteC c) = false := by simpa using hc
      simp [escQ, hc', ih]

theorem splitU_quote (q : Bool) (cur rest : List Char) :
    splitU q cur ('"' :: rest) = splitU (!q) cur rest := by
  rw [splitU.eq_def]; simp [isEscC, isSepC, isQuoteC]

/-- an escaped value, wrapped in quotes whenever it contains a separator, is read back unchanged -/
theorem splitU_wrapIf (w : Bool) (s cur rest : List Char) (h : w = true ∨ s.any isSepC = false) :
    splitU false cur (wrapIf w (escQ s) ++ rest) = splitU false (s.reverse ++ cur) rest := by
  cases w with
  | false =>
    have h' : s.any isSepC = false := by rcases h with h | h; exact absurd h (by decide); exact h
    simp only [wrapIf, Bool.false_eq_true, if_false]
    exact splitU_escQ s false cur rest (Or.inr h')
  | true =>
    simp only [wrapIf, if_true, List.cons_append, List.append_assoc, List.nil_append]
    rw [splitU_quote, Bool.not_false, splitU_escQ s true cur _ (Or.inl rfl), splitU_quote]
    rfl

theorem splitU_plainPrefix (pre : List Char) (hp : ∀ c ∈ pre, isEscC c = false ∧ isQuoteC c = false ∧ isSepC c = false) :
    ∀ (q : Bool) (cur rest : List Char), splitU q cur (pre ++ rest) = splitU q (pre.reverse ++ cur) rest := by
  induction pre with
  | nil => intro q cur rest; rfl
  | cons c r ih =>
    intro q cur rest
    obtain ⟨he, hq, hs⟩ := hp c (by simp)
    rw [List.cons_append, splitU_plain q cur _ c he hq hs, ih (fun d hd => hp d (by simp [hd]))]
    simp

theorem splitU_nil (cur : List Char) : splitU false cur [] = some [cur.reverse] := by
  rw [splitU.eq_def]

theorem splitU_blank (cur rest : List Char) :
    splitU false cur (' ' :: rest) = (splitU false [] rest).map (cur.reverse :: ·) := by
  rw [splitU.eq_def]; simp [isEscC, isSepC]

/-- **round trip**: tokens `pre ++ f a`, joined by blanks, are split back into `pre ++ a`, for every
    encoding `f` of the shape "escape, wrap in quotes if it contains a separator" -/
theorem splitU_joinWith (pre : List Char) (hp : ∀ c ∈ pre, isEscC c = false ∧ isQuoteC c = false ∧ isSepC c = false)
    (w : List Char → Bool) (hw : ∀ a, w a = true ∨ a.any isSepC = false) (args : List (List Char))
    (hne : args ≠ []) :
    splitU false [] (joinWith pre (fun a => wrapIf (w a) (escQ a)) args) = some (args.map (pre ++ ·)) := by
  induction args with
  | nil => exact absurd rfl hne
  | cons a t ih =>
    cases t with
    | nil =>
      simp only [joinWith]
      have := splitU_wrapIf (w a) a (pre.reverse ++ []) [] (hw a)
      rw [splitU_plainPrefix pre hp, ← List.append_nil (wrapIf (w a) (escQ a)), this, splitU_nil]
      simp
    | cons b r =>
      simp only [joinWith, List.append_assoc]
      rw [splitU_plainPrefix pre hp, splitU_wrapIf (w a) a _ _ (hw a), splitU_blank, ih (by simp)]
      simp


theorem posPrefix_plain : ∀ c ∈ posPrefix, isEscC c = false ∧ isQuoteC c = false ∧ isSepC c = false := by
  decide

theorem helperArgs_cons_pos (a : List Char) (t : List (List Char)) :
    helperArgs ((posPrefix ++ a) :: t) = a :: helperArgs t := by
  simp [helperArgs, posPrefix, dropThroughEq]

theorem helperArgs_positional (pos : List (List Char)) :
    helperArgs (pos.map (posPrefix ++ ·)) = pos := by
  induction pos with
  | nil => rfl
  | cons a t ih => rw [List.map_cons, helperArgs_cons_pos, ih]

theorem filter_nonempty_prefixed (pos : List (List Char)) :
    (pos.map (posPrefix ++ ·)).filter (fun t => !t.isEmpty) = pos.map (posPrefix ++ ·) := by
  induction pos with
  | nil => rfl
  | cons a t ih => simp [posPrefix]

theorem any_or_left {α : Type} (l : List α) (f g : α → Bool) (h : l.any f = true) :
    l.any (fun c => f c || g c) = true := by
  induction l with
  | nil => simp at h
  | cons a t ih =>
    simp only [List.any_cons, Bool.or_eq_true] at h ⊢
    rcases h with h | h
    · exact Or.inl (Or.inl h)
    · exact Or.inr (ih h)

end PikaVerif.Config
