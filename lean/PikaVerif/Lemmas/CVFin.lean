import PikaVerif.Lemmas.CVProg
/-! `fin` is only created by `done`, which needs an empty program (C07t). -/
namespace PikaVerif.CV
open PikaVerif

theorem setPopped_not_fin {q q' : Pc} (h : setPopped q = some q') : q' ≠ .fin := by
  unfold setPopped at h
  split at h <;> simp at h <;> subst h <;> simp

set_option maxHeartbeats 1600000 in
/-- only `done` creates a `fin` -/
theorem step_fin (s s' : St) (e : Ev) (hs : step s e = some s') (hd : ∀ t, e ≠ .done t) :
    ∀ u, s'.pc u = .fin → s.pc u = .fin := by
  intro u
  cases e
  case done t => exact absurd rfl (hd t)
  case popResume t z g d =>
    simp only [step, popCore] at hs
    (repeat' split at hs) <;> first | (simp at hs; done) | skip
    all_goals (
      simp only [Option.some.injEq] at hs; subst hs; simp only [upd]; intro hu
      (repeat' split at hu)
      · simp at hu
      · exact absurd hu (setPopped_not_fin (by assumption))
      · exact hu)
  case popAll t z g d =>
    simp only [step, popCore] at hs
    (repeat' split at hs) <;> first | (simp at hs; done) | skip
    all_goals (
      simp only [Option.some.injEq] at hs; subst hs; simp only [upd]; intro hu
      (repeat' split at hu)
      · simp at hu
      · exact absurd hu (setPopped_not_fin (by assumption))
      · exact hu)
  all_goals
    simp only [step] at hs <;> (repeat' split at hs) <;>
      first
      | (simp at hs; done)
      | (simp only [Option.some.injEq] at hs; subst hs; simp only [upd]; intro hu
         (repeat' split at hu) <;>
           first
           | exact hu
           | (simp [exitPc] at hu; done)
           | (simp [exitPc] at hu; split at hu <;> simp at hu; done)
           | grind [exitPc])

theorem finOk_step (p p' : PSt) (e : Ev) (hf : FinOk p) (h : pstep p e = some p') : FinOk p' := by
  have hs := pstep_step p p' e h
  by_cases hinv : ∃ t o, e = .inv t o
  · obtain ⟨t, o, he⟩ := hinv
    subst he
    obtain ⟨rest, hp, hp', htn⟩ := pstep_inv p p' t o h
    intro u hu
    by_cases hut : u = t
    · subst hut
      exfalso
      simp only [step] at hs
      split at hs
      · (repeat' split at hs) <;> first | (simp at hs; done) | skip
        all_goals (simp only [Option.some.injEq] at hs; rw [← hs] at hu; simp [upd] at hu)
        all_goals (try (split at hu <;> simp at hu))
      · simp at hs
    · rw [hp']; simp only [upd, hut, if_false]
      apply hf u
      have : p'.s.pc u = p.s.pc u := by
        simp only [step] at hs
        split at hs
        · (repeat' split at hs) <;> first | (simp at hs; done) | skip
          all_goals (simp only [Option.some.injEq] at hs; rw [← hs]; simp [upd, hut])
        · simp at hs
      rw [← this]; exact hu
  · have hne : ∀ t o, e ≠ .inv t o := fun t o he => hinv ⟨t, o, he⟩
    have hp := pstep_prog p p' e hne h
    intro u hu
    rw [hp]
    by_cases hd : ∃ t, e = .done t
    · obtain ⟨t, he⟩ := hd
      subst he
      simp only [pstep] at h
      split at h
      · rename_i hnil
        simp only [step] at hs
        split at hs
        · simp only [Option.some.injEq] at hs
          rw [← hs] at hu
          simp only [upd] at hu
          split at hu
          · rename_i hut; rw [hut]; exact hnil
          · exact hf u hu
        · simp at hs
      · simp at h
    · exact hf u (step_fin _ _ _ hs (fun t he => hd ⟨t, he⟩) u hu)

theorem runLog_finOk (log : List Ev) : ∀ (p p' : PSt), FinOk p → runLog pstep p log = some p' → FinOk p' := by
  induction log with
  | nil => intro p p' hf h; simp at h; subst h; exact hf
  | cons e es ih =>
    intro p p' hf h
    simp only [runLog] at h
    cases hs : pstep p e with
    | none => simp [hs] at h
    | some p1 => simp only [hs] at h; exact ih p1 p' (finOk_step p p1 e hf hs) h

set_option maxHeartbeats 1600000 in
/-- a state in which every thread is finished or parked in an untimed wait without a wake-up token
    accepts no event: it ends a maximal run -/
theorem pstuck_of_rest (p : PSt)
    (h : ∀ t, t < p.s.n → p.s.pc t = .fin ∨ (p.s.pc t = .susp false ∧ p.s.tok t = 0)) : PStuck p := by
  intro e
  cases e <;> simp only [pstep, step] <;> (repeat' split) <;>
    first
    | rfl
    | (simp_all; done)
    | grind

end PikaVerif.CV
