import PikaVerif.Model.Latch
/-! Inductive invariant of the latch model. -/
namespace PikaVerif.Latch
open PikaVerif

/-- Program counters at which the thread holds the internal spinlock. -/
def holds : Pc → Bool
  | .cdLocked | .wLocked | .awLocked _ | .awZero | .mustEnq | .enq | .relk _ | .passing
  | .ntfL | .ntfRes _ => true
  | _ => false

/-- Program counters at which the thread's entry is linked in the cv queue. -/
def inQ : Pc → Bool
  | .enq => true
  | .unl p | .susp p => !p
  | _ => false

def b2n (b : Bool) : Nat := if b then 1 else 0

/-- Resume tokens a thread holds. -/
def tokOf : Pc → Nat
  | .unl p | .susp p => b2n p
  | _ => 0

/-- Notifications still owed: 1 for a thread that has brought the counter to zero and has
    not finished its notify loop. -/
def weight : Pc → Nat
  | .cdWant | .cdLocked | .awZero | .ntfL | .ntfNL => 1
  | .ntfRes more => b2n more
  | _ => 0

def wsum (s : St) : Nat := sumTo s.n (fun t => weight (s.pc t))

def isWaitOp : Op → Bool
  | .wait | .aw _ => true
  | _ => false

def isCd : Op → Bool
  | .cd _ => true
  | _ => false

def isTry : Op → Bool
  | .tryWait => true
  | _ => false

/-- Which operation a program counter belongs to. -/
def pcOpOk : Pc → Op → Bool
  | .want o, c => decide (o = c)
  | .cdWant, c | .cdLocked, c => isCd c
  | .wLocked, c => decide (c = .wait)
  | .awLocked k, c => decide (c = .aw k)
  | .awZero, c => isWaitOp c
  | .mustEnq, c | .enq, c | .unl _, c | .susp _, c | .wokeNL _, c | .relk _, c | .passing, c => isWaitOp c
  | .ntfL, c | .ntfRes _, c | .ntfNL, c | .retn _, c => !isTry c
  | _, _ => true

/-- Program counters that are only reached after `notified_` was set. -/
def needsNotified : Pc → Op → Bool
  | .unl p, _ | .susp p, _ | .wokeNL p, _ | .relk p, _ => p
  | .passing, _ | .ntfL, _ | .ntfRes _, _ | .ntfNL, _ => true
  | .retn _, c => isWaitOp c
  | _, _ => false

/-- Program counters that are only reached after the counter was seen at or below zero. -/
def zeroPc : Pc → Bool
  | .cdWant | .cdLocked | .awZero => true
  | _ => false

structure Inv (s : St) : Prop where
  lockHolder : ∀ t, holds (s.pc t) = true → s.lock = some t
  outside : ∀ t, s.n ≤ t → s.pc t = .idle
  qIff : ∀ t, t ∈ s.queue ↔ inQ (s.pc t) = true
  qNodup : s.queue.Nodup
  tokInv : ∀ t, s.tok t = tokOf (s.pc t)
  opOk : ∀ t, pcOpOk (s.pc t) (s.curOp t) = true
  ntf : ∀ t, needsNotified (s.pc t) (s.curOp t) = true → s.notified = true
  zero : ∀ t, zeroPc (s.pc t) = true → s.counter ≤ 0
  notifiedZero : s.notified = true → s.counter ≤ 0
  account : s.counter = s.init - (s.decSum : Int)
  pending : s.counter = 0 → (s.notified = false ∨ s.queue ≠ []) → 0 < wsum s
  wokePopped : ∀ t, s.pc t ≠ .wokeNL false ∧ s.pc t ≠ .relk false
  mustEnqOk : ∀ t, s.pc t = .mustEnq → s.counter = 0 → 0 < wsum s

theorem inv_init (n : Nat) (c : Int) : Inv (init n c) := by
  refine ⟨?_, ?_, ?_, ?_, ?_, ?_, ?_, ?_, ?_, ?_, ?_, ?_, ?_⟩ <;>
    simp [init, holds, inQ, tokOf, pcOpOk, needsNotified, zeroPc]
  · intro h; omega
  · intro h1 h2; omega

attribute [local grind] holds inQ weight setPopped b2n tokOf pcOpOk needsNotified zeroPc isWaitOp isCd isTry

set_option hygiene false in
macro "latch_step" t:term : tactic => `(tactic| (
  simp only [step] at h
  obtain ⟨h1,h2,h3,h4,h5,h6,h7,h8,h9,h10,h11,h12,h13⟩ := hi
  split at h
  case isFalse => simp at h
  rename_i hg
  have htn : $t < s.n := by grind
  have hle := le_sumTo (f := fun u => weight (s.pc u)) htn
  simp only [wsum] at h11 h13
  repeat' split at h
  all_goals first | (simp at h; done) | skip
  all_goals (
    simp only [Option.some.injEq] at h
    subst h
    refine ⟨?_, ?_, ?_, ?_, ?_, ?_, ?_, ?_, ?_, ?_, ?_, ?_, ?_⟩ <;> dsimp only [wsum]
  )
  all_goals first
    | assumption
    | (intro u; grind [upd])
    | (rw [sumTo_upd_eq _ _ _ _ _ htn]; grind)
    | grind [upd]))

theorem step_inv_inv (s s' : St) (t : Nat) (o : Op) (hi : Inv s) (h : step s (.inv t o) = some s') : Inv s' := by latch_step t
theorem step_inv_ret (s s' : St) (t : Nat) (r : Bool) (hi : Inv s) (h : step s (.ret t r) = some s') : Inv s' := by latch_step t
theorem step_inv_slAcq (s s' : St) (t : Nat) (hi : Inv s) (h : step s (.slAcq t) = some s') : Inv s' := by latch_step t
theorem step_inv_slRel (s s' : St) (t : Nat) (hi : Inv s) (h : step s (.slRel t) = some s') : Inv s' := by latch_step t
theorem step_inv_dec (s s' : St) (t : Nat) (v : Int) (u : Nat) (hi : Inv s) (h : step s (.dec t v u) = some s') : Inv s' := by latch_step t
theorem step_inv_notified (s s' : St) (t : Nat) (a : Bool) (hi : Inv s) (h : step s (.notified t a) = some s') : Inv s' := by latch_step t
theorem step_inv_mustwait (s s' : St) (t : Nat) (c : Int) (b : Bool) (hi : Inv s) (h : step s (.mustwait t c b) = some s') : Inv s' := by latch_step t
theorem step_inv_nowait (s s' : St) (t : Nat) (c : Int) (b : Bool) (hi : Inv s) (h : step s (.nowait t c b) = some s') : Inv s' := by latch_step t
theorem step_inv_cvEnq (s s' : St) (t z : Nat) (hi : Inv s) (h : step s (.cvEnq t z) = some s') : Inv s' := by latch_step t
theorem step_inv_cvNone (s s' : St) (t : Nat) (hi : Inv s) (h : step s (.cvNone t) = some s') : Inv s' := by latch_step t
theorem step_inv_cvWoke (s s' : St) (t : Nat) (a : Bool) (hi : Inv s) (h : step s (.cvWoke t a) = some s') : Inv s' := by latch_step t
theorem step_inv_suspend (s s' : St) (t : Nat) (hi : Inv s) (h : step s (.suspend t) = some s') : Inv s' := by latch_step t
theorem step_inv_woke (s s' : St) (t : Nat) (hi : Inv s) (h : step s (.woke t) = some s') : Inv s' := by latch_step t
theorem step_inv_done (s s' : St) (t : Nat) (hi : Inv s) (h : step s (.done t) = some s') : Inv s' := by latch_step t

theorem setPopped_facts {p p' : Pc} (h : setPopped p = some p') :
    holds p' = false ∧ holds p = false ∧ inQ p = true ∧ inQ p' = false ∧ weight p = 0 ∧ weight p' = 0 ∧
    tokOf p = 0 ∧ tokOf p' = 1 ∧ (∀ c, pcOpOk p' c = pcOpOk p c) ∧ (∀ c, needsNotified p' c = true) ∧
    zeroPc p' = false ∧ p' ≠ .wokeNL false ∧ p' ≠ .relk false ∧ p' ≠ .mustEnq := by
  unfold setPopped at h
  split at h <;> simp at h <;> subst h <;> simp [holds, inQ, weight, tokOf, pcOpOk, needsNotified, zeroPc, b2n]

theorem step_inv_popResume (s s' : St) (t z g : Nat) (hi : Inv s)
    (h : step s (.popResume t z g) = some s') : Inv s' := by
  simp only [step] at h
  obtain ⟨h1,h2,h3,h4,h5,h6,h7,h8,h9,h10,h11,h12,h13⟩ := hi
  split at h
  case isFalse => simp at h
  rename_i hg
  have htn : t < s.n := hg.1
  simp only [wsum] at h11 h13
  split at h
  case h_2 => simp at h
  rename_i g' rest hpc hq
  split at h
  case isFalse => simp at h
  rename_i hsz
  obtain ⟨hsz, hgg⟩ := hsz
  subst hgg
  split at h
  case h_2 => simp at h
  rename_i p' hp'
  obtain ⟨f1, f2, f3, f4, f5, f6, f7, f8, f9, f10, f11, f12, f13, f14⟩ := setPopped_facts hp'
  have hgn : g' < s.n := by
    by_cases hc : s.n ≤ g'
    · have := h2 g' hc; rw [this] at f3; simp [inQ] at f3
    · omega
  have hgt : g' ≠ t := by
    intro he; rw [he, hpc] at f2; simp [holds] at f2
  have hnd : g' ∉ rest ∧ rest.Nodup := by rw [hq] at h4; simpa using h4
  have hw1 := sumTo_upd s.n weight s.pc g' p' hgn
  have hw2 := sumTo_upd s.n weight (upd s.pc g' p') t (.ntfRes (decide (rest ≠ []))) htn
  simp only [upd_other _ _ _ _ (Ne.symm hgt)] at hw2
  rw [hpc] at hw2
  have hnt : s.notified = true := h7 t (by rw [hpc]; rfl)
  simp only [Option.some.injEq] at h
  subst h
  refine ⟨?_, ?_, ?_, ?_, ?_, ?_, ?_, ?_, ?_, ?_, ?_, ?_, ?_⟩ <;> dsimp only [wsum]
  · intro u; grind [upd]
  · intro u; grind [upd]
  · intro u
    have := h3 u
    rw [hq] at this
    by_cases hut : u = t
    · subst hut; simp [upd, inQ, hpc] at this ⊢; grind
    · by_cases hug : u = g'
      · subst hug; simp [upd, hut, f4, hnd.1]
      · simp [upd, hut, hug] at this ⊢; simpa [hug] using this
  · exact hnd.2
  · intro u; have := h5 u; grind [upd]
  · intro u; have := h6 u; grind [upd]
  · intro u hu; exact hnt
  · intro u hu; have := h8 u; grind [upd]
  · exact h9
  · exact h10
  · intro hc hr
    rcases hr with hr | hr
    · rw [hnt] at hr; simp at hr
    · have e2 : weight (Pc.ntfRes (decide (rest ≠ []))) = 1 := by simp [weight, b2n, hr]
      have e1 : weight Pc.ntfL = 1 := rfl
      have := h11 hc (Or.inr (by rw [hq]; simp))
      omega
  · intro u; have := h12 u; grind [upd]
  · intro u hu hc
    have hum : s.pc u = .mustEnq := by grind [upd]
    have := h1 u (by rw [hum]; rfl)
    have := hg.2
    grind

theorem step_inv (s s' : St) (e : Ev) (hi : Inv s) (h : step s e = some s') : Inv s' := by
  cases e with
  | inv t o => exact step_inv_inv s s' t o hi h
  | ret t r => exact step_inv_ret s s' t r hi h
  | slAcq t => exact step_inv_slAcq s s' t hi h
  | slRel t => exact step_inv_slRel s s' t hi h
  | dec t v u => exact step_inv_dec s s' t v u hi h
  | notified t a => exact step_inv_notified s s' t a hi h
  | mustwait t c b => exact step_inv_mustwait s s' t c b hi h
  | nowait t c b => exact step_inv_nowait s s' t c b hi h
  | cvEnq t z => exact step_inv_cvEnq s s' t z hi h
  | popResume t z g => exact step_inv_popResume s s' t z g hi h
  | cvNone t => exact step_inv_cvNone s s' t hi h
  | cvWoke t a => exact step_inv_cvWoke s s' t a hi h
  | suspend t => exact step_inv_suspend s s' t hi h
  | woke t => exact step_inv_woke s s' t hi h
  | done t => exact step_inv_done s s' t hi h

/-- Converse of `lockHolder`: the recorded lock owner is at a lock-holding program counter. -/
structure Inv2 (s : St) : Prop where
  lockConv : ∀ r, s.lock = some r → holds (s.pc r) = true ∧ r < s.n

theorem inv2_init (n : Nat) (c : Int) : Inv2 (init n c) := by
  refine ⟨?_⟩; simp [init]

set_option hygiene false in
macro "latch_step2" : tactic => `(tactic| (
  simp only [step] at h
  obtain ⟨h1⟩ := hi
  split at h
  case isFalse => simp at h
  rename_i hg
  repeat' split at h
  all_goals first | (simp at h; done) | skip
  all_goals (
    simp only [Option.some.injEq] at h
    subst h
    refine ⟨?_⟩ <;> dsimp only
  )
  all_goals first
    | assumption
    | (intro u; grind [upd])
    | grind [upd]))

theorem step_inv2 (s s' : St) (e : Ev) (hA : Inv s) (hi : Inv2 s) (h : step s e = some s') : Inv2 s' := by
  have hl := hA.lockHolder
  cases e with
  | inv t o => latch_step2
  | ret t r => latch_step2
  | slAcq t => latch_step2
  | slRel t => latch_step2
  | dec t v u => latch_step2
  | notified t a => latch_step2
  | mustwait t c b => latch_step2
  | nowait t c b => latch_step2
  | cvEnq t z => latch_step2
  | popResume t z g => latch_step2
  | cvNone t => latch_step2
  | cvWoke t a => latch_step2
  | suspend t => latch_step2
  | woke t => latch_step2
  | done t => latch_step2

theorem inv_of_accepted {n : Nat} {c : Int} {log : List Ev} {s : St}
    (h : runLog step (init n c) log = some s) : Inv s ∧ Inv2 s := by
  have : ∀ (log : List Ev) (s0 s : St), Inv s0 ∧ Inv2 s0 → runLog step s0 log = some s → Inv s ∧ Inv2 s := by
    intro log
    induction log with
    | nil => intro s0 s h0 h; simp at h; exact h ▸ h0
    | cons e es ih =>
      intro s0 s h0 h
      simp only [runLog] at h
      cases hs : step s0 e with
      | none => simp [hs] at h
      | some s1 =>
        simp only [hs] at h
        exact ih s1 s ⟨step_inv s0 s1 e h0.1 hs, step_inv2 s0 s1 e h0.1 h0.2 hs⟩ h
  exact this log _ s ⟨inv_init n c, inv2_init n c⟩ h

end PikaVerif.Latch
