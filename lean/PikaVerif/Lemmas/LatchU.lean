import PikaVerif.Lemmas.Latch
/-!
# Termination measure of the latch model and finite programs over it (C09u)

The model `PikaVerif.Latch` has **no stutter**: a failed attempt to take the internal spinlock is
not an event of the model (`slAcq` is only accepted when the lock is free), `try_wait` is a single
`ret`, and `wait` calls `cond_.wait` exactly once (no loop), so every accepted event moves the
program counter of its thread forward.  `mu` = sum of a rank of every program counter + `3` per
queued cv entry strictly decreases with every accepted event other than the start of a new
operation (`inv`); the only loop of the code, the `notify_one` loop of the thread that brought the
counter to zero (`ntfL → ntfRes true → ntfNL → ntfL`), is paid for by the queue entry it pops.

The program layer (`PSt`, `pstep`) gives every thread a finite list of operations, as in
`Lemmas/SemProg.lean`; `phi` = `mu` + potential of the operations not yet started decreases with
**every** accepted event.
-/
namespace PikaVerif.Latch
open PikaVerif

/-- potential of one operation not yet started (= rank of `want o`) -/
def opRank : Op → Nat
  | .wait => 14
  | .aw _ => 14
  | .cd _ => 7
  | .tryWait => 2

/-- rank of a program counter -/
def rank : Pc → Nat
  | .fin => 0
  | .idle => 1
  | .retn _ => 2
  | .passing => 3
  | .relk _ => 4
  | .wokeNL _ => 5
  | .susp _ => 6
  | .unl _ => 7
  | .enq => 8
  | .mustEnq => 12
  | .wLocked => 13
  | .awLocked _ => 13
  | .want o => opRank o
  | .awZero => 5
  | .cdLocked => 5
  | .cdWant => 6
  | .ntfRes false => 3
  | .ntfL => 4
  | .ntfNL => 5
  | .ntfRes true => 6

/-- the measure on model states -/
def mu (s : St) : Nat := sumTo s.n (fun t => rank (s.pc t)) + 3 * s.queue.length

attribute [local grind] rank opRank setPopped

set_option hygiene false in
macro "lmu_step" t:term : tactic => `(tactic| (
  simp only [step] at h
  split at h
  case isFalse => simp at h
  rename_i hg
  have htn : $t < s.n := by grind
  have hle := le_sumTo (f := fun u => rank (s.pc u)) htn
  repeat' split at h
  all_goals first | (simp at h; done) | skip
  all_goals (
    simp only [Option.some.injEq] at h
    subst h
    simp only [mu]
    try rw [sumTo_upd_eq _ rank _ _ _ htn]
    grind)))

theorem mu_slAcq (s s' : St) (t : Nat) (h : step s (.slAcq t) = some s') : mu s' < mu s := by lmu_step t
theorem mu_ret (s s' : St) (t : Nat) (r : Bool) (h : step s (.ret t r) = some s') : mu s' < mu s := by lmu_step t
theorem mu_slRel (s s' : St) (t : Nat) (h : step s (.slRel t) = some s') : mu s' < mu s := by lmu_step t
theorem mu_dec (s s' : St) (t : Nat) (v : Int) (u : Nat) (h : step s (.dec t v u) = some s') : mu s' < mu s := by lmu_step t
theorem mu_notified (s s' : St) (t : Nat) (a : Bool) (h : step s (.notified t a) = some s') : mu s' < mu s := by lmu_step t
theorem mu_mustwait (s s' : St) (t : Nat) (c : Int) (b : Bool) (h : step s (.mustwait t c b) = some s') : mu s' < mu s := by lmu_step t
theorem mu_nowait (s s' : St) (t : Nat) (c : Int) (b : Bool) (h : step s (.nowait t c b) = some s') : mu s' < mu s := by lmu_step t
theorem mu_cvEnq (s s' : St) (t z : Nat) (h : step s (.cvEnq t z) = some s') : mu s' < mu s := by
  simp only [step] at h
  split at h
  case isFalse => simp at h
  rename_i hg
  have htn : t < s.n := hg.1
  have hle := le_sumTo (f := fun u => rank (s.pc u)) htn
  split at h
  case h_2 => simp at h
  rename_i hpc
  simp only [Option.some.injEq] at h
  subst h
  simp only [mu]
  rw [sumTo_upd_eq _ rank _ _ _ htn, hpc]
  rw [hpc] at hle
  simp only [List.length_append, List.length_cons, List.length_nil, rank] at hle ⊢
  omega
theorem mu_cvNone (s s' : St) (t : Nat) (h : step s (.cvNone t) = some s') : mu s' < mu s := by lmu_step t
theorem mu_cvWoke (s s' : St) (t : Nat) (a : Bool) (h : step s (.cvWoke t a) = some s') : mu s' < mu s := by lmu_step t
theorem mu_suspend (s s' : St) (t : Nat) (h : step s (.suspend t) = some s') : mu s' < mu s := by lmu_step t
theorem mu_woke (s s' : St) (t : Nat) (h : step s (.woke t) = some s') : mu s' < mu s := by lmu_step t
theorem mu_done (s s' : St) (t : Nat) (h : step s (.done t) = some s') : mu s' < mu s := by lmu_step t

theorem mu_inv (s s' : St) (t : Nat) (o : Op) (h : step s (.inv t o) = some s') :
    mu s' + 1 = mu s + opRank o := by
  simp only [step] at h
  split at h
  case isFalse => simp at h
  rename_i hg
  have htn : t < s.n := hg.1
  have hle := le_sumTo (f := fun u => rank (s.pc u)) htn
  simp only [Option.some.injEq] at h
  subst h
  simp only [mu]
  rw [sumTo_upd_eq _ rank _ _ _ htn]
  rw [hg.2] at hle ⊢
  simp only [rank] at hle ⊢
  omega

theorem setPopped_rank {p p' : Pc} (h : setPopped p = some p') :
    rank p' = rank p ∧ p ≠ .ntfL := by
  unfold setPopped at h
  split at h <;> simp at h <;> subst h <;> simp [rank]

theorem mu_popResume (s s' : St) (t z g : Nat)
    (h : step s (.popResume t z g) = some s') : mu s' < mu s := by
  simp only [step] at h
  split at h
  case isFalse => simp at h
  rename_i hg
  have htn : t < s.n := hg.1
  split at h
  case h_2 => simp at h
  rename_i g' rest hpc hq
  split at h
  case isFalse => simp at h
  split at h
  case h_2 => simp at h
  rename_i p' hp'
  obtain ⟨hrk, hnr⟩ := setPopped_rank hp'
  have hgt : t ≠ g := by intro he; rw [← he, hpc] at hnr; exact hnr rfl
  simp only [Option.some.injEq] at h
  subst h
  have hw2 := sumTo_upd s.n rank (upd s.pc g p') t (.ntfRes (decide (rest ≠ []))) htn
  rw [upd_other _ _ _ _ hgt, hpc] at hw2
  have e1 : rank Pc.ntfL = 4 := rfl
  have e2 : rank (Pc.ntfRes (decide (rest ≠ []))) ≤ 6 := by
    cases decide (rest ≠ []) <;> simp [rank]
  rw [e1] at hw2
  simp only [mu, hq, List.length_cons]
  by_cases hgn : g < s.n
  · have hw1 := sumTo_upd s.n rank s.pc g p' hgn
    omega
  · have hw1 := sumTo_upd_ge s.n rank s.pc g p' (by omega)
    omega

/-- **The measure strictly decreases with every accepted event that is not the start of a new
    operation.** -/
theorem mu_step (s s' : St) (e : Ev) (hne : ∀ t o, e ≠ .inv t o)
    (h : step s e = some s') : mu s' < mu s := by
  cases e with
  | inv t o => exact absurd rfl (hne t o)
  | ret t r => exact mu_ret s s' t r h
  | slAcq t => exact mu_slAcq s s' t h
  | slRel t => exact mu_slRel s s' t h
  | dec t v u => exact mu_dec s s' t v u h
  | notified t a => exact mu_notified s s' t a h
  | mustwait t c b => exact mu_mustwait s s' t c b h
  | nowait t c b => exact mu_nowait s s' t c b h
  | cvEnq t z => exact mu_cvEnq s s' t z h
  | popResume t z g => exact mu_popResume s s' t z g h
  | cvNone t => exact mu_cvNone s s' t h
  | cvWoke t a => exact mu_cvWoke s s' t a h
  | suspend t => exact mu_suspend s s' t h
  | woke t => exact mu_woke s s' t h
  | done t => exact mu_done s s' t h

/-! ### Programs -/

structure PSt where
  s : St
  prog : Nat → List Op

def pstep (p : PSt) : Ev → Option PSt
  | .inv t o =>
    match p.prog t with
    | o' :: rest =>
      if o' = o then (step p.s (.inv t o)).map (fun s' => ⟨s', upd p.prog t rest⟩) else none
    | [] => none
  | .done t => if p.prog t = [] then (step p.s (.done t)).map (fun s' => ⟨s', p.prog⟩) else none
  | .ret t r => (step p.s (.ret t r)).map (fun s' => ⟨s', p.prog⟩)
  | .slAcq t => (step p.s (.slAcq t)).map (fun s' => ⟨s', p.prog⟩)
  | .slRel t => (step p.s (.slRel t)).map (fun s' => ⟨s', p.prog⟩)
  | .dec t v u => (step p.s (.dec t v u)).map (fun s' => ⟨s', p.prog⟩)
  | .notified t a => (step p.s (.notified t a)).map (fun s' => ⟨s', p.prog⟩)
  | .mustwait t c b => (step p.s (.mustwait t c b)).map (fun s' => ⟨s', p.prog⟩)
  | .nowait t c b => (step p.s (.nowait t c b)).map (fun s' => ⟨s', p.prog⟩)
  | .cvEnq t z => (step p.s (.cvEnq t z)).map (fun s' => ⟨s', p.prog⟩)
  | .popResume t z g => (step p.s (.popResume t z g)).map (fun s' => ⟨s', p.prog⟩)
  | .cvNone t => (step p.s (.cvNone t)).map (fun s' => ⟨s', p.prog⟩)
  | .cvWoke t a => (step p.s (.cvWoke t a)).map (fun s' => ⟨s', p.prog⟩)
  | .suspend t => (step p.s (.suspend t)).map (fun s' => ⟨s', p.prog⟩)
  | .woke t => (step p.s (.woke t)).map (fun s' => ⟨s', p.prog⟩)

def pinit (n : Nat) (c : Int) (prog : Nat → List Op) : PSt := ⟨init n c, prog⟩

/-- every accepted program step is an accepted model step -/
theorem pstep_step (p p' : PSt) (e : Ev) (h : pstep p e = some p') : step p.s e = some p'.s := by
  cases e <;> simp only [pstep] at h <;> (repeat' split at h) <;>
    first
    | (simp at h; done)
    | (simp only [Option.map_eq_some_iff] at h; obtain ⟨s', h1, h2⟩ := h; subst h2; simpa using h1)
    | (subst_vars; simp only [Option.map_eq_some_iff] at h; obtain ⟨s', h1, h2⟩ := h; subst h2; simpa using h1)

/-- the program only changes at `inv` -/
theorem pstep_prog (p p' : PSt) (e : Ev) (hne : ∀ t o, e ≠ .inv t o) (h : pstep p e = some p') :
    p'.prog = p.prog := by
  cases e <;> simp only [pstep] at h <;> (repeat' split at h) <;>
    first
    | (simp at h; done)
    | (exact absurd rfl (hne _ _))
    | (simp only [Option.map_eq_some_iff] at h; obtain ⟨s', h1, h2⟩ := h; subst h2; rfl)

theorem pstep_inv (p p' : PSt) (t : Nat) (o : Op) (h : pstep p (.inv t o) = some p') :
    ∃ rest, p.prog t = o :: rest ∧ p'.prog = upd p.prog t rest ∧ t < p.s.n ∧ p.s.pc t = .idle := by
  have hs := pstep_step p p' _ h
  simp only [pstep] at h
  split at h
  · rename_i o' rest hp
    split at h
    · rename_i ho; subst ho
      simp only [Option.map_eq_some_iff] at h; obtain ⟨s', h1, h2⟩ := h; subst h2
      refine ⟨rest, hp, rfl, ?_⟩
      simp only [step] at h1; split at h1
      · rename_i hg; exact hg
      · simp at h1
    · simp at h
  · simp at h

theorem pstep_done (p p' : PSt) (t : Nat) (h : pstep p (.done t) = some p') :
    p.prog t = [] ∧ p'.prog = p.prog ∧ t < p.s.n ∧ p.s.pc t = .idle := by
  have hs := pstep_step p p' _ h
  simp only [pstep] at h
  split at h
  · rename_i hp
    simp only [Option.map_eq_some_iff] at h; obtain ⟨s', h1, h2⟩ := h; subst h2
    refine ⟨hp, rfl, ?_⟩
    simp only [step] at h1; split at h1
    · rename_i hg; exact hg
    · simp at h1
  · simp at h

theorem runLog_pstep_step (log : List Ev) : ∀ (p p' : PSt), runLog pstep p log = some p' →
    runLog step p.s log = some p'.s := by
  induction log with
  | nil => intro p p' h; simp at h; subst h; simp
  | cons e es ih =>
    intro p p' h
    simp only [runLog] at h ⊢
    cases hs : pstep p e with
    | none => simp [hs] at h
    | some p1 =>
      simp only [hs] at h
      rw [pstep_step p p1 e hs]
      exact ih p1 p' h

theorem step_n (s s' : St) (e : Ev) (h : step s e = some s') : s'.n = s.n ∧ s'.init = s.init := by
  cases e <;> simp only [step] at h <;> (repeat' split at h) <;>
    first | (simp at h; done) | (simp only [Option.some.injEq] at h; subst h; exact ⟨rfl, rfl⟩)

/-- potential of the operations a thread has not started yet -/
def progCost : List Op → Nat
  | [] => 0
  | o :: l => opRank o + progCost l

/-- the measure on program states -/
def phi (p : PSt) : Nat := mu p.s + sumTo p.s.n (fun t => progCost (p.prog t))

/-- **Every accepted event of a program strictly decreases `phi`.** -/
theorem phi_step (p p' : PSt) (e : Ev) (h : pstep p e = some p') : phi p' < phi p := by
  have hs := pstep_step p p' e h
  have hn := (step_n _ _ _ hs).1
  by_cases hinv : ∃ t o, e = .inv t o
  · obtain ⟨t, o, he⟩ := hinv
    subst he
    obtain ⟨rest, hp, hp', htn, _⟩ := pstep_inv p p' t o h
    have hm := mu_inv _ _ _ _ hs
    simp only [phi, hn, hp']
    have := sumTo_upd p.s.n progCost p.prog t rest htn
    rw [hp] at this
    simp only [progCost] at this hm
    have : 0 < opRank o := by cases o <;> simp [opRank]
    omega
  · have hne : ∀ t o, e ≠ .inv t o := fun t o he => hinv ⟨t, o, he⟩
    have hm := mu_step _ _ _ hne hs
    have hp := pstep_prog p p' e hne h
    simp only [phi, hn, hp]
    omega

/-- explicit bound on the number of events of a program with `n` threads: 1 per thread (`done`),
    14 per `wait` / `arrive_and_wait`, 7 per `count_down`, 2 per `try_wait` -/
def bound (n : Nat) (prog : Nat → List Op) : Nat := n + sumTo n (fun t => progCost (prog t))

theorem phi_pinit (n : Nat) (c : Int) (prog : Nat → List Op) : phi (pinit n c prog) = bound n prog := by
  simp only [phi, pinit, mu, init, bound]
  have h1 : sumTo n (fun _ => rank Pc.idle) = n := by
    induction n with
    | zero => rfl
    | succ k ih => simp only [sumTo_succ, ih]; rfl
  rw [h1]; simp

theorem runLog_phi (log : List Ev) : ∀ (p p' : PSt), runLog pstep p log = some p' →
    log.length + phi p' ≤ phi p := by
  induction log with
  | nil => intro p p' h; simp at h; subst h; simp
  | cons e es ih =>
    intro p p' h
    simp only [runLog] at h
    cases hs : pstep p e with
    | none => simp [hs] at h
    | some p1 =>
      simp only [hs] at h
      have h1 := phi_step p p1 e hs
      have h2 := ih p1 p' h
      simp only [List.length_cons]
      omega

/-- no event at all is accepted: the run is maximal -/
def PStuck (p : PSt) : Prop := ∀ e, pstep p e = none

/-- every state of a program can be run to a maximal (stuck) state -/
theorem exists_maximal_from : ∀ (k : Nat) (p : PSt), phi p ≤ k →
    ∃ ext p', runLog pstep p ext = some p' ∧ PStuck p' := by
  intro k
  induction k with
  | zero =>
    intro p hk
    refine ⟨[], p, rfl, ?_⟩
    intro e
    cases he : pstep p e with
    | none => rfl
    | some p1 => have := phi_step p p1 e he; omega
  | succ k ih =>
    intro p hk
    by_cases hst : PStuck p
    · exact ⟨[], p, rfl, hst⟩
    · have : ∃ e, pstep p e ≠ none := Classical.byContradiction (fun hc => hst (fun e =>
        Classical.byContradiction (fun hn => hc ⟨e, hn⟩)))
      obtain ⟨e, he⟩ := this
      cases hp1 : pstep p e with
      | none => exact absurd hp1 he
      | some p1 =>
        have hlt := phi_step p p1 e hp1
        obtain ⟨ext, p', hrun, hstuck⟩ := ih p1 (by omega)
        refine ⟨e :: ext, p', ?_, hstuck⟩
        simp only [runLog, hp1]; exact hrun

end PikaVerif.Latch
