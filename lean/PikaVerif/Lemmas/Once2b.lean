import PikaVerif.Lemmas.Once2a
/-! Preservation of `InvP` by the individual events (part b). -/
namespace PikaVerif.Once
open PikaVerif
set_option maxHeartbeats 1600000
attribute [local grind] holds inQ b2n tokOf pcOpOk ctxOk isCall wDone sDone entry popd
  isOnce needsSet runW ranOkW setW owesSetW needsComplete onceWaiter

theorem step_invM_inv (s s' : St) (t : Nat) (o : Op) (hA : Inv s) (hi : InvM s) (h : step s (.inv t o) = some s') : InvM s' := by once_stepM t
theorem step_invM_ret (s s' : St) (t : Nat) (r : Nat) (hA : Inv s) (hi : InvM s) (h : step s (.ret t r) = some s') : InvM s' := by once_stepM t
theorem step_invM_slAcq (s s' : St) (t : Nat) (hA : Inv s) (hi : InvM s) (h : step s (.slAcq t) = some s') : InvM s' := by once_stepM t
theorem step_invM_slRel (s s' : St) (t : Nat) (hA : Inv s) (hi : InvM s) (h : step s (.slRel t) = some s') : InvM s' := by once_stepM t
theorem step_invM_evLoad (s s' : St) (t : Nat) (v : Bool) (hA : Inv s) (hi : InvM s) (h : step s (.evLoad t v) = some s') : InvM s' := by once_stepM t
theorem step_invM_evLoadL (s s' : St) (t : Nat) (v : Bool) (hA : Inv s) (hi : InvM s) (h : step s (.evLoadL t v) = some s') : InvM s' := by once_stepM t
theorem step_invM_stored (s s' : St) (t : Nat) (v : Bool) (hA : Inv s) (hi : InvM s) (h : step s (.stored t v) = some s') : InvM s' := by once_stepM t
theorem step_invM_cvEnq (s s' : St) (t z : Nat) (hA : Inv s) (hi : InvM s) (h : step s (.cvEnq t z) = some s') : InvM s' := by once_stepM t
theorem step_invM_cvWoke (s s' : St) (t : Nat) (a : Bool) (hA : Inv s) (hi : InvM s) (h : step s (.cvWoke t a) = some s') : InvM s' := by once_stepM t
theorem step_invM_suspend (s s' : St) (t : Nat) (hA : Inv s) (hi : InvM s) (h : step s (.suspend t) = some s') : InvM s' := by once_stepM t
theorem step_invM_woke (s s' : St) (t : Nat) (hA : Inv s) (hi : InvM s) (h : step s (.woke t) = some s') : InvM s' := by once_stepM t
theorem step_invM_onceLoad (s s' : St) (t : Nat) (hA : Inv s) (hi : InvM s) (h : step s (.onceLoad t) = some s') : InvM s' := by once_stepM t
theorem step_invM_onceWon (s s' : St) (t : Nat) (hA : Inv s) (hi : InvM s) (h : step s (.onceWon t) = some s') : InvM s' := by once_stepM t
theorem step_invM_onceLost (s s' : St) (t : Nat) (a : Bool) (hA : Inv s) (hi : InvM s) (h : step s (.onceLost t a) = some s') : InvM s' := by once_stepM t
theorem step_invM_body (s s' : St) (t : Nat) (a : Bool) (hA : Inv s) (hi : InvM s) (h : step s (.body t a) = some s') : InvM s' := by once_stepM t
theorem step_invM_onceStored (s s' : St) (t : Nat) (a : Bool) (hA : Inv s) (hi : InvM s) (h : step s (.onceStored t a) = some s') : InvM s' := by once_stepM t
theorem step_invM_done (s s' : St) (t : Nat) (hA : Inv s) (hi : InvM s) (h : step s (.done t) = some s') : InvM s' := by once_stepM t

theorem step_invP_inv (s s' : St) (t : Nat) (o : Op) (hA : Inv s) (hi : InvP s) (h : step s (.inv t o) = some s') : InvP s' := by once_stepP t
theorem step_invP_ret (s s' : St) (t : Nat) (r : Nat) (hA : Inv s) (hi : InvP s) (h : step s (.ret t r) = some s') : InvP s' := by once_stepP t
theorem step_invP_slAcq (s s' : St) (t : Nat) (hA : Inv s) (hi : InvP s) (h : step s (.slAcq t) = some s') : InvP s' := by once_stepP t
theorem step_invP_slRel (s s' : St) (t : Nat) (hA : Inv s) (hi : InvP s) (h : step s (.slRel t) = some s') : InvP s' := by once_stepP t
theorem step_invP_evLoad (s s' : St) (t : Nat) (v : Bool) (hA : Inv s) (hi : InvP s) (h : step s (.evLoad t v) = some s') : InvP s' := by once_stepP t
theorem step_invP_evLoadL (s s' : St) (t : Nat) (v : Bool) (hA : Inv s) (hi : InvP s) (h : step s (.evLoadL t v) = some s') : InvP s' := by once_stepP t

end PikaVerif.Once
