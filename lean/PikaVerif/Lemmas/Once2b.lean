import PikaVerif.Lemmas.Once2a
/-! Preservation of `InvP` by the individual events (part b). -/
namespace PikaVerif.Once
open PikaVerif
set_option maxHeartbeats 1600000
attribute [local grind] holds inQ b2n tokOf pcOpOk ctxOk isCall wDone sDone entry popd
  isOnce needsSet runW ranOkW setW owesSetW needsComplete onceWaiter

theorem step_invP_inv (s s' : St) (t : Nat) (o : Op) (hA : Inv s) (hi : InvP s) (h : step s (.inv t o) = some s') : InvP s' := by once_stepP t
theorem step_invP_ret (s s' : St) (t : Nat) (r : Nat) (hA : Inv s) (hi : InvP s) (h : step s (.ret t r) = some s') : InvP s' := by once_stepP t
theorem step_invP_slAcq (s s' : St) (t : Nat) (hA : Inv s) (hi : InvP s) (h : step s (.slAcq t) = some s') : InvP s' := by once_stepP t
theorem step_invP_slRel (s s' : St) (t : Nat) (hA : Inv s) (hi : InvP s) (h : step s (.slRel t) = some s') : InvP s' := by once_stepP t
theorem step_invP_evLoad (s s' : St) (t : Nat) (v : Bool) (hA : Inv s) (hi : InvP s) (h : step s (.evLoad t v) = some s') : InvP s' := by once_stepP t
theorem step_invP_evPass (s s' : St) (t : Nat) (v : Bool) (hA : Inv s) (hi : InvP s) (h : step s (.evPass t v) = some s') : InvP s' := by once_stepP t

end PikaVerif.Once
