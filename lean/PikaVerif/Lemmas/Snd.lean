import PikaVerif.Model.Snd
/-!
Receiver-contract lemmas for the sequential sender model: for every term, `start` calls the
connected receiver exactly once — as its last action — with the denoted signal, and leaves the
operation states that existed before untouched.
-/
namespace PikaVerif.Snd
open PikaVerif

/-- `s'` is `s` after some adaptor-internal work: flags and the terminal log are unchanged,
    operation states allocated before (other than `x`) are unchanged. -/
structure Ext (x : Nat) (s s' : M) : Prop where
  aborted : s'.aborted = false
  released : s'.released = false
  uaf : s'.uaf = s.uaf
  log : s'.log = s.log
  next : s.next ≤ s'.next
  cells : ∀ a, a < s.next → a ≠ x → s'.cells a = s.cells a

theorem Ext.refl (x : Nat) (s : M) (ha : s.aborted = false) (hr : s.released = false) : Ext x s s :=
  ⟨ha, hr, rfl, rfl, Nat.le_refl _, fun _ _ _ => rfl⟩

theorem Ext.trans {x : Nat} {s s' s'' : M} (h1 : Ext x s s') (h2 : Ext x s' s'') : Ext x s s'' :=
  ⟨h2.aborted, h2.released, h2.uaf.trans h1.uaf, h2.log.trans h1.log, Nat.le_trans h1.next h2.next,
   fun a ha hx => (h2.cells a (Nat.lt_of_lt_of_le ha h1.next) hx).trans (h1.cells a ha hx)⟩

/-- An exception address at or above `s.next` is no exception at all. -/
theorem Ext.weaken {y : Nat} (x : Nat) {s s' : M} (hy : s.next ≤ y) (h : Ext y s s') : Ext x s s' :=
  ⟨h.aborted, h.released, h.uaf, h.log, h.next, fun a ha _ => h.cells a ha (by omega)⟩

theorem touch_id {s : M} (hr : s.released = false) : touch s = s := by simp [touch, hr]

theorem Ext.alloc (c : Cell) (s : M) (ha : s.aborted = false) (hr : s.released = false) :
    Ext s.next s (alloc c s) :=
  ⟨ha, hr, rfl, rfl, Nat.le_succ _, fun a h _ => by
    show upd s.cells s.next c a = s.cells a
    exact upd_other _ _ _ _ (by omega)⟩

theorem Ext.setCell (a : Nat) (c : Cell) (s : M) (ha : s.aborted = false) (hr : s.released = false) :
    Ext a s (setCell a c s) :=
  ⟨ha, hr, rfl, rfl, Nat.le_refl _, fun b _ hb => by
    show upd s.cells a c b = s.cells b
    exact upd_other _ _ _ _ hb⟩

/-! ### `when_all`: the pure part -/

def waDec (w : Cell) : Cell := { w with remaining := w.remaining - 1 }

/-- The operation state after the predecessors `i, i+1, …` have completed with `sigs`. -/
def waRun (i : Nat) (w : Cell) : List Sig → Cell
  | [] => w
  | sig :: r => waRun (i + 1) (waDec (waStep i w sig)) r

theorem waFinish_latched (sd : Bool) (sigs : List Sig) : ∀ (i : Nat) (w : Cell), w.latch = true →
    waFinish sd (waRun i w sigs) = waFinish sd w := by
  induction sigs with
  | nil => intro i w _; rfl
  | cons sig r ih =>
    intro i w hl
    have h1 : (waDec (waStep i w sig)).latch = true := by
      cases sig <;> simp [waStep, waDec, hl]
    have h2 : waFinish sd (waDec (waStep i w sig)) = waFinish sd w := by
      cases sig <;> simp [waStep, waDec, waFinish, hl]
    simp only [waRun]
    rw [ih _ _ h1, h2]

theorem allSome_map_some (pre : List (List Int)) : allSome (pre.map some) = some pre.flatten := by
  induction pre with
  | nil => rfl
  | cons v r ih => simp [allSome, ih]

theorem set_at_length {α : Type} (l : List α) (x y : α) (r : List α) :
    (l ++ x :: r).set l.length y = l ++ y :: r := by
  induction l with
  | nil => rfl
  | cons a l ih => simp [ih]

theorem waFinish_run (sigs : List Sig) : ∀ (pre : List (List Int)) (w : Cell), w.latch = false → w.err = none →
    w.slots = pre.map some ++ List.replicate sigs.length none →
    waFinish true (waRun pre.length w sigs) = some (joinAux pre.flatten sigs) := by
  induction sigs with
  | nil =>
    intro pre w hl _ hs
    simp [waRun, waFinish, hl, hs, allSome_map_some, joinAux]
  | cons sig r ih =>
    intro pre w hl he hs
    simp only [waRun]
    cases sig with
    | value vs =>
      have h1 : (waDec (waStep pre.length w (.value vs))).latch = false := by
        simp [waStep, waDec, hl]
      have h2 : (waDec (waStep pre.length w (.value vs))).slots =
          (pre ++ [vs]).map some ++ List.replicate r.length none := by
        simp only [waStep, waDec, hl, hs, List.length_cons, List.replicate_succ]
        have := set_at_length (pre.map some) none (some vs) (List.replicate r.length none)
        simp only [List.length_map] at this
        simp [this]
      have h3 : (waDec (waStep pre.length w (.value vs))).err = none := by
        simp [waStep, waDec, hl, he]
      have := ih (pre ++ [vs]) _ h1 h3 h2
      simp only [List.length_append, List.length_cons, List.length_nil] at this
      rw [this]
      simp [joinAux]
    | error e =>
      rw [waFinish_latched _ _ _ _ (by simp [waStep, waDec, hl])]
      simp [waStep, waDec, waFinish, hl, joinAux]
    | stopped =>
      rw [waFinish_latched _ _ _ _ (by simp [waStep, waDec])]
      simp [waStep, waDec, waFinish, he, joinAux]

theorem waFinish_init (sigs : List Sig) (n : Nat) (hn : n = sigs.length) :
    waFinish true (waRun 0 { remaining := n, slots := List.replicate n none } sigs) =
      some (join sigs) := by
  subst hn
  have := waFinish_run sigs [] { remaining := sigs.length, slots := List.replicate sigs.length none }
    rfl rfl (by simp)
  simpa [join] using this

theorem denotes_length (cs : List Term) (env : List Int) : (denotes cs env).length = cs.length := by
  induction cs with
  | nil => simp [denotes]
  | cons c cs ih => simp [denotes, ih]

/-! ### The receiver contract, by structural induction over terms -/

/-- The statement for one term: whatever receiver is connected and whatever the machine state,
    `start` ends by calling the receiver once with the denoted signal. -/
def Spec (cfg : Cfg) (t : Term) : Prop :=
  ∀ (env : List Int) (k : Rc) (s : M), s.aborted = false → s.released = false →
    ∃ s', start cfg t env k s = k (denote t env) s' ∧ Ext s.next s s'

/-- The statement for the tail of a `when_all` start loop that has just delivered `sig` from
    predecessor `i` to the operation state at `a`. -/
def SpecAll (cfg : Cfg) (cs : List Term) : Prop :=
  ∀ (env : List Int) (sd : Bool) (a : Nat) (k : Rc) (i : Nat) (sig : Sig) (s : M),
    s.aborted = false → s.released = false → a < s.next →
    (s.cells a).remaining = cs.length + 1 →
    ∃ s', startAll cfg cs env (fun j => waR sd a j k) (i + 1) (waR sd a i k sig s) =
        deliver (waFinish sd (waRun i (s.cells a) (sig :: denotes cs env))) k s' ∧ Ext a s s'

theorem specAll_nil (cfg : Cfg) : SpecAll cfg [] := by
  intro env sd a k i sig s ha hr _ hrem
  refine ⟨setCell a (waDec (waStep i (s.cells a) sig)) s, ?_, Ext.setCell _ _ _ ha hr⟩
  have h0 : (waStep i (s.cells a) sig).remaining - 1 = 0 := by
    cases sig <;> simp [waStep] <;> (try split) <;> simp_all
  simp only [startAll, waR, touch_id hr, denotes, waRun, waDec, h0, if_true]

theorem specAll_cons (cfg : Cfg) (c : Term) (cs : List Term) (hc : Spec cfg c)
    (hcs : SpecAll cfg cs) : SpecAll cfg (c :: cs) := by
  intro env sd a k i sig s ha hr hlt hrem
  -- the receiver call: counter does not reach zero
  let w' := waDec (waStep i (s.cells a) sig)
  have hw' : w'.remaining = cs.length + 1 := by
    show (waStep i (s.cells a) sig).remaining - 1 = cs.length + 1
    have : (waStep i (s.cells a) sig).remaining = (s.cells a).remaining := by
      cases sig <;> simp [waStep] <;> (try split) <;> simp_all
    rw [this, hrem]; simp
  have hne : ¬ (w'.remaining = 0) := by omega
  have e1 : waR sd a i k sig s = setCell a w' s := by
    simp only [waR, touch_id hr]
    show (if w'.remaining = 0 then _ else setCell a w' s) = _
    rw [if_neg hne]
  have x1 : Ext a s (setCell a w' s) := Ext.setCell _ _ _ ha hr
  -- the next predecessor
  obtain ⟨s2, e2, x2⟩ := hc env (waR sd a (i + 1) k) (setCell a w' s) x1.aborted x1.released
  have hlt1 : a < (setCell a w' s).next := hlt
  have hcell2 : s2.cells a = w' := by
    have hs : (setCell a w' s).cells a = w' := by simp [setCell]
    by_cases hx : a = (setCell a w' s).next
    · omega
    · rw [x2.cells a hlt1 hx, hs]
  obtain ⟨s3, e3, x3⟩ := hcs env sd a k (i + 1) (denote c env) s2 x2.aborted x2.released
    (Nat.lt_of_lt_of_le hlt1 x2.next) (by rw [hcell2, hw'])
  refine ⟨s3, ?_, x1.trans ((x2.weaken a (Nat.le_refl _)).trans x3)⟩
  rw [e1]
  simp only [startAll, touch_id x1.released]
  rw [e2, e3, hcell2]
  simp only [denotes, waRun]
  rfl

def toStored : Sig → Stored
  | .value vs => .value vs
  | .error e => .error e
  | .stopped => .stopped

theorem storeR_eq (a : Nat) (sig : Sig) (s : M) (hr : s.released = false) (hcell : s.cells a = {}) :
    storeR true a sig s = setCell a { stored := toStored sig, done := true } s := by
  cases sig <;> simp [storeR, touch_id hr, hcell, toStored]

theorem visit_done (a : Nat) (sel : List Int → List Int) (k : Rc) (s : M) (ha : s.aborted = false)
    (hr : s.released = false) (hd : (s.cells a).done = true) :
    visit a sel k s = match (s.cells a).stored with
      | .mono => abort s
      | .stopped => k .stopped s
      | .error e => k (.error e) s
      | .value vs => k (.value (sel vs)) s := by
  simp only [visit, ha, touch_id hr, hd, Bool.false_eq_true, if_false, if_true]
  cases (s.cells a).stored <;> rfl

theorem spec_visit (cfg : Cfg) (p : Term) (flag : Bool) (sel : List Int → List Int)
    (hflag : flag = true) (hp : Spec cfg p) (env : List Int) (k : Rc) (s : M)
    (ha : s.aborted = false) (hr : s.released = false) :
    ∃ s', visit s.next sel k (start cfg p env (storeR flag s.next) (alloc {} s)) =
        k (match denote p env with | .value vs => .value (sel vs) | o => o) s' ∧ Ext s.next s s' := by
  subst hflag
  have x0 := Ext.alloc {} s ha hr
  obtain ⟨s1, e1, x1⟩ := hp env (storeR true s.next) (alloc {} s) x0.aborted x0.released
  have hcell : s1.cells s.next = {} := by
    have : (alloc {} s).cells s.next = {} := by simp [alloc]
    rw [x1.cells s.next (by simp [alloc]) (by simp [alloc]), this]
  rw [e1, storeR_eq _ _ _ x1.released hcell]
  have x2 := Ext.setCell s.next { stored := toStored (denote p env), done := true } s1
    x1.aborted x1.released
  refine ⟨_, ?_, x0.trans ((x1.weaken s.next (by simp [alloc])).trans x2)⟩
  rw [visit_done _ _ _ _ x2.aborted x2.released (by simp [setCell])]
  cases denote p env <;> simp [setCell, toStored]

theorem schedR_value (sc : Sch) (a : Nat) (k : Rc) (vs : List Int) (s : M) (ha : s.aborted = false)
    (hr : s.released = false) :
    ∃ s', schedR sc a k (.value vs) s = k (applySch sc (.value vs)) s' ∧ Ext a s s' := by
  refine ⟨setCell a { s.cells a with stored := .value vs } s, ?_, Ext.setCell _ _ _ ha hr⟩
  have h2 : touch (setCell a { s.cells a with stored := .value vs } s) =
      setCell a { s.cells a with stored := .value vs } s := touch_id hr
  cases sc <;> simp only [schedR, touch_id hr, applySch, h2] <;> simp [setCell]

theorem spec_fwd (cfg : Cfg) (p : Term) (c : Cell) (hp : Spec cfg p) (env : List Int) (k : Rc) (s : M)
    (ha : s.aborted = false) (hr : s.released = false) :
    ∃ s', start cfg p env (fwdR k) (alloc c s) = k (denote p env) s' ∧ Ext s.next s s' := by
  have x0 := Ext.alloc c s ha hr
  obtain ⟨s1, e1, x1⟩ := hp env (fwdR k) (alloc c s) x0.aborted x0.released
  refine ⟨s1, ?_, x0.trans (x1.weaken s.next (by simp [alloc]))⟩
  rw [e1]; simp only [fwdR, touch_id x1.released]

/-- **Receiver contract** for every term of the language (code variant `cfg.ok`). -/
theorem spec (cfg : Cfg) (hc : cfg.ok = true) : ∀ t : Term, Spec cfg t
  | .just vs => fun env k s ha hr => ⟨s, by simp [start, ha, denote], Ext.refl _ _ ha hr⟩
  | .err e => fun env k s ha hr => ⟨s, by simp [start, ha, denote], Ext.refl _ _ ha hr⟩
  | .stop => fun env k s ha hr => ⟨s, by simp [start, ha, denote], Ext.refl _ _ ha hr⟩
  | .arg => fun env k s ha hr => ⟨s, by simp [start, ha, denote], Ext.refl _ _ ha hr⟩
  | .thn f p => fun env k s ha hr => by
    obtain ⟨s1, e1, x1⟩ := spec cfg hc p env (thenR f k) s ha hr
    exact ⟨s1, by simp [start, ha, denote, e1, thenR], x1⟩
  | .bulk n f p => fun env k s ha hr => by
    obtain ⟨s1, e1, x1⟩ := spec cfg hc p env (bulkR n f k) s ha hr
    exact ⟨s1, by simp [start, ha, denote, e1, bulkR], x1⟩
  | .rs p => fun env k s ha hr => by
    obtain ⟨s1, e1, x1⟩ := spec_fwd cfg p { done := true } (spec cfg hc p) env k s ha hr
    exact ⟨s1, by simp [start, ha, denote, e1], x1⟩
  | .dos p => fun env k s ha hr => by
    obtain ⟨s1, e1, x1⟩ := spec_fwd cfg p {} (spec cfg hc p) env k s ha hr
    exact ⟨s1, by simp [start, ha, denote, e1], x1⟩
  | .sd sc => fun env k s ha hr => ⟨s, by simp [start, ha, denote], Ext.refl _ _ ha hr⟩
  | .dv p => fun env k s ha hr => by
    obtain ⟨s1, e1, x1⟩ := spec cfg hc p env (dropR k) s ha hr
    refine ⟨s1, ?_, x1⟩
    simp only [start, ha, denote, e1, dropR]
    cases denote p env <;> simp
  | .un p => fun env k s ha hr => by
    obtain ⟨s1, e1, x1⟩ := spec cfg hc p env (unR k) s ha hr
    refine ⟨s1, ?_, x1⟩
    simp only [start, ha, denote, e1, unR]
    cases denote p env <;> simp
  | .lv f p b => fun env k s ha hr => by
    obtain ⟨s1, e1, x1⟩ := spec cfg hc p env _ s ha hr
    simp only [start, ha, denote, Bool.false_eq_true, if_false]
    rw [e1]
    cases hd : denote p env with
    | value vs =>
      cases hf : f.apply vs with
      | ok r =>
        obtain ⟨s2, e2, x2⟩ := spec cfg hc b r k s1 x1.aborted x1.released
        exact ⟨s2, by simp [hf, e2], x1.trans (x2.weaken _ (Nat.le_refl _))⟩
      | error e => exact ⟨s1, by simp [hf], x1⟩
    | error e => exact ⟨s1, by simp, x1⟩
    | stopped => exact ⟨s1, by simp, x1⟩
  | .le f p b => fun env k s ha hr => by
    obtain ⟨s1, e1, x1⟩ := spec cfg hc p env _ s ha hr
    simp only [start, ha, denote, Bool.false_eq_true, if_false]
    rw [e1]
    cases hd : denote p env with
    | error e =>
      cases hf : f.apply [e] with
      | ok r =>
        obtain ⟨s2, e2, x2⟩ := spec cfg hc b r k s1 x1.aborted x1.released
        exact ⟨s2, by simp [hf, e2], x1.trans (x2.weaken _ (Nat.le_refl _))⟩
      | error e' => exact ⟨s1, by simp [hf], x1⟩
    | value vs => exact ⟨s1, by simp, x1⟩
    | stopped => exact ⟨s1, by simp, x1⟩
  | .co sc p => fun env k s ha hr => by
    have x0 := Ext.alloc {} s ha hr
    obtain ⟨s1, e1, x1⟩ := spec cfg hc p env (schedR sc s.next k) (alloc {} s) x0.aborted x0.released
    simp only [start, ha, denote, Bool.false_eq_true, if_false]
    rw [e1]
    have x01 := x0.trans (x1.weaken s.next (by simp [alloc]))
    cases hd : denote p env with
    | value vs =>
      obtain ⟨s2, e2, x2⟩ := schedR_value sc s.next k vs s1 x1.aborted x1.released
      exact ⟨s2, e2, x01.trans x2⟩
    | error e => exact ⟨s1, by simp [schedR, applySch, touch_id x1.released], x01⟩
    | stopped => exact ⟨s1, by simp [schedR, applySch, touch_id x1.released], x01⟩
  | .tj sc vs => fun env k s ha hr => by
    have x0 := Ext.alloc {} s ha hr
    simp only [start, ha, denote, Bool.false_eq_true, if_false]
    obtain ⟨s2, e2, x2⟩ := schedR_value sc s.next k vs (alloc {} s) x0.aborted x0.released
    exact ⟨s2, e2, x0.trans x2⟩
  | .sp p => fun env k s ha hr => by
    have hf : cfg.splitStoresStopped = true := by
      simp [Cfg.ok] at hc; exact hc.1.1
    obtain ⟨s1, e1, x1⟩ := spec_visit cfg p _ (fun v => v) hf (spec cfg hc p) env k s ha hr
    refine ⟨s1, ?_, x1⟩
    simp only [start, ha, denote, Bool.false_eq_true, if_false]
    rw [e1]; cases denote p env <;> rfl
  | .es p => fun env k s ha hr => by
    obtain ⟨s1, e1, x1⟩ := spec_visit cfg p _ (fun v => v) rfl (spec cfg hc p) env k s ha hr
    refine ⟨s1, ?_, x1⟩
    simp only [start, ha, denote, Bool.false_eq_true, if_false]
    rw [e1]; cases denote p env <;> rfl
  | .st i p => fun env k s ha hr => by
    have hf : cfg.tupleStoresStopped = true := by
      simp [Cfg.ok] at hc; exact hc.1.2
    obtain ⟨s1, e1, x1⟩ := spec_visit cfg p _ (pick i) hf (spec cfg hc p) env k s ha hr
    refine ⟨s1, ?_, x1⟩
    simp only [start, ha, denote, Bool.false_eq_true, if_false]
    rw [e1]; cases denote p env <;> rfl
  | .wa c cs => fun env k s ha hr => by
    have x0 := Ext.alloc { remaining := cs.length + 1, slots := List.replicate (cs.length + 1) none } s ha hr
    obtain ⟨s1, e1, x1⟩ := spec cfg hc c env (waR true s.next 0 k) _ x0.aborted x0.released
    have hcell : s1.cells s.next = { remaining := cs.length + 1, slots := List.replicate (cs.length + 1) none } := by
      rw [x1.cells s.next (by simp [alloc]) (by simp [alloc])]; simp [alloc]
    obtain ⟨s2, e2, x2⟩ := specAll cfg hc cs env true s.next k 0 (denote c env) s1 x1.aborted
      x1.released (Nat.lt_of_lt_of_le (by simp [alloc]) x1.next) (by rw [hcell])
    refine ⟨s2, ?_, x0.trans ((x1.weaken s.next (by simp [alloc])).trans x2)⟩
    simp only [start, ha, denote, Bool.false_eq_true, if_false, touch_id x0.released]
    rw [e1, e2, hcell, waFinish_init _ _ (by simp [denotes_length])]
    rfl
  | .wv [] => fun env k s ha hr => ⟨s, by simp [start, ha, denote, denotes, join, joinAux], Ext.refl _ _ ha hr⟩
  | .wv (c :: cs) => fun env k s ha hr => by
    have hsd : cfg.wvSendsDone = true := by
      simp [Cfg.ok] at hc; exact hc.2
    have x0 := Ext.alloc { remaining := cs.length + 1, slots := List.replicate (cs.length + 1) none } s ha hr
    obtain ⟨s1, e1, x1⟩ := spec cfg hc c env (waR true s.next 0 k) _ x0.aborted x0.released
    have hcell : s1.cells s.next = { remaining := cs.length + 1, slots := List.replicate (cs.length + 1) none } := by
      rw [x1.cells s.next (by simp [alloc]) (by simp [alloc])]; simp [alloc]
    obtain ⟨s2, e2, x2⟩ := specAll cfg hc cs env true s.next k 0 (denote c env) s1 x1.aborted
      x1.released (Nat.lt_of_lt_of_le (by simp [alloc]) x1.next) (by rw [hcell])
    refine ⟨s2, ?_, x0.trans ((x1.weaken s.next (by simp [alloc])).trans x2)⟩
    simp only [start, ha, denote, Bool.false_eq_true, if_false, List.isEmpty_cons, hsd, startAll,
      touch_id x0.released, List.length_cons]
    rw [e1, e2, hcell, waFinish_init _ _ (by simp [denotes_length])]
    rfl
where
  specAll (cfg : Cfg) (hc : cfg.ok = true) : ∀ cs : List Term, SpecAll cfg cs
  | [] => specAll_nil cfg
  | c :: cs => specAll_cons cfg c cs (spec cfg hc c) (specAll cfg hc cs)

end PikaVerif.Snd
