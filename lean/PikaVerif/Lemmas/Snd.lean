import PikaVerif.Model.Snd
/-!
Receiver-contract lemmas for the sequential sender model: for every term, `start` calls the
connected receiver exactly once — as its last action — with the denoted signal, and leaves the
operation states that existed before untouched.
-/
namespace PikaVerif.Snd
open PikaVerif

/-- Nothing at or above the allocation pointer has been destroyed. -/
def Fresh (s : M) : Prop := ∀ a, s.next ≤ a → s.freed a = false

/-- `s'` is `s` after some adaptor-internal work: flags and the terminal log are unchanged,
    operation states allocated before (other than `x`) are unchanged and not destroyed. -/
structure Ext (x : Nat) (s s' : M) : Prop where
  aborted : s'.aborted = false
  released : s'.released = false
  uaf : s'.uaf = s.uaf
  log : s'.log = s.log
  next : s.next ≤ s'.next
  cells : ∀ a, a < s.next → a ≠ x → s'.cells a = s.cells a
  freed : ∀ a, a < s.next → s'.freed a = s.freed a
  fresh : Fresh s → Fresh s'

theorem Ext.refl (x : Nat) (s : M) (ha : s.aborted = false) (hr : s.released = false) : Ext x s s :=
  ⟨ha, hr, rfl, rfl, Nat.le_refl _, fun _ _ _ => rfl, fun _ _ => rfl, id⟩

theorem Ext.trans {x : Nat} {s s' s'' : M} (h1 : Ext x s s') (h2 : Ext x s' s'') : Ext x s s'' :=
  ⟨h2.aborted, h2.released, h2.uaf.trans h1.uaf, h2.log.trans h1.log, Nat.le_trans h1.next h2.next,
   fun a ha hx => (h2.cells a (Nat.lt_of_lt_of_le ha h1.next) hx).trans (h1.cells a ha hx),
   fun a ha => (h2.freed a (Nat.lt_of_lt_of_le ha h1.next)).trans (h1.freed a ha),
   fun hf => h2.fresh (h1.fresh hf)⟩

/-- An exception address at or above `s.next` is no exception at all. -/
theorem Ext.weaken {y : Nat} (x : Nat) {s s' : M} (hy : s.next ≤ y) (h : Ext y s s') : Ext x s s' :=
  ⟨h.aborted, h.released, h.uaf, h.log, h.next, fun a ha _ => h.cells a ha (by omega), h.freed, h.fresh⟩

theorem touch_id {a : Nat} {s : M} (hr : s.released = false) (hf : s.freed a = false) :
    touch a s = s := by simp [touch, hr, hf]

theorem Ext.alloc (c : Cell) (s : M) (ha : s.aborted = false) (hr : s.released = false) :
    Ext s.next s (alloc c s) :=
  ⟨ha, hr, rfl, rfl, Nat.le_succ _, fun a h _ => by
    show upd s.cells s.next c a = s.cells a
    exact upd_other _ _ _ _ (by omega), fun _ _ => rfl,
   fun hf a h => hf a (by have h' : s.next + 1 ≤ a := h; omega)⟩

theorem Ext.setCell (a : Nat) (c : Cell) (s : M) (ha : s.aborted = false) (hr : s.released = false) :
    Ext a s (setCell a c s) :=
  ⟨ha, hr, rfl, rfl, Nat.le_refl _, fun b _ hb => by
    show upd s.cells a c b = s.cells b
    exact upd_other _ _ _ _ hb, fun _ _ => rfl, id⟩

/-- the cell allocated by `alloc` is not destroyed as long as only `Ext` steps follow -/
theorem own_alive {c : Cell} {s s1 : M} {x : Nat} (hf : Fresh s) (x1 : Ext x (alloc c s) s1) :
    s1.freed s.next = false := by
  rw [x1.freed s.next (by simp [alloc])]
  exact hf s.next (Nat.le_refl _)

/-! ### `when_all`: the pure part -/

def waDec (w : Cell) : Cell := { w with remaining := w.remaining - 1 }

/-- The operation state after the predecessors `i, i+1, …` have completed with `sigs`. -/
def waRun (i : Nat) (w : Cell) : List Sig → Cell
  | [] => w
  | sig :: r => waRun (i + 1) (waDec (waStep i w sig)) r

theorem waFinish_latched (sd : Bool) (sigs : List Sig) : ∀ (i : Nat) (w : Cell), w.latch = true →
    waFinish sd (waRun i w sigs) = waFinish sd w := by
  induction sigs with
  | nil => intro i w _; rfl
  | cons sig r ih =>
    intro i w hl
    have h1 : (waDec (waStep i w sig)).latch = true := by
      cases sig <;> simp [waStep, waDec, hl]
    have h2 : waFinish sd (waDec (waStep i w sig)) = waFinish sd w := by
      cases sig <;> simp [waStep, waDec, waFinish, hl]
    simp only [waRun]
    rw [ih _ _ h1, h2]

theorem allSome_map_some (pre : List (List Int)) : allSome (pre.map some) = some pre.flatten := by
  induction pre with
  | nil => rfl
  | cons v r ih => simp [allSome, ih]

theorem set_at_length {α : Type} (l : List α) (x y : α) (r : List α) :
    (l ++ x :: r).set l.length y = l ++ y :: r := by
  induction l with
  | nil => rfl
  | cons a l ih => simp [ih]

theorem waFinish_run (sigs : List Sig) : ∀ (pre : List (List Int)) (w : Cell), w.latch = false → w.err = none →
    w.slots = pre.map some ++ List.replicate sigs.length none →
    waFinish true (waRun pre.length w sigs) = some (joinAux pre.flatten sigs) := by
  induction sigs with
  | nil =>
    intro pre w hl _ hs
    simp [waRun, waFinish, hl, hs, allSome_map_some, joinAux]
  | cons sig r ih =>
    intro pre w hl he hs
    simp only [waRun]
    cases sig with
    | value vs =>
      have h1 : (waDec (waStep pre.length w (.value vs))).latch = false := by
        simp [waStep, waDec, hl]
      have h2 : (waDec (waStep pre.length w (.value vs))).slots =
          (pre ++ [vs]).map some ++ List.replicate r.length none := by
        simp only [waStep, waDec, hl, hs, List.length_cons, List.replicate_succ]
        have := set_at_length (pre.map some) none (some vs) (List.replicate r.length none)
        simp only [List.length_map] at this
        simp [this]
      have h3 : (waDec (waStep pre.length w (.value vs))).err = none := by
        simp [waStep, waDec, hl, he]
      have := ih (pre ++ [vs]) _ h1 h3 h2
      simp only [List.length_append, List.length_cons, List.length_nil] at this
      rw [this]
      simp [joinAux]
    | error e =>
      rw [waFinish_latched _ _ _ _ (by simp [waStep, waDec, hl])]
      simp [waStep, waDec, waFinish, hl, joinAux]
    | stopped =>
      rw [waFinish_latched _ _ _ _ (by simp [waStep, waDec])]
      simp [waStep, waDec, waFinish, he, joinAux]

theorem waFinish_init (sigs : List Sig) (n : Nat) (hn : n = sigs.length) :
    waFinish true (waRun 0 { remaining := n, slots := List.replicate n none } sigs) =
      some (join sigs) := by
  subst hn
  have := waFinish_run sigs [] { remaining := sigs.length, slots := List.replicate sigs.length none }
    rfl rfl (by simp)
  simpa [join] using this

theorem denotes_length (cs : List Term) (env : List Int) : (denotes cs env).length = cs.length := by
  induction cs with
  | nil => simp [denotes]
  | cons c cs ih => simp [denotes, ih]

/-! ### Stopped-free terms (for the pinned code variant) -/

mutual
/-- No `stop` leaf and no scheduler completing with stopped: such a pipeline can never complete
    with `set_stopped`. -/
def stoppedFree : Term → Bool
  | .just _ => true
  | .err _ => true
  | .stop => false
  | .arg => true
  | .thn _ p => stoppedFree p
  | .lv _ p b => stoppedFree p && stoppedFree b
  | .le _ p b => stoppedFree p && stoppedFree b
  | .dv p => stoppedFree p
  | .un p => stoppedFree p
  | .co sc p => decide (sc ≠ .s) && stoppedFree p
  | .tj sc _ => decide (sc ≠ .s)
  | .wa c cs => stoppedFree c && stoppedFrees cs
  | .wv cs => stoppedFrees cs
  | .sp p => stoppedFree p
  | .es p => stoppedFree p
  | .st _ p => stoppedFree p
  | .bulk _ _ p => stoppedFree p
  | .rs p => stoppedFree p
  | .dos p => stoppedFree p
  | .sd sc => decide (sc ≠ .s)
def stoppedFrees : List Term → Bool
  | [] => true
  | c :: cs => stoppedFree c && stoppedFrees cs
end

theorem applySch_ns (sc : Sch) (h : sc ≠ .s) (sig : Sig) (hs : sig ≠ .stopped) :
    applySch sc sig ≠ .stopped := by
  cases sig <;> cases sc <;> simp_all [applySch]

theorem applyThen_ns (f : Fn) (sig : Sig) (hs : sig ≠ .stopped) : applyThen f sig ≠ .stopped := by
  cases sig <;> simp_all [applyThen]
  split <;> simp

theorem applyBulk_ns (n : Nat) (f : Fn) (sig : Sig) (hs : sig ≠ .stopped) :
    applyBulk n f sig ≠ .stopped := by
  cases sig <;> simp_all [applyBulk]
  split <;> simp

theorem joinAux_ns (l : List Sig) (h : ∀ x, x ∈ l → x ≠ .stopped) : ∀ acc, joinAux acc l ≠ .stopped := by
  induction l with
  | nil => intro acc; simp [joinAux]
  | cons x r ih =>
    intro acc
    cases x with
    | value vs => simp only [joinAux]; exact ih (fun y hy => h y (List.mem_cons_of_mem _ hy)) _
    | error e => simp [joinAux]
    | stopped => exact absurd rfl (h .stopped (List.mem_cons_self))

/-- A stopped-free term never denotes stopped. -/
theorem denote_ns : ∀ t : Term, stoppedFree t = true → ∀ env, denote t env ≠ .stopped
  | .just _, _, _ => by simp [denote]
  | .err _, _, _ => by simp [denote]
  | .stop, h, _ => by simp [stoppedFree] at h
  | .arg, _, _ => by simp [denote]
  | .thn f p, h, env => by
    simp only [stoppedFree] at h
    simp only [denote]; exact applyThen_ns f _ (denote_ns p h env)
  | .lv f p b, h, env => by
    simp only [stoppedFree, Bool.and_eq_true] at h
    have hp := denote_ns p h.1 env
    simp only [denote]
    cases hd : denote p env with
    | value vs =>
      simp only
      cases f.apply vs with
      | ok r => exact denote_ns b h.2 r
      | error e => simp
    | error e => simp
    | stopped => exact absurd hd hp
  | .le f p b, h, env => by
    simp only [stoppedFree, Bool.and_eq_true] at h
    have hp := denote_ns p h.1 env
    simp only [denote]
    cases hd : denote p env with
    | error e =>
      simp only
      cases f.apply [e] with
      | ok r => exact denote_ns b h.2 r
      | error e => simp
    | value vs => simp
    | stopped => exact absurd hd hp
  | .dv p, h, env => by
    simp only [stoppedFree] at h
    have hp := denote_ns p h env
    simp only [denote]
    cases hd : denote p env <;> simp_all
  | .un p, h, env => by
    simp only [stoppedFree] at h
    simp only [denote]; exact denote_ns p h env
  | .co sc p, h, env => by
    simp only [stoppedFree, Bool.and_eq_true, decide_eq_true_eq] at h
    simp only [denote]; exact applySch_ns sc h.1 _ (denote_ns p h.2 env)
  | .tj sc vs, h, env => by
    simp only [stoppedFree, decide_eq_true_eq] at h
    simp only [denote]; exact applySch_ns sc h _ (by simp)
  | .sd sc, h, env => by
    simp only [stoppedFree, decide_eq_true_eq] at h
    simp only [denote]; exact applySch_ns sc h _ (by simp)
  | .wa c cs, h, env => by
    simp only [stoppedFree, Bool.and_eq_true] at h
    simp only [denote, join]
    apply joinAux_ns
    intro x hx
    rcases List.mem_cons.mp hx with hx | hx
    · rw [hx]; exact denote_ns c h.1 env
    · exact denotes_ns cs h.2 env x hx
  | .wv cs, h, env => by
    simp only [stoppedFree] at h
    simp only [denote, join]
    exact joinAux_ns _ (denotes_ns cs h env) _
  | .sp p, h, env => by
    simp only [stoppedFree] at h
    simp only [denote]; exact denote_ns p h env
  | .es p, h, env => by
    simp only [stoppedFree] at h
    simp only [denote]; exact denote_ns p h env
  | .rs p, h, env => by
    simp only [stoppedFree] at h
    simp only [denote]; exact denote_ns p h env
  | .dos p, h, env => by
    simp only [stoppedFree] at h
    simp only [denote]; exact denote_ns p h env
  | .st i p, h, env => by
    simp only [stoppedFree] at h
    have hp := denote_ns p h env
    simp only [denote]
    cases hd : denote p env <;> simp_all
  | .bulk n f p, h, env => by
    simp only [stoppedFree] at h
    simp only [denote]; exact applyBulk_ns n f _ (denote_ns p h env)
where
  denotes_ns : ∀ cs : List Term, stoppedFrees cs = true → ∀ env x, x ∈ denotes cs env → x ≠ .stopped
  | [], _, _, x, hx => by simp [denotes] at hx
  | c :: cs, h, env, x, hx => by
    simp only [stoppedFrees, Bool.and_eq_true] at h
    simp only [denotes] at hx
    rcases List.mem_cons.mp hx with hx | hx
    · rw [hx]; exact denote_ns c h.1 env
    · exact denotes_ns cs h.2 env x hx

/-- The code variant handles the term: either it is the repaired tree, or the term can never
    complete with stopped (the only completion the pinned `split` / `split_tuple` mishandle). -/
def Good (cfg : Cfg) (t : Term) : Prop := cfg.ok = true ∨ stoppedFree t = true
def GoodL (cfg : Cfg) (cs : List Term) : Prop := cfg.ok = true ∨ stoppedFrees cs = true

theorem storeR_ns (flag : Bool) (a : Nat) (sig : Sig) (s : M) (h : flag = true ∨ sig ≠ .stopped) :
    storeR flag a sig s = storeR true a sig s := by
  rcases h with h | h
  · rw [h]
  · cases sig <;> simp_all [storeR]

/-! ### The receiver contract, by structural induction over terms -/

/-- The statement for one term: whatever receiver is connected and whatever the machine state,
    `start` ends by calling the receiver once with the denoted signal. -/
def Spec (cfg : Cfg) (t : Term) : Prop :=
  ∀ (env : List Int) (k : Rc) (s : M), s.aborted = false → s.released = false → Fresh s →
    ∃ s', start cfg t env k s = k (denote t env) s' ∧ Ext s.next s s'

/-- The statement for the tail of a `when_all` start loop that has just delivered `sig` from
    predecessor `i` to the operation state at `a`. -/
def SpecAll (cfg : Cfg) (cs : List Term) : Prop :=
  ∀ (env : List Int) (sd : Bool) (a : Nat) (k : Rc) (i : Nat) (sig : Sig) (s : M),
    s.aborted = false → s.released = false → Fresh s → a < s.next → s.freed a = false →
    (s.cells a).remaining = cs.length + 1 →
    ∃ s', startAll cfg cs env (fun j => waR sd a j k) a (i + 1) (waR sd a i k sig s) =
        deliver (waFinish sd (waRun i (s.cells a) (sig :: denotes cs env))) k s' ∧ Ext a s s'

theorem specAll_nil (cfg : Cfg) : SpecAll cfg [] := by
  intro env sd a k i sig s ha hr _ _ hfa hrem
  refine ⟨setCell a (waDec (waStep i (s.cells a) sig)) s, ?_, Ext.setCell _ _ _ ha hr⟩
  have h0 : (waStep i (s.cells a) sig).remaining - 1 = 0 := by
    cases sig <;> simp [waStep] <;> (try split) <;> simp_all
  simp only [startAll, waR, touch_id hr hfa, denotes, waRun, waDec, h0, if_true]

theorem specAll_cons (cfg : Cfg) (c : Term) (cs : List Term) (hc : Spec cfg c)
    (hcs : SpecAll cfg cs) : SpecAll cfg (c :: cs) := by
  intro env sd a k i sig s ha hr hF hlt hfa hrem
  -- the receiver call: counter does not reach zero
  let w' := waDec (waStep i (s.cells a) sig)
  have hw' : w'.remaining = cs.length + 1 := by
    show (waStep i (s.cells a) sig).remaining - 1 = cs.length + 1
    have : (waStep i (s.cells a) sig).remaining = (s.cells a).remaining := by
      cases sig <;> simp [waStep] <;> (try split) <;> simp_all
    rw [this, hrem]; simp
  have hne : ¬ (w'.remaining = 0) := by omega
  have e1 : waR sd a i k sig s = setCell a w' s := by
    simp only [waR, touch_id hr hfa]
    show (if w'.remaining = 0 then _ else setCell a w' s) = _
    rw [if_neg hne]
  have x1 : Ext a s (setCell a w' s) := Ext.setCell _ _ _ ha hr
  -- the next predecessor
  have hfa1 : (setCell a w' s).freed a = false := hfa
  obtain ⟨s2, e2, x2⟩ := hc env (waR sd a (i + 1) k) (setCell a w' s) x1.aborted x1.released (x1.fresh hF)
  have hlt1 : a < (setCell a w' s).next := hlt
  have hfa2 : s2.freed a = false := by rw [x2.freed a hlt1]; exact hfa
  have hcell2 : s2.cells a = w' := by
    have hs : (setCell a w' s).cells a = w' := by simp [setCell]
    by_cases hx : a = (setCell a w' s).next
    · omega
    · rw [x2.cells a hlt1 hx, hs]
  obtain ⟨s3, e3, x3⟩ := hcs env sd a k (i + 1) (denote c env) s2 x2.aborted x2.released
    (x2.fresh (x1.fresh hF)) (Nat.lt_of_lt_of_le hlt1 x2.next) hfa2 (by rw [hcell2, hw'])
  refine ⟨s3, ?_, x1.trans ((x2.weaken a (Nat.le_refl _)).trans x3)⟩
  rw [e1]
  simp only [startAll, touch_id x1.released hfa1]
  rw [e2, e3, hcell2]
  simp only [denotes, waRun]
  rfl

def toStored : Sig → Stored
  | .value vs => .value vs
  | .error e => .error e
  | .stopped => .stopped

theorem storeR_eq (a : Nat) (sig : Sig) (s : M) (hr : s.released = false) (hfa : s.freed a = false)
    (hcell : s.cells a = {}) :
    storeR true a sig s = setCell a { stored := toStored sig, done := true } s := by
  cases sig <;> simp [storeR, touch_id hr hfa, hcell, toStored]

theorem visit_done (a : Nat) (sel : List Int → List Int) (k : Rc) (s : M) (ha : s.aborted = false)
    (hr : s.released = false) (hfa : s.freed a = false) (hd : (s.cells a).done = true) :
    visit a sel k s = match (s.cells a).stored with
      | .mono => abort s
      | .stopped => k .stopped s
      | .error e => k (.error e) s
      | .value vs => k (.value (sel vs)) s := by
  simp only [visit, ha, touch_id hr hfa, hd, Bool.false_eq_true, if_false, if_true]
  cases (s.cells a).stored <;> rfl

theorem spec_visit (cfg : Cfg) (p : Term) (flag : Bool) (sel : List Int → List Int)
    (hflag : flag = true ∨ ∀ env, denote p env ≠ .stopped) (hp : Spec cfg p) (env : List Int) (k : Rc) (s : M)
    (ha : s.aborted = false) (hr : s.released = false) (hF : Fresh s) :
    ∃ s', visit s.next sel k (start cfg p env (storeR flag s.next) (alloc {} s)) =
        k (match denote p env with | .value vs => .value (sel vs) | o => o) s' ∧ Ext s.next s s' := by
  have x0 := Ext.alloc {} s ha hr
  obtain ⟨s1, e1, x1⟩ := hp env (storeR flag s.next) (alloc {} s) x0.aborted x0.released (x0.fresh hF)
  rw [storeR_ns flag _ _ _ (hflag.imp id (fun h => h env))] at e1
  have hfa : s1.freed s.next = false := own_alive hF x1
  have hcell : s1.cells s.next = {} := by
    have : (alloc {} s).cells s.next = {} := by simp [alloc]
    rw [x1.cells s.next (by simp [alloc]) (by simp [alloc]), this]
  rw [e1, storeR_eq _ _ _ x1.released hfa hcell]
  have x2 := Ext.setCell s.next { stored := toStored (denote p env), done := true } s1
    x1.aborted x1.released
  refine ⟨_, ?_, x0.trans ((x1.weaken s.next (by simp [alloc])).trans x2)⟩
  rw [visit_done _ _ _ _ x2.aborted x2.released (by simpa [setCell] using hfa) (by simp [setCell])]
  cases denote p env <;> simp [setCell, toStored]

theorem schedR_value (sc : Sch) (a : Nat) (k : Rc) (vs : List Int) (s : M) (ha : s.aborted = false)
    (hr : s.released = false) (hfa : s.freed a = false) :
    ∃ s', schedR sc a k (.value vs) s = k (applySch sc (.value vs)) s' ∧ Ext a s s' := by
  refine ⟨setCell a { s.cells a with stored := .value vs } s, ?_, Ext.setCell _ _ _ ha hr⟩
  have h2 : touch a (setCell a { s.cells a with stored := .value vs } s) =
      setCell a { s.cells a with stored := .value vs } s := touch_id hr hfa
  cases sc <;> simp only [schedR, touch_id hr hfa, applySch, h2] <;> simp [setCell]

theorem spec_fwd (cfg : Cfg) (p : Term) (c : Cell) (hp : Spec cfg p) (env : List Int) (k : Rc) (s : M)
    (ha : s.aborted = false) (hr : s.released = false) (hF : Fresh s) :
    ∃ s', start cfg p env (fwdR s.next k) (alloc c s) = k (denote p env) s' ∧ Ext s.next s s' := by
  have x0 := Ext.alloc c s ha hr
  obtain ⟨s1, e1, x1⟩ := hp env (fwdR s.next k) (alloc c s) x0.aborted x0.released (x0.fresh hF)
  refine ⟨s1, ?_, x0.trans (x1.weaken s.next (by simp [alloc]))⟩
  rw [e1]; simp only [fwdR, touch_id x1.released (own_alive hF x1)]

/-- `drop_operation_state`: the predecessor's operation states are destroyed inside the
    completion call, then the signal is forwarded; nothing allocated before is affected. -/
theorem spec_dos (cfg : Cfg) (p : Term) (hp : Spec cfg p) (env : List Int) (k : Rc) (s : M)
    (ha : s.aborted = false) (hr : s.released = false) (hF : Fresh s) :
    ∃ s', start cfg p env (dropOpR s.next k) (alloc {} s) = k (denote p env) s' ∧ Ext s.next s s' ∧
      (∀ a, s.next < a → a < s'.next → s'.freed a = true) ∧ s'.freed s.next = false := by
  have x0 := Ext.alloc {} s ha hr
  obtain ⟨s1, e1, x1⟩ := hp env (dropOpR s.next k) (alloc {} s) x0.aborted x0.released (x0.fresh hF)
  have x01 := x0.trans (x1.weaken s.next (by simp [alloc]))
  refine ⟨freeRange (s.next + 1) s1.next s1, ?_, ?_, ?_, ?_⟩
  · rw [e1]; simp only [dropOpR, touch_id x1.released (own_alive hF x1)]
  · refine ⟨x01.aborted, x01.released, x01.uaf, x01.log, x01.next, x01.cells, ?_, ?_⟩
    · intro a h
      show ((decide (s.next + 1 ≤ a) && decide (a < s1.next)) || s1.freed a) = s.freed a
      have : ¬ (s.next + 1 ≤ a) := by omega
      simp [this, x01.freed a h]
    · intro hf a h
      show ((decide (s.next + 1 ≤ a) && decide (a < s1.next)) || s1.freed a) = false
      have h' : s1.next ≤ a := h
      have : ¬ (a < s1.next) := by omega
      simp [this, x01.fresh hf a h']
  · intro a h1 h2
    show ((decide (s.next + 1 ≤ a) && decide (a < s1.next)) || s1.freed a) = true
    have h2' : a < s1.next := h2
    have : s.next + 1 ≤ a := h1
    simp [this, h2']
  · show ((decide (s.next + 1 ≤ s.next) && decide (s.next < s1.next)) || s1.freed s.next) = false
    have : ¬ (s.next + 1 ≤ s.next) := by omega
    simp [own_alive hF x1, this]

theorem good_of {cfg : Cfg} {t t' : Term} (hg : Good cfg t)
    (h : stoppedFree t = true → stoppedFree t' = true) : Good cfg t' := hg.imp id h

/-- **Receiver contract** for every term the code variant handles: every term for the repaired
    tree (`cfg.ok`), every stopped-free term for the pinned tree. -/
theorem specG (cfg : Cfg) (hw : cfg.wvSendsDone = true) : ∀ t : Term, Good cfg t → Spec cfg t
  | .just vs, _ => fun env k s ha hr hF => ⟨s, by simp [start, ha, denote], Ext.refl _ _ ha hr⟩
  | .err e, _ => fun env k s ha hr hF => ⟨s, by simp [start, ha, denote], Ext.refl _ _ ha hr⟩
  | .stop, _ => fun env k s ha hr hF => ⟨s, by simp [start, ha, denote], Ext.refl _ _ ha hr⟩
  | .arg, _ => fun env k s ha hr hF => ⟨s, by simp [start, ha, denote], Ext.refl _ _ ha hr⟩
  | .sd sc, _ => fun env k s ha hr hF => ⟨s, by simp [start, ha, denote], Ext.refl _ _ ha hr⟩
  | .thn f p, hg => fun env k s ha hr hF => by
    obtain ⟨s1, e1, x1⟩ := specG cfg hw p (good_of hg (by simp [stoppedFree])) env (thenR f k) s ha hr hF
    exact ⟨s1, by simp [start, ha, denote, e1, thenR], x1⟩
  | .bulk n f p, hg => fun env k s ha hr hF => by
    obtain ⟨s1, e1, x1⟩ := specG cfg hw p (good_of hg (by simp [stoppedFree])) env (bulkR n f k) s ha hr hF
    exact ⟨s1, by simp [start, ha, denote, e1, bulkR], x1⟩
  | .rs p, hg => fun env k s ha hr hF => by
    obtain ⟨s1, e1, x1⟩ := spec_fwd cfg p { done := true }
      (specG cfg hw p (good_of hg (by simp [stoppedFree]))) env k s ha hr hF
    exact ⟨s1, by simp [start, ha, denote, e1], x1⟩
  | .dos p, hg => fun env k s ha hr hF => by
    obtain ⟨s1, e1, x1, _, _⟩ := spec_dos cfg p
      (specG cfg hw p (good_of hg (by simp [stoppedFree]))) env k s ha hr hF
    exact ⟨s1, by simp [start, ha, denote, e1], x1⟩
  | .dv p, hg => fun env k s ha hr hF => by
    obtain ⟨s1, e1, x1⟩ := specG cfg hw p (good_of hg (by simp [stoppedFree])) env (dropR k) s ha hr hF
    refine ⟨s1, ?_, x1⟩
    simp only [start, ha, denote, e1, dropR]
    cases denote p env <;> simp
  | .un p, hg => fun env k s ha hr hF => by
    obtain ⟨s1, e1, x1⟩ := specG cfg hw p (good_of hg (by simp [stoppedFree])) env (unR k) s ha hr hF
    refine ⟨s1, ?_, x1⟩
    simp only [start, ha, denote, e1, unR]
    cases denote p env <;> simp
  | .lv f p b, hg => fun env k s ha hr hF => by
    have hgp : Good cfg p := good_of hg (by simp only [stoppedFree, Bool.and_eq_true]; exact fun h => h.1)
    have hgb : Good cfg b := good_of hg (by simp only [stoppedFree, Bool.and_eq_true]; exact fun h => h.2)
    obtain ⟨s1, e1, x1⟩ := specG cfg hw p hgp env _ s ha hr hF
    simp only [start, ha, denote, Bool.false_eq_true, if_false]
    rw [e1]
    cases hd : denote p env with
    | value vs =>
      cases hf : f.apply vs with
      | ok r =>
        obtain ⟨s2, e2, x2⟩ := specG cfg hw b hgb r k s1 x1.aborted x1.released (x1.fresh hF)
        exact ⟨s2, by simp [hf, e2], x1.trans (x2.weaken _ (Nat.le_refl _))⟩
      | error e => exact ⟨s1, by simp [hf], x1⟩
    | error e => exact ⟨s1, by simp, x1⟩
    | stopped => exact ⟨s1, by simp, x1⟩
  | .le f p b, hg => fun env k s ha hr hF => by
    have hgp : Good cfg p := good_of hg (by simp only [stoppedFree, Bool.and_eq_true]; exact fun h => h.1)
    have hgb : Good cfg b := good_of hg (by simp only [stoppedFree, Bool.and_eq_true]; exact fun h => h.2)
    obtain ⟨s1, e1, x1⟩ := specG cfg hw p hgp env _ s ha hr hF
    simp only [start, ha, denote, Bool.false_eq_true, if_false]
    rw [e1]
    cases hd : denote p env with
    | error e =>
      cases hf : f.apply [e] with
      | ok r =>
        obtain ⟨s2, e2, x2⟩ := specG cfg hw b hgb r k s1 x1.aborted x1.released (x1.fresh hF)
        exact ⟨s2, by simp [hf, e2], x1.trans (x2.weaken _ (Nat.le_refl _))⟩
      | error e' => exact ⟨s1, by simp [hf], x1⟩
    | value vs => exact ⟨s1, by simp, x1⟩
    | stopped => exact ⟨s1, by simp, x1⟩
  | .co sc p, hg => fun env k s ha hr hF => by
    have hgp : Good cfg p := good_of hg (by simp only [stoppedFree, Bool.and_eq_true]; exact fun h => h.2)
    have x0 := Ext.alloc {} s ha hr
    obtain ⟨s1, e1, x1⟩ := specG cfg hw p hgp env (schedR sc s.next k) (alloc {} s) x0.aborted x0.released (x0.fresh hF)
    have hfa : s1.freed s.next = false := own_alive hF x1
    simp only [start, ha, denote, Bool.false_eq_true, if_false]
    rw [e1]
    have x01 := x0.trans (x1.weaken s.next (by simp [alloc]))
    cases hd : denote p env with
    | value vs =>
      obtain ⟨s2, e2, x2⟩ := schedR_value sc s.next k vs s1 x1.aborted x1.released hfa
      exact ⟨s2, e2, x01.trans x2⟩
    | error e => exact ⟨s1, by simp [schedR, applySch, touch_id x1.released hfa], x01⟩
    | stopped => exact ⟨s1, by simp [schedR, applySch, touch_id x1.released hfa], x01⟩
  | .tj sc vs, _ => fun env k s ha hr hF => by
    have x0 := Ext.alloc {} s ha hr
    simp only [start, ha, denote, Bool.false_eq_true, if_false]
    obtain ⟨s2, e2, x2⟩ := schedR_value sc s.next k vs (alloc {} s) x0.aborted x0.released
      (hF s.next (Nat.le_refl _))
    exact ⟨s2, e2, x0.trans x2⟩
  | .sp p, hg => fun env k s ha hr hF => by
    have hgp : Good cfg p := good_of hg (by simp [stoppedFree])
    have hf : cfg.splitStoresStopped = true ∨ ∀ env, denote p env ≠ .stopped := by
      rcases hg with hc | hs
      · left; simp [Cfg.ok] at hc; exact hc.1.1
      · right; exact denote_ns p (by simpa [stoppedFree] using hs)
    obtain ⟨s1, e1, x1⟩ := spec_visit cfg p _ (fun v => v) hf (specG cfg hw p hgp) env k s ha hr hF
    refine ⟨s1, ?_, x1⟩
    simp only [start, ha, denote, Bool.false_eq_true, if_false]
    rw [e1]; cases denote p env <;> rfl
  | .es p, hg => fun env k s ha hr hF => by
    have hgp : Good cfg p := good_of hg (by simp [stoppedFree])
    obtain ⟨s1, e1, x1⟩ := spec_visit cfg p _ (fun v => v) (Or.inl rfl) (specG cfg hw p hgp) env k s ha hr hF
    refine ⟨s1, ?_, x1⟩
    simp only [start, ha, denote, Bool.false_eq_true, if_false]
    rw [e1]; cases denote p env <;> rfl
  | .st i p, hg => fun env k s ha hr hF => by
    have hgp : Good cfg p := good_of hg (by simp [stoppedFree])
    have hf : cfg.tupleStoresStopped = true ∨ ∀ env, denote p env ≠ .stopped := by
      rcases hg with hc | hs
      · left; simp [Cfg.ok] at hc; exact hc.1.2
      · right; exact denote_ns p (by simpa [stoppedFree] using hs)
    obtain ⟨s1, e1, x1⟩ := spec_visit cfg p _ (pick i) hf (specG cfg hw p hgp) env k s ha hr hF
    refine ⟨s1, ?_, x1⟩
    simp only [start, ha, denote, Bool.false_eq_true, if_false]
    rw [e1]; cases denote p env <;> rfl
  | .wa c cs, hg => fun env k s ha hr hF => by
    have hgc : Good cfg c := good_of hg (by simp only [stoppedFree, Bool.and_eq_true]; exact fun h => h.1)
    have hgs : GoodL cfg cs := hg.imp id (by simp only [stoppedFree, Bool.and_eq_true]; exact fun h => h.2)
    have x0 := Ext.alloc { remaining := cs.length + 1, slots := List.replicate (cs.length + 1) none } s ha hr
    obtain ⟨s1, e1, x1⟩ := specG cfg hw c hgc env (waR true s.next 0 k) _ x0.aborted x0.released (x0.fresh hF)
    have hfa : s1.freed s.next = false := own_alive hF x1
    have hcell : s1.cells s.next = { remaining := cs.length + 1, slots := List.replicate (cs.length + 1) none } := by
      rw [x1.cells s.next (by simp [alloc]) (by simp [alloc])]; simp [alloc]
    obtain ⟨s2, e2, x2⟩ := specAll cfg hw cs hgs env true s.next k 0 (denote c env) s1 x1.aborted
      x1.released (x1.fresh (x0.fresh hF)) (Nat.lt_of_lt_of_le (by simp [alloc]) x1.next) hfa (by rw [hcell])
    refine ⟨s2, ?_, x0.trans ((x1.weaken s.next (by simp [alloc])).trans x2)⟩
    simp only [start, ha, denote, Bool.false_eq_true, if_false,
      touch_id x0.released (show (alloc _ s).freed s.next = false from hF s.next (Nat.le_refl _))]
    rw [e1, e2, hcell, waFinish_init _ _ (by simp [denotes_length])]
    rfl
  | .wv [], _ => fun env k s ha hr hF => ⟨s, by simp [start, ha, denote, denotes, join, joinAux], Ext.refl _ _ ha hr⟩
  | .wv (c :: cs), hg => fun env k s ha hr hF => by
    have hgc : Good cfg c := good_of hg (by simp only [stoppedFree, stoppedFrees, Bool.and_eq_true]; exact fun h => h.1)
    have hgs : GoodL cfg cs := hg.imp id (by simp only [stoppedFree, stoppedFrees, Bool.and_eq_true]; exact fun h => h.2)
    have x0 := Ext.alloc { remaining := cs.length + 1, slots := List.replicate (cs.length + 1) none } s ha hr
    obtain ⟨s1, e1, x1⟩ := specG cfg hw c hgc env (waR true s.next 0 k) _ x0.aborted x0.released (x0.fresh hF)
    have hfa : s1.freed s.next = false := own_alive hF x1
    have hcell : s1.cells s.next = { remaining := cs.length + 1, slots := List.replicate (cs.length + 1) none } := by
      rw [x1.cells s.next (by simp [alloc]) (by simp [alloc])]; simp [alloc]
    obtain ⟨s2, e2, x2⟩ := specAll cfg hw cs hgs env true s.next k 0 (denote c env) s1 x1.aborted
      x1.released (x1.fresh (x0.fresh hF)) (Nat.lt_of_lt_of_le (by simp [alloc]) x1.next) hfa (by rw [hcell])
    refine ⟨s2, ?_, x0.trans ((x1.weaken s.next (by simp [alloc])).trans x2)⟩
    simp only [start, ha, denote, Bool.false_eq_true, if_false, List.isEmpty_cons, hw, startAll,
      touch_id x0.released (show (alloc _ s).freed s.next = false from hF s.next (Nat.le_refl _)),
      List.length_cons]
    rw [e1, e2, hcell, waFinish_init _ _ (by simp [denotes_length])]
    rfl
where
  specAll (cfg : Cfg) (hw : cfg.wvSendsDone = true) : ∀ cs : List Term, GoodL cfg cs → SpecAll cfg cs
  | [], _ => specAll_nil cfg
  | c :: cs, hg =>
    specAll_cons cfg c cs
      (specG cfg hw c (hg.imp id (by simp only [stoppedFrees, Bool.and_eq_true]; exact fun h => h.1)))
      (specAll cfg hw cs (hg.imp id (by simp only [stoppedFrees, Bool.and_eq_true]; exact fun h => h.2)))

/-- **Receiver contract** for every term of the language (code variant `cfg.ok`). -/
theorem spec (cfg : Cfg) (hc : cfg.ok = true) (t : Term) : Spec cfg t :=
  specG cfg (by simp [Cfg.ok] at hc; exact hc.2) t (Or.inl hc)

end PikaVerif.Snd
