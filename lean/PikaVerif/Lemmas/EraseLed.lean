import PikaVerif.Lemmas.EraseEv
/-! The event trace of the model is accepted by the ledger acceptor `ledStep` (no use after destruction,
    no double destruction, ids in construction order) — at every point of every history. -/
set_option linter.unusedVariables false
namespace PikaVerif.Erase
open PikaVerif

/-- ledger acceptor over the raw event trace: ids are constructed in order, copy/move sources,
    connected objects and destroyed objects are alive, nothing is destroyed twice -/
structure Led where
  next : Nat
  dt : Nat → Nat

def ledStep (l : Led) : LEv → Option Led
  | .C i _ => if i = l.next then some { l with next := l.next + 1 } else none
  | .K i s => if i = l.next ∧ s < l.next ∧ l.dt s = 0 then some { l with next := l.next + 1 } else none
  | .M i s => if i = l.next ∧ s < l.next ∧ l.dt s = 0 then some { l with next := l.next + 1 } else none
  | .D i => if i < l.next ∧ l.dt i = 0 then some { l with dt := upd l.dt i (l.dt i + 1) } else none
  | .X i => if i < l.next ∧ l.dt i = 0 then some l else none
  | .L i => if i < l.next ∧ l.dt i = 0 then some l else none
  | .F i => if i < l.next ∧ l.dt i = 0 then some l else none

def ledOf (s : St) : Led := { next := s.next, dt := s.dtor }

theorem led_eq (a b : Led) (h1 : a.next = b.next) (h2 : ∀ i, a.dt i = b.dt i) : a = b := by
  cases a; cases b; simp only at h1 h2; subst h1; have := funext h2; subst this; rfl

theorem ite_bind {α β : Type} (c : Prop) [Decidable c] (a : α) (f : α → Option β) :
    (if c then some a else none).bind f = if c then f a else none := by
  split <;> rfl

theorem ledStep_inEv (l : Led) (cp : Bool) (b a : Nat) :
    ledStep l (inEv cp b a) =
      if b = l.next ∧ a < l.next ∧ l.dt a = 0 then some { l with next := l.next + 1 } else none := by
  cases cp <;> simp [inEv, ledStep]

theorem held_alive {c : Cfg} {s : St} (hi : Inv c s) (i : Nat) (o : Obj) (h : (s.slot i).obj = some o) :
    o.id < s.next ∧ s.dtor o.id = 0 := by
  have h1 := hi.ownB i o h
  have h2 := hi.ownLt o.id i h1
  have h3 := hi.dtorI o.id
  simp [h1] at h3
  exact ⟨h2, h3⟩

theorem fresh_dtor {c : Cfg} {s : St} (hi : Inv c s) (k : Nat) (h : s.next ≤ k) : s.dtor k = 0 := by
  have := hi.dtorI k
  have hk : ¬ k < s.next := by omega
  simp [hk] at this
  exact this

set_option hygiene false in
macro "led_step" : tactic => `(tactic| (
  have ha := @held_alive c s hi
  have hf := @fresh_dtor c s hi
  have hnd := hi.ownB
  simp only [exec, execStore, inval, St.put, St.die, St.dieO, St.own, St.ownO, St.born, St.leak, St.tick,
    Slot.dead, Slot.emptyW, ledOf]
  repeat' split
  all_goals (try simp only [*])
  all_goals simp only [dEv, inEv, Bool.false_eq_true, if_true, if_false, List.cons_append, List.nil_append, runLog_cons, runLog_nil, ledStep, ite_bind,
    Option.bind_some, Option.bind_none]
  all_goals (repeat' split)
  all_goals first
    | rfl
    | (simp only [Option.some.injEq]; apply led_eq <;> (try intro k) <;> simp only [upd] <;> grind)
    | (exfalso; grind [upd])))

theorem led_set (c : Cfg) (s : St) (hs : c.sbo = false) (hp : c.pinned = false) (hi : Inv c s) (i : Nat) (ty : PTy) (v : Int) (cp : Bool) :
    runLog ledStep (ledOf s) (exec c s (.set i ty v cp)).evs = some (ledOf (exec c s (.set i ty v cp)).st) := by
  cases cp <;> led_step
theorem led_del (c : Cfg) (s : St) (hs : c.sbo = false) (hp : c.pinned = false) (hi : Inv c s) (i : Nat) :
    runLog ledStep (ledOf s) (exec c s (.del i)).evs = some (ledOf (exec c s (.del i)).st) := by
  led_step
theorem led_new (c : Cfg) (s : St) (hs : c.sbo = false) (hp : c.pinned = false) (hi : Inv c s) (i : Nat) :
    runLog ledStep (ledOf s) (exec c s (.new i)).evs = some (ledOf (exec c s (.new i)).st) := by
  led_step
theorem led_newp (c : Cfg) (s : St) (hs : c.sbo = false) (hp : c.pinned = false) (hi : Inv c s) (i : Nat) (ty : PTy) (v : Int) (cp : Bool) :
    runLog ledStep (ledOf s) (exec c s (.newp i ty v cp)).evs = some (ledOf (exec c s (.newp i ty v cp)).st) := by
  cases cp <;> led_step
theorem led_reset (c : Cfg) (s : St) (hs : c.sbo = false) (hp : c.pinned = false) (hi : Inv c s) (i : Nat) :
    runLog ledStep (ledOf s) (exec c s (.reset i)).evs = some (ledOf (exec c s (.reset i)).st) := by
  led_step
theorem led_copy (c : Cfg) (s : St) (hs : c.sbo = false) (hp : c.pinned = false) (hi : Inv c s) (i j : Nat) :
    runLog ledStep (ledOf s) (exec c s (.copy i j)).evs = some (ledOf (exec c s (.copy i j)).st) := by
  led_step
theorem led_move (c : Cfg) (s : St) (hs : c.sbo = false) (hp : c.pinned = false) (hi : Inv c s) (i j : Nat) :
    runLog ledStep (ledOf s) (exec c s (.move i j)).evs = some (ledOf (exec c s (.move i j)).st) := by
  led_step
theorem led_cctor (c : Cfg) (s : St) (hs : c.sbo = false) (hp : c.pinned = false) (hi : Inv c s) (i j : Nat) :
    runLog ledStep (ledOf s) (exec c s (.cctor i j)).evs = some (ledOf (exec c s (.cctor i j)).st) := by
  led_step
theorem led_mctor (c : Cfg) (s : St) (hs : c.sbo = false) (hp : c.pinned = false) (hi : Inv c s) (i j : Nat) :
    runLog ledStep (ledOf s) (exec c s (.mctor i j)).evs = some (ledOf (exec c s (.mctor i j)).st) := by
  led_step
theorem led_swap (c : Cfg) (s : St) (hs : c.sbo = false) (hp : c.pinned = false) (hi : Inv c s) (i j : Nat) :
    runLog ledStep (ledOf s) (exec c s (.swap i j)).evs = some (ledOf (exec c s (.swap i j)).st) := by
  led_step
theorem led_empty (c : Cfg) (s : St) (hs : c.sbo = false) (hp : c.pinned = false) (hi : Inv c s) (i : Nat) :
    runLog ledStep (ledOf s) (exec c s (.empty i)).evs = some (ledOf (exec c s (.empty i)).st) := by
  led_step
theorem led_call (c : Cfg) (s : St) (hs : c.sbo = false) (hp : c.pinned = false) (hi : Inv c s) (i : Nat) (x : Int) :
    runLog ledStep (ledOf s) (exec c s (.call i x)).evs = some (ledOf (exec c s (.call i x)).st) := by
  led_step
theorem led_run (c : Cfg) (s : St) (hs : c.sbo = false) (hp : c.pinned = false) (hi : Inv c s) (i : Nat) :
    runLog ledStep (ledOf s) (exec c s (.run i)).evs = some (ledOf (exec c s (.run i)).st) := by
  led_step
theorem led_runc (c : Cfg) (s : St) (hs : c.sbo = false) (hp : c.pinned = false) (hi : Inv c s) (i : Nat) :
    runLog ledStep (ledOf s) (exec c s (.runc i)).evs = some (ledOf (exec c s (.runc i)).st) := by
  led_step
theorem led_arm (c : Cfg) (s : St) (hs : c.sbo = false) (hp : c.pinned = false) (hi : Inv c s) (k : Nat) :
    runLog ledStep (ledOf s) (exec c s (.arm k)).evs = some (ledOf (exec c s (.arm k)).st) := by
  led_step

theorem led_exec (c : Cfg) (s : St) (hs : c.sbo = false) (hp : c.pinned = false) (hi : Inv c s) (op : Op) :
    runLog ledStep (ledOf s) (exec c s op).evs = some (ledOf (exec c s op).st) := by
  cases op with
  | new i => exact led_new c s hs hp hi i
  | newp i ty v cp => exact led_newp c s hs hp hi i ty v cp
  | del i => exact led_del c s hs hp hi i
  | set i ty v cp => exact led_set c s hs hp hi i ty v cp
  | reset i => exact led_reset c s hs hp hi i
  | copy i j => exact led_copy c s hs hp hi i j
  | move i j => exact led_move c s hs hp hi i j
  | cctor i j => exact led_cctor c s hs hp hi i j
  | mctor i j => exact led_mctor c s hs hp hi i j
  | swap i j => exact led_swap c s hs hp hi i j
  | empty i => exact led_empty c s hs hp hi i
  | call i x => exact led_call c s hs hp hi i x
  | run i => exact led_run c s hs hp hi i
  | runc i => exact led_runc c s hs hp hi i
  | arm k => exact led_arm c s hs hp hi k

theorem led_history (c : Cfg) (hs : c.sbo = false) (hp : c.pinned = false) (ops : List Op) : ∀ s, Inv c s →
    runLog ledStep (ledOf s) (((runOps c s ops).2.map (·.2)).flatten) = some (ledOf (finalSt c s ops)) := by
  induction ops with
  | nil => intro s _; rfl
  | cons op ops ih =>
    intro s hi
    simp only [finalSt, runOps_cons, List.map_cons, List.flatten_cons, runLog_append]
    rw [led_exec c s hs hp hi op]
    exact ih _ (exec_inv c s hs hp hi op)

end PikaVerif.Erase
