import PikaVerif.Lemmas.OnceU
/-!
# Finite programs over the event / call_once model; length bound modulo spin rounds (C09u)

`pstep`: the model's `step` restricted to the logs of a program (every thread owns a finite list
of operations; `inv t o` consumes the next one; `done t` needs the list to be empty).
`phi` = `mu` + price of the operations not yet started decreases with every accepted event except
the fast-path return `evLoad _ true`, which raises it by at most 2.  Hence
`log.length ≤ bound + 3 * spins log` (a spin round has three events).
-/
namespace PikaVerif.Once
open PikaVerif

structure PSt where
  s : St
  prog : Nat → List Op
  /-- observation (history variable of the program layer, does not influence acceptance):
      the value each thread's last operation returned -/
  res : Nat → Option Nat

def pstep (p : PSt) (e : Ev) : Option PSt :=
  match e with
  | .inv t o =>
    match p.prog t with
    | o' :: rest =>
      if o' = o then (step p.s (.inv t o)).map (fun s' => ⟨s', upd p.prog t rest, p.res⟩) else none
    | [] => none
  | .done t => if p.prog t = [] then (step p.s (.done t)).map (fun s' => ⟨s', p.prog, p.res⟩) else none
  | .ret t r => (step p.s (.ret t r)).map (fun s' => ⟨s', p.prog, upd p.res t (some r)⟩)
  | e => (step p.s e).map (fun s' => ⟨s', p.prog, p.res⟩)

def pinit (n : Nat) (prog : Nat → List Op) : PSt := ⟨init n, prog, fun _ => none⟩

/-- every accepted program step is an accepted model step -/
theorem pstep_step (p p' : PSt) (e : Ev) (h : pstep p e = some p') : step p.s e = some p'.s := by
  cases e <;> simp only [pstep] at h <;> (repeat' split at h) <;>
    first
    | (simp at h; done)
    | (simp only [Option.map_eq_some_iff] at h; obtain ⟨s', h1, h2⟩ := h; subst h2; simpa using h1)
    | (subst_vars; simp only [Option.map_eq_some_iff] at h; obtain ⟨s', h1, h2⟩ := h; subst h2; simpa using h1)

/-- the program only changes at `inv` -/
theorem pstep_prog (p p' : PSt) (e : Ev) (hne : ∀ t o, e ≠ .inv t o) (h : pstep p e = some p') :
    p'.prog = p.prog := by
  cases e <;> simp only [pstep] at h <;> (repeat' split at h) <;>
    first
    | (simp at h; done)
    | (exact absurd rfl (hne _ _))
    | (simp only [Option.map_eq_some_iff] at h; obtain ⟨s', h1, h2⟩ := h; subst h2; rfl)

/-- the recorded results only change at `ret` -/
theorem pstep_res (p p' : PSt) (e : Ev) (hne : ∀ t r, e ≠ .ret t r) (h : pstep p e = some p') :
    p'.res = p.res := by
  cases e <;> simp only [pstep] at h <;> (repeat' split at h) <;>
    first
    | (simp at h; done)
    | (exact absurd rfl (hne _ _))
    | (simp only [Option.map_eq_some_iff] at h; obtain ⟨s', h1, h2⟩ := h; subst h2; rfl)

theorem pstep_ret (p p' : PSt) (t r : Nat) (h : pstep p (.ret t r) = some p') :
    p'.res = upd p.res t (some r) := by
  simp only [pstep, Option.map_eq_some_iff] at h; obtain ⟨s', h1, h2⟩ := h; subst h2; rfl

theorem pstep_inv (p p' : PSt) (t : Nat) (o : Op) (h : pstep p (.inv t o) = some p') :
    ∃ rest, p.prog t = o :: rest ∧ p'.prog = upd p.prog t rest ∧ t < p.s.n := by
  have hs := pstep_step p p' _ h
  simp only [pstep] at h
  split at h
  · rename_i o' rest hp
    split at h
    · rename_i ho; subst ho
      simp only [Option.map_eq_some_iff] at h; obtain ⟨s', h1, h2⟩ := h; subst h2
      refine ⟨rest, hp, rfl, ?_⟩
      simp only [step] at h1; split at h1
      · rename_i hg; exact hg.1
      · simp at h1
    · simp at h
  · simp at h

theorem pstep_done (p p' : PSt) (t : Nat) (h : pstep p (.done t) = some p') : p.prog t = [] := by
  simp only [pstep] at h
  split at h
  · assumption
  · simp at h

theorem runLog_pstep_step (log : List Ev) : ∀ (p p' : PSt), runLog pstep p log = some p' →
    runLog step p.s log = some p'.s := by
  induction log with
  | nil => intro p p' h; simp at h; subst h; simp
  | cons e es ih =>
    intro p p' h
    simp only [runLog] at h ⊢
    cases hs : pstep p e with
    | none => simp [hs] at h
    | some p1 =>
      simp only [hs] at h
      rw [pstep_step p p1 e hs]
      exact ih p1 p' h

theorem step_n (s s' : St) (e : Ev) (h : step s e = some s') : s'.n = s.n := by
  cases e <;> simp only [step] at h <;> (repeat' split at h) <;>
    first | (simp at h; done) | (simp only [Option.some.injEq] at h; subst h; rfl)

/-- price of the operations a thread has not started yet (`n` = number of threads) -/
def progCost (n : Nat) : List Op → Nat
  | [] => 0
  | o :: l => rank n false (entry o) + progCost n l

/-- the measure on program states -/
def phi (p : PSt) : Nat := mu p.s + sumTo p.s.n (fun t => progCost p.s.n (p.prog t))

/-- number of fast-path returns of `event::wait` (`event.load 1` at the point `event.wait`) -/
def spins : List Ev → Nat
  | [] => 0
  | .evLoad _ true :: l => spins l + 1
  | _ :: l => spins l

/-- **Every accepted event of a program other than a fast-path return strictly decreases `phi`.** -/
theorem phi_step (p p' : PSt) (e : Ev) (hns : ∀ t, e ≠ .evLoad t true) (h : pstep p e = some p') :
    phi p' < phi p := by
  have hs := pstep_step p p' e h
  have hn := step_n _ _ _ hs
  by_cases hinv : ∃ t o, e = .inv t o
  · obtain ⟨t, o, he⟩ := hinv
    subst he
    obtain ⟨rest, hp, hp', htn⟩ := pstep_inv p p' t o h
    have hm := mu_inv _ _ _ _ hs
    simp only [phi, hn, hp']
    have := sumTo_upd p.s.n (progCost p.s.n) p.prog t rest htn
    rw [hp] at this
    simp only [progCost] at this
    omega
  · have hne : ∀ t o, e ≠ .inv t o := fun t o he => hinv ⟨t, o, he⟩
    have hm := mu_step _ _ _ hne hns hs
    have hp := pstep_prog p p' e hne h
    simp only [phi, hn, hp]
    omega

/-- a fast-path return raises `phi` by at most 2 -/
theorem phi_spin (p p' : PSt) (t : Nat) (h : pstep p (.evLoad t true) = some p') : phi p' ≤ phi p + 2 := by
  have hs := pstep_step p p' _ h
  have hn := step_n _ _ _ hs
  have hm := mu_spin _ _ _ hs
  have hp := pstep_prog p p' _ (by intro t o he; cases he) h
  simp only [phi, hn, hp]
  omega

/-- explicit bound: 1 per thread + the price of every operation -/
def bound (n : Nat) (prog : Nat → List Op) : Nat := n + sumTo n (fun t => progCost n (prog t))

theorem phi_pinit (n : Nat) (prog : Nat → List Op) : phi (pinit n prog) = bound n prog := by
  simp only [phi, pinit, mu, init, bound]
  have h1 : ∀ m, sumTo m (fun _ => rank n false Pc.idle) = m := by
    intro m
    induction m with
    | zero => rfl
    | succ k ih => simp only [sumTo_succ, ih]; rfl
  have h2 : sumTo n (fun _ => tokW 0) = 0 := sumTo_eq_zero (fun _ _ => rfl)
  rw [h1, h2]; omega

theorem runLog_phi (log : List Ev) : ∀ (p p' : PSt), runLog pstep p log = some p' →
    log.length + phi p' ≤ phi p + 3 * spins log := by
  induction log with
  | nil => intro p p' h; simp at h; subst h; simp [spins]
  | cons e es ih =>
    intro p p' h
    simp only [runLog] at h
    cases hs : pstep p e with
    | none => simp [hs] at h
    | some p1 =>
      simp only [hs] at h
      have h2 := ih p1 p' h
      simp only [List.length_cons]
      by_cases hsp : ∃ t, e = .evLoad t true
      · obtain ⟨t, he⟩ := hsp
        subst he
        have h1 := phi_spin p p1 t hs
        simp only [spins]
        omega
      · have hns : ∀ t, e ≠ .evLoad t true := fun t he => hsp ⟨t, he⟩
        have h1 := phi_step p p1 e hns hs
        have : spins (e :: es) = spins es := by
          cases e <;> try rfl
          rename_i t v
          cases v
          · rfl
          · exact absurd rfl (hns t)
        rw [this]
        omega

/-- the program of `k` callers of `call_once` on one flag; `thr t` = the callable of caller `t`
    throws -/
def callers (thr : Nat → Bool) : Nat → List Op := fun t => [.call (thr t)]

theorem sumTo_const (c : Nat) : ∀ m, sumTo m (fun _ => c) = m * c := by
  intro m
  induction m with
  | zero => simp
  | succ j ih => rw [sumTo_succ, ih, Nat.succ_mul]

theorem bound_callers (k : Nat) (thr : Nat → Bool) : bound k (callers thr) = 21 * k * k + 12 * k := by
  simp only [bound, callers, progCost, entry, rank]
  rw [sumTo_const, Nat.mul_add, Nat.add_zero, Nat.mul_add, Nat.mul_left_comm, Nat.mul_assoc]
  omega

end PikaVerif.Once
