import PikaVerif.Model.Sem
/-! Inductive invariant of the semaphore model. -/
namespace PikaVerif.Sem
open PikaVerif

/-- Program counters at which the thread holds the internal spinlock. -/
def holds : Pc → Bool
  | .locked _ _ | .enq _ | .relk _ _ | .taken | .failing
  | .relL _ _ | .relRes _ _ _ | .relFin => true
  | _ => false

/-- Program counters at which the thread's entry is linked in the cv queue. -/
def inQ : Pc → Bool
  | .enq _ => true
  | .unl _ p | .susp p | .slp p | .wokeNL _ p | .relk _ p => !p
  | _ => false

def b2n (b : Bool) : Nat := if b then 1 else 0

/-- Wake-ups in flight: 1 for a waiter that was notified and has not yet re-examined the
    count; for a releaser the number of notifications it will still attempt. -/
def weight : Pc → Nat
  | .unl _ p | .susp p | .slp p | .wokeNL _ p | .relk _ p => b2n p
  | .locked _ c => b2n c
  | .relL i n => n - i
  | .relRes i n _ => n - i - 1
  | .relNL i n => n - i
  | _ => 0

def wsum (s : St) : Nat := sumTo s.n (fun t => weight (s.pc t))

structure Inv (s : St) : Prop where
  lockHolder : ∀ t, holds (s.pc t) = true → s.lock = some t
  outside : ∀ t, s.n ≤ t → s.pc t = .idle
  qIff : ∀ t, t ∈ s.queue ↔ inQ (s.pc t) = true
  qNodup : s.queue.Nodup
  noneEmpty : ∀ t i n, s.pc t = .relRes i n false → s.queue = []
  wake : ∀ t, (s.pc t = .unl false true ∨ s.pc t = .susp true) →
      0 < s.tok t
  budget : s.queue ≠ [] → s.value ≤ (wsum s : Int)
  account : s.value = s.init + (s.released : Int) - (s.acquired : Int)

theorem inv_init (n : Nat) (v : Int) : Inv (init n v) := by
  refine ⟨?_, ?_, ?_, ?_, ?_, ?_, ?_, ?_⟩ <;> simp [init, holds, inQ]

attribute [local grind] holds inQ weight setPopped b2n

set_option hygiene false in
macro "sem_step" t:term : tactic => `(tactic| (
  simp only [step] at h
  obtain ⟨h1,h2,h3,h4,h5,h6,h7,h8⟩ := hi
  split at h
  case isFalse => simp at h
  rename_i hg
  have htn : $t < s.n := by grind
  have hle := le_sumTo (f := fun u => weight (s.pc u)) htn
  simp only [wsum] at h7
  repeat' split at h
  all_goals first | (simp at h; done) | skip
  all_goals (
    simp only [Option.some.injEq] at h
    subst h
    refine ⟨?_, ?_, ?_, ?_, ?_, ?_, ?_, ?_⟩ <;> dsimp only [wsum]
  )
  all_goals first
    | assumption
    | (intro u; grind [upd])
    | (rw [sumTo_upd_eq _ _ _ _ _ htn]; grind)
    | grind [upd]))


theorem step_inv_inv (s s' : St) (t : Nat) (o : Op) (hi : Inv s) (h : step s (.inv t o) = some s') : Inv s' := by sem_step t
theorem step_inv_ret (s s' : St) (t : Nat) (r : Bool) (hi : Inv s) (h : step s (.ret t r) = some s') : Inv s' := by sem_step t
theorem step_inv_slAcq (s s' : St) (t : Nat) (hi : Inv s) (h : step s (.slAcq t) = some s') : Inv s' := by sem_step t
theorem step_inv_slRel (s s' : St) (t : Nat) (hi : Inv s) (h : step s (.slRel t) = some s') : Inv s' := by sem_step t
theorem step_inv_cvEnq (s s' : St) (t z : Nat) (b : Bool) (hi : Inv s) (h : step s (.cvEnq t z b) = some s') : Inv s' := by sem_step t
theorem step_inv_cvNone (s s' : St) (t : Nat) (hi : Inv s) (h : step s (.cvNone t) = some s') : Inv s' := by sem_step t
theorem step_inv_cvWoke (s s' : St) (t : Nat) (a b : Bool) (hi : Inv s) (h : step s (.cvWoke t a b) = some s') : Inv s' := by sem_step t
theorem step_inv_take (s s' : St) (t : Nat) (v : Int) (hi : Inv s) (h : step s (.take t v) = some s') : Inv s' := by sem_step t
theorem step_inv_add (s s' : St) (t : Nat) (v : Int) (c : Nat) (hi : Inv s) (h : step s (.add t v c) = some s') : Inv s' := by sem_step t
theorem step_inv_suspend (s s' : St) (t : Nat) (hi : Inv s) (h : step s (.suspend t) = some s') : Inv s' := by sem_step t
theorem step_inv_woke (s s' : St) (t : Nat) (hi : Inv s) (h : step s (.woke t) = some s') : Inv s' := by sem_step t
theorem step_inv_sleep (s s' : St) (t : Nat) (hi : Inv s) (h : step s (.sleep t) = some s') : Inv s' := by sem_step t
theorem step_inv_timeout (s s' : St) (t : Nat) (hi : Inv s) (h : step s (.timeout t) = some s') : Inv s' := by sem_step t
theorem step_inv_done (s s' : St) (t : Nat) (hi : Inv s) (h : step s (.done t) = some s') : Inv s' := by sem_step t
theorem step_inv_popResume (s s' : St) (t z g : Nat) (d : Bool) (hi : Inv s)
    (h : step s (.popResume t z g d) = some s') : Inv s' := by
  simp only [step] at h
  obtain ⟨h1,h2,h3,h4,h5,h6,h7,h8⟩ := hi
  split at h
  case isFalse => simp at h
  rename_i hg
  have htn : t < s.n := by grind
  simp only [wsum] at h7
  split at h
  case h_2 => simp at h
  rename_i i n g' rest hpc hq
  split at h
  case isFalse => simp at h
  rename_i hsz
  obtain ⟨hsz, hgg⟩ := hsz
  subst hgg
  split at h
  case h_2 => simp at h
  rename_i p' hp'
  have hgq : g' ∈ s.queue := by rw [hq]; simp
  have hginQ := (h3 g').1 hgq
  have hgn : g' < s.n := by
    by_cases hc : s.n ≤ g'
    · have := h2 g' hc; rw [this] at hginQ; simp [inQ] at hginQ
    · omega
  have hgt : g' ≠ t := by
    intro he; rw [he, hpc] at hginQ; simp [inQ] at hginQ
  have hnd : g' ∉ rest ∧ rest.Nodup := by rw [hq] at h4; simpa using h4
  have hle1 := le_sumTo (f := fun u => weight (s.pc u)) htn
  have hle2 := le_sumTo (f := fun u => weight (s.pc u)) hgn
  have hw1 := sumTo_upd s.n weight s.pc g' p' hgn
  have hw2 := sumTo_upd s.n weight (upd s.pc g' p') t (.relRes i n (decide (rest ≠ []))) htn
  split at h
  case isFalse => simp at h
  rename_i hdrop
  simp only [Option.some.injEq] at h
  subst h
  have hwp : weight p' = 1 ∧ weight (s.pc g') = 0 ∧ inQ p' = false ∧ holds p' = false ∧
      (p' = .unl false true ∨ p' = .susp true → d = false) := by
    cases hpg : s.pc g' <;> simp_all [setPopped, inQ, weight, b2n, holds] <;> grind
  refine ⟨?_, ?_, ?_, ?_, ?_, ?_, ?_, ?_⟩ <;> dsimp only [wsum]
  · intro u; grind [upd]
  · intro u; grind [upd]
  · intro u
    have := h3 u
    rw [hq] at this
    by_cases hut : u = t
    · subst hut; simp [upd, inQ, hpc] at this ⊢; grind
    · by_cases hug : u = g'
      · subst hug; simp [upd, hut, hwp.2.2.1, hnd.1]
      · simp [upd, hut, hug] at this ⊢; simpa [hug] using this
  · exact hnd.2
  · intro u i' n' hu
    by_cases hut : u = t
    · subst hut; simp [upd] at hu; grind
    · by_cases hug : u = g'
      · subst hug; simp [upd, hut] at hu; grind
      · simp [upd, hut, hug] at hu; have := h5 u i' n' hu; rw [hq] at this; simp at this
  · intro u hu
    by_cases hut : u = t
    · subst hut; simp [upd] at hu
    · by_cases hug : u = g'
      · subst hug
        simp only [upd, hut, if_false, if_true] at hu
        have hd := hwp.2.2.2.2 hu
        subst hd
        simp [upd]
      · simp only [upd, hut, hug, if_false] at hu
        have := h6 u hu
        split <;> simp [upd, hug, this]
  · intro hr
    have hq' : s.queue ≠ [] := by rw [hq]; simp
    have := h7 hq'
    simp only [upd_other _ _ _ _ (Ne.symm hgt)] at hw2
    rw [hpc] at hw2
    have e1 : weight (Pc.relL i n) = n - i := rfl
    have e2 : weight (Pc.relRes i n (decide (rest ≠ []))) = n - i - 1 := rfl
    rw [e1, e2] at hw2
    have e3 := hwp.1
    have e4 := hwp.2.1
    omega
  · exact h8

theorem step_inv (s s' : St) (e : Ev) (hi : Inv s) (h : step s e = some s') : Inv s' := by
  cases e with
  | inv t o => exact step_inv_inv s s' t o hi h
  | ret t r => exact step_inv_ret s s' t r hi h
  | slAcq t => exact step_inv_slAcq s s' t hi h
  | slRel t => exact step_inv_slRel s s' t hi h
  | cvEnq t z b => exact step_inv_cvEnq s s' t z b hi h
  | popResume t z g d => exact step_inv_popResume s s' t z g d hi h
  | cvNone t => exact step_inv_cvNone s s' t hi h
  | cvWoke t a b => exact step_inv_cvWoke s s' t a b hi h
  | take t v => exact step_inv_take s s' t v hi h
  | add t v c => exact step_inv_add s s' t v c hi h
  | suspend t => exact step_inv_suspend s s' t hi h
  | woke t => exact step_inv_woke s s' t hi h
  | sleep t => exact step_inv_sleep s s' t hi h
  | timeout t => exact step_inv_timeout s s' t hi h
  | done t => exact step_inv_done s s' t hi h

theorem inv_of_accepted {n : Nat} {v : Int} {log : List Ev} {s : St}
    (h : runLog step (init n v) log = some s) : Inv s :=
  inv_of_runLog Inv (fun s e s' => step_inv s s' e) (inv_init n v) h

end PikaVerif.Sem
