import PikaVerif.Model.Mpi
import PikaVerif.Core.Sum
/-! Inductive invariant of the MPI request model (repaired tree, `bug = false`). -/
namespace PikaVerif.Mpi
open PikaVerif

def b2n (b : Bool) : Nat := if b then 1 else 0

/-- program counters before (or without) a registry entry -/
def pre : Pc → Bool
  | .idle | .posted | .failed | .errDone | .eagerOk | .yDone | .reg0 | .reg1 | .reg2 => true
  | _ => false

/-- the callback has started -/
def inCb : Pc → Bool
  | .cbRun | .completed | .woken => true
  | _ => false

/-- entry exists and the callback has not been invoked -/
def early5 : Rs → Bool
  | .queued | .vec | .ready _ | .taken _ _ | .decd _ _ => true
  | _ => false

def isCalling : Rs → Bool
  | .calling _ _ => true
  | _ => false

/-- the callback has been invoked -/
def late : Rs → Bool
  | .calling _ _ | .returned _ | .gone => true
  | _ => false

/-- MPI has reported the request complete (registry view) -/
def rsDone : Rs → Bool
  | .ready _ | .taken _ _ | .decd _ _ | .calling _ _ | .returned _ | .gone => true
  | _ => false

/-- the entry is counted in `all_in_flight_` -/
def rsIF : Rs → Bool
  | .queued | .vec | .ready _ | .taken _ _ => true
  | _ => false

/-- the entry is counted in the global activity count -/
def rsGac : Rs → Bool
  | .queued | .vec | .ready _ | .taken _ _ | .decd _ _ | .calling _ _ | .returned _ => true
  | _ => false

/-- registered (counter incremented) and not yet handed to an invoker -/
def pendingReq (o : Op) : Bool := (o.pc == .reg2) || rsIF o.rs

def ifW (o : Op) : Nat := b2n (o.pc == .reg2) + b2n (rsIF o.rs)
def gacW (o : Op) : Nat := b2n (o.pc == .reg1 || o.pc == .reg2) + b2n (rsGac o.rs)

structure OpInv (o : Op) : Prop where
  preNone : pre o.pc = true → o.rs = .none
  waitEarly : o.pc = .waiting → (early5 o.rs = true ∨ isCalling o.rs = true)
  earlyWait : early5 o.rs = true → o.pc = .waiting
  cbLate : inCb o.pc = true → late o.rs = true
  doneRs : o.pc = .done → (o.rs = .none ∨ late o.rs = true)
  mpi1 : (o.pc = .eagerOk ∨ o.pc = .yDone) → o.mpiDone = true
  mpi2 : rsDone o.rs = true → o.mpiDone = true
  sigs : o.sigs = b2n (o.pc == .done)
  noErrDone : o.pc ≠ .errDone
  cbs : o.cbs = b2n (late o.rs)
  failedPost : o.pc = .failed → o.okPost = false
  doneMpi : o.pc = .done → o.okPost = true → o.mpiDone = true
  cbMpi : inCb o.pc = true → o.mpiDone = true
  relMpi : o.rel ≠ 0 → o.okPost = true → o.mpiDone = true
  relOnce : o.rel ≤ 1

structure Inv (s : St) : Prop where
  ops : ∀ x, OpInv (s.op x)
  outside : ∀ x, s.n ≤ x → s.op x = {}
  inflight : s.inFlight = sumTo s.n (fun x => ifW (s.op x))
  gac : s.gac = sumTo s.n (fun x => gacW (s.op x))
  nobug : s.bug = false
  balance : s.nOn = s.nOff + b2n s.installed

theorem opInv_default : OpInv {} := by
  refine ⟨?_, ?_, ?_, ?_, ?_, ?_, ?_, ?_, ?_, ?_, ?_, ?_, ?_, ?_, ?_⟩ <;> simp [pre, early5, late, rsDone, b2n, inCb]

theorem inv_init : Inv (init false) := by
  refine ⟨fun _ => opInv_default, ?_, ?_, ?_, ?_, ?_⟩ <;> simp [init, b2n]

attribute [local grind] pre inCb early5 isCalling late rsDone rsIF rsGac ifW gacW b2n setOp

-- events that change one existing operation `x < n` (and possibly the two counters)
set_option hygiene false in
macro "mpi_step" x:term : tactic => `(tactic| (
  simp only [step] at h
  obtain ⟨h1, h2, h3, h4, h5, h6⟩ := hi
  repeat' split at h
  all_goals first | (simp at h; done) | skip
  all_goals (
    simp only [Option.some.injEq] at h
    subst h
    have hxn : $x < s.n := by grind
    have hle1 := le_sumTo (f := fun u => ifW (s.op u)) hxn
    have hle2 := le_sumTo (f := fun u => gacW (s.op u)) hxn
    have hx := h1 $x
    obtain ⟨i1, i2, i3, i4, i5, i6, i7, i8, i9, i10, i11, i12, i13, i14, i15⟩ := hx
    refine ⟨?_, ?_, ?_, ?_, ?_, ?_⟩ <;> dsimp only [setOp]
    · intro u
      by_cases hu : u = $x
      · subst hu
        simp only [upd_same]
        refine ⟨?_, ?_, ?_, ?_, ?_, ?_, ?_, ?_, ?_, ?_, ?_, ?_, ?_, ?_, ?_⟩ <;> grind
      · simp only [upd_other _ _ _ _ hu]; exact h1 u
    · intro u hu
      have : u ≠ $x := by omega
      simp only [upd_other _ _ _ _ this]; exact h2 u hu
    · rw [sumTo_upd_eq _ _ _ _ _ hxn]; grind
    · rw [sumTo_upd_eq _ _ _ _ _ hxn]; grind
    · assumption
    · first | assumption | grind)))

theorem step_inv_eager (s s' : St) (a x : Nat) (hi : Inv s) (h : step s (.eager a x) = some s') : Inv s' := by mpi_step x
theorem step_inv_ydone (s s' : St) (a x : Nat) (hi : Inv s) (h : step s (.ydone a x) = some s') : Inv s' := by mpi_step x
theorem step_inv_sig (s s' : St) (a x : Nat) (hi : Inv s) (h : step s (.sig a x) = some s') : Inv s' := by mpi_step x
theorem step_inv_reg (s s' : St) (a x : Nat) (hi : Inv s) (h : step s (.reg a x) = some s') : Inv s' := by mpi_step x
theorem step_inv_gacInc (s s' : St) (a x : Nat) (hi : Inv s) (h : step s (.gacInc a x) = some s') : Inv s' := by mpi_step x
theorem step_inv_ifInc (s s' : St) (a x v : Nat) (hi : Inv s) (h : step s (.ifInc a x v) = some s') : Inv s' := by mpi_step x
theorem step_inv_enq (s s' : St) (a x : Nat) (hi : Inv s) (h : step s (.enq a x) = some s') : Inv s' := by mpi_step x
theorem step_inv_addv (s s' : St) (a x : Nat) (hi : Inv s) (h : step s (.addv a x) = some s') : Inv s' := by mpi_step x
theorem step_inv_q2v (s s' : St) (a x : Nat) (hi : Inv s) (h : step s (.q2v a x) = some s') : Inv s' := by mpi_step x
theorem step_inv_ready (s s' : St) (a x e : Nat) (hi : Inv s) (h : step s (.ready a x e) = some s') : Inv s' := by mpi_step x
theorem step_inv_deq (s s' : St) (a x e : Nat) (hi : Inv s) (h : step s (.deq a x e) = some s') : Inv s' := by mpi_step x
theorem step_inv_testany (s s' : St) (a x e : Nat) (hi : Inv s) (h : step s (.testany a x e) = some s') : Inv s' := by mpi_step x
theorem step_inv_ifDec (s s' : St) (a x v : Nat) (hi : Inv s) (h : step s (.ifDec a x v) = some s') : Inv s' := by mpi_step x
theorem step_inv_call (s s' : St) (a x : Nat) (hi : Inv s) (h : step s (.call a x) = some s') : Inv s' := by mpi_step x
theorem step_inv_cb (s s' : St) (a x e : Nat) (hi : Inv s) (h : step s (.cb a x e) = some s') : Inv s' := by mpi_step x
theorem step_inv_ret (s s' : St) (a x : Nat) (hi : Inv s) (h : step s (.ret a x) = some s') : Inv s' := by mpi_step x
theorem step_inv_gacDec (s s' : St) (a x : Nat) (hi : Inv s) (h : step s (.gacDec a x) = some s') : Inv s' := by mpi_step x
theorem step_inv_woke (s s' : St) (a x : Nat) (hi : Inv s) (h : step s (.woke a x) = some s') : Inv s' := by mpi_step x
theorem step_inv_rel (s s' : St) (a x : Nat) (hi : Inv s) (h : step s (.rel a x) = some s') : Inv s' := by mpi_step x

-- events that change no operation
set_option hygiene false in
macro "mpi_glob" : tactic => `(tactic| (
  simp only [step] at h
  obtain ⟨h1, h2, h3, h4, h5, h6⟩ := hi
  repeat' split at h
  all_goals first | (simp at h; done) | skip
  all_goals (
    simp only [Option.some.injEq] at h
    subst h
    refine ⟨?_, ?_, ?_, ?_, ?_, ?_⟩ <;> first | assumption | grind)))

theorem step_inv_lock (s s' : St) (a : Nat) (hi : Inv s) (h : step s (.lock a) = some s') : Inv s' := by mpi_glob
theorem step_inv_unlock (s s' : St) (a : Nat) (hi : Inv s) (h : step s (.unlock a) = some s') : Inv s' := by mpi_glob
theorem step_inv_pollOn (s s' : St) (a : Nat) (b : Bool) (hi : Inv s) (h : step s (.pollOn a b) = some s') : Inv s' := by mpi_glob
theorem step_inv_pollOff (s s' : St) (a : Nat) (hi : Inv s) (h : step s (.pollOff a) = some s') : Inv s' := by mpi_glob
theorem step_inv_stopRet (s s' : St) (a v : Nat) (hi : Inv s) (h : step s (.stopRet a v) = some s') : Inv s' := by mpi_glob
theorem step_inv_waitRet (s s' : St) (a v k : Nat) (hi : Inv s) (h : step s (.waitRet a v k) = some s') : Inv s' := by mpi_glob

theorem sumTo_succ_upd_new (n : Nat) (w : Op → Nat) (f : Nat → Op) (v : Op) (hv : w v = 0) :
    sumTo (n + 1) (fun u => w (upd f n v u)) = sumTo n (fun u => w (f u)) := by
  simp only [sumTo_succ, upd_same, hv, Nat.add_zero]
  exact sumTo_upd_ge n w f n v (Nat.le_refl n)

/-- `post` creates operation number `s.n`. -/
theorem step_inv_post (s s' : St) (a x m : Nat) (ok : Bool) (hi : Inv s)
    (h : step s (.post a x m ok) = some s') : Inv s' := by
  simp only [step] at h
  obtain ⟨h1, h2, h3, h4, h5, h6⟩ := hi
  split at h
  case isFalse => simp at h
  rename_i hg
  obtain ⟨hx, hm⟩ := hg
  subst hx
  simp only [Option.some.injEq] at h
  subst h
  refine ⟨?_, ?_, ?_, ?_, ?_, ?_⟩ <;> dsimp only
  · intro u
    by_cases hu : u = s.n
    · subst hu
      simp only [upd_same]
      cases ok <;>
        (refine ⟨?_, ?_, ?_, ?_, ?_, ?_, ?_, ?_, ?_, ?_, ?_, ?_, ?_, ?_, ?_⟩ <;> simp [pre, early5, late, rsDone, b2n, inCb])
    · simp only [upd_other _ _ _ _ hu]; exact h1 u
  · intro u hu
    have : u ≠ s.n := by omega
    simp only [upd_other _ _ _ _ this]; exact h2 u (by omega)
  · rw [sumTo_succ_upd_new s.n ifW s.op _ (by cases ok <;> simp [ifW, rsIF, b2n])]; exact h3
  · rw [sumTo_succ_upd_new s.n gacW s.op _ (by cases ok <;> simp [gacW, rsGac, b2n])]; exact h4
  · exact h5
  · exact h6

theorem step_inv (s s' : St) (e : Ev) (hi : Inv s) (h : step s e = some s') : Inv s' := by
  cases e with
  | post a x m ok => exact step_inv_post s s' a x m ok hi h
  | eager a x => exact step_inv_eager s s' a x hi h
  | ydone a x => exact step_inv_ydone s s' a x hi h
  | sig a x => exact step_inv_sig s s' a x hi h
  | reg a x => exact step_inv_reg s s' a x hi h
  | gacInc a x => exact step_inv_gacInc s s' a x hi h
  | ifInc a x v => exact step_inv_ifInc s s' a x v hi h
  | enq a x => exact step_inv_enq s s' a x hi h
  | addv a x => exact step_inv_addv s s' a x hi h
  | lock a => exact step_inv_lock s s' a hi h
  | unlock a => exact step_inv_unlock s s' a hi h
  | q2v a x => exact step_inv_q2v s s' a x hi h
  | ready a x e => exact step_inv_ready s s' a x e hi h
  | deq a x e => exact step_inv_deq s s' a x e hi h
  | testany a x e => exact step_inv_testany s s' a x e hi h
  | ifDec a x v => exact step_inv_ifDec s s' a x v hi h
  | call a x => exact step_inv_call s s' a x hi h
  | cb a x e => exact step_inv_cb s s' a x e hi h
  | ret a x => exact step_inv_ret s s' a x hi h
  | gacDec a x => exact step_inv_gacDec s s' a x hi h
  | woke a x => exact step_inv_woke s s' a x hi h
  | rel a x => exact step_inv_rel s s' a x hi h
  | pollOn a b => exact step_inv_pollOn s s' a b hi h
  | pollOff a => exact step_inv_pollOff s s' a hi h
  | stopRet a v => exact step_inv_stopRet s s' a v hi h
  | waitRet a v k => exact step_inv_waitRet s s' a v k hi h

theorem inv_of_accepted {log : List Ev} {s : St} (h : runLog step (init false) log = some s) : Inv s :=
  inv_of_runLog Inv (fun s e s' => step_inv s s' e) inv_init h

/-- a sum of naturals is zero only if every summand is -/
theorem zero_of_sumTo_zero {n : Nat} {f : Nat → Nat} (h : sumTo n f = 0) (t : Nat) (ht : t < n) : f t = 0 := by
  have := le_sumTo (f := f) ht
  omega

theorem sumTo_le_sumTo {n : Nat} {f g : Nat → Nat} (h : ∀ t, t < n → f t ≤ g t) : sumTo n f ≤ sumTo n g := by
  induction n with
  | zero => exact Nat.le_refl _
  | succ k ih =>
    simp only [sumTo_succ]
    have := ih (fun t ht => h t (Nat.lt_succ_of_lt ht))
    have := h k (Nat.lt_succ_self k)
    omega

end PikaVerif.Mpi
