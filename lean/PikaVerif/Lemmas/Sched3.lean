import PikaVerif.Lemmas.Sched2
import PikaVerif.Model.SchedObl
/-! Scheduler protocol model: lemmas for the end-to-end form of C02 (`Props/C02x.lean`).

* step lemmas about one object: how it can leave a pending state (only by the activation exchange
  `tagged`), what an epoch bump means, what can follow `terminated`, and how the restart state of an
  activation can change (only by the effective `setex` of its running phase);
* forward lemmas: what an accepted step can do to an actor inside `set_thread_state`, to a helper
  entry, and to an actor inside `set_active_state`;
* the tracking invariant `Track`: from the moment a wake-up request is issued, the request is
  *served* (an activation exchange or an effective restart-state fetch of the target has been
  logged since), or the target is pending / terminated, or the request still has a *carrier* whose
  observations were all made after the request.  Nothing here adds state to the model: the
  "served" flag and the list of helpers that owe the re-entry into `set_thread_state` are folds
  over the log suffix. -/
namespace PikaVerif.Sched
open PikaVerif

/-- `e` is an activation exchange (`switch_status`, pending → active) of object `o` -/
def isTagged (o : Nat) : Ev → Bool
  | .tagged _ o' _ _ => o' == o
  | _ => false

/-- `e` is an *effective* fetch-and-reset of the restart state of `o` by its running phase
    (`thread_data::set_state_ex(signaled)` at the start of a phase, changing the word) -/
def isSetex (o : Nat) : Ev → Bool
  | .setex _ o' b a => o' == o && b != a
  | _ => false

attribute [local grind] pendingish isTagged isSetex

theorem pend_leave_step (s s' : St) (e : Ev) (hi : Inv s) (h : step s e = some s') (o' : Nat)
    (h1 : pendingish (s.obj o').w = true) (h2 : pendingish (s'.obj o').w = false) : isTagged o' e = true := by
  have hoa := (hi o').ownerActive
  cases e <;> simp only [step] at h <;> (repeat' split at h) <;>
    first
    | (simp at h; done)
    | (simp only [Option.some.injEq] at h; subst h; (try dsimp only at h2); simp only [upd] at h2; split at h2 <;> grind)
    | (simp only [Option.some.injEq] at h; subst h; (try dsimp only at h2); grind)

theorem epoch_bump_step (s s' : St) (e : Ev) (h : step s e = some s') (o' : Nat)
    (h1 : (s.obj o').epoch < (s'.obj o').epoch) : pendingish (s'.obj o').w = true := by
  cases e <;> simp only [step] at h <;> (repeat' split at h) <;>
    first
    | (simp at h; done)
    | (simp only [Option.some.injEq] at h; subst h; revert h1; (try dsimp only); simp only [upd]; split <;> grind)
    | (simp only [Option.some.injEq] at h; subst h; revert h1; (try dsimp only); grind)

theorem term_step (s s' : St) (e : Ev) (hi : Inv s) (h : step s e = some s') (o' : Nat)
    (h1 : (s.obj o').w.st = sTerminated) : (s'.obj o').w.st = sTerminated ∨ (s.obj o').epoch < (s'.obj o').epoch := by
  have hoa := (hi o').ownerActive
  cases e <;> simp only [step] at h <;> (repeat' split at h) <;>
    first
    | (simp at h; done)
    | (simp only [Option.some.injEq] at h; subst h; (try dsimp only); simp only [upd]; split <;> grind)
    | (simp only [Option.some.injEq] at h; subst h; (try dsimp only); grind)

theorem ex_step (s s' : St) (e : Ev) (hi : Inv s) (h : step s e = some s') (o' : Nat)
    (h0 : (s'.obj o').epoch = (s.obj o').epoch) (h1 : pendingish (s.obj o').w = false)
    (h2 : (s'.obj o').w.st = sActive) :
    (s.obj o').w.st = sActive ∧ (s'.obj o').w.tag = (s.obj o').w.tag ∧
      ((s'.obj o').w.ex = (s.obj o').w.ex ∨ isSetex o' e = true) := by
  have hres := (hi o').resNotActive
  cases e <;> simp only [step] at h <;> (repeat' split at h) <;>
    first
    | (simp at h; done)
    | (simp only [Option.some.injEq] at h; subst h; revert h0 h2; (try dsimp only); simp only [upd]; split <;> grind)
    | (simp only [Option.some.injEq] at h; subst h; revert h0 h2; (try dsimp only); grind)

theorem W_ext (a b : W) (h1 : a.st = b.st) (h2 : a.ex = b.ex) (h3 : a.tag = b.tag) : a = b := by
  cases a; cases b; simp_all

/-- while no activation exchange of `o` is logged, the object stays outside an activation whose
    restart state is still to be fetched, and no effective fetch happens -/
theorem quiet_step (s s' : St) (e : Ev) (hi : Inv s) (h : step s e = some s') (o' : Nat)
    (h0 : (s.obj o').w.st ≠ sActive ∨ (s.obj o').w.ex = exSignaled) (ht : isTagged o' e = false) :
    isSetex o' e = false ∧ ((s'.obj o').w.st ≠ sActive ∨ (s'.obj o').w.ex = exSignaled) := by
  have hoa := (hi o').ownerActive
  have hres := (hi o').resNotActive
  cases e with
  | setex a o b af =>
    simp only [step] at h
    split at h
    · rename_i hg
      simp only [Option.some.injEq] at h; subst h
      obtain ⟨hl, ho, hph, hb, haf⟩ := hg
      by_cases hoo : o = o'
      · subst hoo
        have hact : (s.obj o).w.st = sActive := (hoa hl).1 (by simp [ho])
        have hex : (s.obj o).w.ex = exSignaled := by
          rcases h0 with h0 | h0
          · exact absurd hact h0
          · exact h0
        have hbe : b = af := by subst hb; subst haf; exact W_ext _ _ rfl hex rfl
        refine ⟨by simp [isSetex, hbe], ?_⟩
        right; subst haf; simp [upd]
      · refine ⟨by simp [isSetex, hoo], ?_⟩
        simpa [upd, Ne.symm hoo] using h0
    · simp at h
  | _ =>
    simp only [step] at h <;> (repeat' split at h) <;>
    first
    | (simp at h; done)
    | (simp only [Option.some.injEq] at h; subst h; revert ht; (try dsimp only); simp only [upd]; split <;> grind)
    | (simp only [Option.some.injEq] at h; subst h; revert ht; (try dsimp only); grind)

attribute [local grind] pendingish target

theorem live_step (s s' : St) (e : Ev) (h : step s e = some s') (o' : Nat)
    (h1 : (s.obj o').live = true) : (s'.obj o').live = true := by
  cases e <;> simp only [step] at h <;> (repeat' split at h) <;>
    first
    | (simp at h; done)
    | (simp only [Option.some.injEq] at h; subst h; (try dsimp only); simp only [upd]; split <;> grind)
    | (simp only [Option.some.injEq] at h; subst h; (try dsimp only); grind)

theorem entered_fwd_step (s s' : St) (e : Ev) (h : step s e = some s') (a o : Nat)
    (h1 : (s.act a).sts = .entered o) :
    (s'.act a).sts = .entered o ∨ (s'.act a).sts = .loaded o (s'.obj o).w (s'.obj o).epoch := by
  cases e <;> simp only [step] at h <;> (repeat' split at h) <;>
    first
    | (simp at h; done)
    | (simp only [Option.some.injEq] at h; subst h; revert h1; (try simp only [upd]); grind)

theorem loaded_fwd_step (s s' : St) (e : Ev) (h : step s e = some s') (a o : Nat) (lw : W) (le : Nat)
    (h1 : (s.act a).sts = .loaded o lw le) :
    (s'.act a).sts = .loaded o lw le ∨
    (s'.act a).sts = .loaded o (s'.obj o).w (s'.obj o).epoch ∨
    ((s'.act a).sts = .won o ∧ pendingish (s'.obj o).w = true) ∨
    ((s'.act a).sts = .out ∧ (lw.st = sPending ∨ lw.st = sTerminated)) ∨
    ((s'.act a).sts = .out ∧ lw.st = sActive ∧ (lw, le) ∈ (s'.obj o).helpers) ∨
    ((s'.act a).sts = .out ∧ pendingish lw = true) := by
  cases e <;> simp only [step] at h <;> (repeat' split at h) <;>
    first
    | (simp at h; done)
    | (simp only [Option.some.injEq] at h; subst h; revert h1; (try simp only [upd]); grind)

theorem sas_fwd_step (s s' : St) (e : Ev) (h : step s e = some s') (a o : Nat) (cur prev : W) (he ce : Nat)
    (h1 : (s.act a).sas = some (o, cur, prev, he, ce)) :
    (s'.act a).sas = some (o, cur, prev, he, ce) ∨
    ((s'.act a).sas = none ∧ cur.st = prev.st ∧ cur ≠ prev) ∨
    e = .sasRetry a o := by
  cases e <;> simp only [step] at h <;> (repeat' split at h) <;>
    first
    | (simp at h; done)
    | (simp only [Option.some.injEq] at h; subst h; revert h1; (try simp only [upd]); grind)

theorem helper_fwd_step (s s' : St) (e : Ev) (h : step s e = some s') (o : Nat) (hp : W × Nat)
    (h1 : hp ∈ (s.obj o).helpers) :
    hp ∈ (s'.obj o).helpers ∨
    ∃ a, (s'.act a).sas = some (o, (s.obj o).w, hp.1, hp.2, (s.obj o).epoch) := by
  cases e <;> simp only [step] at h <;> (repeat' split at h) <;>
    first
    | (simp at h; done)
    | (simp only [Option.some.injEq] at h; subst h; revert h1; (try simp only [upd]); grind)

theorem enter_step (s s' : St) (a o ns : Nat) (h : step s (.stsEnter a o ns) = some s') :
    (s'.act a).sts = .entered o ∧ s'.obj = s.obj ∧ (s.obj o).live = true := by
  simp only [step] at h
  split at h
  · simp only [Option.some.injEq] at h; subst h; simp_all [upd]
  · simp at h

def isServe (o : Nat) (e : Ev) : Bool := isTagged o e || isSetex o e

def ExOk (x : Obj) (sv : Bool) (lw : W) (le : Nat) : Prop :=
  le = x.epoch → lw.st = sActive → x.w.st = sActive → (x.w.ex = lw.ex ∨ sv = true)

def TermOk (x : Obj) (lw : W) (le : Nat) : Prop :=
  lw.st = sTerminated → (x.w.st = sTerminated ∨ le < x.epoch)

theorem exok_step (s s' : St) (e : Ev) (hi : Inv s) (h : step s e = some s') (o : Nat) (sv : Bool) (lw : W) (le : Nat)
    (hobs : Obs (s.obj o) lw le) (hx : ExOk (s.obj o) sv lw le) :
    ExOk (s'.obj o) (sv || isServe o e) lw le := by
  intro heq hact hact'
  have hm := (obj_step s s' e h o).1
  have hle := hobs.1
  have he : (s'.obj o).epoch = (s.obj o).epoch := by omega
  have hnp := (hobs.2 (by omega) hact).1
  obtain ⟨h1, _, h3⟩ := ex_step s s' e hi h o he hnp hact'
  rcases hx (by omega) hact h1 with h4 | h4
  · rcases h3 with h3 | h3
    · left; rw [h3, h4]
    · right; simp [isServe, h3]
  · right; simp [h4]

theorem termok_step (s s' : St) (e : Ev) (hi : Inv s) (h : step s e = some s') (o : Nat) (lw : W) (le : Nat)
    (hle : le ≤ (s.obj o).epoch) (hx : TermOk (s.obj o) lw le) : TermOk (s'.obj o) lw le := by
  intro ht
  have hm := (obj_step s s' e h o).1
  rcases hx ht with h1 | h1
  · rcases term_step s s' e hi h o h1 with h2 | h2
    · exact Or.inl h2
    · right; omega
  · right; omega

/-- what still carries a wake-up request for `o` issued at epoch `ie0` (all observations of a
    carrier were made after the request): an actor that has entered `set_thread_state` and not
    loaded yet; an actor holding a load made after the request; a helper entry created from such a
    load; a helper task that has loaded and not decided yet; a helper task that decided to retry and
    owes the re-entry into `set_thread_state` (list `ow`, a fold over the log) -/
def Carrier (s : St) (sv : Bool) (ow : List (Nat × Nat)) (o ie0 : Nat) : Prop :=
  (∃ a, (s.act a).sts = .entered o) ∨
  (∃ a lw le, (s.act a).sts = .loaded o lw le ∧ ie0 ≤ le ∧ (le = ie0 → pendingish lw = false) ∧
      TermOk (s.obj o) lw le ∧ ExOk (s.obj o) sv lw le) ∨
  (∃ hp, hp ∈ (s.obj o).helpers ∧ ie0 ≤ hp.2 ∧ ExOk (s.obj o) sv hp.1 hp.2) ∨
  (∃ a cur prev he ce, (s.act a).sas = some (o, cur, prev, he, ce) ∧
      (cur.st = prev.st → cur ≠ prev → (sv = true ∨ ie0 < (s.obj o).epoch))) ∨
  (∃ a, (a, o) ∈ ow)

/-- the tracking invariant of one wake-up request (target `o`, not pending when the request was
    issued at epoch `ie0`) -/
structure Track (s : St) (sv : Bool) (ow : List (Nat × Nat)) (o ie0 : Nat) : Prop where
  inv : Inv2 s
  live : (s.obj o).live = true
  mono : ie0 ≤ (s.obj o).epoch
  R : (s.obj o).epoch = ie0 → pendingish (s.obj o).w = false
  Q : ie0 < (s.obj o).epoch → (sv = true ∨ pendingish (s.obj o).w = true)
  P : sv = true ∨ pendingish (s.obj o).w = true ∨ (s.obj o).w.st = sTerminated ∨ Carrier s sv ow o ie0

theorem track_step (s s' : St) (e : Ev) (sv : Bool) (ow : List (Nat × Nat)) (o ie0 : Nat)
    (ht : Track s sv ow o ie0) (h : step s e = some s') :
    Track s' (sv || isServe o e) (owStep ow e) o ie0 := by
  have hI := ht.inv.obj
  have hob := obj_step s s' e h o
  have hmono : ie0 ≤ (s'.obj o).epoch := by have := ht.mono; omega
  -- leaving a pending state is an activation
  have hleave : pendingish (s.obj o).w = true → (sv || isServe o e) = true ∨ pendingish (s'.obj o).w = true := by
    intro hp
    cases hp' : pendingish (s'.obj o).w with
    | true => exact Or.inr rfl
    | false => left; simp [isServe, pend_leave_step s s' e hI h o hp hp']
  have hQ : ie0 < (s'.obj o).epoch → ((sv || isServe o e) = true ∨ pendingish (s'.obj o).w = true) := by
    intro hlt
    by_cases hb : (s.obj o).epoch < (s'.obj o).epoch
    · exact Or.inr (epoch_bump_step s s' e h o hb)
    · rcases ht.Q (by omega) with h1 | h1
      · left; simp [h1]
      · exact hleave h1
  have hP' : ((sv || isServe o e) = true ∨ pendingish (s'.obj o).w = true) →
      ((sv || isServe o e) = true ∨ pendingish (s'.obj o).w = true ∨ (s'.obj o).w.st = sTerminated ∨
        Carrier s' (sv || isServe o e) (owStep ow e) o ie0) := by
    intro hh; rcases hh with h1 | h1
    · exact Or.inl h1
    · exact Or.inr (Or.inl h1)
  have hterm : (s.obj o).w.st = sTerminated → ((sv || isServe o e) = true ∨ pendingish (s'.obj o).w = true ∨
      (s'.obj o).w.st = sTerminated ∨ Carrier s' (sv || isServe o e) (owStep ow e) o ie0) := by
    intro h1
    rcases term_step s s' e hI h o h1 with h2 | h2
    · exact Or.inr (Or.inr (Or.inl h2))
    · exact Or.inr (Or.inl (epoch_bump_step s s' e h o h2))
  refine ⟨step_inv2 s s' e ht.inv h, live_step s s' e h o ht.live, hmono, ?_, hQ, ?_⟩
  · intro heq
    cases hp' : pendingish (s'.obj o).w with
    | false => rfl
    | true =>
      have e1 : (s'.obj o).epoch = (s.obj o).epoch := by have := ht.mono; omega
      have := hob.2 e1 hp'
      rw [ht.R (by omega)] at this; cases this
  · rcases ht.P with h1 | h1 | h1 | h1
    · left; simp [h1]
    · exact hP' (hleave h1)
    · exact hterm h1
    · -- a carrier
      have fresh : ∀ a, (s'.act a).sts = .loaded o (s'.obj o).w (s'.obj o).epoch →
          Carrier s' (sv || isServe o e) (owStep ow e) o ie0 := by
        intro a hs
        refine Or.inr (Or.inl ⟨a, _, _, hs, hmono, ?_, ?_, ?_⟩)
        · intro heq
          cases hp' : pendingish (s'.obj o).w with
          | false => rfl
          | true =>
            have e1 : (s'.obj o).epoch = (s.obj o).epoch := by have := ht.mono; omega
            have := hob.2 e1 hp'
            rw [ht.R (by omega)] at this; cases this
        · intro hx; exact Or.inl hx
        · intro _ _ _; exact Or.inl rfl
      rcases h1 with ⟨a, hs⟩ | ⟨a, lw, le, hs, hge, hnp, htk, hxk⟩ | ⟨hp, hm, hge, hxk⟩ |
          ⟨a, cur, prev, he, ce, hs, hgood⟩ | ⟨a, hm⟩
      · -- entered
        rcases entered_fwd_step s s' e h a o hs with h2 | h2
        · exact Or.inr (Or.inr (Or.inr (Or.inl ⟨a, h2⟩)))
        · exact Or.inr (Or.inr (Or.inr (fresh a h2)))
      · -- loaded after the request
        have hobs := ht.inv.loaded a o lw le hs
        have hxk' := exok_step s s' e hI h o sv lw le hobs hxk
        have htk' := termok_step s s' e hI h o lw le hobs.1 htk
        rcases loaded_fwd_step s s' e h a o lw le hs with h2 | h2 | ⟨_, h2⟩ | ⟨_, h2⟩ | ⟨_, h2, h3⟩ | ⟨_, h2⟩
        · exact Or.inr (Or.inr (Or.inr (Or.inr (Or.inl ⟨a, lw, le, h2, hge, hnp, htk', hxk'⟩))))
        · exact Or.inr (Or.inr (Or.inr (fresh a h2)))
        · exact Or.inr (Or.inl h2)
        · rcases h2 with h2 | h2
          · have : ie0 < le := by
              rcases Nat.lt_or_ge ie0 le with hlt | hge'
              · exact hlt
              · have := hnp (by omega); simp [pendingish, h2] at this
            exact hP' (hQ (by have := hobs.1; omega))
          · rcases htk h2 with h3 | h3
            · exact hterm h3
            · exact hP' (hQ (by omega))
        · exact Or.inr (Or.inr (Or.inr (Or.inr (Or.inr (Or.inl ⟨(lw, le), h3, hge, hxk'⟩)))))
        · have : ie0 < le := by
            rcases Nat.lt_or_ge ie0 le with hlt | hge'
            · exact hlt
            · have := hnp (by omega); rw [h2] at this; cases this
          exact hP' (hQ (by have := hobs.1; omega))
      · -- helper entry
        have hobs := ht.inv.helpers o hp hm
        have hact := (hI o).helpersActive hp hm
        have hxk' := exok_step s s' e hI h o sv hp.1 hp.2 hobs hxk
        rcases helper_fwd_step s s' e h o hp hm with h2 | ⟨a, h2⟩
        · exact Or.inr (Or.inr (Or.inr (Or.inr (Or.inr (Or.inl ⟨hp, h2, hge, hxk'⟩)))))
        · refine Or.inr (Or.inr (Or.inr (Or.inr (Or.inr (Or.inr (Or.inl ⟨a, _, _, _, _, h2, ?_⟩))))))
          intro hst hne
          by_cases heq : hp.2 = (s.obj o).epoch
          · have hcur : (s.obj o).w.st = sActive := by rw [hst]; exact hact
            have htag := (hobs.2 heq hact).2 hcur
            rcases hxk heq hact hcur with h4 | h4
            · exact absurd (W_ext _ _ hst h4 htag) hne
            · left; simp [h4]
          · right; have := hobs.1; omega
      · -- helper task between its load and its decision
        rcases sas_fwd_step s s' e h a o cur prev he ce hs with h2 | ⟨_, h2, h3⟩ | h2
        · refine Or.inr (Or.inr (Or.inr (Or.inr (Or.inr (Or.inr (Or.inl ⟨a, cur, prev, he, ce, h2, ?_⟩))))))
          intro hst hne
          rcases hgood hst hne with h4 | h4
          · left; simp [h4]
          · right; omega
        · rcases hgood h2 h3 with h4 | h4
          · left; simp [h4]
          · exact hP' (hQ (by omega))
        · subst h2
          exact Or.inr (Or.inr (Or.inr (Or.inr (Or.inr (Or.inr (Or.inr ⟨a, by simp [owStep]⟩))))))
      · -- helper task that owes the re-entry
        by_cases hev : ∃ ns, e = .stsEnter a o ns
        · obtain ⟨ns, hev⟩ := hev
          subst hev
          exact Or.inr (Or.inr (Or.inr (Or.inl ⟨a, (enter_step s s' a o ns h).1⟩)))
        · refine Or.inr (Or.inr (Or.inr (Or.inr (Or.inr (Or.inr (Or.inr ⟨a, ?_⟩))))))
          cases e <;> simp only [owStep] <;> first | exact hm | skip
          · rename_i a' o' ns
            apply (List.mem_erase_of_ne ?_).2 hm
            intro hc
            simp only [Prod.mk.injEq] at hc
            exact hev ⟨ns, by rw [hc.1, hc.2]⟩
          · exact List.mem_cons_of_mem _ hm

theorem track_log (o ie0 : Nat) : ∀ (post : List Ev) (s s' : St) (sv : Bool) (ow : List (Nat × Nat)),
    Track s sv ow o ie0 → runLog step s post = some s' →
    Track s' (sv || post.any (isServe o)) (owing ow post) o ie0 := by
  intro post
  induction post with
  | nil => intro s s' sv ow ht h; simp at h; subst h; simpa [owing] using ht
  | cons e es ih =>
    intro s s' sv ow ht h
    simp only [runLog] at h
    cases hs : step s e with
    | none => simp [hs] at h
    | some s1 =>
      simp only [hs] at h
      have := ih s1 s' _ _ (track_step s s1 e sv ow o ie0 ht hs) h
      simpa [owing, Bool.or_assoc] using this

/-- a pending object that leaves the pending states within an accepted segment is activated there -/
theorem pend_leave_log (o : Nat) : ∀ (seg : List Ev) (s s' : St), Inv s → runLog step s seg = some s' →
    pendingish (s.obj o).w = true → pendingish (s'.obj o).w = true ∨ seg.any (isTagged o) = true := by
  intro seg
  induction seg with
  | nil => intro s s' _ h hp; simp at h; subst h; exact Or.inl hp
  | cons e es ih =>
    intro s s' hi h hp
    simp only [runLog] at h
    cases hs : step s e with
    | none => simp [hs] at h
    | some s1 =>
      simp only [hs] at h
      cases hp1 : pendingish (s1.obj o).w with
      | true =>
        rcases ih s1 s' (step_inv s s1 e hi hs) h hp1 with h2 | h2
        · exact Or.inl h2
        · right; simp [h2]
      | false => right; simp [pend_leave_step s s1 e hi hs o hp hp1]

/-- an effective restart-state fetch needs an activation first, unless the object is in an
    activation that has not fetched its restart state yet -/
theorem setex_needs_tagged (o : Nat) : ∀ (seg : List Ev) (s s' : St), Inv s → runLog step s seg = some s' →
    ((s.obj o).w.st ≠ sActive ∨ (s.obj o).w.ex = exSignaled) →
    seg.any (isSetex o) = true → seg.any (isTagged o) = true := by
  intro seg
  induction seg with
  | nil => intro s s' _ _ _ h; simp at h
  | cons e es ih =>
    intro s s' hi h h0 hx
    simp only [runLog] at h
    cases hs : step s e with
    | none => simp [hs] at h
    | some s1 =>
      simp only [hs] at h
      cases ht : isTagged o e with
      | true => simp [ht]
      | false =>
        have hk := quiet_step s s1 e hi hs o h0 ht
        simp only [List.any_cons, hk.1, Bool.false_or] at hx
        simp [ih s1 s' (step_inv s s1 e hi hs) h hk.2 hx]

/-! ### What is enabled -/

theorem en_stsLoad (s : St) (a o : Nat) (hl : (s.obj o).live = true)
    (hs : (s.act a).sts = .entered o ∨ ∃ lw le, (s.act a).sts = .loaded o lw le) :
    (step s (.stsLoad a o (s.obj o).w)).isSome = true := by
  rcases hs with hs | ⟨lw, le, hs⟩ <;> simp [step, hl, hs]

theorem en_sasDecide (s : St) (a o : Nat) (cur prev : W) (he ce : Nat)
    (hs : (s.act a).sas = some (o, cur, prev, he, ce)) :
    (step s (.sasAbort a o)).isSome = true ∨ (step s (.sasRetry a o)).isSome = true := by
  by_cases hc : cur.st = prev.st ∧ cur ≠ prev
  · left; simp [step, hs, hc]
  · right; simp only [step, hs]; simp [hc]

theorem en_sasLoad (s : St) (a o : Nat) (hp : W × Nat) (hl : (s.obj o).live = true)
    (hm : hp ∈ (s.obj o).helpers) (hs : (s.act a).sas = none) :
    (step s (.sasLoad a o (s.obj o).w hp.1)).isSome = true := by
  simp only [step, hl, hs, and_self, ↓reduceIte]
  cases hf : (s.obj o).helpers.find? (fun h => h.1 == hp.1) with
  | some h => simp
  | none =>
    have := List.find?_eq_none.1 hf hp hm
    simp at this

/-- a constructed object that is pending or pending_boost can take an internal step: its unique
    token moves (queue insertion, `pending_boost → pending`, pop, activation exchange) -/
theorem en_token (s : St) (hi : Inv s) (o : Nat) (hl : (s.obj o).live = true)
    (hp : pendingish (s.obj o).w = true) :
    (∃ a, (step s (.push a o)).isSome = true) ∨
    (∃ a, (s.obj o).w.st = sBoost ∧ (step s (.set a o (s.obj o).w ⟨sPending, (s.obj o).w.ex, (s.obj o).w.tag + 1⟩)).isSome = true) ∨
    (∃ a, (step s (.tagged a o (s.obj o).w ⟨sActive, (s.obj o).w.ex, (s.obj o).w.tag + 1⟩)).isSome = true) ∨
    (∃ a, (step s (.got a o (s.obj o).w false)).isSome = true) := by
  have bi := hi o
  have hst : (s.obj o).w.st = sPending ∨ (s.obj o).w.st = sBoost := by simpa [pendingish] using hp
  cases hf : (s.obj o).fresh with
  | true =>
    have h5 := bi.tokFresh hl hf
    have hq : (s.obj o).q = 0 := by have := h5.1; simp only [tokens] at this; omega
    left; exact ⟨0, by simp [step, hl, h5.2.1, hf, hq]⟩
  | false =>
    have htok := bi.tokPending hl hf hp
    cases hpu : (s.obj o).pusher with
    | some p =>
      rcases hst with h | h
      · left; exact ⟨p, by simp [step, hl, h, hpu]⟩
      · right; left; exact ⟨p, h, by simp [step, hl, h, hpu]⟩
    | none =>
      have hpend : (s.obj o).w.st = sPending := by
        rcases hst with h | h
        · exact h
        · have := bi.boostPusher hl h; simp [hpu] at this
      cases hh : (s.obj o).holder with
      | some a =>
        right; right; left
        have := bi.hold a hh
        exact ⟨a, by simp [step, hl, hh, this, hpend]⟩
      | none =>
        have hq : 0 < (s.obj o).q := by
          simp only [tokens, hpu, hh, b2n] at htok; simp at htok; omega
        right; right; right
        exact ⟨0, by simp [step, hl, hh, hq]⟩

/-! ### The restart state within one activation (helper abort under an equal tag) -/

/-- an effective `setex` resets a restart state that was not `signaled` to `signaled` -/
theorem setex_eff_step (s s' : St) (e : Ev) (h : step s e = some s') (o : Nat) (h3 : isSetex o e = true) :
    (s'.obj o).w.ex = exSignaled ∧ (s.obj o).w.ex ≠ exSignaled ∧
    ∃ a, (s.obj o).owner = some a ∧ (s.obj o).inPhase = true := by
  cases e with
  | setex a o' b af =>
    simp only [isSetex, Bool.and_eq_true, beq_iff_eq, bne_iff_ne] at h3
    obtain ⟨hoo, hne⟩ := h3
    subst hoo
    simp only [step] at h
    split at h
    · rename_i hg
      simp only [Option.some.injEq] at h; subst h
      obtain ⟨hl, ho, hph, hb, haf⟩ := hg
      refine ⟨by subst haf; simp [upd], ?_, a, ho, hph⟩
      intro hex
      exact hne (by subst hb; subst haf; exact W_ext _ _ rfl hex rfl)
    · simp at h
  | _ => simp [isSetex] at h3

/-- `ObsX x lw le`: like `Obs`, for the restart state: if no transition into pending happened since
    the word `lw` (active) was observed and the object is still active (so, by `Obs`, in the very
    same activation), its restart state is the observed one, or the observed one was still to be
    fetched (not `signaled`) and has been reset since -/
def ObsX (x : Obj) (lw : W) (le : Nat) : Prop :=
  le = x.epoch → lw.st = sActive → x.w.st = sActive →
    (x.w.ex = lw.ex ∨ (lw.ex ≠ exSignaled ∧ x.w.ex = exSignaled))

theorem obsx_now (x : Obj) : ObsX x x.w x.epoch := fun _ _ _ => Or.inl rfl

theorem obsx_step (s s' : St) (e : Ev) (hi : Inv s) (h : step s e = some s') (o : Nat) (lw : W) (le : Nat)
    (hobs : Obs (s.obj o) lw le) (hx : ObsX (s.obj o) lw le) : ObsX (s'.obj o) lw le := by
  intro heq hact hact'
  have hm := (obj_step s s' e h o).1
  have hle := hobs.1
  have he : (s'.obj o).epoch = (s.obj o).epoch := by omega
  have hnp := (hobs.2 (by omega) hact).1
  obtain ⟨h1, _, h3⟩ := ex_step s s' e hi h o he hnp hact'
  have hx0 := hx (by omega) hact h1
  rcases h3 with h3 | h3
  · rw [h3]; exact hx0
  · obtain ⟨h4, h5, _⟩ := setex_eff_step s s' e h o h3
    rcases hx0 with h6 | h6
    · right; exact ⟨by rw [← h6]; exact h5, h4⟩
    · exact absurd h6.2 h5

structure InvX (s : St) : Prop where
  helpers : ∀ o h, h ∈ (s.obj o).helpers → ObsX (s.obj o) h.1 h.2
  loaded : ∀ a o lw le, (s.act a).sts = .loaded o lw le → ObsX (s.obj o) lw le
  sas : ∀ a o cur prev he ce, (s.act a).sas = some (o, cur, prev, he, ce) → he = ce → cur.st = sActive →
      (cur.ex = prev.ex ∨ (prev.ex ≠ exSignaled ∧ cur.ex = exSignaled))

theorem invx_init : InvX init := by
  refine ⟨?_, ?_, ?_⟩
  · intro o h hm; simp [init] at hm
  · intro a o lw le hm; simp [init] at hm
  · intro a o c p he ce hm; simp [init] at hm

theorem step_invx (s s' : St) (e : Ev) (hi : Inv2 s) (hx : InvX s) (h : step s e = some s') : InvX s' := by
  refine ⟨?_, ?_, ?_⟩
  · intro o hp hm
    rcases helpers_step s s' e h o hp hm with hk | ⟨a, hk⟩
    · exact obsx_step s s' e hi.obj h o hp.1 hp.2 (hi.helpers o hp hk) (hx.helpers o hp hk)
    · exact obsx_step s s' e hi.obj h o hp.1 hp.2 (hi.loaded a o hp.1 hp.2 hk) (hx.loaded a o hp.1 hp.2 hk)
  · intro a o lw le hm
    rcases loaded_step s s' e h a o lw le hm with hk | ⟨h1, h2⟩
    · exact obsx_step s s' e hi.obj h o lw le (hi.loaded a o lw le hk) (hx.loaded a o lw le hk)
    · subst h1; subst h2; exact obsx_now _
  · intro a o cur prev he ce hm heq hc
    rcases sas_step s s' e h a o cur prev he ce hm with hk | ⟨h1, h2, h3⟩
    · exact hx.sas a o cur prev he ce hk heq hc
    · have hact := (hi.obj o).helpersActive (prev, he) h1
      subst h2; subst h3
      exact hx.helpers o (prev, he) h1 heq hact hc

theorem invx_of_accepted {log : List Ev} {s : St} (h : runLog step init log = some s) : Inv2 s ∧ InvX s :=
  inv_of_runLog (fun s => Inv2 s ∧ InvX s)
    (fun s e s' hh hs => ⟨step_inv2 s s' e hh.1 hs, step_invx s s' e hh.1 hh.2 hs⟩) ⟨inv2_init, invx_init⟩ h

/-- within one activation (no transition into pending, target not pending at the start and active
    at the end) the tag is constant and the restart state changes only by an effective `setex` -/
theorem ex_log (o : Nat) : ∀ (seg : List Ev) (s s' : St), Inv s → runLog step s seg = some s' →
    (s'.obj o).epoch = (s.obj o).epoch → pendingish (s.obj o).w = false → (s'.obj o).w.st = sActive →
    (s.obj o).w.st = sActive ∧ (s'.obj o).w.tag = (s.obj o).w.tag ∧
      ((s'.obj o).w.ex = (s.obj o).w.ex ∨ seg.any (isSetex o) = true) := by
  intro seg
  induction seg with
  | nil => intro s s' _ h _ _ ha; simp at h; subst h; exact ⟨ha, rfl, Or.inl rfl⟩
  | cons e es ih =>
    intro s s' hi h heq hnp hact
    simp only [runLog] at h
    cases hs : step s e with
    | none => simp [hs] at h
    | some s1 =>
      simp only [hs] at h
      have h1 := obj_step s s1 e hs o
      have h2 := obj_log es s1 s' h o
      have e1 : (s1.obj o).epoch = (s.obj o).epoch := by omega
      have hnp1 : pendingish (s1.obj o).w = false := by
        cases hp : pendingish (s1.obj o).w with
        | false => rfl
        | true => have := h1.2 e1 hp; rw [hnp] at this; cases this
      obtain ⟨ha1, ht1, hx1⟩ := ih s1 s' (step_inv s s1 e hi hs) h (by omega) hnp1 hact
      obtain ⟨ha0, ht0, hx0⟩ := ex_step s s1 e hi hs o e1 hnp ha1
      refine ⟨ha0, by omega, ?_⟩
      rcases hx1 with hx1 | hx1
      · rcases hx0 with hx0 | hx0
        · left; rw [hx1, hx0]
        · right; simp [hx0]
      · right; simp [hx1]

/-! ### Quiescence -/

/-- internal events of the protocol model: they continue an operation in progress (same
    classification as `C01.Internal`, which is stated for the model with the coroutine layer).
    Not internal: creation / recycling / destruction of a thread object, the entry of a new wake-up
    request, `abort_all_suspended_threads` (`sw.set` on a suspended thread), the fetch of the restart
    state and the harness' body notes. -/
def Internal : Ev → Bool
  | .new _ _ _ => false
  | .rebind _ _ _ => false
  | .destroy _ _ _ => false
  | .stsEnter _ _ _ => false
  | .setex _ _ _ _ => false
  | .set _ _ before _ => before.st != sSuspended
  | .bodyEnter _ _ => false
  | .bodyExit _ _ => false
  | _ => true

/-- nothing in progress can take a step -/
def Quiescent (s : St) : Prop := ∀ e, Internal e = true → step s e = none

/-- a state in which every constructed object is at rest (scheduled once, no queue entry, holder,
    pusher, owner, no outstanding helper) and no actor is inside `set_thread_state` or
    `set_active_state` is quiescent -/
theorem quiescent_of_rest (s : St)
    (hobj : ∀ o, (s.obj o).live = true → (s.obj o).fresh = false ∧ (s.obj o).q = 0 ∧ (s.obj o).holder = none ∧
      (s.obj o).pusher = none ∧ (s.obj o).owner = none ∧ (s.obj o).helpers = [])
    (hact : ∀ a, (s.act a).sts = .out ∧ (s.act a).sas = none) : Quiescent s := by
  intro e hI
  cases e with
  | new a o w => simp [Internal] at hI
  | rebind a o w => simp [Internal] at hI
  | destroy a o w => simp [Internal] at hI
  | stsEnter a o ns => simp [Internal] at hI
  | setex a o b af => simp [Internal] at hI
  | bodyEnter a o => simp [Internal] at hI
  | bodyExit a o => simp [Internal] at hI
  | set a o b af =>
    simp only [Internal, bne_iff_ne, ne_eq] at hI
    cases hl : (s.obj o).live with
    | false => simp [step, hl]
    | true =>
      obtain ⟨h1, h2, h3, h4, h5, h6⟩ := hobj o hl
      by_cases hb : b = (s.obj o).w
      · subst hb; simp [step, hl, h4, hI]
      · simp [step, hl, hb]
  | push a o | got a o w f | tagged a o b af | phaseBegin a o | phaseEnd a o r | restore1 a o b af
  | sasLoad a o c p =>
    cases hl : (s.obj o).live with
    | false => simp [step, hl]
    | true =>
      obtain ⟨h1, h2, h3, h4, h5, h6⟩ := hobj o hl
      simp [step, hl, h1, h2, h3, h4, h5, h6, (hact a).1, (hact a).2]
  | stsLoad a o w | restore2 a o b af | stsNoop a o | stsHelper a o | stsDone a o | sasAbort a o | sasRetry a o =>
    simp [step, (hact a).1, (hact a).2]

end PikaVerif.Sched
