import PikaVerif.Lemmas.BarrierT4
/-! Helpers of the C09t property theorems (fine barrier model). -/
namespace PikaVerif.BarrierT
open PikaVerif PikaVerif.Barrier

/-- While a thread polls in `wait`, no coarse step of anybody changes its token or the phase index
    of its token, and the number of published phases never decreases. -/
theorem core_flip_stable {c c' : Barrier.St} {e : Barrier.Ev} (h : Barrier.step c e = some c')
    (t : Nat) (hp : c.pc t = .polling) :
    c'.tokIdx t = c.tokIdx t ∧ c'.tok t = c.tok t ∧ c.ph ≤ c'.ph := by
  cases e <;> simp only [Barrier.step] at h <;> (repeat' split at h) <;>
    first
    | (simp at h; done)
    | (simp only [Option.some.injEq] at h; subst h; dsimp only
       first
       | exact ⟨rfl, rfl, Nat.le_refl _⟩
       | exact ⟨rfl, rfl, Nat.le_succ _⟩
       | (simp only [upd]; refine ⟨?_, ?_, Nat.le_refl _⟩ <;> split <;>
            first | rfl | (rename_i he; subst he; simp_all)))

/-- The coarse part of an accepted fine step: either one coarse step on the same variables, or no
    change of the variables the waiters look at. -/
theorem fine_flip_stable {s s' : St} {e : Ev} (h : step s e = some s') (t : Nat)
    (hp : s.c.pc t = .polling) :
    s'.c.tokIdx t = s.c.tokIdx t ∧ s'.c.tok t = s.c.tok t ∧ s.c.ph ≤ s'.c.ph := by
  cases e with
  | c e0 =>
    cases e0 <;> simp only [step] at h <;> (try split at h) <;>
      first
      | (simp at h; done)
      | (simp only [Option.map_eq_some_iff] at h; obtain ⟨c', hc, rfl⟩ := h
         exact core_flip_stable hc t hp)
  | invT t0 o =>
    simp only [step] at h
    cases o <;> first
      | (simp at h; done)
      | (simp only [Option.map_eq_some_iff] at h; obtain ⟨c', hc, rfl⟩ := h
         exact core_flip_stable hc t hp)
  | spinok t0 a b =>
    simp only [step] at h
    split at h
    · simp only [Option.map_eq_some_iff] at h; obtain ⟨c', hc, rfl⟩ := h
      exact core_flip_stable hc t hp
    · simp at h
  | block t0 b =>
    simp only [step] at h
    split at h
    · simp only [Option.some.injEq] at h; subst h; exact ⟨rfl, rfl, Nat.le_refl _⟩
    · simp at h
  | compl t0 =>
    simp only [step] at h
    split at h
    · split at h
      · simp only [Option.some.injEq] at h; subst h; exact ⟨rfl, rfl, Nat.le_refl _⟩
      · simp at h
    · simp at h
  | adjLoad t0 a e =>
    simp only [step] at h
    split at h
    · simp only [Option.some.injEq] at h; subst h; exact ⟨rfl, rfl, Nat.le_refl _⟩
    · simp at h
  | adjStore t0 =>
    simp only [step] at h
    split at h
    · split at h
      · simp only [Option.some.injEq] at h; subst h; exact ⟨rfl, rfl, Nat.le_refl _⟩
      · simp at h
    · simp at h

/-- fine events with which a waiter may leave `wait` project to the coarse poll -/
theorem poll_abs {s s' : St} (hi : FInv s) {t a b : Nat}
    (h : step s (.c (.poll t a b)) = some s' ∨ step s (.spinok t a b) = some s') :
    Barrier.step (abs s) (.poll t a b) = some (abs s') := by
  rcases h with h | h
  · exact (sim s s' _ hi h).1
  · exact (sim s s' _ hi h).1

end PikaVerif.BarrierT
