import PikaVerif.Lemmas.Deque3
/-!
# When is a stabilisation link-CAS of the deque stale?  (follow-up C17s)

`stale` (Model/Deque.lean) is set when the link CAS of `stabilize_left/right` succeeds although the
anchor it was computed for has changed.  This file characterises that event in terms of node
recycling, for both tagging disciplines of `stepG`:

* the **recycling monitor** `Mon` runs beside the model (`stepM`): a thread that passed its second
  `anchor_ != lrs` re-check holds a *link snapshot* `(prev, prevnext)`; `dirty t` records that the
  node `prev` was handed to `pool_.deallocate` (event `free`) while thread `t` held that snapshot;
  `aba` records that a link CAS **succeeded** with a dirty snapshot.
* `TagInv` — the link-tag invariant: the value a snapshot holds is either still the value of the
  link or the link's tag has grown since; and once the anchor has moved on, the tag *has* grown.
  It holds for the pinned tree as long as `aba = false`, and unconditionally for the repaired code
  (`fx = true`, where tags survive recycling).
* consequence (`stale_false_of_aba_false`, `stale_false_fixed`): no stale link CAS.
-/
namespace PikaVerif.Deque
open PikaVerif

/-- recycling monitor -/
structure Mon where
  dirty : Nat → Bool
  aba : Bool

def mon0 : Mon := ⟨fun _ => false, false⟩

/-- the node whose link the thread is about to CAS (it passed the second re-check) -/
def snapNode : Pc → Nat
  | .stLink _ _ _ prev _ => prev.ptr
  | _ => 0

/-- One step of the monitor (uses the state *before* the event).
    `free n`: every thread holding a link snapshot of node `n` becomes dirty;
    `chk`: a (new) snapshot window of the thread starts clean;
    `lcas ok`: a successful link CAS with a dirty snapshot is the ABA event. -/
def monStep (s : St) (m : Mon) : Ev → Mon
  | .free _ n => { m with dirty := fun T => m.dirty T || decide (snapNode (s.pc T) = n) }
  | .chk t _ => { m with dirty := upd m.dirty t false }
  | .lcas t ok => { m with aba := m.aba || (ok && m.dirty t) }
  | _ => m

/-- model and monitor side by side -/
def stepM (fx : Bool) (x : St × Mon) (e : Ev) : Option (St × Mon) :=
  (stepG fx x.1 e).map (fun s' => (s', monStep x.1 x.2 e))

theorem runM_fst {fx : Bool} {log : List Ev} {x y : St × Mon}
    (h : runLog (stepM fx) x log = some y) : runLog (stepG fx) x.1 log = some y.1 := by
  induction log generalizing x with
  | nil => simp at h; subst h; simp
  | cons e es ih =>
    simp only [runLog] at h ⊢
    cases he : stepG fx x.1 e with
    | none => simp [stepM, he] at h
    | some s1 =>
      simp only [stepM, he, Option.map_some] at h
      simpa using ih h

/-- the monitor never blocks: every accepted log of the model is a log of model + monitor -/
theorem runM_exists {fx : Bool} {log : List Ev} {s s' : St} (m : Mon)
    (h : runLog (stepG fx) s log = some s') : ∃ m', runLog (stepM fx) (s, m) log = some (s', m') := by
  induction log generalizing s m with
  | nil => simp at h; subst h; exact ⟨m, by simp⟩
  | cons e es ih =>
    simp only [runLog] at h ⊢
    cases he : stepG fx s e with
    | none => simp [he] at h
    | some s1 =>
      simp only [he] at h
      obtain ⟨m', hm'⟩ := ih (monStep s m e) h
      exact ⟨m', by simp only [stepM, he, Option.map_some]; exact hm'⟩

/-! ## The link-tag invariant -/

/-- the snapshot value `pn` is still current, or the link has been written (tag grew) since -/
def Fresh (pn cur : Link) : Prop := cur = pn ∨ pn.tag < cur.tag

/-- a link word only moves forward -/
def MonoL (l l' : Link) : Prop := l' = l ∨ l.tag < l'.tag

theorem Fresh.mono {pn l l' : Link} (h : Fresh pn l) (hm : MonoL l l') : Fresh pn l' := by
  rcases h with h | h <;> rcases hm with hm | hm
  · left; rw [hm, h]
  · right; rw [← h]; exact hm
  · right; rw [hm]; exact h
  · right; omega

theorem Fresh.le {pn l : Link} (h : Fresh pn l) : pn.tag ≤ l.tag := by
  rcases h with h | h
  · rw [h]; exact Nat.le_refl _
  · omega

theorem lt_mono {pn l l' : Link} (h : pn.tag < l.tag) (hm : MonoL l l') : pn.tag < l'.tag := by
  rcases hm with hm | hm
  · rw [hm]; exact h
  · omega

/-- node a *push* owns (a node in `popFree` is owned too, but is on its way to the freelist) -/
def pushOwned : Pc → Nat
  | .popFree _ _ => 0
  | p => owned p

def isSnap : Pc → Bool
  | .stChk2 _ _ _ _ _ | .stLink _ _ _ _ _ => true
  | _ => false

/-- what the link-tag discipline guarantees to a thread holding a link snapshot -/
def TagOk (fx : Bool) (s : St) (dirty : Bool) : Pc → Prop
  | .stChk2 _ d a prev pn =>
    s.anchor = a → pn.ptr ≠ a.endp d ∧ Fresh pn (outward d (s.nodes prev.ptr))
  | .stLink _ d a prev pn =>
    (fx = true ∨ dirty = false) →
      pn.ptr ≠ a.endp d ∧ Fresh pn (outward d (s.nodes prev.ptr)) ∧
      (s.anchor ≠ a → pn.tag < (outward d (s.nodes prev.ptr)).tag) ∧
      (fx = false → prev.ptr ≠ 0 ∧ s.used prev.ptr = true ∧ ∀ u, pushOwned (s.pc u) ≠ prev.ptr)
  | _ => True

def TagInv (fx : Bool) (s : St) (dirty : Nat → Bool) : Prop :=
  ∀ T, TagOk fx s (dirty T) (s.pc T)

theorem tagOk_of_not_snap {fx : Bool} {s : St} {b : Bool} {p : Pc} (h : isSnap p = false) :
    TagOk fx s b p := by
  cases p <;> simp [isSnap] at h <;> trivial

theorem pushOwned_cases (p : Pc) : pushOwned p = 0 ∨ pushOwned p = owned p := by
  cases p <;> simp [pushOwned]

/-- nobody owns a node of the chain -/
theorem not_owned_of_mem {s : St} (hi : Inv s) {p : Nat} (hp : p ∈ s.chain) (u : Nat) :
    pushOwned (s.pc u) ≠ p := by
  have hp0 := (hi.glob.mem p hp).1
  rcases pushOwned_cases (s.pc u) with h | h
  · rw [h]; exact Ne.symm hp0
  · rw [h]
    by_cases h0 : owned (s.pc u) = 0
    · rw [h0]; exact Ne.symm hp0
    · intro he; exact (hi.own u h0).2 (he ▸ hp)

/-- **Frame lemma**: a step of thread `t` that keeps the anchor, moves link words only forward
    (on the nodes a clean snapshot can refer to), frees no node a clean snapshot refers to and
    starts to own only a node that was free. -/
theorem tagInv_frame {fx : Bool} {s s' : St} {dirty dirty' : Nat → Bool} {t : Nat}
    (hi : Inv s) (hj : TagInv fx s dirty)
    (hA : s'.anchor = s.anchor)
    (hpc : ∀ T, T ≠ t → s'.pc T = s.pc T)
    (hd : ∀ T, T ≠ t → dirty' T = false → dirty T = false)
    (hU : ∀ T, T ≠ t → dirty' T = false → s.used (snapNode (s.pc T)) = true →
      s'.used (snapNode (s.pc T)) = true)
    (hN : ∀ p d, (fx = true ∨ (s.used p = true ∧ ∀ u, pushOwned (s.pc u) ≠ p)) →
      MonoL (outward d (s.nodes p)) (outward d (s'.nodes p)))
    (ho : pushOwned (s'.pc t) = 0 ∨ pushOwned (s'.pc t) = pushOwned (s.pc t) ∨
      s.used (pushOwned (s'.pc t)) = false)
    (ht : TagOk fx s' (dirty' t) (s'.pc t)) : TagInv fx s' dirty' := by
  intro T
  by_cases hT : T = t
  · subst hT; exact ht
  rw [hpc T hT]
  have hTo := hj T
  have hlT := hi.loc T
  cases hp : s.pc T <;> rw [hp] at hTo hlT <;> simp only [TagOk] at hTo ⊢ <;> try trivial
  case stChk2 k d a prev pn =>
    intro hA'
    rw [hA] at hA'
    obtain ⟨h1, h2⟩ := hTo hA'
    simp only [Loc] at hlT
    have hm := (nbr_mem (hlT.2.2 hA')).2
    refine ⟨h1, h2.mono (hN _ _ ?_)⟩
    cases fx
    · exact Or.inr ⟨(hi.glob.mem _ hm).2, fun u => not_owned_of_mem hi hm u⟩
    · exact Or.inl rfl
  case stLink k d a prev pn =>
    intro hl
    have hl' : fx = true ∨ dirty T = false := by
      rcases hl with hl | hl
      · exact Or.inl hl
      · exact Or.inr (hd T hT hl)
    obtain ⟨h1, h2, h3, h4⟩ := hTo hl'
    have safe : fx = true ∨ (s.used prev.ptr = true ∧ ∀ u, pushOwned (s.pc u) ≠ prev.ptr) := by
      cases fx
      · exact Or.inr ⟨(h4 rfl).2.1, (h4 rfl).2.2⟩
      · exact Or.inl rfl
    refine ⟨h1, h2.mono (hN _ _ safe), fun hne => lt_mono (h3 (by rw [← hA]; exact hne)) (hN _ _ safe),
      fun hfx => ?_⟩
    obtain ⟨g1, g2, g3⟩ := h4 hfx
    have hdT : dirty' T = false := by
      rcases hl with hl | hl
      · rw [hfx] at hl; exact absurd hl (by simp)
      · exact hl
    refine ⟨g1, ?_, fun u => ?_⟩
    · have := hU T hT hdT; rw [hp] at this; exact this g2
    · by_cases hu : u = t
      · subst hu
        rcases ho with ho | ho | ho
        · rw [ho]; exact Ne.symm g1
        · rw [ho]; exact g3 u
        · intro he; rw [he, g2] at ho; simp at ho
      · rw [hpc u hu]; exact g3 u

/-- a step that only moves thread `t`'s program counter to a non-snapshot pc -/
theorem tagInv_pc {fx : Bool} {s : St} {dirty dirty' : Nat → Bool} {t : Nat} {p' : Pc}
    (hi : Inv s) (hj : TagInv fx s dirty) (hd : ∀ T, T ≠ t → dirty' T = dirty T)
    (hs : isSnap p' = false)
    (ho : pushOwned p' = 0 ∨ pushOwned p' = pushOwned (s.pc t)) :
    TagInv fx { s with pc := upd s.pc t p' } dirty' := by
  refine tagInv_frame (t := t) hi hj rfl (fun T hT => by simp [upd, hT])
    (fun T hT h => by rw [← hd T hT]; exact h) (fun _ _ _ h => h) (fun _ _ _ => Or.inl rfl) ?_ ?_
  · simp only [upd, if_true]
    rcases ho with ho | ho
    · exact Or.inl ho
    · exact Or.inr (Or.inl ho)
  · simp only [upd, if_true]; exact tagOk_of_not_snap hs

theorem monoL_setOutward (d d' : Bool) (nd : Node) (x tg : Nat) (h : (outward d nd).tag < tg) :
    MonoL (outward d' nd) (outward d' (setOutward d nd ⟨x, tg⟩)) := by
  cases d <;> cases d' <;>
    simp only [MonoL, outward, setOutward, Bool.false_eq_true, ↓reduceIte] at h ⊢ <;>
    first | (left; rfl) | (right; exact h) | simp

theorem isSnap_kont (k : Kont) : isSnap (kont k) = false := by cases k <;> rfl
theorem pushOwned_kont (k : Kont) : pushOwned (kont k) = ownedK k := by cases k <;> rfl

/-- side goals about `isSnap` / `pushOwned` of the new program counter -/
macro "po" hpc:ident : tactic => `(tactic| (
  (try simp only [pushOwned_kont, isSnap_kont, Bool.false_eq_true, ↓reduceIte])
  (try simp [pushOwned, owned, ownedK, isSnap, $hpc:ident])))

/-- events that only move a program counter between non-snapshot pcs -/
macro "tag_pc_only" hi:ident hj:ident h:ident : tactic => `(tactic| (
  simp only [stepG] at $h:ident
  (repeat' split at $h:ident) <;> first
    | (simp at $h:ident; done)
    | (simp only [Option.some.injEq] at $h:ident; subst $h:ident
       refine ⟨rfl, tagInv_pc $hi $hj (fun _ _ => rfl) ?_ ?_⟩
       · first | rfl | (repeat' split) <;> rfl
       · simp [pushOwned, owned, ownedK, *])))

variable {fx : Bool} {s s' : St} {m : Mon}

theorem tag_inv (hi : Inv s) (hj : TagInv fx s m.dirty) (t : Nat) (p d : Bool) (v : Nat)
    (h : stepG fx s (.inv t p d v) = some s') :
    s'.stale = s.stale ∧ TagInv fx s' (monStep s m (.inv t p d v)).dirty := by
  tag_pc_only hi hj h

theorem tag_ret (hi : Inv s) (hj : TagInv fx s m.dirty) (t : Nat) (ok : Bool) (v : Nat)
    (h : stepG fx s (.ret t ok v) = some s') :
    s'.stale = s.stale ∧ TagInv fx s' (monStep s m (.ret t ok v)).dirty := by
  tag_pc_only hi hj h

theorem tag_done (hi : Inv s) (hj : TagInv fx s m.dirty) (t : Nat)
    (h : stepG fx s (.done t) = some s') :
    s'.stale = s.stale ∧ TagInv fx s' (monStep s m (.done t)).dirty := by
  tag_pc_only hi hj h

theorem tag_ld (hi : Inv s) (hj : TagInv fx s m.dirty) (t : Nat) (a : Anchor)
    (h : stepG fx s (.ld t a) = some s') :
    s'.stale = s.stale ∧ TagInv fx s' (monStep s m (.ld t a)).dirty := by
  tag_pc_only hi hj h

theorem tag_chk (hi : Inv s) (hj : TagInv fx s m.dirty) (t : Nat) (same : Bool)
    (h : stepG fx s (.chk t same) = some s') :
    s'.stale = s.stale ∧ TagInv fx s' (monStep s m (.chk t same)).dirty := by
  have hd : ∀ T, T ≠ t → (monStep s m (.chk t same)).dirty T = m.dirty T := by
    intro T hT; simp [monStep, upd, hT]
  simp only [stepG] at h
  split at h
  case isFalse => simp at h
  split at h
  case h_4 => simp at h
  case h_1 d a hpc =>
    split at h
    case isFalse => simp at h
    simp only [Option.some.injEq] at h; subst h
    exact ⟨rfl, tagInv_pc hi hj hd (by cases same <;> rfl)
      (by cases same <;> simp [pushOwned, owned, hpc])⟩
  case h_2 k d a prev hpc =>
    split at h
    case isFalse => simp at h
    simp only [Option.some.injEq] at h; subst h
    exact ⟨rfl, tagInv_pc hi hj hd (by cases same <;> po hpc)
      (by cases same <;> po hpc)⟩
  case h_3 k d a prev pn hpc =>
    split at h
    case isFalse => simp at h
    rename_i hsame
    simp only [Option.some.injEq] at h; subst h
    cases same
    · exact ⟨rfl, tagInv_pc hi hj hd (by po hpc)
        (by po hpc)⟩
    · have hA : s.anchor = a := by simpa using hsame.symm
      refine ⟨rfl, tagInv_frame (t := t) hi hj rfl (fun T hT => by simp [upd, hT])
        (fun T hT h => by rw [← hd T hT]; exact h) (fun _ _ _ h => h) (fun _ _ _ => Or.inl rfl) ?_ ?_⟩
      · right; left; simp [upd, pushOwned, owned, hpc]
      · have hT := hj t; rw [hpc] at hT; simp only [TagOk] at hT
        obtain ⟨h1, h2⟩ := hT hA
        have hl := hi.loc t; rw [hpc] at hl; simp only [Loc] at hl
        have hm := (nbr_mem (hl.2.2 hA)).2
        simp only [upd, if_true, TagOk]
        intro _
        refine ⟨h1, h2, fun hne => absurd hA hne,
          fun _ => ⟨(hi.glob.mem _ hm).1, (hi.glob.mem _ hm).2, fun u => ?_⟩⟩
        by_cases hu : u = t
        · subst hu
          have := not_owned_of_mem hi hm u; rw [hpc] at this
          simpa [upd, pushOwned, owned] using this
        · simp only [hu, if_false]; exact not_owned_of_mem hi hm u

theorem tag_rd (hi : Inv s) (hj : TagInv fx s m.dirty) (t : Nat) (lk : Link)
    (h : stepG fx s (.rd t lk) = some s') :
    s'.stale = s.stale ∧ TagInv fx s' (monStep s m (.rd t lk)).dirty := by
  simp only [stepG] at h
  split at h
  case isFalse => simp at h
  split at h
  case h_4 => simp at h
  case h_1 d a hpc =>
    split at h
    case isFalse => simp at h
    simp only [Option.some.injEq] at h; subst h
    exact ⟨rfl, tagInv_pc hi hj (fun _ _ => rfl) rfl (by simp [pushOwned, owned, hpc])⟩
  case h_2 k d a hpc =>
    split at h
    case isFalse => simp at h
    simp only [Option.some.injEq] at h; subst h
    exact ⟨rfl, tagInv_pc hi hj (fun _ _ => rfl) rfl (by simp [pushOwned, owned, hpc])⟩
  case h_3 k d a prev hpc =>
    split at h
    case isFalse => simp at h
    rename_i hg
    simp only [Option.some.injEq] at h; subst h
    by_cases hptr : lk.ptr ≠ a.endp d
    · rw [if_pos hptr]
      refine ⟨rfl, tagInv_frame (t := t) hi hj rfl (fun T hT => by simp [upd, hT])
        (fun _ _ h => h) (fun _ _ _ h => h) (fun _ _ _ => Or.inl rfl) ?_ ?_⟩
      · right; left; simp [upd, pushOwned, owned, hpc]
      · simp only [upd, if_true, TagOk]
        intro hA
        refine ⟨hptr, Or.inl ?_⟩
        have hl := hi.loc t; rw [hpc] at hl; simp only [Loc] at hl
        have hm := (nbr_mem (hl.2.2 hA)).2
        have hu := (hi.glob.mem _ hm).2
        rcases hg.2 with ⟨hg2, _⟩ | hg2
        · simp [unknownLeft, hu] at hg2
        · exact hg2.symm
    · rw [if_neg hptr]
      exact ⟨rfl, tagInv_pc hi hj (fun _ _ => rfl) rfl (by simp [pushOwned, owned, hpc])⟩

theorem tag_alloc (hi : Inv s) (hj : TagInv fx s m.dirty) (t n : Nat)
    (h : stepG fx s (.alloc t n) = some s') :
    s'.stale = s.stale ∧ TagInv fx s' (monStep s m (.alloc t n)).dirty := by
  simp only [stepG] at h
  split at h
  case isFalse => simp at h
  rename_i hg
  obtain ⟨htn, hn0, hun⟩ := hg
  split at h
  case h_2 => simp at h
  rename_i d v hpc
  simp only [Option.some.injEq] at h; subst h
  refine ⟨rfl, tagInv_frame (t := t) hi hj rfl (fun T hT => by simp [upd, hT]) (fun _ _ h => h)
    ?_ ?_ ?_ ?_⟩
  · intro T _ _ hu; simp only [upd]; split <;> simp [hu]
  · intro p d' hs
    by_cases hpn : p = n
    · subst hpn
      rcases hs with hs | hs
      · subst hs; right; simp only [upd, if_true]; cases d' <;> simp [outward, newTag]
      · rw [hun] at hs; simp at hs
    · left; simp [upd, hpn]
  · right; right; simp [upd, pushOwned, owned, hun]
  · simp [upd, TagOk]

theorem tag_link (hi : Inv s) (hj : TagInv fx s m.dirty) (t n tgt : Nat)
    (h : stepG fx s (.link t n tgt) = some s') :
    s'.stale = s.stale ∧ TagInv fx s' (monStep s m (.link t n tgt)).dirty := by
  simp only [stepG] at h
  split at h
  case isFalse => simp at h
  split at h
  case h_2 => simp at h
  rename_i d mm a hpc
  split at h
  case isFalse => simp at h
  simp only [Option.some.injEq] at h; subst h
  refine ⟨rfl, tagInv_frame (t := t) hi hj rfl (fun T hT => by simp [upd, hT]) (fun _ _ h => h)
    (fun _ _ _ h => h) ?_ ?_ ?_⟩
  · intro p d' hs
    by_cases hpm : p = mm
    · subst hpm
      rcases hs with hs | hs
      · subst hs; simp only [upd, if_true]
        cases d <;> cases d' <;> simp [MonoL, outward, setInward, inward, newTag]
      · exfalso; have := hs.2 t; rw [hpc] at this; exact this rfl
    · left; simp [upd, hpm]
  · right; left; simp [upd, pushOwned, owned, hpc]
  · simp [upd, TagOk]

theorem tag_free (hi : Inv s) (hj : TagInv fx s m.dirty) (t n : Nat)
    (h : stepG fx s (.free t n) = some s') :
    s'.stale = s.stale ∧ TagInv fx s' (monStep s m (.free t n)).dirty := by
  simp only [stepG] at h
  split at h
  case isFalse => simp at h
  split at h
  case h_2 => simp at h
  rename_i mm v hpc
  split at h
  case isFalse => simp at h
  rename_i hnm
  subst hnm
  simp only [Option.some.injEq] at h; subst h
  refine ⟨rfl, tagInv_frame (t := t) hi hj rfl (fun T hT => by simp [upd, hT]) ?_ ?_
    (fun _ _ _ => Or.inl rfl) ?_ ?_⟩
  · intro T _ h
    simp only [monStep, Bool.or_eq_false_iff] at h; exact h.1
  · intro T _ h hu
    simp only [monStep, Bool.or_eq_false_iff, decide_eq_false_iff_not] at h
    simp only [upd]; rw [if_neg h.2]; exact hu
  · left; simp [upd, pushOwned, owned]
  · simp [upd, TagOk]

theorem tag_lcas (hi : Inv s) (hj : TagInv fx s m.dirty) (t : Nat) (ok : Bool)
    (h : stepG fx s (.lcas t ok) = some s')
    (hm : fx = true ∨ (monStep s m (.lcas t ok)).aba = false) :
    s'.stale = s.stale ∧ TagInv fx s' (monStep s m (.lcas t ok)).dirty := by
  simp only [stepG] at h
  split at h
  case isFalse => simp at h
  split at h
  case h_2 => simp at h
  rename_i k d a prev pn hpc
  split at h
  case isFalse => simp at h
  rename_i hg
  split at h
  · rename_i hok
    subst hok
    simp only [Option.some.injEq] at h; subst h
    have hlive : fx = true ∨ m.dirty t = false := by
      rcases hm with hm | hm
      · exact Or.inl hm
      · right; simp only [monStep, Bool.true_and, Bool.or_eq_false_iff] at hm; exact hm.2
    have hT := hj t; rw [hpc] at hT; simp only [TagOk] at hT
    obtain ⟨h1, h2, h3, h4⟩ := hT hlive
    have htag : (outward d (s.nodes prev.ptr)).tag = pn.tag := by
      rcases hg with ⟨hu, hfx⟩ | hg
      · cases fx
        · have := (h4 rfl).2.1; simp [unknownLeft, this] at hu
        · exact hfx rfl rfl
      · have : outward d (s.nodes prev.ptr) = pn := by simpa using hg.symm
        rw [this]
    have hA : s.anchor = a := by
      apply Classical.byContradiction; intro hne; have := h3 hne; omega
    refine ⟨by simp [hA], tagInv_frame (t := t) hi hj rfl (fun T hT => by simp [upd, hT])
      (fun _ _ h => h) (fun _ _ _ h => h) ?_ ?_ ?_⟩
    · intro p d' _
      by_cases hpp : p = prev.ptr
      · subst hpp; simp only [upd, if_true]
        exact monoL_setOutward d d' _ _ _ (by rw [htag]; exact Nat.lt_succ_self _)
      · left; simp [upd, hpp]
    · right; left; simp [upd, pushOwned, owned, hpc]
    · simp [upd, TagOk]
  · simp only [Option.some.injEq] at h; subst h
    exact ⟨rfl, tagInv_pc hi hj (fun _ _ => rfl) (isSnap_kont k)
      (by po hpc)⟩

/-- a successful anchor CAS of thread `t` -/
theorem tagInv_cas {dirty : Nat → Bool} {t : Nat} (hi : Inv s) (hj : TagInv fx s dirty)
    (p' : Pc) (A' : Anchor) (C' pu po : List Nat)
    (hA : s.anchor.tag < A'.tag) (hs : isSnap p' = false)
    (ho : pushOwned p' = 0 ∨ pushOwned p' = pushOwned (s.pc t))
    (hkey : ∀ T k d a prev pn, s.pc T = .stLink k d a prev pn → s.anchor = a →
        Nbr d s.chain (a.endp d) prev.ptr → a.st = pushSt d →
        (outward d (s.nodes prev.ptr)).ptr = a.endp d) :
    TagInv fx { s with anchor := A', chain := C', pushed := pu, popped := po,
                       pc := upd s.pc t p' } dirty := by
  intro T
  by_cases hT : T = t
  · subst hT; simp only [upd, if_true]; exact tagOk_of_not_snap hs
  simp only [upd, hT, if_false]
  have hTo := hj T
  have hlT := hi.loc T
  have htT := hi.tags T
  cases hp : s.pc T <;> rw [hp] at hTo hlT htT <;> simp only [TagOk] at hTo ⊢ <;> try trivial
  case stChk2 k d a prev pn =>
    intro hA'; exfalso; simp only [heldTag] at htT; subst hA'; omega
  case stLink k d a prev pn =>
    intro hl
    obtain ⟨h1, h2, h3, h4⟩ := hTo hl
    simp only [Loc] at hlT
    refine ⟨h1, h2, fun _ => ?_, fun hfx => ?_⟩
    · by_cases hsa : s.anchor = a
      · have := hkey T k d a prev pn hp hsa (hlT.2.2 hsa) hlT.2.1
        rcases h2 with h2 | h2
        · exfalso; rw [h2] at this; exact h1 this
        · exact h2
      · exact h3 hsa
    · obtain ⟨g1, g2, g3⟩ := h4 hfx
      refine ⟨g1, g2, fun u => ?_⟩
      by_cases hu : u = t
      · subst hu; simp only [upd, if_true]
        rcases ho with ho | ho
        · rw [ho]; exact Ne.symm g1
        · rw [ho]; exact g3 u
      · simp only [upd, hu, if_false]; exact g3 u

theorem pushSt_ne_zero (d : Bool) : pushSt d ≠ 0 := by cases d <;> simp

theorem tag_cas (hi : Inv s) (hj : TagInv fx s m.dirty) (t : Nat) (ok : Bool)
    (h : stepG fx s (.cas t ok) = some s') :
    s'.stale = s.stale ∧ TagInv fx s' (monStep s m (.cas t ok)).dirty := by
  simp only [stepG] at h
  split at h
  case isFalse => simp at h
  have hl := hi.loc t
  split at h
  case h_6 => simp at h
  case h_1 d n a hpc =>
    split at h
    case isFalse => simp at h
    rename_i hok
    rw [hpc] at hl; simp only [Loc] at hl
    split at h
    · simp only [Option.some.injEq] at h; subst h
      subst hok
      simp only [decide_eq_true_eq] at *
      rename_i hA; subst hA
      refine ⟨trivial, tagInv_cas hi hj _ _ _ _ _ (by simp) rfl (by simp [pushOwned, owned]) ?_⟩
      intro T k d' a' prev pn _ hsa hn _
      exfalso
      have hnil := hi.glob.nil_of_end d hl.2
      have := (nbr_mem hn).1; rw [hnil] at this; simp at this
    · simp only [Option.some.injEq] at h; subst h
      exact ⟨rfl, tagInv_pc hi hj (fun _ _ => rfl) rfl (by simp [pushOwned, owned, hpc])⟩
  case h_2 d n a hpc =>
    split at h
    case isFalse => simp at h
    rename_i hok
    rw [hpc] at hl; simp only [Loc] at hl
    split at h
    · simp only [Option.some.injEq] at h; subst h
      subst hok
      simp only [decide_eq_true_eq] at *
      rename_i hA; subst hA
      refine ⟨trivial, tagInv_cas hi hj _ _ _ _ _ (by cases d <;> simp) rfl
        (by simp [pushOwned, owned, ownedK]) ?_⟩
      intro T k d' a' prev pn _ hsa _ hst
      exfalso; subst hsa; rw [hl.2.2.1] at hst; exact pushSt_ne_zero d' hst.symm
    · simp only [Option.some.injEq] at h; subst h
      exact ⟨rfl, tagInv_pc hi hj (fun _ _ => rfl) rfl (by simp [pushOwned, owned, hpc])⟩
  case h_3 d a hpc =>
    split at h
    case isFalse => simp at h
    rename_i hok
    rw [hpc] at hl; simp only [Loc] at hl
    split at h
    · simp only [Option.some.injEq] at h; subst h
      subst hok
      simp only [decide_eq_true_eq] at *
      rename_i hA; subst hA
      refine ⟨trivial, tagInv_cas hi hj _ _ _ _ _ (by simp) rfl (by simp [pushOwned]) ?_⟩
      intro T k d' a' prev pn _ hsa _ hst
      exfalso; subst hsa
      exact hi.glob.ends_ne_of_st (by rw [hst]; exact pushSt_ne_zero d') hl.1
    · simp only [Option.some.injEq] at h; subst h
      exact ⟨rfl, tagInv_pc hi hj (fun _ _ => rfl) rfl (by simp [pushOwned, owned, hpc])⟩
  case h_4 d a prev hpc =>
    split at h
    case isFalse => simp at h
    rename_i hok
    rw [hpc] at hl; simp only [Loc] at hl
    split at h
    · simp only [Option.some.injEq] at h; subst h
      subst hok
      simp only [decide_eq_true_eq] at *
      rename_i hA; subst hA
      refine ⟨trivial, tagInv_cas hi hj _ _ _ _ _ (by cases d <;> simp) rfl (by simp [pushOwned]) ?_⟩
      intro T k d' a' prev' pn _ hsa _ hst
      exfalso; subst hsa; rw [hl.2.1] at hst; exact pushSt_ne_zero d' hst.symm
    · simp only [Option.some.injEq] at h; subst h
      exact ⟨rfl, tagInv_pc hi hj (fun _ _ => rfl) rfl (by simp [pushOwned, owned, hpc])⟩
  case h_5 k d a hpc =>
    split at h
    case isFalse => simp at h
    rename_i hok
    rw [hpc] at hl; simp only [Loc] at hl
    split at h
    · simp only [Option.some.injEq] at h; subst h
      subst hok
      simp only [decide_eq_true_eq] at *
      rename_i hA; subst hA
      refine ⟨trivial, tagInv_cas hi hj _ _ _ _ _ (by simp) (isSnap_kont k)
        (by po hpc) ?_⟩
      intro T k' d' a' prev pn _ hsa hn hst
      subst hsa
      have hd : d' = d := by
        have := hl.2.1; rw [hst] at this
        cases d <;> cases d' <;> simp at this <;> rfl
      subst hd
      exact hl.2.2 rfl _ hn
    · simp only [Option.some.injEq] at h; subst h
      exact ⟨rfl, tagInv_pc hi hj (fun _ _ => rfl) (isSnap_kont k)
        (by po hpc)⟩

theorem tag_step {e : Ev} (hi : Inv s) (hj : TagInv fx s m.dirty)
    (h : stepG fx s e = some s') (hm : fx = true ∨ (monStep s m e).aba = false) :
    s'.stale = s.stale ∧ TagInv fx s' (monStep s m e).dirty := by
  cases e with
  | inv t p d v => exact tag_inv hi hj t p d v h
  | alloc t n => exact tag_alloc hi hj t n h
  | ld t a => exact tag_ld hi hj t a h
  | chk t b => exact tag_chk hi hj t b h
  | rd t lk => exact tag_rd hi hj t lk h
  | link t n g => exact tag_link hi hj t n g h
  | lcas t ok => exact tag_lcas hi hj t ok h hm
  | cas t ok => exact tag_cas hi hj t ok h
  | free t n => exact tag_free hi hj t n h
  | ret t ok v => exact tag_ret hi hj t ok v h
  | done t => exact tag_done hi hj t h

theorem aba_mono (s : St) (m : Mon) (e : Ev) (h : (monStep s m e).aba = false) : m.aba = false := by
  cases e <;> simp only [monStep] at h <;> first | exact h | (simp at h; exact h.1)

/-- everything the model + monitor run guarantees as long as no link CAS succeeded on a snapshot
    whose node was freed (pinned tree), resp. unconditionally (repaired code) -/
def Good (fx : Bool) (x : St × Mon) : Prop :=
  (fx = true ∨ x.2.aba = false) → x.1.stale = false ∧ Inv x.1 ∧ TagInv fx x.1 x.2.dirty

theorem good_init (fx : Bool) (n : Nat) : Good fx (init n, mon0) := by
  intro _
  refine ⟨rfl, inv_init n, fun T => ?_⟩
  simp [init, TagOk]

theorem good_step {x y : St × Mon} {e : Ev} (hg : Good fx x) (h : stepM fx x e = some y) :
    Good fx y := by
  obtain ⟨s, m⟩ := x
  simp only [stepM] at h
  cases he : stepG fx s e with
  | none => simp [he] at h
  | some s1 =>
    simp only [he, Option.map_some, Option.some.injEq] at h
    subst h
    intro hy
    have hx : fx = true ∨ m.aba = false := by
      rcases hy with hy | hy
      · exact Or.inl hy
      · exact Or.inr (aba_mono s m e hy)
    obtain ⟨h1, h2, h3⟩ := hg hx
    obtain ⟨k1, k2⟩ := tag_step h2 h3 he hy
    have hs1 : s1.stale = false := by rw [k1]; exact h1
    exact ⟨hs1, step_inv h2 he hs1, k2⟩

theorem good_of_run {n : Nat} {log : List Ev} {y : St × Mon}
    (h : runLog (stepM fx) (init n, mon0) log = some y) : Good fx y :=
  inv_of_runLog (Good fx) (fun _ _ _ hg hs => good_step hg hs) (good_init fx n) h

/-- **Pinned tree**: if no link CAS succeeded on a node that was freed while the thread held its
    link snapshot, then no link CAS was stale, and the invariant of `Lemmas/Deque2` holds. -/
theorem stale_false_of_aba_false {n : Nat} {log : List Ev} {s : St} {m : Mon}
    (h : runLog (stepM false) (init n, mon0) log = some (s, m)) (hm : m.aba = false) :
    s.stale = false ∧ Inv s := by
  have := good_of_run h (Or.inr hm)
  exact ⟨this.1, this.2.1⟩

/-- **Repaired code**: no link CAS is ever stale. -/
theorem stale_false_fixed {n : Nat} {log : List Ev} {s : St}
    (h : runLog (stepG true) (init n) log = some s) : s.stale = false ∧ Inv s := by
  obtain ⟨m', hm'⟩ := runM_exists mon0 h
  have := good_of_run hm' (Or.inl rfl)
  exact ⟨this.1, this.2.1⟩

/-- a pop takes its "return false" branch only on an empty chain (any tagging discipline) -/
theorem pop_false_only_if_empty_G {fx : Bool} {s s' : St} (hi : Inv s) (t : Nat) (a : Anchor)
    (d : Bool) (hpc : s.pc t = .popLd d) (hstep : stepG fx s (.ld t a) = some s')
    (hret : s'.pc t = .retn false 0) : contents s = [] := by
  simp only [stepG] at hstep
  split at hstep
  case isFalse => simp at hstep
  rename_i hg
  obtain ⟨_, ha⟩ := hg
  subst ha
  rw [hpc] at hstep
  simp only [Option.some.injEq] at hstep
  subst hstep
  simp only [upd_same] at hret
  by_cases h0 : s.anchor.endp d = 0
  · simp [contents, hi.glob.nil_of_end d h0]
  · simp only [h0, if_false] at hret
    split at hret
    · simp at hret
    · split at hret <;> simp at hret

/-- conservation consequences of the invariant -/
theorem conc_of_inv {s : St} (hi : Inv s) :
    s.pushed.Perm (s.popped ++ contents s) ∧
    (∀ v, s.popped.count v ≤ s.pushed.count v) ∧
    (s.chain = [] → s.popped.Perm s.pushed) := by
  refine ⟨hi.cons, ?_, ?_⟩
  · intro v
    have := hi.cons.count_eq v
    rw [List.count_append] at this
    omega
  · intro hc
    have := hi.cons
    simp only [contents, hc, List.map_nil, List.append_nil] at this
    exact this.symm

end PikaVerif.Deque
