import PikaVerif.Lemmas.Elastic
/-! Lemmas for the refusal clause of C19: the configuration never changes, and while an actor is
`refused` (fixed tree) it cannot come to hold a pu mutex for a suspension. -/
namespace PikaVerif.Elastic
open PikaVerif

theorem step_cfg (s s' : St) (e : Ev) (h : step s e = some s') : s'.cfg = s.cfg := by
  cases e <;> simp only [step] at h <;> (repeat' split at h) <;>
    first | (simp at h; done) | (simp only [Option.some.injEq] at h; subst h; rfl)


/-- actor `a` holds no pu mutex for a suspension -/
def NoSusp (s : St) (a : Nat) : Prop := ∀ w, (s.wk w).lk ≠ some (a, .susp)

theorem refused_step (s s' : St) (e : Ev) (a : Nat) (hc : s.cfg.refuseReturns = true)
    (ha : s.apc a = .refused) (hn : NoSusp s a) (h : step s e = some s') :
    NoSusp s' a ∧ (s'.apc a = .refused ∨ e = .ret a) := by
  have hm : mayAct s a = false := by simp [mayAct, ha, hc]
  cases e <;> simp only [step] at h <;> (repeat' split at h) <;>
    first
    | (simp at h; done)
    | (simp only [Option.some.injEq] at h; subst h
       refine ⟨?_, ?_⟩
       · intro w'
         have := hn w'
         first | exact this | (simp only [upd]; split <;> grind)
       · first | (left; exact ha) | (simp only [upd]; split <;> grind) | grind [upd])

theorem refused_log (a : Nat) (log : List Ev) : ∀ (s s' : St), s.cfg.refuseReturns = true →
    s.apc a = .refused → NoSusp s a → runLog step s log = some s' → Ev.ret a ∉ log →
    s'.apc a = .refused ∧ NoSusp s' a ∧ s'.cfg.refuseReturns = true := by
  induction log with
  | nil => intro s s' hc ha hn h _; simp at h; subst h; exact ⟨ha, hn, hc⟩
  | cons e es ih =>
    intro s s' hc ha hn h hnot
    simp only [runLog] at h
    cases hs : step s e with
    | none => simp [hs] at h
    | some s1 =>
      simp only [hs] at h
      have h1 := refused_step s s1 e a hc ha hn hs
      have hc1 : s1.cfg.refuseReturns = true := by rw [step_cfg s s1 e hs]; exact hc
      have hne : e ≠ Ev.ret a := fun he => hnot (by simp [he])
      have ha1 : s1.apc a = .refused := by
        cases h1.2 with
        | inl h => exact h
        | inr h => exact absurd h hne
      exact ih s1 s' hc1 ha1 h1.1 h (fun hm => hnot (List.mem_cons_of_mem _ hm))


end PikaVerif.Elastic
