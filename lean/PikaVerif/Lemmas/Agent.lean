import PikaVerif.Model.Agent
/-!
Invariant of the `default_agent` hand-shake model (variant `.code`) and its preservation.
-/
namespace PikaVerif.Agent
open PikaVerif

def b2n (b : Bool) : Nat := if b then 1 else 0

def Pc.isSWait : Pc → Bool
  | .sWait _ => true
  | _ => false

def Pc.isRDone : Pc → Bool
  | .rDone _ => true
  | _ => false

/-- 1 iff the mutex is held by a resumer that has already executed `running_ = true`. -/
def doneHeld (s : St) : Nat :=
  match s.mtx with
  | some t => b2n (s.pc t).isRDone
  | none => 0

/-- 1 iff the owner has been resumed but has not yet returned from `suspend`. -/
def pendRet (s : St) : Nat :=
  b2n (decide (s.pc s.owner = .sHold2) || ((s.pc s.owner).isSWait && s.running))

structure Inv (s : St) : Prop where
  own : ∀ t, t ≠ s.owner → (s.pc t).inSuspend = false ∧ s.pc t ≠ .sleeping
  ownR : (s.pc s.owner).inResume = false
  mtx1 : ∀ t, (s.pc t).holds = true → s.mtx = some t
  mtx2 : ∀ t, s.mtx = some t → (s.pc t).holds = true
  run1 : s.running = false → (s.pc s.owner).isSWait = true
  run2 : s.pc s.owner = .sWait false → s.running = false
  run3 : ∀ t ab, s.pc t = .rWait ab false → s.running = true
  run4 : ∀ t ab, s.pc t = .rSet ab → s.running = false
  cnt1 : s.gos + b2n (!s.running) = s.parks
  cnt2 : s.sRets + pendRet s = s.gos
  cnt3 : s.rRets + doneHeld s = s.gos

theorem inv_init (ow : Nat) : Inv (init ow) := by
  refine ⟨?_, ?_, ?_, ?_, ?_, ?_, ?_, ?_, ?_, ?_, ?_⟩ <;>
    simp [init, Pc.inSuspend, Pc.inResume, Pc.holds, Pc.isSWait, b2n, pendRet, doneHeld]

theorem step_owner (v : Variant) (s s' : St) (e : Ev) (h : step v s e = some s') : s'.owner = s.owner := by
  cases e <;> simp only [step] at h <;> (repeat' split at h) <;>
    first | (simp at h; done) | (simp only [Option.some.injEq] at h; subst h; rfl)

attribute [local grind] Pc.inSuspend Pc.inResume Pc.holds Pc.isSWait Pc.isRDone b2n pendRet doneHeld
  wakeResumers wakeOwner

set_option hygiene false in
macro "agent_step" : tactic => `(tactic| (
  simp only [step] at h
  obtain ⟨h1,h2,h3,h4,h5,h6,h7,h8,h9,h10,h11⟩ := hi
  repeat' split at h
  all_goals first | (simp at h; done) | skip
  all_goals (
    simp only [Option.some.injEq] at h
    subst h
    refine ⟨?_, ?_, ?_, ?_, ?_, ?_, ?_, ?_, ?_, ?_, ?_⟩ <;> try dsimp only
  )
  all_goals first
    | assumption
    | (intro u; grind [upd])
    | grind [upd]))

theorem step_inv_yield (s s' : St) (t : Nat) (hi : Inv s) (h : step .code s (.yield t) = some s') : Inv s' := by agent_step
theorem step_inv_sleepB (s s' : St) (t : Nat) (hi : Inv s) (h : step .code s (.sleepB t) = some s') : Inv s' := by agent_step
theorem step_inv_sleepE (s s' : St) (t : Nat) (hi : Inv s) (h : step .code s (.sleepE t) = some s') : Inv s' := by agent_step
theorem step_inv_sCall (s s' : St) (t : Nat) (hi : Inv s) (h : step .code s (.sCall t) = some s') : Inv s' := by agent_step
theorem step_inv_sAcq (s s' : St) (t : Nat) (hi : Inv s) (h : step .code s (.sAcq t) = some s') : Inv s' := by agent_step
theorem step_inv_sPark (s s' : St) (t : Nat) (hi : Inv s) (h : step .code s (.sPark t) = some s') : Inv s' := by agent_step
theorem step_inv_sWake (s s' : St) (t : Nat) (r : Bool) (hi : Inv s) (h : step .code s (.sWake t r) = some s') : Inv s' := by agent_step
theorem step_inv_sRet (s s' : St) (t : Nat) (ab : Bool) (hi : Inv s) (h : step .code s (.sRet t ab) = some s') : Inv s' := by agent_step
theorem step_inv_rCall (s s' : St) (t : Nat) (ab : Bool) (hi : Inv s) (h : step .code s (.rCall t ab) = some s') : Inv s' := by agent_step
theorem step_inv_rAcq (s s' : St) (t : Nat) (hi : Inv s) (h : step .code s (.rAcq t) = some s') : Inv s' := by agent_step
theorem step_inv_rChk (s s' : St) (t : Nat) (r : Bool) (hi : Inv s) (h : step .code s (.rChk t r) = some s') : Inv s' := by agent_step
theorem step_inv_rWake (s s' : St) (t : Nat) (hi : Inv s) (h : step .code s (.rWake t) = some s') : Inv s' := by agent_step
theorem step_inv_rGo (s s' : St) (t : Nat) (hi : Inv s) (h : step .code s (.rGo t) = some s') : Inv s' := by agent_step
theorem step_inv_rRel (s s' : St) (t : Nat) (hi : Inv s) (h : step .code s (.rRel t) = some s') : Inv s' := by agent_step
theorem step_inv_spur (s s' : St) (t : Nat) (hi : Inv s) (h : step .code s (.spur t) = some s') : Inv s' := by agent_step

theorem step_inv (s : St) (e : Ev) (s' : St) (hi : Inv s) (h : step .code s e = some s') : Inv s' := by
  cases e with
  | yield t => exact step_inv_yield s s' t hi h
  | sleepB t => exact step_inv_sleepB s s' t hi h
  | sleepE t => exact step_inv_sleepE s s' t hi h
  | sCall t => exact step_inv_sCall s s' t hi h
  | sAcq t => exact step_inv_sAcq s s' t hi h
  | sPark t => exact step_inv_sPark s s' t hi h
  | sWake t r => exact step_inv_sWake s s' t r hi h
  | sRet t ab => exact step_inv_sRet s s' t ab hi h
  | rCall t ab => exact step_inv_rCall s s' t ab hi h
  | rAcq t => exact step_inv_rAcq s s' t hi h
  | rChk t r => exact step_inv_rChk s s' t r hi h
  | rWake t => exact step_inv_rWake s s' t hi h
  | rGo t => exact step_inv_rGo s s' t hi h
  | rRel t => exact step_inv_rRel s s' t hi h
  | spur t => exact step_inv_spur s s' t hi h

theorem inv_of_accepted {ow : Nat} {log : List Ev} {s : St}
    (h : runLog (step .code) (init ow) log = some s) : Inv s :=
  inv_of_runLog Inv step_inv (inv_init ow) h

/-- (any variant) a state in which every thread is outside the agent or inside an OS wait without a pending
    wake-up is stuck. -/
theorem stuck_of_all_blocked (v : Variant) (s : St)
    (hp : ∀ t, s.pc t = .idle ∨ s.pc t = .sWait false ∨ ∃ ab, s.pc t = .rWait ab false) : Stuck v s := by
  intro e he
  cases e with
  | yield t | sleepB t | sCall t | rCall t ab | spur t => simp [Ev.isStart] at he
  | sleepE t | sAcq t | sPark t | sWake t r | sRet t ab | rAcq t | rChk t r | rWake t | rGo t | rRel t =>
    simp only [step]
    rcases hp t with h | h | ⟨ab, h⟩ <;> simp [h]

end PikaVerif.Agent
