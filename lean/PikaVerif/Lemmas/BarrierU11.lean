import PikaVerif.Lemmas.BarrierU10
/-! C09u, coarse barrier: final states of maximal runs of `awdProg` programs (drops at the end). -/
namespace PikaVerif.Barrier
open PikaVerif PikaVerif.C09Barrier

/-- **Final states with drops.**  In a maximal reachable state of the program "`N` threads, each
    `P` × `arrive_and_wait`, then `arrive_and_drop` for the threads selected by `d`" every thread
    has ended with an empty list, no last arriver is pending, and the number of completed phases
    is `P + min_t dn t`: `P + 1` if every thread drops, `P` otherwise. -/
theorem maximal_final_d (N P : Nat) (d : Nat → Bool) (p : PSt) (hr : Reachable p.s) (hi : AllD N P d p)
    (hm : Maximal p) :
    (∀ t, t < N → p.s.pc t = .fin ∧ p.prog t = []) ∧ p.s.win = none ∧
    (1 ≤ N → (∀ t, t < N → p.s.ph ≤ P + dn d t) ∧ ∃ u, u < N ∧ p.s.ph = P + dn d u) := by
  obtain ⟨ha, hb, ⟨hn, hexp, he0le, hE, hlists, hlo, hcnt, hpcs⟩, hf⟩ := hi
  have hq := maximal_quiescent p hm
  have hprog := C09B_progress p.s hr hq
  rw [hn] at hprog
  have hA : ∀ t, t < N → p.s.pc t = .polling → p.s.phase = p.s.tok t →
      avd P d p.prog t = p.s.ph + 1 ∧ avd P d p.prog t ≤ P := by
    intro t ht hpc hph
    have h1 := hpcs t ht
    rw [hpc] at h1; simp only [PcD] at h1
    have h2 := hb.tokIdxOk t
    have h3 := hb.phaseEq
    have h4 := hlo t ht
    rw [h2.1, h3] at hph
    omega
  have hB0 : ∀ t, t < N → p.s.pc t = .idle → p.prog t ≠ [] := by
    intro t ht hpc hl
    cases hx : pstep p (.done t) with
    | some p' => have := hm _ _ hx; simp [isStutter] at this
    | none => simp [pstep, hl, step, hn, ht, hpc] at hx
  have hB : ∀ t, t < N → p.s.pc t = .idle → p.s.count = 0 := by
    intro t ht hpc
    cases hl : p.prog t with
    | nil => exact absurd hl (hB0 t ht hpc)
    | cons o rest =>
      have hok := (hlists t ht).1
      rw [hl] at hok
      apply Classical.byContradiction; intro hc
      rcases okL_cons hok with ho | ho
      · have ho' := ho.1; subst ho'
        cases hx : pstep p (.inv t .aw) with
        | some p' => have := hm _ _ hx; simp [isStutter] at this
        | none => simp [pstep, hl, step, hn, ht, hpc] at hx; omega
      · have ho' := ho.1; subst ho'
        cases hx : pstep p (.inv t .drop) with
        | some p' => have := hm _ _ hx; simp [isStutter] at this
        | none => simp [pstep, hl, step, hn, ht, hpc] at hx; omega
  have hnowin : p.s.win = none := by
    cases hw : p.s.win with
    | none => rfl
    | some t1 =>
      exfalso
      obtain ⟨h1, h2, _⟩ := hb.winConv t1 hw
      rcases hprog t1 (by omega) with h | h | ⟨h, _⟩ <;> rw [h] at h1 <;> simp [isWin, isWon, isPub] at h1
  have hnil : ∀ t, p.prog t = [] → avd P d p.prog t = P + dn d t := by
    intro t h; simp [avd, h]
  by_cases hc0 : p.s.count = 0
  · by_cases he0 : p.s.e0 = 0
    · -- all dropped and the last phase was published
      rcases hE with hE | hE
      · exact ⟨fun t ht => by omega, hnowin, fun h => by omega⟩
      · have hz := zero_of_sumTo_zero (n := N) (f := fun t => avd P d p.prog t - p.s.ph) (by omega)
        have hallfin : ∀ t, t < N → p.s.pc t = .fin := by
          intro t ht
          rcases hprog t ht with h | h | ⟨h, h'⟩
          · exact absurd (hE.2 t ht) (hB0 t ht h)
          · exact h
          · have := (hA t ht h h').1; have hzt : avd P d p.prog t - p.s.ph = 0 := hz t ht; omega
        refine ⟨fun t ht => ⟨hallfin t ht, hE.2 t ht⟩, hnowin, fun hN => ⟨fun t ht => ?_, ⟨0, by omega, ?_⟩⟩⟩
        · have := hlo t ht; rw [hnil t (hE.2 t ht)] at this; exact this
        · have h1 : avd P d p.prog 0 - p.s.ph = 0 := hz 0 (by omega)
          have h2 := hlo 0 (by omega)
          rw [hnil 0 (hE.2 0 (by omega))] at h1 h2; omega
    · exfalso
      apply tree_not_stuck hb
      · intro r; unfold Asum; rw [hn]
        exact sumTo_eq_zero (fun t ht => by
          rcases hprog t ht with h | h | ⟨h, _⟩ <;> rw [h] <;> rfl)
      · unfold Remsum; rw [hn]
        exact sumTo_eq_zero (fun t ht => by
          rcases hprog t ht with h | h | ⟨h, _⟩ <;> rw [h] <;> rfl)
      · exact hc0
      · omega
  · have hex : ∃ u, u < N ∧ avd P d p.prog u - p.s.ph = 0 := by
      apply Classical.byContradiction; intro hne
      have h1 : ∀ c, c < N → 1 ≤ avd P d p.prog c - p.s.ph := fun c hc => by
        have : ¬ (avd P d p.prog c - p.s.ph = 0) := fun h0 => hne ⟨c, hc, h0⟩
        omega
      have := sumTo_le_of_le (f := fun _ => 1) (g := fun t => avd P d p.prog t - p.s.ph) h1
      rw [sumTo_const] at this; omega
    obtain ⟨u, hu, hau⟩ := hex
    have hufin : p.s.pc u = .fin := by
      rcases hprog u hu with h | h | ⟨h, h'⟩
      · exact absurd (hB u hu h) hc0
      · exact h
      · have := (hA u hu h h').1; omega
    have hpu := hf u hufin
    have hphu : p.s.ph = P + dn d u := by
      have := hlo u hu
      rw [hnil u hpu] at hau this; omega
    have hallfin : ∀ t, t < N → p.s.pc t = .fin := by
      intro t ht
      rcases hprog t ht with h | h | ⟨h, h'⟩
      · exact absurd (hB t ht h) hc0
      · exact h
      · have := hA t ht h h'; omega
    refine ⟨fun t ht => ⟨hallfin t ht, hf t (hallfin t ht)⟩, hnowin, fun _ => ⟨fun t ht => ?_, ⟨u, hu, hphu⟩⟩⟩
    have := hlo t ht; rw [hnil t (hf t (hallfin t ht))] at this; exact this

end PikaVerif.Barrier
