import PikaVerif.Lemmas.Stop9
/-!
# Spin loops of the stop_state model: bounded exit in solo continuations (follow-up C14q)

* `holder_releases` — every productive event of the lock holder frees the lock;
* `spinDist` — number of own steps a spinning activity needs once the lock is free
  (`spin`: re-load + CAS = 2; `cas` with a stale stop bit: failed CAS + CAS = 2; `cas` with the
  current stop bit: 1);
* `spurious` — a failed CAS although the lock bit and the stop bit of the word equal the expected
  ones: in the code the source count of the expected value was stale, or
  `compare_exchange_weak` failed spuriously.  The model does not keep the expected count, so it
  accepts such a failure any number of times; the bounds below exclude it (after one failed CAS
  the expected value is the current word, so in a solo continuation only a spurious failure of
  the weak CAS remains);
* `spin_decreases`, `spin_bound` — while the lock stays free every own non-spurious productive
  step decreases `spinDist`.
-/
namespace PikaVerif.Stop
open PikaVerif

def spinDist (s : St) (a : Nat) : Nat :=
  match s.pc a with
  | .spin _ => 2
  | .cas _ b => if b = s.req then 1 else 2
  | _ => 0

def spurious (s : St) : Ev → Bool
  | .casFail a lk rq _ =>
    match s.pc a with
    | .cas _ b => !lk && (rq == b)
    | _ => false
  | _ => false

theorem spinDist_le (s : St) (a : Nat) : spinDist s a ≤ 2 := by
  unfold spinDist
  split <;> (try split) <;> omega

theorem spinDist_zero {s : St} {a : Nat} (h : spinDist s a = 0) : lockLoop (s.pc a) = false := by
  unfold spinDist at h
  split at h
  · omega
  · split at h <;> omega
  · rename_i h1 h2
    cases hp : s.pc a <;> simp_all [lockLoop]

/-- every productive event of the lock holder frees the lock -/
theorem holder_releases {s s' : St} (hA : InvA s) {h : Nat} (hl : s.lock = some h) {e : Ev}
    (he : actor e = h) (hp : productive e = true) (hs : step s e = some s') : s'.lock = none := by
  obtain ⟨hh, _⟩ := hA.lockConv h hl
  cases hpc : s.pc h with
  | locked k =>
    cases e <;> simp only [actor] at he <;> subst he <;> simp only [productive] at hp <;>
      simp only [step, hpc] at hs <;> (repeat' split at hs) <;>
      first
      | (simp at hs; done)
      | (simp at hp; done)
      | (simp only [Option.some.injEq] at hs; subst hs; rfl)
      | (simp_all; done)
  | _ => simp [hpc, holds] at hh

/-- … and does not move any other activity -/
theorem holder_step_other {s s' : St} (hA : InvA s) {h : Nat} (hl : s.lock = some h) {e : Ev}
    (he : actor e = h) (hp : productive e = true) (hs : step s e = some s') {a : Nat} (hne : a ≠ h) :
    s'.pc a = s.pc a := by
  obtain ⟨hh, _⟩ := hA.lockConv h hl
  cases hpc : s.pc h with
  | locked k =>
    cases e <;> simp only [actor] at he <;> subst he <;> simp only [productive] at hp <;>
      simp only [step, hpc] at hs <;> (repeat' split at hs) <;>
      first
      | (simp at hs; done)
      | (simp at hp; done)
      | (simp only [Option.some.injEq] at hs; subst hs; simp [upd, hne]; done)
      | (simp_all; done)
  | _ => simp [hpc, holds] at hh

/-- a spinning activity has an enabled productive, non-spurious event while the lock is free -/
theorem spin_enabled {s : St} {a : Nat} (han : a < s.n) (hloop : lockLoop (s.pc a) = true) (hl : s.lock = none) :
    ∃ e, actor e = a ∧ productive e = true ∧ spurious s e = false ∧ enabled s e = true := by
  cases hp : s.pc a with
  | cas k b =>
    by_cases hb : b = s.req
    · refine ⟨.acq a, rfl, rfl, rfl, ?_⟩
      cases k <;> simp [enabled, step, han, hp, hl, hb]
    · refine ⟨.casFail a false s.req s.srcs, rfl, rfl, ?_, by simp [enabled, step, han, hp, hl]⟩
      simp only [spurious, hp]
      cases b <;> cases hq : s.req <;> simp_all
  | spin k =>
    exact ⟨.reload a false s.req s.srcs, rfl, rfl, rfl, by simp [enabled, step, han, hp, hl]⟩
  | _ => simp [hp, lockLoop] at hloop

theorem checked_unlocked_dist (k : Kind) (rq : Bool) (src : Nat) (s' : St) (a : Nat)
    (hq : s'.req = rq) (hp : s'.pc a = checked k false rq src) : spinDist s' a ≤ 1 := by
  unfold spinDist
  rw [hp, hq]
  cases k <;> cases rq <;> simp only [checked] <;>
    first
    | (simp; done)
    | (by_cases h0 : src = 0 <;> simp [h0])

/-- while the lock is free every productive, non-spurious event of a spinning activity strictly
    decreases `spinDist`, and the lock stays free as long as the activity is in the loop -/
theorem spin_decreases {s s' : St} (hA : InvA s) {a : Nat} (hloop : lockLoop (s.pc a) = true) (hl : s.lock = none)
    {e : Ev} (he : actor e = a) (hp : productive e = true) (hsp : spurious s e = false)
    (hs : step s e = some s') :
    spinDist s' a < spinDist s a ∧ (lockLoop (s'.pc a) = true → s'.lock = none) := by
  have hfix := hA.fix
  cases hpc : s.pc a with
  | cas k b =>
    cases e <;> simp only [actor] at he <;> subst he <;> simp only [productive] at hp <;>
      simp only [spurious, hpc] at hsp <;> simp only [step, hpc] at hs
    case casFail a lk rq src =>
      split at hs
      · rename_i hg
        simp only [hfix, Option.some.injEq] at hs
        have hlk : lk = false := by rw [hg.2.1, hl]; rfl
        subst hlk
        have hne : b ≠ s.req := by
          intro hb; rw [← hg.2.2.1] at hb; subst hb; simp at hsp
        have h1 : spinDist s a = 2 := by simp [spinDist, hpc, hne]
        have h2 : spinDist s' a ≤ 1 := by
          apply checked_unlocked_dist k rq src s' a
          · subst hs; exact hg.2.2.1.symm
          · subst hs; simp
        refine ⟨by omega, fun _ => by subst hs; exact hl⟩
      · simp at hs
    case acq a =>
      split at hs
      · cases k <;> simp only at hs <;> split at hs <;>
          first
          | (simp at hs; done)
          | (simp only [Option.some.injEq] at hs; subst hs
             refine ⟨?_, ?_⟩
             · simp only [spinDist, upd_same, hpc]; split <;> omega
             · simp [lockLoop])
      · simp at hs
    all_goals first
      | (simp at hp; done)
      | ((repeat' split at hs) <;> simp_all; done)
  | spin k =>
    cases e <;> simp only [actor] at he <;> subst he <;> simp only [productive] at hp <;>
      simp only [step, hpc] at hs
    case reload a lk rq src =>
      split at hs
      · rename_i hg
        simp only [Option.some.injEq] at hs
        have hlk : lk = false := by rw [hg.2.1, hl]; rfl
        subst hlk
        have h1 : spinDist s a = 2 := by simp [spinDist, hpc]
        have h2 : spinDist s' a ≤ 1 := by
          apply checked_unlocked_dist k rq src s' a
          · subst hs; exact hg.2.2.1.symm
          · subst hs; simp
        refine ⟨by omega, fun _ => by subst hs; exact hl⟩
      · simp at hs
    all_goals first
      | (simp at hp; done)
      | ((repeat' split at hs) <;> simp_all; done)
  | _ => simp [hpc, lockLoop] at hloop

/-- after the holder's step and two own non-spurious steps the spinning activity is out of its loop -/
theorem spin_bound {s s1 s2 s3 : St} (hA : InvA s) {a h : Nat} {eh e1 e2 : Ev}
    (hloop : lockLoop (s.pc a) = true) (hl : s.lock = some h)
    (hh : actor eh = h) (hph : productive eh = true) (hsh : step s eh = some s1)
    (ha1 : actor e1 = a) (hp1 : productive e1 = true) (hq1 : spurious s1 e1 = false) (hs1 : step s1 e1 = some s2)
    (ha2 : actor e2 = a) (hp2 : productive e2 = true) (hq2 : spurious s2 e2 = false) (hs2 : step s2 e2 = some s3) :
    lockLoop (s2.pc a) = false ∨ lockLoop (s3.pc a) = false := by
  have hA1 := stepA s s1 eh hA hsh
  have hA2 := stepA s1 s2 e1 hA1 hs1
  have hl1 := holder_releases hA hl hh hph hsh
  by_cases hloop1 : lockLoop (s1.pc a) = true
  · obtain ⟨hd1, hk1⟩ := spin_decreases hA1 hloop1 hl1 ha1 hp1 hq1 hs1
    by_cases hloop2 : lockLoop (s2.pc a) = true
    · obtain ⟨hd2, _⟩ := spin_decreases hA2 hloop2 (hk1 hloop2) ha2 hp2 hq2 hs2
      have := spinDist_le s1 a
      exact Or.inr (spinDist_zero (by omega))
    · exact Or.inl (by simpa using hloop2)
  · -- the holder's step does not move `a` (≠ h), so this case is impossible; no need to show it
    exfalso
    apply hloop1
    have hne : a ≠ h := by
      intro e; subst e
      have := (hA.lockConv a hl).1
      cases hp : s.pc a <;> simp [hp, holds, lockLoop] at this hloop
    have : s1.pc a = s.pc a := holder_step_other hA hl hh hph hsh hne
    rw [this]; exact hloop

end PikaVerif.Stop
