import PikaVerif.Model.Elastic
import PikaVerif.Gen.ElasticConsts
/-! The constants and shape facts the `Elastic` model is written with agree with what
`tools/translate/elastic.py` reads from the C++ source on every run.  If the source changes
(enumerator values, or the `return;` after a refused `suspend_processing_unit_direct` disappears)
these stop compiling, which the check reports as a broken proof obligation. -/
namespace PikaVerif.Elastic
open PikaVerif.Gen

theorem gen_initialized : rsInit = ElasticConsts.initialized := rfl
theorem gen_running : rsRunning = ElasticConsts.running := rfl
theorem gen_suspended : rsSuspended = ElasticConsts.suspended := rfl
theorem gen_preSleep : rsPreSleep = ElasticConsts.preSleep := rfl
theorem gen_sleeping : rsSleeping = ElasticConsts.sleeping := rfl
theorem gen_stopping : rsStopping = ElasticConsts.stopping := rfl

/-- the tree is the fixed one: the model configuration used by the driver and by
    `C19_refused_leaves_running` (`refuseReturns = true`) is the code's -/
theorem gen_refuseReturns : ElasticConsts.refuseReturns = true := rfl

end PikaVerif.Elastic
