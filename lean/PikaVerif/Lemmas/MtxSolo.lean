import PikaVerif.Lemmas.MtxCover
/-!
# Solo runs: the hand-off of the mutex in an explicit number of events (C06t)

`unlockSolo r g z`: the owner `r` runs `unlock()` alone while `g` is the front waiter (6 events);
`lockWake g`: the notified `lock()` waiter `g` runs alone until its `lock()` has returned
(6 events); `timedWake g`: the same for a front waiter inside `try_lock_for`, whose resume the
agent drops, so that its first event is its deadline (6 events).
-/
namespace PikaVerif.Mtx
open PikaVerif

def unlockSolo (r g z : Nat) (dropped : Bool) : List Ev :=
  [.inv r .unlock, .slAcq r, .disown r, .popResume r z g dropped, .slRel r, .ret r .ok]

def lockWake (g : Nat) : List Ev :=
  [.woke g, .slAcq g, .cvWoke g false false, .own g 1 false, .slRel g, .ret g .ok]

def timedWake (g : Nat) : List Ev :=
  [.timeout g, .slAcq g, .cvWoke g false true, .own g 3 false, .slRel g, .ret g .ok]

theorem unlockSolo_length (r g z : Nat) (d : Bool) : (unlockSolo r g z d).length = 6 := rfl
theorem lockWake_length (g : Nat) : (lockWake g).length = 6 := rfl
theorem timedWake_length (g : Nat) : (timedWake g).length = 6 := rfl

/-- the owner's `unlock()` run alone: accepted, 6 events, pops the front waiter `g` and gives it a
    wake-up token; mutex and spinlock free afterwards -/
theorem unlockSolo_spec (s : St) (r g : Nat) (rest : List Nat) (hl : s.lock = none) (hr : r < s.n)
    (hrg : r ≠ g) (hp : s.pc r = .idle) (hcs : s.inCS r = false) (ho : s.owner = some r)
    (hq : s.queue = g :: rest) (hg : s.pc g = .susp false) :
    ∃ s1, runLog step s (unlockSolo r g rest.length false) = some s1 ∧ s1.lock = none ∧ s1.owner = none ∧
      s1.queue = rest ∧ s1.pc g = .susp true ∧ s1.tok g = s.tok g + 1 ∧ s1.pc r = .idle ∧
      s1.holdsG r = false ∧ s1.n = s.n ∧ (∀ u, u ≠ r → u ≠ g → s1.pc u = s.pc u) := by
  have hgr : g ≠ r := fun h => hrg h.symm
  cases hrun : runLog step s (unlockSolo r g rest.length false) with
  | none =>
    exfalso
    simp [unlockSolo, runLog, step, upd, hl, hr, hp, hcs, ho, hq, hg, hgr, setPopped] at hrun
  | some s1 =>
    refine ⟨s1, rfl, ?_⟩
    simp [unlockSolo, runLog, step, upd, hl, hr, hp, hcs, ho, hq, hg, hgr, setPopped] at hrun
    subst hrun
    simp [upd, hgr]
    intro u h1 h2; simp [h1, h2]

/-- the same when the front waiter `g` is inside `try_lock_for`, polling its deadline: the agent
    drops the resume (no token); `g` is marked notified -/
theorem unlockSolo_spec_timed (s : St) (r g : Nat) (rest : List Nat) (hl : s.lock = none) (hr : r < s.n)
    (hrg : r ≠ g) (hp : s.pc r = .idle) (hcs : s.inCS r = false) (ho : s.owner = some r)
    (hq : s.queue = g :: rest) (hg : s.pc g = .slp false) :
    ∃ s1, runLog step s (unlockSolo r g rest.length true) = some s1 ∧ s1.lock = none ∧ s1.owner = none ∧
      s1.queue = rest ∧ s1.pc g = .slp true ∧ s1.pc r = .idle ∧
      s1.holdsG r = false ∧ s1.n = s.n ∧ (∀ u, u ≠ r → u ≠ g → s1.pc u = s.pc u) := by
  have hgr : g ≠ r := fun h => hrg h.symm
  cases hrun : runLog step s (unlockSolo r g rest.length true) with
  | none =>
    exfalso
    simp [unlockSolo, runLog, step, upd, hl, hr, hp, hcs, ho, hq, hg, hgr, setPopped] at hrun
  | some s1 =>
    refine ⟨s1, rfl, ?_⟩
    simp [unlockSolo, runLog, step, upd, hl, hr, hp, hcs, ho, hq, hg, hgr, setPopped] at hrun
    subst hrun
    simp [upd, hgr]
    intro u h1 h2; simp [h1, h2]

/-- the notified `lock()` waiter run alone: accepted, 6 events, its `lock()` returns and it owns
    the mutex -/
theorem lockWake_spec (s : St) (g : Nat) (hl : s.lock = none) (hgn : g < s.n) (ho : s.owner = none)
    (hg : s.pc g = .susp true) (ht : 0 < s.tok g) :
    ∃ s2, runLog step s (lockWake g) = some s2 ∧ s2.lock = none ∧ s2.owner = some g ∧
      s2.queue = s.queue ∧ s2.pc g = .idle ∧ s2.holdsG g = true ∧ s2.tookOp g = true ∧
      (∀ u, u ≠ g → s2.pc u = s.pc u ∧ s2.holdsG u = s.holdsG u) := by
  cases hrun : runLog step s (lockWake g) with
  | none =>
    exfalso
    simp [lockWake, runLog, step, upd, hl, hgn, ho, hg, ht] at hrun
  | some s2 =>
    refine ⟨s2, rfl, ?_⟩
    simp [lockWake, runLog, step, upd, hl, hgn, ho, hg, ht] at hrun
    subst hrun
    simp [upd]
    intro u h1; simp [h1]

/-- the notified `try_lock_for` waiter run alone: its deadline event, then it finds itself
    signalled and the mutex free: accepted, 6 events, returns true and owns the mutex -/
theorem timedWake_spec (s : St) (g : Nat) (hl : s.lock = none) (hgn : g < s.n) (ho : s.owner = none)
    (hg : s.pc g = .slp true) :
    ∃ s2, runLog step s (timedWake g) = some s2 ∧ s2.lock = none ∧ s2.owner = some g ∧
      s2.queue = s.queue ∧ s2.pc g = .idle ∧ s2.holdsG g = true ∧ s2.tookOp g = true ∧
      (∀ u, u ≠ g → s2.pc u = s.pc u ∧ s2.holdsG u = s.holdsG u) := by
  cases hrun : runLog step s (timedWake g) with
  | none =>
    exfalso
    simp [timedWake, runLog, step, upd, hl, hgn, ho, hg] at hrun
  | some s2 =>
    refine ⟨s2, rfl, ?_⟩
    simp [timedWake, runLog, step, upd, hl, hgn, ho, hg] at hrun
    subst hrun
    simp [upd]
    intro u h1; simp [h1]

end PikaVerif.Mtx
