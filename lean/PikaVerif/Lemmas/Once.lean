import PikaVerif.Model.Once
/-! Inductive invariants of the event / call_once model: structure (lock, cv queue, tokens). -/
namespace PikaVerif.Once
open PikaVerif

/-- Program counters at which the thread holds the event's internal spinlock. -/
def holds : Pc → Bool
  | .wLocked _ | .wMustEnq _ | .enq _ | .relk _ _ | .wPass _ | .sLocked _ | .sRel _ => true
  | _ => false

/-- Program counters at which the thread's entry is linked in the cv queue. -/
def inQ : Pc → Bool
  | .enq _ => true
  | .unl _ p | .susp _ p => !p
  | _ => false

/-- Resume tokens a thread holds. -/
def tokOf : Pc → Nat
  | .unl _ p | .susp _ p => b2n p
  | _ => 0

def ctxOk : Ctx → Op → Op → Bool
  | .top, o, w => decide (o = w)
  | .once thr, o, _ => decide (o = .call thr)

def isCall : Op → Bool
  | .call _ => true
  | _ => false

/-- Which operation a program counter belongs to. -/
def pcOpOk : Pc → Op → Bool
  | .wWant c, o | .wLockW c, o | .wLocked c, o | .wMustEnq c, o | .enq c, o | .unl c _, o | .susp c _, o
  | .wokeNL c _, o | .relk c _, o | .wPass c, o => ctxOk c o .wait
  | .sWant c, o | .sLockW c, o | .sLocked c, o | .sRel c, o => ctxOk c o .set
  | .rWant, o => decide (o = .reset)
  | .oWant, o => decide (o = .occ)
  | .cLoad thr, o | .cCas thr, o | .cReset thr, o | .cBody thr, o | .cRan thr, o => decide (o = .call thr)
  | .retn r, o => decide (r = 0) || isCall o
  | _, _ => true

structure Inv (s : St) : Prop where
  lockHolder : ∀ t, holds (s.pc t) = true → s.lock = some t
  outside : ∀ t, s.n ≤ t → s.pc t = .idle
  qIff : ∀ t, t ∈ s.queue ↔ inQ (s.pc t) = true
  qNodup : s.queue.Nodup
  tokInv : ∀ t, s.tok t = tokOf (s.pc t)
  wokePopped : ∀ t c, s.pc t ≠ .wokeNL c false ∧ s.pc t ≠ .relk c false
  opOk : ∀ t, pcOpOk (s.pc t) (s.curOp t) = true
  lockConv : ∀ r, s.lock = some r → holds (s.pc r) = true ∧ r < s.n

theorem inv_init (n : Nat) : Inv (init n) := by
  refine ⟨?_, ?_, ?_, ?_, ?_, ?_, ?_, ?_⟩ <;> simp [init, holds, inQ, tokOf, pcOpOk]

attribute [local grind] holds inQ b2n tokOf pcOpOk ctxOk isCall wDone sDone entry popd

set_option hygiene false in
macro "once_step" : tactic => `(tactic| (
  simp only [step] at h
  try unfold entry at h
  try unfold wDone at h
  try unfold sDone at h
  obtain ⟨h1,h2,h3,h4,h5,h6,h7,h8⟩ := hi
  split at h
  case isFalse => simp at h
  rename_i hg
  repeat' split at h
  all_goals first | (simp at h; done) | skip
  all_goals (
    simp only [Option.some.injEq] at h
    subst h
    refine ⟨?_, ?_, ?_, ?_, ?_, ?_, ?_, ?_⟩ <;> dsimp only
  )
  all_goals first
    | assumption
    | (intro u; grind [upd])
    | grind [upd]))

theorem step_inv_inv (s s' : St) (t : Nat) (o : Op) (hi : Inv s) (h : step s (.inv t o) = some s') : Inv s' := by once_step
theorem step_inv_ret (s s' : St) (t : Nat) (r : Nat) (hi : Inv s) (h : step s (.ret t r) = some s') : Inv s' := by once_step
theorem step_inv_slAcq (s s' : St) (t : Nat) (hi : Inv s) (h : step s (.slAcq t) = some s') : Inv s' := by once_step
theorem step_inv_slRel (s s' : St) (t : Nat) (hi : Inv s) (h : step s (.slRel t) = some s') : Inv s' := by once_step
theorem step_inv_evLoad (s s' : St) (t : Nat) (v : Bool) (hi : Inv s) (h : step s (.evLoad t v) = some s') : Inv s' := by once_step
theorem step_inv_evLoadL (s s' : St) (t : Nat) (v : Bool) (hi : Inv s) (h : step s (.evLoadL t v) = some s') : Inv s' := by once_step
theorem step_inv_stored (s s' : St) (t : Nat) (v : Bool) (hi : Inv s) (h : step s (.stored t v) = some s') : Inv s' := by once_step
theorem step_inv_cvEnq (s s' : St) (t z : Nat) (hi : Inv s) (h : step s (.cvEnq t z) = some s') : Inv s' := by once_step
theorem step_inv_cvWoke (s s' : St) (t : Nat) (a : Bool) (hi : Inv s) (h : step s (.cvWoke t a) = some s') : Inv s' := by once_step
theorem step_inv_suspend (s s' : St) (t : Nat) (hi : Inv s) (h : step s (.suspend t) = some s') : Inv s' := by once_step
theorem step_inv_woke (s s' : St) (t : Nat) (hi : Inv s) (h : step s (.woke t) = some s') : Inv s' := by once_step
theorem step_inv_onceLoad (s s' : St) (t : Nat) (hi : Inv s) (h : step s (.onceLoad t) = some s') : Inv s' := by once_step
theorem step_inv_onceWon (s s' : St) (t : Nat) (hi : Inv s) (h : step s (.onceWon t) = some s') : Inv s' := by once_step
theorem step_inv_onceLost (s s' : St) (t : Nat) (a : Bool) (hi : Inv s) (h : step s (.onceLost t a) = some s') : Inv s' := by once_step
theorem step_inv_body (s s' : St) (t : Nat) (a : Bool) (hi : Inv s) (h : step s (.body t a) = some s') : Inv s' := by once_step
theorem step_inv_onceStored (s s' : St) (t : Nat) (a : Bool) (hi : Inv s) (h : step s (.onceStored t a) = some s') : Inv s' := by once_step
theorem step_inv_done (s s' : St) (t : Nat) (hi : Inv s) (h : step s (.done t) = some s') : Inv s' := by once_step

theorem popd_facts (p : Pc) : holds (popd p) = holds p ∧ (∀ o, pcOpOk (popd p) o = pcOpOk p o) ∧
    (∀ c, (popd p = .wokeNL c false → p = .wokeNL c false) ∧ (popd p = .relk c false → p = .relk c false)) ∧
    (inQ p = true → holds p = false → inQ (popd p) = false ∧ tokOf (popd p) = tokOf p + 1) ∧
    (p = .idle → popd p = .idle) := by
  cases p <;> simp [popd, holds, pcOpOk, inQ, tokOf, b2n] <;> grind

theorem step_inv_notifyAll (s s' : St) (t : Nat) (l : List Nat) (hi : Inv s) (h : step s (.notifyAll t l) = some s') : Inv s' := by
  simp only [step] at h
  obtain ⟨h1,h2,h3,h4,h5,h6,h7,h8⟩ := hi
  split at h
  case isFalse => simp at h
  rename_i hg
  obtain ⟨htn, hl, hq⟩ := hg
  split at h
  case h_2 => simp at h
  rename_i c hpc
  simp only [Option.some.injEq] at h
  subst h
  -- facts about a thread other than the notifier
  have other : ∀ u, u ≠ t → holds (s.pc u) = false := by
    intro u hut
    cases hh : holds (s.pc u) with
    | false => rfl
    | true => have := h1 u hh; rw [hl] at this; simp at this; exact absurd this.symm hut
  refine ⟨?_, ?_, ?_, ?_, ?_, ?_, ?_, ?_⟩ <;> dsimp only
  · intro u hu
    by_cases hut : u = t
    · subst hut; exact hl
    · have hp := (popd_facts (s.pc u)).1
      have ho := other u hut
      simp only [upd, hut, if_false] at hu
      split at hu
      · rw [hp, ho] at hu; simp at hu
      · rw [ho] at hu; simp at hu
  · intro u hu
    have hut : u ≠ t := by omega
    have := h2 u hu
    simp [upd, hut, this, popd]
  · intro u
    simp only [List.not_mem_nil, false_iff]
    by_cases hut : u = t
    · subst hut; simp [upd, inQ]
    · simp only [upd, hut, if_false]
      by_cases huq : u ∈ s.queue
      · simp only [huq, if_true]
        have := ((popd_facts (s.pc u)).2.2.2.1 ((h3 u).1 huq) (other u hut)).1
        simp [this]
      · simp only [huq, if_false]
        have := h3 u
        cases hq : inQ (s.pc u) with
        | false => simp
        | true => exact absurd (this.2 hq) huq
  · simp
  · intro u
    by_cases hut : u = t
    · subst hut
      have hnq : u ∉ s.queue := by
        intro hc; have := (h3 u).1 hc; rw [hpc] at this; simp [inQ] at this
      have := h5 u
      rw [hpc] at this
      simp [upd, hnq, this, tokOf]
    · simp only [upd, hut, if_false]
      by_cases huq : u ∈ s.queue
      · simp only [huq, if_true]
        have := ((popd_facts (s.pc u)).2.2.2.1 ((h3 u).1 huq) (other u hut)).2
        rw [this, h5 u]
      · simp only [huq, if_false]; exact h5 u
  · intro u c'
    by_cases hut : u = t
    · subst hut; simp [upd]
    · simp only [upd, hut, if_false]
      split
      · have := (popd_facts (s.pc u)).2.2.1 c'
        have := h6 u c'
        grind
      · exact h6 u c'
  · intro u
    by_cases hut : u = t
    · subst hut; have := h7 u; rw [hpc] at this; simpa [upd, pcOpOk] using this
    · simp only [upd, hut, if_false]
      split
      · rw [(popd_facts (s.pc u)).2.1]; exact h7 u
      · exact h7 u
  · intro r hr
    have := h8 r hr
    rw [hl] at hr
    simp at hr
    subst hr
    simp [upd, holds, htn]

theorem step_inv (s s' : St) (e : Ev) (hi : Inv s) (h : step s e = some s') : Inv s' := by
  cases e with
  | inv t o => exact step_inv_inv s s' t o hi h
  | ret t r => exact step_inv_ret s s' t r hi h
  | slAcq t => exact step_inv_slAcq s s' t hi h
  | slRel t => exact step_inv_slRel s s' t hi h
  | evLoad t v => exact step_inv_evLoad s s' t v hi h
  | evLoadL t v => exact step_inv_evLoadL s s' t v hi h
  | stored t v => exact step_inv_stored s s' t v hi h
  | cvEnq t z => exact step_inv_cvEnq s s' t z hi h
  | notifyAll t l => exact step_inv_notifyAll s s' t l hi h
  | cvWoke t a => exact step_inv_cvWoke s s' t a hi h
  | suspend t => exact step_inv_suspend s s' t hi h
  | woke t => exact step_inv_woke s s' t hi h
  | onceLoad t => exact step_inv_onceLoad s s' t hi h
  | onceWon t => exact step_inv_onceWon s s' t hi h
  | onceLost t a => exact step_inv_onceLost s s' t a hi h
  | body t a => exact step_inv_body s s' t a hi h
  | onceStored t a => exact step_inv_onceStored s s' t a hi h
  | done t => exact step_inv_done s s' t hi h

end PikaVerif.Once
