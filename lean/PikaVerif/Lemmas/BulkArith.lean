import PikaVerif.Core.CInt
import PikaVerif.Gen.BulkArith
import PikaVerif.Lemmas.Partition
import PikaVerif.Model.BulkPlan
/-!
# The generated bulk arithmetic equals the ideal (unbounded) arithmetic under `SafeC`

`SafeC S w n c` lists the no-wrap conditions for shape type `S`, `w` workers, shape `n` and an
arbitrary chunk size `c ≥ 1`.  Under it, each generated function (`Gen/BulkArith.lean`, C++
types with wrap-around) coincides with the plain natural-number function of
`Lemmas/Partition.lean`, and none of the signed operations overflows.
-/
namespace PikaVerif.BulkArith
open PikaVerif PikaVerif.Gen.BulkArith PikaVerif.Partition

theorem u32_wrap (x : Int) (h0 : 0 ≤ x) (h1 : x < 4294967296) : CTy.u32.wrap x = x := by
  show x % (2:Int)^32 = x
  omega
theorem u64_wrap (x : Int) (h0 : 0 ≤ x) (h1 : x < 18446744073709551616) : CTy.u64.wrap x = x := by
  show x % (2:Int)^64 = x
  omega
theorem i32_wrap (x : Int) (h0 : -2147483648 ≤ x) (h1 : x < 2147483648) : CTy.i32.wrap x = x := by
  show (x + (2:Int)^31) % (2:Int)^32 - (2:Int)^31 = x
  omega
theorem i64_wrap (x : Int) (h0 : -9223372036854775808 ≤ x) (h1 : x < 9223372036854775808) :
    CTy.i64.wrap x = x := by
  show (x + (2:Int)^63) % (2:Int)^64 - (2:Int)^63 = x
  omega

theorem u32_fits (x : Int) : CTy.u32.fits x = true ↔ 0 ≤ x ∧ x < 4294967296 := by
  simp [CTy.fits, CTy.u32]
  exact decide_eq_true_iff
theorem u64_fits (x : Int) : CTy.u64.fits x = true ↔ 0 ≤ x ∧ x < 18446744073709551616 := by
  simp [CTy.fits, CTy.u64]
  exact decide_eq_true_iff
theorem i32_fits (x : Int) : CTy.i32.fits x = true ↔ -2147483648 ≤ x ∧ x < 2147483648 := by
  simp [CTy.fits, CTy.i32]
  exact decide_eq_true_iff
theorem i64_fits (x : Int) :
    CTy.i64.fits x = true ↔ -9223372036854775808 ≤ x ∧ x < 9223372036854775808 := by
  simp [CTy.fits, CTy.i64]
  exact decide_eq_true_iff

theorem u32_ok (x : Int) : CTy.u32.ok x = true := by simp [CTy.ok, CTy.u32]
theorem u64_ok (x : Int) : CTy.u64.ok x = true := by simp [CTy.ok, CTy.u64]
theorem i32_ok (x : Int) : CTy.i32.ok x = CTy.i32.fits x := by simp [CTy.ok, CTy.i32]
theorem i64_ok (x : Int) : CTy.i64.ok x = CTy.i64.fits x := by simp [CTy.ok, CTy.i64]

/-- The four shape types for which the bulk customisation compiles. -/
def IsShape (S : CTy) : Prop := S = CTy.i32 ∨ S = CTy.u32 ∨ S = CTy.i64 ∨ S = CTy.u64

instance (S : CTy) : Decidable (IsShape S) := by unfold IsShape; infer_instance

/-- No-wrap conditions, parametric in the chunk size `c`. -/
def SafeC (S : CTy) (w n c : Nat) : Prop :=
  IsShape S ∧ 1 ≤ c ∧ c < 4294967296 ∧ 1 ≤ w ∧ w < 4294967296 ∧
  S.fits n = true ∧ (CTy.common S CTy.u32).fits ((n : Int) + c) = true ∧
  nchunks c n < 4294967296 ∧ w * nchunks c n < 4294967296 ∧
  S.fits ((nchunks c n * c : Nat) : Int) = true

instance (S : CTy) (w n c : Nat) : Decidable (SafeC S w n c) := by unfold SafeC; infer_instance

/-! ### `init_queue` -/

theorem partBegin_ideal (w k nc : Nat) (hw : 1 ≤ w) (hw2 : w < 4294967296)
    (hprod : k * nc < 4294967296) (hk : k < 4294967296) (hnc : nc < 4294967296) :
    partBegin w k nc = ((part w nc k : Nat) : Int) := by
  unfold partBegin part
  rw [Int.natCast_ediv, Int.natCast_mul]
  have hm : 0 ≤ (k:Int) * nc := Int.mul_nonneg (Int.natCast_nonneg k) (Int.natCast_nonneg nc)
  have hm2 : (k:Int) * nc < 4294967296 := by rw [← Int.natCast_mul]; omega
  have hd' : (k:Int) * nc / w ≤ k * nc := Int.ediv_le_self _ hm
  have hq : 0 ≤ (k:Int) * nc / w := Int.ediv_nonneg hm (Int.natCast_nonneg w)
  simp (disch := omega) only [u32_wrap, u64_wrap, Int.tdiv_eq_ediv_of_nonneg]

theorem partEnd_ideal (w k nc : Nat) (hw : 1 ≤ w) (hw2 : w < 4294967296)
    (hprod : (k + 1) * nc < 4294967296) (hk : k + 1 < 4294967296) (hnc : nc < 4294967296) :
    partEnd w k nc = ((part w nc (k + 1) : Nat) : Int) := by
  unfold partEnd part
  rw [Int.natCast_ediv, Int.natCast_mul, Int.natCast_add, Int.natCast_one]
  have hm : 0 ≤ ((k:Int) + 1) * nc := Int.mul_nonneg (by omega) (Int.natCast_nonneg nc)
  have hm2 : ((k:Int) + 1) * nc < 4294967296 := by
    have : (((k + 1) * nc : Nat) : Int) < 4294967296 := by omega
    rwa [Int.natCast_mul, Int.natCast_add, Int.natCast_one] at this
  have hd' : ((k:Int) + 1) * nc / w ≤ (k + 1) * nc := Int.ediv_le_self _ hm
  have hq : 0 ≤ ((k:Int) + 1) * nc / w := Int.ediv_nonneg hm (Int.natCast_nonneg w)
  simp (disch := omega) only [u32_wrap, u64_wrap, Int.tdiv_eq_ediv_of_nonneg]

theorem initQueueNoUB_true (w k nc : Nat) (hw : 1 ≤ w) (hw2 : w < 4294967296) :
    initQueueNoUB w k nc = true := by
  unfold initQueueNoUB
  simp (disch := omega) only [u32_ok, u64_ok, u64_wrap, Bool.and_true, Bool.true_and, decide_eq_true_eq]
  omega

/-! ### usual arithmetic conversions on the four concrete types -/

theorem cm_i32_i32 : CTy.common CTy.i32 CTy.i32 = CTy.i32 := by decide
theorem cm_i32_u32 : CTy.common CTy.i32 CTy.u32 = CTy.u32 := by decide
theorem cm_i32_i64 : CTy.common CTy.i32 CTy.i64 = CTy.i64 := by decide
theorem cm_i32_u64 : CTy.common CTy.i32 CTy.u64 = CTy.u64 := by decide
theorem cm_u32_i32 : CTy.common CTy.u32 CTy.i32 = CTy.u32 := by decide
theorem cm_u32_u32 : CTy.common CTy.u32 CTy.u32 = CTy.u32 := by decide
theorem cm_u32_i64 : CTy.common CTy.u32 CTy.i64 = CTy.i64 := by decide
theorem cm_u32_u64 : CTy.common CTy.u32 CTy.u64 = CTy.u64 := by decide
theorem cm_i64_i32 : CTy.common CTy.i64 CTy.i32 = CTy.i64 := by decide
theorem cm_i64_u32 : CTy.common CTy.i64 CTy.u32 = CTy.i64 := by decide
theorem cm_i64_i64 : CTy.common CTy.i64 CTy.i64 = CTy.i64 := by decide
theorem cm_i64_u64 : CTy.common CTy.i64 CTy.u64 = CTy.u64 := by decide
theorem cm_u64_i32 : CTy.common CTy.u64 CTy.i32 = CTy.u64 := by decide
theorem cm_u64_u32 : CTy.common CTy.u64 CTy.u32 = CTy.u64 := by decide
theorem cm_u64_i64 : CTy.common CTy.u64 CTy.i64 = CTy.u64 := by decide
theorem cm_u64_u64 : CTy.common CTy.u64 CTy.u64 = CTy.u64 := by decide

/-- simp set: type computations and `ok` on concrete types -/
macro "cty_simp" : tactic => `(tactic| simp only [cm_i32_i32, cm_i32_u32, cm_i32_i64, cm_i32_u64, cm_u32_i32, cm_u32_u32, cm_u32_i64, cm_u32_u64, cm_i64_i32, cm_i64_u32, cm_i64_i64, cm_i64_u64, cm_u64_i32, cm_u64_u32, cm_u64_i64, cm_u64_u64, u32_ok, u64_ok, i32_ok, i64_ok] at *)

/-! ### `num_chunks`, `do_work_chunk` -/

theorem natCast_nchunks (c n : Nat) (hc : 1 ≤ c) :
    ((nchunks c n : Nat) : Int) = ((n : Int) + c - 1) / c := by
  unfold nchunks
  rw [Int.natCast_ediv]
  congr 1
  omega

set_option linter.unusedSimpArgs false

/-- closes the goals of the `…_ideal` lemmas once the shape type is concrete -/
macro "arith_close" : tactic => `(tactic| (
  cty_simp
  simp only [u32_fits, u64_fits, i32_fits, i64_fits] at *
  simp (disch := omega) only [u32_wrap, u64_wrap, i32_wrap, i64_wrap, Int.tdiv_eq_ediv_of_nonneg,
      u32_fits, u64_fits, i32_fits, i64_fits, Bool.and_true, Bool.true_and, decide_eq_true_eq,
      Bool.and_eq_true, and_true, true_and, eq_self, ite_true, if_true, decide_true]
  try omega))

theorem numChunksOf_ideal_aux (S : CTy) (n c : Nat) (hS : IsShape S) (hc : 1 ≤ c)
    (hc2 : c < 4294967296) (hn : S.fits n = true)
    (hsum : (CTy.common S CTy.u32).fits ((n : Int) + c) = true) :
    numChunksOf S n c = ((n : Int) + c - 1) / c ∧ numChunksNoUB S n c = true := by
  have hq : 0 ≤ ((n : Int) + c - 1) / c := Int.ediv_nonneg (by omega) (by omega)
  have hq2 : ((n : Int) + c - 1) / c ≤ (n : Int) + c - 1 := Int.ediv_le_self _ (by omega)
  unfold numChunksOf numChunksNoUB
  rcases hS with rfl | rfl | rfl | rfl
  · arith_close
  · arith_close
  · arith_close
  · arith_close

theorem numChunksOf_ideal (S : CTy) (w n c : Nat) (h : SafeC S w n c) :
    numChunksOf S n c = ((nchunks c n : Nat) : Int) ∧ numChunksNoUB S n c = true := by
  obtain ⟨hS, hc, hc2, hw, hw2, hn, hsum, hnc, hwnc, hend⟩ := h
  rw [natCast_nchunks c n hc]
  exact numChunksOf_ideal_aux S n c hS hc hc2 hn hsum

theorem chunk_ideal_aux (S : CTy) (n c j : Nat) (hS : IsShape S) (hn : S.fits n = true)
    (hend : S.fits ((((j + 1) * c : Nat)) : Int) = true) (hj : S.fits ((j : Int) + 1) = true)
    (hcf : S.fits (c : Int) = true) (hj32 : j < 4294967296) (hc32 : c < 4294967296) :
    iBegin S j c = ((j * c : Nat) : Int) ∧ iEnd S j c n = ((min ((j + 1) * c) n : Nat) : Int) ∧
    doWorkChunkNoUB S j c n = true := by
  have e1 : (((j + 1) * c : Nat) : Int) = ((j : Int) + 1) * c := by
    rw [Int.natCast_mul, Int.natCast_add, Int.natCast_one]
  have e2 : ((j * c : Nat) : Int) = (j : Int) * c := Int.natCast_mul _ _
  have e3 : ((min ((j + 1) * c) n : Nat) : Int) = if (n : Int) < ((j : Int) + 1) * c then (n : Int)
      else ((j : Int) + 1) * c := by
    rw [← e1]; split <;> rename_i h <;> congr 1 <;> omega
  have hle : (j : Int) * c ≤ ((j : Int) + 1) * c := by
    have : ((j : Int) + 1) * c = j * c + c := by rw [Int.add_mul]; simp
    omega
  have h0 : 0 ≤ (j : Int) * c := Int.mul_nonneg (by omega) (by omega)
  rw [e1] at hend
  rw [e2, e3]
  unfold iBegin iEnd doWorkChunkNoUB CTy.minSame
  rcases hS with rfl | rfl | rfl | rfl
  · arith_close
  · arith_close
  · arith_close
  · arith_close

/-! ### consequences of `SafeC` -/

theorem fits_mono (S : CTy) (hS : IsShape S) {x y : Int} (h0 : 0 ≤ x) (hxy : x ≤ y)
    (hy : S.fits y = true) : S.fits x = true := by
  rcases hS with rfl | rfl | rfl | rfl <;>
    simp only [u32_fits, u64_fits, i32_fits, i64_fits] at * <;> omega

theorem fits_lt32 (S : CTy) (hS : IsShape S) {x : Int} (h0 : 0 ≤ x) (h : x < 2147483648) :
    S.fits x = true := by
  rcases hS with rfl | rfl | rfl | rfl <;>
    simp only [u32_fits, u64_fits, i32_fits, i64_fits] at * <;> omega

open PikaVerif.BulkPlan in
/-- Under `SafeC` the queue of worker `k` is initialised with `[k·nc/w, (k+1)·nc/w)`. -/
theorem queueRange_ideal (S : CTy) (w n c k : Nat) (h : SafeC S w n c) (hk : k < w) :
    queueRange S w n c k =
      (((part w (nchunks c n) k : Nat) : Int), ((part w (nchunks c n) (k + 1) : Nat) : Int)) := by
  have hnc := (numChunksOf_ideal S w n c h).1
  obtain ⟨hS, hc, hc2, hw, hw2, hn, hsum, hnc32, hwnc, hend⟩ := h
  have h1 : k * nchunks c n ≤ w * nchunks c n := Nat.mul_le_mul_right _ (by omega)
  have h2 : (k + 1) * nchunks c n ≤ w * nchunks c n := Nat.mul_le_mul_right _ (by omega)
  unfold queueRange initQueueArgs
  simp only [hnc]
  rw [u32_wrap k (by omega) (by omega), u32_wrap (nchunks c n : Nat) (by omega) (by omega)]
  rw [partBegin_ideal w k _ hw hw2 (by omega) (by omega) hnc32,
    partEnd_ideal w k _ hw hw2 (by omega) (by omega) hnc32]

open PikaVerif.BulkPlan in
/-- Under `SafeC` chunk `j < nc` covers `[j·c, min((j+1)·c, n))`, whichever worker runs it. -/
theorem chunkRange_ideal (S : CTy) (w n c k j : Nat) (h : SafeC S w n c) (hk : k < w)
    (hj : j < nchunks c n) :
    chunkRange S n c k j = (((j * c : Nat) : Int), ((min ((j + 1) * c) n : Nat) : Int)) ∧
    noUB S w n c k j = true := by
  have hnc := numChunksOf_ideal S w n c h
  obtain ⟨hS, hc, hc2, hw, hw2, hn, hsum, hnc32, hwnc, hend⟩ := h
  have h1 : (j + 1) * c ≤ nchunks c n * c := Nat.mul_le_mul_right _ (by omega)
  have h2 : nchunks c n ≤ nchunks c n * c := Nat.le_mul_of_pos_right _ (by omega)
  have h3 : c ≤ nchunks c n * c := Nat.le_mul_of_pos_left _ (by omega)
  have f1 : S.fits ((((j + 1) * c : Nat)) : Int) = true := fits_mono S hS (by omega) (by omega) hend
  have f2 : S.fits ((j : Int) + 1) = true := fits_mono S hS (by omega) (by omega) hend
  have f3 : S.fits (c : Int) = true := fits_mono S hS (by omega) (by omega) hend
  have hch := chunk_ideal_aux S n c j hS hn f1 f2 f3 (by omega) hc2
  unfold chunkRange noUB taskArgs initQueueArgs
  simp only [hnc.1, hnc.2]
  rw [CTy.wrap_of_fits (by rcases hS with rfl | rfl | rfl | rfl <;> decide) hn,
    u32_wrap c (by omega) (by omega), u32_wrap k (by omega) (by omega),
    u32_wrap (nchunks c n : Nat) (by omega) (by omega)]
  simp only [hch.1, hch.2.1, hch.2.2, initQueueNoUB_true w k _ hw hw2, Bool.and_self, and_self]

end PikaVerif.BulkArith
