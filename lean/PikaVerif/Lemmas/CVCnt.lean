import PikaVerif.Lemmas.CV3
/-!
# Counting `notify_one` calls in log order (C07t)

Ghost state folded over the log: `z t` = the size of the wait queue right after `t`'s last
`cv.enq` (= its position, counted from 1), `k t` = the number of pops (`cv.pop` of a `notify_one`,
`cv.popall` of a `notify_all`) since then.  Pops take the head of the queue and entries are
appended at the tail, so a linked waiter sits at index `< z t - k t`: after `z t` pops it is not
linked any more.
-/
namespace PikaVerif.CV
open PikaVerif

structure Gk where
  k : Nat → Nat
  z : Nat → Nat

def gk0 : Gk := ⟨fun _ => 0, fun _ => 0⟩

def obsK (g : Gk) : Ev → Gk
  | .cvEnq t z _ => { k := upd g.k t 0, z := upd g.z t z }
  | .popResume _ _ _ _ => { g with k := fun u => g.k u + 1 }
  | .popAll _ _ _ _ => { g with k := fun u => g.k u + 1 }
  | _ => g

def obsKLog (g : Gk) : List Ev → Gk
  | [] => g
  | e :: es => obsKLog (obsK g e) es

/-- a linked waiter's index in the queue plus the pops since its enqueue stays below its
    enqueue position -/
def Cnt (s : St) (g : Gk) : Prop := ∀ t, t ∈ s.queue → s.queue.idxOf t + g.k t < g.z t

theorem idxOf_erase_le (u t : Nat) (hne : u ≠ t) : ∀ l : List Nat, (l.erase t).idxOf u ≤ l.idxOf u := by
  intro l
  induction l with
  | nil => simp
  | cons a l ih =>
    by_cases hat : a = t
    · subst hat
      simp only [List.erase_cons_head, List.idxOf_cons]
      have : (a == u) = false := by simp; exact fun h => hne h.symm
      simp [this]
    · rw [List.erase_cons_tail (by simpa using hat)]
      simp only [List.idxOf_cons]
      cases (a == u) <;> simp <;> omega

theorem popCore_cnt (s s' : St) (g : Gk) (t z q : Nat) (d : Bool) (pcT : Pc) (hA : Inv s) (hc : Cnt s g)
    (h : popCore s t z q d pcT = some s') : Cnt s' { g with k := fun u => g.k u + 1 } := by
  unfold popCore at h
  split at h
  case h_2 => simp at h
  rename_i g' rest hq
  (repeat' split at h) <;> first | (simp at h; done) | skip
  all_goals (
    simp only [Option.some.injEq] at h
    subst h
    intro u hu
    have hnd := hA.qNodup
    rw [hq] at hnd
    have hnd' := List.nodup_cons.1 hnd
    have hug : u ≠ g' := by intro he; subst he; exact hnd'.1 hu
    have := hc u (by rw [hq]; simp [hu])
    rw [hq, List.idxOf_cons] at this
    have hb : (g' == u) = false := by simp; exact fun h => hug h.symm
    simp [hb] at this
    show rest.idxOf u + (g.k u + 1) < g.z u
    omega)

theorem cnt_step (s s' : St) (g : Gk) (e : Ev) (hA : Inv s) (hc : Cnt s g) (h : step s e = some s') :
    Cnt s' (obsK g e) := by
  cases e
  case popResume t z q d =>
    simp only [step] at h
    split at h
    case isFalse => simp at h
    split at h
    case h_2 => simp at h
    exact popCore_cnt s s' g t z q d _ hA hc h
  case popAll t z q d =>
    obtain ⟨pcT, h⟩ := popAll_core h
    exact popCore_cnt s s' g t z q d _ hA hc h
  case cvEnq t z b =>
    simp only [step] at h
    split at h
    case isFalse => simp at h
    rename_i hg
    split at h
    case h_2 => simp at h
    rename_i hpc
    simp only [Option.some.injEq] at h
    subst h
    have htq : t ∉ s.queue := by
      intro hm; have := (hA.qIff t).1 hm; rw [hpc] at this; simp [inQ] at this
    intro u hu
    simp only [obsK]
    by_cases hut : u = t
    · subst hut
      simp only [upd_same]
      rw [List.idxOf_append]
      simp [htq]
      omega
    · have hm : u ∈ s.queue := by
        rcases List.mem_append.1 hu with h1 | h1
        · exact h1
        · simp at h1; exact absurd h1 hut
      simp only [upd_other _ _ _ _ hut]
      rw [List.idxOf_append]
      simp only [hm, if_true]
      exact hc u hm
  case cvWoke t a b =>
    simp only [step] at h
    split at h
    case isFalse => simp at h
    split at h
    case h_2 => simp at h
    split at h
    case isFalse => simp at h
    split at h
    · simp only [Option.some.injEq] at h; subst h; exact hc
    · simp only [Option.some.injEq] at h
      subst h
      intro u hu
      have hnd := hA.qNodup
      have hm := (hnd.mem_erase_iff).1 hu
      have := hc u hm.2
      have hle := idxOf_erase_le u t hm.1 s.queue
      show (s.queue.erase t).idxOf u + g.k u < g.z u
      omega
  all_goals
    simp only [step] at h <;> (repeat' split at h) <;>
      first
      | (simp at h; done)
      | (simp only [Option.some.injEq] at h; subst h; exact hc)

theorem cnt_of_runLog (log : List Ev) : ∀ (s s' : St) (g : Gk), Inv s → Cnt s g →
    runLog step s log = some s' → Cnt s' (obsKLog g log) := by
  induction log with
  | nil => intro s s' g _ hc h; simp at h; subst h; exact hc
  | cons e es ih =>
    intro s s' g hA hc h
    simp only [runLog] at h
    cases hs : step s e with
    | none => simp [hs] at h
    | some s1 =>
      simp only [hs] at h
      exact ih s1 s' (obsK g e) (step_inv s s1 e hA hs) (cnt_step s s1 g e hA hc hs) h

end PikaVerif.CV
